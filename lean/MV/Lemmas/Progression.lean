/-
Helper lemmas for C19, progressions: the relation `Revoiced`, the loop of
`Score.get_parsimonious_voice_leading` on arbitrary and on plain progressions.
-/
import MV.Lemmas.VoiceLeading
import MV.Lemmas.Parsimonious
namespace MV
open Gen C02

/-- the conclusion of `pvl_same_chord` as a relation -/
def Revoiced (cand c' : Chord) : Prop :=
  c'.elem = cand.elem ∧ c'.ton.deg = cand.ton.deg ∧ c'.ton.mode = cand.ton.mode ∧ c'.ton.oct = 0 ∧
  c'.parts = cand.parts ∧
  c'.ext.repl.Perm cand.ext.repl ∧ c'.ext.add.Perm cand.ext.add ∧ c'.ext.rem.Perm cand.ext.rem ∧
  (c'.ext.fig ∈ threeFigs ↔ cand.ext.fig ∈ threeFigs) ∧ (c'.ext.fig ∈ fourFigs ↔ cand.ext.fig ∈ fourFigs) ∧
  (c'.ext.fig ∈ fourFigs ∨ c'.ext.fig ∈ threeFigs)


theorem parsimonious_revoiced (self cand c' : Chord) (dir : Dir) (h : self.parsimonious cand dir = .ok c') :
    Revoiced cand c' := by
  unfold Chord.parsimonious at h
  simp only [bind, Except.bind] at h
  cases h1 : self.chordNotes with
  | error e => simp [h1] at h
  | ok ns =>
    cases h2 : cand.chordNotes with
    | error e => simp [h1, h2] at h
    | ok cn =>
      cases h3 : self.bassPitch with
      | error e => simp [h1, h2, h3] at h
      | ok root =>
        simp only [h1, h2, h3] at h
        obtain ⟨⟨r1, r2, r3, r4, r5, r6, r7, r8, r9⟩, ho, hfam⟩ := pvlFrom_rv root cand _ dir c' h
        have perm : ∀ a b : List String, sortStrs a = sortStrs b → a.Perm b := fun a b hab =>
          ((sortStrs_perm a).symm.trans (hab ▸ List.Perm.refl _)).trans (sortStrs_perm b)
        exact ⟨r1, r2, r3, ho, r4, perm _ _ r5, perm _ _ r6, perm _ _ r7, r8, r9, hfam⟩


theorem all2_zip_snd {α β γ : Type} (R : β → γ → Prop) (l1 : List α) (l2 : List β) (l3 : List γ)
    (hlen : l1.length = l2.length) (h : All2 (fun (x : α × β) c => R x.2 c) (l1.zip l2) l3) : All2 R l2 l3 := by
  induction l2 generalizing l1 l3 with
  | nil => cases l1 <;> simp at h hlen <;> cases h <;> exact .nil
  | cons b t ih =>
    cases l1 with
    | nil => simp at hlen
    | cons a u =>
      simp only [List.zip_cons_cons] at h
      cases h with
      | cons hab hrest => exact .cons hab (ih u _ (by simpa using hlen) hrest)


theorem pvlLoop_revoiced (ff : Bool) (prev : Chord) (l : List (Dir × Chord)) (res : List Chord)
    (h : pvlLoop ff prev l = .ok res) : All2 (fun (x : Dir × Chord) c' => Revoiced x.2 c') l res := by
  induction l generalizing prev res with
  | nil => simp only [pvlLoop, pure, Except.pure, Except.ok.injEq] at h; subst h; exact .nil
  | cons x rest ih =>
    obtain ⟨d, c⟩ := x
    simp only [pvlLoop, bind, Except.bind] at h
    cases h1 : prev.parsimonious c d with
    | error e => simp [h1] at h
    | ok nw =>
      simp only [h1] at h
      cases h2 : pvlLoop ff (if ff = true then prev else nw) rest with
      | error e => simp [h2] at h
      | ok tl =>
        simp only [h2, pure, Except.pure, Except.ok.injEq] at h; subst h
        exact .cons (parsimonious_revoiced prev c nw d h1) (ih _ _ h2)


theorem spvl_aux (base : Chord) (rest : List Chord) (dirs : List Dir) (ff : Bool) (s' : Score)
    (h : (if dirs.length ≠ (base :: rest).length - 1 then (Except.error Err.assertion : Res Score)
          else (do let fin ← pvlLoop ff base (dirs.zip (List.drop 1 (base :: rest))); pure (base :: fin))) = .ok s') :
    ∃ b r fin, base :: rest = b :: r ∧ s' = b :: fin ∧ All2 Revoiced r fin := by
  split at h
  · simp at h
  · rename_i hlen
    simp only [bind, Except.bind, List.drop_succ_cons, List.drop_zero] at h
    cases hl : pvlLoop ff base (dirs.zip rest) with
    | error e => simp [hl] at h
    | ok fin =>
      simp only [hl, pure, Except.pure, Except.ok.injEq] at h
      refine ⟨base, rest, fin, rfl, h.symm, ?_⟩
      have hall := pvlLoop_revoiced ff base _ fin hl
      refine all2_zip_snd Revoiced _ rest fin ?_ hall
      simp only [ne_eq, Decidable.not_not, List.length_cons, Nat.add_sub_cancel] at hlen
      exact hlen


/-- one step of a progression is a good re-voicing step from `p` to `q` in direction `d` -/
def StepOK (p : Chord) (d : Dir) (q : Chord) : Prop :=
  ∃ bp bq, p.bassPitch = .ok bp ∧ q.bassPitch = .ok bq ∧ -5 ≤ bq - bp ∧ bq - bp ≤ 5 ∧
    (d = .down → bq ≤ bp) ∧ (d = .up → bp ≤ bq)

/-- consecutive steps of a progression -/
def MovesOK : Chord → List (Dir × Chord) → Prop
  | _, [] => True
  | p, (d, q) :: r => StepOK p d q ∧ MovesOK q r


theorem plainCand_bass (c : Chord) (hc : PlainCand c) : ∃ b, c.bassPitch = .ok b := by
  obtain ⟨hp, _, he⟩ := hc
  unfold Chord.bassPitch
  rw [plain_extension_pitches c hp he]
  simp only [bind, Except.bind]
  cases hfig : c.ext.fig <;>
    simp [figShape, invOffsets, thirds, pyIndex, List.range, List.range.loop]


theorem pvlLoop_plain (prev : Chord) (l : List (Dir × Chord)) (hp : PlainCand prev)
    (hl : ∀ x ∈ l, PlainCand x.2) :
    ∃ res, pvlLoop false prev l = .ok res ∧ res.length = l.length ∧
      MovesOK prev (l.map (·.1) |>.zip res) ∧
      All2 (fun (x : Dir × Chord) c' => ∃ f o, c' = mkP x.2 f o ∧ (f ∈ threeFigs ↔ x.2.ext.fig ∈ threeFigs)) l res := by
  induction l generalizing prev with
  | nil => exact ⟨[], rfl, rfl, trivial, .nil⟩
  | cons x rest ih =>
    obtain ⟨d, c⟩ := x
    obtain ⟨bp, hbp⟩ := plainCand_bass prev hp
    have hcn := chordNotes_len_plain prev hp.1 hp.2.2
    obtain ⟨ns, hns, _⟩ := hcn
    have hcc := hl (d, c) (by simp)
    obtain ⟨f, o, hres, hf7, hf3, _, b, hb, h1, h2, h3, h4, _⟩ :=
      parsimonious_plain prev c d bp hbp ⟨ns, hns⟩ hcc
    have hpc : PlainCand (mkP c f o) := ⟨mkP_plain _ _ _, hf7, hcc.2.2⟩
    obtain ⟨res, hr, hlen, hmoves, hall⟩ := ih (mkP c f o) hpc (fun y hy => hl y (by simp [hy]))
    refine ⟨mkP c f o :: res, ?_, by simp [hlen], ?_, .cons ⟨f, o, rfl, hf3⟩ hall⟩
    · simp only [pvlLoop, hres, bind, Except.bind, Bool.false_eq_true, if_false, hr, pure, Except.pure]
    · exact ⟨⟨bp, b, hbp, hb, h1, h2, h3, h4⟩, hmoves⟩



/-! ### termination of `recursive_correct_octave` on plain chords -/

theorem bassPitch_congr (c c' : Chord) (h1 : c'.elem = c.elem) (h2 : c'.ext = c.ext) (h3 : c'.ton = c.ton)
    (h4 : c'.oct = c.oct) : c'.bassPitch = c.bassPitch := by
  have hs : SameHarm c' c := ⟨h1, h3, h4⟩
  unfold Chord.bassPitch Chord.extensionPitches Chord.extensionNotes
  rw [h2, pitchesOf_congr c' c hs]
  simp only [calc_congr c' c hs]

theorem bassPitch_o_plain (c : Chord) (k b : Int) (hp : Plain c) (he : 0 ≤ c.elem ∧ c.elem < 7)
    (hb : c.bassPitch = .ok b) : (c.o k).bassPitch = .ok (b + 12 * k) := by
  unfold Chord.bassPitch at hb ⊢
  rw [plain_extension_pitches c hp he] at hb
  rw [plain_extension_pitches (c.o k) hp he]
  simp only [bind, Except.bind] at hb ⊢
  have hfig : (c.o k).ext.fig = c.ext.fig := rfl
  rw [hfig]
  generalize invOffsets (figShape c.ext.fig).1 (figShape c.ext.fig).2 = offs at hb ⊢
  cases offs with
  | nil => simp [pyIndex] at hb
  | cons a t =>
    have hneg : ¬ ((t.length : Int) + 1 ≤ 0) := by omega
    simp [pyIndex, hneg] at hb ⊢
    rw [← hb]
    unfold Chord.degPitch Chord.base Chord.o
    simp only
    omega

theorem shiftKept_ok (k : Int) (fixed : List (String × Bool)) (c : Chord)
    (hk : ∀ p ∈ fixed, p.2 = false → p.1 ∈ c.parts.map (·.1)) : ∃ c', shiftKept k fixed c = .ok c' := by
  induction fixed generalizing c with
  | nil => exact ⟨c, rfl⟩
  | cons p rest ih =>
    obtain ⟨v, ch⟩ := p
    unfold shiftKept
    cases ch with
    | true => simp only [if_true]; exact ih c (fun q hq => hk q (by simp [hq]))
    | false =>
      simp only [Bool.false_eq_true, if_false, bind, Except.bind]
      have hv : v ∈ c.parts.map (·.1) := hk (v, false) (by simp) rfl
      obtain ⟨q, hq, hqv⟩ := List.mem_map.mp hv
      cases hl : c.parts.lookup v with
      | none =>
        exfalso
        rw [List.lookup_eq_none_iff] at hl
        have := hl q hq
        simp [hqv] at this
      | some m =>
        have : lookupKey v c.parts = .ok m := by unfold lookupKey; simp [hl]
        simp only [this]
        apply ih
        intro r hr hr2
        have := hk r (by simp [hr]) hr2
        unfold Chord.setPart
        simp only [List.map_map]
        have hkeys : (fun p : String × Melody => (if p.1 == v then (p.1, Melody.o m k) else p).1) = (·.1) := by
          funext p; split <;> rfl
        rw [show ((fun (p : String × Melody) => p.1) ∘ fun p => if (p.1 == v) = true then (p.1, Melody.o m k) else p) = (·.1) from hkeys]
        exact this

/-- **`recursive_correct_octave` terminates on plain chords**: with a bass `b` and fuel
`f` such that `-12 f + 6 < b ≤ 12 f - 6` (about `|b| / 12 + 1` recursion levels, far below
Python's limit) it returns a chord, provided the kept voices exist in the chord -/
theorem correctOctave_terminates (fixed : List (String × Bool)) (fuel : Nat) (c : Chord) (b : Int)
    (hp : Plain c) (he : 0 ≤ c.elem ∧ c.elem < 7) (hn : KeysNodup c)
    (hk : ∀ p ∈ fixed, p.2 = false → p.1 ∈ c.parts.map (·.1))
    (hb : c.bassPitch = .ok b) (hf : -12 * (fuel : Int) + 6 < b ∧ b ≤ 12 * (fuel : Int) - 6) :
    ∃ c', correctOctave fixed fuel c = .ok c' := by
  induction fuel generalizing c b with
  | zero => omega
  | succ f ih =>
    unfold correctOctave
    simp only [hb, bind, Except.bind]
    have step : ∀ (j k : Int) (c1 : Chord), (-12 * (f : Int) + 6 < b + 12 * j ∧ b + 12 * j ≤ 12 * (f : Int) - 6) →
        shiftKept k fixed (c.o j) = .ok c1 → ∃ c', correctOctave fixed f c1 = .ok c' := by
      intro j k c1 hrange hc1
      have hrv := shiftKept_rv k fixed (c.o j) c1 hn hc1
      obtain ⟨e1, e2, e3, e4, e5⟩ := hrv
      have hb1 : c1.bassPitch = .ok (b + 12 * j) := by
        rw [bassPitch_congr (c.o j) c1 e1 e2 e3 e4]; exact bassPitch_o_plain c j b hp he hb
      refine ih c1 (b + 12 * j) ?_ ?_ ?_ ?_ hb1 hrange
      · unfold Plain; rw [e2]; exact hp
      · rw [e1]; exact he
      · exact (ChordRv.keysNodup ⟨e1, e2, e3, e4, e5⟩ hn)
      · intro p hp1 hp2
        rw [e5.keys]; exact hk p hp1 hp2
    split
    · obtain ⟨c1, hc1⟩ := shiftKept_ok 1 fixed (c.o (-1)) hk
      simp only [hc1]
      exact step (-1) 1 c1 (by omega) hc1
    · split
      · obtain ⟨c1, hc1⟩ := shiftKept_ok (-1) fixed (c.o 1) hk
        simp only [hc1]
        exact step 1 (-1) c1 (by omega) hc1
      · exact ⟨c, rfl⟩

end MV
