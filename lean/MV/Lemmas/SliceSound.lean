/-
The sound of a score (C12): per track, the rows of the note matrix of MV/Model/Render.lean with
continuation rows merged into the note they extend (`soundGo`, the fold of harness/sound.impl_sound);
flattening of a score into one timeline per track; cutting timelines; re-joining and windows.
-/
import MV.Lemmas.Slice
namespace MV

/-! ### the pitch of a note reads the chord's header only, and never the note's duration -/

section pitch
variable (c : Chord) (ps : List (String × Melody)) (n : Note)

/-- the chord with other parts -/
abbrev withParts (c : Chord) (ps : List (String × Melody)) : Chord := { c with parts := ps }

theorem realChord_parts : n.realChord (withParts c ps) = withParts (n.realChord c) ps := by
  unfold Note.realChord; cases n.mode <;> rfl
theorem scalePitches_parts : (withParts c ps).scalePitches = c.scalePitches := rfl
theorem chromaticPitches_parts : (withParts c ps).chromaticPitches = c.chromaticPitches := rfl
theorem basicPitch_parts : basicPitch (withParts c ps) n = basicPitch c n := by
  unfold basicPitch
  simp only [realChord_parts, scalePitches_parts]
  rfl
theorem reqPitch_parts : reqPitch (withParts c ps) = reqPitch c := by
  funext n; simp only [reqPitch, basicPitch_parts]
theorem pitchKey_parts : pitchKey (withParts c ps) = pitchKey c := by
  funext n; simp only [pitchKey, basicPitch_parts]
theorem chordNotesCalc_parts (f r a m) : (withParts c ps).chordNotesCalc f r a m = c.chordNotesCalc f r a m := by
  simp only [Chord.chordNotesCalc, reqPitch_parts, pitchKey_parts]
theorem chordPitches_parts : (withParts c ps).chordPitches = c.chordPitches := by
  simp only [Chord.chordPitches, Chord.chordNotes, pitchesOf, chordNotesCalc_parts, reqPitch_parts]
theorem extensionPitches_parts : (withParts c ps).extensionPitches = c.extensionPitches := by
  simp only [Chord.extensionPitches, Chord.extensionNotes, pitchesOf, chordNotesCalc_parts, reqPitch_parts]
theorem noteToPitch_parts (l : Int) : noteToPitch (withParts c ps) n l = noteToPitch c n l := by
  unfold noteToPitch
  simp only [realChord_parts, scalePitches_parts, chordPitches_parts, extensionPitches_parts,
    chromaticPitches_parts, basicPitch_parts]

theorem noteToPitch_dur (d : Rat) (l : Int) : noteToPitch c { n with dur := d } l = noteToPitch c n l := rfl

theorem noteToRow_parts (idx : Nat) (time : Rat) (last : Option Int) :
    noteToRow n (withParts c ps) idx time last = noteToRow n c idx time last := by
  unfold noteToRow; rw [noteToPitch_parts]

/-- a non-relative note does not read the last pitch -/
theorem noteToPitch_last (h : n.kind.isRelative = false) (l l' : Int) :
    noteToPitch c n l = noteToPitch c n l' := by
  unfold noteToPitch
  cases hk : n.kind <;> simp_all [Kind.isRelative]

end pitch

@[simp] theorem ok_bind {α β : Type} (x : α) (f : α → Res β) : (Except.ok x >>= f) = f x := rfl
@[simp] theorem error_bind {α β : Type} (e : Err) (f : α → Res β) : ((Except.error e : Res α) >>= f) = Except.error e := rfl
@[simp] theorem pure_eq_ok {α : Type} (x : α) : (pure x : Res α) = Except.ok x := rfl

/-! ### sound: merged sounding notes of one track -/

/-- a sounding note: pitch, onset, duration (quarter notes), velocity -/
structure Ev where
  pitch : Int
  onset : Rat
  dur : Rat
  vel : Rat
  deriving DecidableEq, Repr

def Ev.ofRow (r : Row) : Ev := ⟨r.pitch, r.offset, r.dur, r.vel⟩
def Ev.extend (e : Ev) (d : Rat) : Ev := { e with dur := e.dur + d }

/-- the open note after a row: a continuation row extends it, a silence row closes it, a note row
replaces it -/
def stepState (o : Option Ev) (r : Row) : Option Ev :=
  if r.cont then o.map (·.extend r.dur) else if r.silence then none else some (Ev.ofRow r)

/-- the notes completed by a row: every row but a continuation closes the open note -/
def stepOut (o : Option Ev) (r : Row) : List Ev := if r.cont then [] else o.toList

/-- sounding notes of the rows of one track, `o` being the note still open when the rows start
(the loop of `harness/sound.impl_sound` for one track) -/
def soundGo : Option Ev → List Row → List Ev
  | o, [] => o.toList
  | o, r :: rs => stepOut o r ++ soundGo (stepState o r) rs

/-- observational equality of two row computations: same error, or same sounding notes whatever
note is open before -/
def ObsEq (X Y : Res (List Row)) : Prop := ∀ o, Except.map (soundGo o) X = Except.map (soundGo o) Y

theorem ObsEq.rfl' {X : Res (List Row)} : ObsEq X X := fun _ => rfl
theorem ObsEq.of_eq {X Y : Res (List Row)} (h : X = Y) : ObsEq X Y := by subst h; exact ObsEq.rfl'
theorem ObsEq.trans {X Y Z : Res (List Row)} (h1 : ObsEq X Y) (h2 : ObsEq Y Z) : ObsEq X Z :=
  fun o => (h1 o).trans (h2 o)
theorem ObsEq.symm {X Y : Res (List Row)} (h : ObsEq X Y) : ObsEq Y X := fun o => (h o).symm

/-- a common first row in front of observationally equal continuations -/
theorem ObsEq.cons {A : Res (Row × Option Int)} {X Y : Option Int → Res (List Row)}
    (h : ∀ l, ObsEq (X l) (Y l)) :
    ObsEq (do let (row, l) ← A; let rest ← X l; pure (row :: rest))
          (do let (row, l) ← A; let rest ← Y l; pure (row :: rest)) := by
  intro o
  cases A with
  | error e => rfl
  | ok v =>
    obtain ⟨row, l⟩ := v
    have := h l (stepState o row)
    show Except.map (soundGo o) (X l >>= fun rest => pure (row :: rest)) =
      Except.map (soundGo o) (Y l >>= fun rest => pure (row :: rest))
    cases hx : X l <;> cases hy : Y l <;> simp only [hx, hy] at this ⊢
    · exact this
    · cases this
    · cases this
    · simp only [Except.map, Except.ok.injEq] at this
      show Except.ok (soundGo o (row :: _)) = Except.ok (soundGo o (row :: _))
      simp only [soundGo, this]

/-! ### one timeline per track -/

/-- the chord without its parts (all a note's pitch depends on) -/
def hdr (c : Chord) : Chord := { c with parts := [] }

/-- an item of a track's timeline: a note of the part (with the header of its chord), or a stretch
in which the part is absent from the chord -/
inductive TItem where
  | note (c : Chord) (n : Note)
  | gap (d : Rat)
  deriving DecidableEq, Repr

def TItem.dur : TItem → Rat
  | .note _ n => n.dur
  | .gap d => d

/-- `create_melody_for_track` on a flat timeline -/
def tlRows (idx : Nat) : List TItem → Rat → Option Int → Res (List Row)
  | [], _, _ => pure []
  | .note c n :: r, time, last => do
      let (row, last') ← noteToRow n c idx time last
      let rest ← tlRows idx r (time + n.dur) last'
      pure (row :: rest)
  | .gap d :: r, time, _ => tlRows idx r (time + d) none

/-- the timeline of track `tr` in a score -/
def timeline (tr : String) : Score → List TItem
  | [] => []
  | c :: cs =>
      (match c.parts.lookup tr with
        | some m => m.map (TItem.note (hdr c))
        | none => [TItem.gap c.dur]) ++ timeline tr cs

theorem timeline_append (tr : String) (s1 s2 : Score) : timeline tr (s1 ++ s2) = timeline tr s1 ++ timeline tr s2 := by
  induction s1 with
  | nil => rfl
  | cons c cs ih => simp only [List.cons_append, timeline, ih, List.append_assoc]

theorem noteToRow_hdr (n : Note) (c : Chord) (idx : Nat) (time : Rat) (last : Option Int) :
    noteToRow n (hdr c) idx time last = noteToRow n c idx time last := noteToRow_parts c [] n idx time last

theorem tlRows_notes_append (idx : Nat) (c : Chord) (m : Melody) (X : List TItem) (time : Rat) (last : Option Int) :
    tlRows idx (m.map (TItem.note (hdr c)) ++ X) time last =
      (do let (rows, l) ← melodyToRows m c idx time last
          let rest ← tlRows idx X (time + melodyDuration m) l
          pure (rows ++ rest)) := by
  induction m generalizing time last with
  | nil =>
    have e : time + melodyDuration [] = time := by simp only [melodyDuration_nil]; grind
    simp only [List.map_nil, List.nil_append, melodyToRows, e]
    show _ = (tlRows idx X time last >>= fun rest => pure ([] ++ rest))
    cases tlRows idx X time last <;> rfl
  | cons n ns ih =>
    simp only [List.map_cons, List.cons_append, tlRows, melodyToRows, noteToRow_hdr]
    cases h : noteToRow n c idx time last with
    | error e => rfl
    | ok v =>
      obtain ⟨row, l⟩ := v
      have e : time + melodyDuration (n :: ns) = time + n.dur + melodyDuration ns := by
        rw [melodyDuration_cons]; grind
      rw [e]
      simp only [ok_bind, ih]
      cases hm : melodyToRows ns c idx (time + n.dur) l with
      | error e => rfl
      | ok w =>
        obtain ⟨rows, l'⟩ := w
        simp only [ok_bind, pure_eq_ok]
        cases tlRows idx X (time + n.dur + melodyDuration ns) l' <;> rfl

theorem lookup_mem {α : Type} (k : String) (l : List (String × α)) (v : α) (h : l.lookup k = some v) :
    ∃ k', (k', v) ∈ l := by
  induction l with
  | nil => simp at h
  | cons p ps ih =>
    obtain ⟨k', v'⟩ := p
    rw [List.lookup_cons] at h
    cases hk : (k == k') with
    | true => simp only [hk] at h; cases h; exact ⟨k', by simp⟩
    | false =>
      simp only [hk] at h
      obtain ⟨k'', hm⟩ := ih h
      exact ⟨k'', by simp [hm]⟩

/-- on a score in which every part lasts as long as its chord, the track rows of the renderer are
the rows of the track's flat timeline -/
theorem trackRows_eq_tlRows (tr : String) (idx : Nat) (s : Score) (hs : ScoreOK s) (time : Rat) (last : Option Int) :
    trackRows tr idx s time last = tlRows idx (timeline tr s) time last := by
  induction s generalizing time last with
  | nil => rfl
  | cons c cs ih =>
    have ih := ih hs.tail
    unfold trackRows timeline
    cases hl : c.parts.lookup tr with
    | none =>
      simp only [List.singleton_append, tlRows]
      exact ih _ _
    | some m =>
      obtain ⟨k', hm⟩ := lookup_mem tr c.parts m hl
      have hd : melodyDuration m = c.dur := (hs.head.2 (k', m) hm).1
      simp only [tlRows_notes_append, hd]
      cases melodyToRows m c idx time last with
      | error e => rfl
      | ok w =>
        obtain ⟨rows, l'⟩ := w
        show (trackRows tr idx cs (time + c.dur) l' >>= _) = (tlRows idx (timeline tr cs) (time + c.dur) l' >>= _)
        rw [ih]

/-! ### cutting a timeline -/

def TItem.setDur : TItem → Rat → TItem
  | .note c n, d => .note c { n with dur := d }
  | .gap _, d => .gap d

/-- what is left of an item cut at its head: a continuation / a shorter absence -/
def TItem.cutHead : TItem → Rat → TItem
  | .note c _, d => .note c (cont d)
  | .gap _, d => .gap d

def tTake (b : Rat) : List TItem → List TItem
  | [] => []
  | it :: r => if b ≤ 0 then [] else if it.dur ≥ b then [it.setDur b] else it :: tTake (b - it.dur) r

def tDrop (a : Rat) : List TItem → List TItem
  | [] => []
  | it :: r => if a ≤ 0 then it :: r else if it.dur ≤ a then tDrop (a - it.dur) r else it.cutHead (it.dur - a) :: r

def tlDur (l : List TItem) : Rat := sumRat (l.map TItem.dur)
def TPos (l : List TItem) : Prop := ∀ it ∈ l, 0 < it.dur

@[simp] theorem tlDur_nil : tlDur [] = 0 := rfl
theorem tlDur_cons (it : TItem) (l : List TItem) : tlDur (it :: l) = it.dur + tlDur l := by
  unfold tlDur; simp only [List.map_cons, sumRat_cons]
theorem tlDur_append (l1 l2 : List TItem) : tlDur (l1 ++ l2) = tlDur l1 + tlDur l2 := by
  unfold tlDur; simp only [List.map_append, sumRat_append]
theorem TPos.head {it : TItem} {l : List TItem} (h : TPos (it :: l)) : 0 < it.dur := h it (by simp)
theorem TPos.tail {it : TItem} {l : List TItem} (h : TPos (it :: l)) : TPos l := fun x hx => h x (by simp [hx])
theorem tlDur_nonneg {l : List TItem} (h : TPos l) : 0 ≤ tlDur l := by
  induction l with
  | nil => simp
  | cons it r ih => rw [tlDur_cons]; have := h.head; have := ih h.tail; grind

theorem tTake_nonpos (b : Rat) (h : b ≤ 0) (l : List TItem) : tTake b l = [] := by
  cases l with
  | nil => rfl
  | cons it r => simp [tTake, h]

theorem tDrop_nonpos (a : Rat) (h : a ≤ 0) (l : List TItem) : tDrop a l = l := by
  cases l with
  | nil => rfl
  | cons it r => simp [tDrop, h]

theorem tTake_append_ge (b : Rat) (X Y : List TItem) (h : b ≤ tlDur X) : tTake b (X ++ Y) = tTake b X := by
  induction X generalizing b with
  | nil => simp at h; rw [tTake_nonpos b h, tTake_nonpos b h]
  | cons it r ih =>
    rw [tlDur_cons] at h
    simp only [List.cons_append, tTake]
    by_cases h1 : b ≤ 0
    · simp only [h1, if_true]
    · by_cases h2 : it.dur ≥ b
      · simp only [h1, h2, if_true, if_false]
      · simp only [h1, h2, if_false]; rw [ih (b - it.dur) (by grind)]

theorem tTake_append_lt (b : Rat) (X Y : List TItem) (hX : TPos X) (h : tlDur X < b) :
    tTake b (X ++ Y) = X ++ tTake (b - tlDur X) Y := by
  induction X generalizing b with
  | nil => have : b - tlDur [] = b := by simp only [tlDur_nil]; grind
           rw [this]; rfl
  | cons it r ih =>
    rw [tlDur_cons] at h
    have h0 := tlDur_nonneg hX.tail
    have hd := hX.head
    simp only [List.cons_append, tTake]
    rw [if_neg (by grind), if_neg (by grind), ih (b - it.dur) hX.tail (by grind)]
    have : b - it.dur - tlDur r = b - tlDur (it :: r) := by rw [tlDur_cons]; grind
    rw [this]

theorem tDrop_append_le (a : Rat) (X Y : List TItem) (hX : TPos X) (h : tlDur X ≤ a) :
    tDrop a (X ++ Y) = tDrop (a - tlDur X) Y := by
  induction X generalizing a with
  | nil => have : a - tlDur [] = a := by simp only [tlDur_nil]; grind
           rw [this]; rfl
  | cons it r ih =>
    rw [tlDur_cons] at h
    have h0 := tlDur_nonneg hX.tail
    have hd := hX.head
    simp only [List.cons_append, tDrop]
    rw [if_neg (by grind), if_pos (by grind), ih (a - it.dur) hX.tail (by grind)]
    have : a - it.dur - tlDur r = a - tlDur (it :: r) := by rw [tlDur_cons]; grind
    rw [this]

theorem tDrop_append_gt (a : Rat) (X Y : List TItem) (h : a < tlDur X) : tDrop a (X ++ Y) = tDrop a X ++ Y := by
  induction X generalizing a with
  | nil => simp at h; rw [tDrop_nonpos a (by grind), tDrop_nonpos a (by grind)]
  | cons it r ih =>
    rw [tlDur_cons] at h
    simp only [List.cons_append, tDrop]
    by_cases h1 : a ≤ 0
    · simp only [h1, if_true, List.cons_append]
    · by_cases h2 : it.dur ≤ a
      · simp only [h1, h2, if_true, if_false]; rw [ih (a - it.dur) (by grind)]
      · simp only [h1, h2, if_false, List.cons_append]

theorem map_mTake (h : Chord) (b : Rat) (m : Melody) :
    (mTake b m).map (TItem.note h) = tTake b (m.map (TItem.note h)) := by
  induction m generalizing b with
  | nil => rfl
  | cons n ns ih =>
    simp only [mTake, List.map_cons, tTake, TItem.dur]
    by_cases h1 : b ≤ 0
    · simp only [h1, if_true, List.map_nil]
    · by_cases h2 : n.dur ≥ b
      · simp only [h1, h2, if_true, if_false, List.map_cons, List.map_nil, TItem.setDur]
      · simp only [h1, h2, if_false, List.map_cons, ih]

theorem map_mDrop (h : Chord) (a : Rat) (m : Melody) :
    (mDrop a m).map (TItem.note h) = tDrop a (m.map (TItem.note h)) := by
  induction m generalizing a with
  | nil => rfl
  | cons n ns ih =>
    simp only [mDrop, List.map_cons, tDrop, TItem.dur]
    by_cases h1 : a ≤ 0
    · simp only [h1, if_true, List.map_cons]
    · by_cases h2 : n.dur ≤ a
      · simp only [h1, h2, if_true, if_false, ih]
      · simp only [h1, h2, if_false, List.map_cons, TItem.cutHead]

theorem tlDur_notes (h : Chord) (m : Melody) : tlDur (m.map (TItem.note h)) = melodyDuration m := by
  unfold tlDur melodyDuration; rw [List.map_map]; rfl

theorem TPos_notes (h : Chord) (m : Melody) (hm : Pos m) : TPos (m.map (TItem.note h)) := by
  intro it hit
  rcases List.mem_map.mp hit with ⟨n, hn, rfl⟩
  exact hm n hn

/-- the timeline segment of one chord -/
def seg (tr : String) (c : Chord) : List TItem :=
  match c.parts.lookup tr with
  | some m => m.map (TItem.note (hdr c))
  | none => [TItem.gap c.dur]

theorem timeline_cons (tr : String) (c : Chord) (cs : Score) : timeline tr (c :: cs) = seg tr c ++ timeline tr cs := rfl

theorem lookup_map_snd {α β : Type} (k : String) (l : List (String × α)) (f : α → β) :
    (l.map (fun p => (p.1, f p.2))).lookup k = (l.lookup k).map f := by
  induction l with
  | nil => rfl
  | cons p ps ih =>
    obtain ⟨k', v⟩ := p
    simp only [List.map_cons, List.lookup_cons]
    cases (k == k') <;> simp [ih]

theorem seg_dur (tr : String) (c : Chord) (hc : ChordOK c) : tlDur (seg tr c) = c.dur ∧ TPos (seg tr c) := by
  unfold seg
  cases hl : c.parts.lookup tr with
  | none =>
    refine ⟨by rw [tlDur_cons, tlDur_nil]; show c.dur + 0 = c.dur; grind, ?_⟩
    intro it hit; simp at hit; subst hit; exact hc.dur_pos
  | some m =>
    obtain ⟨k', hm⟩ := lookup_mem tr c.parts m hl
    have := hc.2 (k', m) hm
    exact ⟨by simp only [tlDur_notes]; exact this.1, TPos_notes _ m this.2.2.1⟩

theorem seg_cTake (tr : String) (c : Chord) (hc : ChordOK c) (b : Rat) (hb : 0 < b) (h : b ≤ c.dur) :
    seg tr (cTake b c) = tTake b (seg tr c) := by
  have hd := (cTake_ok hc b hb).2
  unfold seg
  have hl : (cTake b c).parts.lookup tr = (c.parts.lookup tr).map (mTake b) := lookup_map_snd tr c.parts (mTake b)
  rw [hl]
  cases c.parts.lookup tr with
  | none =>
    simp only [Option.map_none, hd]
    have e : min b c.dur = b := by grind
    rw [e]
    show _ = tTake b [TItem.gap c.dur]
    unfold tTake
    rw [if_neg (by grind), if_pos (by show c.dur ≥ b; exact h)]
    rfl
  | some m => simp only [Option.map_some]; rw [map_mTake]; rfl

theorem seg_cDrop (tr : String) (c : Chord) (hc : ChordOK c) (a : Rat) (ha : 0 < a) (h : a < c.dur) :
    seg tr (cDrop a c) = tDrop a (seg tr c) := by
  have hd := (cDrop_ok hc a h).2
  unfold seg
  have hl : (cDrop a c).parts.lookup tr = (c.parts.lookup tr).map (mDrop a) := lookup_map_snd tr c.parts (mDrop a)
  rw [hl]
  cases c.parts.lookup tr with
  | none =>
    simp only [Option.map_none, hd]
    have e : c.dur - max a 0 = c.dur - a := by grind
    rw [e]
    show _ = tDrop a [TItem.gap c.dur]
    unfold tDrop
    rw [if_neg (by grind), if_neg (by show ¬ c.dur ≤ a; grind)]
    rfl
  | some m => simp only [Option.map_some]; rw [map_mDrop]; rfl

theorem timeline_sTake (tr : String) (b : Rat) (s : Score) (hs : ScoreOK s) :
    timeline tr (sTake b s) = tTake b (timeline tr s) := by
  induction s generalizing b with
  | nil => rfl
  | cons c cs ih =>
    have hc := hs.head
    have hD := hc.dur_pos
    obtain ⟨hsd, hsp⟩ := seg_dur tr c hc
    rw [timeline_cons]
    unfold sTake
    by_cases h1 : b ≤ 0
    · rw [if_pos h1, tTake_nonpos b h1]; rfl
    · rw [if_neg h1]
      by_cases h2 : c.dur ≥ b
      · rw [if_pos h2, tTake_append_ge b _ _ (by rw [hsd]; exact h2), timeline_cons,
          seg_cTake tr c hc b (by grind) h2]
        simp [timeline]
      · rw [if_neg h2, timeline_cons, ih (b - c.dur) hs.tail,
          tTake_append_lt b _ _ hsp (by rw [hsd]; grind), hsd]

theorem timeline_sDrop (tr : String) (a : Rat) (s : Score) (hs : ScoreOK s) :
    timeline tr (sDrop a s) = tDrop a (timeline tr s) := by
  induction s generalizing a with
  | nil => rfl
  | cons c cs ih =>
    have hc := hs.head
    have hD := hc.dur_pos
    obtain ⟨hsd, hsp⟩ := seg_dur tr c hc
    unfold sDrop
    by_cases h1 : a ≤ 0
    · rw [if_pos h1, tDrop_nonpos a h1]
    · rw [if_neg h1]
      by_cases h2 : c.dur ≤ a
      · rw [if_pos h2, ih (a - c.dur) hs.tail, timeline_cons,
          tDrop_append_le a _ _ hsp (by rw [hsd]; exact h2), hsd]
      · rw [if_neg h2, timeline_cons, timeline_cons, tDrop_append_gt a _ _ (by rw [hsd]; grind),
          seg_cDrop tr c hc a (by grind) (by grind)]

/-! ### a note cut in two sounds the same -/

/-- the row of a note whose pitch computation gave `p` -/
def mkRow (n : Note) (p : Option Int) (idx : Nat) (time : Rat) (last : Option Int) : Row :=
  { pitch := p.getD 0, offset := time, dur := n.dur, vel := n.amp, track := idx,
    silence := n.kind == .r || (n.kind == .l && last.isNone),
    cont := n.kind == .l && last.isSome, tempo := n.tempo, pedal := n.pedal }

/-- the last sounding pitch after a note -/
def nextLast (n : Note) (p : Option Int) (last : Option Int) : Option Int :=
  if !((n.kind == .r || (n.kind == .l && last.isNone)) || (n.kind == .l && last.isSome)) then some (p.getD 0) else last

theorem noteToRow_eq (n : Note) (c : Chord) (idx : Nat) (time : Rat) (last : Option Int) :
    noteToRow n c idx time last =
      (noteToPitch c n (last.getD 0) >>= fun p => pure (mkRow n p idx time last, nextLast n p last)) := rfl

theorem noteToPitch_cont (c : Chord) (d : Rat) (l : Int) : noteToPitch c (cont d) l = .ok none := rfl

theorem nextLast_l (n : Note) (h : n.kind = .l) (p : Option Int) (last : Option Int) : nextLast n p last = last := by
  unfold nextLast; cases last <;> simp [h]

theorem Ev.extend_extend (e : Ev) (d1 d2 : Rat) : (e.extend d1).extend d2 = e.extend (d1 + d2) := by
  unfold Ev.extend; simp only [Ev.mk.injEq, true_and]; grind

theorem note_split (idx : Nat) (c : Chord) (n : Note) (d1 d2 : Rat) (h : d1 + d2 = n.dur) (r : List TItem)
    (time : Rat) (last : Option Int) :
    ObsEq (tlRows idx (.note c { n with dur := d1 } :: .note c (cont d2) :: r) time last)
          (tlRows idx (.note c n :: r) time last) := by
  intro o
  simp only [tlRows, noteToRow_eq, noteToPitch_dur, noteToPitch_cont]
  cases noteToPitch c n (last.getD 0) with
  | error e => rfl
  | ok p =>
    simp only [ok_bind, pure_eq_ok]
    have hl : nextLast (cont d2) none (nextLast { n with dur := d1 } p last) = nextLast n p last :=
      nextLast_l _ rfl _ _
    have ht : time + d1 + (cont d2).dur = time + n.dur := by
      show time + d1 + d2 = _; grind
    rw [hl, ht]
    cases tlRows idx r (time + n.dur) (nextLast n p last) with
    | error e => rfl
    | ok rest =>
      simp only [ok_bind, Except.map]
      congr 1
      simp only [soundGo]
      rw [← List.append_assoc]
      -- the two rows of the split note against the row of the whole note
      have key : stepOut o (mkRow { n with dur := d1 } p idx time last) ++
            stepOut (stepState o (mkRow { n with dur := d1 } p idx time last))
              (mkRow (cont d2) none idx (time + d1) (nextLast { n with dur := d1 } p last)) =
            stepOut o (mkRow n p idx time last) ∧
          stepState (stepState o (mkRow { n with dur := d1 } p idx time last))
              (mkRow (cont d2) none idx (time + d1) (nextLast { n with dur := d1 } p last)) =
            stepState o (mkRow n p idx time last) := by
        simp only [stepOut, stepState, mkRow, nextLast, cont, Ev.ofRow, Ev.extend, ← h]
        clear hl ht
        by_cases hkl : n.kind = Kind.l
        · cases last <;> cases o <;> simp [hkl, Rat.add_assoc]
        · by_cases hkr : n.kind = Kind.r
          · cases last <;> cases o <;> simp [hkr]
          · cases last <;> cases o <;> simp [hkl, hkr]
      rw [key.1, key.2]

theorem TItem.setDur_self (it : TItem) : it.setDur it.dur = it := by
  cases it <;> rfl

/-- a common first item in front of observationally equal continuations -/
theorem ObsEq.item (idx : Nat) (it : TItem) (X Y : List TItem) (time : Rat) (last : Option Int)
    (h : ∀ l, ObsEq (tlRows idx X (time + it.dur) l) (tlRows idx Y (time + it.dur) l)) :
    ObsEq (tlRows idx (it :: X) time last) (tlRows idx (it :: Y) time last) := by
  cases it with
  | gap d => simp only [tlRows]; exact h none
  | note c n => simp only [tlRows]; exact ObsEq.cons h

/-- **re-joining a timeline cut at `t`** sounds like the timeline -/
theorem tl_rejoin (idx : Nat) (tl : List TItem) (t : Rat) (time : Rat) (last : Option Int) :
    ObsEq (tlRows idx (tTake t tl ++ tDrop t tl) time last) (tlRows idx tl time last) := by
  induction tl generalizing t time last with
  | nil => exact ObsEq.rfl'
  | cons it r ih =>
    unfold tTake tDrop
    by_cases h1 : t ≤ 0
    · simp only [h1, if_true, List.nil_append]; exact ObsEq.rfl'
    · simp only [h1, if_false]
      by_cases h2 : it.dur ≥ t
      · simp only [h2, if_true]
        by_cases h3 : it.dur ≤ t
        · have e : t = it.dur := by grind
          subst e
          rw [if_pos (by grind), tDrop_nonpos _ (by grind), TItem.setDur_self]
          exact ObsEq.rfl'
        · simp only [h3, if_false, List.singleton_append]
          cases it with
          | gap d =>
            simp only [TItem.setDur, TItem.cutHead, tlRows, TItem.dur]
            have e : time + t + (d - t) = time + d := by grind
            rw [e]; exact ObsEq.rfl'
          | note c n =>
            exact note_split idx c n t (n.dur - t) (by grind) r time last
      · have h3 : it.dur ≤ t := by grind
        simp only [h2, h3, if_true, if_false, List.cons_append]
        exact ObsEq.item idx it _ _ time last (fun l => ih (t - it.dur) (time + it.dur) l)

/-! ### track list -/

/-- the step of `get_track_list` -/
def addTrack (acc : List String) (p : String) : List String := if acc.contains p then acc else acc ++ [p]

def chordNames (c : Chord) : List String := c.parts.map (·.1)
def scoreNames (s : Score) : List String := s.flatMap chordNames

theorem trackList_eq (s : Score) : trackList s = (scoreNames s).foldl addTrack [] := rfl

theorem addTrack_mono (acc : List String) (p x : String) (h : x ∈ acc) : x ∈ addTrack acc p := by
  unfold addTrack; split <;> simp [h]

theorem addTrack_mem (acc : List String) (p : String) : p ∈ addTrack acc p := by
  unfold addTrack
  by_cases h : acc.contains p = true
  · rw [if_pos h]; exact List.contains_iff_mem.mp h
  · rw [if_neg h]; simp

theorem foldl_addTrack_mono (X : List String) (acc : List String) (x : String) (h : x ∈ acc) :
    x ∈ X.foldl addTrack acc := by
  induction X generalizing acc with
  | nil => exact h
  | cons p ps ih => exact ih _ (addTrack_mono acc p x h)

theorem foldl_addTrack_mem (X : List String) (acc : List String) (x : String) (h : x ∈ X) :
    x ∈ X.foldl addTrack acc := by
  induction X generalizing acc with
  | nil => simp at h
  | cons p ps ih =>
    rcases List.mem_cons.mp h with rfl | h
    · exact foldl_addTrack_mono ps _ _ (addTrack_mem acc x)
    · exact ih _ h

theorem foldl_addTrack_absorb (X : List String) (acc : List String) (h : ∀ x ∈ X, x ∈ acc) :
    X.foldl addTrack acc = acc := by
  induction X generalizing acc with
  | nil => rfl
  | cons p ps ih =>
    have hp : acc.contains p = true := List.contains_iff_mem.mpr (h p (by simp))
    simp only [List.foldl_cons, addTrack, hp, if_true]
    exact ih acc (fun x hx => h x (by simp [hx]))

/-- a repeated block of names does not change the track list -/
theorem foldl_addTrack_dup (X Y : List String) (acc : List String) :
    (X ++ X ++ Y).foldl addTrack acc = (X ++ Y).foldl addTrack acc := by
  simp only [List.foldl_append]
  rw [foldl_addTrack_absorb X (X.foldl addTrack acc) (fun x hx => foldl_addTrack_mem X acc x hx)]

theorem chordNames_cMap (f : Melody → Melody) (c : Chord) : chordNames (cMap f c) = chordNames c := by
  unfold chordNames cMap; simp [List.map_map, Function.comp_def]

theorem scoreNames_cons (c : Chord) (s : Score) : scoreNames (c :: s) = chordNames c ++ scoreNames s := by
  unfold scoreNames; simp
theorem scoreNames_append (s1 s2 : Score) : scoreNames (s1 ++ s2) = scoreNames s1 ++ scoreNames s2 := by
  unfold scoreNames; simp

theorem trackFold_rejoin (s : Score) (t : Rat) (acc : List String) :
    (scoreNames (sTake t s ++ sDrop t s)).foldl addTrack acc = (scoreNames s).foldl addTrack acc := by
  induction s generalizing t acc with
  | nil => rfl
  | cons c cs ih =>
    unfold sTake sDrop
    by_cases h1 : t ≤ 0
    · simp only [h1, if_true, List.nil_append]
    · simp only [h1, if_false]
      by_cases h2 : c.dur ≥ t
      · simp only [h2, if_true]
        by_cases h3 : c.dur ≤ t
        · simp only [h3, if_true]
          rw [sDrop_nonpos _ (by grind)]
          simp only [List.singleton_append, scoreNames_cons, cTake, chordNames_cMap]
        · simp only [h3, if_false, List.singleton_append, scoreNames_cons, cTake, cDrop, chordNames_cMap]
          rw [← List.append_assoc, foldl_addTrack_dup]
      · have h3 : c.dur ≤ t := by grind
        simp only [h2, h3, if_true, if_false, List.cons_append, scoreNames_cons, List.foldl_append]
        exact ih _ _

theorem trackList_rejoin (s : Score) (t : Rat) : trackList (sTake t s ++ sDrop t s) = trackList s := by
  rw [trackList_eq, trackList_eq]; exact trackFold_rejoin s t []

/-! ### the sound of a score -/

/-- the rows of the note matrix, track by track (`get_notes` before flattening) -/
def trackMatrix (s : Score) : Res (List (List Row)) :=
  (trackList s).zipIdx.mapM (fun (t, i) => trackRows t i s 0 none)

theorem getNotes_eq (s : Score) : getNotes s = (trackMatrix s >>= fun per => pure per.flatten) := rfl

/-- sounding notes of track `tr` (rendered as track number `idx`) -/
def trackSound (tr : String) (idx : Nat) (s : Score) : Res (List Ev) :=
  Except.map (soundGo none) (trackRows tr idx s 0 none)

/-- the sound of a score: for every track of `get_track_list`, its sounding notes -/
def soundOf (s : Score) : Res (List (List Ev)) :=
  (trackList s).zipIdx.mapM (fun (t, i) => trackSound t i s)

theorem mapM_map_fusion {α β γ : Type} (f : α → Res β) (g : β → γ) (l : List α) :
    Except.map (List.map g) (l.mapM f) = l.mapM (fun x => Except.map g (f x)) := by
  induction l with
  | nil => rfl
  | cons x xs ih =>
    rw [List.mapM_cons, List.mapM_cons, ← ih]
    cases f x with
    | error e => rfl
    | ok y =>
      simp only [ok_bind, Except.map]
      cases xs.mapM f <;> rfl

/-- `soundOf` is the note matrix with continuations merged, track by track -/
theorem soundOf_eq (s : Score) : soundOf s = Except.map (List.map (soundGo none)) (trackMatrix s) := by
  unfold soundOf trackMatrix trackSound
  rw [mapM_map_fusion]

theorem mapM_congr' {α β : Type} (f g : α → Res β) (l : List α) (h : ∀ x ∈ l, f x = g x) : l.mapM f = l.mapM g := by
  induction l with
  | nil => rfl
  | cons x xs ih =>
    rw [List.mapM_cons, List.mapM_cons, h x (by simp), ih (fun y hy => h y (by simp [hy]))]

theorem ScoreOK.append {s1 s2 : Score} (h1 : ScoreOK s1) (h2 : ScoreOK s2) : ScoreOK (s1 ++ s2) := by
  intro c hc
  rcases List.mem_append.mp hc with h | h
  · exact h1 c h
  · exact h2 c h

/-- cutting a score at `t` and concatenating the pieces: every track sounds the same -/
theorem trackRows_rejoin (s : Score) (hs : ScoreOK s) (t : Rat) (tr : String) (idx : Nat) :
    ObsEq (trackRows tr idx (sTake t s ++ sDrop t s) 0 none) (trackRows tr idx s 0 none) := by
  rw [trackRows_eq_tlRows tr idx _ ((sTake_ok t s hs).append (sDrop_ok t s hs)), trackRows_eq_tlRows tr idx s hs,
    timeline_append, timeline_sTake tr t s hs, timeline_sDrop tr t s hs]
  exact tl_rejoin idx _ t 0 none

theorem soundOf_rejoin (s : Score) (hs : ScoreOK s) (t : Rat) : soundOf (sTake t s ++ sDrop t s) = soundOf s := by
  unfold soundOf
  rw [trackList_rejoin]
  apply mapM_congr'
  intro x _
  exact trackRows_rejoin s hs t x.1 x.2 none

theorem sTake_of_le (b : Rat) (s : Score) (hs : ScoreOK s) (h : scoreDuration s ≤ b) : sTake b s = s := by
  induction s generalizing b with
  | nil => rfl
  | cons c cs ih =>
    have hD := hs.head.dur_pos
    have h0 := scoreDuration_nonneg hs.tail
    rw [scoreDuration_cons] at h
    unfold sTake
    rw [if_neg (by grind)]
    by_cases h2 : c.dur ≥ b
    · rw [if_pos h2]
      have e : cs = [] := by
        by_cases hne : cs = []
        · exact hne
        · have := scoreDuration_pos hs.tail hne; grind
      rw [e, cTake_of_le hs.head b (by grind)]
    · rw [if_neg h2, ih (b - c.dur) hs.tail (by grind)]

/-! ### windows of sounding notes -/

/-- the notes that start before `B`, cut at `B` -/
def truncEv (B : Rat) (evs : List Ev) : List Ev :=
  (evs.filter (fun e => e.onset < B)).map (fun e => { e with dur := min e.dur (B - e.onset) })

/-- the notes that start at or after `A`, shifted by `-A` -/
def dropEv (A : Rat) (evs : List Ev) : List Ev :=
  (evs.filter (fun e => A ≤ e.onset)).map (fun e => { e with onset := e.onset - A })

/-- the notes that start inside `[a, b)`, clipped at `b`, shifted by `-a` -/
def windowEv (a b : Rat) (evs : List Ev) : List Ev := dropEv a (truncEv b evs)

theorem truncEv_append (B : Rat) (x y : List Ev) : truncEv B (x ++ y) = truncEv B x ++ truncEv B y := by
  unfold truncEv; simp only [List.filter_append, List.map_append]
theorem dropEv_append (A : Rat) (x y : List Ev) : dropEv A (x ++ y) = dropEv A x ++ dropEv A y := by
  unfold dropEv; simp only [List.filter_append, List.map_append]
@[simp] theorem truncEv_nil (B : Rat) : truncEv B [] = [] := rfl
@[simp] theorem dropEv_nil (A : Rat) : dropEv A [] = [] := rfl

theorem truncEv_eq_nil (B : Rat) (l : List Ev) (h : ∀ e ∈ l, B ≤ e.onset) : truncEv B l = [] := by
  unfold truncEv
  rw [List.filter_eq_nil_iff.mpr]; rfl
  intro e he; have := h e he; simp; grind

theorem dropEv_eq_nil (A : Rat) (l : List Ev) (h : ∀ e ∈ l, e.onset < A) : dropEv A l = [] := by
  unfold dropEv
  rw [List.filter_eq_nil_iff.mpr]; rfl
  intro e he; have := h e he; simp; grind

/-- a finished note that ended by `B` is untouched by the cut at `B` -/
theorem truncEv_id (B : Rat) (l : List Ev) (h : ∀ e ∈ l, 0 ≤ e.dur ∧ e.onset + e.dur ≤ B ∧ e.onset < B) :
    truncEv B l = l := by
  induction l with
  | nil => rfl
  | cons e es ih =>
    have he := h e (by simp)
    have : truncEv B (e :: es) = truncEv B [e] ++ truncEv B es := truncEv_append B [e] es
    rw [this, ih (fun x hx => h x (by simp [hx]))]
    unfold truncEv
    have h1 : decide (e.onset < B) = true := by simp; exact he.2.2
    simp only [List.filter_cons, h1, if_true, List.filter_nil, List.map_cons, List.map_nil, List.singleton_append]
    have : min e.dur (B - e.onset) = e.dur := by grind
    rw [this]

/-! ### where the rows of a timeline lie -/

def TNonneg (l : List TItem) : Prop := ∀ it ∈ l, 0 ≤ it.dur
theorem TPos.nonneg {l : List TItem} (h : TPos l) : TNonneg l := fun it hit => by have := h it hit; grind
theorem TNonneg.head {it : TItem} {l : List TItem} (h : TNonneg (it :: l)) : 0 ≤ it.dur := h it (by simp)
theorem TNonneg.tail {it : TItem} {l : List TItem} (h : TNonneg (it :: l)) : TNonneg l := fun x hx => h x (by simp [hx])

theorem noteToRow_ok {n : Note} {c : Chord} {idx : Nat} {time : Rat} {last : Option Int} {row : Row} {l : Option Int}
    (h : noteToRow n c idx time last = .ok (row, l)) :
    ∃ p, noteToPitch c n (last.getD 0) = .ok p ∧ row = mkRow n p idx time last ∧ l = nextLast n p last := by
  rw [noteToRow_eq] at h
  cases hp : noteToPitch c n (last.getD 0) with
  | error e => rw [hp] at h; cases h
  | ok p =>
    rw [hp] at h
    simp only [ok_bind, pure_eq_ok, Except.ok.injEq, Prod.mk.injEq] at h
    exact ⟨p, rfl, h.1.symm, h.2.symm⟩

/-- inversion of `tlRows` on a note item -/
theorem tlRows_note_ok {idx : Nat} {c : Chord} {n : Note} {r : List TItem} {time : Rat} {last : Option Int} {R : List Row}
    (h : tlRows idx (.note c n :: r) time last = .ok R) :
    ∃ p R2, noteToPitch c n (last.getD 0) = .ok p ∧ tlRows idx r (time + n.dur) (nextLast n p last) = .ok R2 ∧
      R = mkRow n p idx time last :: R2 := by
  simp only [tlRows] at h
  cases h1 : noteToRow n c idx time last with
  | error e => rw [h1] at h; cases h
  | ok v =>
    obtain ⟨row, l⟩ := v
    obtain ⟨p, hp, hrow, hl⟩ := noteToRow_ok h1
    rw [h1] at h
    simp only [ok_bind] at h
    cases h2 : tlRows idx r (time + n.dur) l with
    | error e => rw [h2] at h; cases h
    | ok R2 =>
      rw [h2] at h
      simp only [ok_bind, pure_eq_ok, Except.ok.injEq] at h
      subst hrow hl
      exact ⟨p, R2, hp, h2, h.symm⟩

theorem tlRows_note_intro {idx : Nat} {c : Chord} {n : Note} {r : List TItem} {time : Rat} {last : Option Int}
    {p : Option Int} {R2 : List Row}
    (hp : noteToPitch c n (last.getD 0) = .ok p) (h2 : tlRows idx r (time + n.dur) (nextLast n p last) = .ok R2) :
    tlRows idx (.note c n :: r) time last = .ok (mkRow n p idx time last :: R2) := by
  simp only [tlRows, noteToRow_eq, hp, ok_bind, pure_eq_ok, h2]

theorem tlRows_offsets (idx : Nat) (tl : List TItem) (hp : TNonneg tl) (time : Rat) (last : Option Int) (R : List Row)
    (h : tlRows idx tl time last = .ok R) : ∀ row ∈ R, time ≤ row.offset := by
  induction tl generalizing time last R with
  | nil => simp only [tlRows, pure_eq_ok, Except.ok.injEq] at h; subst h; intro row hr; simp at hr
  | cons it r ih =>
    have hd := hp.head
    cases it with
    | gap d =>
      simp only [tlRows] at h
      intro row hr
      have := ih hp.tail _ _ _ h row hr
      have hd' : 0 ≤ d := hd
      grind
    | note c n =>
      obtain ⟨p, R2, _, h2, rfl⟩ := tlRows_note_ok h
      intro row hr
      rcases List.mem_cons.mp hr with rfl | hr
      · show time ≤ time; grind
      · have := ih hp.tail _ _ _ h2 row hr
        have hd' : 0 ≤ n.dur := hd
        grind

/-- every note of `soundGo` starts where the open note or one of the rows starts -/
theorem soundGo_onsets (P : Rat → Prop) (o : Option Ev) (X : List Row) (ho : ∀ e ∈ o, P e.onset)
    (hX : ∀ r ∈ X, P r.offset) : ∀ e ∈ soundGo o X, P e.onset := by
  induction X generalizing o with
  | nil => intro e he; simp only [soundGo, Option.mem_toList] at he; exact ho e he
  | cons r rs ih =>
    intro e he
    simp only [soundGo, List.mem_append] at he
    rcases he with he | he
    · unfold stepOut at he
      split at he
      · simp at he
      · exact ho e (by simpa using he)
    · apply ih (stepState o r) _ (fun x hx => hX x (by simp [hx])) e he
      intro e' he'
      unfold stepState at he'
      split at he'
      · cases o with
        | none => simp at he'
        | some e0 =>
          simp only [Option.map_some, Option.mem_def, Option.some.injEq] at he'
          subst he'; exact ho e0 rfl
      · split at he'
        · simp at he'
        · simp only [Option.mem_def, Option.some.injEq] at he'
          subst he'; exact hX r (by simp)

/-! ### the prefix of a timeline sounds like the timeline cut at `B` -/

theorem Ev.extend_zero (e : Ev) : e.extend 0 = e := by
  unfold Ev.extend; cases e; simp only [Ev.mk.injEq, true_and, and_true]; grind

theorem mkRow_cont (n : Note) (p : Option Int) (idx : Nat) (t : Rat) (last : Option Int) :
    (mkRow n p idx t last).cont = (n.kind == .l && last.isSome) := rfl
theorem mkRow_silence (n : Note) (p : Option Int) (idx : Nat) (t : Rat) (last : Option Int) :
    (mkRow n p idx t last).silence = (n.kind == .r || (n.kind == .l && last.isNone)) := rfl

/-- rows that lie at or after `B` add nothing before `B`, except by extending the open note — and
only when a last pitch is known (a continuation row needs one) -/
theorem tl_late (idx : Nat) (tl : List TItem) (hp : TNonneg tl) (B time : Rat) (hB : B ≤ time) (last : Option Int)
    (o : Option Ev) (R : List Row) (h : tlRows idx tl time last = .ok R) :
    ∃ x, 0 ≤ x ∧ (last = none → x = 0) ∧ truncEv B (soundGo o R) = truncEv B (o.map (·.extend x)).toList := by
  induction tl generalizing time last o R with
  | nil =>
    simp only [tlRows, pure_eq_ok, Except.ok.injEq] at h; subst h
    refine ⟨0, by grind, fun _ => rfl, ?_⟩
    cases o <;> simp [soundGo, Ev.extend_zero]
  | cons it r ih =>
    have hd := hp.head
    cases it with
    | gap d =>
      simp only [tlRows] at h
      have hd' : 0 ≤ d := hd
      obtain ⟨x, hx0, hx1, hx⟩ := ih hp.tail (time + d) (by grind) none o R h
      have := hx1 rfl; subst this
      exact ⟨0, by grind, fun _ => rfl, hx⟩
    | note c n =>
      have hd' : 0 ≤ n.dur := hd
      obtain ⟨p, R2, _, h2, rfl⟩ := tlRows_note_ok h
      have hoff := tlRows_offsets idx r hp.tail _ _ _ h2
      simp only [soundGo]
      by_cases hc : (mkRow n p idx time last).cont = true
      · -- a continuation row: extends the open note
        have hl : n.kind = .l ∧ last.isSome = true := by
          rw [mkRow_cont] at hc; simpa using hc
        obtain ⟨x, hx0, _, hx⟩ := ih hp.tail (time + n.dur) (by grind) (nextLast n p last)
          (stepState o (mkRow n p idx time last)) R2 h2
        refine ⟨n.dur + x, by grind, fun hn => by rw [hn] at hl; simp at hl, ?_⟩
        simp only [stepOut, hc, if_true, List.nil_append]
        rw [hx]
        simp only [stepState, hc, if_true]
        cases o with
        | none => rfl
        | some e => simp only [Option.map_some, Ev.extend_extend]; rfl
      · -- any other row closes the open note; what follows starts at or after `B`
        refine ⟨0, by grind, fun _ => rfl, ?_⟩
        have hc' : (mkRow n p idx time last).cont = false := by simpa using hc
        simp only [stepOut, hc', Bool.false_eq_true, if_false, truncEv_append]
        have hnew : ∀ e ∈ soundGo (stepState o (mkRow n p idx time last)) R2, B ≤ e.onset := by
          apply soundGo_onsets (fun t => B ≤ t)
          · intro e he
            simp only [stepState, hc', Bool.false_eq_true, if_false] at he
            split at he
            · simp at he
            · simp only [Option.mem_def, Option.some.injEq] at he
              subst he; show B ≤ time; exact hB
          · intro row hrow; have := hoff row hrow; grind
        rw [truncEv_eq_nil B _ hnew, List.append_nil]
        cases o <;> simp [Ev.extend_zero]

/-- what is known of the open note while a timeline is rendered: it started and ended in the past, and
if a last pitch is known it ends exactly now (so that a continuation row is contiguous with it) -/
def OpenInv (time : Rat) (last : Option Int) (o : Option Ev) : Prop :=
  ∀ e ∈ o, 0 ≤ e.dur ∧ e.onset + e.dur ≤ time ∧ (last.isSome = true → e.onset + e.dur = time)

theorem OpenInv.trunc_id {time : Rat} {last : Option Int} {o : Option Ev} (h : OpenInv time last o) (B : Rat)
    (hB : time < B) : truncEv B o.toList = o.toList := by
  apply truncEv_id
  intro e he
  have := h e (by simpa using he)
  grind

theorem OpenInv.step {time : Rat} {last : Option Int} {o : Option Ev} (h : OpenInv time last o)
    (n : Note) (hn : 0 ≤ n.dur) (p : Option Int) (idx : Nat) :
    OpenInv (time + n.dur) (nextLast n p last) (stepState o (mkRow n p idx time last)) := by
  intro e he
  unfold stepState at he
  by_cases hc : (mkRow n p idx time last).cont = true
  · have hl : n.kind = .l ∧ last.isSome = true := by rw [mkRow_cont] at hc; simpa using hc
    rw [if_pos hc] at he
    cases o with
    | none => simp at he
    | some e0 =>
      simp only [Option.map_some, Option.mem_def, Option.some.injEq] at he
      subst he
      have := h e0 rfl
      have h3 := this.2.2 hl.2
      show 0 ≤ e0.dur + n.dur ∧ e0.onset + (e0.dur + n.dur) ≤ time + n.dur ∧
        ((nextLast n p last).isSome = true → e0.onset + (e0.dur + n.dur) = time + n.dur)
      refine ⟨by grind, by grind, fun _ => by grind⟩
  · rw [if_neg hc] at he
    split at he
    · simp at he
    · simp only [Option.mem_def, Option.some.injEq] at he
      subst he
      show 0 ≤ n.dur ∧ time + n.dur ≤ time + n.dur ∧
        ((nextLast n p last).isSome = true → time + n.dur = time + n.dur)
      refine ⟨hn, by grind, fun _ => rfl⟩

theorem OpenInv.gap {time : Rat} {last : Option Int} {o : Option Ev} (h : OpenInv time last o) (d : Rat) (hd : 0 ≤ d) :
    OpenInv (time + d) none o := by
  intro e he
  have := h e he
  exact ⟨this.1, by grind, fun hx => by simp at hx⟩

theorem stepOut_trunc {time : Rat} {last : Option Int} {o : Option Ev} (h : OpenInv time last o) (B : Rat)
    (hB : time < B) (row : Row) : truncEv B (stepOut o row) = stepOut o row := by
  unfold stepOut; split
  · rfl
  · exact h.trunc_id B hB

/-- **the prefix of a timeline** up to local time `b` sounds like the whole timeline cut at `time + b` -/
theorem tl_take (idx : Nat) (tl : List TItem) (hp : TNonneg tl) (b : Rat) (hb : 0 < b) (time : Rat) (last : Option Int)
    (o : Option Ev) (hinv : OpenInv time last o) (R : List Row) (h : tlRows idx tl time last = .ok R) :
    ∃ R', tlRows idx (tTake b tl) time last = .ok R' ∧ soundGo o R' = truncEv (time + b) (soundGo o R) := by
  induction tl generalizing b time last o R with
  | nil =>
    simp only [tlRows, pure_eq_ok, Except.ok.injEq] at h; subst h
    exact ⟨[], rfl, by simp only [soundGo]; exact (hinv.trunc_id _ (by grind)).symm⟩
  | cons it r ih =>
    have hd := hp.head
    unfold tTake
    rw [if_neg (by grind)]
    by_cases h2 : it.dur ≥ b
    · rw [if_pos h2]
      cases it with
      | gap d =>
        have hd' : b ≤ d := h2
        simp only [tlRows] at h
        refine ⟨[], rfl, ?_⟩
        obtain ⟨x, _, hx1, hx⟩ := tl_late idx r hp.tail (time + b) (time + d) (by grind) none o R h
        have := hx1 rfl; subst this
        rw [hx]
        simp only [soundGo]
        cases o with
        | none => rfl
        | some e =>
          simp only [Option.map_some, Ev.extend_zero]
          exact (hinv.trunc_id _ (by grind)).symm
      | note c n =>
        have hd' : b ≤ n.dur := h2
        obtain ⟨p, R2, hp1, h2', rfl⟩ := tlRows_note_ok h
        have hp1' : noteToPitch c { n with dur := b } (last.getD 0) = .ok p := hp1
        refine ⟨_, tlRows_note_intro (n := { n with dur := b }) (R2 := []) hp1' rfl, ?_⟩
        obtain ⟨x, hx0, _, hx⟩ := tl_late idx r hp.tail (time + b) (time + n.dur) (by grind) (nextLast n p last)
          (stepState o (mkRow n p idx time last)) R2 h2'
        simp only [soundGo, truncEv_append]
        rw [hx, stepOut_trunc hinv _ (by grind)]
        have e1 : stepOut o (mkRow { n with dur := b } p idx time last) = stepOut o (mkRow n p idx time last) := rfl
        rw [e1]
        congr 1
        -- the open note after the clipped row against the cut of the open note after the whole row
        unfold stepState
        by_cases hc : (mkRow n p idx time last).cont = true
        · have hc2 : (mkRow { n with dur := b } p idx time last).cont = true := hc
          have hl : n.kind = .l ∧ last.isSome = true := by rw [mkRow_cont] at hc; simpa using hc
          rw [if_pos hc, if_pos hc2]
          cases o with
          | none => rfl
          | some e =>
            have := hinv e rfl
            have h3 := this.2.2 hl.2
            simp only [Option.map_some, Option.toList_some, truncEv, Ev.extend]
            have hlt : decide (e.onset < time + b) = true := by simp; grind
            simp only [List.filter_cons, hlt, if_true, List.filter_nil, List.map_cons, List.map_nil]
            show [_] = [_]
            congr 1
            show Ev.mk e.pitch e.onset (e.dur + b) e.vel = Ev.mk e.pitch e.onset _ e.vel
            congr 1
            show e.dur + b = min (e.dur + n.dur + x) (time + b - e.onset)
            grind
        · have hc2 : ¬ (mkRow { n with dur := b } p idx time last).cont = true := hc
          rw [if_neg hc, if_neg hc2]
          by_cases hs : (mkRow n p idx time last).silence = true
          · have hs2 : (mkRow { n with dur := b } p idx time last).silence = true := hs
            rw [if_pos hs, if_pos hs2]; rfl
          · have hs2 : ¬ (mkRow { n with dur := b } p idx time last).silence = true := hs
            rw [if_neg hs, if_neg hs2]
            simp only [Option.map_some, Option.toList_some, truncEv, Ev.extend, Ev.ofRow, mkRow]
            have hlt : decide (time < time + b) = true := by simp; grind
            simp only [List.filter_cons, hlt, if_true, List.filter_nil, List.map_cons, List.map_nil]
            show [_] = [_]
            congr 1
            show Ev.mk _ time b _ = Ev.mk _ time _ _
            congr 1
            show b = min (n.dur + x) (time + b - time)
            grind
    · rw [if_neg h2]
      cases it with
      | gap d =>
        have hd' : 0 ≤ d := hd
        have h2' : d < b := by
          have : ¬ (d ≥ b) := h2
          grind
        simp only [tlRows] at h ⊢
        obtain ⟨R', hR', hs⟩ := ih hp.tail (b - d) (by grind) (time + d) none o (hinv.gap d hd') R h
        refine ⟨R', hR', ?_⟩
        have : time + d + (b - d) = time + b := by grind
        rw [hs, this]
      | note c n =>
        have hd' : 0 ≤ n.dur := hd
        have h2' : n.dur < b := by
          have : ¬ (n.dur ≥ b) := h2
          grind
        obtain ⟨p, R2, hp1, h2'', rfl⟩ := tlRows_note_ok h
        obtain ⟨R', hR', hs⟩ := ih hp.tail (b - n.dur) (by grind) (time + n.dur) (nextLast n p last)
          (stepState o (mkRow n p idx time last)) (hinv.step n hd' p idx) R2 h2''
        refine ⟨_, tlRows_note_intro hp1 hR', ?_⟩
        have : time + n.dur + (b - n.dur) = time + b := by grind
        simp only [soundGo, truncEv_append]
        rw [hs, this, stepOut_trunc hinv _ (by grind)]

/-! ### the suffix of a timeline sounds like the notes of the timeline that start after the cut -/

/-- the part's first sounding note (before any absence) is not a relative note: nothing in the timeline
depends on a pitch sounded before it -/
def NoLeadRel : List TItem → Prop
  | [] => True
  | .gap _ :: _ => True
  | .note _ n :: r => if n.kind = .r ∨ n.kind = .l then NoLeadRel r else n.kind.isRelative = false

def Ev.shift (A : Rat) (e : Ev) : Ev := { e with onset := e.onset - A }

/-- the open note of the window run, given the open note of the original run -/
def openRel (A : Rat) (O : Option Ev) : Option Ev := (O.filter (fun e => A ≤ e.onset)).map (Ev.shift A)

theorem dropEv_toList (A : Rat) (O : Option Ev) : dropEv A O.toList = (openRel A O).toList := by
  cases O with
  | none => rfl
  | some e =>
    unfold dropEv openRel
    by_cases h : A ≤ e.onset
    · simp [Option.filter, h, Ev.shift]
    · simp [Option.filter, h]

theorem openRel_old (A : Rat) (O : Option Ev) (h : ∀ e ∈ O, e.onset < A) : openRel A O = none := by
  cases O with
  | none => rfl
  | some e =>
    have := h e rfl
    unfold openRel
    have : ¬ (A ≤ e.onset) := by grind
    simp [Option.filter, this]

theorem openRel_extend (A : Rat) (O : Option Ev) (d : Rat) :
    openRel A (O.map (·.extend d)) = (openRel A O).map (·.extend d) := by
  cases O with
  | none => rfl
  | some e =>
    unfold openRel
    by_cases h : A ≤ e.onset
    · have h' : A ≤ (e.extend d).onset := h
      simp [Option.filter, h, Ev.shift, Ev.extend]
    · have h' : ¬ A ≤ (e.extend d).onset := h
      simp [Option.filter, h, h']

theorem isRelative_rl (n : Note) (h : n.kind = .r ∨ n.kind = .l) : n.kind.isRelative = false := by
  rcases h with h | h <;> rw [h] <;> rfl

/-- the state of the original run `(L, O)` against the state of the window run `(L', O')` -/
def SimRel (A : Rat) (r : List TItem) (L : Option Int) (O : Option Ev) (L' : Option Int) (O' : Option Ev) : Prop :=
  O' = openRel A O ∧ (L' = L ∨ (L' = none ∧ (∀ e ∈ O, e.onset < A) ∧ NoLeadRel r))

theorem tl_sim (idx : Nat) (r : List TItem) (hp : TNonneg r) (A T : Rat) (hA : A ≤ T) (L : Option Int) (O : Option Ev)
    (L' : Option Int) (O' : Option Ev) (hrel : SimRel A r L O L' O') (R : List Row)
    (h : tlRows idx r T L = .ok R) :
    ∃ R', tlRows idx r (T - A) L' = .ok R' ∧ soundGo O' R' = dropEv A (soundGo O R) := by
  induction r generalizing T L O L' O' R with
  | nil =>
    simp only [tlRows, pure_eq_ok, Except.ok.injEq] at h; subst h
    refine ⟨[], rfl, ?_⟩
    simp only [soundGo, dropEv_toList, hrel.1]
  | cons it r ih =>
    have hd := hp.head
    cases it with
    | gap d =>
      have hd' : 0 ≤ d := hd
      simp only [tlRows] at h ⊢
      have e : T - A + d = T + d - A := by grind
      rw [e]
      exact ih hp.tail (T + d) (by grind) none O none O' ⟨hrel.1, .inl rfl⟩ R h
    | note c n =>
      have hd' : 0 ≤ n.dur := hd
      obtain ⟨p, R2, hp1, h2, rfl⟩ := tlRows_note_ok h
      obtain ⟨hO, hL⟩ := hrel
      -- the pitch computation is the same in both runs
      have hp2 : noteToPitch c n (L'.getD 0) = .ok p := by
        rcases hL with hL | ⟨_, _, hnl⟩
        · rw [hL]; exact hp1
        · have hnr : n.kind.isRelative = false := by
            unfold NoLeadRel at hnl
            by_cases hk : n.kind = .r ∨ n.kind = .l
            · exact isRelative_rl n hk
            · rw [if_neg hk] at hnl; exact hnl
          rw [noteToPitch_last c n hnr _ (L.getD 0)]; exact hp1
      have e : T - A + n.dur = T + n.dur - A := by grind
      -- one step of both runs
      have step : stepOut O' (mkRow n p idx (T - A) L') = dropEv A (stepOut O (mkRow n p idx T L)) ∧
          SimRel A r (nextLast n p L) (stepState O (mkRow n p idx T L)) (nextLast n p L')
            (stepState O' (mkRow n p idx (T - A) L')) := by
        subst hO
        rcases hL with hL | ⟨hL, hold, hnl⟩
        · -- same last pitch: the rows have the same flags
          subst hL
          by_cases hc : (mkRow n p idx T L').cont = true
          · have hc2 : (mkRow n p idx (T - A) L').cont = true := hc
            refine ⟨by simp only [stepOut, hc, hc2, if_true]; rfl, ?_, .inl rfl⟩
            simp only [stepState, hc, hc2, if_true]
            exact (openRel_extend A O n.dur).symm
          · have hc2 : ¬ (mkRow n p idx (T - A) L').cont = true := hc
            refine ⟨by simp only [stepOut, hc, hc2]; exact (dropEv_toList A O).symm, ?_, .inl rfl⟩
            simp only [stepState, hc, hc2]
            by_cases hs : (mkRow n p idx T L').silence = true
            · have hs2 : (mkRow n p idx (T - A) L').silence = true := hs
              simp only [hs, hs2, if_true]; rfl
            · have hs2 : ¬ (mkRow n p idx (T - A) L').silence = true := hs
              simp only [hs, hs2]
              unfold openRel
              simp [Option.filter, hA, Ev.shift, Ev.ofRow, mkRow]
        · -- the window run knows no last pitch yet, the open note of the original is older than the window
          subst hL
          have hO' : openRel A O = none := openRel_old A O hold
          have hout : dropEv A (stepOut O (mkRow n p idx T L)) = [] := by
            apply dropEv_eq_nil
            intro e he
            unfold stepOut at he
            split at he
            · simp at he
            · exact hold e (by simpa using he)
          have hc2 : (mkRow n p idx (T - A) none).cont = false := by rw [mkRow_cont]; simp
          rw [hout, hO']
          refine ⟨by simp [stepOut, hc2], ?_⟩
          by_cases hkl : n.kind = .l
          · -- a continuation: silent in the window, (possibly) extending the old note in the original
            have hnl' : NoLeadRel r := by unfold NoLeadRel at hnl; rw [if_pos (.inr hkl)] at hnl; exact hnl
            have hs2 : (mkRow n p idx (T - A) none).silence = true := by rw [mkRow_silence]; simp [hkl]
            have hold' : ∀ e ∈ stepState O (mkRow n p idx T L), e.onset < A := by
              intro e he
              unfold stepState at he
              split at he
              · cases O with
                | none => simp at he
                | some e0 =>
                  simp only [Option.map_some, Option.mem_def, Option.some.injEq] at he
                  subst he; exact hold e0 rfl
              · split at he
                · simp at he
                · rename_i hc hs
                  rw [mkRow_silence] at hs; rw [mkRow_cont] at hc
                  cases L <;> simp [hkl] at hc hs
            refine ⟨?_, .inr ⟨nextLast_l n hkl p none, hold', hnl'⟩⟩
            simp only [stepState, hc2, hs2, Bool.false_eq_true, if_false, if_true]
            exact (openRel_old A _ hold').symm
          · by_cases hkr : n.kind = .r
            · have hnl' : NoLeadRel r := by unfold NoLeadRel at hnl; rw [if_pos (.inl hkr)] at hnl; exact hnl
              have hs2 : (mkRow n p idx (T - A) none).silence = true := by rw [mkRow_silence]; simp [hkr]
              have hc1 : (mkRow n p idx T L).cont = false := by rw [mkRow_cont]; simp [hkr]
              have hs1 : (mkRow n p idx T L).silence = true := by rw [mkRow_silence]; simp [hkr]
              have hl1 : nextLast n p none = none := by unfold nextLast; simp [hkr]
              refine ⟨?_, .inr ⟨hl1, ?_, hnl'⟩⟩
              · simp only [stepState, hc2, hs2, hc1, hs1, Bool.false_eq_true, if_false, if_true]; rfl
              · simp only [stepState, hc1, hs1, Bool.false_eq_true, if_false, if_true]
                intro e he; simp at he
            · -- a sounding note: both runs start the same note and agree from here on
              have hc1 : (mkRow n p idx T L).cont = false := by rw [mkRow_cont]; simp [hkl]
              have hs1 : (mkRow n p idx T L).silence = false := by rw [mkRow_silence]; simp [hkl, hkr]
              have hs2 : (mkRow n p idx (T - A) none).silence = false := by rw [mkRow_silence]; simp [hkl, hkr]
              have hl1 : nextLast n p none = nextLast n p L := by unfold nextLast; simp [hkl, hkr]
              refine ⟨?_, .inl hl1⟩
              simp only [stepState, hc2, hs2, hc1, hs1, Bool.false_eq_true, if_false]
              unfold openRel
              simp [Option.filter, hA, Ev.shift, Ev.ofRow, mkRow]
      obtain ⟨R', hR', hs⟩ := ih hp.tail (T + n.dur) (by grind) _ _ _ _ step.2 R2 h2
      rw [← e] at hR'
      refine ⟨_, tlRows_note_intro hp2 hR', ?_⟩
      simp only [soundGo, dropEv_append, step.1, hs]

theorem stepState_old (A : Rat) (o : Option Ev) (row : Row) (ho : ∀ e ∈ o, e.onset < A) (hr : row.offset < A) :
    ∀ e ∈ stepState o row, e.onset < A := by
  intro e he
  unfold stepState at he
  split at he
  · cases o with
    | none => simp at he
    | some e0 =>
      simp only [Option.map_some, Option.mem_def, Option.some.injEq] at he
      subst he; exact ho e0 rfl
  · split at he
    · simp at he
    · simp only [Option.mem_def, Option.some.injEq] at he
      subst he; exact hr

theorem stepOut_old (A : Rat) (o : Option Ev) (row : Row) (ho : ∀ e ∈ o, e.onset < A) :
    dropEv A (stepOut o row) = [] := by
  apply dropEv_eq_nil
  intro e he
  unfold stepOut at he
  split at he
  · simp at he
  · exact ho e (by simpa using he)

/-- **the suffix of a timeline** from local time `a` on, rendered from scratch, sounds like the notes of
the whole timeline that start at or after `time + a`, shifted — provided its first sounding note does
not need a reference pitch from before the cut -/
theorem tl_drop (idx : Nat) (tl : List TItem) (hp : TNonneg tl) (a : Rat) (ha : 0 ≤ a) (time : Rat) (last : Option Int)
    (o : Option Ev) (hold : ∀ e ∈ o, e.onset < time + a) (hnl : NoLeadRel (tDrop a tl)) (R : List Row)
    (h : tlRows idx tl time last = .ok R) :
    ∃ R', tlRows idx (tDrop a tl) 0 none = .ok R' ∧ soundGo none R' = dropEv (time + a) (soundGo o R) := by
  induction tl generalizing a time last o R with
  | nil =>
    simp only [tlRows, pure_eq_ok, Except.ok.injEq] at h; subst h
    refine ⟨[], rfl, ?_⟩
    simp only [soundGo]
    rw [dropEv_eq_nil _ _ (fun e he => hold e (by simpa using he))]; rfl
  | cons it r ih =>
    have hd := hp.head
    by_cases h1 : a ≤ 0
    · -- the cut is here: the rest is common to both runs
      have ea : a = 0 := by grind
      subst ea
      rw [tDrop_nonpos 0 (by grind)] at hnl ⊢
      have eA : time + 0 = time := by grind
      rw [eA] at hold ⊢
      obtain ⟨R', hR', hs⟩ := tl_sim idx (it :: r) hp time time (by grind) last o none none
        ⟨(openRel_old time o hold).symm, .inr ⟨rfl, hold, hnl⟩⟩ R h
      have e0 : time - time = 0 := by grind
      rw [e0] at hR'
      exact ⟨R', hR', hs⟩
    · unfold tDrop at hnl ⊢
      rw [if_neg h1] at hnl ⊢
      by_cases h2 : it.dur ≤ a
      · rw [if_pos h2] at hnl ⊢
        cases it with
        | gap d =>
          have h2' : d ≤ a := h2
          simp only [tlRows] at h
          have e : time + d + (a - d) = time + a := by grind
          obtain ⟨R', hR', hs⟩ := ih hp.tail (a - d) (by grind) (time + d) none o (by rw [e]; exact hold) hnl R h
          rw [e] at hs
          exact ⟨R', hR', hs⟩
        | note c n =>
          have h2' : n.dur ≤ a := h2
          obtain ⟨p, R2, _, h2'', rfl⟩ := tlRows_note_ok h
          have e : time + n.dur + (a - n.dur) = time + a := by grind
          have hold1 := stepState_old (time + a) o (mkRow n p idx time last) hold (by show time < time + a; grind)
          obtain ⟨R', hR', hs⟩ := ih hp.tail (a - n.dur) (by grind) (time + n.dur) _ _ (by rw [e]; exact hold1) hnl R2 h2''
          rw [e] at hs
          refine ⟨R', hR', ?_⟩
          simp only [soundGo, dropEv_append, stepOut_old _ _ _ hold, List.nil_append, hs]
      · rw [if_neg h2] at hnl ⊢
        cases it with
        | gap d =>
          have h2' : ¬ d ≤ a := h2
          have hd' : 0 ≤ d := hd
          simp only [tlRows, TItem.cutHead, TItem.dur] at h ⊢
          obtain ⟨R', hR', hs⟩ := tl_sim idx r hp.tail (time + a) (time + d) (by grind) none o none none
            ⟨(openRel_old _ o hold).symm, .inl rfl⟩ R h
          have e : time + d - (time + a) = 0 + (d - a) := by grind
          rw [e] at hR'
          exact ⟨R', hR', hs⟩
        | note c n =>
          have h2' : ¬ n.dur ≤ a := h2
          obtain ⟨p, R2, _, h2'', rfl⟩ := tlRows_note_ok h
          have hold1 := stepState_old (time + a) o (mkRow n p idx time last) hold (by show time < time + a; grind)
          have hnl' : NoLeadRel r := by
            simp only [TItem.cutHead, NoLeadRel, cont] at hnl
            simpa using hnl
          obtain ⟨R', hR', hs⟩ := tl_sim idx r hp.tail (time + a) (time + n.dur) (by grind) _ _ none none
            ⟨(openRel_old _ _ hold1).symm, .inr ⟨rfl, hold1, hnl'⟩⟩ R2 h2''
          have e : time + n.dur - (time + a) = 0 + (cont (n.dur - a)).dur := by
            show _ = 0 + (n.dur - a); grind
          rw [e] at hR'
          have hpc : noteToPitch c (cont (n.dur - a)) ((none : Option Int).getD 0) = .ok none := rfl
          have hnl0 : nextLast (cont (n.dur - a)) none none = none := nextLast_l _ rfl _ _
          rw [← hnl0] at hR'
          refine ⟨_, tlRows_note_intro hpc hR', ?_⟩
          simp only [soundGo, dropEv_append, stepOut_old _ _ _ hold, List.nil_append]
          rw [← hs]
          rfl

/-! ### windows of a score -/

theorem timeline_pos (tr : String) (s : Score) (hs : ScoreOK s) : TPos (timeline tr s) := by
  induction s with
  | nil => intro it hit; simp [timeline] at hit
  | cons c cs ih =>
    rw [timeline_cons]
    intro it hit
    rcases List.mem_append.mp hit with h | h
    · exact (seg_dur tr c hs.head).2 it h
    · exact ih hs.tail it h

theorem TItem.setDur_dur (it : TItem) (d : Rat) : (it.setDur d).dur = d := by cases it <;> rfl

theorem tTake_nonneg (b : Rat) (tl : List TItem) (hp : TNonneg tl) : TNonneg (tTake b tl) := by
  induction tl generalizing b with
  | nil => intro it hit; simp [tTake] at hit
  | cons it r ih =>
    unfold tTake
    by_cases h1 : b ≤ 0
    · rw [if_pos h1]; intro x hx; simp at hx
    · rw [if_neg h1]
      by_cases h2 : it.dur ≥ b
      · rw [if_pos h2]; intro x hx
        simp only [List.mem_singleton] at hx; subst hx
        rw [TItem.setDur_dur]; grind
      · rw [if_neg h2]; intro x hx
        rcases List.mem_cons.mp hx with rfl | hx
        · exact hp.head
        · exact ih _ hp.tail x hx

/-- the part `tr` of the score needs no pitch from before the score: its first sounding note
(before any chord without the part) is not a relative note -/
def RefInside (tr : String) (r : Score) : Prop := NoLeadRel (timeline tr r)

theorem map_ok_inv {α β : Type} {f : α → β} {X : Res α} {y : β} (h : Except.map f X = .ok y) :
    ∃ x, X = .ok x ∧ f x = y := by
  cases X with
  | error e => cases h
  | ok x => exact ⟨x, rfl, by simpa [Except.map] using h⟩

/-- **the window of a score, track by track**: if track `tr` of `s` renders to the sounding notes `evs`,
then the same track of the window `[a, b)` renders to the notes of `evs` that start inside the window,
clipped at `b` and shifted by `-a` -/
theorem trackSound_window (s : Score) (hs : ScoreOK s) (a b : Rat) (ha : 0 ≤ a) (hab : a < b) (tr : String) (idx : Nat)
    (evs : List Ev) (hr : trackSound tr idx s = .ok evs) (href : RefInside tr (sWindow a b s)) :
    trackSound tr idx (sWindow a b s) = .ok (windowEv a b evs) := by
  unfold trackSound at hr ⊢
  obtain ⟨R, hR, hev⟩ := map_ok_inv hr
  have hT := sTake_ok b s hs
  have htl : timeline tr (sWindow a b s) = tDrop a (tTake b (timeline tr s)) := by
    unfold sWindow; rw [timeline_sDrop tr a _ hT, timeline_sTake tr b s hs]
  rw [trackRows_eq_tlRows tr idx s hs] at hR
  rw [trackRows_eq_tlRows tr idx _ (sWindow_ok a b s hs), htl]
  unfold RefInside at href
  rw [htl] at href
  have hp := (timeline_pos tr s hs).nonneg
  obtain ⟨R1, hR1, hs1⟩ := tl_take idx _ hp b (by grind) 0 none none (fun e he => by simp at he) R hR
  obtain ⟨R2, hR2, hs2⟩ := tl_drop idx _ (tTake_nonneg b _ hp) a ha 0 none none (fun e he => by simp at he) href R1 hR1
  rw [hR2]
  have e1 : (0 : Rat) + a = a := by grind
  have e2 : (0 : Rat) + b = b := by grind
  rw [e1] at hs2; rw [e2] at hs1
  show Except.ok (soundGo none R2) = _
  rw [hs2, hs1, hev]; rfl

/-- the track number only labels the rows: the sounding notes do not depend on it -/
theorem tlRows_idx (idx idx' : Nat) (tl : List TItem) (time : Rat) (last : Option Int) :
    ObsEq (tlRows idx tl time last) (tlRows idx' tl time last) := by
  induction tl generalizing time last with
  | nil => exact ObsEq.rfl'
  | cons it r ih =>
    cases it with
    | gap d => simp only [tlRows]; exact ih _ _
    | note c n =>
      intro o
      simp only [tlRows, noteToRow_eq]
      cases noteToPitch c n (last.getD 0) with
      | error e => rfl
      | ok p =>
        simp only [ok_bind, pure_eq_ok]
        have := ih (time + n.dur) (nextLast n p last) (stepState o (mkRow n p idx time last))
        cases h1 : tlRows idx r (time + n.dur) (nextLast n p last) <;>
          cases h2 : tlRows idx' r (time + n.dur) (nextLast n p last) <;> simp only [h1, h2] at this ⊢
        · exact this
        · cases this
        · cases this
        · simp only [Except.map, Except.ok.injEq] at this
          simp only [ok_bind, Except.map, Except.ok.injEq, soundGo]
          have e1 : stepOut o (mkRow n p idx' time last) = stepOut o (mkRow n p idx time last) := rfl
          have e2 : stepState o (mkRow n p idx' time last) = stepState o (mkRow n p idx time last) := rfl
          rw [e1, e2, this]

theorem trackSound_idx (tr : String) (idx idx' : Nat) (s : Score) (hs : ScoreOK s) :
    trackSound tr idx s = trackSound tr idx' s := by
  unfold trackSound
  rw [trackRows_eq_tlRows tr idx s hs, trackRows_eq_tlRows tr idx' s hs]
  exact tlRows_idx idx idx' _ 0 none none

end MV
