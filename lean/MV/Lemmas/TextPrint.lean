/-
Lemmas for C05: the text of the codes equals the printed form of the equality model (C20's
`MV.Eq.noteCode`, `melodyCode`, `tonCode`, `chordRepr`, `scoreRepr`) — the two printers of the
framework are the same function.
-/
import MV.Lemmas.Text

namespace MV.Text
open MV Gen


theorem opsText_append (a b : List Op) : opsText (a ++ b) = opsText a ++ opsText b := by
  induction a with
  | nil => simp [opsText]
  | cons x xs ih => simp [opsText, ih, String.append_assoc]

theorem int_repr_natCast (n : Nat) : (n : Int).repr = n.repr := rfl

theorem durOps_text (d : Rat) : opsText (durOps d) = Eq.durCode d := by
  unfold durOps Eq.durCode
  split
  · simp [opsText]
  · split
    · rename_i h; simp [opsText, Op.text, h]
    · rename_i h; simp [opsText, Op.text, h, int_repr_natCast]

theorem head_text (n : Note) : symName n ++ opsText (drumOctOps n)
      = (if n.kind.isNote = true then n.kind.toStr ++ toString n.val
         else if n.kind = .d then "d" ++ toString n.val ++ (if n.oct ≠ 0 then ".oabs(" ++ toString n.oct ++ ")" else "")
         else if n.kind = .x then "x" ++ toString n.val else n.kind.toStr) := by
  unfold symName drumOctOps
  by_cases hn : n.kind.isNote = true
  · have : n.kind ≠ .d := by intro h; rw [h] at hn; simp [Kind.isNote] at hn
    simp [hn, this, opsText]
  · by_cases hd : n.kind = .d
    · by_cases ho : n.oct = 0 <;> simp [hd, ho, opsText, Op.text, Kind.isNote]
    · simp [hn, hd, opsText]

theorem octOps_text (n : Note) : opsText (octOps n)
      = (if (n.oct ≠ 0 && (n.kind.isNote || decide (n.kind = .x))) = true then (if (!n.kind.isRelative) = true then ".o(" else ".oabs(") ++ toString n.oct ++ ")" else "") := by
  unfold octOps
  by_cases ho : n.oct = 0
  · simp [ho, opsText]
  · by_cases hn : n.kind.isNote = true ∨ n.kind = .x
    · have hn' : (n.kind.isNote || decide (n.kind = .x)) = true := by simpa using hn
      by_cases hr : n.kind.isRelative = true <;> simp [ho, hn, hn', hr, opsText, Op.text]
    · have hn' : (n.kind.isNote || decide (n.kind = .x)) = false := by simpa using hn
      simp [ho, hn, hn', opsText]

theorem ampOps_text (n : Note) : opsText (ampOps n)
      = (if (n.kind.isNote || decide (n.kind = .x) || decide (n.kind = .d)) = true then
          (if Eq.ampFigure n.amp = "n" then ".set_amp(0)" else if Eq.ampFigure n.amp ≠ "mf" then "." ++ Eq.ampFigure n.amp else "") else "") := by
  unfold ampOps
  by_cases hp : n.kind.isNote = true ∨ n.kind = .x ∨ n.kind = .d
  · have hp' : (n.kind.isNote || decide (n.kind = .x) || decide (n.kind = .d)) = true := by
      simpa [or_assoc] using hp
    by_cases hz : Eq.ampFigure n.amp = "n"
    · simp [hp, hp', hz, opsText, Op.text]
      decide
    · by_cases hm : Eq.ampFigure n.amp = "mf" <;> simp [hp, hp', hz, hm, opsText, Op.text]
  · have hp' : (n.kind.isNote || decide (n.kind = .x) || decide (n.kind = .d)) = false := by
      have a : n.kind.isNote = false := by simpa using fun h => hp (Or.inl h)
      have b : ¬ n.kind = .x := fun h => hp (Or.inr (Or.inl h))
      have d : ¬ n.kind = .d := fun h => hp (Or.inr (Or.inr h))
      simp [a, b, d]
    simp [hp, hp', opsText]

theorem tagOps_text (n : Note) : opsText (tagOps n)
      = (if n.tags.length > 0 then ".add_tags(" ++ Eq.tagsRepr n.tags ++ ")" else "") := by
  unfold tagOps
  by_cases ht : n.tags.length > 0 <;> simp [ht, opsText, Op.text]

theorem noteCode_text_eq (n : Note) : (noteCode n).text = Eq.noteCode n := by
  have h1 := head_text n
  have h3 := octOps_text n
  have h6 := ampOps_text n
  have h7 := tagOps_text n
  obtain ⟨kind, val, oct, dur, mode, acc, amp, tags, tempo, pedal⟩ := n
  simp only [Code.text, noteCode, noteOps, opsText_append, durOps_text, Eq.noteCode]
  simp only [h3, h6, h7, ← String.append_assoc, h1]
  have hpr : (decide (kind ≠ Kind.r) && decide (kind ≠ Kind.l)) = decide (printed kind) := by
    unfold printed; by_cases a : kind = .r <;> by_cases b : kind = .l <;> simp [a, b]
  cases mode <;> cases acc <;> simp only [modeOps, accOps, opsText, String.append_empty, hpr]
  all_goals (by_cases hp : printed kind <;> simp [hp, opsText, Op.text])

theorem melodyText_eq (m : Melody) : melodyText (melodyCodes m) = Eq.melodyCode m := by
  unfold melodyText melodyCodes Eq.melodyCode
  rw [List.map_map]
  congr 1
  apply List.map_congr_left
  intro n _
  exact noteCode_text_eq n

theorem topsText_append (a b : List TOp) : topsText (a ++ b) = topsText a ++ topsText b := by
  induction a with
  | nil => simp [topsText]
  | cons x xs ih => simp [topsText, ih, String.append_assoc]

/-- every degree name is re-assembled from its parse -/
theorem degree_table_text : ∀ p ∈ DEGREE_TO_STR, (parseDegree p.2).map TCode.text = some p.2 := by decide +kernel

theorem tonCode_text_eq (t : Tonality) : (tonCode t).map TCode.text = Eq.tonCode t := by
  unfold tonCode Eq.tonCode lookupKey
  cases hl : DEGREE_TO_STR.lookup t.deg with
  | none => simp [bind, Except.bind, Except.map]
  | some s =>
      have hp := degree_table_text _ (lookup_mem _ _ _ hl)
      simp only [bind, Except.bind]
      cases hc : parseDegree s with
      | none => simp [hc] at hp
      | some c =>
          have hs : c.sym ++ topsText c.ops = s := by simpa [hc, TCode.text] using hp
          simp only [Except.map, pure, Except.pure, TCode.text, topsText_append, ← String.append_assoc, hs]
          by_cases ho : t.oct = 0
          · simp [ho, topsText, TOp.text, Eq.octCode, String.append_assoc]
          · simp [ho, topsText, TOp.text, Eq.octCode, String.append_assoc]

theorem octText_eq (k : Int) : octText (chordOct k) = Eq.octCode k := by
  unfold octText chordOct Eq.octCode
  by_cases h : k = 0 <;> simp [h]

theorem extSubscript_eq (c : Chord) : extSubscript (extCodeOf c) = Eq.extCode c := by
  unfold extCodeOf Eq.extCode Eq.extText
  by_cases h : (c.ext.normalize.toText == "") = true
  · simp only [h, ↓reduceIte, extSubscript]
  · simp only [h, Bool.false_eq_true, ↓reduceIte, extSubscript]

theorem partsText_eq (ps : List (String × Melody)) :
    partsText (partCodes ps) = "(" ++ Eq.partsCode ps ++ ")" := by
  unfold partsText partCodes Eq.partsCode
  rw [List.map_map]
  have : List.map ((fun (p : String × List Code) => "\t" ++ p.1 ++ "=" ++ melodyText p.2) ∘
        (fun (p : String × Melody) => (p.1, melodyCodes p.2))) ps
      = List.map (fun (p : String × Melody) => "\t" ++ p.1 ++ "=" ++ Eq.melodyCode p.2) ps := by
    apply List.map_congr_left
    intro p _
    simp [melodyText_eq]
  rw [this]
  simp only [String.append_assoc]

/-- `repr(chord)`: the two models print the same text (and raise the same KeyError) -/
theorem chordCode_text_eq (c : Chord) : (chordCode c).map ChordCode.text = Eq.chordRepr c := by
  have ht := tonCode_text_eq c.ton
  unfold chordCode Eq.chordRepr Eq.chordCode
  cases he : lookupKey c.elem ELEMENT_TO_STR with
  | error e => simp [bind, Except.bind, Except.map]
  | ok sym =>
      simp only [bind, Except.bind]
      cases htc : tonCode c.ton with
      | error e =>
          rw [htc] at ht
          simp only [Except.map] at ht
          simp [← ht, Except.map]
      | ok tc =>
          rw [htc] at ht
          simp only [Except.map] at ht
          simp only [← ht, Except.map, pure, Except.pure, ChordCode.text, octText_eq, extSubscript_eq, partsText_eq,
            String.append_assoc]

theorem mapM_plain_text (s : Score) :
    ((s.map Item.plain).mapM itemCode).map (List.map ItemCode.text) = s.mapM Eq.chordRepr := by
  induction s with
  | nil => rfl
  | cons c s ih =>
      have hc := chordCode_text_eq c
      simp only [List.map_cons, List.mapM_cons, itemCode, bind, Except.bind]
      cases h1 : chordCode c with
      | error e =>
          rw [h1] at hc; simp only [Except.map] at hc
          simp [← hc, Except.map]
      | ok cc =>
          rw [h1] at hc; simp only [Except.map] at hc
          simp only [← hc, pure, Except.pure]
          cases h2 : (s.map Item.plain).mapM itemCode with
          | error e =>
              rw [h2] at ih; simp only [Except.map] at ih
              simp [← ih, Except.map]
          | ok cs =>
              rw [h2] at ih; simp only [Except.map] at ih
              simp [← ih, Except.map, ItemCode.text]

/-- `repr(score)` of a score of plain chords: the two models print the same text -/
theorem scoreText_eq (s : Score) : (scoreCodes (s.map Item.plain)).map scoreText = Eq.scoreRepr s := by
  have h := mapM_plain_text s
  unfold scoreCodes Eq.scoreRepr scoreText
  cases h1 : (s.map Item.plain).mapM itemCode with
  | error e => rw [h1] at h; simp only [Except.map] at h; simp [← h, Except.map, bind, Except.bind]
  | ok cs => rw [h1] at h; simp only [Except.map] at h; simp [← h, Except.map, bind, Except.bind, pure, Except.pure]

end MV.Text
