/-
Helper lemmas for C19, the voice-leading optimiser: pointwise list relation `All2`,
re-voicing relations on notes / melodies / chords, structure of `get_score`, rows of the
solution matrix that stay zero through every proposal and loop, index arithmetic of
`get_corrected_note`, part-level description of `get_score`.
-/
import MV.Model.VoiceLeading
import MV.Model.Counterpoint
import MV.Lemmas.Scale
namespace MV

/-! ### pointwise relation of two lists -/

inductive All2 {α β : Type} (R : α → β → Prop) : List α → List β → Prop
  | nil : All2 R [] []
  | cons {a b l l'} : R a b → All2 R l l' → All2 R (a :: l) (b :: l')

namespace All2
variable {α β γ : Type}

theorem length_eq {R : α → β → Prop} {l : List α} {l' : List β} (h : All2 R l l') : l.length = l'.length := by
  induction h with
  | nil => rfl
  | cons _ _ ih => simp [ih]

theorem refl {R : α → α → Prop} (hr : ∀ a, R a a) (l : List α) : All2 R l l := by
  induction l with
  | nil => exact .nil
  | cons a t ih => exact .cons (hr a) ih

theorem trans {R : α → β → Prop} {S : β → γ → Prop} {T : α → γ → Prop} (hrs : ∀ a b c, R a b → S b c → T a c)
    {l : List α} {l' : List β} {l'' : List γ} (h1 : All2 R l l') (h2 : All2 S l' l'') : All2 T l l'' := by
  induction h1 generalizing l'' with
  | nil => cases h2; exact .nil
  | cons hab _ ih =>
    cases h2 with
    | cons hbc h2' => exact .cons (hrs _ _ _ hab hbc) (ih h2')

theorem imp {R S : α → β → Prop} (h : ∀ a b, R a b → S a b) {l : List α} {l' : List β} (h1 : All2 R l l') :
    All2 S l l' := by
  induction h1 with
  | nil => exact .nil
  | cons hab _ ih => exact .cons (h _ _ hab) ih

/-- relation with the image under a function defined on members -/
theorem map_right {R : α → β → Prop} (f : α → β) (l : List α) (h : ∀ a ∈ l, R a (f a)) : All2 R l (l.map f) := by
  induction l with
  | nil => exact .nil
  | cons a t ih => exact .cons (h a (by simp)) (ih (fun x hx => h x (by simp [hx])))

theorem get {R : α → β → Prop} {l : List α} {l' : List β} (h : All2 R l l') (i : Nat) (a : α) (hi : l[i]? = some a) :
    ∃ b, l'[i]? = some b ∧ R a b := by
  induction h generalizing i with
  | nil => simp at hi
  | cons hab _ ih =>
    cases i with
    | zero => simp at hi; subst hi; exact ⟨_, by simp, hab⟩
    | succ k => simp at hi; simpa using ih k hi

end All2

/-- `mapM` in `Except`: the results are pointwise the images -/
theorem mapM_all2 {α β : Type} (f : α → Res β) (l : List α) (l' : List β) (h : l.mapM f = .ok l') :
    All2 (fun a b => f a = .ok b) l l' := by
  induction l generalizing l' with
  | nil => simp [pure, Except.pure] at h; subst h; exact .nil
  | cons a t ih =>
    rw [List.mapM_cons] at h
    cases ha : f a with
    | error e => simp [ha, bind, Except.bind] at h
    | ok b =>
      cases ht : t.mapM f with
      | error e => simp [ha, ht, bind, Except.bind] at h
      | ok bs =>
        simp [ha, ht, bind, Except.bind, pure, Except.pure] at h
        subst h
        exact .cons ha (ih bs ht)

theorem zipIdx_mapM_all2 {α β : Type} (f : α × Nat → Res β) (l : List α) (k : Nat) (l' : List β)
    (h : (l.zipIdx k).mapM f = .ok l') : All2 (fun a b => ∃ j, f (a, j) = .ok b) l l' := by
  induction l generalizing l' k with
  | nil => simp [pure, Except.pure] at h; subst h; exact .nil
  | cons a t ih =>
    rw [List.zipIdx_cons, List.mapM_cons] at h
    cases ha : f (a, k) with
    | error e => simp [ha, bind, Except.bind] at h
    | ok b =>
      cases ht : (t.zipIdx (k + 1)).mapM f with
      | error e => simp [ha, ht, bind, Except.bind] at h
      | ok bs =>
        simp [ha, ht, bind, Except.bind, pure, Except.pure] at h
        subst h
        exact .cons ⟨k, ha⟩ (ih (k + 1) bs ht)


/-! ### re-voicing relations on notes, melodies, chords -/

/-- the same note except for value and octave -/
def Note.sameBut (a b : Note) : Prop := ({ b with val := a.val, oct := a.oct } : Note) = a

theorem Note.sameBut.refl (a : Note) : Note.sameBut a a := rfl

theorem Note.sameBut.trans {a b c : Note} (h1 : Note.sameBut a b) (h2 : Note.sameBut b c) : Note.sameBut a c := by
  unfold Note.sameBut at *
  cases a; cases b; cases c
  simp only [Note.mk.injEq] at *
  obtain ⟨a1, -, -, a2, a3, a4, a5, a6, a7, a8⟩ := h1
  obtain ⟨b1, -, -, b2, b3, b4, b5, b6, b7, b8⟩ := h2
  exact ⟨b1.trans a1, trivial, trivial, b2.trans a2, b3.trans a3, b4.trans a4, b5.trans a5, b6.trans a6, b7.trans a7, b8.trans a8⟩

theorem Note.sameBut.fields {a b : Note} (h : Note.sameBut a b) :
    b.kind = a.kind ∧ b.dur = a.dur ∧ b.mode = a.mode ∧ b.acc = a.acc ∧ b.amp = a.amp ∧ b.tags = a.tags
      ∧ b.tempo = a.tempo ∧ b.pedal = a.pedal := by
  unfold Note.sameBut at h
  cases a; cases b
  simp only [Note.mk.injEq] at h
  obtain ⟨a1, -, -, a2, a3, a4, a5, a6, a7, a8⟩ := h
  exact ⟨a1, a2, a3, a4, a5, a6, a7, a8⟩

/-- only the first note may differ, and only in value and octave -/
inductive HeadRv : Melody → Melody → Prop
  | same (m : Melody) : HeadRv m m
  | head (n n' : Note) (t : Melody) : Note.sameBut n n' → HeadRv (n :: t) (n' :: t)

theorem HeadRv.trans {a b c : Melody} (h1 : HeadRv a b) (h2 : HeadRv b c) : HeadRv a c := by
  cases h1 with
  | same => exact h2
  | head n n' t hn =>
    cases h2 with
    | same => exact .head n n' t hn
    | head _ n'' _ hn' => exact .head n n'' t (hn.trans hn')

/-- every note may differ in value and octave only -/
def NotesRv (m m' : Melody) : Prop := All2 Note.sameBut m m'

theorem HeadRv.notesRv {m m' : Melody} (h : HeadRv m m') : NotesRv m m' := by
  cases h with
  | same => exact All2.refl Note.sameBut.refl _
  | head n n' t hn => exact .cons hn (All2.refl Note.sameBut.refl _)

/-- parts: same names in the same order, melodies related by `R` -/
def PartsRv (R : Melody → Melody → Prop) (p p' : List (String × Melody)) : Prop :=
  All2 (fun a b => b.1 = a.1 ∧ R a.2 b.2) p p'

/-- chords: same degree, figure, tonality and octave; parts related by `R` -/
def ChordRv (R : Melody → Melody → Prop) (c c' : Chord) : Prop :=
  c'.elem = c.elem ∧ c'.ext = c.ext ∧ c'.ton = c.ton ∧ c'.oct = c.oct ∧ PartsRv R c.parts c'.parts

theorem PartsRv.keys {R} {p p' : List (String × Melody)} (h : PartsRv R p p') : p'.map (·.1) = p.map (·.1) := by
  induction h with
  | nil => rfl
  | cons hab _ ih => simp [hab.1, ih]

theorem ChordRv.refl {R : Melody → Melody → Prop} (hr : ∀ m, R m m) (c : Chord) : ChordRv R c c :=
  ⟨rfl, rfl, rfl, rfl, All2.refl (fun a => ⟨rfl, hr a.2⟩) _⟩

theorem ChordRv.trans {R : Melody → Melody → Prop} (ht : ∀ a b c, R a b → R b c → R a c) {a b c : Chord}
    (h1 : ChordRv R a b) (h2 : ChordRv R b c) : ChordRv R a c := by
  obtain ⟨a1, a2, a3, a4, a5⟩ := h1
  obtain ⟨b1, b2, b3, b4, b5⟩ := h2
  exact ⟨b1.trans a1, b2.trans a2, b3.trans a3, b4.trans a4,
    All2.trans (fun x y z hxy hyz => ⟨hyz.1.trans hxy.1, ht _ _ _ hxy.2 hyz.2⟩) a5 b5⟩

/-- keys of a dictionary are distinct -/
def KeysNodup (c : Chord) : Prop := (c.parts.map (·.1)).Nodup

theorem lookup_unique (l : List (String × Melody)) (k : String) (v : Melody) (hn : (l.map (·.1)).Nodup)
    (hl : l.lookup k = some v) (p : String × Melody) (hp : p ∈ l) (hk : (p.1 == k) = true) : p.2 = v := by
  induction l with
  | nil => simp at hp
  | cons q t ih =>
    obtain ⟨qk, qv⟩ := q
    simp only [List.map_cons, List.nodup_cons] at hn
    rw [List.lookup_cons] at hl
    have hk' : p.1 = k := by simpa using hk
    rcases List.mem_cons.mp hp with rfl | hp'
    · simp only at hk'
      subst hk'
      simp at hl
      exact hl
    · have hne : ¬ (k == qk) = true := by
        intro h
        have : k = qk := by simpa using h
        apply hn.1
        rw [← this, ← hk']
        exact List.mem_map_of_mem hp'
      simp only [hne] at hl
      exact ih hn.2 hl hp'

theorem setPart_rv {R : Melody → Melody → Prop} (hr : ∀ m, R m m) (c : Chord) (name : String) (mel m' : Melody)
    (hn : KeysNodup c) (hl : c.parts.lookup name = some mel) (h : R mel m') : ChordRv R c (c.setPart name m') := by
  refine ⟨rfl, rfl, rfl, rfl, ?_⟩
  unfold Chord.setPart
  apply All2.map_right
  intro p hp
  by_cases hk : (p.1 == name) = true
  · simp only [hk, if_true]
    refine ⟨trivial, ?_⟩
    rw [lookup_unique c.parts name mel hn hl p hp hk]; exact h
  · simp only [hk]
    exact ⟨rfl, hr _⟩

theorem ChordRv.keysNodup {R} {c c' : Chord} (h : ChordRv R c c') (hn : KeysNodup c) : KeysNodup c' := by
  unfold KeysNodup at *
  rw [h.2.2.2.2.keys]; exact hn


/-! ### get_score -/

theorem pyIndex_zero {α : Type} (m : List α) (x : α) (h : pyIndex m 0 = .ok x) : ∃ t, m = x :: t := by
  cases m with
  | nil => simp [pyIndex] at h
  | cons a t =>
    refine ⟨t, ?_⟩
    unfold pyIndex at h
    simp at h
    split at h
    · simp at h
    · simp at h; rw [h]

theorem corrected_sameBut (n : Note) (nb nv : Int) : Note.sameBut n (correctedNote n nb nv) := by
  unfold correctedNote Note.sameBut
  split <;> rfl

theorem scoreChord_rv (st : VLState) (newVals : Mat) (j : Nat) (l : List (String × Nat)) (c c' : Chord)
    (hn : KeysNodup c) (h : scoreChord st newVals j l c = .ok c') : ChordRv HeadRv c c' := by
  induction l generalizing c with
  | nil =>
    simp only [scoreChord, pure, Except.pure, Except.ok.injEq] at h
    subst h; exact ChordRv.refl HeadRv.same c
  | cons p rest ih =>
    obtain ⟨ins, i⟩ := p
    unfold scoreChord at h
    cases hl : c.parts.lookup ins with
    | none => simp only [hl] at h; exact ih c hn h
    | some mel =>
      simp only [hl, bind, Except.bind] at h
      cases hf : pyIndex mel 0 with
      | error e => simp [hf] at h
      | ok first =>
        simp only [hf] at h
        obtain ⟨t, rfl⟩ := pyIndex_zero mel first hf
        split at h
        · cases hc : idx2 st.cands i j with
          | error e => simp [hc] at h
          | ok cand =>
            cases hv : idx2 newVals i j with
            | error e => simp [hc, hv] at h
            | ok nv =>
              simp only [hc, hv] at h
              have hstep : ChordRv HeadRv c (c.setPart ins (correctedNote first cand.length nv :: List.drop 1 (first :: t))) :=
                setPart_rv HeadRv.same c ins _ _ hn hl (by
                  simp only [List.drop_succ_cons, List.drop_zero]
                  exact HeadRv.head _ _ _ (corrected_sameBut _ _ _))
              exact ChordRv.trans (R := HeadRv) (fun _ _ _ h1 h2 => HeadRv.trans h1 h2) hstep (ih _ (hstep.keysNodup hn) h)
        · exact ih c hn h

/-- **`get_score` only re-voices first notes**: for every state, every solution matrix and
every score whose chords have distinct part names -/
theorem getScore_rv (st : VLState) (s s' : Score) (dvals : Mat) (hn : ∀ c ∈ s, KeysNodup c)
    (h : st.getScore s dvals = .ok s') : All2 (ChordRv HeadRv) s s' := by
  unfold VLState.getScore at h
  cases hv : matZip (· + ·) st.val dvals with
  | error e => simp [hv, bind, Except.bind] at h
  | ok newVals =>
    simp only [hv, bind, Except.bind] at h
    have hall := zipIdx_mapM_all2 _ s 0 s' h
    clear h
    induction hall with
    | nil => exact .nil
    | cons hab _ ih =>
      obtain ⟨j, hj⟩ := hab
      exact .cons (scoreChord_rv st newVals j _ _ _ (hn _ (by simp)) hj) (ih (fun c hc => hn c (by simp [hc])))


/-! ### rows that stay zero (fixed voices) -/

def AllZero (r : List Int) : Prop := ∀ x ∈ r, x = 0

/-- row `i` of the matrix (if it exists) is identically zero -/
def RowZero (m : Mat) (i : Nat) : Prop := ∀ r, m[i]? = some r → AllZero r

theorem rowZip_zero {f : Int → Int → Int} {r q t : List Int} (h : rowZip f r q = .ok t)
    (hz : ∀ x ∈ r, ∀ y ∈ q, f x y = 0) : AllZero t := by
  induction r generalizing q t with
  | nil =>
    cases q with
    | nil => simp [rowZip, pure, Except.pure] at h; subst h; intro x hx; simp at hx
    | cons y ys => simp [rowZip] at h
  | cons x xs ih =>
    cases q with
    | nil => simp [rowZip] at h
    | cons y ys =>
      simp only [rowZip, bind, Except.bind] at h
      cases ht : rowZip f xs ys with
      | error e => simp [ht] at h
      | ok t' =>
        simp only [ht, pure, Except.pure, Except.ok.injEq] at h
        subst h
        intro z hz'
        rcases List.mem_cons.mp hz' with rfl | hz''
        · exact hz x (by simp) y (by simp)
        · exact ih ht (fun a ha b hb => hz a (by simp [ha]) b (by simp [hb])) z hz''

theorem matZip_row {f : Int → Int → Int} {a b c : Mat} (h : matZip f a b = .ok c) (i : Nat) (ti : List Int)
    (hi : c[i]? = some ti) : ∃ ri qi, a[i]? = some ri ∧ b[i]? = some qi ∧ rowZip f ri qi = .ok ti := by
  induction a generalizing b c i with
  | nil =>
    cases b with
    | nil => simp [matZip, pure, Except.pure] at h; subst h; simp at hi
    | cons y ys => simp [matZip] at h
  | cons x xs ih =>
    cases b with
    | nil => simp [matZip] at h
    | cons y ys =>
      simp only [matZip, bind, Except.bind] at h
      cases hh : rowZip f x y with
      | error e => simp [hh] at h
      | ok hrow =>
        cases ht : matZip f xs ys with
        | error e => simp [hh, ht] at h
        | ok t' =>
          simp only [hh, ht, pure, Except.pure, Except.ok.injEq] at h
          subst h
          cases i with
          | zero => simp at hi; subst hi; exact ⟨x, y, by simp, by simp, hh⟩
          | succ k =>
            simp at hi
            obtain ⟨ri, qi, h1, h2, h3⟩ := ih ht k hi
            exact ⟨ri, qi, by simpa using h1, by simpa using h2, h3⟩

theorem matZip_rowZero {f : Int → Int → Int} {a b c : Mat} (h : matZip f a b = .ok c) (i : Nat)
    (hz : ∀ ri qi, a[i]? = some ri → b[i]? = some qi → ∀ x ∈ ri, ∀ y ∈ qi, f x y = 0) : RowZero c i := by
  intro ti hi
  obtain ⟨ri, qi, h1, h2, h3⟩ := matZip_row h i ti hi
  exact rowZip_zero h3 (hz ri qi h1 h2)

theorem allZero_take {r : List Int} (h : AllZero r) (n : Nat) : AllZero (r.take n) :=
  fun x hx => h x (List.mem_of_mem_take hx)

theorem zipIdx_map_row {α β : Type} (l : List α) (g : α × Nat → β) (i : Nat) (y : β)
    (h : ((l.zipIdx).map g)[i]? = some y) : ∃ x, l[i]? = some x ∧ y = g (x, i) := by
  rw [List.getElem?_map] at h
  cases hx : (l.zipIdx)[i]? with
  | none => simp [hx] at h
  | some p =>
    simp [hx] at h
    rw [List.getElem?_zipIdx] at hx
    cases hl : l[i]? with
    | none => simp [hl] at hx
    | some x =>
      simp [hl] at hx
      exact ⟨x, rfl, by rw [← h, ← hx]⟩

/-- the masked movement sign of a fixed row is zero -/
theorem sgnMov_rowZero (st : VLState) (pitches sgn : Mat) (i : Nat) (hm : RowZero st.mask i)
    (h : st.sgnMov pitches = .ok sgn) : RowZero sgn i := by
  unfold VLState.sgnMov at h
  apply matZip_rowZero h
  intro ri qi _ hq x _ y hy
  rw [List.getElem?_map] at hq
  cases hmi : st.mask[i]? with
  | none => simp [hmi] at hq
  | some mrow =>
    simp [hmi] at hq
    have : y = 0 := by
      have hz := allZero_take (hm mrow hmi) (mrow.length - 1)
      rw [← hq] at hy
      exact hz y hy
    subst this
    simp

theorem clip_zero (m : Int) (hm : 0 ≤ m) : clipInt (-m) m 0 = 0 := by
  unfold clipInt; omega

/-- **one iteration of `voices_optim` leaves a fixed row at zero**, whatever the draws -/
theorem voicesProposal_rowZero (st : VLState) (dvals prop : Mat) (d : Draw) (maxNorm : Int) (i : Nat)
    (hmn : 0 ≤ maxNorm) (hm : RowZero st.mask i) (hd : RowZero dvals i)
    (h : st.voicesProposal dvals d maxNorm = .ok prop) : RowZero prop i := by
  unfold VLState.voicesProposal at h
  simp only [bind, Except.bind] at h
  cases hp : st.pitchSolution dvals with
  | error e => simp [hp] at h
  | ok pitches =>
    simp only [hp] at h
    cases hs : st.sgnMov pitches with
    | error e => simp [hs] at h
    | ok sgn =>
      simp only [hs] at h
      split at h
      · simp at h
      · have hsz := sgnMov_rowZero st pitches sgn i hm hs
        generalize hd1 : (sgn.zipIdx).map (fun (x : List Int × Nat) => (x.1.zipIdx).map (fun (y : Int × Nat) => if d.u1 x.2 y.2 then y.1 else 0) ++ [0]) = delta1 at h
        generalize hd2 : (sgn.zipIdx).map (fun (x : List Int × Nat) => 0 :: (x.1.zipIdx).map (fun (y : Int × Nat) => if d.u2 x.2 y.2 then -y.1 else 0)) = delta2 at h
        have z1 : RowZero delta1 i := by
          intro r hr
          rw [← hd1] at hr
          obtain ⟨x, hx, rfl⟩ := zipIdx_map_row sgn _ i r hr
          intro v hv
          simp only [List.mem_append, List.mem_map, List.mem_singleton] at hv
          rcases hv with ⟨y, hy, rfl⟩ | rfl
          · have := hsz x hx y.1 (by
              have := List.mem_zipIdx (by simpa using hy : (y.1, y.2) ∈ x.zipIdx 0)
              rw [this.2.2]; exact List.getElem_mem _)
            simp [this]
          · rfl
        have z2 : RowZero delta2 i := by
          intro r hr
          rw [← hd2] at hr
          obtain ⟨x, hx, rfl⟩ := zipIdx_map_row sgn _ i r hr
          intro v hv
          simp only [List.mem_cons, List.mem_map] at hv
          rcases hv with rfl | ⟨y, hy, rfl⟩
          · rfl
          · have := hsz x hx y.1 (by
              have := List.mem_zipIdx (by simpa using hy : (y.1, y.2) ∈ x.zipIdx 0)
              rw [this.2.2]; exact List.getElem_mem _)
            simp [this]
        cases hmov : matZip (· + ·) delta1 delta2 with
        | error e => simp [hmov] at h
        | ok mov =>
          simp only [hmov] at h
          cases hsum : matZip (· + ·) dvals mov with
          | error e => simp [hsum] at h
          | ok sm =>
            simp only [hsum, pure, Except.pure, Except.ok.injEq] at h
            subst h
            have zm : RowZero mov i := matZip_rowZero hmov i (fun ri qi h1 h2 x hx y hy => by
              rw [z1 ri h1 x hx, z2 qi h2 y hy]; rfl)
            have zs : RowZero sm i := matZip_rowZero hsum i (fun ri qi h1 h2 x hx y hy => by
              rw [hd ri h1 x hx, zm qi h2 y hy]; rfl)
            intro r hr
            rw [List.getElem?_map] at hr
            cases hsi : sm[i]? with
            | none => simp [hsi] at hr
            | some srow =>
              simp [hsi] at hr
              subst hr
              intro v hv
              obtain ⟨w, hw, rfl⟩ := List.mem_map.mp hv
              rw [zs srow hsi w hw]
              exact clip_zero maxNorm hmn


theorem voicesOptim_rowZero (st : VLState) (maxNorm : Int) (draw : Nat → Draw) (accept : Nat → Bool) (i : Nat)
    (hmn : 0 ≤ maxNorm) (hm : RowZero st.mask i) (n it : Nat) (dvals res : Mat) (hd : RowZero dvals i)
    (h : st.voicesOptim maxNorm draw accept n it dvals = .ok res) : RowZero res i := by
  induction n generalizing it dvals with
  | zero =>
    simp only [VLState.voicesOptim, bind, Except.bind] at h
    cases hp : st.pitchSolution dvals with
    | error e => simp [hp] at h
    | ok p => simp only [hp, pure, Except.pure, Except.ok.injEq] at h; subst h; exact hd
  | succ k ih =>
    simp only [VLState.voicesOptim, bind, Except.bind] at h
    cases hp : st.voicesProposal dvals (draw it) maxNorm with
    | error e => simp [hp] at h
    | ok prop =>
      simp only [hp] at h
      have hz := voicesProposal_rowZero st dvals prop (draw it) maxNorm i hmn hm hd hp
      refine ih (it + 1) _ ?_ h
      split
      · exact hz
      · exact hd

/-- **one iteration of `optimize_rules` leaves a fixed row at zero**, whatever the draws -/
theorem rulesProposal_rowZero (st : VLState) (dvals prop : Mat) (delta : Nat → Nat → Int) (maxNorm : Int) (i : Nat)
    (hm : RowZero st.mask i) (h : st.rulesProposal dvals delta maxNorm = .ok prop) : RowZero prop i := by
  unfold VLState.rulesProposal at h
  simp only [bind, Except.bind] at h
  cases hp : st.pitchSolution dvals with
  | error e => simp [hp] at h
  | ok p =>
    simp only [hp] at h
    cases hs : matZip (· + ·) dvals ((dvals.zipIdx).map (fun (x : List Int × Nat) => (x.1.zipIdx).map (fun (y : Int × Nat) => clipInt (-maxNorm) maxNorm (delta x.2 y.2)))) with
    | error e => simp [hs] at h
    | ok sm =>
      simp only [hs] at h
      exact matZip_rowZero h i (fun ri qi _ h2 x _ y hy => by rw [hm qi h2 y hy]; simp)

theorem rulesOptim_rowZero (st : VLState) (maxNorm : Int) (delta : Nat → Nat → Nat → Int) (accept : Nat → Bool) (i : Nat)
    (hm : RowZero st.mask i) (n it : Nat) (dvals res : Mat) (hd : RowZero dvals i)
    (h : st.rulesOptim maxNorm delta accept n it dvals = .ok res) : RowZero res i := by
  induction n generalizing it dvals with
  | zero =>
    simp only [VLState.rulesOptim, bind, Except.bind] at h
    cases hp : st.pitchSolution dvals with
    | error e => simp [hp] at h
    | ok p => simp only [hp, pure, Except.pure, Except.ok.injEq] at h; subst h; exact hd
  | succ k ih =>
    simp only [VLState.rulesOptim, bind, Except.bind] at h
    cases hp : st.rulesProposal dvals (delta it) maxNorm with
    | error e => simp [hp] at h
    | ok prop =>
      simp only [hp] at h
      have hz := rulesProposal_rowZero st dvals prop (delta it) maxNorm i hm hp
      refine ih (it + 1) _ ?_ h
      split
      · exact hz
      · exact hd

theorem matZeros_rowZero (m : Mat) (i : Nat) : RowZero (matZeros m) i := by
  intro r hr
  unfold matZeros at hr
  rw [List.getElem?_map] at hr
  cases hmi : m[i]? with
  | none => simp [hmi] at hr
  | some row =>
    simp [hmi] at hr
    subst hr
    intro x hx
    obtain ⟨_, _, rfl⟩ := List.mem_map.mp hx
    rfl

/-- the methods that apply the mask -/
def Method.masked : Method → Prop
  | .voices _ m _ _ => 0 ≤ m
  | .rules _ _ _ _ => True
  | .voicesAndRules _ m _ _ _ _ _ _ => 0 ≤ m
  | _ => False

/-- **fixed rows stay zero through the whole optimisation** for the three default-family
methods, for every oracle (draws, accept decisions, iteration budgets) -/
theorem solve_rowZero (st : VLState) (meth : Method) (hmeth : meth.masked) (i : Nat) (hm : RowZero st.mask i)
    (dvals res : Mat) (hd : RowZero dvals i) (h : st.solve dvals meth = .ok res) : RowZero res i := by
  cases meth with
  | voices n m d a => exact voicesOptim_rowZero st m d a i hmeth hm n 0 dvals res hd h
  | rules n m d a => exact rulesOptim_rowZero st m d a i hm n 0 dvals res hd h
  | voicesAndRules n m d a n2 m2 d2 a2 =>
    simp only [VLState.solve, bind, Except.bind] at h
    cases h1 : st.voicesOptim m d a n 0 dvals with
    | error e => simp [h1] at h
    | ok dv =>
      simp only [h1] at h
      exact rulesOptim_rowZero st m2 d2 a2 i hm n2 0 dv res (voicesOptim_rowZero st m d a i hmeth hm n 0 dvals dv hd h1) h
  | random n r best => exact absurd hmeth (by simp [Method.masked])
  | unknown => exact absurd hmeth (by simp [Method.masked])


/-! ### get_corrected_note -/

/-- **index arithmetic of `get_corrected_note`**: value modulo the system size with octave
carry keeps the position `val + nb·octave` in the system, and lands in `0 ≤ val < nb` -/
theorem corrected_index (n : Note) (nb nv : Int) (hnb : 0 < nb) :
    0 ≤ (correctedNote n nb nv).val ∧ (correctedNote n nb nv).val < nb ∧
    (correctedNote n nb nv).val + nb * (correctedNote n nb nv).oct = nv + nb * n.oct := by
  unfold correctedNote
  have hne : nb ≠ 0 := by omega
  simp only [hne, if_false]
  refine ⟨Int.emod_nonneg _ hne, Int.emod_lt_of_pos _ hnb, ?_⟩
  have := Int.emod_add_mul_ediv nv nb
  rw [Int.mul_add]; omega

theorem corrected_kind (n : Note) (nb nv : Int) :
    (correctedNote n nb nv).kind = n.kind ∧ (correctedNote n nb nv).mode = n.mode ∧ (correctedNote n nb nv).acc = n.acc := by
  unfold correctedNote; split <;> exact ⟨rfl, rfl, rfl⟩

/-- a note already inside its system with an unchanged value is returned as it is -/
theorem corrected_id (n : Note) (nb : Int) (h0 : 0 ≤ n.val) (h1 : n.val < nb) : correctedNote n nb n.val = n := by
  unfold correctedNote
  have hne : nb ≠ 0 := by omega
  simp only [hne, if_false]
  rw [Int.emod_eq_of_lt h0 h1, Int.ediv_eq_zero_of_lt h0 h1]
  simp

/-- the size of the note system the optimiser uses for a note of kind `k` in chord `c` -/
def SystemSize (c : Chord) (k : Kind) (nb : Int) : Prop :=
  match k with
  | .s => nb = 7
  | .h | .a => nb = 12
  | .c => ∃ sc, c.chordPitches = .ok sc ∧ nb = sc.length
  | .b => ∃ sc, c.extensionPitches = .ok sc ∧ nb = sc.length
  | _ => False

/-- **the corrected note sounds at position `new_val` of its own system**: its pitch is the
pitch of the same note with the un-normalised value `nv` (same kind, same chord) -/
theorem corrected_pitch (c : Chord) (n : Note) (nb nv last : Int) (hnb : 0 < nb) (hs : SystemSize c n.kind nb)
    (ha : n.acc = none) :
    noteToPitch c (correctedNote n nb nv) last = noteToPitch c { n with val := nv } last := by
  obtain ⟨_, _, hidx⟩ := corrected_index n nb nv hnb
  obtain ⟨hk, hm, hacc⟩ := corrected_kind n nb nv
  generalize correctedNote n nb nv = n' at *
  have mk : ({ n with val := nv } : Note).kind = n.kind := rfl
  have mm : ({ n with val := nv } : Note).mode = n.mode := rfl
  have ma : ({ n with val := nv } : Note).acc = n.acc := rfl
  have mv : ({ n with val := nv } : Note).val = nv := rfl
  have mo : ({ n with val := nv } : Note).oct = n.oct := rfl
  generalize ({ n with val := nv } : Note) = m at *
  rw [← mv, ← mo] at hidx
  rw [← mk] at hk
  rw [← mm] at hm
  rw [← ma] at hacc ha
  rw [← mk] at hs
  clear mk mm ma mv mo
  unfold SystemSize at hs
  unfold noteToPitch
  have hreal : n'.realChord c = m.realChord c := by
    unfold Note.realChord; rw [hm]
  cases hkind : m.kind <;> rw [hkind] at hs hk <;> simp only at hs <;> simp only [hk]
  · -- s
    unfold basicPitch
    simp only [hk, hkind, hreal, hacc, ha]
    subst hs
    rw [hidx]
  · -- h
    unfold basicPitch
    simp only [hk, hkind, hreal]
    subst hs
    rw [hidx]
  · -- c
    obtain ⟨sc, hsc, rfl⟩ := hs
    simp only [hsc, bind, Except.bind]
    rw [hidx]
  · -- b
    obtain ⟨sc, hsc, rfl⟩ := hs
    simp only [hsc, bind, Except.bind]
    rw [hidx]
  · -- a
    unfold basicPitch
    simp only [hk, hkind]
    subst hs
    rw [hidx]

/-! ### what get_score does to one part -/

theorem lookup_setPart_same (parts : List (String × Melody)) (a : String) (m m0 : Melody)
    (h : parts.lookup a = some m0) :
    (parts.map (fun p => if p.1 == a then (p.1, m) else p)).lookup a = some m := by
  induction parts with
  | nil => simp at h
  | cons q t ih =>
    obtain ⟨k, v⟩ := q
    rw [List.lookup_cons] at h
    by_cases hk : k = a
    · subst hk
      simp only [List.map_cons, beq_self_eq_true, if_true, List.lookup_cons]
    · have h1 : (k == a) = false := by simpa using hk
      have h2 : (a == k) = false := beq_eq_false_iff_ne.mpr (fun h => hk h.symm)
      simp only [h2] at h
      simp only [List.map_cons, h1, Bool.false_eq_true, if_false]
      rw [List.lookup_cons]
      simp only [h2]
      exact ih h

theorem lookup_setPart_other (parts : List (String × Melody)) (a b : String) (m : Melody) (hab : b ≠ a) :
    (parts.map (fun p => if p.1 == a then (p.1, m) else p)).lookup b = parts.lookup b := by
  induction parts with
  | nil => rfl
  | cons q t ih =>
    obtain ⟨k, v⟩ := q
    by_cases hk : k = a
    · subst hk
      have hb : (b == k) = false := by simpa using hab
      simp only [List.map_cons, beq_self_eq_true, if_true, List.lookup_cons, hb]
      exact ih
    · have h1 : (k == a) = false := by simpa using hk
      simp only [List.map_cons, h1, Bool.false_eq_true, if_false]
      rw [List.lookup_cons, List.lookup_cons, ih]

theorem pyIndex_zero'' {α : Type} (m : List α) (x : α) (h : pyIndex m 0 = .ok x) : ∃ t, m = x :: t := by
  cases m with
  | nil => simp [pyIndex] at h
  | cons a t =>
    refine ⟨t, ?_⟩
    unfold pyIndex at h
    simp at h
    split at h
    · simp at h
    · simp at h; rw [h]

/-- what `get_score` does to the part `ins` of one chord: untouched, or its first note is
corrected with the entry of the instrument's row -/
def PartResult (st : VLState) (newVals : Mat) (j : Nat) (l : List (String × Nat)) (ins : String)
    (mel mel' : Melody) : Prop :=
  mel' = mel ∨ ∃ i first t cand nv, (ins, i) ∈ l ∧ mel = first :: t ∧ first.kind ≠ .r ∧ first.kind ≠ .l ∧
    idx2 st.cands i j = .ok cand ∧ idx2 newVals i j = .ok nv ∧ mel' = correctedNote first cand.length nv :: t

theorem scoreChord_part (st : VLState) (newVals : Mat) (j : Nat) (l : List (String × Nat)) (c c' : Chord)
    (hl : (l.map (·.1)).Nodup) (h : scoreChord st newVals j l c = .ok c') (ins : String) (mel : Melody)
    (hm : c.parts.lookup ins = some mel) :
    ∃ mel', c'.parts.lookup ins = some mel' ∧ PartResult st newVals j l ins mel mel' := by
  induction l generalizing c mel with
  | nil =>
    simp only [scoreChord, pure, Except.pure, Except.ok.injEq] at h
    subst h; exact ⟨mel, hm, Or.inl rfl⟩
  | cons p rest ih =>
    obtain ⟨a, i⟩ := p
    simp only [List.map_cons, List.nodup_cons] at hl
    have weaken : ∀ m1 m2, PartResult st newVals j rest ins m1 m2 → PartResult st newVals j ((a, i) :: rest) ins m1 m2 := by
      intro m1 m2 hp
      rcases hp with rfl | ⟨i', f, t, cand, nv, hmem, r⟩
      · exact Or.inl rfl
      · exact Or.inr ⟨i', f, t, cand, nv, List.mem_cons_of_mem _ hmem, r⟩
    unfold scoreChord at h
    cases hla : c.parts.lookup a with
    | none =>
      simp only [hla] at h
      obtain ⟨m', h1, h2⟩ := ih c hl.2 h mel hm
      exact ⟨m', h1, weaken _ _ h2⟩
    | some mela =>
      simp only [hla, bind, Except.bind] at h
      cases hf : pyIndex mela 0 with
      | error e => simp [hf] at h
      | ok first =>
        simp only [hf] at h
        obtain ⟨t, rfl⟩ := pyIndex_zero mela first hf
        split at h
        · rename_i hcond
          cases hc : idx2 st.cands i j with
          | error e => simp [hc] at h
          | ok cand =>
            cases hv : idx2 newVals i j with
            | error e => simp [hc, hv] at h
            | ok nv =>
              simp only [hc, hv] at h
              by_cases hia : ins = a
              · subst hia
                have hm1 : (c.setPart ins (correctedNote first cand.length nv :: List.drop 1 (first :: t))).parts.lookup ins
                    = some (correctedNote first cand.length nv :: List.drop 1 (first :: t)) :=
                  lookup_setPart_same c.parts ins _ _ hla
                obtain ⟨m', h1, h2⟩ := ih _ hl.2 h _ hm1
                refine ⟨m', h1, ?_⟩
                rcases h2 with rfl | ⟨i', f, t', cand', nv', hmem, _⟩
                · rw [hla] at hm
                  injection hm with hm
                  subst hm
                  have hk : first.kind ≠ .r ∧ first.kind ≠ .l := by
                    simp only [bne_iff_ne, ne_eq, Bool.and_eq_true] at hcond
                    exact hcond
                  exact Or.inr ⟨i, first, t, cand, nv, by simp, rfl, hk.1, hk.2, hc, hv, by simp⟩
                · exfalso
                  apply hl.1
                  exact List.mem_map.mpr ⟨(ins, i'), hmem, rfl⟩
              · have hm1 : (c.setPart a (correctedNote first cand.length nv :: List.drop 1 (first :: t))).parts.lookup ins
                    = some mel := by
                  rw [← hm]; exact lookup_setPart_other c.parts a ins _ hia
                obtain ⟨m', h1, h2⟩ := ih _ hl.2 h _ hm1
                exact ⟨m', h1, weaken _ _ h2⟩
        · obtain ⟨m', h1, h2⟩ := ih c hl.2 h mel hm
          exact ⟨m', h1, weaken _ _ h2⟩



/-! ### entries of the solution matrix; score-level description of get_score -/

theorem rowZip_get {f : Int → Int → Int} {r q t : List Int} (h : rowZip f r q = .ok t) (j : Nat) (x : Int)
    (hx : t[j]? = some x) : ∃ u v, r[j]? = some u ∧ q[j]? = some v ∧ x = f u v := by
  induction r generalizing q t j with
  | nil =>
    cases q with
    | nil => simp [rowZip, pure, Except.pure] at h; subst h; simp at hx
    | cons y ys => simp [rowZip] at h
  | cons a as ih =>
    cases q with
    | nil => simp [rowZip] at h
    | cons y ys =>
      simp only [rowZip, bind, Except.bind] at h
      cases ht : rowZip f as ys with
      | error e => simp [ht] at h
      | ok t' =>
        simp only [ht, pure, Except.pure, Except.ok.injEq] at h
        subst h
        cases j with
        | zero => simp at hx; exact ⟨a, y, by simp, by simp, hx.symm⟩
        | succ k =>
          simp at hx
          obtain ⟨u, v, h1, h2, h3⟩ := ih ht k hx
          exact ⟨u, v, by simpa using h1, by simpa using h2, h3⟩

theorem idx2_some {α : Type} (m : List (List α)) (i j : Nat) (x : α) (h : idx2 m i j = .ok x) :
    ∃ r, m[i]? = some r ∧ r[j]? = some x := by
  unfold idx2 at h
  cases hr : m[i]? with
  | none => simp [hr] at h
  | some r =>
    simp only [hr] at h
    cases hx : r[j]? with
    | none => simp [hx] at h
    | some y => simp only [hx, pure, Except.pure, Except.ok.injEq] at h; subst h; exact ⟨r, rfl, hx⟩

theorem idx2_of {α : Type} (m : List (List α)) (i j : Nat) (r : List α) (x : α) (h1 : m[i]? = some r) (h2 : r[j]? = some x) :
    idx2 m i j = .ok x := by
  unfold idx2; simp [h1, h2, pure, Except.pure]

theorem idx2_matZip {f : Int → Int → Int} {a b c : Mat} (h : matZip f a b = .ok c) (i j : Nat) (x : Int)
    (hx : idx2 c i j = .ok x) : ∃ u v, idx2 a i j = .ok u ∧ idx2 b i j = .ok v ∧ x = f u v := by
  obtain ⟨r, hr, hrx⟩ := idx2_some c i j x hx
  obtain ⟨ri, qi, h1, h2, h3⟩ := matZip_row h i r hr
  obtain ⟨u, v, g1, g2, g3⟩ := rowZip_get h3 j x hrx
  exact ⟨u, v, idx2_of a i j ri u h1 g1, idx2_of b i j qi v h2 g2, g3⟩

theorem idx2_rowZero (m : Mat) (i j : Nat) (d : Int) (hz : RowZero m i) (h : idx2 m i j = .ok d) : d = 0 := by
  obtain ⟨r, hr, hrx⟩ := idx2_some m i j d h
  exact hz r hr d (List.mem_of_getElem? hrx)

/-- what `get_score` does to the part `ins` of chord `j`, in terms of the state and of the
solution matrix: untouched, or first note corrected with `val[i][j] + dvals[i][j]` -/
def PartOutcome (st : VLState) (dvals : Mat) (j : Nat) (ins : String) (mel mel' : Melody) : Prop :=
  mel' = mel ∨ ∃ i first t cand v d, st.instruments[i]? = some ins ∧ mel = first :: t ∧
    first.kind ≠ .r ∧ first.kind ≠ .l ∧ idx2 st.cands i j = .ok cand ∧ idx2 st.val i j = .ok v ∧
    idx2 dvals i j = .ok d ∧ mel' = correctedNote first cand.length (v + d) :: t

theorem zipIdx_fst {α : Type} (l : List α) (k : Nat) : (l.zipIdx k).map (·.1) = l := by
  induction l generalizing k with
  | nil => rfl
  | cons a t ih => simp [List.zipIdx_cons, ih]

theorem getScore_part (st : VLState) (s s' : Score) (dvals : Mat) (hi : st.instruments.Nodup)
    (h : st.getScore s dvals = .ok s') :
    All2 (fun c c' => ∃ j, ∀ ins mel, c.parts.lookup ins = some mel →
      ∃ mel', c'.parts.lookup ins = some mel' ∧ PartOutcome st dvals j ins mel mel') s s' := by
  unfold VLState.getScore at h
  cases hv : matZip (· + ·) st.val dvals with
  | error e => simp [hv, bind, Except.bind] at h
  | ok newVals =>
    simp only [hv, bind, Except.bind] at h
    have hall := zipIdx_mapM_all2 _ s 0 s' h
    refine All2.imp ?_ hall
    intro c c' ⟨j, hj⟩
    refine ⟨j, fun ins mel hm => ?_⟩
    have hnd : ((st.instruments.zipIdx).map (·.1)).Nodup := by rw [zipIdx_fst]; exact hi
    obtain ⟨mel', h1, h2⟩ := scoreChord_part st newVals j _ c c' hnd hj ins mel hm
    refine ⟨mel', h1, ?_⟩
    rcases h2 with rfl | ⟨i, first, t, cand, nv, hmem, rfl, k1, k2, hc, hnv, rfl⟩
    · exact Or.inl rfl
    · obtain ⟨u, v, g1, g2, g3⟩ := idx2_matZip hv i j nv hnv
      have hins : st.instruments[i]? = some ins := by
        have := List.mem_zipIdx hmem
        simp at this
        rw [this.2]; simp [this.1]
      exact Or.inr ⟨i, first, t, cand, u, v, hins, rfl, k1, k2, hc, g1, g2, by rw [g3]⟩

/-! ### find_optimal_octaves -/

/-- chords equal up to the chord octave; notes may differ in value / octave only -/
def OctRv (c c' : Chord) : Prop :=
  c'.elem = c.elem ∧ c'.ext = c.ext ∧ c'.ton = c.ton ∧ PartsRv NotesRv c.parts c'.parts

theorem NotesRv.refl (m : Melody) : NotesRv m m := All2.refl Note.sameBut.refl m
theorem NotesRv.trans {a b c : Melody} (h1 : NotesRv a b) (h2 : NotesRv b c) : NotesRv a c :=
  All2.trans (R := Note.sameBut) (S := Note.sameBut) (T := Note.sameBut) (fun _ _ _ x y => Note.sameBut.trans x y) h1 h2

theorem OctRv.refl (c : Chord) : OctRv c c := ⟨rfl, rfl, rfl, All2.refl (fun a => ⟨rfl, NotesRv.refl a.2⟩) _⟩

theorem OctRv.trans {a b c : Chord} (h1 : OctRv a b) (h2 : OctRv b c) : OctRv a c := by
  obtain ⟨a1, a2, a3, a5⟩ := h1
  obtain ⟨b1, b2, b3, b5⟩ := h2
  exact ⟨b1.trans a1, b2.trans a2, b3.trans a3,
    All2.trans (T := fun (a b : String × Melody) => b.1 = a.1 ∧ NotesRv a.2 b.2) (fun x y z hxy hyz => ⟨hyz.1.trans hxy.1, NotesRv.trans hxy.2 hyz.2⟩) a5 b5⟩

theorem OctRv.of_chordRv {c c' : Chord} (h : ChordRv NotesRv c c') : OctRv c c' := ⟨h.1, h.2.1, h.2.2.1, h.2.2.2.2⟩

theorem OctRv.o (c : Chord) (k : Int) : OctRv c (c.o k) := ⟨rfl, rfl, rfl, All2.refl (fun a => ⟨rfl, NotesRv.refl a.2⟩) _⟩

theorem OctRv.keysNodup {c c' : Chord} (h : OctRv c c') (hn : KeysNodup c) : KeysNodup c' := by
  unfold KeysNodup at *
  rw [h.2.2.2.keys]; exact hn

theorem Note.o_sameBut (n : Note) (k : Int) : Note.sameBut n (n.o k) := by
  unfold Note.o Note.oabs Note.sameBut
  split <;> rfl

theorem melodyO_notesRv (m : Melody) (k : Int) : NotesRv m (Melody.o m k) :=
  All2.map_right _ m (fun n _ => Note.o_sameBut n k)

theorem lookupKey_some (k : String) (l : List (String × Melody)) (m : Melody) (h : lookupKey k l = .ok m) :
    l.lookup k = some m := by
  unfold lookupKey at h
  cases hl : l.lookup k with
  | none => simp [hl] at h
  | some v => simp [hl] at h; rw [h]

theorem shiftKept_rv (k : Int) (fixed : List (String × Bool)) (c c' : Chord) (hn : KeysNodup c)
    (h : shiftKept k fixed c = .ok c') : ChordRv NotesRv c c' := by
  induction fixed generalizing c with
  | nil => simp only [shiftKept, pure, Except.pure, Except.ok.injEq] at h; subst h; exact ChordRv.refl NotesRv.refl c
  | cons p rest ih =>
    obtain ⟨v, ch⟩ := p
    unfold shiftKept at h
    split at h
    · exact ih c hn h
    · simp only [bind, Except.bind] at h
      cases hl : lookupKey v c.parts with
      | error e => simp [hl] at h
      | ok m =>
        simp only [hl] at h
        have hstep := setPart_rv (R := NotesRv) NotesRv.refl c v m (Melody.o m k) hn (lookupKey_some _ _ _ hl)
          (melodyO_notesRv m k)
        exact ChordRv.trans (R := NotesRv) (fun _ _ _ h1 h2 => NotesRv.trans h1 h2) hstep (ih _ (hstep.keysNodup hn) h)

/-- **`recursive_correct_octave`**: whenever it returns, the chord is the same up to its
octave (and octave shifts of the notes of kept voices) and its bass lies in `(-6, 6]` -/
theorem correctOctave_spec (fixed : List (String × Bool)) (fuel : Nat) (c c' : Chord) (hn : KeysNodup c)
    (h : correctOctave fixed fuel c = .ok c') :
    OctRv c c' ∧ ∃ b, c'.bassPitch = .ok b ∧ -6 < b ∧ b ≤ 6 := by
  induction fuel generalizing c with
  | zero => simp [correctOctave] at h
  | succ f ih =>
    unfold correctOctave at h
    simp only [bind, Except.bind] at h
    cases hb : c.bassPitch with
    | error e => simp [hb] at h
    | ok b =>
      simp only [hb] at h
      split at h
      · cases hs : shiftKept 1 fixed (c.o (-1)) with
        | error e => simp [hs] at h
        | ok c1 =>
          simp only [hs] at h
          have r1 : OctRv c c1 := (OctRv.o c (-1)).trans (OctRv.of_chordRv (shiftKept_rv 1 fixed _ c1 hn hs))
          obtain ⟨r2, hb2⟩ := ih c1 (r1.keysNodup hn) h
          exact ⟨r1.trans r2, hb2⟩
      · split at h
        · cases hs : shiftKept (-1) fixed (c.o 1) with
          | error e => simp [hs] at h
          | ok c1 =>
            simp only [hs] at h
            have r1 : OctRv c c1 := (OctRv.o c 1).trans (OctRv.of_chordRv (shiftKept_rv (-1) fixed _ c1 hn hs))
            obtain ⟨r2, hb2⟩ := ih c1 (r1.keysNodup hn) h
            exact ⟨r1.trans r2, hb2⟩
        · simp only [pure, Except.pure, Except.ok.injEq] at h
          subst h
          exact ⟨OctRv.refl c, b, hb, by omega, by omega⟩

theorem findOptimalOctaves_spec (cfg : VLCfg) (fuel : Nat) (s s' : Score) (hn : ∀ c ∈ s, KeysNodup c)
    (h : cfg.findOptimalOctaves fuel s = .ok s') :
    All2 (fun c c' => OctRv c c' ∧ ∃ b, c'.bassPitch = .ok b ∧ -6 < b ∧ b ≤ 6) s s' := by
  unfold VLCfg.findOptimalOctaves at h
  have hall := mapM_all2 _ s s' h
  clear h
  induction hall with
  | nil => exact .nil
  | cons hab _ ih =>
    exact .cons (correctOctave_spec _ fuel _ _ (hn _ (by simp)) hab) (ih (fun c hc => hn c (by simp [hc])))


/-! ### counterpoint (melody level) -/

/-- rhythm of a note kept: same duration and loudness; rests stay rests, continuations stay
continuations, sounding notes stay sounding -/
def RhythmSame (n n' : Note) : Prop :=
  n'.dur = n.dur ∧ n'.amp = n.amp ∧ (n'.kind = .r ↔ n.kind = .r) ∧ (n'.kind = .l ↔ n.kind = .l)

theorem RhythmSame.refl (n : Note) : RhythmSame n n := ⟨rfl, rfl, Iff.rfl, Iff.rfl⟩
theorem RhythmSame.trans {a b c : Note} (h1 : RhythmSame a b) (h2 : RhythmSame b c) : RhythmSame a c :=
  ⟨h2.1.trans h1.1, h2.2.1.trans h1.2.1, h2.2.2.1.trans h1.2.2.1, h2.2.2.2.trans h1.2.2.2⟩

theorem addValue_kind (n : Note) (v o : Int) : (n.addValue v o).kind = n.kind ∧ (n.addValue v o).amp = n.amp := by
  unfold Note.addValue
  dsimp only
  split <;> exact ⟨rfl, rfl⟩

theorem addInterval_kind (p n t : Note) (h : p.addInterval n = .ok t) : t.kind = p.kind := by
  unfold Note.addInterval at h
  split at h
  · simp only [pure, Except.pure, Except.ok.injEq] at h; rw [← h]; exact (addValue_kind _ _ _).1
  · split at h
    · simp only [pure, Except.pure, Except.ok.injEq] at h; rw [← h]; exact (addValue_kind _ _ _).1
    · simp at h

/-- `parse_relative_to_absolute` keeps the rhythm (durations; rests and continuations in place) -/
theorem parseRel_rhythm (prev : Option Note) (m m' : Melody) (hp : ∀ p, prev = some p → p.kind ≠ .r ∧ p.kind ≠ .l)
    (h : parseRel prev m = .ok m') :
    All2 (fun n n' => n'.dur = n.dur ∧ (n'.kind = .r ↔ n.kind = .r) ∧ (n'.kind = .l ↔ n.kind = .l)) m m' := by
  induction m generalizing prev m' with
  | nil => simp only [parseRel, pure, Except.pure, Except.ok.injEq] at h; subst h; exact .nil
  | cons n ns ih =>
    unfold parseRel at h
    cases hk : n.kind <;> simp only [hk] at h
    all_goals try (simp at h; done)
    -- s
    · simp only [bind, Except.bind] at h
      cases hr : parseRel (some n) ns with
      | error e => simp [hr] at h
      | ok r =>
        simp only [hr, pure, Except.pure, Except.ok.injEq] at h; subst h
        exact .cons ⟨rfl, Iff.rfl, Iff.rfl⟩ (ih (some n) r (by intro p hp'; injection hp' with hp'; subst hp'; simp [hk]) hr)
    -- h
    · simp only [bind, Except.bind] at h
      cases hv : lookupKey n.val DICT_NOTES with
      | error e => simp [hv] at h
      | ok v =>
        simp only [hv] at h
        cases hr : parseRel prev ns with
        | error e => simp [hr] at h
        | ok r =>
          simp only [hr, pure, Except.pure, Except.ok.injEq] at h; subst h
          exact .cons ⟨rfl, by simp [hk], by simp [hk]⟩ (ih prev r hp hr)
    -- a
    · simp only [bind, Except.bind] at h
      cases hr : parseRel (some n) ns with
      | error e => simp [hr] at h
      | ok r =>
        simp only [hr, pure, Except.pure, Except.ok.injEq] at h; subst h
        exact .cons ⟨rfl, Iff.rfl, Iff.rfl⟩ (ih (some n) r (by intro p hp'; injection hp' with hp'; subst hp'; simp [hk]) hr)
    -- d
    · simp only [bind, Except.bind] at h
      cases hr : parseRel (some n) ns with
      | error e => simp [hr] at h
      | ok r =>
        simp only [hr, pure, Except.pure, Except.ok.injEq] at h; subst h
        exact .cons ⟨rfl, Iff.rfl, Iff.rfl⟩ (ih (some n) r (by intro p hp'; injection hp' with hp'; subst hp'; simp [hk]) hr)
    -- r
    · simp only [bind, Except.bind] at h
      cases hr : parseRel prev ns with
      | error e => simp [hr] at h
      | ok r =>
        simp only [hr, pure, Except.pure, Except.ok.injEq] at h; subst h
        exact .cons ⟨rfl, Iff.rfl, Iff.rfl⟩ (ih prev r hp hr)
    -- l
    · simp only [bind, Except.bind] at h
      cases hr : parseRel prev ns with
      | error e => simp [hr] at h
      | ok r =>
        simp only [hr, pure, Except.pure, Except.ok.injEq] at h; subst h
        exact .cons ⟨rfl, Iff.rfl, Iff.rfl⟩ (ih prev r hp hr)
    -- su, sd
    all_goals
      cases prev with
      | none => simp at h
      | some p =>
        simp only [bind, Except.bind] at h
        cases ha : p.addInterval n with
        | error e => simp [ha] at h
        | ok t0 =>
          simp only [ha] at h
          cases hr : parseRel (some { t0 with dur := n.dur }) ns with
          | error e => simp [hr] at h
          | ok r =>
            simp only [hr, pure, Except.pure, Except.ok.injEq] at h; subst h
            have hk0 := addInterval_kind p n t0 ha
            have hpk := hp p rfl
            refine .cons ⟨rfl, ?_, ?_⟩ (ih _ r (by
              intro q hq; injection hq with hq; subst hq
              show t0.kind ≠ .r ∧ t0.kind ≠ .l
              rw [hk0]; exact hpk) hr)
            · show t0.kind = .r ↔ _
              rw [hk0, hk]; simp [hpk.1]
            · show t0.kind = .l ↔ _
              rw [hk0, hk]; simp [hpk.2]

/-- `convert_array_to_melody` writes the array into the rhythm: non-notes are copied; a note
becomes the scale note `s(v mod 7).o(v div 7)` of the same duration and loudness -/
theorem convert_spec (m m' : Melody) (arr : List (Option Int)) (h : convertArrayToMelody m arr = .ok m') :
    All2 (fun n n' => (n.kind.isNote = false → n' = n) ∧
      (n.kind.isNote = true → ∃ v, n' = { n with kind := .s, val := v % 7, oct := v / 7 })) m m' := by
  induction m generalizing arr m' with
  | nil => simp only [convertArrayToMelody, pure, Except.pure, Except.ok.injEq] at h; subst h; exact .nil
  | cons n ns ih =>
    unfold convertArrayToMelody at h
    split at h
    · rename_i hk
      split at h
      · simp at h
      · simp at h
      · rename_i v rest
        simp only [bind, Except.bind] at h
        cases hr : convertArrayToMelody ns rest with
        | error e => simp [hr] at h
        | ok r =>
          simp only [hr, pure, Except.pure, Except.ok.injEq] at h; subst h
          exact .cons ⟨fun hf => (by rw [hk] at hf; cases hf), fun _ => ⟨v, rfl⟩⟩ (ih _ _ hr)
    · rename_i hk
      simp only [bind, Except.bind] at h
      generalize List.drop 1 arr = rest at h
      cases hr : convertArrayToMelody ns rest with
      | error e => simp [hr] at h
      | ok r =>
        simp only [hr, pure, Except.pure, Except.ok.injEq] at h; subst h
        exact .cons ⟨fun _ => rfl, fun ht => absurd ht hk⟩ (ih _ _ hr)

theorem convert_rhythm (m m' : Melody) (arr : List (Option Int)) (h : convertArrayToMelody m arr = .ok m') :
    All2 RhythmSame m m' := by
  refine All2.imp ?_ (convert_spec m m' arr h)
  intro n n' ⟨h1, h2⟩
  cases hk : n.kind.isNote with
  | false => rw [h1 hk]; exact RhythmSame.refl n
  | true =>
    obtain ⟨v, rfl⟩ := h2 hk
    refine ⟨rfl, rfl, ?_, ?_⟩
    · constructor
      · intro h; cases h
      · intro h; rw [h] at hk; cases hk
    · constructor
      · intro h; cases h
      · intro h; rw [h] at hk; cases hk

/-- rhythm relation without the loudness (a relative note takes the loudness of its reference) -/
def RhythmOnly (n n' : Note) : Prop :=
  n'.dur = n.dur ∧ (n'.kind = .r ↔ n.kind = .r) ∧ (n'.kind = .l ↔ n.kind = .l)

/-- **`create_counterpoint` never changes the rhythm**: for every oracle of chosen deltas,
every returned voice has, note for note, the durations of the voice it adapts, rests and
continuations in the same places -/
theorem cpLoop_rhythm (delta : Nat → Nat → Int) (k : Nat) (subjects voices res : List Melody)
    (h : cpLoop delta k subjects voices = .ok res) : All2 (All2 RhythmOnly) voices res := by
  induction voices generalizing k subjects res with
  | nil => simp only [cpLoop, pure, Except.pure, Except.ok.injEq] at h; subst h; exact .nil
  | cons v vs ih =>
    unfold cpLoop at h
    simp only [bind, Except.bind] at h
    cases h1 : parseRelativeToAbsolute v with
    | error e => simp [h1] at h
    | ok voice =>
      simp only [h1] at h
      cases h2 : subjects.mapM (fun s => projectOnRhythm voice s) with
      | error e => simp [h2] at h
      | ok projs =>
        simp only [h2] at h
        cases h3 : getCounterpoint subjects.length (delta k) (getArray voice) with
        | error e => simp [h3] at h
        | ok arr =>
          simp only [h3] at h
          cases h4 : convertArrayToMelody voice arr with
          | error e => simp [h4] at h
          | ok mel =>
            simp only [h4] at h
            cases h5 : cpLoop delta (k + 1) (subjects ++ [mel]) vs with
            | error e => simp [h5] at h
            | ok rest =>
              simp only [h5, pure, Except.pure, Except.ok.injEq] at h; subst h
              refine .cons ?_ (ih _ _ _ h5)
              have r1 := parseRel_rhythm none v voice (by intro p hp; cases hp) h1
              have r2 := convert_rhythm voice mel arr h4
              exact All2.trans (T := RhythmOnly) (fun a b c hab hbc =>
                ⟨hbc.1.trans hab.1, hbc.2.2.1.trans hab.2.1, hbc.2.2.2.trans hab.2.2⟩) r1 r2

theorem createCounterpoint_rhythm (delta : Nat → Nat → Int) (fixed voices res : List Melody)
    (h : createCounterpoint delta fixed voices = .ok res) : All2 (All2 RhythmOnly) voices res := by
  unfold createCounterpoint at h
  simp only [bind, Except.bind] at h
  cases h1 : fixed.mapM parseRelativeToAbsolute with
  | error e => simp [h1] at h
  | ok f => simp only [h1] at h; exact cpLoop_rhythm delta 0 f voices res h



/-! ### a progression of one chord: `voices_optim` raises -/

theorem rowZip_length {f : Int → Int → Int} {r q t : List Int} (h : rowZip f r q = .ok t) : t.length = r.length := by
  induction r generalizing q t with
  | nil =>
    cases q with
    | nil => simp [rowZip, pure, Except.pure] at h; subst h; rfl
    | cons y ys => simp [rowZip] at h
  | cons a as ih =>
    cases q with
    | nil => simp [rowZip] at h
    | cons y ys =>
      simp only [rowZip, bind, Except.bind] at h
      cases ht : rowZip f as ys with
      | error e => simp [ht] at h
      | ok t' => simp only [ht, pure, Except.pure, Except.ok.injEq] at h; subst h; simp [ih ht]

theorem matZip_lengths {f : Int → Int → Int} {a b c : Mat} (h : matZip f a b = .ok c) (n : Nat)
    (ha : ∀ r ∈ a, r.length ≤ n) : ∀ r ∈ c, r.length ≤ n := by
  intro r hr
  obtain ⟨i, hi⟩ := List.getElem?_of_mem hr
  obtain ⟨ri, qi, h1, _, h3⟩ := matZip_row h i r hi
  rw [rowZip_length h3]
  exact ha ri (List.mem_of_getElem? h1)

theorem candRow_length {c : List (List Int)} {v t : List Int} (h : candRow c v = .ok t) : t.length = v.length := by
  induction c generalizing v t with
  | nil =>
    cases v with
    | nil => simp [candRow, pure, Except.pure] at h; subst h; rfl
    | cons y ys => simp [candRow] at h
  | cons a as ih =>
    cases v with
    | nil => simp [candRow, pure, Except.pure] at h; subst h; rfl
    | cons y ys =>
      simp only [candRow, bind, Except.bind] at h
      cases hp : candPitch a y with
      | error e => simp [hp] at h
      | ok p =>
        cases ht : candRow as ys with
        | error e => simp [hp, ht] at h
        | ok t' => simp only [hp, ht, pure, Except.pure, Except.ok.injEq] at h; subst h; simp [ih ht]

theorem candMat_lengths {c : List (List (List Int))} {v t : Mat} (h : candMat c v = .ok t) (n : Nat)
    (hv : ∀ r ∈ v, r.length ≤ n) : ∀ r ∈ t, r.length ≤ n := by
  induction v generalizing c t with
  | nil =>
    cases c <;> (simp [candMat, pure, Except.pure] at h; subst h; intro r hr; simp at hr)
  | cons y ys ih =>
    -- both clauses for a non-empty matrix of values have the same shape (beyond the last row of candidates the row
    -- of candidates is `[]`)
    have key : ∀ (a : List (List Int)) (as : List (List (List Int))),
        (do let p ← candRow a y; let t ← candMat as ys; pure (p :: t) : Res Mat) = .ok t → ∀ r ∈ t, r.length ≤ n := by
      intro a as h
      simp only [bind, Except.bind] at h
      cases hp : candRow a y with
      | error e => simp [hp] at h
      | ok p =>
        cases ht : candMat as ys with
        | error e => simp [hp, ht] at h
        | ok t' =>
          simp only [hp, ht, pure, Except.pure, Except.ok.injEq] at h; subst h
          intro r hr
          rcases List.mem_cons.mp hr with rfl | hr'
          · rw [candRow_length hp]; exact hv y (by simp)
          · exact ih ht (fun r hr => hv r (by simp [hr])) r hr'
    cases c with
    | nil => simp only [candMat] at h; exact key [] [] h
    | cons a as => simp only [candMat] at h; exact key a as h

theorem diffRow_short (r : List Int) (h : r.length ≤ 1) : diffRow r = [] := by
  cases r with
  | nil => rfl
  | cons a t =>
    cases t with
    | nil => rfl
    | cons b u => simp at h

/-- **error branch**: on a progression of at most one chord every iteration of
`voices_optim` raises `ValueError` (the maximum of an empty probability matrix), whatever
the draws — the optimiser rejects such inputs instead of returning them unchanged -/
theorem voicesProposal_single (st : VLState) (dvals : Mat) (d : Draw) (maxNorm : Int)
    (hv : ∀ r ∈ st.val, r.length ≤ 1) (prop : Mat) : st.voicesProposal dvals d maxNorm ≠ .ok prop := by
  intro h
  unfold VLState.voicesProposal at h
  simp only [bind, Except.bind] at h
  cases hp : st.pitchSolution dvals with
  | error e => simp [hp] at h
  | ok pitches =>
    simp only [hp] at h
    have hpl : ∀ r ∈ pitches, r.length ≤ 1 := by
      unfold VLState.pitchSolution at hp
      simp only [bind, Except.bind] at hp
      cases h1 : matZip (· + ·) st.val dvals with
      | error e => simp [h1] at hp
      | ok nv =>
        simp only [h1] at hp
        cases h2 : candMat st.cands nv with
        | error e => simp [h2] at hp
        | ok p0 =>
          simp only [h2] at hp
          exact matZip_lengths hp 1 (candMat_lengths h2 1 (matZip_lengths h1 1 hv))
    cases hs : st.sgnMov pitches with
    | error e => simp [hs] at h
    | ok sgn =>
      simp only [hs] at h
      have hall : sgn.all (fun r => r.isEmpty) = true := by
        rw [List.all_eq_true]
        intro r hr
        unfold VLState.sgnMov at hs
        have := matZip_lengths hs 0 (by
          intro q hq
          unfold movement at hq
          obtain ⟨q0, hq0, rfl⟩ := List.mem_map.mp hq
          rw [diffRow_short q0 (hpl q0 hq0)]; simp) r hr
        cases r with
        | nil => rfl
        | cons a t => simp at this
      simp [hall] at h



theorem All2.mem_right {α β : Type} {R : α → β → Prop} {l : List α} {l' : List β} (h : All2 R l l') (b : β)
    (hb : b ∈ l') : ∃ a, a ∈ l ∧ R a b := by
  induction h with
  | nil => simp at hb
  | cons hab _ ih =>
    rcases List.mem_cons.mp hb with rfl | hb'
    · exact ⟨_, by simp, hab⟩
    · obtain ⟨a, ha, hr⟩ := ih hb'
      exact ⟨a, by simp [ha], hr⟩

theorem headRv_maps (m m' : Melody) (h : HeadRv m m') :
    m'.map (·.dur) = m.map (·.dur) ∧ m'.map (·.kind) = m.map (·.kind) := by
  cases h with
  | same => exact ⟨rfl, rfl⟩
  | head n n' t hn => simp [hn.fields.2.1, hn.fields.1]


/-! ### init -/

theorem indexOfStr_spec (l : List String) (x : String) (i : Nat) (h : indexOfStr l x = .ok i) : l[i]? = some x := by
  unfold indexOfStr at h
  cases hf : l.findIdx? (· == x) with
  | none => simp [hf] at h
  | some j =>
    simp only [hf, pure, Except.pure, Except.ok.injEq] at h
    subst h
    rw [List.findIdx?_eq_some_iff_getElem] at hf
    obtain ⟨hj, hx, _⟩ := hf
    have : l[j] = x := by simpa using hx
    rw [← this]; exact List.getElem?_eq_getElem hj

/-- **`init` masks the fixed voices**: in the state built by `init`, every voice declared
fixed has a row (its position in `instruments`) whose mask is identically zero -/
theorem init_mask_fixed (cfg : VLCfg) (s ns : Score) (orders : List (List String)) (st : VLState)
    (h : cfg.init s orders = .ok (st, ns)) (f : String) (hf : f ∈ cfg.fixed) :
    ∃ i, st.instruments[i]? = some f ∧ RowZero st.mask i := by
  unfold VLCfg.init at h
  simp only [bind, Except.bind] at h
  generalize hns : normalizeInstruments s orders = nsc at h
  cases h1 : nsc.mapM (fun c => c.chordPitches) with
  | error e => simp [h1] at h
  | ok pc =>
  simp only [h1] at h
  cases h2 : nsc.mapM (fun c => c.extensionPitches) with
  | error e => simp [h2] at h
  | ok pe =>
  simp only [h2] at h
  cases h3 : nsc.mapM (fun c => c.chromaticPitches) with
  | error e => simp [h3] at h
  | ok ph =>
  simp only [h3] at h
  cases h4 : pe.mapM (fun l => pyIndex l 0) with
  | error e => simp [h4] at h
  | ok bs =>
  simp only [h4] at h
  cases h5 : nsc.instruments.mapM (firstNotes nsc) with
  | error e => simp [h5] at h
  | ok arr =>
  simp only [h5] at h
  split at h
  · simp at h
  · rename_i pitch hpitch
    cases h7 : cfg.fixed.mapM (indexOfStr nsc.instruments) with
    | error e => simp [h7] at h
    | ok idxs =>
    simp only [h7] at h
    split at h
    · simp at h
    · rename_i cands hcands
      simp only [pure, Except.pure, Except.ok.injEq, Prod.mk.injEq] at h
      obtain ⟨hst, _⟩ := h
      subst hst
      have hall := mapM_all2 _ _ _ h7
      obtain ⟨j, hj⟩ := List.getElem?_of_mem hf
      obtain ⟨i, hi, hidx⟩ := All2.get hall j f hj
      refine ⟨i, indexOfStr_spec _ _ _ hidx, ?_⟩
      intro r hr
      simp only at hr
      obtain ⟨x, hx, rfl⟩ := zipIdx_map_row _ _ i r hr
      intro v hv
      obtain ⟨k, _, rfl⟩ := List.mem_map.mp hv
      have hmem : i ∈ idxs := List.mem_of_getElem? hi
      simp [hmem]


/-- carry what is known about the middle list through a second relation -/
theorem All2.with_left {α β γ : Type} {P : α → β → Prop} {Q : β → γ → Prop} {l : List α} {m : List β} {r : List γ}
    (h1 : All2 P l m) (h2 : All2 Q m r) : All2 (fun b c => Q b c ∧ ∃ a, P a b) m r := by
  induction h1 generalizing r with
  | nil => cases h2; exact .nil
  | cons hab _ ih =>
    cases h2 with
    | cons hbc h2' => exact .cons ⟨hbc, _, hab⟩ (ih h2')

end MV
