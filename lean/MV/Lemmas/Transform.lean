/-
Lemmas for C18: the calculus of masks (call / child / invert, freezing along a path, the
selection formula `Mask.spec`) and the generic loops the dispatcher instantiates.
-/
import MV.Model.Transform

namespace MV.Transform

open MV

/-! ### the nested lists of `And` / `Or` -/

theorem callAll_eq (ts : List Mask) (e : Elem) (k : Ctx) :
    Mask.callAll ts e k = ts.all (fun t => t.call e k) := by
  induction ts with
  | nil => simp [Mask.callAll]
  | cons t ts ih => simp [Mask.callAll, ih]

theorem callAny_eq (ts : List Mask) (e : Elem) (k : Ctx) :
    Mask.callAny ts e k = ts.any (fun t => t.call e k) := by
  induction ts with
  | nil => simp [Mask.callAny]
  | cons t ts ih => simp [Mask.callAny, ih]

theorem childList_eq (ts : List Mask) (e : Elem) (k : Ctx) :
    Mask.childList ts e k = ts.map (fun t => t.child e k) := by
  induction ts with
  | nil => simp [Mask.childList]
  | cons t ts ih => simp [Mask.childList, ih]

theorem invertList_eq (ts : List Mask) : Mask.invertList ts = ts.map Mask.invert := by
  induction ts with
  | nil => simp [Mask.invertList]
  | cons t ts ih => simp [Mask.invertList, ih]

@[simp] theorem call_base (e : Elem) (k : Ctx) : Mask.base.call e k = true := by simp [Mask.call]
@[simp] theorem call_bool (b : Bool) (e : Elem) (k : Ctx) : (Mask.bool b).call e k = b := by simp [Mask.call]
@[simp] theorem call_type (l : Lvl) (e : Elem) (k : Ctx) : (Mask.type l).call e k = (e.lvl != l) := by
  simp [Mask.call]
@[simp] theorem call_atom (a : Atom) (e : Elem) (k : Ctx) : (Mask.atom a).call e k = a.eval e k := by
  simp [Mask.call]
@[simp] theorem call_not (m : Mask) (e : Elem) (k : Ctx) : (Mask.not m).call e k = !(m.call e k) := by
  simp [Mask.call]
@[simp] theorem call_and (ts : List Mask) (e : Elem) (k : Ctx) :
    (Mask.and ts).call e k = ts.all (fun t => t.call e k) := by simp [Mask.call, callAll_eq]
@[simp] theorem call_or (ts : List Mask) (e : Elem) (k : Ctx) :
    (Mask.or ts).call e k = ts.any (fun t => t.call e k) := by simp [Mask.call, callAny_eq]
@[simp] theorem call_gt (g m : Mask) (e : Elem) (k : Ctx) :
    (Mask.gt g m).call e k = (g.call e k || m.call e k) := by simp [Mask.call]

@[simp] theorem child_base (e : Elem) (k : Ctx) : Mask.base.child e k = .base := by simp [Mask.child]
@[simp] theorem child_bool (b : Bool) (e : Elem) (k : Ctx) : (Mask.bool b).child e k = .bool b := by
  simp [Mask.child]
@[simp] theorem child_type (l : Lvl) (e : Elem) (k : Ctx) : (Mask.type l).child e k = .type l := by
  simp [Mask.child]
@[simp] theorem child_atom (a : Atom) (e : Elem) (k : Ctx) : (Mask.atom a).child e k = .atom a := by
  simp [Mask.child]
@[simp] theorem child_not (m : Mask) (e : Elem) (k : Ctx) : (Mask.not m).child e k = .not m := by
  simp [Mask.child]
@[simp] theorem child_and (ts : List Mask) (e : Elem) (k : Ctx) :
    (Mask.and ts).child e k = .and (ts.map (fun t => t.child e k)) := by simp [Mask.child, childList_eq]
@[simp] theorem child_or (ts : List Mask) (e : Elem) (k : Ctx) :
    (Mask.or ts).child e k = .or (ts.map (fun t => t.child e k)) := by simp [Mask.child, childList_eq]
theorem child_gt (g m : Mask) (e : Elem) (k : Ctx) :
    (Mask.gt g m).child e k = if g.call e k then .gt g m else .bool (g.call e k || m.call e k) := by
  simp [Mask.child]

@[simp] theorem invert_and (ts : List Mask) : (Mask.and ts).invert = .or (ts.map Mask.invert) := by
  simp [Mask.invert, invertList_eq]
@[simp] theorem invert_or (ts : List Mask) : (Mask.or ts).invert = .and (ts.map Mask.invert) := by
  simp [Mask.invert, invertList_eq]
@[simp] theorem invert_gt (g m : Mask) : (Mask.gt g m).invert = .gt g m.invert := by simp [Mask.invert]
@[simp] theorem invert_bool (b : Bool) : (Mask.bool b).invert = .bool (!b) := by simp [Mask.invert]
@[simp] theorem invert_atom (a : Atom) : (Mask.atom a).invert = .not (.atom a) := by simp [Mask.invert]
@[simp] theorem invert_not (m : Mask) : (Mask.not m).invert = .not (.not m) := by simp [Mask.invert]
@[simp] theorem invert_base : Mask.base.invert = .not .base := by simp [Mask.invert]
@[simp] theorem invert_type (l : Lvl) : (Mask.type l).invert = .type l := by simp [Mask.invert]

/-- structural induction on masks with the list hypotheses in `∀ t ∈ ts` form -/
theorem Mask.induct {P : Mask → Prop} (base : P .base) (atom : ∀ a, P (.atom a)) (bool : ∀ b, P (.bool b))
    (type : ∀ l, P (.type l)) (not : ∀ m, P m → P (.not m))
    (and : ∀ ts, (∀ t ∈ ts, P t) → P (.and ts)) (or : ∀ ts, (∀ t ∈ ts, P t) → P (.or ts))
    (gt : ∀ g m, P g → P m → P (.gt g m)) : ∀ m, P m := by
  intro m
  refine Mask.rec (motive_1 := P) (motive_2 := fun ts => ∀ t ∈ ts, P t)
    base atom bool type not and or gt ?_ ?_ m
  · intro t ht; cases ht
  · intro t ts iht ihts u hu
    rcases List.mem_cons.mp hu with h | h
    · exact h ▸ iht
    · exact ihts u h


/-! ### the selection formula -/

/-- the way down to an element: its ancestors, outermost first, then the element itself, each with
the keyword arguments the dispatcher calls masks with at that level -/
abbrev Path := List (Elem × Ctx)

/-- the (first) element of level `l` on a path -/
def Path.at (p : Path) (l : Lvl) : Option (Elem × Ctx) := p.find? (fun x => x.1.lvl == l)

mutual
/-- masks whose unguarded positions hold only `TypeMask > m`, `Bool`, `Mask()`, `And`, `Or` — what the
public constructors and `&`, `|`, `~` build from guarded atoms -/
def Mask.guarded : Mask → Bool
  | .base => true
  | .bool _ => true
  | .and ts => Mask.guardedAll ts
  | .or ts => Mask.guardedAll ts
  | .gt g _ => match g with
      | .type _ => true
      | _ => false
  | .atom _ => false
  | .type _ => false
  | .not _ => false
def Mask.guardedAll : List Mask → Bool
  | [] => true
  | t :: ts => t.guarded && Mask.guardedAll ts
end

mutual
/-- `selected mask path`: the mask read as a formula in which each guarded sub-mask `L > φ` is evaluated
at the element of level `L` on the path, with that level's keyword arguments; a guard whose level is not
on the path holds vacuously -/
def Mask.spec : Mask → Path → Bool
  | .base, _ => true
  | .bool b, _ => b
  | .and ts, p => Mask.specAll ts p
  | .or ts, p => Mask.specAny ts p
  | .gt g φ, p => match g with
      | .type l => (match Path.at p l with
          | none => true
          | some x => φ.call x.1 x.2)
      | _ => false
  | .atom _, _ => false
  | .type _, _ => false
  | .not _, _ => false
def Mask.specAll : List Mask → Path → Bool
  | [], _ => true
  | t :: ts, p => t.spec p && Mask.specAll ts p
def Mask.specAny : List Mask → Path → Bool
  | [], _ => false
  | t :: ts, p => t.spec p || Mask.specAny ts p
end

theorem guardedAll_eq (ts : List Mask) : Mask.guardedAll ts = ts.all Mask.guarded := by
  induction ts with
  | nil => simp [Mask.guardedAll]
  | cons t ts ih => simp [Mask.guardedAll, ih]

theorem specAll_eq (ts : List Mask) (p : Path) : Mask.specAll ts p = ts.all (fun t => t.spec p) := by
  induction ts with
  | nil => simp [Mask.specAll]
  | cons t ts ih => simp [Mask.specAll, ih]

theorem specAny_eq (ts : List Mask) (p : Path) : Mask.specAny ts p = ts.any (fun t => t.spec p) := by
  induction ts with
  | nil => simp [Mask.specAny]
  | cons t ts ih => simp [Mask.specAny, ih]

@[simp] theorem spec_base (p : Path) : Mask.base.spec p = true := by simp [Mask.spec]
@[simp] theorem spec_bool (b : Bool) (p : Path) : (Mask.bool b).spec p = b := by simp [Mask.spec]
@[simp] theorem spec_and (ts : List Mask) (p : Path) : (Mask.and ts).spec p = ts.all (fun t => t.spec p) := by
  simp [Mask.spec, specAll_eq]
@[simp] theorem spec_or (ts : List Mask) (p : Path) : (Mask.or ts).spec p = ts.any (fun t => t.spec p) := by
  simp [Mask.spec, specAny_eq]
theorem spec_gt_type (l : Lvl) (φ : Mask) (p : Path) :
    (Mask.gt (.type l) φ).spec p = (match Path.at p l with | none => true | some x => φ.call x.1 x.2) := by
  simp [Mask.spec]

@[simp] theorem guarded_and (ts : List Mask) : (Mask.and ts).guarded = ts.all Mask.guarded := by
  simp [Mask.guarded, guardedAll_eq]
@[simp] theorem guarded_or (ts : List Mask) : (Mask.or ts).guarded = ts.all Mask.guarded := by
  simp [Mask.guarded, guardedAll_eq]

/-- a guarded mask at a `gt` node has a type guard -/
theorem guarded_gt {g φ : Mask} (h : (Mask.gt g φ).guarded = true) : ∃ l, g = .type l := by
  cases g <;> simp [Mask.guarded] at h
  exact ⟨_, rfl⟩

/-! ### freezing along a path -/

/-- the mask the dispatcher holds after passing the ancestors `anc` (one `child` per level) -/
def Mask.freeze (m : Mask) (anc : Path) : Mask := anc.foldl (fun m x => m.child x.1 x.2) m

@[simp] theorem freeze_nil (m : Mask) : m.freeze [] = m := rfl
@[simp] theorem freeze_cons (m : Mask) (x : Elem × Ctx) (anc : Path) :
    m.freeze (x :: anc) = (m.child x.1 x.2).freeze anc := rfl
theorem freeze_append (m : Mask) (a b : Path) : m.freeze (a ++ b) = (m.freeze a).freeze b := by
  simp [Mask.freeze, List.foldl_append]
theorem freeze_snoc (m : Mask) (a : Path) (e : Elem) (k : Ctx) :
    m.freeze (a ++ [(e, k)]) = (m.freeze a).child e k := by
  simp [freeze_append]

@[simp] theorem freeze_base (anc : Path) : Mask.base.freeze anc = .base := by
  induction anc with
  | nil => rfl
  | cons x anc ih => simp [ih]

@[simp] theorem freeze_bool (b : Bool) (anc : Path) : (Mask.bool b).freeze anc = .bool b := by
  induction anc with
  | nil => rfl
  | cons x anc ih => simp [ih]

theorem freeze_and (ts : List Mask) (anc : Path) :
    (Mask.and ts).freeze anc = .and (ts.map (fun t => t.freeze anc)) := by
  induction anc generalizing ts with
  | nil => simp
  | cons x anc ih => simp [ih, List.map_map, Function.comp_def]

theorem freeze_or (ts : List Mask) (anc : Path) :
    (Mask.or ts).freeze anc = .or (ts.map (fun t => t.freeze anc)) := by
  induction anc generalizing ts with
  | nil => simp
  | cons x anc ih => simp [ih, List.map_map, Function.comp_def]

/-- a guarded sub-mask stays as it is until the first ancestor of its level, where it becomes the
boolean its body evaluates to there -/
theorem freeze_gt_type (l : Lvl) (φ : Mask) (anc : Path) :
    (Mask.gt (.type l) φ).freeze anc =
      (match Path.at anc l with
       | none => .gt (.type l) φ
       | some x => .bool (φ.call x.1 x.2)) := by
  induction anc with
  | nil => simp [Path.at]
  | cons x anc ih =>
      rw [freeze_cons, child_gt]
      by_cases h : x.1.lvl = l
      · simp [Path.at, h]
      · have h' : (x.1.lvl == l) = false := by simpa using h
        simp only [call_type, bne, h', Bool.not_false, if_true, ih]
        simp [Path.at, h']

theorem at_append (a b : Path) (l : Lvl) :
    Path.at (a ++ b) l = (match Path.at a l with | some x => some x | none => Path.at b l) := by
  unfold Path.at
  rw [List.find?_append]
  cases List.find? (fun x => x.1.lvl == l) a <;> simp

theorem all_congr_mem {α} {f g : α → Bool} (ts : List α) (h : ∀ t ∈ ts, f t = g t) : ts.all f = ts.all g := by
  induction ts with
  | nil => rfl
  | cons t ts ih =>
      simp only [List.all_cons]
      rw [h t (by simp), ih (fun u hu => h u (by simp [hu]))]

theorem any_congr_mem {α} {f g : α → Bool} (ts : List α) (h : ∀ t ∈ ts, f t = g t) : ts.any f = ts.any g := by
  induction ts with
  | nil => rfl
  | cons t ts ih =>
      simp only [List.any_cons]
      rw [h t (by simp), ih (fun u hu => h u (by simp [hu]))]

/-- **the frozen mask, called one level further down, is the selection formula on the whole path** -/
theorem freeze_call (m : Mask) (hm : m.guarded = true) (anc : Path) (e : Elem) (k : Ctx) :
    (m.freeze anc).call e k = m.spec (anc ++ [(e, k)]) := by
  induction m using Mask.induct with
  | base => simp
  | atom a => simp [Mask.guarded] at hm
  | bool b => simp
  | type l => simp [Mask.guarded] at hm
  | not m _ => simp [Mask.guarded] at hm
  | and ts ih =>
      rw [freeze_and, call_and, spec_and, List.all_map]
      rw [guarded_and, List.all_eq_true] at hm
      apply all_congr_mem
      intro t ht
      exact ih t ht (hm t ht)
  | or ts ih =>
      rw [freeze_or, call_or, spec_or, List.any_map]
      rw [guarded_or, List.all_eq_true] at hm
      apply any_congr_mem
      intro t ht
      exact ih t ht (hm t ht)
  | gt g φ _ _ =>
      obtain ⟨l, rfl⟩ := guarded_gt hm
      rw [freeze_gt_type, spec_gt_type, at_append]
      cases hA : Path.at anc l with
      | some x => simp
      | none =>
          by_cases h : e.lvl = l
          · simp [Path.at, h]
          · have h' : (e.lvl == l) = false := by simpa using h
            simp [Path.at, h', bne]

/-- with more of the path known the formula can only get harder to satisfy ("not reached yet" reads true) -/
theorem spec_mono (m : Mask) (hm : m.guarded = true) (p q : Path) (h : m.spec (p ++ q) = true) :
    m.spec p = true := by
  induction m using Mask.induct with
  | base => simp
  | atom a => simp [Mask.guarded] at hm
  | bool b => simpa using h
  | type l => simp [Mask.guarded] at hm
  | not m _ => simp [Mask.guarded] at hm
  | and ts ih =>
      rw [guarded_and, List.all_eq_true] at hm
      rw [spec_and, List.all_eq_true] at h ⊢
      intro t ht
      exact ih t ht (hm t ht) (h t ht)
  | or ts ih =>
      rw [guarded_or, List.all_eq_true] at hm
      rw [spec_or, List.any_eq_true] at h ⊢
      obtain ⟨t, ht, hs⟩ := h
      exact ⟨t, ht, ih t ht (hm t ht) hs⟩
  | gt g φ _ _ =>
      obtain ⟨l, rfl⟩ := guarded_gt hm
      rw [spec_gt_type, at_append] at h
      rw [spec_gt_type]
      cases hA : Path.at p l with
      | none => rfl
      | some x => simpa [hA] using h


/-! ### the loops of the dispatcher, generic in the test and in what happens one level down -/

def notesG (T : Transformer) (test : Note → Ctx → Bool) (K : Ctx) :
    List Note → Rat → Int → Option Note → Res (List Note)
  | [], _, _, _ => pure []
  | m :: rest, beat, idx, last => do
      let k : Ctx := { K with beat := some beat, idx := some idx, lastNote := last }
      let r ← if test m k then T.actNote m k else pure (T.defaultNote m)
      let tail ← notesG T test K rest (beat + m.dur) (idx + 1) (some m)
      match r with
      | some n => pure (n :: tail)
      | none => pure tail

def partsG (T : Transformer) (test : TMelody → Ctx → Bool) (inner : TMelody → Ctx → Res (Option TMelody))
    (K : Ctx) (c : TChord) : List (String × TMelody) → Res (List (String × TMelody))
  | [] => pure []
  | (key, mel) :: rest => do
      let k : Ctx := { K with chord := some c, instrument := some key }
      let r ← if test mel k then inner mel k else pure (T.defaultMelody mel)
      let tail ← partsG T test inner K c rest
      match r with
      | some m => pure ((key, m.copy) :: tail)
      | none => pure tail

def chordsG (T : Transformer) (test : TChord → Ctx → Bool) (inner : TChord → Ctx → Res (Option TChord))
    (K : Ctx) : List TChord → Rat → Int → Option TChord → Res (List TChord)
  | [], _, _, _ => pure []
  | m :: rest, beat, idx, last => do
      let k : Ctx := { K with chordBeat := some beat, chordIdx := some idx, lastChord := last }
      let r ← if test m k then inner m k else pure (T.defaultChord m)
      let tail ← chordsG T test inner K rest (beat + m.duration) (idx + 1) (some m)
      match r with
      | some c => pure (c.copy :: tail)
      | none => pure tail

theorem melodyLoop_eq (T : Transformer) (on : Mask) (K : Ctx) (notes : List Note) (b : Rat) (i : Int)
    (l : Option Note) :
    melodyLoop T on K notes b i l = notesG T (fun n k => on.call (.note n) k) K notes b i l := by
  induction notes generalizing b i l with
  | nil => simp [melodyLoop, notesG]
  | cons m rest ih => simp only [melodyLoop, notesG, ih]; rfl

theorem partsLoop_eq (T : Transformer) (on : Mask) (K : Ctx) (c : TChord) (parts : List (String × TMelody)) :
    partsLoop T on K c parts =
      partsG T (fun m k => on.call (.melody m) k) (fun m k => callMelody T m on k) K c parts := by
  induction parts with
  | nil => simp [partsLoop, partsG]
  | cons p rest ih => obtain ⟨key, mel⟩ := p; simp only [partsLoop, partsG, ih]; rfl

theorem chordsLoop_eq (T : Transformer) (on : Mask) (K : Ctx) (cs : List TChord) (b : Rat) (i : Int)
    (l : Option TChord) :
    chordsLoop T on K cs b i l =
      chordsG T (fun c k => on.call (.chord c) k) (fun c k => callChord T c on k) K cs b i l := by
  induction cs generalizing b i l with
  | nil => simp [chordsLoop, chordsG]
  | cons m rest ih => simp only [chordsLoop, chordsG, ih]; rfl

/-! ### the specification of a masked application

`sel path` says whether the element at the end of `path` is selected.  An element of the transformer's
level is replaced by the action iff it is selected; a container above that level is entered iff it is
selected (read up to its own level), otherwise it is returned as `get_default` (a copy, or nothing for the
filter classes).  Shape, tags and the chord symbol are those of the input. -/

/-- a melody under a note transformer -/
def specMelody (T : Transformer) (sel : Path → Bool) (P : Path) (el : TMelody) (K : Ctx) : Res TMelody := do
  let notes ← notesG T (fun n k => sel (P ++ [(.melody el, K), (.note n, k)])) K el.notes 0 0 none
  pure { notes := notes, tags := el.tags }

/-- what happens to a melody that has been selected -/
def specMelodyCall (T : Transformer) (sel : Path → Bool) (P : Path) (m : TMelody) (K : Ctx) :
    Res (Option TMelody) :=
  match T.level with
  | .note => do pure (some (← specMelody T sel P m K))
  | .melody => T.actMelody m K
  | .chord => .error .other

/-- a chord under a note or melody transformer -/
def specChord (T : Transformer) (sel : Path → Bool) (P : Path) (el : TChord) (K : Ctx) : Res TChord := do
  let P' := P ++ [(.chord el, K)]
  let parts ← partsG T (fun m k => sel (P' ++ [(.melody m, k)])) (fun m k => specMelodyCall T sel P' m k)
                K el el.parts
  pure { base := el.base, parts := parts, tags := el.tags }

/-- what happens to a chord that has been selected -/
def specChordCall (T : Transformer) (sel : Path → Bool) (P : Path) (c : TChord) (K : Ctx) :
    Res (Option TChord) :=
  match T.level with
  | .note | .melody => do pure (some (← specChord T sel P c K))
  | .chord => T.actChord c K

/-- a score under any transformer -/
def specScore (T : Transformer) (sel : Path → Bool) (P : Path) (el : TScore) (K : Ctx) : Res TScore := do
  let P' := P ++ [(.score el, K)]
  let chords ← chordsG T (fun c k => sel (P' ++ [(.chord c, k)])) (fun c k => specChordCall T sel P' c k)
                 K el.chords 0 0 none
  pure { chords := chords, tags := el.tags }

theorem onOf_none (T : Transformer) (h : T.pre = none) (on : Mask) : T.onOf on = on := by
  simp [Transformer.onOf, h]

theorem applyOnMelody_eq_spec (T : Transformer) (on : Mask) (hg : on.guarded = true) (P : Path)
    (el : TMelody) (K : Ctx) :
    applyOnMelody T el (on.freeze P) K = specMelody T on.spec P el K := by
  simp only [applyOnMelody, specMelody, melodyLoop_eq, ← freeze_snoc, freeze_call on hg,
    List.append_assoc, List.cons_append, List.nil_append]

theorem callMelody_eq_spec (T : Transformer) (hp : T.pre = none) (on : Mask) (hg : on.guarded = true)
    (P : Path) (m : TMelody) (K : Ctx) :
    callMelody T m (on.freeze P) K = specMelodyCall T on.spec P m K := by
  unfold callMelody specMelodyCall
  cases T.level <;> simp [onOf_none T hp, applyOnMelody_eq_spec T on hg]

theorem applyOnChord_eq_spec (T : Transformer) (hp : T.pre = none) (on : Mask) (hg : on.guarded = true)
    (P : Path) (el : TChord) (K : Ctx) :
    applyOnChord T el (on.freeze P) K = specChord T on.spec P el K := by
  simp only [applyOnChord, specChord, partsLoop_eq, ← freeze_snoc, freeze_call on hg,
    callMelody_eq_spec T hp on hg]

theorem callChord_eq_spec (T : Transformer) (hp : T.pre = none) (on : Mask) (hg : on.guarded = true)
    (P : Path) (c : TChord) (K : Ctx) :
    callChord T c (on.freeze P) K = specChordCall T on.spec P c K := by
  unfold callChord specChordCall
  cases T.level <;> simp [onOf_none T hp, applyOnChord_eq_spec T hp on hg]

theorem applyOnScore_eq_spec (T : Transformer) (hp : T.pre = none) (on : Mask) (hg : on.guarded = true)
    (P : Path) (el : TScore) (K : Ctx) :
    applyOnScore T el (on.freeze P) K = specScore T on.spec P el K := by
  simp only [applyOnScore, specScore, chordsLoop_eq, ← freeze_snoc, freeze_call on hg,
    callChord_eq_spec T hp on hg]


/-! ### total actions: the loops are plain maps (same length, same order, nothing dropped) -/

def notesP (g : Note → Ctx → Note) (K : Ctx) : List Note → Rat → Int → Option Note → List Note
  | [], _, _, _ => []
  | m :: rest, beat, idx, last =>
      g m { K with beat := some beat, idx := some idx, lastNote := last }
        :: notesP g K rest (beat + m.dur) (idx + 1) (some m)

def partsP (g : TMelody → Ctx → TMelody) (K : Ctx) (c : TChord) :
    List (String × TMelody) → List (String × TMelody)
  | [] => []
  | (key, mel) :: rest =>
      (key, (g mel { K with chord := some c, instrument := some key }).copy) :: partsP g K c rest

def chordsP (g : TChord → Ctx → TChord) (K : Ctx) : List TChord → Rat → Int → Option TChord → List TChord
  | [], _, _, _ => []
  | m :: rest, beat, idx, last =>
      (g m { K with chordBeat := some beat, chordIdx := some idx, lastChord := last }).copy
        :: chordsP g K rest (beat + m.duration) (idx + 1) (some m)

theorem notesP_length (g : Note → Ctx → Note) (K : Ctx) (notes : List Note) (b : Rat) (i : Int) (l : Option Note) :
    (notesP g K notes b i l).length = notes.length := by
  induction notes generalizing b i l with
  | nil => rfl
  | cons m rest ih => simp [notesP, ih]

theorem partsP_names (g : TMelody → Ctx → TMelody) (K : Ctx) (c : TChord) (parts : List (String × TMelody)) :
    (partsP g K c parts).map (·.1) = parts.map (·.1) := by
  induction parts with
  | nil => rfl
  | cons p rest ih => obtain ⟨key, mel⟩ := p; simp [partsP, ih]

theorem chordsP_length (g : TChord → Ctx → TChord) (K : Ctx) (cs : List TChord) (b : Rat) (i : Int)
    (l : Option TChord) : (chordsP g K cs b i l).length = cs.length := by
  induction cs generalizing b i l with
  | nil => rfl
  | cons m rest ih => simp [chordsP, ih]

theorem notesG_total (T : Transformer) (hf : T.filter = false) (f : Note → Ctx → Note)
    (ha : ∀ n k, T.actNote n k = .ok (some (f n k))) (test : Note → Ctx → Bool) (K : Ctx)
    (notes : List Note) (b : Rat) (i : Int) (l : Option Note) :
    notesG T test K notes b i l
      = .ok (notesP (fun n k => if test n k then f n k else noteCopy n) K notes b i l) := by
  induction notes generalizing b i l with
  | nil => rfl
  | cons m rest ih =>
      simp only [notesG, notesP, ih, ha, Transformer.defaultNote, hf]
      split <;> rfl

theorem partsG_total (T : Transformer) (hf : T.filter = false) (test : TMelody → Ctx → Bool)
    (inner : TMelody → Ctx → Res (Option TMelody)) (h : TMelody → Ctx → TMelody)
    (hi : ∀ m k, inner m k = .ok (some (h m k))) (K : Ctx) (c : TChord) (parts : List (String × TMelody)) :
    partsG T test inner K c parts
      = .ok (partsP (fun m k => if test m k then h m k else m.copy) K c parts) := by
  induction parts with
  | nil => rfl
  | cons p rest ih =>
      obtain ⟨key, mel⟩ := p
      simp only [partsG, partsP, ih, hi, Transformer.defaultMelody, hf]
      split <;> rfl

theorem chordsG_total (T : Transformer) (hf : T.filter = false) (test : TChord → Ctx → Bool)
    (inner : TChord → Ctx → Res (Option TChord)) (h : TChord → Ctx → TChord)
    (hi : ∀ c k, inner c k = .ok (some (h c k))) (K : Ctx) (cs : List TChord) (b : Rat) (i : Int)
    (l : Option TChord) :
    chordsG T test inner K cs b i l
      = .ok (chordsP (fun c k => if test c k then h c k else c.copy) K cs b i l) := by
  induction cs generalizing b i l with
  | nil => rfl
  | cons m rest ih =>
      simp only [chordsG, chordsP, ih, hi, Transformer.defaultChord, hf]
      split <;> rfl


/-! ### the flat reading for transformers that neither fail nor delete

`sel` is any monotone selection (`Mask.spec` is, by `spec_mono`).  Every note / melody / chord of the
input is present in the output at the same place; the selected ones went through the action `f`, the
others through `copy`. -/

theorem noteCopy_idem (n : Note) : noteCopy (noteCopy n) = noteCopy n := by
  obtain ⟨kind, val, oct, dur, mode, acc, amp, tags, tempo, pedal⟩ := n
  cases kind <;> rfl

theorem melodyCopy_idem (m : TMelody) : m.copy.copy = m.copy := by
  simp [TMelody.copy, noteCopy_idem]

theorem chordCopy_idem (c : TChord) : c.copy.copy = c.copy := by
  simp [TChord.copy, melodyCopy_idem, Function.comp_def]

theorem notesP_copy (K : Ctx) (notes : List Note) (b : Rat) (i : Int) (l : Option Note) :
    notesP (fun n _ => noteCopy n) K notes b i l = notes.map noteCopy := by
  induction notes generalizing b i l with
  | nil => rfl
  | cons m rest ih => simp [notesP, ih]

def Monotone (sel : Path → Bool) : Prop := ∀ p q : Path, sel (p ++ q) = true → sel p = true

theorem spec_monotone (m : Mask) (hm : m.guarded = true) : Monotone m.spec :=
  fun p q h => spec_mono m hm p q h

/-- a melody under a total note action -/
def flatMelody (sel : Path → Bool) (f : Note → Ctx → Note) (P : Path) (el : TMelody) (K : Ctx) : TMelody :=
  { notes := notesP (fun n k => if sel (P ++ [(.melody el, K), (.note n, k)]) then f n k else noteCopy n)
               K el.notes 0 0 none,
    tags := el.tags }

/-- a chord under a total note action -/
def flatChord (sel : Path → Bool) (f : Note → Ctx → Note) (P : Path) (el : TChord) (K : Ctx) : TChord :=
  { base := el.base, tags := el.tags,
    parts := partsP (fun m k => flatMelody sel f (P ++ [(.chord el, K)]) m k) K el el.parts }

/-- a score under a total note action -/
def flatScore (sel : Path → Bool) (f : Note → Ctx → Note) (P : Path) (el : TScore) (K : Ctx) : TScore :=
  { chords := chordsP (fun c k => flatChord sel f (P ++ [(.score el, K)]) c k) K el.chords 0 0 none,
    tags := el.tags }

theorem flatMelody_unselected (sel : Path → Bool) (hs : Monotone sel) (f : Note → Ctx → Note) (P : Path)
    (el : TMelody) (K : Ctx) (h : sel (P ++ [(.melody el, K)]) = false) :
    flatMelody sel f P el K = el.copy := by
  have : (fun (n : Note) (k : Ctx) => if sel (P ++ [(Elem.melody el, K), (Elem.note n, k)]) then f n k else noteCopy n)
       = (fun n _ => noteCopy n) := by
    funext n k
    have hh : sel (P ++ [(Elem.melody el, K), (Elem.note n, k)]) = false := by
      cases hq : sel (P ++ [(Elem.melody el, K), (Elem.note n, k)]) with
      | false => rfl
      | true =>
          have := hs (P ++ [(Elem.melody el, K)]) [(Elem.note n, k)] (by simpa using hq)
          rw [h] at this; cases this
    simp [hh]
  simp [flatMelody, this, notesP_copy, TMelody.copy]

theorem partsP_copy (K : Ctx) (c : TChord) (parts : List (String × TMelody)) :
    partsP (fun m _ => m.copy) K c parts = parts.map (fun p => (p.1, p.2.copy)) := by
  induction parts with
  | nil => rfl
  | cons p rest ih => obtain ⟨key, mel⟩ := p; simp [partsP, ih, melodyCopy_idem]

theorem flatChord_unselected (sel : Path → Bool) (hs : Monotone sel) (f : Note → Ctx → Note) (P : Path)
    (el : TChord) (K : Ctx) (h : sel (P ++ [(.chord el, K)]) = false) :
    flatChord sel f P el K = el.copy := by
  have : (fun (m : TMelody) (k : Ctx) => flatMelody sel f (P ++ [(Elem.chord el, K)]) m k)
       = (fun m _ => m.copy) := by
    funext m k
    apply flatMelody_unselected sel hs
    cases hq : sel (P ++ [(Elem.chord el, K)] ++ [(Elem.melody m, k)]) with
    | false => rfl
    | true =>
        have := hs (P ++ [(Elem.chord el, K)]) [(Elem.melody m, k)] hq
        rw [h] at this; cases this
  simp [flatChord, this, partsP_copy, TChord.copy]

theorem specMelody_flat (T : Transformer) (hf : T.filter = false) (f : Note → Ctx → Note)
    (ha : ∀ n k, T.actNote n k = .ok (some (f n k))) (sel : Path → Bool) (P : Path) (el : TMelody) (K : Ctx) :
    specMelody T sel P el K = .ok (flatMelody sel f P el K) := by
  simp only [specMelody, notesG_total T hf f ha, flatMelody]
  rfl

theorem specChord_flat (T : Transformer) (hl : T.level = .note) (hf : T.filter = false) (f : Note → Ctx → Note)
    (ha : ∀ n k, T.actNote n k = .ok (some (f n k))) (sel : Path → Bool) (hs : Monotone sel) (P : Path)
    (el : TChord) (K : Ctx) :
    specChord T sel P el K = .ok (flatChord sel f P el K) := by
  have hi : ∀ m k, specMelodyCall T sel (P ++ [(Elem.chord el, K)]) m k
      = .ok (some (flatMelody sel f (P ++ [(Elem.chord el, K)]) m k)) := by
    intro m k
    simp only [specMelodyCall, hl, specMelody_flat T hf f ha]
    rfl
  have hg : (fun (m : TMelody) (k : Ctx) =>
        if sel (P ++ [(Elem.chord el, K)] ++ [(Elem.melody m, k)]) then flatMelody sel f (P ++ [(Elem.chord el, K)]) m k
        else m.copy) = (fun m k => flatMelody sel f (P ++ [(Elem.chord el, K)]) m k) := by
    funext m k
    split
    · rfl
    · rename_i h
      exact (flatMelody_unselected sel hs f _ m k (by simpa using h)).symm
  simp only [specChord, partsG_total T hf _ _ _ hi, hg, flatChord]
  rfl

theorem specScore_flat (T : Transformer) (hl : T.level = .note) (hf : T.filter = false) (f : Note → Ctx → Note)
    (ha : ∀ n k, T.actNote n k = .ok (some (f n k))) (sel : Path → Bool) (hs : Monotone sel) (P : Path)
    (el : TScore) (K : Ctx) :
    specScore T sel P el K = .ok (flatScore sel f P el K) := by
  have hi : ∀ c k, specChordCall T sel (P ++ [(Elem.score el, K)]) c k
      = .ok (some (flatChord sel f (P ++ [(Elem.score el, K)]) c k)) := by
    intro c k
    simp only [specChordCall, hl, specChord_flat T hl hf f ha sel hs]
    rfl
  have hg : (fun (c : TChord) (k : Ctx) =>
        if sel (P ++ [(Elem.score el, K)] ++ [(Elem.chord c, k)]) then flatChord sel f (P ++ [(Elem.score el, K)]) c k
        else c.copy) = (fun c k => flatChord sel f (P ++ [(Elem.score el, K)]) c k) := by
    funext c k
    split
    · rfl
    · rename_i h
      exact (flatChord_unselected sel hs f _ c k (by simpa using h)).symm
  simp only [specScore, chordsG_total T hf _ _ _ hi, hg, flatScore]
  rfl


/-- a chord under a total melody action -/
def flatChordM (sel : Path → Bool) (g : TMelody → Ctx → TMelody) (P : Path) (el : TChord) (K : Ctx) : TChord :=
  { base := el.base, tags := el.tags,
    parts := partsP (fun m k => if sel (P ++ [(.chord el, K), (.melody m, k)]) then g m k else m.copy) K el el.parts }

/-- a score under a total melody action -/
def flatScoreM (sel : Path → Bool) (g : TMelody → Ctx → TMelody) (P : Path) (el : TScore) (K : Ctx) : TScore :=
  { chords := chordsP (fun c k => flatChordM sel g (P ++ [(.score el, K)]) c k) K el.chords 0 0 none,
    tags := el.tags }

/-- a score under a total chord action -/
def flatScoreC (sel : Path → Bool) (g : TChord → Ctx → TChord) (P : Path) (el : TScore) (K : Ctx) : TScore :=
  { chords := chordsP (fun c k => if sel (P ++ [(.score el, K), (.chord c, k)]) then g c k else c.copy)
                K el.chords 0 0 none,
    tags := el.tags }

theorem flatChordM_unselected (sel : Path → Bool) (hs : Monotone sel) (g : TMelody → Ctx → TMelody) (P : Path)
    (el : TChord) (K : Ctx) (h : sel (P ++ [(.chord el, K)]) = false) :
    flatChordM sel g P el K = el.copy := by
  have : (fun (m : TMelody) (k : Ctx) => if sel (P ++ [(Elem.chord el, K), (Elem.melody m, k)]) then g m k else m.copy)
       = (fun m _ => m.copy) := by
    funext m k
    have hh : sel (P ++ [(Elem.chord el, K), (Elem.melody m, k)]) = false := by
      cases hq : sel (P ++ [(Elem.chord el, K), (Elem.melody m, k)]) with
      | false => rfl
      | true =>
          have := hs (P ++ [(Elem.chord el, K)]) [(Elem.melody m, k)] (by simpa using hq)
          rw [h] at this; cases this
    simp [hh]
  simp [flatChordM, this, partsP_copy, TChord.copy]

theorem specChord_flatM (T : Transformer) (hl : T.level = .melody) (hf : T.filter = false)
    (g : TMelody → Ctx → TMelody) (ha : ∀ m k, T.actMelody m k = .ok (some (g m k))) (sel : Path → Bool)
    (P : Path) (el : TChord) (K : Ctx) :
    specChord T sel P el K = .ok (flatChordM sel g P el K) := by
  have hi : ∀ m k, specMelodyCall T sel (P ++ [(Elem.chord el, K)]) m k = .ok (some (g m k)) := by
    intro m k
    simp only [specMelodyCall, hl, ha]
  simp only [specChord, partsG_total T hf _ _ _ hi, flatChordM, List.append_assoc, List.cons_append,
    List.nil_append]
  rfl

theorem lengthNonempty {α} (l l' : List α) (h : l'.length = l.length) (hne : l ≠ []) : l'.isEmpty = false := by
  rw [List.isEmpty_eq_false_iff]
  intro h0
  rw [h0] at h
  exact hne (List.eq_nil_of_length_eq_zero h.symm)

theorem specScore_flatM (T : Transformer) (hl : T.level = .melody) (hf : T.filter = false)
    (g : TMelody → Ctx → TMelody) (ha : ∀ m k, T.actMelody m k = .ok (some (g m k))) (sel : Path → Bool)
    (hs : Monotone sel) (P : Path) (el : TScore) (K : Ctx) :
    specScore T sel P el K = .ok (flatScoreM sel g P el K) := by
  have hi : ∀ c k, specChordCall T sel (P ++ [(Elem.score el, K)]) c k
      = .ok (some (flatChordM sel g (P ++ [(Elem.score el, K)]) c k)) := by
    intro c k
    simp only [specChordCall, hl, specChord_flatM T hl hf g ha sel]
    rfl
  have hg : (fun (c : TChord) (k : Ctx) =>
        if sel (P ++ [(Elem.score el, K)] ++ [(Elem.chord c, k)]) then flatChordM sel g (P ++ [(Elem.score el, K)]) c k
        else c.copy) = (fun c k => flatChordM sel g (P ++ [(Elem.score el, K)]) c k) := by
    funext c k
    split
    · rfl
    · rename_i h
      exact (flatChordM_unselected sel hs g _ c k (by simpa using h)).symm
  simp only [specScore, chordsG_total T hf _ _ _ hi, hg, flatScoreM]
  rfl

theorem specScore_flatC (T : Transformer) (hl : T.level = .chord) (hf : T.filter = false)
    (g : TChord → Ctx → TChord) (ha : ∀ c k, T.actChord c k = .ok (some (g c k))) (sel : Path → Bool)
    (P : Path) (el : TScore) (K : Ctx) :
    specScore T sel P el K = .ok (flatScoreC sel g P el K) := by
  have hi : ∀ c k, specChordCall T sel (P ++ [(Elem.score el, K)]) c k = .ok (some (g c k)) := by
    intro c k
    simp only [specChordCall, hl, ha]
  simp only [specScore, chordsG_total T hf _ _ _ hi, flatScoreC, List.append_assoc, List.cons_append,
    List.nil_append]
  rfl

/-! ### the keyword arguments of the j-th element -/

def durSum (l : List Rat) : Rat := l.foldr (· + ·) 0

/-- the j-th output note of a total note loop is `g` of the j-th input note with `beat` = the sum of
the durations before it, `idx` = j and `last_note` = the note before it -/
theorem durSum_cons (x : Rat) (xs : List Rat) : durSum (x :: xs) = x + durSum xs := rfl

theorem notesP_get (g : Note → Ctx → Note) (K : Ctx) (notes : List Note) (b : Rat) (i : Int) (l : Option Note)
    (j : Nat) (hj : j < notes.length) :
    (notesP g K notes b i l)[j]? =
      some (g notes[j] { K with beat := some (b + durSum ((notes.take j).map (·.dur))),
                                idx := some (i + j),
                                lastNote := if j = 0 then l else notes[j - 1]? }) := by
  induction notes generalizing b i l j with
  | nil => simp at hj
  | cons m rest ih =>
      cases j with
      | zero => simp [notesP, durSum, Rat.add_zero]
      | succ j =>
          have hj' : j < rest.length := by simpa using hj
          have h1 : b + m.dur + durSum ((rest.take j).map (·.dur))
              = b + durSum (((m :: rest).take (j + 1)).map (·.dur)) := by
            simp [durSum_cons, Rat.add_assoc]
          have h2 : i + 1 + (j : Int) = i + ((j + 1 : Nat) : Int) := by omega
          have h3 : (if j = 0 then some m else rest[j - 1]?)
              = (if j + 1 = 0 then l else (m :: rest)[j + 1 - 1]?) := by
            cases j <;> simp
          rw [notesP, List.getElem?_cons_succ, ih _ _ _ j hj', h1, h2, h3]
          simp

/-- the j-th output chord of a total chord loop: `chord_beat` = the sum of the durations of the chords
before it, `chord_idx` = j, `last_chord` = the chord before it -/
theorem chordsP_get (g : TChord → Ctx → TChord) (K : Ctx) (cs : List TChord) (b : Rat) (i : Int)
    (l : Option TChord) (j : Nat) (hj : j < cs.length) :
    (chordsP g K cs b i l)[j]? =
      some (g cs[j] { K with chordBeat := some (b + durSum ((cs.take j).map (·.duration))),
                             chordIdx := some (i + j),
                             lastChord := if j = 0 then l else cs[j - 1]? }).copy := by
  induction cs generalizing b i l j with
  | nil => simp at hj
  | cons m rest ih =>
      cases j with
      | zero => simp [chordsP, durSum, Rat.add_zero]
      | succ j =>
          have hj' : j < rest.length := by simpa using hj
          have h1 : b + m.duration + durSum ((rest.take j).map (·.duration))
              = b + durSum (((m :: rest).take (j + 1)).map (·.duration)) := by
            simp [durSum_cons, Rat.add_assoc]
          have h2 : i + 1 + (j : Int) = i + ((j + 1 : Nat) : Int) := by omega
          have h3 : (if j = 0 then some m else rest[j - 1]?)
              = (if j + 1 = 0 then l else (m :: rest)[j + 1 - 1]?) := by
            cases j <;> simp
          rw [chordsP, List.getElem?_cons_succ, ih _ _ _ j hj', h1, h2, h3]
          simp

/-- the j-th part of a total part loop keeps its name and gets `chord` = the chord, `instrument` = its name -/
theorem partsP_get (g : TMelody → Ctx → TMelody) (K : Ctx) (c : TChord) (parts : List (String × TMelody))
    (j : Nat) (hj : j < parts.length) :
    (partsP g K c parts)[j]? =
      some (parts[j].1, (g parts[j].2 { K with chord := some c, instrument := some parts[j].1 }).copy) := by
  induction parts generalizing j with
  | nil => simp at hj
  | cons p rest ih =>
      obtain ⟨key, mel⟩ := p
      cases j with
      | zero => simp [partsP]
      | succ j =>
          have hj' : j < rest.length := by simpa using hj
          simp only [partsP, List.getElem?_cons_succ, ih j hj']
          simp


/-! ### rhythm: every rest, continuation and duration -/

inductive RClass where
  | rest | cont | sound
  deriving DecidableEq, Repr

def rclass (k : Kind) : RClass :=
  match k with
  | .r => .rest
  | .l => .cont
  | _ => .sound

/-- what the rhythm keeps of a note: is it a rest, a continuation or a sounding note, and how long -/
def rhythmOf (n : Note) : RClass × Rat := (rclass n.kind, n.dur)

def TMelody.rhythm (m : TMelody) : List (RClass × Rat) := m.notes.map rhythmOf
def TChord.rhythm (c : TChord) : List (String × List (RClass × Rat)) := c.parts.map (fun p => (p.1, p.2.rhythm))
def TScore.rhythm (s : TScore) : List (List (String × List (RClass × Rat))) := s.chords.map TChord.rhythm

theorem rhythmOf_copy (n : Note) : rhythmOf (noteCopy n) = rhythmOf n := by
  obtain ⟨kind, val, oct, dur, mode, acc, amp, tags, tempo, pedal⟩ := n
  cases kind <;> rfl

theorem rhythm_copy (m : TMelody) : m.copy.rhythm = m.rhythm := by
  simp [TMelody.rhythm, TMelody.copy, List.map_map, Function.comp_def, rhythmOf_copy]

theorem chord_rhythm_copy (c : TChord) : c.copy.rhythm = c.rhythm := by
  simp [TChord.rhythm, TChord.copy, List.map_map, Function.comp_def, rhythm_copy]

theorem rhythmOf_o (n : Note) (k : Int) : rhythmOf (n.o k) = rhythmOf n := by
  obtain ⟨kind, val, oct, dur, mode, acc, amp, tags, tempo, pedal⟩ := n
  cases kind <;> rfl

/-- an action keeps the rhythm when, whenever it returns, it returns one note of the same class and duration -/
def KeepsRhythmN (act : Note → Ctx → Res (Option Note)) : Prop :=
  ∀ n k r, act n k = .ok r → ∃ n', r = some n' ∧ rhythmOf n' = rhythmOf n

def KeepsRhythmM (act : TMelody → Ctx → Res (Option TMelody)) : Prop :=
  ∀ m k r, act m k = .ok r → ∃ m', r = some m' ∧ m'.rhythm = m.rhythm

def KeepsRhythmC (act : TChord → Ctx → Res (Option TChord)) : Prop :=
  ∀ c k r, act c k = .ok r → ∃ c', r = some c' ∧ c'.rhythm = c.rhythm

theorem bind_eq_ok {α β} (x : Res α) (f : α → Res β) (y : β) :
    (x >>= f) = .ok y ↔ ∃ a, x = .ok a ∧ f a = .ok y := by
  cases x <;> simp [bind, Except.bind]

theorem pure_eq_ok {α} (a b : α) : (pure a : Res α) = .ok b ↔ a = b := by
  simp [pure, Except.pure]

theorem notesG_rhythm (T : Transformer) (hf : T.filter = false) (hk : KeepsRhythmN T.actNote)
    (test : Note → Ctx → Bool) (K : Ctx) (notes : List Note) (b : Rat) (i : Int) (l : Option Note)
    (out : List Note) (h : notesG T test K notes b i l = .ok out) :
    out.map rhythmOf = notes.map rhythmOf := by
  induction notes generalizing b i l out with
  | nil => simp [notesG, pure, Except.pure] at h; subst h; rfl
  | cons m rest ih =>
      rw [notesG] at h
      have step : ∀ r : Option Note, (∃ n', r = some n' ∧ rhythmOf n' = rhythmOf m) →
          ((notesG T test K rest (b + m.dur) (i + 1) (some m) >>= fun tail =>
              match r with
              | some n => pure (n :: tail)
              | none => pure tail) = .ok out) →
          out.map rhythmOf = (m :: rest).map rhythmOf := by
        intro r hr' h
        obtain ⟨tail, ht, h⟩ := (bind_eq_ok _ _ _).mp h
        have hrest := ih _ _ _ _ ht
        obtain ⟨n', rfl, hn'⟩ := hr'
        rw [pure_eq_ok] at h
        subst h
        simp [hn', hrest]
      split at h
      · obtain ⟨r, hr, h⟩ := (bind_eq_ok _ _ _).mp h
        exact step r (hk _ _ _ hr) h
      · obtain ⟨r, hr, h⟩ := (bind_eq_ok _ _ _).mp h
        rw [pure_eq_ok] at hr
        exact step r ⟨noteCopy m, by simp [← hr, Transformer.defaultNote, hf], rhythmOf_copy m⟩ h

theorem partsG_rhythm (T : Transformer) (hf : T.filter = false) (test : TMelody → Ctx → Bool)
    (inner : TMelody → Ctx → Res (Option TMelody)) (hk : KeepsRhythmM inner) (K : Ctx) (c : TChord)
    (parts out : List (String × TMelody)) (h : partsG T test inner K c parts = .ok out) :
    out.map (fun p => (p.1, p.2.rhythm)) = parts.map (fun p => (p.1, p.2.rhythm)) := by
  induction parts generalizing out with
  | nil => simp [partsG, pure, Except.pure] at h; subst h; rfl
  | cons p rest ih =>
      obtain ⟨key, mel⟩ := p
      rw [partsG] at h
      have step : ∀ r : Option TMelody, (∃ m', r = some m' ∧ m'.rhythm = mel.rhythm) →
          ((partsG T test inner K c rest >>= fun tail =>
              match r with
              | some m => pure ((key, m.copy) :: tail)
              | none => pure tail) = .ok out) →
          out.map (fun p => (p.1, p.2.rhythm)) = ((key, mel) :: rest).map (fun p => (p.1, p.2.rhythm)) := by
        intro r hr' h
        obtain ⟨tail, ht, h⟩ := (bind_eq_ok _ _ _).mp h
        have hrest := ih _ ht
        obtain ⟨m', rfl, hm'⟩ := hr'
        rw [pure_eq_ok] at h
        subst h
        simp [rhythm_copy, hm', hrest]
      split at h
      · obtain ⟨r, hr, h⟩ := (bind_eq_ok _ _ _).mp h
        exact step r (hk _ _ _ hr) h
      · obtain ⟨r, hr, h⟩ := (bind_eq_ok _ _ _).mp h
        rw [pure_eq_ok] at hr
        exact step r ⟨mel.copy, by simp [← hr, Transformer.defaultMelody, hf], rhythm_copy mel⟩ h

theorem chordsG_rhythm (T : Transformer) (hf : T.filter = false) (test : TChord → Ctx → Bool)
    (inner : TChord → Ctx → Res (Option TChord)) (hk : KeepsRhythmC inner) (K : Ctx)
    (cs : List TChord) (b : Rat) (i : Int) (l : Option TChord) (out : List TChord)
    (h : chordsG T test inner K cs b i l = .ok out) :
    out.map TChord.rhythm = cs.map TChord.rhythm := by
  induction cs generalizing b i l out with
  | nil => simp [chordsG, pure, Except.pure] at h; subst h; rfl
  | cons m rest ih =>
      rw [chordsG] at h
      have step : ∀ r : Option TChord, (∃ c', r = some c' ∧ c'.rhythm = m.rhythm) →
          ((chordsG T test inner K rest (b + m.duration) (i + 1) (some m) >>= fun tail =>
              match r with
              | some c => pure (c.copy :: tail)
              | none => pure tail) = .ok out) →
          out.map TChord.rhythm = (m :: rest).map TChord.rhythm := by
        intro r hr' h
        obtain ⟨tail, ht, h⟩ := (bind_eq_ok _ _ _).mp h
        have hrest := ih _ _ _ _ ht
        obtain ⟨c', rfl, hc'⟩ := hr'
        rw [pure_eq_ok] at h
        subst h
        simp [chord_rhythm_copy, hc', hrest]
      split at h
      · obtain ⟨r, hr, h⟩ := (bind_eq_ok _ _ _).mp h
        exact step r (hk _ _ _ hr) h
      · obtain ⟨r, hr, h⟩ := (bind_eq_ok _ _ _).mp h
        rw [pure_eq_ok] at hr
        exact step r ⟨m.copy, by simp [← hr, Transformer.defaultChord, hf], chord_rhythm_copy m⟩ h



/-! ### pipelines -/

theorem transformPipeline_foldlM (steps : List Step) (x : Option Elem) :
    transformPipeline steps x = steps.foldlM (fun acc st => transformStep st acc) x := by
  induction steps generalizing x with
  | nil => rfl
  | cons st rest ih => simp [transformPipeline, List.foldlM_cons, ih]

theorem transformPipeline_append (a b : List Step) (x : Option Elem) :
    transformPipeline (a ++ b) x = transformPipeline a x >>= fun y => transformPipeline b y := by
  simp [transformPipeline_foldlM, List.foldlM_append]

theorem concatPipeline_foldlM (steps : List Step) (x : Option Elem) :
    concatPipeline steps x = steps.foldlM (fun acc st => concatStep st acc) x := by
  induction steps generalizing x with
  | nil => rfl
  | cons st rest ih => simp [concatPipeline, List.foldlM_cons, ih]

theorem concatPipeline_append (a b : List Step) (x : Option Elem) :
    concatPipeline (a ++ b) x = concatPipeline a x >>= fun y => concatPipeline b y := by
  simp [concatPipeline_foldlM, List.foldlM_append]

/-- one step of a concat pipeline on a score: the score so far (copied), then the step's result with
the step tag on each of its chords -/
theorem concatStep_score (st : Step) (s : TScore) (y : Option Elem) (h : concatStep st (some (.score s)) = .ok y) :
    ∃ r, applyOnScore st.T s (st.T.onOf st.on) {} = .ok r ∧
      y = some (.score { chords := s.copy.chords ++ (r.addTagChildren (stepTag st.name)).copy.chords,
                         tags := unionTags s.tags r.tags }) := by
  unfold concatStep at h
  simp only [callElem, callScore] at h
  obtain ⟨r, hr, h⟩ := (bind_eq_ok _ _ _).mp h
  obtain ⟨r', hr', hr⟩ := (bind_eq_ok _ _ _).mp hr
  rw [pure_eq_ok] at hr
  subst hr
  obtain ⟨r'', hr'', hr'⟩ := (bind_eq_ok _ _ _).mp hr'
  rw [pure_eq_ok] at hr'
  subst hr'
  refine ⟨r'', hr'', ?_⟩
  simp only [Option.map_some] at h
  obtain ⟨z, hz, h⟩ := (bind_eq_ok _ _ _).mp h
  rw [pure_eq_ok] at h
  subst h
  simp only [elemAdd, pure_eq_ok] at hz
  subst hz
  rfl

theorem copy_chords_append (a b : List TChord) :
    (a ++ b).map TChord.copy = a.map TChord.copy ++ b.map TChord.copy := by simp

/-- a concat pipeline on a score only ever appends: the (copied) input chords stay in front -/
theorem concatPipeline_prefix (steps : List Step) (s : TScore) (y : Option Elem)
    (h : concatPipeline steps (some (.score s)) = .ok y) :
    ∃ s', y = some (.score s') ∧ s.copy.chords <+: s'.copy.chords := by
  induction steps generalizing s with
  | nil =>
      simp [concatPipeline, pure, Except.pure] at h
      subst h
      exact ⟨s, rfl, List.prefix_refl _⟩
  | cons st rest ih =>
      rw [concatPipeline] at h
      obtain ⟨z, hz, h⟩ := (bind_eq_ok _ _ _).mp h
      obtain ⟨r, _, hz'⟩ := concatStep_score st s z hz
      subst hz'
      obtain ⟨s', hs', hp⟩ := ih _ h
      refine ⟨s', hs', ?_⟩
      refine List.IsPrefix.trans ?_ hp
      simp only [TScore.copy, List.map_append, List.map_map]
      have : (TChord.copy ∘ TChord.copy) = TChord.copy := by funext c; exact chordCopy_idem c
      rw [this]
      exact List.prefix_append _ _

/-! ### `~` -/

mutual
/-- masks without type guards inside: atoms, `Bool`, `NotMask`, `And`, `Or` -/
def Mask.plain : Mask → Bool
  | .atom _ => true
  | .bool _ => true
  | .not m => m.plain
  | .and ts => Mask.plainAll ts
  | .or ts => Mask.plainAll ts
  | .base => false
  | .type _ => false
  | .gt _ _ => false
def Mask.plainAll : List Mask → Bool
  | [] => true
  | t :: ts => t.plain && Mask.plainAll ts
end

theorem plainAll_eq (ts : List Mask) : Mask.plainAll ts = ts.all Mask.plain := by
  induction ts with
  | nil => simp [Mask.plainAll]
  | cons t ts ih => simp [Mask.plainAll, ih]

/-- on a guard-free mask `~` is the negation -/
theorem invert_call_plain (m : Mask) (hm : m.plain = true) (e : Elem) (k : Ctx) :
    m.invert.call e k = !(m.call e k) := by
  induction m using Mask.induct with
  | base => simp [Mask.plain] at hm
  | atom a => simp
  | bool b => simp
  | type l => simp [Mask.plain] at hm
  | not m _ => simp
  | and ts ih =>
      simp only [Mask.plain, plainAll_eq, List.all_eq_true] at hm
      rw [invert_and, call_or, call_and, List.any_map, List.not_all_eq_any_not]
      exact any_congr_mem ts (fun t ht => ih t ht (hm t ht))
  | or ts ih =>
      simp only [Mask.plain, plainAll_eq, List.all_eq_true] at hm
      rw [invert_or, call_and, call_or, List.all_map, List.not_any_eq_all_not]
      exact all_congr_mem ts (fun t ht => ih t ht (hm t ht))
  | gt g φ _ _ => simp [Mask.plain] at hm

theorem plain_invert (m : Mask) (hm : m.plain = true) : m.invert.plain = true := by
  induction m using Mask.induct with
  | base => simp [Mask.plain] at hm
  | atom a => simp [Mask.plain]
  | bool b => simp [Mask.plain]
  | type l => simp [Mask.plain] at hm
  | not m _ => simpa [Mask.plain] using hm
  | and ts ih =>
      simp only [Mask.plain, plainAll_eq, List.all_eq_true] at hm
      simp only [invert_and, Mask.plain, plainAll_eq, List.all_map, List.all_eq_true]
      exact fun t ht => ih t ht (hm t ht)
  | or ts ih =>
      simp only [Mask.plain, plainAll_eq, List.all_eq_true] at hm
      simp only [invert_or, Mask.plain, plainAll_eq, List.all_map, List.all_eq_true]
      exact fun t ht => ih t ht (hm t ht)
  | gt g φ _ _ => simp [Mask.plain] at hm

mutual
/-- guarded masks whose guarded bodies are guard-free and which do not contain `Mask()`; `onPath p`
additionally asks every guard level to be present on the path -/
def Mask.gplain (p : Path) : Mask → Bool
  | .bool _ => true
  | .and ts => Mask.gplainAll p ts
  | .or ts => Mask.gplainAll p ts
  | .gt g φ => match g with
      | .type l => φ.plain && (Path.at p l).isSome
      | _ => false
  | .base => false
  | .atom _ => false
  | .type _ => false
  | .not _ => false
def Mask.gplainAll (p : Path) : List Mask → Bool
  | [] => true
  | t :: ts => t.gplain p && Mask.gplainAll p ts
end

theorem gplainAll_eq (p : Path) (ts : List Mask) : Mask.gplainAll p ts = ts.all (Mask.gplain p) := by
  induction ts with
  | nil => simp [Mask.gplainAll]
  | cons t ts ih => simp [Mask.gplainAll, ih]

/-- `~` is De Morgan with the negation pushed inside each guard: on a path that has every guarded level,
the inverted mask selects exactly what the mask does not; and it is again a guarded mask -/
theorem invert_spec (m : Mask) (p : Path) (hm : m.gplain p = true) :
    m.invert.spec p = !(m.spec p) ∧ m.invert.gplain p = true ∧ m.guarded = true := by
  induction m using Mask.induct with
  | base => simp [Mask.gplain] at hm
  | atom a => simp [Mask.gplain] at hm
  | bool b => simp [Mask.gplain, Mask.guarded]
  | type l => simp [Mask.gplain] at hm
  | not m _ => simp [Mask.gplain] at hm
  | and ts ih =>
      simp only [Mask.gplain, gplainAll_eq, List.all_eq_true] at hm
      refine ⟨?_, ?_, ?_⟩
      · rw [invert_and, spec_or, spec_and, List.any_map, List.not_all_eq_any_not]
        exact any_congr_mem ts (fun t ht => (ih t ht (hm t ht)).1)
      · simp only [invert_and, Mask.gplain, gplainAll_eq, List.all_map, List.all_eq_true]
        exact fun t ht => (ih t ht (hm t ht)).2.1
      · simp only [guarded_and, List.all_eq_true]
        exact fun t ht => (ih t ht (hm t ht)).2.2
  | or ts ih =>
      simp only [Mask.gplain, gplainAll_eq, List.all_eq_true] at hm
      refine ⟨?_, ?_, ?_⟩
      · rw [invert_or, spec_and, spec_or, List.all_map, List.not_any_eq_all_not]
        exact all_congr_mem ts (fun t ht => (ih t ht (hm t ht)).1)
      · simp only [invert_or, Mask.gplain, gplainAll_eq, List.all_map, List.all_eq_true]
        exact fun t ht => (ih t ht (hm t ht)).2.1
      · simp only [guarded_or, List.all_eq_true]
        exact fun t ht => (ih t ht (hm t ht)).2.2
  | gt g φ _ _ =>
      cases g with
      | type l =>
          simp only [Mask.gplain, Bool.and_eq_true] at hm
          obtain ⟨hp, hl⟩ := hm
          refine ⟨?_, ?_, ?_⟩
          · rw [invert_gt, spec_gt_type, spec_gt_type]
            cases hA : Path.at p l with
            | none => simp [hA] at hl
            | some x => simp [invert_call_plain φ hp]
          · simp only [invert_gt, Mask.gplain, hl, Bool.and_true]
            exact plain_invert φ hp
          · simp [Mask.guarded]
      | _ => simp [Mask.gplain] at hm




/-! ### transformers that conjoin a mask of their own at every call (the *MaskFilter classes) -/

def Lvl.rank : Lvl → Nat
  | .score => 0 | .chord => 1 | .melody => 2 | .note => 3

theorem Lvl.rank_inj {a b : Lvl} (h : a.rank = b.rank) : a = b := by
  cases a <;> cases b <;> simp [Lvl.rank] at h <;> rfl

/-- a path goes down: score, then chord, then melody, then note (any of them may be missing) -/
def Path.ordered (p : Path) : Prop := (p.map (fun x => x.1.lvl.rank)).Pairwise (· < ·)

theorem ordered_snoc (p : Path) (e : Elem) (k : Ctx) :
    Path.ordered (p ++ [(e, k)]) ↔ Path.ordered p ∧ ∀ x ∈ p, x.1.lvl.rank < e.lvl.rank := by
  simp only [Path.ordered, List.map_append, List.pairwise_append, List.map_cons, List.map_nil,
    List.pairwise_cons, List.mem_singleton, List.mem_map]
  constructor
  · rintro ⟨h1, _, h3⟩
    exact ⟨h1, fun x hx => h3 _ ⟨x, hx, rfl⟩ _ rfl⟩
  · rintro ⟨h1, h2⟩
    refine ⟨h1, ⟨by simp, List.Pairwise.nil⟩, ?_⟩
    rintro a ⟨x, hx, rfl⟩ b rfl
    exact h2 x hx

theorem at_none_of_ordered (a b : Path) (h : Path.ordered (a ++ b)) (l : Lvl) (x : Elem × Ctx)
    (ha : Path.at a l = some x) : Path.at b l = none := by
  unfold Path.at at ha ⊢
  rw [List.find?_eq_none]
  intro y hy hyl
  have hx := List.mem_of_find?_eq_some ha
  have hxl := List.find?_some ha
  simp only [Path.ordered, List.map_append, List.pairwise_append] at h
  have := h.2.2 (x.1.lvl.rank) (List.mem_map.mpr ⟨x, hx, rfl⟩) (y.1.lvl.rank) (List.mem_map.mpr ⟨y, hy, rfl⟩)
  simp only [beq_iff_eq] at hxl hyl
  rw [hxl, hyl] at this
  exact Nat.lt_irrefl _ this

/-- dropping ancestors can only select more: on a path that goes down, what holds for the path holds
for each of its suffixes -/
theorem spec_suffix (m : Mask) (hm : m.guarded = true) (a b : Path) (ho : Path.ordered (a ++ b))
    (h : m.spec (a ++ b) = true) : m.spec b = true := by
  induction m using Mask.induct with
  | base => simp
  | atom a => simp [Mask.guarded] at hm
  | bool b => simpa using h
  | type l => simp [Mask.guarded] at hm
  | not m _ => simp [Mask.guarded] at hm
  | and ts ih =>
      rw [guarded_and, List.all_eq_true] at hm
      rw [spec_and, List.all_eq_true] at h ⊢
      exact fun t ht => ih t ht (hm t ht) (h t ht)
  | or ts ih =>
      rw [guarded_or, List.all_eq_true] at hm
      rw [spec_or, List.any_eq_true] at h ⊢
      obtain ⟨t, ht, hs⟩ := h
      exact ⟨t, ht, ih t ht (hm t ht) hs⟩
  | gt g φ _ _ =>
      obtain ⟨l, rfl⟩ := guarded_gt hm
      rw [spec_gt_type, at_append] at h
      rw [spec_gt_type]
      cases hA : Path.at a l with
      | none => simpa [hA] using h
      | some x => rw [at_none_of_ordered a b ho l x hA]

/-- the mask `A` the dispatcher holds after the ancestors `P` computes the selection `sel` on every
continuation of the path -/
def Arrives (A : Mask) (sel : Path → Bool) (P : Path) : Prop :=
  ∀ (Q : Path) (e : Elem) (k : Ctx), Path.ordered (P ++ Q ++ [(e, k)]) →
    (A.freeze Q).call e k = sel (P ++ Q ++ [(e, k)])

theorem arrives_plain (on : Mask) (hg : on.guarded = true) (P : Path) : Arrives (on.freeze P) on.spec P := by
  intro Q e k _
  rw [← freeze_append, freeze_call on hg]

/-- what a selection must satisfy for a transformer that conjoins `p` again at every level: whenever a
path is selected, `p` holds on each of its suffixes -/
def SelImplies (sel : Path → Bool) (p : Mask) : Prop :=
  ∀ a b : Path, Path.ordered (a ++ b) → sel (a ++ b) = true → p.spec b = true

/-- the transformer is a plain one, or conjoins a guarded mask that the selection implies -/
def PreOk (T : Transformer) (sel : Path → Bool) : Prop :=
  T.pre = none ∨ ∃ p, T.pre = some p ∧ p.guarded = true ∧ SelImplies sel p

theorem arrives_onOf (T : Transformer) (sel : Path → Bool) (hT : PreOk T sel) (A : Mask) (P : Path)
    (hA : Arrives A sel P) (X : Elem) (K : Ctx) :
    Arrives (T.onOf (A.child X K)) sel (P ++ [(X, K)]) := by
  intro Q e k ho
  have hstep : ((A.child X K).freeze Q).call e k = sel (P ++ [(X, K)] ++ Q ++ [(e, k)]) := by
    have := hA ((X, K) :: Q) e k (by simpa using ho)
    simpa using this
  rcases hT with hn | ⟨p, hp, hg, himp⟩
  · rw [onOf_none T hn]; exact hstep
  · simp only [Transformer.onOf, hp, freeze_and, call_and, List.map_cons, List.map_nil, List.all_cons,
      List.all_nil, Bool.and_true, hstep]
    have hpq : (p.freeze Q).call e k = p.spec (Q ++ [(e, k)]) := freeze_call p hg Q e k
    rw [hpq]
    cases hs : sel (P ++ [(X, K)] ++ Q ++ [(e, k)]) with
    | false => simp
    | true =>
        have := himp (P ++ [(X, K)]) (Q ++ [(e, k)]) (by simpa using ho) (by simpa using hs)
        simp [this]

theorem applyOnMelody_arrives (T : Transformer) (sel : Path → Bool) (A : Mask) (P : Path)
    (hA : Arrives A sel P) (el : TMelody) (K : Ctx) (ho : Path.ordered (P ++ [(.melody el, K)])) :
    applyOnMelody T el A K = specMelody T sel P el K := by
  have : (fun (n : Note) (k : Ctx) => (A.child (.melody el) K).call (.note n) k)
       = (fun n k => sel (P ++ [(.melody el, K), (.note n, k)])) := by
    funext n k
    have hord : Path.ordered (P ++ [(Elem.melody el, K)] ++ [(Elem.note n, k)]) := by
      rw [ordered_snoc]
      refine ⟨ho, ?_⟩
      intro x hx
      rcases List.mem_append.mp hx with hx | hx
      · have := ((ordered_snoc P _ K).mp ho).2 x hx
        simp only [Elem.lvl, Lvl.rank] at this ⊢
        omega
      · simp at hx; subst hx; simp [Elem.lvl, Lvl.rank]
    have := hA [(.melody el, K)] (.note n) k hord
    simpa using this
  simp only [applyOnMelody, specMelody, melodyLoop_eq, this]

theorem ordered_two (P : Path) (X Y : Elem) (K k : Ctx) (ho : Path.ordered (P ++ [(X, K)]))
    (hxy : X.lvl.rank < Y.lvl.rank) : Path.ordered (P ++ [(X, K)] ++ [(Y, k)]) := by
  rw [ordered_snoc]
  refine ⟨ho, ?_⟩
  intro x hx
  rcases List.mem_append.mp hx with hx | hx
  · have := ((ordered_snoc P _ K).mp ho).2 x hx
    omega
  · simp at hx; subst hx; exact hxy

theorem callMelody_arrives (T : Transformer) (sel : Path → Bool) (B : Mask) (P : Path)
    (hB : Arrives (T.onOf B) sel P) (m : TMelody) (K : Ctx) (ho : Path.ordered (P ++ [(.melody m, K)])) :
    callMelody T m B K = specMelodyCall T sel P m K := by
  unfold callMelody specMelodyCall
  cases T.level <;> simp [applyOnMelody_arrives T sel _ P hB m K ho]

theorem applyOnChord_arrives (T : Transformer) (sel : Path → Bool) (hT : PreOk T sel) (A : Mask) (P : Path)
    (hA : Arrives A sel P) (el : TChord) (K : Ctx) (ho : Path.ordered (P ++ [(.chord el, K)])) :
    applyOnChord T el A K = specChord T sel P el K := by
  have h1 : (fun (m : TMelody) (k : Ctx) => (A.child (.chord el) K).call (.melody m) k)
       = (fun m k => sel (P ++ [(.chord el, K)] ++ [(.melody m, k)])) := by
    funext m k
    have := hA [(.chord el, K)] (.melody m) k (ordered_two P _ _ K k ho (by simp [Elem.lvl, Lvl.rank]))
    simpa using this
  have h2 : (fun (m : TMelody) (k : Ctx) => callMelody T m (A.child (.chord el) K) k)
       = (fun m k => specMelodyCall T sel (P ++ [(.chord el, K)]) m k) := by
    funext m k
    exact callMelody_arrives T sel _ _ (arrives_onOf T sel hT A P hA _ K) m k
      (ordered_two P _ _ K k ho (by simp [Elem.lvl, Lvl.rank]))
  simp only [applyOnChord, specChord, partsLoop_eq, h1, h2]

theorem callChord_arrives (T : Transformer) (sel : Path → Bool) (hT : PreOk T sel) (B : Mask) (P : Path)
    (hB : Arrives (T.onOf B) sel P) (c : TChord) (K : Ctx) (ho : Path.ordered (P ++ [(.chord c, K)])) :
    callChord T c B K = specChordCall T sel P c K := by
  unfold callChord specChordCall
  cases T.level <;> simp [applyOnChord_arrives T sel hT _ P hB c K ho]

theorem applyOnScore_arrives (T : Transformer) (sel : Path → Bool) (hT : PreOk T sel) (A : Mask) (P : Path)
    (hA : Arrives A sel P) (el : TScore) (K : Ctx) (ho : Path.ordered (P ++ [(.score el, K)])) :
    applyOnScore T el A K = specScore T sel P el K := by
  have h1 : (fun (c : TChord) (k : Ctx) => (A.child (.score el) K).call (.chord c) k)
       = (fun c k => sel (P ++ [(.score el, K)] ++ [(.chord c, k)])) := by
    funext c k
    have := hA [(.score el, K)] (.chord c) k (ordered_two P _ _ K k ho (by simp [Elem.lvl, Lvl.rank]))
    simpa using this
  have h2 : (fun (c : TChord) (k : Ctx) => callChord T c (A.child (.score el) K) k)
       = (fun c k => specChordCall T sel (P ++ [(.score el, K)]) c k) := by
    funext c k
    exact callChord_arrives T sel hT _ _ (arrives_onOf T sel hT A P hA _ K) c k
      (ordered_two P _ _ K k ho (by simp [Elem.lvl, Lvl.rank]))
  simp only [applyOnScore, specScore, chordsLoop_eq, h1, h2]

/-- the mask a *MaskFilter class works with: `self.on & on` -/
def conj (p on : Mask) : Mask := .and [p, on]

theorem conj_guarded (p on : Mask) (hp : p.guarded = true) (ho : on.guarded = true) : (conj p on).guarded = true := by
  simp [conj, hp, ho]

theorem preOk_conj (T : Transformer) (p on : Mask) (hT : T.pre = some p) (hp : p.guarded = true) :
    PreOk T (conj p on).spec := by
  refine Or.inr ⟨p, hT, hp, ?_⟩
  intro a b ho h
  simp only [conj, spec_and, List.all_cons, List.all_nil, Bool.and_true, Bool.and_eq_true] at h
  exact spec_suffix p hp a b ho h.1

theorem ordered_single (e : Elem) (k : Ctx) : Path.ordered ([] ++ [(e, k)]) := by
  simp [Path.ordered]


end MV.Transform
