/-
C14 importer lemmas 9/15 — the two voice loops of a bar as folds over groups with pairwise distinct names (`fold_groups`, `fold_held`).
-/
import MV.Lemmas.ImportDict
namespace MV

abbrev Group := String × Bool × List Item

/-- the tie dictionary after a voice was handled: its entry is replaced by the returned tie, or removed -/
def contsAfter (conts : List (String × Note)) (name : String) (ret : Option Note) : List (String × Note) :=
  match ret with
  | some r => dictSet (conts.filter (fun p => !(p.1 == name))) name r
  | none => conts.filter (fun p => !(p.1 == name))

theorem contsAfter_self (conts : List (String × Note)) (name : String) (ret : Option Note) :
    (contsAfter conts name ret).lookup name = ret := by
  cases ret with
  | some r => exact lookup_dictSet_self _ _ _
  | none => exact lookup_pop_self _ _

theorem contsAfter_ne (conts : List (String × Note)) (name v : String) (ret : Option Note) (h : v ≠ name) :
    (contsAfter conts name ret).lookup v = conts.lookup v := by
  cases ret with
  | some r => simp only [contsAfter]; rw [lookup_dictSet_ne _ _ _ _ h, lookup_pop_ne _ _ _ h]
  | none => exact lookup_pop_ne _ _ _ h

theorem contsAfter_nodup (conts : List (String × Note)) (name : String) (ret : Option Note) (h : (keys conts).Nodup) :
    (keys (contsAfter conts name ret)).Nodup := by
  cases ret with
  | some r => exact keys_dictSet_nodup _ _ _ (keys_pop_nodup _ _ h)
  | none => exact keys_pop_nodup _ _ h

theorem groupStep_eq (c : Chord) (ts te : Rat) (cd : List (String × Melody)) (conts : List (String × Note))
    (g : Group) (mel : Melody) (ret : Option Note)
    (h : parseVoice g.2.2 c ts te 1 (conts.lookup g.1) g.2.1 = .ok (mel, ret)) :
    groupStep c ts te (cd, conts) g = .ok (dictSet cd g.1 mel, contsAfter conts g.1 ret) := by
  unfold groupStep dictPop
  simp only [h, bind, Except.bind, pure, Except.pure]
  cases ret <;> rfl

theorem fold_groups (c : Chord) (ts te : Rat) (R : Group → Melody × Option Note) :
    ∀ (groups : List Group) (cd : List (String × Melody)) (conts : List (String × Note)),
      (groups.map (·.1)).Nodup → (keys conts).Nodup →
      (∀ g ∈ groups, parseVoice g.2.2 c ts te 1 (conts.lookup g.1) g.2.1 = .ok (R g)) →
      ∃ cd' conts', groups.foldlM (groupStep c ts te) (cd, conts) = .ok (cd', conts') ∧ (keys conts').Nodup ∧
        ((keys cd).Nodup → (keys cd').Nodup) ∧
        ∀ v, (cd'.lookup v = match groups.find? (fun g => g.1 == v) with
                | some g => some (R g).1
                | none => cd.lookup v) ∧
             (conts'.lookup v = match groups.find? (fun g => g.1 == v) with
                | some g => (R g).2
                | none => conts.lookup v) := by
  intro groups
  induction groups with
  | nil => intro cd conts _ hk _; exact ⟨cd, conts, rfl, hk, id, fun v => ⟨rfl, rfl⟩⟩
  | cons g rest ih =>
      intro cd conts hnd hk hall
      have hg := hall g (List.mem_cons_self ..)
      simp only [List.map_cons, List.nodup_cons] at hnd
      obtain ⟨hgn, hnd'⟩ := hnd
      have hne : ∀ g' ∈ rest, g'.1 ≠ g.1 := by
        intro g' hg' e; apply hgn; rw [← e]; exact List.mem_map_of_mem hg'
      have hall' : ∀ g' ∈ rest, parseVoice g'.2.2 c ts te 1 ((contsAfter conts g.1 (R g).2).lookup g'.1) g'.2.1 = .ok (R g') := by
        intro g' hg'
        rw [contsAfter_ne _ _ _ _ (hne g' hg')]
        exact hall g' (List.mem_cons_of_mem _ hg')
      obtain ⟨cd', conts', hf, hk', hcdn, hl⟩ := ih (dictSet cd g.1 (R g).1) (contsAfter conts g.1 (R g).2) hnd'
        (contsAfter_nodup _ _ _ hk) hall'
      refine ⟨cd', conts', ?_, hk', fun h => hcdn (keys_dictSet_nodup _ _ _ h), ?_⟩
      · rw [List.foldlM_cons, groupStep_eq c ts te cd conts g (R g).1 (R g).2 hg]
        exact hf
      · intro v
        obtain ⟨h1, h2⟩ := hl v
        by_cases hv : g.1 = v
        · have hfind : rest.find? (fun g' => g'.1 == v) = none := by
            rw [List.find?_eq_none]; intro g' hg'; simpa [← hv] using hne g' hg'
          have hb : (g.1 == v) = true := by simpa using hv
          simp only [List.find?_cons, hb]
          rw [hfind] at h1 h2
          simp only [] at h1 h2
          subst hv
          rw [h1, h2, lookup_dictSet_self, contsAfter_self]
          exact ⟨rfl, rfl⟩
        · have hb : (g.1 == v) = false := by simpa using hv
          simp only [List.find?_cons, hb]
          rw [h1, h2, lookup_dictSet_ne _ _ _ _ (fun e => hv e.symm), contsAfter_ne _ _ _ _ (fun e => hv e.symm)]
          exact ⟨rfl, rfl⟩

end MV

namespace MV

theorem groupStep_cases (c : Chord) (ts te : Rat) (cd : List (String × Melody)) (conts : List (String × Note)) (g : Group) :
    groupStep c ts te (cd, conts) g =
      match parseVoice g.2.2 c ts te 1 (conts.lookup g.1) g.2.1 with
      | .error e => .error e
      | .ok (mel, ret) => .ok (dictSet cd g.1 mel, contsAfter conts g.1 ret) := by
  cases h : parseVoice g.2.2 c ts te 1 (conts.lookup g.1) g.2.1 with
  | error e => unfold groupStep dictPop; simp only [h, bind, Except.bind]
  | ok p => obtain ⟨mel, ret⟩ := p; exact groupStep_eq c ts te cd conts g mel ret h

theorem heldStep_eq_groupStep (c : Chord) (ts te : Rat) (cd : List (String × Melody)) (conts : List (String × Note))
    (name : String) (ct : Note) (h : conts.lookup name = some ct) :
    heldStep c ts te (cd, conts) name = groupStep c ts te (cd, conts) (name, false, []) := by
  unfold heldStep groupStep dictPop
  simp only [h]

theorem fold_held (c : Chord) (ts te : Rat) : ∀ (names : List String) (cd : List (String × Melody)) (conts : List (String × Note)),
    names.Nodup → (∀ v ∈ names, (conts.lookup v).isSome = true) →
    names.foldlM (heldStep c ts te) (cd, conts)
      = (names.map (fun v => ((v, false, []) : Group))).foldlM (groupStep c ts te) (cd, conts) := by
  intro names
  induction names with
  | nil => intro cd conts _ _; rfl
  | cons v rest ih =>
      intro cd conts hnd hall
      simp only [List.nodup_cons] at hnd
      obtain ⟨ct, hct⟩ := Option.isSome_iff_exists.mp (hall v (List.mem_cons_self ..))
      simp only [List.map_cons, List.foldlM_cons]
      rw [heldStep_eq_groupStep c ts te cd conts v ct hct, groupStep_cases]
      cases parseVoice ([] : List Item) c ts te 1 (conts.lookup v) false with
      | error e => rfl
      | ok p =>
          obtain ⟨mel, ret⟩ := p
          simp only [bind, Except.bind]
          apply ih _ _ hnd.2
          intro v' hv'
          have : v' ≠ v := fun e => hnd.1 (e ▸ hv')
          rw [contsAfter_ne _ _ _ _ this]
          exact hall v' (List.mem_cons_of_mem _ hv')

end MV
