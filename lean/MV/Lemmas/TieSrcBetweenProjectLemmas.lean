/-
Helper lemmas for the source tie of group `SrcBetweenProject` (`MV/Props/TieSrcBetweenProject.lean`, DESIGN.md §9.6): the
source images of `time_utils.py` generated with the bindings of the projection model (copies are the identity, no rounding)
against `MV/Model/Project.lean`.
 * `get_melody_between`: the fold with a "break executed" flag against `gmbLoop` (as `MV/Props/TieSlice.lean`);
 * `get_chord_between`: the dict prepared with `None` values filled key by key (`PyB.dict_fill`);
 * `get_score_between`: the fold over (`time`, `new_score`) against `gsbLoop`;
 * `put_on_same_chord`: two nested loops `parts[name] += …` over a dict of `None` (`PyB.dict_accumulate`, `accV`) against
   `gather`; the part names of a score are pairwise distinct (`nodup_eraseDups`);
 * `project_on_score`: the fold over (`new_score`, `start_time`) with `break` on an empty window against `projLoop`; the
   slices keep unique part names (`getScoreBetween_nodup`); the unused list `instruments1` does not raise on canonical
   names (`instruments1_ok`).
-/
import MV.Gen.SrcBetweenProject
import MV.Lemmas.PyBetweenLemmas
import MV.Lemmas.TieDurLemmas
import MV.Lemmas.ProjectModes

set_option linter.unusedSimpArgs false

namespace MV.TieP
open MV.Proj

/-! ### `get_melody_between` -/

/-- one iteration of the loop of `get_melody_between` in the shape of `Proj.gmbLoop`; the state is
(`break` executed, `time`, `to_break`, `new_voice`) -/
def gmbStep (start stop : Rat) (st : Bool × Rat × Bool × List Note) (note : Note) : Res (Bool × Rat × Bool × List Note) :=
  if st.1 then pure st
  else
    let time := st.2.1
    let acc := st.2.2.2
    if time ≥ stop then pure (true, time, st.2.2.1, acc)
    else if time < start ∧ time + note.dur ≤ start then pure (false, time + note.dur, st.2.2.1, acc)
    else
      let toBreak : Bool := time + note.dur ≥ stop
      let d1 := if toBreak then stop - time else note.dur
      let cut : Bool := time < start
      let d2 := if cut then d1 - (start - time) else d1
      let time1 := if cut then start else time
      let out := if cut then continuation d2 else { note with dur := d2 }
      if d2 < 0 then .error .other
      else pure (toBreak || st.2.2.1, time1 + d2, toBreak || st.2.2.1, acc ++ [out])

theorem add_sub_self (t s : Rat) : t + (s - t) = s := by grind

theorem gmb_fold_eq (voice : Melody) (start stop : Rat) :
    Src.get_melody_between voice start stop
      = (do let st ← voice.foldlM (gmbStep start stop) (false, 0, false, []); pure st.2.2.2) := by
  unfold Src.get_melody_between
  simp only []
  congr 1
  congr 1
  funext st note
  obtain ⟨b, time, tb, acc⟩ := st
  unfold gmbStep
  cases b
  · by_cases h1 : time ≥ stop <;> by_cases h2 : time < start <;> by_cases h3 : time + note.dur ≤ start <;>
      by_cases h4 : time + note.dur ≥ stop <;> cases tb <;>
      simp [h1, h2, h3, h4, add_sub_self] <;> (try rfl) <;>
      (split <;> split <;> first | rfl | (exfalso; simp_all))
  · simp


theorem gmb_after_break (start stop : Rat) (ns : List Note) :
    ∀ (t : Rat) (tb : Bool) (acc : List Note),
      ns.foldlM (gmbStep start stop) (true, t, tb, acc) = (pure (true, t, tb, acc) : Res _) := by
  induction ns with
  | nil => intro t tb acc; rfl
  | cons n ns ih =>
    intro t tb acc
    rw [List.foldlM_cons]
    have : gmbStep start stop (true, t, tb, acc) n = pure (true, t, tb, acc) := by simp [gmbStep]
    rw [this]
    exact ih t tb acc

theorem gmb_fold (start stop : Rat) (ns : List Note) :
    ∀ (time : Rat) (acc : List Note),
      (ns.foldlM (gmbStep start stop) (false, time, false, acc)).map (fun st => st.2.2.2)
        = (gmbLoop ns time start stop).map (fun r => acc ++ r) := by
  induction ns with
  | nil => intro time acc; simp [gmbLoop, Except.map, pure, Except.pure]
  | cons n ns ih =>
    intro time acc
    rw [List.foldlM_cons]
    unfold gmbLoop
    by_cases h1 : time ≥ stop
    · have : gmbStep start stop (false, time, false, acc) n = pure (true, time, false, acc) := by simp [gmbStep, h1]
      rw [this]
      show (List.foldlM (gmbStep start stop) (true, time, false, acc) ns).map _ = _
      rw [gmb_after_break]
      simp [h1, Except.map, pure, Except.pure]
    · by_cases h2 : time < start ∧ time + n.dur ≤ start
      · have : gmbStep start stop (false, time, false, acc) n = pure (false, time + n.dur, false, acc) := by
          simp [gmbStep, h1, h2]
        rw [this]
        show (List.foldlM (gmbStep start stop) (false, time + n.dur, false, acc) ns).map _ = _
        rw [ih]
        simp [h1, h2]
      · have h2' : time < start → ¬ time + n.dur ≤ start := fun a b => h2 ⟨a, b⟩
        by_cases h4 : time + n.dur ≥ stop <;> by_cases h5 : time < start
        · have h2'' := h2' h5
          by_cases h3 : stop - time - (start - time) < 0
          · have : gmbStep start stop (false, time, false, acc) n = .error .other := by
              simp [gmbStep, *]
            rw [this]; simp [*, Except.map, bind, Except.bind]
          · have : gmbStep start stop (false, time, false, acc) n
                = pure (true, start + (stop - time - (start - time)), true,
                        acc ++ [continuation (stop - time - (start - time))]) := by
              simp [gmbStep, *]
            rw [this]
            show (List.foldlM (gmbStep start stop) (true, _, true, _) ns).map _ = _
            rw [gmb_after_break]
            simp [*, Except.map, pure, Except.pure]
        · by_cases h3 : stop - time < 0
          · have : gmbStep start stop (false, time, false, acc) n = .error .other := by
              simp [gmbStep, *]
            rw [this]; simp [*, Except.map, bind, Except.bind]
          · have : gmbStep start stop (false, time, false, acc) n
                = pure (true, time + (stop - time), true, acc ++ [{ n with dur := stop - time }]) := by
              simp [gmbStep, *]
            rw [this]
            show (List.foldlM (gmbStep start stop) (true, _, true, _) ns).map _ = _
            rw [gmb_after_break]
            simp [*, Except.map, pure, Except.pure]
        · have h2'' := h2' h5
          by_cases h3 : n.dur - (start - time) < 0
          · have : gmbStep start stop (false, time, false, acc) n = .error .other := by
              simp [gmbStep, *]
            rw [this]; simp [*, Except.map, bind, Except.bind]
          · have : gmbStep start stop (false, time, false, acc) n
                = pure (false, start + (n.dur - (start - time)), false,
                        acc ++ [continuation (n.dur - (start - time))]) := by
              simp [gmbStep, *]
            rw [this]
            show (List.foldlM (gmbStep start stop) (false, _, false, _) ns).map _ = _
            rw [ih]
            simp [*]
            cases gmbLoop ns (start + (n.dur - (start - time))) start stop <;>
              simp [Except.map, bind, Except.bind, pure, Except.pure, Functor.map]
        · by_cases h3 : n.dur < 0
          · have : gmbStep start stop (false, time, false, acc) n = .error .other := by
              simp [gmbStep, *]
            rw [this]; simp [*, Except.map, bind, Except.bind]
          · have : gmbStep start stop (false, time, false, acc) n
                = pure (false, time + n.dur, false, acc ++ [{ n with dur := n.dur }]) := by
              simp [gmbStep, *]
            rw [this]
            show (List.foldlM (gmbStep start stop) (false, _, false, _) ns).map _ = _
            rw [ih]
            simp [*]
            cases gmbLoop ns (time + n.dur) start stop <;>
              simp [Except.map, bind, Except.bind, pure, Except.pure, Functor.map]

theorem get_melody_between_eq (voice : Melody) (start stop : Rat) :
    Src.get_melody_between voice start stop = getMelodyBetween voice start stop := by
  rw [gmb_fold_eq]
  have key := gmb_fold start stop voice 0 []
  simp only [List.nil_append] at key
  unfold getMelodyBetween
  have e2 : (gmbLoop voice 0 start stop).map (fun r => r) = gmbLoop voice 0 start stop := by
    cases gmbLoop voice 0 start stop <;> rfl
  rw [← e2, ← key]
  cases List.foldlM (gmbStep start stop) (false, 0, false, []) voice <;> rfl


/-! ### durations (as `MV/Props/TieDur.lean`, which lives on the slicing model) -/

theorem chordDuration_eq (c : Chord) (h : (c.parts.map (·.1)).Nodup) : Src.Chord_duration c = .ok c.dur := by
  unfold Src.Chord_duration Chord.dur
  cases hp : c.parts with
  | nil => rfl
  | cons p ps =>
    have hne : ¬ (Py.len (List.map (fun p => p.fst) (p :: ps)) = 0) := by simp [Py.len]; omega
    simp only [decide_eq_true_eq, hne, if_false]
    have := MV.Tie.mapM_lookup (p :: ps) Src.Melody_duration (by rw [← hp]; exact h) (p :: ps) (fun q hq => hq)
    rw [this]
    simp only [List.map_cons, Py.maxRat, MV.Tie.foldl_max]
    rfl

/-! ### `get_chord_between` -/

theorem callOpt_some (c : Chord) (rs : List (String × Melody)) :
    Src.callOpt c (rs.map (fun r => (r.1, some r.2))) = .ok { c with parts := rs } := by
  unfold Src.callOpt
  have : ∀ (F : String × Option Melody → Res (String × Melody)), (∀ k m, F (k, some m) = .ok (k, m)) →
      (rs.map (fun r => (r.1, some r.2))).mapM F = .ok rs := by
    intro F hF
    induction rs with
    | nil => rfl
    | cons r rs ih => rw [List.map_cons, List.mapM_cons, hF, ih]; rfl
  rw [this _ (fun k m => rfl)]; rfl

theorem get_chord_between_eq (c : Chord) (start stop : Rat) (h : (c.parts.map (·.1)).Nodup) :
    Src.get_chord_between c start stop = getChordBetween c start stop := by
  unfold Src.get_chord_between
  simp only []
  rw [List.foldlM_map]
  have hinit := PyB.dict_init (c.parts.map (·.1)) [] (by simpa using h)
  simp only [List.nil_append, List.map_map] at hinit
  rw [hinit]
  let f : String × Melody → Res (String × Melody) := fun p => do
    let m ← getMelodyBetween p.2 start stop
    pure (p.1, m)
  have hf : ∀ p r, f p = .ok r → r.1 = p.1 := by
    intro p r hr
    simp only [f] at hr
    cases hm : getMelodyBetween p.2 start stop with
    | error e => rw [hm] at hr; cases hr
    | ok v => rw [hm] at hr; cases hr; rfl
  rw [PyB.foldlM_congr_mem c.parts _ (fun d p => do let r ← f p; pure (PyB.dictSet d p.1 (some r.2)))]
  · have hfill := PyB.dict_fill f hf c.parts [] (by simpa using h)
    simp only [List.map_nil, List.nil_append] at hfill
    have e0 : List.map ((fun k => (k, (none : Option Melody))) ∘ fun (x : String × Melody) => x.fst) c.parts
        = c.parts.map (fun p => (p.1, none)) := rfl
    rw [e0, hfill]
    unfold getChordBetween
    show (do let st ← (do let rs ← c.parts.mapM f; pure _); _) = (do let parts ← c.parts.mapM f; _)
    cases c.parts.mapM f with
    | error e => rfl
    | ok rs =>
      cases rs with
      | nil => rfl
      | cons r rs =>
        have hne : ¬ (Py.len (List.map (fun p => p.fst) (List.map (fun r => (r.fst, some r.snd)) (r :: rs))) = 0) := by
          simp [Py.len]; omega
        simp only [bind, Except.bind, pure, Except.pure, decide_eq_true_eq, hne, if_false, List.isEmpty_cons]
        rw [callOpt_some]; rfl
  · intro d p hp
    rw [MV.Tie.lookup_of_mem c.parts h p hp]
    show (do let t_3 ← Src.get_melody_between p.2 start stop; _) = _
    rw [get_melody_between_eq]
    simp only [f]
    cases getMelodyBetween p.2 start stop <;> rfl


/-! ### `get_score_between` -/

/-- one iteration of the loop of `get_score_between`; the state is (`break` executed, `time`, `new_score`) -/
def gsbStep (s : Score) (a b : Rat) (st : Bool × Rat × Option Score) (c : Chord) : Res (Bool × Rat × Option Score) :=
  if st.1 then pure st
  else do
    let d ← Src.Chord_duration c
    if st.2.1 + d ≤ a then pure (false, st.2.1 + d, st.2.2)
    else if st.2.1 ≥ b then pure (true, st.2.1, st.2.2)
    else if st.2.1 + d < b ∧ st.2.1 ≥ a then pure (false, st.2.1 + d, some (Src.scoreAddChord st.2.2 c))
    else do
      let nc ← Src.Score_get_chord_between s c (a - st.2.1) (b - st.2.1)
      pure (false, st.2.1 + d, some (Src.scoreAddChord st.2.2 nc))

theorem gsb_fold_eq (s : Score) (a b : Rat) :
    Src.get_score_between s a b
      = (do let st ← s.foldlM (gsbStep s a b) (false, 0, none); pure st.2.2) := by
  unfold Src.get_score_between
  simp only [pure_bind]
  congr 1
  congr 1
  · funext st c
    obtain ⟨brk, time, acc⟩ := st
    unfold gsbStep
    cases brk
    · cases Src.Chord_duration c with
      | error e => rfl
      | ok d =>
        by_cases h1 : time + d ≤ a <;> by_cases h2 : time ≥ b <;> by_cases h3 : time + d < b <;> by_cases h4 : time ≥ a <;>
          simp [h1, h2, h3, h4, bind, Except.bind, pure, Except.pure]
    · simp

theorem Score_get_chord_between_eq (s : Score) (c : Chord) (a b : Rat) :
    Src.Score_get_chord_between s c a b = Src.get_chord_between c a b := by
  unfold Src.Score_get_chord_between
  cases Src.get_chord_between c a b <;> rfl

/-- `None` for an empty collection, as `new_score` after the loop -/
def optOf (l : List Chord) : Option Score := if l.isEmpty then none else some l

theorem add_optOf (acc : List Chord) (x : Chord) : some (Src.scoreAddChord (optOf acc) x) = optOf (acc ++ [x]) := by
  cases acc <;> simp [optOf, Src.scoreAddChord]

theorem gsb_after_break (s : Score) (a b : Rat) (cs : List Chord) :
    ∀ (t : Rat) (acc : Option Score),
      cs.foldlM (gsbStep s a b) (true, t, acc) = (pure (true, t, acc) : Res _) := by
  induction cs with
  | nil => intro t acc; rfl
  | cons c cs ih =>
    intro t acc
    rw [List.foldlM_cons]
    have : gsbStep s a b (true, t, acc) c = pure (true, t, acc) := by simp [gsbStep]
    rw [this]
    exact ih t acc

theorem gsb_fold (s : Score) (a b : Rat) (cs : List Chord) (h : ∀ c ∈ cs, (c.parts.map (·.1)).Nodup) :
    ∀ (time : Rat) (acc : List Chord),
      (cs.foldlM (gsbStep s a b) (false, time, optOf acc)).map (fun st => st.2.2)
        = (gsbLoop cs time a b).map (fun r => optOf (acc ++ r)) := by
  induction cs with
  | nil => intro time acc; simp [gsbLoop, Except.map, pure, Except.pure]
  | cons c cs ih =>
    intro time acc
    have hc := h c (List.mem_cons_self ..)
    have hd : Src.Chord_duration c = .ok c.dur := chordDuration_eq c hc
    have ih' := ih (fun x hx => h x (List.mem_cons_of_mem _ hx))
    rw [List.foldlM_cons]
    unfold gsbLoop
    by_cases h1 : time + c.dur ≤ a
    · have : gsbStep s a b (false, time, optOf acc) c = pure (false, time + c.dur, optOf acc) := by
        simp [gsbStep, hd, h1, bind, Except.bind]
      rw [this, pure_bind, ih']
      simp [h1]
    · by_cases h2 : time ≥ b
      · have : gsbStep s a b (false, time, optOf acc) c = pure (true, time, optOf acc) := by
          simp [gsbStep, hd, h1, h2, bind, Except.bind]
        rw [this, pure_bind, gsb_after_break]
        simp [h1, h2, Except.map, pure, Except.pure]
      · by_cases h3 : time + c.dur < b ∧ time ≥ a
        · have : gsbStep s a b (false, time, optOf acc) c = pure (false, time + c.dur, optOf (acc ++ [c])) := by
            simp [gsbStep, hd, h1, h2, h3, bind, Except.bind]
            rw [add_optOf]
          rw [this, pure_bind, ih']
          simp [h1, h2, h3]
          cases gsbLoop cs (time + c.dur) a b <;>
            simp [Except.map, bind, Except.bind, pure, Except.pure, Functor.map]
        · rw [show gsbStep s a b (false, time, optOf acc) c
                = (do let nc ← getChordBetween c (a - time) (b - time)
                      pure (false, time + c.dur, some (Src.scoreAddChord (optOf acc) nc))) by
              simp [gsbStep, hd, h1, h2, h3, bind, Except.bind, Score_get_chord_between_eq,
                get_chord_between_eq c _ _ hc]]
          simp only [h1, h2, h3, if_false]
          cases hnc : getChordBetween c (a - time) (b - time) with
          | error e => rfl
          | ok nc =>
            show (do let st ← (pure (false, time + c.dur, some (Src.scoreAddChord (optOf acc) nc)) : Res _)
                     List.foldlM (gsbStep s a b) st cs).map _ = _
            rw [pure_bind, add_optOf, ih']
            cases gsbLoop cs (time + c.dur) a b <;>
              simp [Except.map, bind, Except.bind, pure, Except.pure, Functor.map]

theorem get_score_between_eq (s : Score) (a b : Rat) (h : ∀ c ∈ s, (c.parts.map (·.1)).Nodup) :
    Src.get_score_between s a b = getScoreBetween s a b := by
  rw [gsb_fold_eq]
  have key := gsb_fold s a b s h 0 []
  simp only [List.nil_append] at key
  unfold getScoreBetween
  have e0 : optOf [] = none := rfl
  rw [e0] at key
  cases hf : List.foldlM (gsbStep s a b) (false, 0, none) s with
  | error e =>
    rw [hf] at key
    cases hl : gsbLoop s 0 a b with
    | error e' => rw [hl] at key; simp [Except.map] at key; subst key; rfl
    | ok r => rw [hl] at key; simp [Except.map] at key
  | ok st =>
    rw [hf] at key
    cases hl : gsbLoop s 0 a b with
    | error e' => rw [hl] at key; simp [Except.map] at key
    | ok r =>
      rw [hl] at key; simp [Except.map] at key
      simp [bind, Except.bind, pure, Except.pure, key, optOf]

theorem Score_get_score_between_eq (s : Score) (a b : Rat) :
    Src.Score_get_score_between s a b = Src.get_score_between s a b := by
  unfold Src.Score_get_score_between
  cases Src.get_score_between s a b <;> rfl

/-! ### `put_on_same_chord` -/

/-- what one chord contributes to the part `k`: the part's melody, or a rest as long as the chord -/
def getP (c : Chord) (k : String) : Melody := Src.partsGet c.parts k (silence c.dur)

theorem gather_cons (c : Chord) (cs : List Chord) (k : String) : gather (c :: cs) k = getP c k ++ gather cs k := by
  unfold gather getP Src.partsGet
  rw [List.flatMap_cons]
  cases hl : List.lookup k c.parts <;> simp [hl]

/-- the values of the dict after the chords `cs`, starting from the values `V` -/
def accV : List Chord → (String → Option Melody) → String → Option Melody
  | [], V => V
  | c :: cs, V => accV cs (fun k => some (Src.melodyAddOpt (V k) (getP c k)))

theorem accV_eq (cs : List Chord) : ∀ (V : String → Option Melody) (k : String),
    accV cs V k = match V k with
      | none => if cs.isEmpty then none else some (gather cs k)
      | some m => some (m ++ gather cs k) := by
  induction cs with
  | nil => intro V k; cases h : V k <;> simp [accV, h, gather]
  | cons c cs ih =>
    intro V k
    unfold accV
    rw [ih]
    cases h : V k <;> simp [Src.melodyAddOpt, gather_cons, h]

/-- the body of the outer loop of `put_on_same_chord` once the chord's duration is known -/
def poscStep (I : List String) (d : List (String × Option Melody)) (c : Chord) : Res (List (String × Option Melody)) :=
  I.foldlM (fun (d : List (String × Option Melody)) k => do
    let v ← lookupKey k d
    (pure (PyB.dictSet d k (some (Src.melodyAddOpt v (Src.partsGet c.parts k (silence c.dur))))) : Res _)) d

theorem posc_fold (I : List String) (hI : I.Nodup) (cs : List Chord) :
    ∀ (V : String → Option Melody),
      cs.foldlM (poscStep I) (I.map (fun k => (k, V k))) = (pure (I.map (fun k => (k, accV cs V k))) : Res _) := by
  induction cs with
  | nil => intro V; rfl
  | cons c cs ih =>
    intro V
    rw [List.foldlM_cons]
    have := PyB.dict_accumulate (fun k v => some (Src.melodyAddOpt v (Src.partsGet c.parts k (silence c.dur)))) I [] V
      (by simpa using hI)
    simp only [List.map_nil, List.nil_append] at this
    unfold poscStep at ih ⊢
    rw [this, pure_bind, ih]
    rfl

theorem put_on_same_chord_eq (s : Score) (h : ∀ c ∈ s, (c.parts.map (·.1)).Nodup) :
    Src.put_on_same_chord s = putOnSameChord s := by
  unfold Src.put_on_same_chord putOnSameChord
  cases s with
  | nil => rfl
  | cons c0 cs =>
    have hI : (instruments (c0 :: cs)).Nodup := by unfold instruments; exact nodup_eraseDups _
    have h0 : pyIndex (c0 :: cs) (0 : Int) = .ok c0 := by simp [pyIndex]
    rw [h0]
    simp only [pure_bind]
    have hinit := PyB.dict_init (instruments (c0 :: cs)) [] (by simpa using hI)
    simp only [List.nil_append] at hinit
    rw [hinit]
    rw [PyB.foldlM_congr_mem (c0 :: cs) _ (poscStep (instruments (c0 :: cs)))]
    · rw [posc_fold _ hI]
      have hv : (instruments (c0 :: cs)).map (fun k => (k, accV (c0 :: cs) (fun _ => none) k))
          = ((instruments (c0 :: cs)).map (fun k => (k, gather (c0 :: cs) k))).map (fun r => (r.1, some r.2)) := by
        rw [List.map_map]
        apply List.map_congr_left
        intro k _
        simp [accV_eq]
      show (do let st ← (pure _ : Res _); let t ← Src.callOpt c0 st; pure t) = _
      rw [pure_bind, hv, callOpt_some]
    · intro d c hc
      rw [chordDuration_eq c (h c hc), show (Except.ok c.dur : Res Rat) = pure c.dur from rfl, pure_bind, bind_pure]
      rfl

/-! ### `project_on_score` -/

theorem dictUpdate_eq (a b : List (String × Melody)) : PyB.dictUpdate a b = Proj.dictUpdate a b := rfl

theorem Score_put_on_same_chord_eq (s : Score) : Src.Score_put_on_same_chord s = Src.put_on_same_chord s := by
  unfold Src.Score_put_on_same_chord
  cases Src.put_on_same_chord s <;> rfl

/-- the slices keep the part names: those of the chord, or the single `piano__0` of a chord without parts -/
theorem getChordBetween_nodup (c : Chord) (a b : Rat) (r : Chord) (h : (c.parts.map (·.1)).Nodup)
    (hr : getChordBetween c a b = .ok r) : (r.parts.map (·.1)).Nodup := by
  unfold getChordBetween at hr
  cases hm : c.parts.mapM (fun p => do let m ← getMelodyBetween p.2 a b; pure (p.1, m)) with
  | error e => rw [hm] at hr; cases hr
  | ok ps =>
    rw [hm] at hr
    simp only [bind, Except.bind, pure, Except.pure] at hr
    have hkeys : ps.map (·.1) = c.parts.map (·.1) := by
      clear hr h
      generalize c.parts = l at hm
      induction l generalizing ps with
      | nil => rw [List.mapM_nil] at hm; cases hm; rfl
      | cons p l ih =>
        rw [List.mapM_cons] at hm
        cases hp : getMelodyBetween p.2 a b with
        | error e => rw [hp] at hm; cases hm
        | ok m =>
          rw [hp] at hm
          cases hl : l.mapM (fun p => do let m ← getMelodyBetween p.2 a b; pure (p.1, m)) with
          | error e => rw [hl] at hm; cases hm
          | ok qs =>
            rw [hl] at hm
            cases hm
            simp [ih qs hl]
    split at hr
    · cases hr; simp
    · cases hr; rw [hkeys]; exact h

theorem gsbLoop_nodup (cs : List Chord) (h : ∀ c ∈ cs, (c.parts.map (·.1)).Nodup) :
    ∀ (time a b : Rat) (r : List Chord), gsbLoop cs time a b = .ok r → ∀ c ∈ r, (c.parts.map (·.1)).Nodup := by
  induction cs with
  | nil => intro time a b r hr c hc; unfold gsbLoop at hr; cases hr; cases hc
  | cons x xs ih =>
    intro time a b r hr c hc
    have ih' := ih (fun y hy => h y (List.mem_cons_of_mem _ hy))
    unfold gsbLoop at hr
    simp only at hr
    split at hr
    · exact ih' _ _ _ _ hr c hc
    · split at hr
      · cases hr; cases hc
      · split at hr
        · cases hrest : gsbLoop xs (time + x.dur) a b with
          | error e => rw [hrest] at hr; cases hr
          | ok rest =>
            rw [hrest] at hr; cases hr
            rcases List.mem_cons.mp hc with rfl | hc'
            · exact h _ (List.mem_cons_self ..)
            · exact ih' _ _ _ _ hrest c hc'
        · cases hnc : getChordBetween x (a - time) (b - time) with
          | error e => rw [hnc] at hr; cases hr
          | ok nc =>
            rw [hnc] at hr
            cases hrest : gsbLoop xs (time + x.dur) a b with
            | error e => rw [hrest] at hr; cases hr
            | ok rest =>
              rw [hrest] at hr; cases hr
              rcases List.mem_cons.mp hc with rfl | hc'
              · exact getChordBetween_nodup x _ _ _ (h _ (List.mem_cons_self ..)) hnc
              · exact ih' _ _ _ _ hrest c hc'

theorem getScoreBetween_nodup (s : Score) (a b : Rat) (sub : Score) (h : ∀ c ∈ s, (c.parts.map (·.1)).Nodup)
    (hr : getScoreBetween s a b = .ok (some sub)) : ∀ c ∈ sub, (c.parts.map (·.1)).Nodup := by
  unfold getScoreBetween at hr
  cases hl : gsbLoop s 0 a b with
  | error e => rw [hl] at hr; cases hr
  | ok l =>
    rw [hl] at hr
    simp only [bind, Except.bind, pure, Except.pure] at hr
    split at hr
    · cases hr
    · cases hr; exact gsbLoop_nodup s h _ _ _ _ hl


theorem pyIndex_ok {α : Type} (l : List α) (i : Nat) (x : α) (h : l[i]? = some x) : pyIndex l (i : Int) = .ok x := by
  have hlt : i < l.length := by
    rcases Nat.lt_or_ge i l.length with hlt | hge
    · exact hlt
    · rw [List.getElem?_eq_none hge] at h; cases h
  unfold pyIndex
  have h1 : ¬ ((i : Int) < 0) := by omega
  have h2 : ¬ ((i : Int) < 0 ∨ (i : Int) ≥ (l.length : Int)) := by omega
  have h3 : ¬ ((i : Int) ≥ (l.length : Int)) := by omega
  simp [h1, h3, h]

/-- the part names of the source are the canonical `name__k`: the (unused) list `instruments1` that `project_on_score`
builds first does not raise -/
def nameOK (ins : String) : Bool :=
  match (Src.pySplit ins "__")[1]? with
  | some t => (Src.pyIntOfStr t).toBool
  | none => false

theorem instruments1_ok (l : List String) (h : ∀ ins ∈ l, nameOK ins = true) :
    ∃ v, l.mapM (fun (ins : String) => do
        let t_1 ← pyIndex (Src.pySplit ins "__") (0 : Int)
        let t_2 ← pyIndex (Src.pySplit ins "__") (1 : Int)
        let t_3 ← Src.pyIntOfStr t_2
        (pure (t_1, t_3) : Res (String × Int))) = .ok v := by
  induction l with
  | nil => exact ⟨[], rfl⟩
  | cons ins l ih =>
    obtain ⟨v, hv⟩ := ih (fun x hx => h x (List.mem_cons_of_mem _ hx))
    have hok := h ins (List.mem_cons_self ..)
    unfold nameOK at hok
    cases h1 : (Src.pySplit ins "__")[1]? with
    | none => rw [h1] at hok; cases hok
    | some t =>
      rw [h1] at hok
      simp only at hok
      cases h2 : Src.pyIntOfStr t with
      | error e => rw [h2] at hok; cases hok
      | ok i =>
        have hlen : 1 < (Src.pySplit ins "__").length := by
          rcases Nat.lt_or_ge 1 (Src.pySplit ins "__").length with hlt | hge
          · exact hlt
          · rw [List.getElem?_eq_none hge] at h1; cases h1
        have ht0 : (Src.pySplit ins "__")[0]? = some ((Src.pySplit ins "__")[0]'(by omega)) :=
          List.getElem?_eq_getElem (by omega)
        have e0 := pyIndex_ok (Src.pySplit ins "__") 0 _ ht0
        have e1 := pyIndex_ok (Src.pySplit ins "__") 1 t h1
        rw [List.mapM_cons, hv]
        exact ⟨((Src.pySplit ins "__")[0]'(by omega), i) :: v, by
          simp only [Int.natCast_zero, Int.natCast_one] at e0 e1
          simp [e0, e1, h2, bind, Except.bind, pure, Except.pure]⟩

/-- one iteration of the loop of `project_on_score`; the state is (`break` executed, `new_score`, `start_time`) -/
def projStep (src : Score) (ks : Bool) (st : Bool × Option Score × Rat) (c2 : Chord) : Res (Bool × Option Score × Rat) :=
  if st.1 then pure st
  else do
    let d ← Src.Chord_duration c2
    let sub ← Src.Score_get_score_between src st.2.2 (st.2.2 + d)
    match sub with
    | some sub => do
        let g ← Src.Score_put_on_same_chord sub
        pure (false, some (Src.scoreAddChord st.2.1
          { c2 with parts := if ks then PyB.dictUpdate c2.parts g.parts else g.parts }), st.2.2 + d)
    | none => pure (true, st.2.1, st.2.2)

theorem proj_fold_eq (src tgt : Score) (ks : Bool) (h : ∀ ins ∈ instruments src, nameOK ins = true) :
    Src.project_on_score src tgt ks
      = (do let st ← tgt.foldlM (projStep src ks) (false, none, 0); pure st.2.1) := by
  unfold Src.project_on_score
  obtain ⟨v, hv⟩ := instruments1_ok (instruments src) h
  rw [hv, show (Except.ok v : Res (List (String × Int))) = pure v from rfl]
  simp only [pure_bind]
  congr 1
  congr 1
  · funext st c2
    obtain ⟨brk, acc, time⟩ := st
    unfold projStep
    cases brk
    · simp only [Bool.false_eq_true, if_false]
      cases Src.Chord_duration c2 with
      | error e => rfl
      | ok d =>
        simp only [bind, Except.bind]
        cases Src.Score_get_score_between src time (time + d) with
        | error e => rfl
        | ok sub =>
          cases sub with
          | none => rfl
          | some sub =>
            simp only []
            cases Src.Score_put_on_same_chord sub with
            | error e => rfl
            | ok g => cases ks <;> rfl
    · simp


theorem proj_after_break (src : Score) (ks : Bool) (cs : List Chord) :
    ∀ (t : Rat) (acc : Option Score),
      cs.foldlM (projStep src ks) (true, acc, t) = (pure (true, acc, t) : Res _) := by
  induction cs with
  | nil => intro t acc; rfl
  | cons c cs ih =>
    intro t acc
    rw [List.foldlM_cons]
    have : projStep src ks (true, acc, t) c = pure (true, acc, t) := by simp [projStep]
    rw [this]
    exact ih t acc

theorem proj_fold (src : Score) (ks : Bool) (hs : ∀ c ∈ src, (c.parts.map (·.1)).Nodup) (cs : List Chord)
    (ht : ∀ c ∈ cs, (c.parts.map (·.1)).Nodup) :
    ∀ (start : Rat) (acc : List Chord),
      (cs.foldlM (projStep src ks) (false, optOf acc, start)).map (fun st => st.2.1)
        = (projLoop src ks cs start).map (fun r => optOf (acc ++ r)) := by
  induction cs with
  | nil => intro start acc; simp [projLoop, Except.map, pure, Except.pure]
  | cons c2 cs ih =>
    intro start acc
    have hd : Src.Chord_duration c2 = .ok c2.dur := chordDuration_eq c2 (ht c2 (List.mem_cons_self ..))
    have ih' := ih (fun x hx => ht x (List.mem_cons_of_mem _ hx))
    rw [List.foldlM_cons]
    unfold projLoop
    have hstep : projStep src ks (false, optOf acc, start) c2
        = (do let sub ← getScoreBetween src start (start + c2.dur)
              match sub with
              | some sub => do
                  let g ← Src.Score_put_on_same_chord sub
                  pure (false, some (Src.scoreAddChord (optOf acc)
                    { c2 with parts := if ks then PyB.dictUpdate c2.parts g.parts else g.parts }), start + c2.dur)
              | none => pure (true, optOf acc, start)) := by
      simp [projStep, hd, bind, Except.bind, Score_get_score_between_eq, get_score_between_eq src _ _ hs]
    rw [hstep]
    simp only []
    cases hsub : getScoreBetween src start (start + c2.dur) with
    | error e => rfl
    | ok sub =>
      cases sub with
      | none =>
        show (do let st ← (pure (true, optOf acc, start) : Res _); List.foldlM (projStep src ks) st cs).map _ = _
        rw [pure_bind, proj_after_break]
        simp [Except.map, pure, Except.pure, bind, Except.bind]
      | some sub =>
        have hn := getScoreBetween_nodup src _ _ sub hs hsub
        have hg : Src.Score_put_on_same_chord sub = putOnSameChord sub := by
          rw [Score_put_on_same_chord_eq, put_on_same_chord_eq sub hn]
        rw [show (Except.ok (some sub) : Res (Option Score)) = pure (some sub) from rfl]
        simp only [pure_bind, hg]
        cases hgs : putOnSameChord sub with
        | error e => rfl
        | ok g =>
          show (do let st ← (pure (false, some (Src.scoreAddChord (optOf acc)
                    { c2 with parts := if ks then PyB.dictUpdate c2.parts g.parts else g.parts }), start + c2.dur) : Res _)
                   List.foldlM (projStep src ks) st cs).map _ = _
          rw [pure_bind, add_optOf, ih']
          simp only [bind, Except.bind, pure, Except.pure, dictUpdate_eq]
          cases projLoop src ks cs (start + c2.dur) <;>
            simp [Except.map, bind, Except.bind, pure, Except.pure, Functor.map]

theorem project_on_score_eq (src tgt : Score) (ks : Bool) (hs : ∀ c ∈ src, (c.parts.map (·.1)).Nodup)
    (ht : ∀ c ∈ tgt, (c.parts.map (·.1)).Nodup) (hn : ∀ ins ∈ instruments src, nameOK ins = true) :
    Src.project_on_score src tgt ks = projectPlain src tgt ks := by
  rw [proj_fold_eq src tgt ks hn]
  have key := proj_fold src ks hs tgt ht 0 []
  simp only [List.nil_append] at key
  unfold projectPlain
  have e0 : optOf [] = none := rfl
  rw [e0] at key
  cases hf : List.foldlM (projStep src ks) (false, none, 0) tgt with
  | error e =>
    rw [hf] at key
    cases hl : projLoop src ks tgt 0 with
    | error e' => rw [hl] at key; simp [Except.map] at key; subst key; rfl
    | ok r => rw [hl] at key; simp [Except.map] at key
  | ok st =>
    rw [hf] at key
    cases hl : projLoop src ks tgt 0 with
    | error e' => rw [hl] at key; simp [Except.map] at key
    | ok r =>
      rw [hl] at key; simp [Except.map] at key
      simp [bind, Except.bind, pure, Except.pure, key, optOf]

end MV.TieP
