/-
C14 importer lemmas 5/15 — one voice in one bar: `barMelody`, `BarOK`, `parseVoice_chain` (closed form of `_parse_voice`), exact bar length.
-/
import MV.Lemmas.ImportDur
namespace MV
open Gen

/-- a tie of length `d` (the object `Continuation(d)` for a duration kept unchanged) -/
def contNote (d : Rat) : Note := { kind := .l, val := 0, oct := 0, dur := d }

theorem mkContinuation_fine (d : Rat) (h : Fine d) : mkContinuation d = contNote d := by
  unfold mkContinuation contNote; rw [limDur_fine d h]

/-- time from which the bar's own notes are laid out -/
def contStart (bs : Rat) : Option Rat → Rat
  | none => bs
  | some d => bs + d

/-- the tie written first, cut at the bar length -/
def contHead (bs be : Rat) : Option Rat → Melody
  | none => []
  | some d => [contNote (min d (be - bs))]

/-- **the melody of one voice in one bar**: pending tie, the notes starting in the bar with rests in
the gaps, the last note cut at the bar line, a rest up to the bar line -/
def barMelody (c : Chord) (bs be : Rat) (cont : Option Rat) (ns : List Item) : Melody :=
  contHead bs be cont ++ loopMel c be (contStart bs cont) ns ++ gapRest (endOf (contStart bs cont) ns) be

/-- the tie left pending at the bar line -/
def barPending (e be : Rat) : Option Note := if be < e then some (contNote (e - be)) else none

theorem filter_allPos (m : Melody) (h : AllPos m) : m.filter (fun n => decide (n.dur > 0)) = m := by
  rw [List.filter_eq_self]
  intro n hn; simpa using h n hn

end MV

namespace MV
open Gen

/-- the tie as it is written before trimming -/
def contHeadRaw : Option Rat → Melody
  | none => []
  | some d => [contNote d]

theorem loopMelRaw_shift (c : Chord) (t : Rat) (n : Item) (rest : List Item) :
    gapRest t n.start ++ loopMelRaw c n.start (n :: rest) = loopMelRaw c t (n :: rest) := by
  have : gapRest n.start n.start = [] := by unfold gapRest; simp [Rat.lt_irrefl]
  simp [loopMelRaw, this]

theorem voiceInit_loop (c : Chord) (he : 0 ≤ c.elem ∧ c.elem < 7) (bs be : Rat) (T : List Rat) (hT : FineSet T)
    (cont : Option Rat) (ns : List Item) (hbs : bs ∈ T) (ht0 : contStart bs cont ∈ T)
    (hmem : ∀ n ∈ ns, n.start ∈ T ∧ n.stop ∈ T) (hd : ∀ d, cont = some d → 0 < d)
    (hc : Chain (contStart bs cont) ns) :
    voiceLoop c be 1 false ns (voiceInit ns bs 1 (cont.map contNote)).1 (voiceInit ns bs 1 (cont.map contNote)).2
      = .ok (contHeadRaw cont ++ loopMelRaw c (contStart bs cont) ns, endOf (contStart bs cont) ns) := by
  cases cont with
  | some d =>
      have hpos := hd d rfl
      have h1 : (voiceInit ns bs 1 (Option.map contNote (some d))) = ([contNote d], bs + d) := by
        unfold voiceInit
        have : (contNote d).dur > 0 := hpos
        simp only [Option.map_some, this, if_true]
        congr 1
        show bs + d / 1 = bs + d
        grind
      rw [h1]
      exact voiceLoop_chain c he be T hT ns _ _ hc ht0 hmem
  | none =>
      simp only [contStart] at hc ht0 ⊢
      cases ns with
      | nil =>
          have h1 : voiceInit [] bs 1 (Option.map contNote none) = ([], bs) := by
            unfold voiceInit; simp [Rat.lt_irrefl]
          rw [h1]
          exact voiceLoop_chain c he be T hT [] _ _ hc hbs hmem
      | cons n rest =>
          have hn := hmem n (List.mem_cons_self ..)
          have h1 : voiceInit (n :: rest) bs 1 (Option.map contNote none) = (gapRest bs n.start, n.start) := by
            unfold voiceInit gapRest
            simp only [Option.map_none]
            by_cases hlt : bs < n.start
            · have hgt : n.start > bs := hlt
              have e : (n.start - bs) * 1 = n.start - bs := by grind
              have hp : n.start - bs > 0 := by grind
              simp only [hgt, if_true, e, hp]
            · have hgt : ¬ n.start > bs := hlt
              simp only [hgt, if_false]
          rw [h1]
          have hc' : Chain n.start (n :: rest) := ⟨Rat.le_refl, hc.2.1, hc.2.2⟩
          rw [voiceLoop_chain c he be T hT (n :: rest) _ _ hc' hn.1 hmem]
          simp only [contHeadRaw, List.nil_append]
          rw [loopMelRaw_shift]
          rfl

end MV

namespace MV
open Gen

theorem endOf_mem (T : List Rat) : ∀ (ns : List Item) (t : Rat), t ∈ T → (∀ n ∈ ns, n.start ∈ T ∧ n.stop ∈ T) →
    endOf t ns ∈ T := by
  intro ns
  induction ns with
  | nil => intro t ht _; exact ht
  | cons n rest ih =>
      intro t _ hmem
      exact ih _ (hmem n (List.mem_cons_self ..)).2 (fun x hx => hmem x (List.mem_cons_of_mem _ hx))

theorem contHead_dur (bs be : Rat) (cont : Option Rat) :
    melodyDuration (contHead bs be cont) = match cont with | none => 0 | some d => min d (be - bs) := by
  cases cont with
  | none => rfl
  | some d => simp only [contHead, melodyDuration_cons, melodyDuration_nil]; show min d (be - bs) + 0 = _; grind

/-- hypotheses of the one-bar theorems, bundled -/
structure BarOK (T : List Rat) (bs be : Rat) (cont : Option Rat) (ns : List Item) : Prop where
  fine : FineSet T
  hb : bs < be
  hbs : bs ∈ T
  hbe : be ∈ T
  ht0 : contStart bs cont ∈ T
  hmem : ∀ n ∈ ns, n.start ∈ T ∧ n.stop ∈ T
  hd : ∀ d, cont = some d → 0 < d
  hc : Chain (contStart bs cont) ns
  hin : ∀ n ∈ ns, n.start < be

theorem BarOK.t0_ge {T bs be cont ns} (h : BarOK T bs be cont ns) : bs ≤ contStart bs cont := by
  cases cont with
  | none => exact Rat.le_refl
  | some d => have := h.hd d rfl; simp only [contStart]; grind

theorem BarOK.t0_lt {T bs be cont ns} (h : BarOK T bs be cont ns) (hne : ns ≠ []) : contStart bs cont < be := by
  cases ns with
  | nil => exact absurd rfl hne
  | cons n rest =>
      have := h.hc.1
      have := h.hin n (List.mem_cons_self ..)
      grind

/-- the three shapes of a bar: the run ends before / at / after the bar line -/
theorem barMelody_le {T bs be cont ns} (c : Chord) (h : BarOK T bs be cont ns)
    (hE : endOf (contStart bs cont) ns ≤ be) :
    barMelody c bs be cont ns = contHeadRaw cont ++ loopMelRaw c (contStart bs cont) ns ++ gapRest (endOf (contStart bs cont) ns) be := by
  unfold barMelody
  rw [loopMel_eq_raw c be ns _ h.hc hE]
  have hge := endOf_ge ns _ h.hc
  cases cont with
  | none => rfl
  | some d =>
      simp only [contStart] at hge hE
      have : min d (be - bs) = d := by grind
      simp only [contHead, contHeadRaw, this]

theorem barMelody_gt_nil {T bs be d} (c : Chord) (h : BarOK T bs be (some d) []) (hE : be < bs + d) :
    barMelody c bs be (some d) [] = [contNote (be - bs)] := by
  unfold barMelody
  have : min d (be - bs) = be - bs := by grind
  have hg : gapRest (bs + d) be = [] := by unfold gapRest; have : ¬ (bs + d < be) := by grind
                                           simp [this]
  simp only [contHead, contStart, loopMel, endOf, this, hg, List.append_nil]

theorem barMelody_gt_cons {T bs be cont ns} (c : Chord) (h : BarOK T bs be cont ns) (hne : ns ≠ [])
    (hE : be < endOf (contStart bs cont) ns) :
    barMelody c bs be cont ns = contHeadRaw cont ++ loopMel c be (contStart bs cont) ns := by
  unfold barMelody
  have hg : gapRest (endOf (contStart bs cont) ns) be = [] := by
    unfold gapRest; have : ¬ (endOf (contStart bs cont) ns < be) := by grind
    simp [this]
  rw [hg, List.append_nil]
  have hlt := h.t0_lt hne
  cases cont with
  | none => rfl
  | some d =>
      simp only [contStart] at hlt
      have : min d (be - bs) = d := by grind
      simp only [contHead, contHeadRaw, this]

theorem barMelody_dur {T bs be cont ns} (c : Chord) (h : BarOK T bs be cont ns) :
    melodyDuration (barMelody c bs be cont ns) = be - bs := by
  have hE := endOf_mem T ns _ h.ht0 h.hmem
  have hge := endOf_ge ns _ h.hc
  have hraw : melodyDuration (contHeadRaw cont) = contStart bs cont - bs := by
    cases cont with
    | none => simp only [contHeadRaw, contStart, melodyDuration_nil]; grind
    | some d => simp only [contHeadRaw, contStart, melodyDuration_cons, melodyDuration_nil]; show d + 0 = bs + d - bs; grind
  by_cases hle : endOf (contStart bs cont) ns ≤ be
  · rw [barMelody_le c h hle]
    simp only [melodyDuration_append, loopMelRaw_dur c T h.fine ns _ h.hc h.ht0 h.hmem,
      gapRest_dur _ _ hle (h.fine _ h.hbe _ hE), hraw]
    grind
  · have hgt : be < endOf (contStart bs cont) ns := by grind
    cases ns with
    | nil =>
        cases cont with
        | none => simp only [contStart, endOf] at hgt; have := h.hb; grind
        | some d =>
            simp only [contStart, endOf] at hgt
            rw [barMelody_gt_nil c h hgt]
            simp only [melodyDuration_cons, melodyDuration_nil]; show be - bs + 0 = be - bs; grind
    | cons n rest =>
        rw [barMelody_gt_cons c h (by simp) hgt]
        simp only [melodyDuration_append, hraw,
          loopMel_dur_cut c be T h.fine _ _ h.hc (by simp) h.ht0 h.hmem h.hin hgt]
        grind

theorem barMelody_pos {T bs be cont ns} (c : Chord) (h : BarOK T bs be cont ns) : AllPos (barMelody c bs be cont ns) := by
  have hE := endOf_mem T ns _ h.ht0 h.hmem
  unfold barMelody
  apply allPos_append (allPos_append ?_ (loopMel_pos c be T h.fine ns _ h.hc h.ht0 h.hmem h.hin))
    (gapRest_pos _ _ (h.fine _ h.hbe _ hE))
  cases cont with
  | none => intro n hn; cases hn
  | some d =>
      intro n hn
      simp only [contHead, List.mem_singleton] at hn
      subst hn
      have := h.hd d rfl
      have := h.hb
      show 0 < min d (be - bs)
      grind

theorem barMelody_ne_nil {T bs be cont ns} (c : Chord) (h : BarOK T bs be cont ns) : barMelody c bs be cont ns ≠ [] := by
  intro hnil
  have := barMelody_dur c h
  rw [hnil, melodyDuration_nil] at this
  have := h.hb
  grind

end MV

namespace MV
open Gen

/-- the tail of `voiceFinish` once the melody has its final shape -/
theorem finish_tail {T bs be cont ns} (c : Chord) (h : BarOK T bs be cont ns) (ret : Option Note) :
    (let m := (barMelody c bs be cont ns).filter (fun n => decide (n.dur > 0))
     let delta := melodyDuration m - (be - bs) * 1
     let delta := if delta < 0 then -delta else delta
     if !(decide (delta < 1 / 4)) then (.error .assertion : Res (Melody × Option Note))
     else match m with
       | [] => .error .index
       | n :: _ => if n.dur > 0 then pure (m, ret) else .error .assertion)
    = .ok (barMelody c bs be cont ns, ret) := by
  have hpos := barMelody_pos c h
  have hne := barMelody_ne_nil c h
  simp only [filter_allPos _ hpos, barMelody_dur c h]
  have e : be - bs - (be - bs) * 1 = 0 := by grind
  have hq : (if (0:Rat) < 0 then -(0:Rat) else 0) < 1 / 4 := by grind
  rw [e]
  simp only [hq, decide_true, Bool.not_true, Bool.false_eq_true, if_false]
  cases hm : barMelody c bs be cont ns with
  | nil => exact absurd hm hne
  | cons n rest =>
      have : n.dur > 0 := hpos n (by rw [hm]; exact List.mem_cons_self ..)
      simp only [this, if_true]; rfl

theorem voiceFinish_chain {T bs be cont ns} (c : Chord) (h : BarOK T bs be cont ns) :
    voiceFinish (contHeadRaw cont ++ loopMelRaw c (contStart bs cont) ns) (endOf (contStart bs cont) ns) bs be 1
      = .ok (barMelody c bs be cont ns, barPending (endOf (contStart bs cont) ns) be) := by
  have hE := endOf_mem T ns _ h.ht0 h.hmem
  have tail := finish_tail c h
  simp only [] at tail
  unfold voiceFinish
  by_cases hlt : endOf (contStart bs cont) ns < be
  · have hng : ¬ (endOf (contStart bs cont) ns > be) := by grind
    have hp : barPending (endOf (contStart bs cont) ns) be = none := by
      unfold barPending; have : ¬ (be < endOf (contStart bs cont) ns) := hng
      simp [this]
    have e1 : (be - endOf (contStart bs cont) ns) * 1 = be - endOf (contStart bs cont) ns := by grind
    have hm : contHeadRaw cont ++ loopMelRaw c (contStart bs cont) ns ++ [mkSilence ((be - endOf (contStart bs cont) ns) * 1)]
        = barMelody c bs be cont ns := by
      rw [barMelody_le c h (by grind), e1]
      unfold gapRest; simp only [hlt, if_true]
    simp only [hlt, if_true, hng, if_false, pure, Except.pure, bind, Except.bind, hm, hp]
    exact tail none
  · simp only [hlt, if_false]
    by_cases hgt : endOf (contStart bs cont) ns > be
    · have e1 : (endOf (contStart bs cont) ns - be) * 1 = endOf (contStart bs cont) ns - be := by grind
      have hp : barPending (endOf (contStart bs cont) ns) be = some (mkContinuation ((endOf (contStart bs cont) ns - be) * 1)) := by
        unfold barPending; have : be < endOf (contStart bs cont) ns := hgt
        simp only [this, if_true, e1, mkContinuation_fine _ (h.fine _ hE _ h.hbe)]
      have htrim : trimLast (contHeadRaw cont ++ loopMelRaw c (contStart bs cont) ns) ((endOf (contStart bs cont) ns - be) * 1)
          = .ok (barMelody c bs be cont ns) := by
        rw [e1]
        cases ns with
        | nil =>
            cases cont with
            | none => simp only [contStart, endOf] at hgt; have := h.hb; grind
            | some d =>
                simp only [contStart, endOf] at hgt ⊢
                rw [barMelody_gt_nil c h hgt]
                simp only [contHeadRaw, loopMelRaw, List.append_nil]
                have := trimLast_snoc [] (contNote d) (bs + d - be) (by show d - (bs + d - be) ≠ 0; have := h.hb; grind)
                simp only [List.nil_append] at this
                rw [this]
                have e : (contNote d).dur - (bs + d - be) = be - bs := by show d - (bs + d - be) = be - bs; grind
                rw [e]; rfl
        | cons n rest =>
            rw [barMelody_gt_cons c h (by simp) hgt]
            exact trimLast_loop c be _ _ _ h.hc (by simp) h.hin hgt
      simp only [hgt, if_true, pure, Except.pure, bind, Except.bind, htrim, hp]
      exact tail _
    · have heq : endOf (contStart bs cont) ns = be := by grind
      have hp : barPending (endOf (contStart bs cont) ns) be = none := by
        unfold barPending; have : ¬ (be < endOf (contStart bs cont) ns) := hgt
        simp [this]
      have hm : contHeadRaw cont ++ loopMelRaw c (contStart bs cont) ns = barMelody c bs be cont ns := by
        rw [barMelody_le c h (by grind)]
        unfold gapRest; simp only [hlt, if_false, List.append_nil]
      simp only [hgt, if_false, pure, Except.pure, bind, Except.bind, hm, hp]
      exact tail none

/-- **one voice, one bar**: for a monophonic run inside the bar (and a pending tie that ends before
the run starts), `_parse_voice` returns exactly `barMelody` and the tie still pending at the bar line -/
theorem parseVoice_chain {T bs be cont ns} (c : Chord) (he : 0 ≤ c.elem ∧ c.elem < 7) (h : BarOK T bs be cont ns) :
    parseVoice ns c bs be 1 (cont.map contNote) false
      = .ok (barMelody c bs be cont ns, barPending (endOf (contStart bs cont) ns) be) := by
  unfold parseVoice
  simp only [bind, Except.bind]
  rw [voiceInit_loop c he bs be T h.fine cont ns h.hbs h.ht0 h.hmem h.hd h.hc]
  exact voiceFinish_chain c h

end MV
