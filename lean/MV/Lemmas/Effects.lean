/-
Soundness of the effect checker (C06).  See `MV/Model/Effects.lean` for the IR, the semantics and
the checker `ana`.  Main results:

* `execP_sound`  — one program, any call semantics meeting `CallSpec`
* `callFn_spec`  — the table semantics meets `CallSpec` when `TableOK`
* `call_frame`   — a pure entry of an accepted table changes no location allocated before the call
-/
import MV.Model.Effects

namespace MV.Effects

/-! ### provenance lattice -/

namespace Prov

theorem le_refl (p : Prov) : p.le p = true := by cases p <;> simp [le]

theorem le_join_left (p q : Prov) : p.le (p.join q) = true := by
  cases p <;> cases q <;> simp [le, join]
  · exact Nat.min_le_left _ _
  · rename_i i j
    by_cases h : i = j <;> simp [h, le]

theorem le_join_right (p q : Prov) : q.le (p.join q) = true := by
  cases p <;> cases q <;> simp [le, join]
  · exact Nat.min_le_right _ _
  · rename_i i j
    by_cases h : i = j <;> simp [h, le]

theorem le_prim {p : Prov} (h : p.le .prim = true) : p = .prim := by
  cases p <;> simp_all [le]

end Prov

/-! ### abstract environments -/

namespace AEnv

theorem get_nil (x : Var) : AEnv.get [] x = .prim := by simp [AEnv.get]

theorem get_cons_zero (p : Prov) (E : AEnv) : AEnv.get (p :: E) 0 = p := by simp [AEnv.get]

theorem get_cons_succ (p : Prov) (E : AEnv) (x : Var) : AEnv.get (p :: E) (x + 1) = AEnv.get E x := by
  simp [AEnv.get]

theorem get_set (E : AEnv) (x : Var) (p : Prov) (y : Var) :
    (E.set x p).get y = if y = x then p else E.get y := by
  induction E generalizing x y with
  | nil =>
      induction x generalizing y with
      | zero => cases y <;> simp [AEnv.set, AEnv.get]
      | succ x ih =>
          cases y with
          | zero => simp [AEnv.set, AEnv.get]
          | succ y =>
              have := ih y
              simp only [AEnv.set, get_cons_succ, this, get_nil]
              by_cases h : y = x <;> simp [h]
  | cons q E ih =>
      cases x with
      | zero => cases y <;> simp [AEnv.set, AEnv.get]
      | succ x =>
          cases y with
          | zero => simp [AEnv.set, AEnv.get]
          | succ y =>
              simp only [AEnv.set, get_cons_succ, ih]
              by_cases h : y = x <;> simp [h]

theorem get_join (E F : AEnv) (x : Var) : (E.join F).get x = (E.get x).join (F.get x) := by
  induction E generalizing F x with
  | nil => cases F <;> simp [AEnv.join, get_nil, Prov.join]
  | cons p E ih =>
      cases F with
      | nil =>
          simp only [AEnv.join, get_nil]
          cases h : AEnv.get (p :: E) x <;> simp [Prov.join]
      | cons q F =>
          cases x with
          | zero => simp [AEnv.join, get_cons_zero]
          | succ x => simp [AEnv.join, get_cons_succ, ih]

theorem le_get {E F : AEnv} (h : E.le F = true) (x : Var) : (E.get x).le (F.get x) = true := by
  induction E generalizing F x with
  | nil => simp [get_nil, Prov.le]
  | cons p E ih =>
      cases F with
      | nil =>
          simp only [AEnv.le, Bool.and_eq_true] at h
          cases x with
          | zero => simpa [get_cons_zero, get_nil] using h.1
          | succ x => simpa [get_cons_succ, get_nil] using ih h.2 x
      | cons q F =>
          simp only [AEnv.le, Bool.and_eq_true] at h
          cases x with
          | zero => simpa [get_cons_zero] using h.1
          | succ x => simpa [get_cons_succ] using ih h.2 x

theorem get_cap (c : Nat) (E : AEnv) (x : Var) : (E.cap c).get x = (E.get x).cap c := by
  induction E generalizing x with
  | nil => simp [AEnv.cap, get_nil, Prov.cap]
  | cons p E ih =>
      cases x with
      | zero => simp [AEnv.cap, get_cons_zero]
      | succ x =>
          have := ih x
          simp only [AEnv.cap] at this
          simp [AEnv.cap, get_cons_succ, this]

end AEnv

/-! ### the invariant -/

/-- `D k l`: location `l` is fresh (allocated by this run, or lent by the caller) and every chain of at
most `k` loads starting from it stays inside fresh objects.  `D` is decreasing in `k`; an object that
is in `D k` for every `k` is DeepFresh. -/
abbrev Region := Nat → Loc → Prop

def VarOK (D : Region) (p : Prov) (l : Loc) : Prop :=
  match p with
  | .prim => False
  | .deep => ∀ k, D k l
  | .fresh k => D k l
  | _ => True

/-- `n0` = first location allocated by this run, `D0` = the closed region lent by the caller (the
DeepFresh arguments at written parameter positions), `h0` = the heap at entry. -/
structure Inv (n0 : Nat) (D0 : Loc → Prop) (h0 : Heap) (D : Region) (E : AEnv) (s : St) : Prop where
  next_ge : n0 ≤ s.heap.next
  frame : ∀ r f, r < n0 → ¬ D0 r → s.heap.cell r f = h0.cell r f
  dom : ∀ k l, D k l → l < s.heap.next ∧ (n0 ≤ l ∨ D0 l)
  anti : ∀ k l, D (k + 1) l → D k l
  step : ∀ k l f l', D (k + 1) l → s.heap.cell l f = .ref l' → D k l'
  var : ∀ x l, s.env x = .ref l → VarOK D (E.get x) l

theorem region_le {D : Region} (anti : ∀ k l, D (k + 1) l → D k l) {j k : Nat} (hjk : k ≤ j) {l : Loc}
    (h : D j l) : D k l := by
  induction j with
  | zero => have : k = 0 := by omega
            subst this; exact h
  | succ j ih =>
      by_cases hk : k = j + 1
      · subst hk; exact h
      · exact ih (by omega) (anti j l h)

theorem VarOK.mono {D : Region} (anti : ∀ k l, D (k + 1) l → D k l) {p q : Prov} {l : Loc}
    (hle : p.le q = true) (h : VarOK D p l) : VarOK D q l := by
  cases p <;> cases q <;> simp_all [VarOK, Prov.le]
  rename_i j k
  exact region_le anti hle h

theorem VarOK.monoD {D D' : Region} {p : Prov} {l : Loc}
    (hsub : ∀ k l, D k l → D' k l) (h : VarOK D p l) : VarOK D' p l := by
  cases p <;> simp_all [VarOK]

theorem Inv.weaken {n0 D0 h0 D E E' s} (h : Inv n0 D0 h0 D E s)
    (hle : ∀ x, (E.get x).le (E'.get x) = true) : Inv n0 D0 h0 D E' s :=
  { next_ge := h.next_ge, frame := h.frame, dom := h.dom, anti := h.anti, step := h.step,
    var := fun x l hx => VarOK.mono h.anti (hle x) (h.var x l hx) }

/-- levels above `c` are forgotten -/
def Region.cut (c : Nat) (D : Region) : Region := fun k l => k ≤ c ∧ D k l

theorem VarOK.cap {D : Region} {c : Nat} {p : Prov} {l : Loc} (anti : ∀ k l, D (k + 1) l → D k l)
    (h : VarOK D p l) : VarOK (D.cut c) (p.cap c) l := by
  cases p <;> simp_all [VarOK, Prov.cap, Region.cut]
  rename_i k
  exact ⟨Nat.min_le_right _ _, region_le anti (Nat.min_le_left _ _) h⟩

/-- forgetting the levels above `c`: the same state satisfies the capped environment -/
theorem Inv.cut {n0 D0 h0 D E s} (h : Inv n0 D0 h0 D E s) (c : Nat) :
    Inv n0 D0 h0 (D.cut c) (E.cap c) s :=
  { next_ge := h.next_ge, frame := h.frame,
    dom := fun k l hl => h.dom k l hl.2,
    anti := fun k l hl => ⟨by have := hl.1; omega, h.anti k l hl.2⟩,
    step := fun k l f l' hl hc => ⟨by have := hl.1; omega, h.step k l f l' hl.2 hc⟩,
    var := fun x l hx => by
      rw [AEnv.get_cap]
      exact VarOK.cap h.anti (h.var x l hx) }

theorem Inv.setVar {n0 D0 h0 D E s} (h : Inv n0 D0 h0 D E s) (x : Var) (v : Val) (p : Prov)
    (hv : ∀ l, v = .ref l → VarOK D p l) : Inv n0 D0 h0 D (E.set x p) (s.setVar x v) :=
  { next_ge := h.next_ge, frame := h.frame, dom := h.dom, anti := h.anti, step := h.step,
    var := fun y l hy => by
      rw [AEnv.get_set]
      simp only [St.setVar] at hy
      by_cases hyx : y = x
      · simp only [hyx, if_true] at hy ⊢; exact hv l hy
      · simp only [hyx, if_false] at hy ⊢; exact h.var y l hy }

/-- same heap and environment, only the oracle moved -/
theorem Inv.orc {n0 D0 h0 D E s} (h : Inv n0 D0 h0 D E s) (o : List Nat) :
    Inv n0 D0 h0 D E { s with orc := o } :=
  { next_ge := h.next_ge, frame := h.frame, dom := h.dom, anti := h.anti, step := h.step, var := h.var }

theorem pop_env (s : St) : s.pop.2.env = s.env := by
  unfold St.pop; cases s.orc <;> rfl
theorem pop_heap (s : St) : s.pop.2.heap = s.heap := by
  unfold St.pop; cases s.orc <;> rfl

theorem Inv.pop {n0 D0 h0 D E s} (h : Inv n0 D0 h0 D E s) : Inv n0 D0 h0 D E s.pop.2 := by
  unfold St.pop; cases hs : s.orc with
  | nil => simpa using h
  | cons k ks => exact h.orc ks

/-! ### what a call must guarantee -/

def ClosedIn (h : Heap) (P : Loc → Prop) : Prop :=
  (∀ l, P l → l < h.next) ∧ (∀ l f l', P l → h.cell l f = .ref l' → P l')

/-- Specification of a call semantics w.r.t. the summaries of the table.  `P` is the closed region the
caller lends (it must contain the arguments at written parameter positions); the callee may change
cells of `P` and of locations it allocates, nothing else. -/
structure CallSpec (tbl : Table) (callF : CallSem) : Prop where
  unknown : ∀ fn args h o, tbl fn = none → callF fn args h o = (.prim, h, o)
  known : ∀ fn d args h o (P : Loc → Prop), tbl fn = some d → ClosedIn h P →
    (∀ i, i ∈ d.writes → 0 < i → i ≤ args.length → ∀ l, args.getD (i - 1) .prim = .ref l → P l) →
    h.next ≤ (callF fn args h o).2.1.next ∧
    (∀ r f, r < h.next → ¬ P r → (callF fn args h o).2.1.cell r f = h.cell r f) ∧
    ∃ D' : Region,
      (∀ k l, D' k l → l < (callF fn args h o).2.1.next ∧ (h.next ≤ l ∨ P l)) ∧
      (∀ k l, D' (k + 1) l → D' k l) ∧
      (∀ k l f l', D' (k + 1) l → (callF fn args h o).2.1.cell l f = .ref l' → D' k l') ∧
      (d.clobbers = false → ∀ k l, P l → D' k l) ∧
      (∀ l, (callF fn args h o).1 = .ref l → VarOK D' d.ret l)

/-! ### one command -/

section
variable {n0 : Nat} {D0 : Loc → Prop} {h0 : Heap}

/-- the conclusions of a sound step: the invariant holds again for some region `D'`, the region only
grew unless the step is flagged as clobbering, and allocation is monotone -/
def StepOK (n0 : Nat) (D0 : Loc → Prop) (h0 : Heap) (D : Region) (r : ARes) (s s' : St) : Prop :=
  ∃ D' : Region, Inv n0 D0 h0 D' r.env s' ∧ (r.clob = false → ∀ k l, D k l → D' k l) ∧
    s.heap.next ≤ s'.heap.next

theorem step_prim {D E s} (h : Inv n0 D0 h0 D E s) (x : Var) :
    StepOK n0 D0 h0 D ⟨E.set x .prim, false, []⟩ s (s.setVar x .prim) :=
  ⟨D, h.setVar x .prim .prim (by intro l hl; cases hl), fun _ _ _ hl => hl, Nat.le_refl _⟩

theorem step_ext {D E s} (h : Inv n0 D0 h0 D E s) (x : Var) (v : Val) :
    StepOK n0 D0 h0 D ⟨E.set x .ext, false, []⟩ s (s.pop.2.setVar x v) :=
  ⟨D, h.pop.setVar x v .ext (by intro l _; simp [VarOK]), fun _ _ _ hl => hl, by
    simp [St.setVar, pop_heap]⟩

theorem step_move {D E s} (h : Inv n0 D0 h0 D E s) (x y : Var) :
    StepOK n0 D0 h0 D ⟨E.set x (E.get y), false, []⟩ s (s.setVar x (s.env y)) :=
  ⟨D, h.setVar x _ _ (fun l hl => h.var y l hl), fun _ _ _ hl => hl, Nat.le_refl _⟩

theorem step_load {D E s} (h : Inv n0 D0 h0 D E s) (x y : Var) (f : Field) :
    StepOK n0 D0 h0 D ⟨E.set x (E.get y).loadOf, false, []⟩ s
      (s.setVar x (match s.env y with | .ref l => s.heap.cell l f | .prim => .prim)) := by
  refine ⟨D, h.setVar x _ _ ?_, fun _ _ _ hl => hl, Nat.le_refl _⟩
  intro l' hl'
  cases hy : s.env y with
  | prim => simp [hy] at hl'
  | ref l =>
      simp only [hy] at hl'
      have hv := h.var y l hy
      cases hp : E.get y with
      | prim => simp [hp, VarOK] at hv
      | deep =>
          simp only [hp, VarOK] at hv
          simp only [Prov.loadOf, VarOK]
          intro k
          exact h.step k l f l' (hv (k + 1)) hl'
      | fresh k =>
          simp only [hp, VarOK] at hv
          cases k with
          | zero => simp [Prov.loadOf, VarOK]
          | succ k => simp only [Prov.loadOf, VarOK]; exact h.step k l f l' hv hl'
      | par i => simp [Prov.loadOf, VarOK]
      | ext => simp [Prov.loadOf, VarOK]

theorem getD_map_ref {args : List Var} {env : Var → Val} {f : Nat} {l : Loc}
    (h : (args.map env).getD f .prim = .ref l) : ∃ a, a ∈ args ∧ env a = .ref l := by
  induction args generalizing f with
  | nil => simp at h
  | cons a as ih =>
      cases f with
      | zero => exact ⟨a, by simp, by simpa using h⟩
      | succ f =>
          have : (as.map env).getD f .prim = .ref l := by simpa using h
          obtain ⟨b, hb, hb'⟩ := ih this
          exact ⟨b, by simp [hb], hb'⟩

/-- is level `k` within the bound `lvl` (`none` = unbounded) -/
def InLvl : Option Nat → Nat → Prop
  | none, _ => True
  | some m, k => k ≤ m

theorem newLevel_le {ps : List Prov} {p : Prov} {c : Nat} (hp : p ∈ ps) (hc : p.capOf = some c) :
    ∃ m, newLevel ps = some m ∧ m ≤ c := by
  induction ps with
  | nil => cases hp
  | cons q qs ih =>
      simp only [newLevel]
      rcases List.mem_cons.mp hp with h | h
      · subst h
        rw [hc]
        cases hn : newLevel qs with
        | none => exact ⟨c, rfl, Nat.le_refl _⟩
        | some b => exact ⟨min c b, rfl, Nat.min_le_left _ _⟩
      · obtain ⟨m, hm, hmc⟩ := ih h
        rw [hm]
        cases hq : q.capOf with
        | none => exact ⟨m, rfl, hmc⟩
        | some a => exact ⟨min a m, rfl, Nat.le_trans (Nat.min_le_right _ _) hmc⟩

theorem step_new {D E s} (h : Inv n0 D0 h0 D E s) (x : Var) (args : List Var) :
    StepOK n0 D0 h0 D
      ⟨E.set x (provOfLevel (newLevel (args.map E.get))), false, []⟩ s
      (({ s with heap := s.heap.alloc (args.map s.env) } : St).setVar x (.ref s.heap.next)) := by
  generalize hlvl : newLevel (args.map E.get) = lvl
  refine ⟨fun k l => D k l ∨ (l = s.heap.next ∧ InLvl lvl k), ?_, fun _ _ _ hl => Or.inl hl,
    by simp [St.setVar, Heap.alloc]⟩
  have base : Inv n0 D0 h0 (fun k l => D k l ∨ (l = s.heap.next ∧ InLvl lvl k)) E
      ({ s with heap := s.heap.alloc (args.map s.env) } : St) := by
    refine ⟨by simp [Heap.alloc]; exact Nat.le_succ_of_le h.next_ge, ?_, ?_, ?_, ?_, ?_⟩
    · intro r f hr hnd
      have : r ≠ s.heap.next := by have := h.next_ge; omega
      simp [Heap.alloc, this, h.frame r f hr hnd]
    · intro k l hl
      rcases hl with hl | hl
      · have := h.dom k l hl; exact ⟨by simp [Heap.alloc]; omega, this.2⟩
      · rw [hl.1]; exact ⟨by simp [Heap.alloc], Or.inl h.next_ge⟩
    · intro k l hl
      rcases hl with hl | hl
      · exact Or.inl (h.anti k l hl)
      · refine Or.inr ⟨hl.1, ?_⟩
        cases lvl with
        | none => trivial
        | some m => have := hl.2; simp only [InLvl] at this ⊢; omega
    · intro k l f l' hl hc
      rcases hl with hl | hl
      · have hne : l ≠ s.heap.next := Nat.ne_of_lt (h.dom _ l hl).1
        simp only [Heap.alloc, hne, if_false] at hc
        exact Or.inl (h.step k l f l' hl hc)
      · obtain ⟨hl1, hl2⟩ := hl
        subst hl1
        simp only [Heap.alloc, if_true] at hc
        obtain ⟨a, ha, hea⟩ := getD_map_ref hc
        have hv := h.var a l' hea
        left
        cases hp : E.get a with
        | prim => simp [hp, VarOK] at hv
        | deep => simp only [hp, VarOK] at hv; exact hv k
        | fresh j =>
            simp only [hp, VarOK] at hv
            have hmem : E.get a ∈ args.map E.get := List.mem_map_of_mem ha
            obtain ⟨m, hm, hmj⟩ := newLevel_le hmem (by rw [hp]; rfl : (E.get a).capOf = some (j + 1))
            rw [hlvl] at hm
            subst hm
            simp only [InLvl] at hl2
            exact region_le h.anti (by omega) hv
        | par i =>
            have hmem : E.get a ∈ args.map E.get := List.mem_map_of_mem ha
            obtain ⟨m, hm, hmj⟩ := newLevel_le hmem (by rw [hp]; rfl : (E.get a).capOf = some 0)
            rw [hlvl] at hm
            subst hm
            simp only [InLvl] at hl2
            omega
        | ext =>
            have hmem : E.get a ∈ args.map E.get := List.mem_map_of_mem ha
            obtain ⟨m, hm, hmj⟩ := newLevel_le hmem (by rw [hp]; rfl : (E.get a).capOf = some 0)
            rw [hlvl] at hm
            subst hm
            simp only [InLvl] at hl2
            omega
    · intro y l hy
      exact VarOK.monoD (fun k l hl => Or.inl hl) (h.var y l hy)
  refine base.setVar x _ _ ?_
  intro l hl
  cases hl
  cases lvl with
  | none => simp [provOfLevel, VarOK, InLvl]
  | some m => simp [provOfLevel, VarOK, InLvl]
theorem shiftVal_ref {n : Nat} {v : Val} {l : Loc} (h : shiftVal n v = .ref l) : n ≤ l ∧ l < n + n := by
  cases v with
  | prim => simp [shiftVal] at h
  | ref j =>
      simp only [shiftVal] at h
      split at h
      · cases h; omega
      · cases h

theorem step_copy {D E s} (h : Inv n0 D0 h0 D E s) (x y : Var) :
    StepOK n0 D0 h0 D ⟨E.set x .deep, false, []⟩ s
      (({ s with heap := s.heap.copyAll } : St).setVar x (shiftVal s.heap.next (s.env y))) := by
  refine ⟨fun k l => D k l ∨ (s.heap.next ≤ l ∧ l < s.heap.next + s.heap.next), ?_,
    fun _ _ _ hl => Or.inl hl, by simp [St.setVar, Heap.copyAll]⟩
  have base : Inv n0 D0 h0 (fun k l => D k l ∨ (s.heap.next ≤ l ∧ l < s.heap.next + s.heap.next)) E
      ({ s with heap := s.heap.copyAll } : St) := by
    refine ⟨by simp [Heap.copyAll]; have := h.next_ge; omega, ?_, ?_, ?_, ?_, ?_⟩
    · intro r f hr hnd
      have : ¬ (s.heap.next ≤ r ∧ r < s.heap.next + s.heap.next) := by have := h.next_ge; omega
      simp [Heap.copyAll, this, h.frame r f hr hnd]
    · intro k l hl
      rcases hl with hl | hl
      · have := h.dom k l hl; exact ⟨by simp [Heap.copyAll]; omega, this.2⟩
      · have := h.next_ge; exact ⟨by simp [Heap.copyAll]; omega, Or.inl (by omega)⟩
    · intro k l hl
      rcases hl with hl | hl
      · exact Or.inl (h.anti k l hl)
      · exact Or.inr hl
    · intro k l f l' hl hc
      rcases hl with hl | hl
      · have hne : ¬ (s.heap.next ≤ l ∧ l < s.heap.next + s.heap.next) := by
          have := (h.dom _ l hl).1; intro hh; omega
        simp only [Heap.copyAll, hne, if_false] at hc
        exact Or.inl (h.step k l f l' hl hc)
      · simp only [Heap.copyAll, hl, and_self, if_true] at hc
        exact Or.inr (shiftVal_ref hc)
    · intro z l hz
      exact VarOK.monoD (fun k l hl => Or.inl hl) (h.var z l hz)
  exact base.setVar x _ _ (by intro l hl; simp only [VarOK]; intro k; exact Or.inr (shiftVal_ref hl))

/-- a store through a writable variable -/
theorem step_store {D E s} (h : Inv n0 D0 h0 D E s) (x : Var) (f : Field) (y : Var)
    (hw : (E.get x).writable = true) :
    StepOK n0 D0 h0 D
      (match (E.get y).capOf with
        | none => ⟨E, false, []⟩
        | some c => if E.get x == .prim then ⟨E, false, []⟩ else ⟨E.cap c, true, []⟩) s
      (match s.env x with
        | .ref l => { s with heap := s.heap.write l f (s.env y) }
        | .prim => s) := by
  cases hx : s.env x with
  | prim =>
      simp only
      cases hc : (E.get y).capOf with
      | none => exact ⟨D, h, fun _ _ _ hl => hl, Nat.le_refl _⟩
      | some c =>
          simp only
          by_cases hp : (E.get x == .prim) = true
          · simp only [hp, if_true]; exact ⟨D, h, fun _ _ _ hl => hl, Nat.le_refl _⟩
          · simp only [hp]; exact ⟨D.cut c, h.cut c, by simp, Nat.le_refl _⟩
  | ref l =>
      simp only
      have hvx := h.var x l hx
      -- the written location is fresh or lent
      have hl : n0 ≤ l ∨ D0 l := by
        cases hp : E.get x with
        | prim => simp [hp, VarOK] at hvx
        | deep => simp only [hp, VarOK] at hvx; exact (h.dom 0 l (hvx 0)).2
        | fresh k => simp only [hp, VarOK] at hvx; exact (h.dom k l hvx).2
        | par i => simp [hp, Prov.writable] at hw
        | ext => simp [hp, Prov.writable] at hw
      have hxp : (E.get x == .prim) = false := by
        cases hp : E.get x <;> simp_all [VarOK]
      have hframe : ∀ r f', r < n0 → ¬ D0 r → (s.heap.write l f (s.env y)).cell r f' = h0.cell r f' := by
        intro r f' hr hnd
        have hne : r ≠ l := by
          rcases hl with hl | hl
          · omega
          · intro he; subst he; exact hnd hl
        simp [Heap.write, hne, h.frame r f' hr hnd]
      cases hc : (E.get y).capOf with
      | none =>
          simp only
          refine ⟨D, ⟨h.next_ge, hframe, h.dom, h.anti, ?_, h.var⟩, fun _ _ _ hl => hl, Nat.le_refl _⟩
          intro k l1 f1 l' hl1 hcell
          by_cases hsame : l1 = l ∧ f1 = f
          · simp only [Heap.write, hsame, and_self, if_true] at hcell
            have hvy := h.var y l' hcell
            cases hp : E.get y with
            | prim => simp [hp, VarOK] at hvy
            | deep => simp only [hp, VarOK] at hvy; exact hvy k
            | fresh j => simp [hp, Prov.capOf] at hc
            | par i => simp [hp, Prov.capOf] at hc
            | ext => simp [hp, Prov.capOf] at hc
          · simp only [Heap.write, hsame, if_false] at hcell
            exact h.step k l1 f1 l' hl1 hcell
      | some c =>
          simp only [hxp]
          refine ⟨D.cut c, ?_, by simp, Nat.le_refl _⟩
          have hd := h.cut c
          refine ⟨hd.next_ge, hframe, hd.dom, hd.anti, ?_, hd.var⟩
          intro k l1 f1 l' hl1 hcell
          by_cases hsame : l1 = l ∧ f1 = f
          · simp only [Heap.write, hsame, and_self, if_true] at hcell
            have hvy := h.var y l' hcell
            have hk : k + 1 ≤ c := hl1.1
            refine ⟨by omega, ?_⟩
            cases hp : E.get y with
            | prim => simp [hp, VarOK] at hvy
            | deep => simp only [hp, VarOK] at hvy; exact hvy k
            | fresh j =>
                simp only [hp, VarOK] at hvy
                simp only [hp, Prov.capOf, Option.some.injEq] at hc
                exact region_le h.anti (by omega) hvy
            | par i => simp only [hp, Prov.capOf, Option.some.injEq] at hc; omega
            | ext => simp only [hp, Prov.capOf, Option.some.injEq] at hc; omega
          · simp only [Heap.write, hsame, if_false] at hcell
            exact hd.step k l1 f1 l' hl1 hcell

theorem step_ret {D E s} (h : Inv n0 D0 h0 D E s) (y : Var) :
    StepOK n0 D0 h0 D ⟨E.set 0 ((E.get 0).join (E.get y)), false, []⟩ s
      (if s.pop.1 = 0 then s.pop.2 else s.pop.2.setVar 0 (s.pop.2.env y)) := by
  by_cases hk : s.pop.1 = 0
  · simp only [hk, if_true]
    refine ⟨D, ?_, fun _ _ _ hl => hl, by simp [pop_heap]⟩
    refine (h.pop).weaken ?_
    intro x
    rw [AEnv.get_set]
    by_cases hx : x = 0
    · simp [hx, Prov.le_join_left]
    · simp [hx, Prov.le_refl]
  · simp only [hk, if_false]
    refine ⟨D, ?_, fun _ _ _ hl => hl, by simp [St.setVar, pop_heap]⟩
    refine h.pop.setVar 0 _ _ ?_
    intro l hl
    rw [pop_env] at hl
    exact VarOK.mono h.anti (Prov.le_join_right _ _) (h.var y l hl)

theorem getD_map_env (args : List Var) (env : Var → Val) (k : Nat) (hk : k < args.length) :
    (args.map env).getD k .prim = env (args.getD k 0) := by
  induction args generalizing k with
  | nil => simp at hk
  | cons a as ih =>
      cases k with
      | zero => simp
      | succ k => simpa using ih k (by simpa using hk)

/-- provenance given to the result of a call -/
def callRet (E : AEnv) (args : List Var) : Prov → Prov
  | .prim => .prim
  | .deep => .deep
  | .fresh k => .fresh k
  | .par i => (match E.get (args.getD (i - 1) 0) with
      | .par j => if i = 0 ∨ args.length < i then .ext else .par j
      | _ => .ext)
  | .ext => .ext

theorem callRet_ok {D : Region} {E : AEnv} {args : List Var} {p : Prov} {l : Loc}
    (h : VarOK D p l) : VarOK D (callRet E args p) l := by
  cases p with
  | prim => exact h
  | deep => exact h
  | fresh k => exact h
  | par i =>
      simp only [callRet]
      cases E.get (args.getD (i - 1) 0) <;> simp [VarOK]
      by_cases hcond : i = 0 ∨ args.length < i <;> simp [hcond]
  | ext => simp [callRet, VarOK]

theorem step_call {tbl : Table} {callF : CallSem} (hc : CallSpec tbl callF) {D E s}
    (h : Inv n0 D0 h0 D E s) (x : Var) (fn : FnId) (args : List Var)
    (hv : (anaCmd tbl (.call x fn args) E).viol = []) :
    StepOK n0 D0 h0 D (anaCmd tbl (.call x fn args) E) s (execCmd callF (.call x fn args) s) := by
  cases ht : tbl fn with
  | none =>
      have hcall := hc.unknown fn (args.map s.env) s.heap s.orc ht
      simp only [anaCmd, ht, execCmd, hcall]
      exact ⟨D, (h.orc s.orc).setVar x .prim .prim (by intro l hl; cases hl), fun _ _ _ hl => hl, Nat.le_refl _⟩
  | some d =>
      simp only [anaCmd, ht] at hv
      -- the region lent to the callee
      let P : Loc → Prop := fun l => d.writes ≠ [] ∧ ∀ k, D k l
      have hclosed : ClosedIn s.heap P :=
        ⟨fun l hl => (h.dom 0 l (hl.2 0)).1, fun l f l' hl hcell => ⟨hl.1, fun k => h.step k l f l' (hl.2 (k + 1)) hcell⟩⟩
      have hwr : ∀ i, i ∈ d.writes → 0 < i → i ≤ (args.map s.env).length →
          ∀ l, (args.map s.env).getD (i - 1) .prim = .ref l → P l := by
        intro i hi hpos hlen l hl
        rw [List.filterMap_eq_nil_iff] at hv
        have hvi := hv i hi
        have hlen' : i ≤ args.length := by simpa using hlen
        have hcond : ¬ (i = 0 ∨ args.length < i) := by omega
        simp only [hcond, if_false] at hvi
        have hcl : (E.get (args.getD (i - 1) 0)).closedVal = true := by
          by_cases hh : (E.get (args.getD (i - 1) 0)).closedVal = true
          · exact hh
          · rw [if_neg hh] at hvi; cases hvi
        rw [getD_map_env args s.env (i - 1) (by omega)] at hl
        have hvar := h.var _ l hl
        refine ⟨List.ne_nil_of_mem hi, ?_⟩
        cases hp : E.get (args.getD (i - 1) 0) <;> simp_all [VarOK, Prov.closedVal]
      obtain ⟨hnext, hfr, D', hdom', hanti', hstep', hmono, hret⟩ :=
        hc.known fn d (args.map s.env) s.heap s.orc P ht hclosed hwr
      have hPdom : ∀ l, P l → n0 ≤ l ∨ D0 l := fun l hl => (h.dom 0 l (hl.2 0)).2
      have hD'dom : ∀ k l, D' k l → n0 ≤ l ∨ D0 l := by
        intro k l hl
        rcases (hdom' k l hl).2 with h1 | h1
        · have := h.next_ge; exact Or.inl (by omega)
        · exact hPdom l h1
      have hframe : ∀ r f, r < n0 → ¬ D0 r →
          (callF fn (args.map s.env) s.heap s.orc).2.1.cell r f = h0.cell r f := by
        intro r f hr hnd
        have hnP : ¬ P r := by
          intro hp
          rcases hPdom r hp with h1 | h1
          · omega
          · exact hnd h1
        have := h.next_ge
        rw [hfr r f (by omega) hnP]
        exact h.frame r f hr hnd
      simp only [anaCmd, ht, execCmd]
      generalize hres : callF fn (args.map s.env) s.heap s.orc = res at hnext hfr hdom' hstep' hret hframe
      obtain ⟨v, hp, o⟩ := res
      simp only at hnext hfr hdom' hstep' hret hframe ⊢
      have hretx : ∀ (D'' : Region), (∀ k l, D' k l → D'' k l) →
          ∀ l, v = .ref l → VarOK D'' (callRet E args d.ret) l :=
        fun D'' hsub l hl => callRet_ok (VarOK.monoD hsub (hret l hl))
      by_cases hcl : (d.clobbers && !d.writes.isEmpty) = true
      · -- a writing callee that may break the closedness of the lent region: everything is capped at 0
        simp only [hcl, if_true]
        refine ⟨fun k l => (k = 0 ∧ D 0 l) ∨ D' k l, ?_, by simp, by simpa [St.setVar] using hnext⟩
        have base : Inv n0 D0 h0 (fun k l => (k = 0 ∧ D 0 l) ∨ D' k l) (E.cap 0)
            ({ s with heap := hp, orc := o } : St) := by
          refine ⟨by have := h.next_ge; simp; omega, hframe, ?_, ?_, ?_, ?_⟩
          · intro k l hl
            rcases hl with hl | hl
            · have := h.dom 0 l hl.2; exact ⟨by simp; omega, this.2⟩
            · exact ⟨(hdom' k l hl).1, hD'dom k l hl⟩
          · intro k l hl
            rcases hl with hl | hl
            · omega
            · exact Or.inr (hanti' k l hl)
          · intro k l f l' hl hcell
            rcases hl with hl | hl
            · omega
            · exact Or.inr (hstep' k l f l' hl hcell)
          · intro y l hy
            have hvy := h.var y l hy
            rw [AEnv.get_cap]
            cases hpy : E.get y with
            | prim => simp [hpy, VarOK] at hvy
            | deep => simp only [hpy, VarOK] at hvy; simp only [Prov.cap, VarOK]; exact Or.inl ⟨trivial, hvy 0⟩
            | fresh k =>
                simp only [hpy, VarOK] at hvy
                simp only [Prov.cap, VarOK, Nat.min_zero]
                exact Or.inl ⟨trivial, region_le h.anti (Nat.zero_le _) hvy⟩
            | par i => simp [Prov.cap, VarOK]
            | ext => simp [Prov.cap, VarOK]
        exact base.setVar x v _ (hretx _ (fun k l hl => Or.inr hl))
      · simp only [hcl]
        refine ⟨fun k l => D k l ∨ D' k l, ?_, fun _ k l hl => Or.inl hl, by simpa [St.setVar] using hnext⟩
        have hPsub : ∀ k l, P l → D' k l := by
          intro k l hl
          have hcb : d.clobbers = false := by
            have hne : d.writes.isEmpty = false := by
              cases hw : d.writes with
              | nil => exact absurd hw hl.1
              | cons a as => rfl
            cases hcb : d.clobbers with
            | false => rfl
            | true => simp [hcb, hne] at hcl
          exact hmono hcb k l hl
        have base : Inv n0 D0 h0 (fun k l => D k l ∨ D' k l) E
            ({ s with heap := hp, orc := o } : St) := by
          refine ⟨by have := h.next_ge; simp; omega, hframe, ?_, ?_, ?_, ?_⟩
          · intro k l hl
            rcases hl with hl | hl
            · have := h.dom k l hl; exact ⟨by simp; omega, this.2⟩
            · exact ⟨(hdom' k l hl).1, hD'dom k l hl⟩
          · intro k l hl
            rcases hl with hl | hl
            · exact Or.inl (h.anti k l hl)
            · exact Or.inr (hanti' k l hl)
          · intro k l f l' hl hcell
            rcases hl with hl | hl
            · by_cases hPl : P l
              · exact Or.inr (hstep' k l f l' (hPsub (k + 1) l hPl) hcell)
              · simp only at hcell
                rw [hfr l f (h.dom _ l hl).1 hPl] at hcell
                exact Or.inl (h.step k l f l' hl hcell)
            · exact Or.inr (hstep' k l f l' hl hcell)
          · intro y l hy
            exact VarOK.monoD (fun k l hl => Or.inl hl) (h.var y l hy)
        exact base.setVar x v _ (hretx _ (fun k l hl => Or.inr hl))

theorem store_viol (tbl : Table) (E : AEnv) (x : Var) (f : Field) (y : Var) :
    (anaCmd tbl (.store x f y) E).viol =
      if (E.get x).writable then [] else [⟨(E.get x).origin, f⟩] := by
  simp only [anaCmd]
  split
  · rfl
  · split <;> rfl

theorem execCmd_sound {tbl : Table} {callF : CallSem} (hc : CallSpec tbl callF) {D E s}
    (h : Inv n0 D0 h0 D E s) (c : Cmd) (hv : (anaCmd tbl c E).viol = []) :
    StepOK n0 D0 h0 D (anaCmd tbl c E) s (execCmd callF c s) := by
  cases c with
  | prim x => exact step_prim h x
  | ext x => exact step_ext h x _
  | move x y => exact step_move h x y
  | load x y f => exact step_load h x y f
  | new x args => exact step_new h x args
  | copy x y => exact step_copy h x y
  | store x f y =>
      have hw : (E.get x).writable = true := by
        by_cases hw : (E.get x).writable = true
        · exact hw
        · rw [store_viol, if_neg hw] at hv; cases hv
      have := step_store h x f y hw
      simp only [anaCmd, execCmd, hw, if_true]
      split at this <;> simp_all <;> exact this
  | call x fn args => exact step_call hc h x fn args hv
  | ret y => exact step_ret h y

/-! ### programs -/

theorem loopFix_snd (step : AEnv → ARes) (k : Nat) (E : AEnv) :
    (loopFix step k E).2 = step (loopFix step k E).1 := by
  induction k generalizing E with
  | zero => rfl
  | succ k ih =>
      simp only [loopFix]
      split
      · rfl
      · exact ih _

theorem iter_sound {f : St → St} {Es : AEnv} {clob : Bool}
    (hf : ∀ s D, Inv n0 D0 h0 D Es s →
      ∃ D' : Region, Inv n0 D0 h0 D' Es (f s) ∧ (clob = false → ∀ k l, D k l → D' k l) ∧
        s.heap.next ≤ (f s).heap.next)
    (k : Nat) : ∀ s D, Inv n0 D0 h0 D Es s →
      ∃ D' : Region, Inv n0 D0 h0 D' Es (iter k f s) ∧ (clob = false → ∀ k l, D k l → D' k l) ∧
        s.heap.next ≤ (iter k f s).heap.next := by
  induction k with
  | zero => intro s D h; exact ⟨D, h, fun _ _ _ hl => hl, Nat.le_refl _⟩
  | succ k ih =>
      intro s D h
      obtain ⟨D1, h1, m1, n1⟩ := hf s D h
      obtain ⟨D2, h2, m2, n2⟩ := ih (f s) D1 h1
      exact ⟨D2, h2, fun hc j l hl => m2 hc j l (m1 hc j l hl), Nat.le_trans n1 n2⟩

theorem execP_sound {tbl : Table} {callF : CallSem} (hc : CallSpec tbl callF) (p : Prog) :
    ∀ (E : AEnv) (s : St) (D : Region), Inv n0 D0 h0 D E s → (ana tbl p E).viol = [] →
      StepOK n0 D0 h0 D (ana tbl p E) s (execP callF p s) := by
  induction p with
  | skip => intro E s D h _; exact ⟨D, h, fun _ _ _ hl => hl, Nat.le_refl _⟩
  | cmd c => intro E s D h hv; exact execCmd_sound hc h c hv
  | seq p q ihp ihq =>
      intro E s D h hv
      simp only [ana, List.append_eq_nil_iff] at hv
      obtain ⟨D1, h1, m1, n1⟩ := ihp E s D h hv.1
      obtain ⟨D2, h2, m2, n2⟩ := ihq _ _ D1 h1 hv.2
      refine ⟨D2, h2, ?_, Nat.le_trans n1 n2⟩
      intro hcl k l hl
      simp only [ana, Bool.or_eq_false_iff] at hcl
      exact m2 hcl.2 k l (m1 hcl.1 k l hl)
  | choice p q ihp ihq =>
      intro E s D h hv
      simp only [ana, List.append_eq_nil_iff] at hv
      simp only [ana, execP]
      by_cases hk : s.pop.1 = 0
      · simp only [hk, if_true]
        obtain ⟨D1, h1, m1, n1⟩ := ihp E s.pop.2 D h.pop hv.1
        refine ⟨D1, h1.weaken ?_, ?_, by simpa [pop_heap] using n1⟩
        · intro x; rw [AEnv.get_join]; exact Prov.le_join_left _ _
        · intro hcl k l hl
          simp only [Bool.or_eq_false_iff] at hcl
          exact m1 hcl.1 k l hl
      · simp only [hk, if_false]
        obtain ⟨D1, h1, m1, n1⟩ := ihq E s.pop.2 D h.pop hv.2
        refine ⟨D1, h1.weaken ?_, ?_, by simpa [pop_heap] using n1⟩
        · intro x; rw [AEnv.get_join]; exact Prov.le_join_right _ _
        · intro hcl k l hl
          simp only [Bool.or_eq_false_iff] at hcl
          exact m1 hcl.2 k l hl
  | loop p ih =>
      intro E s D h hv
      simp only [ana] at hv ⊢
      have hsnd := loopFix_snd (ana tbl p) (3 * E.length + 8) E
      generalize loopFix (ana tbl p) (3 * E.length + 8) E = pr at hv hsnd ⊢
      obtain ⟨Es, r⟩ := pr
      simp only at hv hsnd ⊢
      subst hsnd
      by_cases hst : ((ana tbl p Es).env.le Es && E.le Es) = true
      · simp only [hst, if_true] at hv
        simp only [Bool.and_eq_true] at hst
        simp only [execP]
        have hbody : ∀ s D, Inv n0 D0 h0 D Es s →
            ∃ D' : Region, Inv n0 D0 h0 D' Es (execP callF p s) ∧
              ((ana tbl p Es).clob = false → ∀ k l, D k l → D' k l) ∧
              s.heap.next ≤ (execP callF p s).heap.next := by
          intro s D hs
          obtain ⟨D1, h1, m1, n1⟩ := ih Es s D hs hv
          exact ⟨D1, h1.weaken (AEnv.le_get hst.1), m1, n1⟩
        have h' : Inv n0 D0 h0 D Es s.pop.2 := (h.weaken (AEnv.le_get hst.2)).pop
        obtain ⟨D2, h2, m2, n2⟩ := iter_sound hbody s.pop.1 s.pop.2 D h'
        exact ⟨D2, h2, m2, by simpa [pop_heap] using n2⟩
      · simp [hst] at hv

end

/-! ### the table semantics meets the call specification -/

theorem entryEnv_get_zero (d : FnDef) : (entryEnv d).get 0 = .prim := by
  simp [entryEnv, AEnv.get]

theorem entryEnv_get_succ (d : FnDef) (i : Nat) :
    (entryEnv d).get (i + 1) =
      if i < d.nparams then (if d.writes.contains (i + 1) then Prov.deep else .par (i + 1)) else .prim := by
  simp only [entryEnv, AEnv.get, List.getD_cons_succ]
  by_cases hi : i < d.nparams
  · simp [hi, List.getD_eq_getElem?_getD]
  · simp [hi, List.getD_eq_getElem?_getD]

theorem retOK_sound {D : Region} (anti : ∀ k l, D (k + 1) l → D k l) {c a : Prov} {l : Loc}
    (h : retOK c a = true) (hv : VarOK D a l) : VarOK D c l := by
  cases c with
  | prim => simp only [retOK] at h; exact VarOK.mono anti h hv
  | deep => simp only [retOK] at h; exact VarOK.mono anti h hv
  | fresh k => simp only [retOK] at h; exact VarOK.mono anti h hv
  | par i => simp [VarOK]
  | ext => simp [VarOK]

theorem callFn_spec {tbl : Table} (hok : TableOK tbl) : ∀ fuel, CallSpec tbl (callFn tbl fuel) := by
  intro fuel
  induction fuel with
  | zero =>
      refine ⟨fun fn args h o _ => by simp [callFn], ?_⟩
      intro fn d args h o P _ hP _
      exact ⟨Nat.le_refl _, fun _ _ _ _ => rfl, fun _ l => P l, fun _ l hl => ⟨hP.1 l hl, Or.inr hl⟩,
        fun _ _ hl => hl, fun _ l f l' hl hc => hP.2 l f l' hl hc, fun _ _ l hl => hl, fun l hl => by cases hl⟩
  | succ fuel ih =>
      refine ⟨fun fn args h o ht => by simp [callFn, ht], ?_⟩
      intro fn d args h o P ht hP hwr
      have hchk : checkFn tbl d = true := hok fn d ht
      simp only [checkFn, anaFn, Bool.and_eq_true, List.isEmpty_iff] at hchk
      obtain ⟨⟨⟨hviol, hclob⟩, hret⟩, _⟩ := hchk
      -- the invariant at callee entry: every level of the region is the lent region
      have hinv : Inv h.next P h (fun _ l => P l) (entryEnv d) ⟨initEnv d.nparams args, h, o⟩ := by
        refine ⟨Nat.le_refl _, fun _ _ _ _ => rfl, fun _ l hl => ⟨hP.1 l hl, Or.inr hl⟩, fun _ _ hl => hl,
          fun _ l f l' hl hc => hP.2 l f l' hl hc, ?_⟩
        intro x l hx
        cases x with
        | zero => simp [initEnv] at hx
        | succ i =>
            simp only [initEnv] at hx
            by_cases hi : d.nparams < i + 1
            · simp [hi] at hx
            · simp only [Nat.succ_ne_zero, hi, or_self, if_false, Nat.add_sub_cancel] at hx
              rw [entryEnv_get_succ]
              have hi' : i < d.nparams := by omega
              simp only [hi', if_true]
              by_cases hw : d.writes.contains (i + 1) = true
              · simp only [hw, if_true, VarOK]
                have hlen : i < args.length := by
                  by_cases hl : i < args.length
                  · exact hl
                  · simp [List.getD_eq_getElem?_getD, List.getElem?_eq_none (Nat.le_of_not_lt hl)] at hx
                intro _
                exact hwr (i + 1) (by simpa using hw) (by omega) (by omega) l (by simpa using hx)
              · have hw' : (i + 1 ∈ d.writes) = False := by simpa using hw
                simp [hw', VarOK]
      obtain ⟨D', hinv', hmono, hnext⟩ := execP_sound (ih) d.body (entryEnv d) _ (fun _ l => P l) hinv hviol
      simp only [callFn, ht]
      refine ⟨hnext, ?_, D', hinv'.dom, hinv'.anti, hinv'.step, ?_, ?_⟩
      · intro r f hr hnP; exact hinv'.frame r f hr hnP
      · intro hcl k l hl
        have : (ana tbl d.body (entryEnv d)).clob = false := by
          cases hcb : (ana tbl d.body (entryEnv d)).clob with
          | false => rfl
          | true => simp [hcb, hcl] at hclob
        exact hmono this k l hl
      · intro l hl
        exact retOK_sound hinv'.anti hret (hinv'.var 0 l hl)

/-! ### frame theorem -/

/-- **Frame.**  In an accepted table, calling a function that declares no written parameter changes
no location that was allocated before the call - for every heap, every argument list, every oracle
(branch / loop / unknown-value choices) and every recursion budget. -/
theorem call_frame {tbl : Table} (hok : TableOK tbl) (fuel : Nat) (fn : FnId) (hpure : pureEntry tbl fn = true)
    (args : List Val) (h : Heap) (o : List Nat) :
    h.next ≤ (callFn tbl fuel fn args h o).2.1.next ∧
    ∀ r f, r < h.next → (callFn tbl fuel fn args h o).2.1.cell r f = h.cell r f := by
  simp only [pureEntry] at hpure
  cases ht : tbl fn with
  | none => simp [ht] at hpure
  | some d =>
      simp only [ht, List.isEmpty_iff] at hpure
      have hs := (callFn_spec hok fuel).known fn d args h o (fun _ => False) ht
        ⟨fun _ hf => hf.elim, fun _ _ _ hf _ => hf.elim⟩ (by intro i hi; simp [hpure] at hi)
      exact ⟨hs.1, fun r f hr => hs.2.1 r f hr (fun hf => hf)⟩

/-- the same for a function that writes some parameters: only the region `P` lent for them (closed, and
containing the arguments at the written positions) and new locations can change -/
theorem call_frame_writer {tbl : Table} (hok : TableOK tbl) (fuel : Nat) (fn : FnId) (d : FnDef)
    (ht : tbl fn = some d) (args : List Val) (h : Heap) (o : List Nat) (P : Loc → Prop) (hP : ClosedIn h P)
    (hargs : ∀ i, i ∈ d.writes → 0 < i → i ≤ args.length → ∀ l, args.getD (i - 1) .prim = .ref l → P l) :
    ∀ r f, r < h.next → ¬ P r → (callFn tbl fuel fn args h o).2.1.cell r f = h.cell r f :=
  ((callFn_spec hok fuel).known fn d args h o P ht hP hargs).2.1

end MV.Effects
