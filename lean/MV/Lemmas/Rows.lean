/-
Lemmas for C05, the tabular form (`to_sequence` / `from_sequence`): what each row holds, how the
rows of one (chord, instrument) survive any re-ordering that is sorted by `start`, and how
`sequence_to_score` regroups them.
-/
import MV.Lemmas.TextChord
import MV.Lemmas.Window
import Mathlib.Data.List.Perm.Basic
import Mathlib.Data.List.Forall2

namespace MV.Text
open MV Gen

/-! ### a sorted permutation of a strictly sorted list is that list -/

theorem perm_sorted_eq {α : Type} (key : α → Rat) :
    ∀ (l1 l2 : List α), l1.Perm l2 → l1.Pairwise (fun a b => key a < key b) → l2.Pairwise (fun a b => key a ≤ key b) →
      l1 = l2
  | [], l2, hp, _, _ => by simpa using hp.symm.eq_nil
  | a :: t, l2, hp, h1, h2 => by
      cases l2 with
      | nil => exact absurd hp.eq_nil (by simp)
      | cons b u =>
          have hb : b ∈ a :: t := hp.symm.subset (by simp)
          have hab : b = a := by
            by_contra hne
            have hbt : b ∈ t := by
              rcases List.mem_cons.mp hb with h | h
              · exact absurd h hne
              · exact h
            have hlt : key a < key b := (List.pairwise_cons.mp h1).1 b hbt
            have ha : a ∈ b :: u := hp.subset (by simp)
            have hau : a ∈ u := by
              rcases List.mem_cons.mp ha with h | h
              · exact absurd h.symm hne
              · exact h
            have hle : key b ≤ key a := (List.pairwise_cons.mp h2).1 a hau
            exact absurd hlt (not_lt.mpr hle)
          subst hab
          have := perm_sorted_eq key t u (List.Perm.cons_inv hp) (List.pairwise_cons.mp h1).2 (List.pairwise_cons.mp h2).2
          rw [this]

/-! ### one row -/

/-- the note `sequence_to_score` rebuilds from the row of `n` -/
def dfNote (n : Note) : Note :=
  if n.kind = .r then { kind := .r, val := 0, oct := 0, dur := limitD n.dur }
  else if n.kind = .l then { kind := .l, val := 0, oct := 0, dur := limitD n.dur }
  else { kind := n.kind, val := n.val, oct := n.oct, dur := limitD (limitDenominator 8 n.dur), amp := (pyInt n.amp : Int) }

/-- the header columns of a row -/
def SeqRow.head (r : SeqRow) : Int × Ext × Int × Tonality := (r.elem, r.ext, r.coct, r.ton)

def chordHead (c : Chord) : Int × Ext × Int × Tonality := (c.elem, c.ext.normalize, c.oct, c.ton)

/-- what the rows of one melody look like -/
structure MelRows (c : Chord) (idx : Nat) (inst : String) (m : Melody) (t : Rat) (rs : List SeqRow) : Prop where
  notes : rs.map rowNote = m.map dfNote
  info : ∀ r ∈ rs, r.chordIdx = idx ∧ r.inst = inst ∧ r.head = chordHead c ∧ t ≤ r.start
  strict : rs.Pairwise (fun a b => a.start < b.start)

theorem rowNote_row (c : Chord) (idx : Nat) (inst : String) (n : Note) (t : Rat) :
    rowNote { chordIdx := idx, start := t, elem := c.elem, ext := c.ext.normalize, coct := c.oct, ton := c.ton,
              inst := inst, silence := n.kind == .r, cont := n.kind == .l, kind := n.kind, val := n.val,
              oct := n.oct, amp := n.amp, dur := n.dur } = dfNote n := by
  unfold rowNote dfNote
  by_cases hr : n.kind = .r
  · simp [hr]
  · by_cases hl : n.kind = .l
    · simp [hl]
    · simp [hr, hl]

theorem melodyRows_spec (c : Chord) (idx : Nat) (inst : String) :
    ∀ (m : Melody) (t : Rat) (rs : List SeqRow), (∀ n ∈ m, 0 < n.dur) → melodyRows c idx inst m t = .ok rs →
      MelRows c idx inst m t rs
  | [], t, rs, _, h => by
      simp only [melodyRows] at h
      injection h with h; subst h
      exact ⟨rfl, by simp, List.Pairwise.nil⟩
  | n :: ns, t, rs, hpos, h => by
      simp only [melodyRows, bind, Except.bind] at h
      cases hp : c.toPitch n none with
      | error e => simp [hp] at h
      | ok p =>
          simp only [hp] at h
          cases hrest : melodyRows c idx inst ns (t + n.dur) with
          | error e => simp [hrest] at h
          | ok rest =>
              simp only [hrest, pure, Except.pure] at h
              injection h with h
              subst h
              have ih := melodyRows_spec c idx inst ns (t + n.dur) rest (fun x hx => hpos x (by simp [hx])) hrest
              have hn : 0 < n.dur := hpos n (by simp)
              refine ⟨?_, ?_, ?_⟩
              · simp only [List.map_cons, rowNote_row, ih.notes]
              · intro r hr
                rcases List.mem_cons.mp hr with rfl | hr
                · exact ⟨rfl, rfl, rfl, le_refl _⟩
                · obtain ⟨a, b, d, e⟩ := ih.info r hr
                  exact ⟨a, b, d, by linarith⟩
              · refine List.pairwise_cons.mpr ⟨?_, ih.strict⟩
                intro r hr
                have := (ih.info r hr).2.2.2
                show t < r.start
                linarith

/-! ### the rows of a chord: per part -/

/-- the rows of the parts of one chord, looked at through a filter on the instrument -/
theorem chordRows_spec (c : Chord) (idx : Nat) (t : Rat) :
    ∀ (ps : List (String × Melody)) (rs : List SeqRow), (∀ p ∈ ps, ∀ n ∈ p.2, 0 < n.dur) → (ps.map Prod.fst).Nodup →
      chordRows c idx t ps = .ok rs →
      (∀ r ∈ rs, r.chordIdx = idx ∧ r.head = chordHead c ∧ ∃ p ∈ ps, p.1 = r.inst) ∧
      (∀ p ∈ ps, ((rs.filter (fun r => r.inst == p.1)).map rowNote = p.2.map dfNote) ∧
         (rs.filter (fun r => r.inst == p.1)).Pairwise (fun a b => a.start < b.start))
  | [], rs, _, _, h => by
      simp only [chordRows] at h
      injection h with h; subst h
      simp
  | (inst, m) :: ps, rs, hpos, hnd, h => by
      simp only [chordRows, bind, Except.bind] at h
      cases ha : melodyRows c idx inst m t with
      | error e => simp [ha] at h
      | ok a =>
          simp only [ha] at h
          cases hb : chordRows c idx t ps with
          | error e => simp [hb] at h
          | ok b =>
              simp only [hb, pure, Except.pure] at h
              injection h with h
              subst h
              have hm := melodyRows_spec c idx inst m t a (hpos (inst, m) (by simp)) ha
              have hnd' : (ps.map Prod.fst).Nodup := (List.nodup_cons.mp (by simpa using hnd)).2
              have hfresh : inst ∉ ps.map Prod.fst := (List.nodup_cons.mp (by simpa using hnd)).1
              obtain ⟨ih1, ih2⟩ := chordRows_spec c idx t ps b (fun p hp => hpos p (by simp [hp])) hnd' hb
              -- rows of `a` carry `inst`, rows of `b` carry another name
              have ha_inst : ∀ r ∈ a, r.inst = inst := fun r hr => (hm.info r hr).2.1
              have hb_inst : ∀ r ∈ b, r.inst ≠ inst := by
                intro r hr hri
                obtain ⟨p, hp, hpi⟩ := (ih1 r hr).2.2
                exact hfresh (List.mem_map.mpr ⟨p, hp, by rw [hpi, hri]⟩)
              refine ⟨?_, ?_⟩
              · intro r hr
                rcases List.mem_append.mp hr with hr | hr
                · obtain ⟨x, y, z, _⟩ := hm.info r hr
                  exact ⟨x, z, (inst, m), by simp, y.symm⟩
                · obtain ⟨x, z, p, hp, hpi⟩ := ih1 r hr
                  exact ⟨x, z, p, by simp [hp], hpi⟩
              · intro p hp
                rcases List.mem_cons.mp hp with rfl | hp
                · have fa : a.filter (fun r => r.inst == inst) = a :=
                    List.filter_eq_self.mpr (fun r hr => by simp [ha_inst r hr])
                  have fb : b.filter (fun r => r.inst == inst) = [] :=
                    List.filter_eq_nil_iff.mpr (fun r hr => by simpa using hb_inst r hr)
                  simp only [List.filter_append, fa, fb, List.append_nil]
                  exact ⟨hm.notes, hm.strict⟩
                · have hpne : p.1 ≠ inst := by
                    intro hh
                    exact hfresh (List.mem_map.mpr ⟨p, hp, hh⟩)
                  have fa : a.filter (fun r => r.inst == p.1) = [] :=
                    List.filter_eq_nil_iff.mpr (fun r hr => by
                      have := ha_inst r hr
                      simp [this, Ne.symm hpne])
                  simp only [List.filter_append, fa, List.nil_append]
                  exact ih2 p hp

/-! ### the rows of a score -/

/-- what the rows of a score look like, chord indices starting at `off`: every row belongs to a part of
its chord and carries the chord's header; the rows of one (chord, instrument) are the part's notes in
order, with strictly increasing `start` -/
structure Groups (s : Score) (off : Nat) (rows : List SeqRow) : Prop where
  info : ∀ r ∈ rows, off ≤ r.chordIdx ∧ ∃ c, s[r.chordIdx - off]? = some c ∧ r.head = chordHead c ∧ ∃ p ∈ c.parts, p.1 = r.inst
  part : ∀ k c, s[k]? = some c → ∀ p ∈ c.parts,
      ((rows.filter (fun r => r.chordIdx == off + k && r.inst == p.1)).map rowNote = p.2.map dfNote) ∧
      (rows.filter (fun r => r.chordIdx == off + k && r.inst == p.1)).Pairwise (fun a b => a.start < b.start)

/-- positive durations and distinct part names (the sub-domain's structural part) -/
def RowsDomain (s : Score) : Prop :=
  ∀ c ∈ s, (∀ p ∈ c.parts, ∀ n ∈ p.2, 0 < n.dur) ∧ (c.parts.map Prod.fst).Nodup

theorem scoreRows_spec : ∀ (s : Score) (off : Nat) (t : Rat) (rows : List SeqRow), RowsDomain s →
    scoreRows s off t = .ok rows → Groups s off rows
  | [], off, t, rows, _, h => by
      simp only [scoreRows] at h
      injection h with h; subst h
      exact ⟨by simp, by simp⟩
  | c :: cs, off, t, rows, hdom, h => by
      simp only [scoreRows, bind, Except.bind] at h
      cases ha : chordRows c off t c.parts with
      | error e => simp [ha] at h
      | ok a =>
          simp only [ha] at h
          cases hb : scoreRows cs (off + 1) (t + Chord.duration c) with
          | error e => simp [hb] at h
          | ok b =>
              simp only [hb, pure, Except.pure] at h
              injection h with h
              subst h
              obtain ⟨hpos, hnd⟩ := hdom c (by simp)
              obtain ⟨a1, a2⟩ := chordRows_spec c off t c.parts a hpos hnd ha
              have ih := scoreRows_spec cs (off + 1) (t + Chord.duration c) b (fun x hx => hdom x (by simp [hx])) hb
              have hb_idx : ∀ r ∈ b, off + 1 ≤ r.chordIdx := fun r hr => (ih.info r hr).1
              refine ⟨?_, ?_⟩
              · intro r hr
                rcases List.mem_append.mp hr with hr | hr
                · obtain ⟨x, y, z⟩ := a1 r hr
                  refine ⟨by omega, c, ?_, y, z⟩
                  simp [x]
                · obtain ⟨x, c', hc', y, z⟩ := ih.info r hr
                  refine ⟨by omega, c', ?_, y, z⟩
                  have : r.chordIdx - off = (r.chordIdx - (off + 1)) + 1 := by omega
                  rw [this, List.getElem?_cons_succ]
                  exact hc'
              · intro k c' hk p hp
                cases k with
                | zero =>
                    have hc : c' = c := by simpa using hk.symm
                    subst hc
                    have fa : a.filter (fun r => r.chordIdx == off + 0 && r.inst == p.1) = a.filter (fun r => r.inst == p.1) := by
                      apply List.filter_congr
                      intro r hr
                      simp [(a1 r hr).1]
                    have fb : b.filter (fun r => r.chordIdx == off + 0 && r.inst == p.1) = [] := by
                      apply List.filter_eq_nil_iff.mpr
                      intro r hr
                      have := hb_idx r hr
                      have hne : r.chordIdx ≠ off := by omega
                      simp [hne]
                    simp only [List.filter_append, fa, fb, List.append_nil]
                    exact a2 p hp
                | succ k =>
                    have hk' : cs[k]? = some c' := by simpa using hk
                    have fa : a.filter (fun r => r.chordIdx == off + (k + 1) && r.inst == p.1) = [] := by
                      apply List.filter_eq_nil_iff.mpr
                      intro r hr
                      have := (a1 r hr).1
                      have hne : r.chordIdx ≠ off + (k + 1) := by omega
                      simp [hne]
                    have fb : b.filter (fun r => r.chordIdx == off + (k + 1) && r.inst == p.1)
                        = b.filter (fun r => r.chordIdx == off + 1 + k && r.inst == p.1) := by
                      apply List.filter_congr
                      intro r _
                      have : off + (k + 1) = off + 1 + k := by omega
                      rw [this]
                    simp only [List.filter_append, fa, fb, List.nil_append]
                    exact ih.part k c' hk' p hp

/-- any re-ordering of the rows that is sorted by `start` keeps every (chord, instrument) group as it is
(this is all the model needs from pandas' `sort_values`: the result is a permutation sorted by the key;
stability is not assumed) -/
theorem groups_perm (s : Score) (rows π : List SeqRow) (h : Groups s 0 rows) (hp : π.Perm rows)
    (hs : π.Pairwise (fun a b => a.start ≤ b.start)) : Groups s 0 π := by
  refine ⟨fun r hr => h.info r (hp.subset hr), ?_⟩
  intro k c hk p hpc
  obtain ⟨h1, h2⟩ := h.part k c hk p hpc
  have hperm := List.Perm.filter (fun r : SeqRow => r.chordIdx == 0 + k && r.inst == p.1) hp
  have hsorted := List.Pairwise.filter (fun r : SeqRow => r.chordIdx == 0 + k && r.inst == p.1) hs
  have := perm_sorted_eq SeqRow.start _ _ hperm.symm h2 hsorted
  rw [← this]
  exact ⟨h1, h2⟩

/-! ### regrouping (`sequence_to_score`) -/

theorem dfNote_kind (n : Note) : (dfNote n).kind = n.kind := by
  unfold dfNote
  by_cases hr : n.kind = .r
  · simp [hr]
  · by_cases hl : n.kind = .l <;> simp [hr, hl]

theorem copy_dfNote (n : Note) : copy (dfNote n) = dfNote n := by
  unfold dfNote
  by_cases hr : n.kind = .r
  · simp only [hr, ↓reduceIte]
    exact copy_rest (Or.inl rfl) (limitD_den _) []
  · by_cases hl : n.kind = .l
    · simp only [hl, ↓reduceIte]
      have : ¬ (Kind.l = Kind.r) := by decide
      simp only [this, ↓reduceIte]
      exact copy_rest (Or.inr rfl) (limitD_den _) []
    · simp only [hr, hl, ↓reduceIte]
      exact copy_id ⟨hr, hl⟩ (limitD_den _)

theorem copyMelody_df (m : Melody) : copyMelody (m.map dfNote) = m.map dfNote := by
  unfold copyMelody
  rw [List.map_map]
  apply List.map_congr_left
  intro n _
  exact copy_dfNote n

theorem convertToDrum_df (c : Chord) (n : Note) (hk : n.kind = .d ∨ n.kind = .r ∨ n.kind = .l) :
    convertToDrum c (dfNote n) = .ok (dfNote n) := by
  unfold convertToDrum
  have : ((dfNote n).kind = .d || (dfNote n).kind = .r || (dfNote n).kind = .l) = true := by
    rw [dfNote_kind]; rcases hk with h | h | h <;> simp [h]
  simp only [this, ↓reduceIte, copy_dfNote]

theorem drumMelody_df (c : Chord) (m : Melody) (hne : m ≠ []) (hk : DrumKinds m) :
    drumMelody c (m.map dfNote) = .ok (m.map dfNote) := by
  cases m with
  | nil => exact absurd rfl hne
  | cons x xs =>
      have hx := convertToDrum_df c x (hk x (by simp))
      have hxs : (xs.map dfNote).mapM (convertToDrum c) = .ok (xs.map dfNote) := by
        have := mapM_ok (convertToDrum c) id (xs.map dfNote) (by
          intro y hy
          obtain ⟨z, hz, rfl⟩ := List.mem_map.mp hy
          exact convertToDrum_df c z (hk z (by simp [hz])))
        simpa using this
      simp only [List.map_cons, drumMelody, hx, hxs, bind, Except.bind, pure, Except.pure, copy_dfNote]

/-- parts the call leaves as they are -/
theorem preparse_fixed (c : Chord) (ps acc : List (String × Melody))
    (h : ∀ p ∈ ps, ∃ drums, partKey p.1 = .ok (p.1, drums) ∧ (drums = true → drumMelody c p.2 = .ok p.2))
    (hnd : ((acc ++ ps).map Prod.fst).Nodup) :
    preparse c ps acc = .ok (acc ++ ps) := by
  induction ps generalizing acc with
  | nil => simp [preparse]
  | cons p ps ih =>
      obtain ⟨k, m⟩ := p
      obtain ⟨drums, hkey, hdr⟩ := h (k, m) (by simp)
      have hfresh : ∀ q ∈ acc, q.1 ≠ k := by
        intro q hq hqk
        have hnd' := hnd
        simp only [List.map_append, List.map_cons] at hnd'
        have := (List.nodup_append.mp hnd').2.2 q.1 (List.mem_map_of_mem hq) k (by simp)
        exact this hqk
      have hnd2 : (((acc ++ [(k, m)]) ++ ps).map Prod.fst).Nodup := by simpa [List.map_append] using hnd
      have := ih (acc ++ [(k, m)]) (fun q hq => h q (by simp [hq])) hnd2
      simp only [preparse, hkey, bind, Except.bind]
      by_cases hd : drums = true
      · simp only [hd, ↓reduceIte, hdr hd, dictSet_fresh acc k _ hfresh]
        rw [this]; simp
      · simp only [hd, Bool.false_eq_true, ↓reduceIte, pure, Except.pure, dictSet_fresh acc k _ hfresh]
        rw [this]; simp

/-! `groupby(..., sort=False)`: first appearances -/

theorem firstSeen_go_mem {α κ : Type} [DecidableEq κ] (key : α → κ) (l : List α) (acc : List κ) (x : κ) :
    x ∈ l.foldl (fun acc a => if acc.contains (key a) then acc else acc ++ [key a]) acc ↔
      x ∈ acc ∨ ∃ a ∈ l, key a = x := by
  induction l generalizing acc with
  | nil => simp
  | cons a l ih =>
      simp only [List.foldl_cons]
      by_cases hc : acc.contains (key a) = true
      · simp only [hc, ↓reduceIte, ih]
        have hmem : key a ∈ acc := by simpa using hc
        constructor
        · rintro (h | ⟨b, hb, hbx⟩)
          · exact Or.inl h
          · exact Or.inr ⟨b, by simp [hb], hbx⟩
        · rintro (h | ⟨b, hb, hbx⟩)
          · exact Or.inl h
          · rcases List.mem_cons.mp hb with rfl | hb
            · exact Or.inl (hbx ▸ hmem)
            · exact Or.inr ⟨b, hb, hbx⟩
      · simp only [hc, Bool.false_eq_true, ↓reduceIte, ih, List.mem_append, List.mem_singleton]
        constructor
        · rintro ((h | h) | ⟨b, hb, hbx⟩)
          · exact Or.inl h
          · exact Or.inr ⟨a, by simp, h.symm⟩
          · exact Or.inr ⟨b, by simp [hb], hbx⟩
        · rintro (h | ⟨b, hb, hbx⟩)
          · exact Or.inl (Or.inl h)
          · rcases List.mem_cons.mp hb with rfl | hb
            · exact Or.inl (Or.inr hbx.symm)
            · exact Or.inr ⟨b, hb, hbx⟩

theorem firstSeen_go_nodup {α κ : Type} [DecidableEq κ] (key : α → κ) (l : List α) (acc : List κ) (h : acc.Nodup) :
    (l.foldl (fun acc a => if acc.contains (key a) then acc else acc ++ [key a]) acc).Nodup := by
  induction l generalizing acc with
  | nil => simpa
  | cons a l ih =>
      simp only [List.foldl_cons]
      by_cases hc : acc.contains (key a) = true
      · simp only [hc, ↓reduceIte]; exact ih acc h
      · simp only [hc, Bool.false_eq_true, ↓reduceIte]
        apply ih
        have hnm : key a ∉ acc := by simpa using hc
        exact List.nodup_append.mpr ⟨h, by simp, by
          intro x hx y hy hxy
          simp only [List.mem_singleton] at hy
          subst hy; subst hxy; exact hnm hx⟩

theorem mem_firstSeen {α κ : Type} [DecidableEq κ] (key : α → κ) (l : List α) (x : κ) :
    x ∈ firstSeen key l ↔ ∃ a ∈ l, key a = x := by
  unfold firstSeen
  rw [firstSeen_go_mem]
  simp

theorem nodup_firstSeen {α κ : Type} [DecidableEq κ] (key : α → κ) (l : List α) : (firstSeen key l).Nodup :=
  firstSeen_go_nodup key l [] List.nodup_nil

/-- the sub-domain's requirements on a chord (besides positive durations): at least one part, no empty
part, part names the call keeps (canonical `name__index`, all different), drums parts of drum notes -/
structure DFChordOK (c : Chord) : Prop where
  parts_ne : c.parts ≠ []
  mel_ne : ∀ p ∈ c.parts, p.2 ≠ []
  keys : ∀ p ∈ c.parts, ∃ drums, partKey p.1 = .ok (p.1, drums) ∧ (drums = true → DrumKinds p.2)
  names : (c.parts.map Prod.fst).Nodup

/-- the parts as the table can hold them -/
def dfParts (c : Chord) : List (String × Melody) := c.parts.map (fun p => (p.1, p.2.map dfNote))

theorem groupChord_spec (s : Score) (π : List SeqRow) (hg : Groups s 0 π) (k : Nat) (c : Chord) (hk : s[k]? = some c)
    (hc : DFChordOK c) :
    ∃ ps, groupChord (π.filter (fun r => (r.chordIdx : Int) == (k : Int))) =
        .ok { elem := c.elem, ext := c.ext.normalize, ton := c.ton, oct := c.oct, parts := ps } ∧ ps.Perm (dfParts c) := by
  -- the group and what its rows hold
  have hga : ∀ r ∈ π.filter (fun r => (r.chordIdx : Int) == (k : Int)),
      r.head = chordHead c ∧ ∃ p ∈ c.parts, p.1 = r.inst := by
    intro r hr
    obtain ⟨hrπ, hrk⟩ := List.mem_filter.mp hr
    have hrk' : r.chordIdx = k := by simpa using hrk
    obtain ⟨_, c', hc', hh, hp⟩ := hg.info r hrπ
    have : c' = c := by
      rw [hrk', Nat.sub_zero, hk] at hc'
      exact (Option.some.inj hc').symm
    subst this
    exact ⟨hh, hp⟩
  have hgb : ∀ p ∈ c.parts, ((π.filter (fun r => (r.chordIdx : Int) == (k : Int))).filter (fun r => r.inst == p.1)).map rowNote
      = p.2.map dfNote := by
    intro p hp
    have := (hg.part k c hk p hp).1
    rw [List.filter_filter]
    have hf : π.filter (fun r => r.inst == p.1 && (r.chordIdx : Int) == (k : Int))
        = π.filter (fun r => r.chordIdx == 0 + k && r.inst == p.1) := by
      apply List.filter_congr
      intro r _
      rw [Bool.eq_iff_iff]
      simp only [Bool.and_eq_true, beq_iff_eq, Nat.cast_inj, zero_add]
      constructor <;> rintro ⟨a, b⟩ <;> exact ⟨b, a⟩
    rw [hf]; exact this
  -- the group is not empty
  obtain ⟨p0, hp0⟩ := List.exists_mem_of_ne_nil _ hc.parts_ne
  have hne : π.filter (fun r => (r.chordIdx : Int) == (k : Int)) ≠ [] := by
    intro hnil
    have := hgb p0 hp0
    rw [hnil] at this
    simp only [List.filter_nil, List.map_nil] at this
    exact hc.mel_ne p0 hp0 (List.map_eq_nil_iff.mp this.symm)
  -- instruments in order of first appearance = the part names, permuted
  have hinst_mem : ∀ i, i ∈ firstSeen (·.inst) (π.filter (fun r => (r.chordIdx : Int) == (k : Int))) ↔ i ∈ c.parts.map Prod.fst := by
    intro i
    rw [mem_firstSeen]
    constructor
    · rintro ⟨r, hr, rfl⟩
      obtain ⟨_, p, hp, hpi⟩ := hga r hr
      exact List.mem_map.mpr ⟨p, hp, hpi⟩
    · intro hi
      obtain ⟨p, hp, rfl⟩ := List.mem_map.mp hi
      have h1 := hgb p hp
      have hne' : (π.filter (fun r => (r.chordIdx : Int) == (k : Int))).filter (fun r => r.inst == p.1) ≠ [] := by
        intro hnil
        rw [hnil] at h1
        simp only [List.map_nil] at h1
        exact hc.mel_ne p hp (List.map_eq_nil_iff.mp h1.symm)
      obtain ⟨r, hr⟩ := List.exists_mem_of_ne_nil _ hne'
      obtain ⟨hr1, hr2⟩ := List.mem_filter.mp hr
      exact ⟨r, hr1, by simpa using hr2⟩
  have hperm : (firstSeen (·.inst) (π.filter (fun r => (r.chordIdx : Int) == (k : Int)))).Perm (c.parts.map Prod.fst) :=
    (List.perm_ext_iff_of_nodup (nodup_firstSeen _ _) hc.names).mpr hinst_mem
  -- the parts
  generalize hgdef : π.filter (fun r => (r.chordIdx : Int) == (k : Int)) = g at *
  let φ : String → String × Melody := fun i => (i, copyMelody ((g.filter (fun r => r.inst == i)).map rowNote))
  have hφ : (c.parts.map Prod.fst).map φ = dfParts c := by
    unfold dfParts
    rw [List.map_map]
    apply List.map_congr_left
    intro p hp
    simp only [Function.comp, φ, hgb p hp, copyMelody_df]
  have hparts : ((firstSeen (·.inst) g).map φ).Perm (dfParts c) := by
    rw [← hφ]; exact hperm.map φ
  have hnames : (((firstSeen (·.inst) g).map φ).map Prod.fst).Nodup := by
    rw [List.map_map]
    have : (Prod.fst ∘ φ) = id := by funext i; rfl
    rw [this, List.map_id]
    exact nodup_firstSeen _ _
  cases g with
  | nil => exact absurd rfl hne
  | cons r0 rest =>
      obtain ⟨hh0, _⟩ := hga r0 (by simp)
      have he : r0.elem = c.elem := by have := congrArg (·.1) hh0; simpa [SeqRow.head, chordHead] using this
      have hx : r0.ext = c.ext.normalize := by have := congrArg (·.2.1) hh0; simpa [SeqRow.head, chordHead] using this
      have ho : r0.coct = c.oct := by have := congrArg (·.2.2.1) hh0; simpa [SeqRow.head, chordHead] using this
      have ht : r0.ton = c.ton := by have := congrArg (·.2.2.2) hh0; simpa [SeqRow.head, chordHead] using this
      refine ⟨(firstSeen (·.inst) (r0 :: rest)).map φ, ?_, hparts⟩
      have hpre := preparse_fixed ({ elem := r0.elem, ext := r0.ext.normalize, ton := r0.ton, oct := r0.coct } : Chord)
        ((firstSeen (·.inst) (r0 :: rest)).map φ) [] (by
          intro q hq
          have hq' : q ∈ dfParts c := hparts.subset hq
          obtain ⟨p, hp, rfl⟩ := List.mem_map.mp hq'
          obtain ⟨drums, hk1, hk2⟩ := hc.keys p hp
          exact ⟨drums, hk1, fun hd => drumMelody_df _ p.2 (hc.mel_ne p hp) (hk2 hd)⟩) (by simpa using hnames)
      simp only [groupChord, bind, Except.bind]
      simp only [φ] at hpre
      rw [hpre]
      simp only [List.nil_append, pure, Except.pure, copyHead, tonCopy_id, he, hx, ho, ht, Eq.normalize_idem]
      rfl

/-- a family of results along the indices of a list -/
theorem mapM_range'_forall₂ {α β : Type} (R : α → β → Prop) (F : Int → Res β) :
    ∀ (s : List α) (off : Nat), (∀ k c, s[k]? = some c → ∃ b, F ((off + k : Nat) : Int) = .ok b ∧ R c b) →
      ∃ bs, ((List.range' off s.length).map Int.ofNat).mapM F = .ok bs ∧ List.Forall₂ R s bs
  | [], _, _ => ⟨[], rfl, List.Forall₂.nil⟩
  | c :: cs, off, h => by
      obtain ⟨b, hb, hr⟩ := h 0 c rfl
      obtain ⟨bs, hbs, hrs⟩ := mapM_range'_forall₂ R F cs (off + 1) (by
        intro k c' hk
        have := h (k + 1) c' (by simpa using hk)
        have he : off + (k + 1) = off + 1 + k := by omega
        rwa [he] at this)
      refine ⟨b :: bs, ?_, List.Forall₂.cons hr hrs⟩
      simp only [List.length_cons, List.range'_succ, List.map_cons, List.mapM_cons, bind, Except.bind]
      have hb' : F (Int.ofNat off) = .ok b := by simpa using hb
      rw [hb', hbs]
      rfl

theorem asc_ext (l1 l2 : List Int) (h1 : Asc l1) (h2 : Asc l2) (h : ∀ y, y ∈ l1 ↔ y ∈ l2) : l1 = l2 := by
  have n1 : l1.Nodup := h1.imp (fun hab => ne_of_lt hab)
  have n2 : l2.Nodup := h2.imp (fun hab => ne_of_lt hab)
  have hp : l1.Perm l2 := (List.perm_ext_iff_of_nodup n1 n2).mpr h
  exact perm_sorted_eq (fun x : Int => (x : Rat)) l1 l2 hp
    (h1.imp (fun hab => by exact_mod_cast hab)) (h2.imp (fun hab => by exact_mod_cast le_of_lt hab))

/-- `groupby('chord_idx')`: the sorted distinct indices are `0 … n-1` (every chord has a row) -/
theorem idxs_spec (s : Score) (π : List SeqRow) (hg : Groups s 0 π) (hok : ∀ c ∈ s, DFChordOK c) :
    sortedDedup (π.map (fun r => (r.chordIdx : Int))) = (List.range' 0 s.length).map Int.ofNat := by
  apply asc_ext
  · exact dedupAdj_asc _ (sortInts_sorted _)
  · exact (List.pairwise_lt_range' (s := 0) (n := s.length)).map _ (fun a b hab => Int.ofNat_lt.mpr hab)
  · intro y
    rw [mem_sortedDedup]
    simp only [List.mem_map, List.mem_range'_1, Nat.zero_le, zero_add, true_and]
    constructor
    · rintro ⟨r, hr, rfl⟩
      obtain ⟨_, c, hc, _⟩ := hg.info r hr
      have : r.chordIdx < s.length := by
        rw [Nat.sub_zero] at hc
        exact (List.getElem?_eq_some_iff.mp hc).1
      exact ⟨r.chordIdx, this, rfl⟩
    · rintro ⟨k, hk, rfl⟩
      have hkc : s[k]? = some s[k] := List.getElem?_eq_getElem hk
      have hc := hok s[k] (List.getElem_mem hk)
      obtain ⟨p0, hp0⟩ := List.exists_mem_of_ne_nil _ hc.parts_ne
      have h1 := (hg.part k s[k] hkc p0 hp0).1
      have hne : π.filter (fun r => r.chordIdx == 0 + k && r.inst == p0.1) ≠ [] := by
        intro hnil
        rw [hnil] at h1
        simp only [List.map_nil] at h1
        exact hc.mel_ne p0 hp0 (List.map_eq_nil_iff.mp h1.symm)
      obtain ⟨r, hr⟩ := List.exists_mem_of_ne_nil _ hne
      obtain ⟨hr1, hr2⟩ := List.mem_filter.mp hr
      have : r.chordIdx = k := by
        simp only [zero_add, Bool.and_eq_true, beq_iff_eq] at hr2
        exact hr2.1
      exact ⟨r, hr1, by simp [this]⟩

/-- what comes back from the table, chord by chord -/
def DFSame (c c' : Chord) : Prop :=
  c'.elem = c.elem ∧ c'.ext = c.ext.normalize ∧ c'.ton = c.ton ∧ c'.oct = c.oct ∧ c'.parts.Perm (dfParts c)

/-- `from_sequence` on *any* re-ordering of the rows of `to_sequence` that is sorted by `start` -/
theorem fromRows_spec (s : Score) (rows π : List SeqRow) (hdom : RowsDomain s) (hok : ∀ c ∈ s, DFChordOK c)
    (hrows : scoreRows s 0 0 = .ok rows) (hp : π.Perm rows) (hs : π.Pairwise (fun a b => a.start ≤ b.start)) :
    ∃ s', fromRows π = .ok s' ∧ List.Forall₂ DFSame s s' := by
  have hg := groups_perm s rows π (scoreRows_spec s 0 0 rows hdom hrows) hp hs
  unfold fromRows
  simp only [idxs_spec s π hg hok]
  apply mapM_range'_forall₂ DFSame (fun i => groupChord (π.filter (fun r => (r.chordIdx : Int) == i))) s 0
  intro k c hk
  obtain ⟨ps, h1, h2⟩ := groupChord_spec s π hg k c hk (hok c (List.mem_of_getElem? hk))
  refine ⟨{ elem := c.elem, ext := c.ext.normalize, ton := c.ton, oct := c.oct, parts := ps }, ?_, rfl, rfl, rfl, rfl, h2⟩
  simpa using h1

end MV.Text
