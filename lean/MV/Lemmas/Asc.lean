/-
Ascending integer lists: filters are prefixes/suffixes, counting below an entry (used by C09, C14).
-/
import MV.Model.Rel
namespace MV

abbrev Asc (L : List Int) : Prop := L.Pairwise (· < ·)

theorem asc_filter_ge (L : List Int) (h : Asc L) (p : Int) :
    L.filter (fun y => decide (p ≤ y)) = L.drop (L.filter (fun y => decide (y < p))).length := by
  induction L with
  | nil => simp
  | cons a t ih =>
    have ht : Asc t := (List.pairwise_cons.mp h).2
    have ha : ∀ b ∈ t, a < b := (List.pairwise_cons.mp h).1
    by_cases hap : a < p
    · have : ¬ p ≤ a := by omega
      simp only [List.filter_cons, this, decide_false, hap, decide_true, if_true, List.length_cons, List.drop_succ_cons]
      exact ih ht
    · have hpa : p ≤ a := by omega
      have hnil : t.filter (fun y => decide (y < p)) = [] := by
        apply List.filter_eq_nil_iff.mpr
        intro y hy; have := ha y hy; simp; omega
      have hall : t.filter (fun y => decide (p ≤ y)) = t := by
        apply List.filter_eq_self.mpr
        intro y hy; have := ha y hy; simp; omega
      simp [List.filter_cons, hap, hpa, hnil, hall]

theorem asc_filter_le (L : List Int) (h : Asc L) (p : Int) :
    L.filter (fun y => decide (y ≤ p)) = L.take (L.filter (fun y => decide (y ≤ p))).length := by
  induction L with
  | nil => simp
  | cons a t ih =>
    have ht : Asc t := (List.pairwise_cons.mp h).2
    have ha : ∀ b ∈ t, a < b := (List.pairwise_cons.mp h).1
    by_cases hap : a ≤ p
    · simp only [List.filter_cons, hap, decide_true, if_true, List.length_cons, List.take_succ_cons]
      congr 1
      exact ih ht
    · have hnil : t.filter (fun y => decide (y ≤ p)) = [] := by
        apply List.filter_eq_nil_iff.mpr
        intro y hy; have := ha y hy; simp; omega
      simp [List.filter_cons, hap, hnil]

/-- number of elements below the `i`-th entry of an ascending list is `i` -/
theorem asc_count_lt (L : List Int) (h : Asc L) (i : Nat) (hi : i < L.length) :
    (L.filter (fun y => decide (y < L[i]))).length = i := by
  induction L generalizing i with
  | nil => simp at hi
  | cons a t ih =>
    have ht : Asc t := (List.pairwise_cons.mp h).2
    have ha : ∀ b ∈ t, a < b := (List.pairwise_cons.mp h).1
    cases i with
    | zero =>
      simp only [List.getElem_cons_zero]
      have : ∀ y ∈ (a :: t), ¬ (y < a) := by
        intro y hy
        rcases List.mem_cons.mp hy with rfl | hy
        · omega
        · have := ha y hy; omega
      rw [List.filter_eq_nil_iff.mpr (by intro y hy; simpa using this y hy)]
      rfl
    | succ j =>
      have hj : j < t.length := by simpa using hi
      have hlt : a < t[j] := ha _ (List.getElem_mem hj)
      simp only [List.getElem_cons_succ, List.filter_cons, hlt, decide_true, if_true, List.length_cons]
      rw [ih ht j hj]

theorem asc_count_le (L : List Int) (h : Asc L) (i : Nat) (hi : i < L.length) :
    (L.filter (fun y => decide (y ≤ L[i]))).length = i + 1 := by
  induction L generalizing i with
  | nil => simp at hi
  | cons a t ih =>
    have ht : Asc t := (List.pairwise_cons.mp h).2
    have ha : ∀ b ∈ t, a < b := (List.pairwise_cons.mp h).1
    cases i with
    | zero =>
      simp only [List.getElem_cons_zero]
      have hnil : t.filter (fun y => decide (y ≤ a)) = [] := by
        apply List.filter_eq_nil_iff.mpr
        intro y hy; have := ha y hy; simp; omega
      simp [List.filter_cons, hnil]
    | succ j =>
      have hj : j < t.length := by simpa using hi
      have hlt : a ≤ t[j] := by have := ha _ (List.getElem_mem hj); omega
      simp only [List.getElem_cons_succ, List.filter_cons, hlt, decide_true, if_true, List.length_cons]
      rw [ih ht j hj]

theorem count_split (L : List Int) (p q : Int → Bool) (hpq : ∀ y, p y = true → q y = true) :
    (L.filter q).length = (L.filter p).length + (L.filter (fun y => q y && !p y)).length := by
  induction L with
  | nil => simp
  | cons a t ih =>
    simp only [List.filter_cons]
    cases hp : p a <;> cases hq : q a <;> simp_all <;> omega

theorem asc_count_eq (L : List Int) (h : Asc L) (x : Int) :
    (L.filter (fun y => decide (y = x))).length = if x ∈ L then 1 else 0 := by
  induction L with
  | nil => simp
  | cons a t ih =>
    have ht := (List.pairwise_cons.mp h).2
    have ha : ∀ b ∈ t, a < b := (List.pairwise_cons.mp h).1
    have := ih ht
    by_cases hax : a = x
    · subst hax
      have hn : a ∉ t := fun hm => by have := ha a hm; omega
      simp only [hn, if_false] at this
      simp [List.filter_cons, this]
    · have hx : (x ∈ a :: t) ↔ x ∈ t := by
        simp only [List.mem_cons]
        constructor
        · rintro (h | h)
          · exact absurd h.symm hax
          · exact h
        · exact Or.inr
      simp only [List.filter_cons, hax, decide_false, hx]
      simpa using this

/-- in an ascending list the entries `≤ p` are those `< p` plus `p` itself if present -/
theorem asc_count_le_split (L : List Int) (h : Asc L) (p : Int) :
    (L.filter (fun y => decide (y ≤ p))).length
      = (L.filter (fun y => decide (y < p))).length + (if p ∈ L then 1 else 0) := by
  rw [count_split L (fun y => decide (y < p)) (fun y => decide (y ≤ p)) (by intro y; simp; omega)]
  congr 1
  rw [← asc_count_eq L h p]
  congr 1
  apply List.filter_congr
  intro y _
  by_cases hy : y = p
  · subst hy; simp
  · by_cases h1 : y < p
    · have : y ≤ p := by omega
      simp [hy, h1, this]
    · have : ¬ y ≤ p := by omega
      simp [hy, h1, this]

/-- what a successful `pyIndex` returns -/
theorem pyIndex_ok {l : List α} {i : Int} {x : α} (h : pyIndex l i = .ok x) :
    ∃ j : Nat, ∃ hj : j < l.length, l[j] = x ∧ (j : Int) = (if i < 0 then i + l.length else i) := by
  unfold pyIndex at h
  dsimp only at h
  generalize hj : (if i < 0 then i + (l.length:Int) else i) = j at h ⊢
  by_cases hb : j < 0 ∨ j ≥ l.length
  · simp [hb] at h
  · simp only [hb, if_false] at h
    have hlt : j.toNat < l.length := by omega
    rw [List.getElem?_eq_getElem hlt] at h
    simp only [Except.ok.injEq] at h
    exact ⟨_, hlt, h, by omega⟩

theorem pyIndex_err {l : List α} {i : Int} :
    (¬ (0 ≤ (if i < 0 then i + (l.length : Int) else i) ∧ (if i < 0 then i + (l.length : Int) else i) < l.length))
      → pyIndex l i = .error .index := by
  intro h
  unfold pyIndex
  dsimp only
  generalize hj : (if i < 0 then i + (l.length:Int) else i) = j at h ⊢
  have : j < 0 ∨ j ≥ l.length := by omega
  simp [this]


end MV
