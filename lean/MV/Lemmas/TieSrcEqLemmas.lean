/-
Helper lemmas for the source tie of group `SrcEq` (DESIGN.md §9.6, `MV/Props/TieSrcEq.lean`): Python's `sep.join(l)` as
written by py2lean (`PyL.strJoin`, a left fold) is `String.intercalate`, which the model's printers use; the spec
bindings of the group (`Tonality.pyEq` for `tonality == tonality`, `PyE.dictEq` for `dict == dict`) are the functions of
`MV/Model/Equality.lean`.
-/
import MV.Gen.SrcEq

namespace MV.TieEq
open MV MV.Eq

theorem foldl_sep (sep a b : String) (l : List String) :
    l.foldl (fun r s => r ++ sep ++ s) (a ++ b) = a ++ l.foldl (fun r s => r ++ sep ++ s) b := by
  induction l generalizing b with
  | nil => rfl
  | cons x xs ih =>
    simp only [List.foldl_cons]
    have e : a ++ b ++ sep ++ x = a ++ (b ++ sep ++ x) := by simp only [String.append_assoc]
    rw [e]; exact ih _

theorem strJoin_cons_cons (sep x y : String) (ys : List String) :
    PyL.strJoin sep (x :: y :: ys) = x ++ sep ++ PyL.strJoin sep (y :: ys) := by
  simp only [PyL.strJoin, List.foldl_cons]
  rw [String.append_assoc, foldl_sep, String.append_assoc]
  congr 1
  have := foldl_sep sep sep y ys
  rw [this]

/-- `sep.join(l)` (the fold py2lean writes) is the model's `sep.intercalate l` -/
theorem strJoin_intercalate (sep : String) (l : List String) : PyL.strJoin sep l = sep.intercalate l := by
  induction l with
  | nil => rfl
  | cons x xs ih =>
    cases xs with
    | nil => simp [PyL.strJoin]
    | cons y ys => rw [String.intercalate_cons_cons, ← ih, strJoin_cons_cons]

/-- the binding of `tonality == tonality` (model of `MV/Model/Transpose.lean`, source-tied in `MV/Props/TieTonality.lean`)
is the tonality equality of `MV/Model/Equality.lean` -/
theorem pyEq_tonEq (a b : Tonality) : Tonality.pyEq a b = tonEq a b := rfl

/-- Python's `dict == dict` of the PRELUDE with the melody equality of the model is the model's `dictEq` -/
theorem dictEq_melodyEq (a b : List (String × Melody)) : Src.PyE.dictEq melodyEq a b = dictEq a b := by
  unfold Src.PyE.dictEq dictEq
  congr 2
  funext p
  cases b.lookup p.1 <;> rfl

end MV.TieEq
