/-
Lemmas about the metric model (C17): the pulse grid read as runs, what
`get_beat_durations` / `_apply_durations_to_melody` / `apply_to_melody` compute on a
binary grid, `FromMelody` of the result, and the grid algebra.

The first section is the *specification vocabulary* used by the statements of
`Props/C17.lean` (plain recursive definitions, no reference to the model).
-/
import Mathlib.Data.Rat.Lemmas
import Mathlib.Tactic.Ring
import Mathlib.Data.List.Rotate
import MV.Model.Metric

namespace MV.Rhythm
open MV

/-! ### specification vocabulary -/

/-- every cell of the grid is 0 or 1 -/
def Binary (a : List Int) : Prop := ∀ x ∈ a, x = 0 ∨ x = 1

instance (a : List Int) : Decidable (Binary a) := by unfold Binary; exact inferInstance

/-- indices of the pulses (cells equal to 1), ascending, the first cell having index `i` -/
def pulseIdxFrom : Nat → List Int → List Nat
  | _, [] => []
  | i, x :: xs => if x = 1 then i :: pulseIdxFrom (i + 1) xs else pulseIdxFrom (i + 1) xs

/-- indices of the pulses of a grid -/
def pulseIdx (a : List Int) : List Nat := pulseIdxFrom 0 a

/-- an element that has an onset for `Melody.get_note_times` -/
def sounding (n : Note) : Bool := n.kind.isNote || n.kind == .x || n.kind == .d

/-- the cells of one run: a first cell (pulse or not) followed by `len - 1` empty cells -/
def cellsOf (p : Bool × Nat) : List Int := (if p.1 then 1 else 0) :: List.replicate (p.2 - 1) 0

/-- run-length reading of the cells after the first one: current run `(b, c)` -/
def segLoop : List Int → Bool → Nat → List (Bool × Nat)
  | [], b, c => [(b, c)]
  | x :: xs, b, c =>
      if x = 0 then segLoop xs b (c + 1)
      else if x = 1 then (b, c) :: segLoop xs true 1
      else (b, c) :: segLoop xs false 1

/-- the runs of a grid: `(starts on a pulse, length)`; a run is one cell and the empty cells up
to the next pulse (characterised by `runs_spec`) -/
def runs : List Int → List (Bool × Nat)
  | [] => []
  | a0 :: rest => segLoop rest (a0 == 1) 1

/-- the melody the property prescribes: run `j` carries melody note `j mod len` (or a rest when the
run does not start on a pulse) lasting `length · tatum` -/
def place (t : Rat) (notes : List Note) : Nat → List (Bool × Nat) → List Note
  | _, [] => []
  | j, (b, l) :: rs =>
      { (if b then notes.getD (j % notes.length) silence1 else silence1) with dur := (l : Rat) * t }
        :: place t notes (j + 1) rs

/-- a note with its duration erased (what identifies "which melody note") -/
def eraseDur (n : Note) : Note := { n with dur := 0 }

/-- 0 when the grid starts on a pulse, 1 otherwise -/
def leadOffset (a : List Int) : Nat := if a.head? = some 1 then 0 else 1

/-- a metric that came out of the constructor `Metric.__init__` -/
def Metric.Valid (m : Metric) : Prop := Metric.mk? m.array m.sig m.tatum m.nbBars = .ok m

instance (m : Metric) : Decidable m.Valid := by unfold Metric.Valid; exact inferInstance

/-! ### rationals -/

theorem limitDenominator_id (q : Rat) (M : Nat) (h : q.den ≤ M) : limitDenominator q M = q := by
  unfold limitDenominator; simp [h]

theorem den_natMul_le (t : Rat) (k : Nat) : ((k : Rat) * t).den ≤ t.den := by
  have h := Rat.mul_den_dvd (k : Rat) t
  simp at h
  exact Nat.le_of_dvd t.den_pos h

theorem setDuration_natMul (n : Note) (t : Rat) (k : Nat) (ht : t.den ≤ Gen.LIMIT_DENOM) :
    setDuration n ((k : Rat) * t) = { n with dur := (k : Rat) * t } := by
  unfold setDuration
  rw [limitDenominator_id _ _ (Nat.le_trans (den_natMul_le t k) ht)]

/-! ### runs -/

theorem replicate_succ_zero (c : Nat) (xs : List Int) :
    List.replicate c (0 : Int) ++ 0 :: xs = List.replicate (c + 1) 0 ++ xs := by
  induction c with
  | zero => rfl
  | succ c ih => simp [List.replicate_succ, ih]

theorem segLoop_flat (xs : List Int) (hb : Binary xs) (b : Bool) (c : Nat) (hc : 1 ≤ c) :
    (segLoop xs b c).flatMap cellsOf = cellsOf (b, c) ++ xs := by
  induction xs generalizing b c with
  | nil => simp [segLoop]
  | cons x xs ih =>
    have hx : x = 0 ∨ x = 1 := hb x (by simp)
    have hxs : Binary xs := fun y hy => hb y (by simp [hy])
    rcases hx with rfl | rfl
    · simp only [segLoop, if_true]
      rw [ih hxs b (c + 1) (by omega)]
      unfold cellsOf
      simp only [List.cons_append, Nat.add_sub_cancel]
      obtain ⟨c', rfl⟩ : ∃ c', c = c' + 1 := ⟨c - 1, by omega⟩
      simp only [Nat.add_sub_cancel]
      rw [replicate_succ_zero]
    · have h10 : ¬ ((1 : Int) = 0) := by decide
      simp only [segLoop, h10, if_false, if_true, List.flatMap_cons]
      rw [ih hxs true 1 (by omega)]
      simp [cellsOf]

theorem runs_flat (a : List Int) (hb : Binary a) : (runs a).flatMap cellsOf = a := by
  cases a with
  | nil => rfl
  | cons a0 rest =>
    have h0 : a0 = 0 ∨ a0 = 1 := hb a0 (by simp)
    have hr : Binary rest := fun y hy => hb y (by simp [hy])
    unfold runs
    rw [segLoop_flat rest hr _ 1 (by omega)]
    rcases h0 with rfl | rfl <;> simp [cellsOf]

theorem segLoop_pos (xs : List Int) (b : Bool) (c : Nat) (hc : 1 ≤ c) :
    ∀ p ∈ segLoop xs b c, 1 ≤ p.2 := by
  induction xs generalizing b c with
  | nil => intro p hp; simp [segLoop] at hp; subst hp; exact hc
  | cons x xs ih =>
    intro p hp
    unfold segLoop at hp
    split at hp
    · exact ih b (c + 1) (by omega) p hp
    · split at hp
      · rcases List.mem_cons.mp hp with rfl | h
        · exact hc
        · exact ih true 1 (by omega) p h
      · rcases List.mem_cons.mp hp with rfl | h
        · exact hc
        · exact ih false 1 (by omega) p h

theorem runs_pos (a : List Int) : ∀ p ∈ runs a, 1 ≤ p.2 := by
  cases a with
  | nil => intro p hp; simp [runs] at hp
  | cons a0 rest => exact segLoop_pos rest _ 1 (by omega)

/-- shape of the runs of a binary grid: the current run first, then runs that all start on a pulse -/
theorem segLoop_shape (xs : List Int) (hb : Binary xs) (b : Bool) (c : Nat) :
    ∃ c' rs, segLoop xs b c = (b, c') :: rs ∧ ∀ p ∈ rs, p.1 = true := by
  induction xs generalizing b c with
  | nil => exact ⟨c, [], rfl, by simp⟩
  | cons x xs ih =>
    have hx : x = 0 ∨ x = 1 := hb x (by simp)
    have hxs : Binary xs := fun y hy => hb y (by simp [hy])
    rcases hx with rfl | rfl
    · simp only [segLoop, if_true]
      exact ih hxs b (c + 1)
    · have h10 : ¬ ((1 : Int) = 0) := by decide
      simp only [segLoop, h10, if_false, if_true]
      obtain ⟨c', rs, h, hall⟩ := ih hxs true 1
      refine ⟨c, segLoop xs true 1, rfl, ?_⟩
      rw [h]
      intro p hp
      rcases List.mem_cons.mp hp with rfl | hp
      · rfl
      · exact hall p hp

theorem runs_shape (a0 : Int) (rest : List Int) (hb : Binary (a0 :: rest)) :
    ∃ c rs, runs (a0 :: rest) = (a0 == 1, c) :: rs ∧ ∀ p ∈ rs, p.1 = true :=
  segLoop_shape rest (fun y hy => hb y (by simp [hy])) _ 1

theorem segLoop_sum (xs : List Int) (b : Bool) (c : Nat) :
    ((segLoop xs b c).map (·.2)).sum = c + xs.length := by
  induction xs generalizing b c with
  | nil => simp [segLoop]
  | cons x xs ih =>
    unfold segLoop
    split
    · rw [ih]; simp; omega
    · split <;> (simp only [List.map_cons, List.sum_cons]; rw [ih]; simp; omega)

theorem runs_sum (a : List Int) : ((runs a).map (·.2)).sum = a.length := by
  cases a with
  | nil => rfl
  | cons a0 rest => unfold runs; rw [segLoop_sum]; simp; omega

/-! ### what the model computes on a binary grid -/

theorem beatLoop_eq (t : Rat) (xs : List Int) (b : Bool) (c : Nat) :
    beatLoop t xs b ((c : Rat) * t) = (segLoop xs b c).map (fun p => (p.1, (p.2 : Rat) * t)) := by
  induction xs generalizing b c with
  | nil => simp [beatLoop, segLoop]
  | cons x xs ih =>
    unfold beatLoop segLoop
    have h1 : (c : Rat) * t + t = ((c + 1 : Nat) : Rat) * t := by push_cast; ring
    have h2 : ((1 : Nat) : Rat) * t = t := by simp
    have iht := ih true 1
    have ihf := ih false 1
    rw [h2] at iht ihf
    split
    · rw [h1, ih]
    · split
      · rw [List.map_cons, iht]
      · rw [List.map_cons, ihf]

/-- the first emitted beat carries the current `is_note` flag (any cells) -/
theorem beatLoop_head (t : Rat) (xs : List Int) (b : Bool) (c : Rat) :
    ∃ c' ps, beatLoop t xs b c = (b, c') :: ps := by
  induction xs generalizing c with
  | nil => exact ⟨c, [], rfl⟩
  | cons y ys ih =>
    unfold beatLoop
    split
    · exact ih _
    · split <;> exact ⟨_, _, rfl⟩

/-- `_apply_durations_to_melody` with rational beat lengths -/
def placeQ (notes : List Note) : Nat → List (Bool × Rat) → List Note
  | _, [] => []
  | j, (b, d) :: rs =>
      setDuration (if b then notes.getD (j % notes.length) silence1 else silence1) d :: placeQ notes (j + 1) rs

theorem applyLoop_expand (notes : List Note) (hn : notes ≠ []) (first : Bool) (idx : Nat)
    (beats : List (Bool × Rat))
    (hh : idx = 0 → ∀ p ∈ beats.head?, p.1 = first) :
    applyLoop notes first true idx beats = .ok (placeQ notes idx beats) := by
  induction beats generalizing idx with
  | nil => rfl
  | cons p rs ih =>
    obtain ⟨b, d⟩ := p
    have hL : notes.length ≠ 0 := by simpa using hn
    have hlt : idx % notes.length < notes.length := Nat.mod_lt _ (Nat.pos_of_ne_zero hL)
    have ihr := ih (idx + 1) (by omega)
    unfold applyLoop placeQ
    by_cases h0 : idx = 0 ∧ first = false
    · have hb : b = false := by
        have := hh h0.1 (b, d) (by simp)
        simp at this; rw [this]; exact h0.2
      obtain ⟨rfl, rfl⟩ := h0
      subst hb
      simp only [and_self, if_true, ihr]
      rfl
    · simp only [h0, if_false]
      have : ¬ ((true = false) ∧ idx > notes.length) := by simp
      simp only [this, if_false]
      cases b with
      | true =>
        simp only [if_true, hL, if_false, List.getElem?_eq_getElem hlt, ihr]
        simp [List.getD_eq_getElem?_getD, List.getElem?_eq_getElem hlt]
        try rfl
      | false =>
        simp only [ihr]
        rfl

theorem Metric.Valid.facts {m : Metric} (h : m.Valid) :
    m.sig ∈ Gen.SIGNATURES ∧ m.sig.2 ≠ 0 ∧ m.tatum ≠ 0 ∧ m.duration / m.tatum = (m.array.length : Rat) := by
  unfold Metric.Valid Metric.mk? at h
  unfold Metric.duration
  split at h
  · cases h
  · split at h
    · cases h
    · split at h
      · cases h
      · split at h
        · cases h
        · refine ⟨?_, ?_, ?_, ?_⟩
          · rename_i h1 _ _ _; simpa using h1
          · assumption
          · assumption
          · rename_i h4; simpa using h4

theorem Metric.Valid.duration_eq {m : Metric} (h : m.Valid) :
    m.duration = (m.array.length : Rat) * m.tatum := by
  obtain ⟨_, _, ht, hd⟩ := h.facts
  rw [← hd]
  exact (Rat.div_mul_cancel ht).symm

theorem intRange_zero_map (a : List Int) :
    (intRange 0 (a.length : Int)).map (fun idx => a.getD (idx % (a.length : Int)).toNat 0) = a := by
  unfold intRange
  apply List.ext_getElem
  · simp
  · intro i h1 h2
    simp at h1
    simp only [List.getElem_map, List.getElem_range]
    have : ((0 : Int) + (i : Int)) % (a.length : Int) = (i : Int) := by
      rw [Int.zero_add]; exact Int.emod_eq_of_lt (by omega) (by omega)
    rw [this]
    simp [List.getD_eq_getElem?_getD, List.getElem?_eq_getElem h1]

theorem getArrayBetween_whole {m : Metric} (h : m.Valid) :
    m.getArrayBetween none none = .ok (m.array, 0, m.duration) := by
  obtain ⟨_, _, ht, hd⟩ := h.facts
  unfold Metric.getArrayBetween ratFloorDiv
  simp only [Option.getD_none, ht, if_false, hd]
  have h0 : ((0 : Rat) / m.tatum).floor = 0 := by
    rw [zero_div]; exact Rat.floor_intCast 0
  have h1 : ((m.array.length : Nat) : Rat).floor = (m.array.length : Int) := by
    have := Rat.floor_intCast (m.array.length : Int)
    simpa using this
  rw [h0, h1, intRange_zero_map]
  have : ¬ (intRange 0 (m.array.length : Int) ≠ [] ∧ m.array.length = 0) := by
    intro ⟨h2, h3⟩
    apply h2
    rw [h3]; rfl
  simp only [this, if_false]

theorem placeQ_eq_place (t : Rat) (ht : t.den ≤ Gen.LIMIT_DENOM) (notes : List Note) (j : Nat)
    (rs : List (Bool × Nat)) :
    placeQ notes j (rs.map (fun p => (p.1, (p.2 : Rat) * t))) = place t notes j rs := by
  induction rs generalizing j with
  | nil => rfl
  | cons p rs ih =>
    obtain ⟨b, l⟩ := p
    simp only [List.map_cons, placeQ, place, ih, setDuration_natMul _ t l ht]

theorem melDuration_place (t : Rat) (notes : List Note) (j : Nat) (rs : List (Bool × Nat)) :
    melDuration (place t notes j rs) = ((rs.map (·.2)).sum : Nat) * t := by
  induction rs generalizing j with
  | nil => simp [place, melDuration]
  | cons p rs ih =>
    obtain ⟨b, l⟩ := p
    have := ih (j + 1)
    unfold melDuration at this ⊢
    simp only [place, List.map_cons, List.sum_cons, this]
    push_cast
    ring



theorem apply_eq_place (m : Metric) (notes : List Note) (hv : m.Valid) (hb : Binary m.array)
    (ha : m.array ≠ []) (hn : notes ≠ []) (ht : m.tatum.den ≤ Gen.LIMIT_DENOM) :
    m.applyToMelody notes = .ok (place m.tatum notes 0 (runs m.array)) := by
  have hdur := hv.duration_eq
  unfold Metric.applyToMelody
  rw [getArrayBetween_whole hv]
  obtain ⟨a0, rest, hcons⟩ : ∃ a0 rest, m.array = a0 :: rest := by
    cases h : m.array with
    | nil => exact absurd h ha
    | cons a0 rest => exact ⟨a0, rest, rfl⟩
  have hb' : Binary (a0 :: rest) := hcons ▸ hb
  obtain ⟨c, rs, hshape, _⟩ := runs_shape a0 rest hb'
  have hbeats : beatLoop m.tatum rest (a0 == 1) m.tatum
      = (runs (a0 :: rest)).map (fun p => (p.1, (p.2 : Rat) * m.tatum)) := by
    have := beatLoop_eq m.tatum rest (a0 == 1) 1
    simpa [runs] using this
  have hloop : applyLoop notes (a0 == 1) true 0 (beatLoop m.tatum rest (a0 == 1) m.tatum)
      = .ok (place m.tatum notes 0 (runs (a0 :: rest))) := by
    rw [applyLoop_expand notes hn (a0 == 1) 0 _ ?_, hbeats, placeQ_eq_place _ ht]
    intro _ p hp
    rw [hbeats, hshape] at hp
    simp at hp
    rw [← hp]
  have hmd : melDuration (place m.tatum notes 0 (runs (a0 :: rest))) = m.duration := by
    rw [melDuration_place, runs_sum, hdur, hcons]
  simp only [bind, Except.bind, pure, Except.pure, hcons, getBeatDurations, applyDurations]
  simp only [Bool.true_eq_false, false_and, if_false, hloop, hmd, sub_zero, lt_irrefl]


theorem pulseIdxFrom_zeros (i k : Nat) (ys : List Int) :
    pulseIdxFrom i (List.replicate k 0 ++ ys) = pulseIdxFrom (i + k) ys := by
  induction k generalizing i with
  | zero => rfl
  | succ k ih =>
    have h01 : ¬ ((0 : Int) = 1) := by decide
    simp only [List.replicate_succ, List.cons_append, pulseIdxFrom, h01, if_false, ih]
    congr 1; omega

theorem pulseIdxFrom_cells (i : Nat) (b : Bool) (l : Nat) (hl : 1 ≤ l) (ys : List Int) :
    pulseIdxFrom i (cellsOf (b, l) ++ ys) = (if b then [i] else []) ++ pulseIdxFrom (i + l) ys := by
  unfold cellsOf
  have : i + 1 + (l - 1) = i + l := by omega
  cases b
  · have h01 : ¬ ((0 : Int) = 1) := by decide
    simp [pulseIdxFrom, pulseIdxFrom_zeros, this]
  · simp [pulseIdxFrom, pulseIdxFrom_zeros, this]

theorem sounding_silence1 : sounding silence1 = false := by decide

theorem sounding_setDur (n : Note) (d : Rat) : sounding { n with dur := d } = sounding n := rfl

theorem noteTimes_place (t : Rat) (notes : List Note) (hn : notes ≠ [])
    (hs : ∀ n ∈ notes, sounding n = true) (rs : List (Bool × Nat)) (hpos : ∀ p ∈ rs, 1 ≤ p.2) (i j : Nat) :
    noteTimesFrom ((i : Rat) * t) (place t notes j rs)
      = (pulseIdxFrom i (rs.flatMap cellsOf)).map (fun (k : Nat) => (k : Rat) * t) := by
  induction rs generalizing i j with
  | nil => rfl
  | cons p rs ih =>
    obtain ⟨b, l⟩ := p
    have hl : 1 ≤ l := hpos (b, l) (by simp)
    have ih' := ih (fun p hp => hpos p (by simp [hp])) (i + l) (j + 1)
    have hadd : (i : Rat) * t + (l : Rat) * t = ((i + l : Nat) : Rat) * t := by push_cast; ring
    have hL : notes.length ≠ 0 := by simpa using hn
    have hlt : j % notes.length < notes.length := Nat.mod_lt _ (Nat.pos_of_ne_zero hL)
    rw [List.flatMap_cons, pulseIdxFrom_cells i b l hl]
    unfold place noteTimesFrom
    cases b with
    | true =>
      have hsn : sounding (notes.getD (j % notes.length) silence1) = true := by
        apply hs
        simp [List.getD_eq_getElem?_getD, List.getElem?_eq_getElem hlt]
      have : ((notes.getD (j % notes.length) silence1).kind.isNote
          || (notes.getD (j % notes.length) silence1).kind == Kind.x
          || (notes.getD (j % notes.length) silence1).kind == Kind.d) = true := hsn
      simp only [if_true, this, hadd, ih']
      simp
    | false =>
      have : (silence1.kind.isNote || silence1.kind == Kind.x || silence1.kind == Kind.d) = false := by decide
      simp only [Bool.false_eq_true, if_false, this, hadd, ih']
      simp

theorem fromMelodyLoop_place (t : Rat) (ht : t ≠ 0) (notes : List Note) (hn : notes ≠ [])
    (hs : ∀ n ∈ notes, sounding n = true) (rs : List (Bool × Nat)) (hpos : ∀ p ∈ rs, 1 ≤ p.2) (j : Nat) :
    fromMelodyLoop t (place t notes j rs) = .ok (rs.flatMap cellsOf) := by
  induction rs generalizing j with
  | nil => rfl
  | cons p rs ih =>
    obtain ⟨b, l⟩ := p
    have hl : 1 ≤ l := hpos (b, l) (by simp)
    have ih' := ih (fun p hp => hpos p (by simp [hp])) (j + 1)
    have hL : notes.length ≠ 0 := by simpa using hn
    have hlt : j % notes.length < notes.length := Nat.mod_lt _ (Nat.pos_of_ne_zero hL)
    have hdiv : (l : Rat) * t / t = ((l : Int) : Rat) := by
      rw [Rat.mul_div_cancel ht]; simp
    have hden : ((l : Rat) * t / t).den = 1 := by rw [hdiv]; rfl
    have hnum : ((l : Rat) * t / t).num = (l : Int) := by rw [hdiv]; rfl
    unfold place fromMelodyLoop
    simp only [ht, if_false, hden, ne_eq, not_true_eq_false, hnum, ih', bind, Except.bind, pure, Except.pure]
    have hk : ((l : Int) - 1).toNat = l - 1 := by omega
    rw [hk, List.flatMap_cons]
    unfold cellsOf
    cases b with
    | true =>
      have : ((notes.getD (j % notes.length) silence1).kind.isNote
          || (notes.getD (j % notes.length) silence1).kind == Kind.x
          || (notes.getD (j % notes.length) silence1).kind == Kind.d) = true := by
        apply hs
        simp [List.getD_eq_getElem?_getD, List.getElem?_eq_getElem hlt]
      rw [if_pos rfl]
      simp only [this, if_true]
    | false =>
      have : (silence1.kind.isNote || silence1.kind == Kind.x || silence1.kind == Kind.d) = false := by decide
      simp [this]


theorem getD_mem_of_lt {α} (l : List α) (d : α) (i : Nat) (h : i < l.length) : l.getD i d ∈ l := by
  rw [List.getD_eq_getElem?_getD, List.getElem?_eq_getElem h]
  exact List.getElem_mem h

theorem filter_place_true (t : Rat) (notes : List Note) (hn : notes ≠ [])
    (hs : ∀ n ∈ notes, sounding n = true) (rs : List (Bool × Nat)) (hall : ∀ p ∈ rs, p.1 = true) (j : Nat) :
    ((place t notes j rs).filter sounding).map eraseDur
      = (List.range rs.length).map (fun i => eraseDur (notes.getD ((i + j) % notes.length) silence1)) := by
  induction rs generalizing j with
  | nil => rfl
  | cons p rs ih =>
    obtain ⟨b, l⟩ := p
    have hb : b = true := hall (b, l) (by simp)
    subst hb
    have ih' := ih (fun p hp => hall p (by simp [hp])) (j + 1)
    have hL : notes.length ≠ 0 := by simpa using hn
    have hlt : j % notes.length < notes.length := Nat.mod_lt _ (Nat.pos_of_ne_zero hL)
    have hsn : sounding (notes.getD (j % notes.length) silence1) = true := by
      apply hs
      simp [List.getD_eq_getElem?_getD, List.getElem?_eq_getElem hlt]
    unfold place
    rw [if_pos rfl, List.filter_cons_of_pos (by rw [sounding_setDur]; exact hsn), List.map_cons, ih',
      List.length_cons, List.range_succ_eq_map, List.map_cons, List.map_map]
    congr 1
    · simp [eraseDur]
    · apply List.map_congr_left
      intro i _
      simp only [Function.comp]
      congr 3
      omega

theorem pulseIdxFrom_length_true (rs : List (Bool × Nat)) (hall : ∀ p ∈ rs, p.1 = true)
    (hpos : ∀ p ∈ rs, 1 ≤ p.2) (i : Nat) :
    (pulseIdxFrom i (rs.flatMap cellsOf)).length = rs.length := by
  induction rs generalizing i with
  | nil => rfl
  | cons p rs ih =>
    obtain ⟨b, l⟩ := p
    have hb : b = true := hall (b, l) (by simp)
    subst hb
    rw [List.flatMap_cons, pulseIdxFrom_cells i true l (hpos (true, l) (by simp))]
    simp [ih (fun p hp => hall p (by simp [hp])) (fun p hp => hpos p (by simp [hp]))]

theorem filter_place_runs (t : Rat) (notes : List Note) (hn : notes ≠ [])
    (hs : ∀ n ∈ notes, sounding n = true) (a : List Int) (hb : Binary a) (ha : a ≠ []) :
    ((place t notes 0 (runs a)).filter sounding).map eraseDur
      = (List.range (pulseIdx a).length).map
          (fun k => eraseDur (notes.getD ((k + leadOffset a) % notes.length) silence1)) := by
  obtain ⟨a0, rest, rfl⟩ : ∃ a0 rest, a = a0 :: rest := by
    cases a with
    | nil => exact absurd rfl ha
    | cons a0 rest => exact ⟨a0, rest, rfl⟩
  obtain ⟨c, rs, hshape, hall⟩ := runs_shape a0 rest hb
  have hpos := runs_pos (a0 :: rest)
  rw [hshape] at hpos
  have hk : (pulseIdx (a0 :: rest)).length = (if a0 = 1 then 1 else 0) + rs.length := by
    unfold pulseIdx
    conv => lhs; rw [← runs_flat (a0 :: rest) hb, hshape, List.flatMap_cons,
      pulseIdxFrom_cells 0 _ c (hpos (a0 == 1, c) (by simp))]
    rw [List.length_append, pulseIdxFrom_length_true rs hall (fun p hp => hpos p (by simp [hp]))]
    by_cases h1 : a0 = 1 <;> simp [h1]
  have hL : notes.length ≠ 0 := by simpa using hn
  have h0lt : 0 % notes.length < notes.length := Nat.mod_lt _ (Nat.pos_of_ne_zero hL)
  rw [hshape, hk]
  unfold place
  have hrest := filter_place_true t notes hn hs rs hall 1
  by_cases h1 : a0 = 1
  · subst h1
    have hsn : sounding (notes.getD (0 % notes.length) silence1) = true :=
      hs _ (getD_mem_of_lt _ _ _ h0lt)
    have hlo : leadOffset ((1 : Int) :: rest) = 0 := by simp [leadOffset]
    simp only [beq_self_eq_true, if_true, hlo, Nat.add_zero]
    rw [List.filter_cons_of_pos (by rw [sounding_setDur]; exact hsn), List.map_cons, hrest,
      Nat.add_comm 1 rs.length, List.range_succ_eq_map, List.map_cons, List.map_map]
    congr 1
  · have hbeq : (a0 == 1) = false := by simpa using h1
    have hlo : leadOffset (a0 :: rest) = 1 := by simp [leadOffset, h1]
    simp only [hbeq, Bool.false_eq_true, if_false, hlo, h1, Nat.zero_add]
    rw [List.filter_cons_of_neg (by rw [sounding_setDur, sounding_silence1]; simp), hrest]

/-! ### grid algebra -/

theorem mk?_of_valid {m : Metric} (h : m.Valid) (arr : List Int) (hl : arr.length = m.array.length) :
    Metric.mk? arr m.sig m.tatum m.nbBars = .ok { m with array := arr } := by
  obtain ⟨h1, h2, h3, h4⟩ := h.facts
  unfold Metric.mk?
  unfold Metric.duration at h4
  simp [h1, h2, h3, h4, hl]

theorem valid_of_mk? {arr : List Int} {sig : Int × Int} {t : Rat} {nb : Int} {m : Metric}
    (h : Metric.mk? arr sig t nb = .ok m) : m.Valid ∧ m.array = arr ∧ m.sig = sig ∧ m.tatum = t ∧ m.nbBars = nb := by
  have h' := h
  unfold Metric.mk? at h
  split at h
  · cases h
  · split at h
    · cases h
    · split at h
      · cases h
      · split at h
        · cases h
        · cases h
          exact ⟨h', rfl, rfl, rfl, rfl⟩

theorem with_array_valid {m : Metric} (h : m.Valid) (arr : List Int) (hl : arr.length = m.array.length) :
    Metric.Valid { m with array := arr } := (valid_of_mk? (mk?_of_valid h arr hl)).1

theorem compl_compl (a : List Int) : (a.map (fun x => 1 - x)).map (fun x => 1 - x) = a := by
  rw [List.map_map]
  conv => rhs; rw [← List.map_id a]
  apply List.map_congr_left
  intro x _
  simp only [Function.comp, id]
  omega

theorem shiftIdx_lt (n : Int) (L : Nat) (hL : L ≠ 0) : ((-n) % (L : Int)).toNat < L := by
  have : (0 : Int) < L := by omega
  have h1 := Int.emod_nonneg (-n) (by omega : (L : Int) ≠ 0)
  have h2 := Int.emod_lt_of_pos (-n) this
  omega

theorem rotate_shift (a : List Int) (n : Int) (ha : a.length ≠ 0) :
    let k := ((-n) % (a.length : Int)).toNat
    a.drop k ++ a.take k = a.rotate k := by
  intro k
  rw [List.rotate_eq_drop_append_take (Nat.le_of_lt (shiftIdx_lt n a.length ha))]

theorem shift_shift (a : List Int) (n : Int) (ha : a.length ≠ 0) :
    (a.rotate ((-n) % (a.length : Int)).toNat).rotate ((- -n) % (a.length : Int)).toNat = a := by
  rw [List.rotate_rotate]
  have hpos : (0 : Int) < a.length := by omega
  have h1 := Int.emod_nonneg (-n) (by omega : (a.length : Int) ≠ 0)
  have h2 := Int.emod_lt_of_pos (-n) hpos
  have h3 := Int.emod_nonneg (- -n) (by omega : (a.length : Int) ≠ 0)
  have h4 := Int.emod_lt_of_pos (- -n) hpos
  have hsum : ((-n) % (a.length : Int) + (- -n) % (a.length : Int)) % (a.length : Int) = 0 := by
    rw [← Int.add_emod]; simp
  have : (((-n) % (a.length : Int)).toNat + ((- -n) % (a.length : Int)).toNat) % a.length = 0 := by
    have hc : ((((-n) % (a.length : Int)).toNat + ((- -n) % (a.length : Int)).toNat : Nat) : Int)
        = (-n) % (a.length : Int) + (- -n) % (a.length : Int) := by omega
    have := congrArg Int.toNat hsum
    rw [← hc] at this
    omega
  rw [← List.rotate_mod, this, List.rotate_zero]


end MV.Rhythm
