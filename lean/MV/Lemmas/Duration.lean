/-
Lemmas about the duration calculus (used by C10; reusable by C11, C12, C16).
Sums of rationals, `limit_denominator` inside the resolution, note / melody / chord
operations on the domain `Den` (denominator ≤ LIMIT_DENOM).
-/
import MV.Model.Duration
import Mathlib.Tactic.Ring
import Mathlib.Tactic.Linarith

namespace MV

open Gen

/-! ### sums -/

theorem foldl_add_rat (l : List Rat) (a : Rat) : l.foldl (· + ·) a = a + l.foldl (· + ·) 0 := by
  induction l generalizing a with
  | nil => simp
  | cons x xs ih => simp only [List.foldl_cons]; rw [ih (a + x), ih (0 + x)]; ring

@[simp] theorem sumRat_nil : sumRat [] = 0 := rfl

@[simp] theorem sumRat_cons (x : Rat) (l : List Rat) : sumRat (x :: l) = x + sumRat l := by
  unfold sumRat; simp only [List.foldl_cons]; rw [foldl_add_rat]; ring

theorem sumRat_append (a b : List Rat) : sumRat (a ++ b) = sumRat a + sumRat b := by
  induction a with
  | nil => simp
  | cons x xs ih => simp only [List.cons_append, sumRat_cons, ih]; ring

theorem sumRat_eq_sum (l : List Rat) : sumRat l = l.sum := by
  induction l with
  | nil => rfl
  | cons x xs ih => simp [ih]

theorem sumRat_map_mul (l : List Rat) (q : Rat) : sumRat (l.map (· * q)) = sumRat l * q := by
  induction l with
  | nil => simp
  | cons x xs ih => simp only [List.map_cons, sumRat_cons, ih]; ring

theorem sumRat_flatten_replicate (k : Nat) (l : List Rat) :
    sumRat (List.replicate k l).flatten = (k : Rat) * sumRat l := by
  induction k with
  | zero => simp
  | succ k ih =>
      simp only [List.replicate_succ, List.flatten_cons, sumRat_append, ih]
      push_cast; ring

theorem sumRat_replicate (k : Nat) (x : Rat) : sumRat (List.replicate k x) = (k : Rat) * x := by
  induction k with
  | zero => simp
  | succ k ih => simp only [List.replicate_succ, sumRat_cons, ih]; push_cast; ring

/-! ### the resolution -/

/-- a duration inside the documented resolution -/
def Den (q : Rat) : Prop := q.den ≤ LIMIT_DENOM

instance (q : Rat) : Decidable (Den q) := by unfold Den; exact inferInstance

/-- first line of `limit_denominator`: inside the bound nothing changes -/
theorem limitDenominator_id (mx : Nat) (x : Rat) (h : x.den ≤ mx) : limitDenominator mx x = x := by
  unfold limitDenominator; simp [h]

theorem limitD_id {x : Rat} (h : Den x) : limitD x = x := limitDenominator_id _ _ h

theorem limitLoop_le (M : Int) : ∀ (fuel : Nat) (p0 q0 p1 q1 n d : Int), q0 ≤ M → q1 ≤ M →
    (limitLoop M fuel p0 q0 p1 q1 n d).2.1 ≤ M ∧ (limitLoop M fuel p0 q0 p1 q1 n d).2.2.2.1 ≤ M := by
  intro fuel
  induction fuel with
  | zero => intro p0 q0 p1 q1 n d h0 h1; exact ⟨h0, h1⟩
  | succ f ih =>
      intro p0 q0 p1 q1 n d h0 h1
      unfold limitLoop
      simp only
      split
      · exact ⟨h0, h1⟩
      · exact ih _ _ _ _ _ _ h1 (by omega)

theorem den_mkRat_le (n : Int) (d : Nat) (M : Nat) (hM : 1 ≤ M) (hd : d ≤ M) : (mkRat n d).den ≤ M := by
  rw [Rat.den_mkRat]
  split
  · exact hM
  · exact Nat.le_trans (Nat.div_le_self _ _) hd

/-- the result of `limit_denominator(max)` has a denominator ≤ max (for every input) -/
theorem limitDenominator_den_le (mx : Nat) (x : Rat) (hM : 1 ≤ mx) : (limitDenominator mx x).den ≤ mx := by
  unfold limitDenominator
  split
  · assumption
  · obtain ⟨h0, h1⟩ := limitLoop_le (mx : Int) x.den 0 1 1 0 x.num x.den (by omega) (by omega)
    generalize limitLoop (mx : Int) x.den 0 1 1 0 x.num x.den = r at h0 h1
    obtain ⟨p0, q0, p1, q1, d⟩ := r
    simp only at h0 h1 ⊢
    split
    · exact den_mkRat_le _ _ _ hM (by omega)
    · apply den_mkRat_le _ _ _ hM
      have hk : ((mx : Int) - q0) / q1 * q1 ≤ (mx : Int) - q0 := by
        by_cases hq : q1 = 0
        · subst hq; simp; omega
        · exact Int.ediv_mul_le _ hq
      omega

theorem limit_denom_pos : 1 ≤ LIMIT_DENOM := by decide

theorem limitD_den (x : Rat) : Den (limitD x) := limitDenominator_den_le _ x limit_denom_pos

theorem den_int (i : Int) : Den (i : Rat) := by
  unfold Den; rw [Rat.den_intCast]; decide

theorem den_zero : Den 0 := den_int 0

/-- an integer multiple of `c` has a denominator dividing that of `c` -/
theorem den_int_mul_dvd (m : Int) (c : Rat) : ((m : Rat) * c).den ∣ c.den := by
  have := Rat.mul_den_dvd (m : Rat) c
  rwa [Rat.den_intCast, Nat.one_mul] at this

theorem den_of_int_mul {m : Int} {c : Rat} (hc : Den c) : Den ((m : Rat) * c) :=
  Nat.le_trans (Nat.le_of_dvd c.den_pos (den_int_mul_dvd m c)) hc

/-! ### notes -/

theorem Note.copy_id {n : Note} (h : Den n.dur) : n.copy = n := by
  unfold Note.copy; rw [limitD_id h]

@[simp] theorem Note.copy_kind (n : Note) : n.copy.kind = n.kind := rfl
@[simp] theorem Note.copy_val (n : Note) : n.copy.val = n.val := rfl
@[simp] theorem Note.copy_oct (n : Note) : n.copy.oct = n.oct := rfl

theorem Note.augment_frac {n : Note} {q : Rat} (h : Den n.dur) (hq : Den (n.dur * q)) :
    n.augment (.frac q) = .ok { n with dur := n.dur * q } := by
  unfold Note.augment; simp only [Note.copy_id h, limitD_id hq]

theorem Note.augment_int {n : Note} {i : Int} (h : Den n.dur) (hq : Den (n.dur * (i : Rat))) :
    n.augment (.int i) = .ok { n with dur := n.dur * (i : Rat) } := by
  unfold Note.augment; simp only [Note.copy_id h, limitD_id hq]

theorem Note.augment_float {n : Note} {x : Rat} (h : Den n.dur) (hx : Den x) (hq : Den (n.dur * x)) :
    n.augment (.float x) = .ok { n with dur := n.dur * x } := by
  unfold Note.augment; simp only [Note.copy_id h, limitD_id hx, limitD_id hq]

theorem Note.setDuration_frac {n : Note} {d : Rat} (h : Den n.dur) (hd : Den d) :
    n.setDuration (.frac d) = .ok { n with dur := d } := by
  unfold Note.setDuration; simp only [Note.copy_id h, limitD_id hd]

theorem Note.suffix_ok {n : Note} {item : String} {f : Rat} (h : Den n.dur)
    (hf : STR_TO_DURATION.lookup item = some f) : n.suffix item = .ok { n with dur := n.dur * f } := by
  unfold Note.suffix; simp only [hf, Note.copy_id h]

/-! ### melodies -/

/-- every note of the melody is inside the resolution -/
def DenM (m : Melody) : Prop := ∀ n ∈ m, Den n.dur

instance (m : Melody) : Decidable (DenM m) := by unfold DenM; exact inferInstance

theorem Melody.copy_id {m : Melody} (h : DenM m) : Melody.copy m = m := by
  unfold Melody.copy
  induction m with
  | nil => rfl
  | cons x xs ih =>
      simp only [List.map_cons]
      rw [Note.copy_id (h x (by simp)), ih (fun n hn => h n (by simp [hn]))]

@[simp] theorem Melody.duration_nil : Melody.duration [] = 0 := rfl

@[simp] theorem Melody.duration_cons (n : Note) (m : Melody) :
    Melody.duration (n :: m) = n.dur + Melody.duration m := by
  unfold Melody.duration; simp

theorem Melody.duration_append (a b : Melody) :
    Melody.duration (a ++ b) = Melody.duration a + Melody.duration b := by
  unfold Melody.duration; rw [List.map_append, sumRat_append]

theorem mapM_ok {α β : Type} (f : α → Res β) (g : α → β) (l : List α) (h : ∀ x ∈ l, f x = .ok (g x)) :
    l.mapM f = .ok (l.map g) := by
  induction l with
  | nil => rfl
  | cons x xs ih =>
      rw [List.mapM_cons, h x (by simp), ih (fun y hy => h y (by simp [hy]))]
      rfl

theorem mapM_error {α β : Type} (f : α → Res β) (e : Err) (l : List α) (hl : l ≠ [])
    (h : ∀ x ∈ l, f x = .error e) : l.mapM f = .error e := by
  cases l with
  | nil => exact absurd rfl hl
  | cons x xs => rw [List.mapM_cons, h x (by simp)]; rfl

theorem Melody.duration_map_mul (m : Melody) (q : Rat) :
    Melody.duration (m.map (fun n => { n with dur := n.dur * q })) = Melody.duration m * q := by
  unfold Melody.duration
  rw [List.map_map, ← sumRat_map_mul, List.map_map]
  rfl

/-! ### chords -/

theorem foldl_max_ge (l : List Rat) (a : Rat) :
    a ≤ l.foldl (fun a b => if b > a then b else a) a ∧
    ∀ x ∈ l, x ≤ l.foldl (fun a b => if b > a then b else a) a := by
  induction l generalizing a with
  | nil => simp
  | cons y ys ih =>
      simp only [List.foldl_cons]
      obtain ⟨h1, h2⟩ := ih (if y > a then y else a)
      have h3 : a ≤ (if y > a then y else a) := by split <;> [exact le_of_lt ‹_›; exact le_refl _]
      have h4 : y ≤ (if y > a then y else a) := by
        split
        · exact le_refl _
        · exact not_lt.mp ‹_›
      refine ⟨le_trans h3 h1, fun x hx => ?_⟩
      rcases List.mem_cons.mp hx with rfl | hx
      · exact le_trans h4 h1
      · exact h2 x hx

theorem foldl_max_mem (l : List Rat) (a : Rat) :
    l.foldl (fun a b => if b > a then b else a) a = a ∨
    l.foldl (fun a b => if b > a then b else a) a ∈ l := by
  induction l generalizing a with
  | nil => simp
  | cons y ys ih =>
      simp only [List.foldl_cons]
      rcases ih (if y > a then y else a) with h | h
      · rw [h]; split
        · right; simp
        · left; rfl
      · right; exact List.mem_cons_of_mem _ h

/-- Python's `max` on a non-empty list: an upper bound that is attained -/
theorem maxRat_spec (x : Rat) (xs : List Rat) :
    (∀ y ∈ x :: xs, y ≤ maxRat (x :: xs)) ∧ maxRat (x :: xs) ∈ x :: xs := by
  have hm : maxRat (x :: xs) = xs.foldl (fun a b => if b > a then b else a) x := rfl
  rw [hm]
  obtain ⟨h1, h2⟩ := foldl_max_ge xs x
  refine ⟨fun y hy => ?_, ?_⟩
  · rcases List.mem_cons.mp hy with rfl | hy
    · exact h1
    · exact h2 y hy
  · rcases foldl_max_mem xs x with h | h
    · rw [h]; simp
    · exact List.mem_cons_of_mem _ h

theorem maxRat_unique (x : Rat) (xs : List Rat) (M : Rat) (hub : ∀ y ∈ x :: xs, y ≤ M) (hm : M ∈ x :: xs) :
    maxRat (x :: xs) = M := by
  obtain ⟨h1, h2⟩ := maxRat_spec x xs
  exact le_antisymm (hub _ h2) (h1 _ hm)

theorem maxRat_map_mul (x : Rat) (xs : List Rat) (q : Rat) (hq : 0 ≤ q) :
    maxRat ((x :: xs).map (· * q)) = maxRat (x :: xs) * q := by
  obtain ⟨h1, h2⟩ := maxRat_spec x xs
  have hc : (x :: xs).map (· * q) = x * q :: xs.map (· * q) := rfl
  rw [hc]
  apply maxRat_unique
  · intro y hy
    rw [← hc] at hy
    obtain ⟨z, hz, rfl⟩ := List.mem_map.mp hy
    exact mul_le_mul_of_nonneg_right (h1 z hz) hq
  · rw [← hc]
    exact List.mem_map.mpr ⟨_, h2, rfl⟩

theorem maxRat_const (x : Rat) (xs : List Rat) (d : Rat) (h : ∀ y ∈ x :: xs, y = d) : maxRat (x :: xs) = d := by
  apply maxRat_unique
  · intro y hy; rw [h y hy]
  · have := h x (by simp); rw [this]; simp

/-- every note of every part is inside the resolution -/
def DenC (c : Chord) : Prop := ∀ p ∈ c.parts, DenM p.2

instance (c : Chord) : Decidable (DenC c) := by unfold DenC; exact inferInstance

def DenS (s : Score) : Prop := ∀ c ∈ s, DenC c

instance (s : Score) : Decidable (DenS s) := by unfold DenS; exact inferInstance

theorem map_copy_parts_id {ps : List (String × Melody)} (h : ∀ p ∈ ps, DenM p.2) :
    ps.map (fun p => (p.1, Melody.copy p.2)) = ps := by
  induction ps with
  | nil => rfl
  | cons x xs ih =>
      simp only [List.map_cons]
      rw [Melody.copy_id (h x (by simp)), ih (fun p hp => h p (by simp [hp]))]

theorem Chord.copy_id {c : Chord} (h : DenC c) : c.copy = c := by
  unfold Chord.copy; rw [map_copy_parts_id h]

theorem Chord.withParts_id (c : Chord) {ps : List (String × Melody)} (h : ∀ p ∈ ps, DenM p.2) :
    c.withParts ps = { c with parts := ps } := by
  unfold Chord.withParts; rw [map_copy_parts_id h]

theorem Score.copy_id {s : Score} (h : DenS s) : Score.copy s = s := by
  unfold Score.copy
  induction s with
  | nil => rfl
  | cons x xs ih =>
      simp only [List.map_cons]
      rw [Chord.copy_id (h x (by simp)), ih (fun c hc => h c (by simp [hc]))]

theorem mapParts_ok (f : Melody → Res Melody) (g : Melody → Melody) (ps : List (String × Melody))
    (h : ∀ p ∈ ps, f p.2 = .ok (g p.2)) : mapParts f ps = .ok (ps.map (fun p => (p.1, g p.2))) := by
  induction ps with
  | nil => rfl
  | cons x xs ih =>
      unfold mapParts
      rw [h x (by simp), ih (fun p hp => h p (by simp [hp]))]
      rfl

@[simp] theorem Score.duration_nil : Score.duration [] = 0 := rfl

@[simp] theorem Score.duration_cons (c : Chord) (s : Score) :
    Score.duration (c :: s) = c.duration + Score.duration s := by
  unfold Score.duration; simp

theorem Score.duration_append (a b : Score) :
    Score.duration (a ++ b) = Score.duration a + Score.duration b := by
  unfold Score.duration; rw [List.map_append, sumRat_append]

theorem DenS_append {a b : Score} (ha : DenS a) (hb : DenS b) : DenS (a ++ b) := by
  intro c hc
  rcases List.mem_append.mp hc with h | h
  · exact ha c h
  · exact hb c h

theorem Score.add_id {a b : Score} (ha : DenS a) (hb : DenS b) : Score.add a b = a ++ b := by
  unfold Score.add; rw [Score.copy_id ha, Score.copy_id hb]


/-! ### decompose_duration -/

/-- what the decomposition needs from the figure table (decidable, re-proved on every run on the
generated table): every non-zero figure is positive, inside the resolution and a multiple of
`1 / tableLcm` -/
def DurTableOK : Prop :=
  0 < tableLcm ∧
  ∀ p ∈ DURATION_TO_STR, p.1 ≠ 0 → (0 < p.1 ∧ Den p.1 ∧ (p.1 * (tableLcm : Rat)).den = 1)

instance : Decidable DurTableOK := by unfold DurTableOK; exact inferInstance

theorem inDurTable_iff (d : Rat) : inDurTable d = true ↔ ∃ p ∈ DURATION_TO_STR, p.1 = d := by
  unfold inDurTable
  simp [List.any_eq_true]

theorem cand_mem {d c : Rat} (h : c ∈ decompCandidates d) :
    (∃ p ∈ DURATION_TO_STR, p.1 = c) ∧ c ≠ 0 ∧ (d / c).den = 1 ∧ c < d := by
  unfold decompCandidates at h
  simp only [List.mem_filter, List.mem_map, Bool.and_eq_true, beq_iff_eq, decide_eq_true_eq, bne_iff_ne, ne_eq] at h
  obtain ⟨⟨⟨p, hp, rfl⟩, h0⟩, h1, h2⟩ := h
  exact ⟨⟨p, hp, rfl⟩, h0, h1, h2⟩

theorem maxRat_mem {l : List Rat} (h : l ≠ []) : maxRat l ∈ l := by
  cases l with
  | nil => exact absurd rfl h
  | cons x xs => exact (maxRat_spec x xs).2

theorem step_facts (hT : DurTableOK) {d c : Rat} (hc : c ∈ decompCandidates d) :
    0 < c ∧ Den c ∧ c < d ∧ Den d ∧ Den (d - c) ∧ inDurTable c = true ∧ 1 ≤ c * (tableLcm : Rat) := by
  obtain ⟨⟨p, hp, rfl⟩, h0, h1, h2⟩ := cand_mem hc
  obtain ⟨hpos, hden, hK⟩ := hT.2 p hp h0
  have hm : (((d / p.1).num : Int) : Rat) = d / p.1 := Rat.coe_int_num_of_den_eq_one h1
  have hd : d = (((d / p.1).num : Int) : Rat) * p.1 := by rw [hm, div_mul_cancel₀ d h0]
  have hdc : d - p.1 = (((d / p.1).num - 1 : Int) : Rat) * p.1 := by
    push_cast; rw [hm, sub_mul, div_mul_cancel₀ d h0]; ring
  refine ⟨hpos, hden, h2, ?_, ?_, (inDurTable_iff _).mpr ⟨p, hp, rfl⟩, ?_⟩
  · rw [hd]; exact den_of_int_mul hden
  · rw [hdc]; exact den_of_int_mul hden
  · have hz : (((p.1 * (tableLcm : Rat)).num : Int) : Rat) = p.1 * (tableLcm : Rat) := Rat.coe_int_num_of_den_eq_one hK
    have hKpos : (0 : Rat) < (tableLcm : Rat) := by exact_mod_cast hT.1
    have hpos' : (0 : Rat) < p.1 * (tableLcm : Rat) := mul_pos hpos hKpos
    rw [← hz] at hpos' ⊢
    exact_mod_cast (Int.cast_pos.mp hpos')

def RecShape (note : Note) (l : List Note) : Prop :=
  ∃ (c : Rat) (tl : List Note), l = { note with dur := c } :: tl ∧
    (∀ x ∈ tl, x.kind = .l ∧ x.val = 0 ∧ x.oct = 0) ∧
    c + sumRat (tl.map (·.dur)) = note.dur ∧
    (tl = [] → c = note.dur) ∧
    (tl ≠ [] → Den note.dur ∧ c ≠ 0 ∧ Den c ∧ inDurTable c = true ∧
       (∀ x ∈ tl.dropLast, inDurTable x.dur = true) ∧ (∀ x ∈ tl, Den x.dur))

theorem recShape_single (note : Note) : RecShape note [note] :=
  ⟨note.dur, [], rfl, by simp, by simp, fun _ => rfl, fun h => absurd rfl h⟩

theorem decompRecurse_spec (hT : DurTableOK) : ∀ (fuel : Nat) (note : Note),
    note.dur * (tableLcm : Rat) + 1 ≤ (fuel : Rat) → 1 ≤ fuel →
    ∃ l, decompRecurse fuel note = .ok l ∧ RecShape note l := by
  intro fuel
  induction fuel with
  | zero => intro note _ h; omega
  | succ f ih =>
    intro note hf _
    unfold decompRecurse
    by_cases h1 : inDurTable note.dur = true
    · simp only [h1, if_true]; exact ⟨_, rfl, recShape_single note⟩
    · simp only [h1]
      by_cases h2 : (decompCandidates note.dur).length = 0
      · simp only [h2, if_true]; exact ⟨_, rfl, recShape_single note⟩
      · simp only [h2, if_false]
        have hc : maxRat (decompCandidates note.dur) ∈ decompCandidates note.dur :=
          maxRat_mem (by intro h; simp [h] at h2)
        obtain ⟨hpos, hdc, hlt, hdd, hdr, htab, hK⟩ := step_facts hT hc
        generalize maxRat (decompCandidates note.dur) = c at *
        have hd0 : note.dur ≠ 0 := by intro h; rw [h] at hlt; linarith
        have e1 : note.dur * (c / note.dur) = c := mul_div_cancel₀ c hd0
        have hb : note.augment (.frac (c / note.dur)) = .ok { note with dur := c } := by
          rw [Note.augment_frac hdd (by rw [e1]; exact hdc), e1]
        have e2 : note.dur * ((note.dur - c) / note.dur) = note.dur - c := mul_div_cancel₀ _ hd0
        have hn : note.augment (.frac ((note.dur - c) / note.dur)) = .ok { note with dur := note.dur - c } := by
          rw [Note.augment_frac hdd (by rw [e2]; exact hdr), e2]
        have hcont : continuation (note.dur - c) = { kind := .l, val := 0, oct := 0, dur := note.dur - c } := by
          unfold continuation; rw [limitD_id hdr]
        have hrest : (note.dur - c) * (tableLcm : Rat) + 1 ≤ (f : Rat) := by
          have : ((f + 1 : Nat) : Rat) = (f : Rat) + 1 := by push_cast; ring
          rw [this] at hf
          nlinarith
        have hKpos : (0 : Rat) < (tableLcm : Rat) := by exact_mod_cast hT.1
        have hf1 : 1 ≤ f := by
          have h3 : (0 : Rat) < (note.dur - c) * (tableLcm : Rat) := mul_pos (by linarith) hKpos
          have h4 : (1 : Rat) < (f : Rat) := by linarith
          exact_mod_cast h4.le
        obtain ⟨rest, hr, c', tl', hl, hk, hsum, hnil, hcons⟩ := ih (continuation (note.dur - c)) (by rw [hcont]; exact hrest) hf1
        simp only [Bool.false_eq_true, if_false, hd0, hb, hn, bind, Except.bind, hr, pure, Except.pure]
        refine ⟨_, rfl, c, rest, rfl, ?_, ?_, ?_, ?_⟩
        · intro x hx
          rw [hl] at hx
          rcases List.mem_cons.mp hx with rfl | hx
          · rw [hcont]; exact ⟨rfl, rfl, rfl⟩
          · exact hk x hx
        · rw [hl]; simp only [List.map_cons, sumRat_cons]
          rw [hsum, hcont]; ring
        · intro h; rw [hl] at h; exact absurd h (by simp)
        · intro _
          refine ⟨hdd, ne_of_gt hpos, hdc, htab, ?_, ?_⟩
          · intro x hx
            rw [hl] at hx
            cases tl' with
            | nil => simp at hx
            | cons y ys =>
                rw [List.dropLast_cons_cons] at hx
                rcases List.mem_cons.mp hx with rfl | hx
                · exact (hcons (by simp)).2.2.2.1
                · exact (hcons (by simp)).2.2.2.2.1 x hx
          · intro x hx
            rw [hl] at hx
            rcases List.mem_cons.mp hx with rfl | hx
            · cases tl' with
              | nil => rw [hnil rfl, hcont]; exact hdr
              | cons y ys => exact (hcons (by simp)).2.2.1
            · exact (hcons (by intro h; rw [h] at hx; simp at hx)).2.2.2.2.2 x hx

theorem le_num_toNat (d : Rat) : d ≤ (d.num.toNat : Rat) := by
  by_cases h : 0 ≤ d.num
  · have h0 : 0 ≤ d := Rat.num_nonneg.mp h
    have h1 : ((d.num.toNat : Nat) : Rat) = (d.num : Rat) := by
      have : ((d.num.toNat : Nat) : Int) = d.num := Int.toNat_of_nonneg h
      exact_mod_cast this
    have h2 : d * (d.den : Rat) = (d.num : Rat) := Rat.mul_den_eq_num d
    have h3 : (1 : Rat) ≤ (d.den : Rat) := by exact_mod_cast d.den_pos
    rw [h1, ← h2]
    calc d = d * 1 := (mul_one d).symm
      _ ≤ d * (d.den : Rat) := mul_le_mul_of_nonneg_left h3 h0
  · have : d < 0 := Rat.num_neg.mp (by omega)
    have h5 : (0 : Rat) ≤ (d.num.toNat : Rat) := Nat.cast_nonneg _
    linarith

theorem decompFuel_enough (d : Rat) :
    d * (tableLcm : Rat) + 1 ≤ ((decompFuel d : Nat) : Rat) ∧ 1 ≤ decompFuel d := by
  unfold decompFuel
  refine ⟨?_, by omega⟩
  have hK : (0 : Rat) ≤ (tableLcm : Rat) := Nat.cast_nonneg _
  have := mul_le_mul_of_nonneg_right (le_num_toNat d) hK
  push_cast
  linarith

theorem sumRat_reverse (l : List Rat) : sumRat l.reverse = sumRat l := by
  induction l with
  | nil => rfl
  | cons x xs ih => rw [List.reverse_cons, sumRat_append, ih]; simp; ring

theorem pyIndex_zero_cons (a : α) (l : List α) : pyIndex (a :: l) 0 = .ok a := by
  unfold pyIndex; simp

theorem pyIndex_last (l : List α) (b : α) : pyIndex (l ++ [b]) (-1) = .ok b := by
  unfold pyIndex
  have h1 : ((-1 : Int) < 0) := by decide
  simp only [h1, if_true, List.length_append, List.length_singleton]
  have h2 : (-1 + ((l.length + 1 : Nat) : Int)) = (l.length : Int) := by push_cast; ring
  rw [h2]
  have h3 : ¬ ((l.length : Int) < 0 ∨ (l.length : Int) ≥ ((l.length + 1 : Nat) : Int)) := by push_cast; omega
  simp only [h3, if_false, Int.toNat_natCast]
  simp

theorem pyIndex_last_cons (a : α) (l : List α) (b : α) : pyIndex (a :: (l ++ [b])) (-1) = .ok b :=
  pyIndex_last (a :: l) b

theorem set_first_last (a : α) (mid : List α) (b x y : α) :
    ((a :: (mid ++ [b])).set 0 x).set ((a :: (mid ++ [b])).length - 1) y = x :: (mid ++ [y]) := by
  have hlen : (a :: (mid ++ [b])).length - 1 = mid.length + 1 := by simp
  rw [hlen, List.set_cons_zero, List.set_cons_succ]
  congr 1
  rw [List.set_append_right _ _ (by omega)]
  simp

/-- `Note.decompose_duration` on *every* note: never an error; the result is the note itself
(fields unchanged, shorter) followed only by fresh continuations whose durations are table
figures; the durations add up to the note's duration -/
theorem decompose_note (hT : DurTableOK) (n : Note) :
    ∃ (c : Rat) (tl : List Note), n.decomposeDuration = .ok ({ n with dur := c } :: tl) ∧
      (∀ x ∈ tl, x.kind = .l ∧ x.val = 0 ∧ x.oct = 0 ∧ inDurTable x.dur = true ∧ Den x.dur) ∧
      c + sumRat (tl.map (·.dur)) = n.dur ∧ (tl = [] → c = n.dur) ∧ (tl ≠ [] → Den c) := by
  obtain ⟨hf1, hf2⟩ := decompFuel_enough n.dur
  obtain ⟨l, hl, c, tl, hl2, hk, hsum, hnil, hcons⟩ := decompRecurse_spec hT _ n hf1 hf2
  unfold Note.decomposeDuration
  simp only [hl, bind, Except.bind]
  rcases List.eq_nil_or_concat tl with htl | ⟨L, pk, htl⟩
  · subst htl
    rw [hl2]
    simp only [List.length_singleton, gt_iff_lt, Nat.lt_irrefl, if_false, pure, Except.pure]
    exact ⟨c, [], rfl, by simp, hsum, hnil, fun h => absurd rfl h⟩
  · rw [List.concat_eq_append] at htl
    have hne : tl ≠ [] := by rw [htl]; simp
    obtain ⟨hdn, hc0, hdc, htab, hdrop, hden⟩ := hcons hne
    have hlen : l.length > 1 := by rw [hl2, htl]; simp
    have hrev : l.reverse = pk :: (L.reverse ++ [{ n with dur := c }]) := by
      rw [hl2, htl]; simp
    have hpk : Den pk.dur := hden pk (by rw [htl]; simp)
    have e1 : c * (pk.dur / c) = pk.dur := mul_div_cancel₀ _ hc0
    have haug : Note.augment (Note.copy { n with dur := c }) (.frac (pk.dur / c)) = .ok { n with dur := pk.dur } := by
      rw [Note.copy_id (n := { n with dur := c }) hdc,
          Note.augment_frac (n := { n with dur := c }) hdc (by show Den (c * (pk.dur / c)); rw [e1]; exact hpk)]
      show Except.ok { n with dur := c * (pk.dur / c) } = _
      rw [e1]
    simp only [hlen, if_true, hrev, pyIndex_zero_cons, pyIndex_last_cons, hc0, if_false, haug, set_first_last,
      pure, Except.pure]
    refine ⟨pk.dur, L.reverse ++ [continuation c], rfl, ?_, ?_, fun h => by simp at h, fun _ => hpk⟩
    · intro x hx
      rcases List.mem_append.mp hx with hx | hx
      · have hxL : x ∈ L := List.mem_reverse.mp hx
        have hxt : x ∈ tl := by rw [htl]; simp [hxL]
        have hxd : x ∈ tl.dropLast := by rw [htl, List.dropLast_concat]; exact hxL
        obtain ⟨a, b, c'⟩ := hk x hxt
        exact ⟨a, b, c', hdrop x hxd, hden x hxt⟩
      · simp only [List.mem_singleton] at hx
        subst hx
        unfold continuation
        rw [limitD_id hdc]
        exact ⟨rfl, rfl, rfl, htab, hdc⟩
    · rw [← hsum, htl]
      simp only [List.map_append, List.map_reverse, List.map_cons, List.map_nil, sumRat_append, sumRat_reverse,
        sumRat_cons, sumRat_nil]
      unfold continuation
      rw [limitD_id hdc]
      show pk.dur + (sumRat (List.map (fun x => x.dur) L) + (c + 0)) = _
      ring

/-- the pieces `Note.decompose_duration` produces (it never fails: `decompose_note`) -/
def piecesOf (n : Note) : List Note :=
  match n.decomposeDuration with
  | .ok l => l
  | .error _ => [n]

/-- one note and its pieces: the note itself, shorter, then fresh continuations with table
durations, same total -/
def Pieces (n : Note) (g : List Note) : Prop :=
  ∃ (c : Rat) (tl : List Note), g = { n with dur := c } :: tl ∧
    (∀ x ∈ tl, x.kind = .l ∧ x.val = 0 ∧ x.oct = 0 ∧ inDurTable x.dur = true ∧ Den x.dur) ∧
    c + sumRat (tl.map (·.dur)) = n.dur ∧ (tl = [] → c = n.dur) ∧ (tl ≠ [] → Den c)

theorem piecesOf_spec (hT : DurTableOK) (n : Note) :
    n.decomposeDuration = .ok (piecesOf n) ∧ Pieces n (piecesOf n) := by
  obtain ⟨c, tl, h, rest⟩ := decompose_note hT n
  unfold piecesOf
  rw [h]
  exact ⟨rfl, c, tl, rfl, rest⟩

theorem Pieces.duration {n : Note} {g : List Note} (h : Pieces n g) : Melody.duration g = n.dur := by
  obtain ⟨c, tl, rfl, _, hs, _⟩ := h
  unfold Melody.duration
  simpa using hs

theorem Pieces.denM {n : Note} {g : List Note} (h : Pieces n g) (hn : Den n.dur) : DenM g := by
  obtain ⟨c, tl, rfl, hk, _, hnil, hcons⟩ := h
  intro x hx
  rcases List.mem_cons.mp hx with rfl | hx
  · show Den c
    by_cases ht : tl = []
    · rw [hnil ht]; exact hn
    · exact hcons ht
  · exact (hk x hx).2.2.2.2

theorem flatMap_pieces_duration (hT : DurTableOK) (m : Melody) :
    Melody.duration (m.flatMap piecesOf) = Melody.duration m := by
  induction m with
  | nil => rfl
  | cons x xs ih =>
      rw [List.flatMap_cons, Melody.duration_append, ih, (piecesOf_spec hT x).2.duration, Melody.duration_cons]

theorem flatMap_pieces_denM (hT : DurTableOK) (m : Melody) (h : DenM m) : DenM (m.flatMap piecesOf) := by
  intro x hx
  obtain ⟨n, hn, hxn⟩ := List.mem_flatMap.mp hx
  exact (piecesOf_spec hT n).2.denM (h n hn) x hxn

theorem Melody.decomposeDuration_ok (hT : DurTableOK) (m : Melody) (hne : m ≠ [])
    (h0 : ∀ n, m.head? = some n → Den n.dur) :
    Melody.decomposeDuration m = .ok (m.flatMap piecesOf) := by
  unfold Melody.decomposeDuration
  have hlen : ¬ m.length = 0 := by intro h; exact hne (List.eq_nil_of_length_eq_zero h)
  simp only [hlen, if_false]
  rw [mapM_ok Note.decomposeDuration piecesOf m (fun n _ => (piecesOf_spec hT n).1)]
  cases m with
  | nil => exact absurd rfl hne
  | cons x xs =>
      simp only [bind, Except.bind, List.map_cons, pure, Except.pure, List.flatMap_cons]
      rw [Melody.copy_id ((piecesOf_spec hT x).2.denM (h0 x rfl))]
      rfl

theorem Melody.decomposeDuration_nil : Melody.decomposeDuration [] = .error .attr := rfl

theorem Chord.duration_map_scale (c : Chord) (g : Melody → Melody) (q : Rat) (hq : 0 ≤ q) (hne : c.parts ≠ [])
    (hg : ∀ p ∈ c.parts, Melody.duration (g p.2) = Melody.duration p.2 * q) :
    Chord.duration { c with parts := c.parts.map (fun p => (p.1, g p.2)) } = c.duration * q := by
  cases hp : c.parts with
  | nil => exact absurd hp hne
  | cons x xs =>
      unfold Chord.duration
      simp only [hp, List.map_cons]
      rw [← maxRat_map_mul _ _ _ hq, List.map_cons, List.map_map, List.map_map]
      rw [hp] at hg
      congr 1
      rw [hg x (by simp)]
      congr 1
      apply List.map_congr_left
      intro p hp'
      exact hg p (by simp [hp'])

theorem Chord.duration_map_const (c : Chord) (g : Melody → Melody) (d : Rat) (hne : c.parts ≠ [])
    (hg : ∀ p ∈ c.parts, Melody.duration (g p.2) = d) :
    Chord.duration { c with parts := c.parts.map (fun p => (p.1, g p.2)) } = d := by
  cases hp : c.parts with
  | nil => exact absurd hp hne
  | cons x xs =>
      unfold Chord.duration
      simp only [List.map_cons]
      apply maxRat_const
      intro y hy
      rw [hp] at hg
      rcases List.mem_cons.mp hy with rfl | hy
      · exact hg x (by simp)
      · rw [List.map_map] at hy
        obtain ⟨p, hp', rfl⟩ := List.mem_map.mp hy
        exact hg p (by simp [hp'])

theorem Chord.withSilence_duration (c : Chord) (d : Rat) (hd : Den d) : (c.withSilence d).duration = d := by
  unfold Chord.withSilence Chord.duration silence
  simp [maxRat, Melody.duration, limitD_id hd]

theorem mapM_exists {α β : Type} (f : α → Res β) (P : α → β → Prop) (l : List α)
    (h : ∀ x ∈ l, ∃ y, f x = .ok y ∧ P x y) :
    ∃ ys, l.mapM f = .ok ys ∧ List.Forall₂ P l ys := by
  induction l with
  | nil => exact ⟨[], rfl, List.Forall₂.nil⟩
  | cons x xs ih =>
      obtain ⟨y, hy, hp⟩ := h x (by simp)
      obtain ⟨ys, hys, hps⟩ := ih (fun z hz => h z (by simp [hz]))
      refine ⟨y :: ys, ?_, List.Forall₂.cons hp hps⟩
      rw [List.mapM_cons, hy, hys]; rfl

theorem forall₂_right {α β : Type} {Q : β → Prop} {l : List α} {ys : List β}
    (h : List.Forall₂ (fun _ y => Q y) l ys) : ys.length = l.length ∧ ∀ y ∈ ys, Q y := by
  induction h with
  | nil => simp
  | cons hq _ ih =>
      refine ⟨by simp [ih.1], fun y hy => ?_⟩
      rcases List.mem_cons.mp hy with rfl | hy
      · exact hq
      · exact ih.2 y hy

theorem sumRat_const (l : List Rat) (d : Rat) (h : ∀ x ∈ l, x = d) : sumRat l = (l.length : Rat) * d := by
  induction l with
  | nil => simp
  | cons x xs ih =>
      rw [sumRat_cons, h x (by simp), ih (fun y hy => h y (by simp [hy]))]
      simp only [List.length_cons]; push_cast; ring

theorem onsets_aux (m : Melody) (t : Rat) (acc : List Rat) :
    (m.foldl (fun (a : Rat × List Rat) n => (a.1 + n.dur, a.1 :: a.2)) (t, acc)).2.reverse
      = acc.reverse ++ (List.range m.length).map (fun i => t + Melody.duration (m.take i)) := by
  induction m generalizing t acc with
  | nil => simp
  | cons x xs ih =>
      simp only [List.foldl_cons, List.length_cons]
      rw [ih, List.range_succ_eq_map, List.map_cons, List.map_map, List.reverse_cons, List.append_assoc]
      congr 1
      simp only [List.singleton_append, List.take_zero, Melody.duration_nil, Rat.add_zero, List.cons.injEq, true_and]
      apply List.map_congr_left
      intro i _
      simp only [Function.comp, List.take_succ_cons, Melody.duration_cons]
      ring

theorem score_mul_fold (s : Score) (hs : DenS s) (j : Nat) (acc : Score) (hacc : DenS acc) :
    DenS ((List.replicate j s).foldl Score.add acc) ∧
    Score.duration ((List.replicate j s).foldl Score.add acc) = Score.duration acc + (j : Rat) * Score.duration s := by
  induction j generalizing acc with
  | zero => simp [hacc]
  | succ j ih =>
      rw [List.replicate_succ, List.foldl_cons, Score.add_id hacc hs]
      obtain ⟨h1, h2⟩ := ih (acc ++ s) (DenS_append hacc hs)
      refine ⟨h1, ?_⟩
      rw [h2, Score.duration_append]; push_cast; ring

theorem sumRat_forall₂_scale {s s' : Score} {q : Rat}
    (h : List.Forall₂ (fun c c' => Chord.duration c' = q * Chord.duration c) s s') :
    Score.duration s' = q * Score.duration s := by
  induction h with
  | nil => simp
  | cons hq _ ih => rw [Score.duration_cons, Score.duration_cons, hq, ih]; ring

end MV
