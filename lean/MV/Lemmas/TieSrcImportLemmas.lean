/-
Helper lemmas of the source tie of the group `SrcImport` (`MV/Props/TieSrcImport.lean`, DESIGN.md §9.6): Python list surgery on
the last item (`xs[-1].duration -= …`, `xs.pop()`) against the model's `trimLast`; the loop of `_parse_voice` as generated
(a fold over `enumerate(voice_notes)`) against the model's structural recursion `voiceLoop`; `infer_score_with_chords_durations` re-stated in
the shape of the source (`inferScoreS`: nested loops over tracks and voices, the score as a list that grows at the end) and proved
equal to the model's `inferScore` (groups by `flatMap` / `filterMap`, the bar loop as a recursion that conses the score).
-/
import MV.Gen.SrcImport

set_option linter.unusedSimpArgs false

namespace MV.Tie
open MV

/-! ### Python list surgery on the last / first item -/

theorem pyIndex_last (init : List α) (x : α) : pyIndex (init ++ [x]) (-1) = .ok x := by
  unfold pyIndex
  simp only [List.length_append, List.length_singleton]
  have h1 : ((-1 : Int) < 0) := by omega
  simp only [h1, if_true]
  have h2 : ¬ ((-1 : Int) + ((init.length + 1 : Nat) : Int) < 0 ∨ (-1 : Int) + ((init.length + 1 : Nat) : Int) ≥ ((init.length + 1 : Nat) : Int)) := by omega
  simp only [h2, if_false]
  have h3 : ((-1 : Int) + ((init.length + 1 : Nat) : Int)).toNat = init.length := by omega
  rw [h3]
  simp

theorem pyIndex_last_nil : pyIndex ([] : List α) (-1) = .error .index := by
  simp [pyIndex]

theorem setItem_last (init : List α) (x v : α) : PyL.setItem (init ++ [x]) (-1) v = .ok (init ++ [v]) := by
  unfold PyL.setItem PyL.normIdx
  simp only [List.length_append, List.length_singleton]
  have h1 : ((-1 : Int) < 0) := by omega
  simp only [h1, if_true]
  have h2 : ¬ ((-1 : Int) + ((init.length + 1 : Nat) : Int) < 0 ∨ (-1 : Int) + ((init.length + 1 : Nat) : Int) ≥ ((init.length + 1 : Nat) : Int)) := by omega
  simp only [h2, if_false]
  have h3 : ((-1 : Int) + ((init.length + 1 : Nat) : Int)).toNat = init.length := by omega
  rw [h3]
  simp

theorem popAt_last (init : List α) (x : α) : PyL.popAt (init ++ [x]) (-1) = .ok init := by
  unfold PyL.popAt PyL.normIdx
  simp only [List.length_append, List.length_singleton]
  have h1 : ((-1 : Int) < 0) := by omega
  simp only [h1, if_true]
  have h2 : ¬ ((-1 : Int) + ((init.length + 1 : Nat) : Int) < 0 ∨ (-1 : Int) + ((init.length + 1 : Nat) : Int) ≥ ((init.length + 1 : Nat) : Int)) := by omega
  simp only [h2, if_false]
  have h3 : ((-1 : Int) + ((init.length + 1 : Nat) : Int)).toNat = init.length := by omega
  rw [h3, List.eraseIdx_append_of_length_le (by omega)]
  simp

theorem trimLast_nil (x : Rat) : trimLast [] x = .error .index := rfl

theorem trimLast_concat (init : List Note) (n : Note) (x : Rat) :
    trimLast (init ++ [n]) x = if n.dur - x = 0 then .ok init else .ok (init ++ [{ n with dur := n.dur - x }]) := by
  unfold trimLast
  simp

/-! ### the loop of `_parse_voice` -/

theorem ok_bind {α β : Type} (a : α) (f : α → Res β) : (Except.ok a >>= f) = f a := rfl
theorem error_bind {α β : Type} (e : Err) (f : α → Res β) : ((Except.error e : Res α) >>= f) = Except.error e := rfl

def stepStop (notes : List Item) (be : Rat) (isDrum : Bool) (idx : Int) (it : Item) : Res Rat :=
  if isDrum then
    (if idx < Py.len notes - 1 then (do let nx ← pyIndex notes (idx + 1); pure nx.start) else pure be)
  else pure it.stop

def stepBody (c : Chord) (tick : Rat) (m : Melody) (lte : Rat) (it : Item) (stop : Rat) : Res Melody :=
  if lte - it.start > 0 then do
    let m ← trimLast m ((lte - it.start) * tick)
    appendParsed c it (stop - it.start) tick m
  else if lte - it.start < 0 then
    if stop - it.start > 0 then appendParsed c it (stop - it.start) tick (m ++ [mkSilence (-(lte - it.start) * tick)])
    else pure (m ++ [mkSilence (-(lte - it.start) * tick)])
  else
    if stop - it.start > 0 then appendParsed c it (stop - it.start) tick m else pure m

def stepM (c : Chord) (notes : List Item) (be tick : Rat) (isDrum : Bool) (st : Melody × Rat) (p : Int × Item) :
    Res (Melody × Rat) := do
  let stop ← stepStop notes be isDrum p.1 p.2
  let m ← stepBody c tick st.1 st.2 p.2 stop
  pure (m, stop)

theorem pyIndex_append_cons (pre : List α) (x : α) (rest : List α) :
    pyIndex (pre ++ x :: rest) (pre.length : Int) = .ok x := by
  unfold pyIndex
  have h1 : ¬ ((pre.length : Int) < 0) := by omega
  simp only [h1, if_false, Int.toNat_natCast]
  simp
  omega

/-- the end of a note as the loop sees it: for drums the start of the next note of the voice (the bar end for the last one) -/
def drumStop (isDrum : Bool) (it : Item) (rest : List Item) (be : Rat) : Rat :=
  if isDrum then (match rest with | nx :: _ => nx.start | [] => be) else it.stop

theorem stepStop_eq (pre : List Item) (it : Item) (rest : List Item) (be : Rat) (isDrum : Bool) :
    stepStop (pre ++ it :: rest) be isDrum (pre.length : Int) it = .ok (drumStop isDrum it rest be) := by
  unfold stepStop drumStop
  cases isDrum
  · rfl
  · simp only [if_true]
    cases rest with
    | nil =>
      have : ¬ ((pre.length : Int) < Py.len (pre ++ [it]) - 1) := by simp [Py.len]
      simp only [this, if_false]; rfl
    | cons nx r =>
      have : ((pre.length : Int) < Py.len (pre ++ it :: nx :: r) - 1) := by simp [Py.len]; omega
      simp only [this, if_true]
      have e : pre ++ it :: nx :: r = (pre ++ [it]) ++ nx :: r := by simp
      have l : ((pre.length : Int) + 1) = ((pre ++ [it]).length : Int) := by simp
      rw [e, l, pyIndex_append_cons]
      rfl

theorem voiceLoop_body (c : Chord) (tick : Rat) (it : Item) (m : Melody) (lte stop : Rat) {β : Type} (k : Melody → Res β) :
    (if lte - it.start > 0 then do
        let m ← trimLast m ((lte - it.start) * tick)
        let m ← appendParsed c it (stop - it.start) tick m
        k m
      else if lte - it.start < 0 then
        (if stop - it.start > 0 then do
          let m ← appendParsed c it (stop - it.start) tick (m ++ [mkSilence (-(lte - it.start) * tick)])
          k m
        else do
          let m ← pure (m ++ [mkSilence (-(lte - it.start) * tick)])
          k m)
      else
        (if stop - it.start > 0 then do
          let m ← appendParsed c it (stop - it.start) tick m
          k m
        else do
          let m ← pure m
          k m))
      = (do let m' ← stepBody c tick m lte it stop; k m') := by
  unfold stepBody
  by_cases h1 : lte - it.start > 0
  · simp only [h1, if_true, bind_assoc]
  · by_cases h2 : lte - it.start < 0 <;> by_cases h3 : stop - it.start > 0 <;>
      simp only [h1, h2, h3, if_true, if_false, pure_bind]

theorem voiceLoop_cons (c : Chord) (be tick : Rat) (isDrum : Bool) (it : Item) (rest : List Item) (m : Melody) (lte : Rat) :
    voiceLoop c be tick isDrum (it :: rest) m lte
      = (do let m' ← stepBody c tick m lte it (drumStop isDrum it rest be)
            voiceLoop c be tick isDrum rest m' (drumStop isDrum it rest be)) := by
  conv => lhs; unfold voiceLoop
  cases rest <;> cases isDrum <;> exact voiceLoop_body c tick it m lte _ _

theorem fold_stepM (c : Chord) (be tick : Rat) (isDrum : Bool) (rest : List Item) :
    ∀ (pre : List Item) (m : Melody) (lte : Rat),
      (PyI.enumerateFrom (pre.length : Int) rest).foldlM (stepM c (pre ++ rest) be tick isDrum) (m, lte)
        = voiceLoop c be tick isDrum rest m lte := by
  induction rest with
  | nil => intro pre m lte; rfl
  | cons it rest ih =>
    intro pre m lte
    have ih' := ih (pre ++ [it])
    have e : (pre ++ [it]) ++ rest = pre ++ it :: rest := by simp
    have l : (((pre ++ [it]).length : Nat) : Int) = (pre.length : Int) + 1 := by simp
    rw [e, l] at ih'
    rw [voiceLoop_cons]
    simp only [PyI.enumerateFrom, List.foldlM_cons]
    simp only [stepM, stepStop_eq, ok_bind]
    generalize drumStop isDrum it rest be = stop
    cases stepBody c tick m lte it stop with
    | error e => rfl
    | ok m' => exact ih' m' stop

theorem fold_enumerate (c : Chord) (be tick : Rat) (isDrum : Bool) (notes : List Item) (m : Melody) (lte : Rat) :
    (PyI.enumerate notes).foldlM (stepM c notes be tick isDrum) (m, lte) = voiceLoop c be tick isDrum notes m lte := by
  have := fold_stepM c be tick isDrum notes [] m lte
  simpa [PyI.enumerate] using this

theorem throw_eq {α : Type} (e : Err) : (throw e : Res α) = Except.error e := rfl

theorem bind_ext {α β : Type} (x : Res α) (f g : α → Res β) (h : ∀ a, f a = g a) : (x >>= f) = (x >>= g) := by
  have : f = g := funext h
  rw [this]

theorem all_map_true (l : List Note) : ((l.map (fun _ => true)).all (fun b => b)) = true := by
  simp

theorem pyIndex_zero_cons (x : α) (xs : List α) : pyIndex (x :: xs) 0 = .ok x := by
  simp [pyIndex]

theorem pyIndex_zero_nil : pyIndex ([] : List α) 0 = .error .index := by
  simp [pyIndex]

theorem parseNote_img (it : Item) (d : Rat) (c : Chord) (tick : Rat) :
    Src.parse_note it d c tick = parseNote c it d tick := by
  unfold Src.parse_note parseNote
  cases h : c.parse (it.pitch - 60) <;> rfl

/-- `_parse_note` reads the pitch and the velocity of the item only: the drum rewriting of `note.end` does not reach it -/
theorem parseNote_stop (c : Chord) (it : Item) (s d tick : Rat) :
    parseNote c { it with stop := s } d tick = parseNote c it d tick := rfl

/-- the loop of `_parse_voice` over `enumerate(voice_notes)`, whatever the generated step function looks like, as soon as it
agrees with `stepM` -/
theorem fold_rule (c : Chord) (be tick : Rat) (isDrum : Bool) (notes : List Item) (init : Melody × Rat)
    (f : Melody × Rat → Int × Item → Res (Melody × Rat))
    (h : ∀ m lte idx it, f (m, lte) (idx, it) = stepM c notes be tick isDrum (m, lte) (idx, it)) :
    List.foldlM f init (PyI.enumerate notes) = voiceLoop c be tick isDrum notes init.1 init.2 := by
  have : f = stepM c notes be tick isDrum := by
    funext st p; obtain ⟨m, lte⟩ := st; obtain ⟨idx, it⟩ := p; exact h m lte idx it
  rw [this]
  exact fold_enumerate c be tick isDrum notes init.1 init.2

/-- the model's `parseVoice` after its first line -/
def loopThenFinish (c : Chord) (bs be tick : Rat) (isDrum : Bool) (notes : List Item) (m0 : Melody) (lte0 : Rat) :
    Res (Melody × Option Note) :=
  voiceLoop c be tick isDrum notes m0 lte0 >>= fun r => voiceFinish r.1 r.2 bs be tick

theorem parseVoice_eq (notes : List Item) (c : Chord) (bs be tick : Rat) (cont : Option Note) (isDrum : Bool) :
    parseVoice notes c bs be tick cont isDrum
      = loopThenFinish c bs be tick isDrum notes (voiceInit notes bs tick cont).1 (voiceInit notes bs tick cont).2 := by
  unfold parseVoice loopThenFinish
  rfl

/-- loop and tail of `_parse_voice` as generated (`f` the step of the fold, `K` everything after the loop) -/
theorem voice_rule (c : Chord) (bs be tick : Rat) (isDrum : Bool) (notes : List Item) (init : Melody × Rat)
    (f : Melody × Rat → Int × Item → Res (Melody × Rat)) (K : Melody × Rat → Res (Melody × Option Note))
    (hf : ∀ m lte idx it, f (m, lte) (idx, it) = stepM c notes be tick isDrum (m, lte) (idx, it))
    (hK : ∀ m lte, K (m, lte) = voiceFinish m lte bs be tick) :
    (List.foldlM f init (PyI.enumerate notes) >>= K) = loopThenFinish c bs be tick isDrum notes init.1 init.2 := by
  rw [fold_rule c be tick isDrum notes init f hf]
  unfold loopThenFinish
  apply bind_ext
  intro r; obtain ⟨m, lte⟩ := r; exact hK m lte

/-- a fold whose state carries a component the continuation never reads -/
theorem foldlM_proj {σ τ α β : Type} (f : τ × σ → α → Res (τ × σ)) (g : σ → α → Res σ) (K : τ × σ → Res β) (K' : σ → Res β)
    (hf : ∀ t s a, (f (t, s) a >>= fun r => pure r.2) = g s a) (hK : ∀ t s, K (t, s) = K' s) :
    ∀ (l : List α) (t : τ) (s : σ), (l.foldlM f (t, s) >>= K) = (l.foldlM g s >>= K') := by
  intro l
  induction l with
  | nil => intro t s; simp only [List.foldlM_nil, pure_bind]; exact hK t s
  | cons a l ih =>
    intro t s
    simp only [List.foldlM_cons, bind_assoc]
    rw [← hf t s a]
    simp only [bind_assoc, pure_bind]
    apply bind_ext
    intro r; obtain ⟨t', s'⟩ := r
    exact ih t' s'

/-- the same when the fold also carries the local `duration` (it is assigned before the loop on the path that starts with a
rest, so py2lean keeps it in the state; nothing reads it after the loop) -/
theorem voice_rule3 (c : Chord) (bs be tick : Rat) (isDrum : Bool) (notes : List Item) (init : Rat × Melody × Rat)
    (f : Rat × Melody × Rat → Int × Item → Res (Rat × Melody × Rat)) (K : Rat × Melody × Rat → Res (Melody × Option Note))
    (hf : ∀ d m lte idx it, (f (d, m, lte) (idx, it) >>= fun r => pure r.2) = stepM c notes be tick isDrum (m, lte) (idx, it))
    (hK : ∀ d m lte, K (d, m, lte) = voiceFinish m lte bs be tick) :
    (List.foldlM f init (PyI.enumerate notes) >>= K) = loopThenFinish c bs be tick isDrum notes init.2.1 init.2.2 := by
  obtain ⟨d0, m0, lte0⟩ := init
  rw [foldlM_proj f (stepM c notes be tick isDrum) K (fun r => voiceFinish r.1 r.2 bs be tick)
    (fun t s a => by obtain ⟨m, lte⟩ := s; obtain ⟨idx, it⟩ := a; exact hf t m lte idx it)
    (fun t s => by obtain ⟨m, lte⟩ := s; exact hK t m lte)]
  rw [fold_enumerate]
  rfl

/-! ### `infer_score_with_chords_durations`: the model in the shape of the source (nested loops, the score as a growing list) -/

theorem foldlM_flatMap {σ α β : Type} (f : α → List β) (g : σ → β → Res σ) (l : List α) (s : σ) :
    (l.flatMap f).foldlM g s = l.foldlM (fun s a => (f a).foldlM g s) s := by
  induction l generalizing s with
  | nil => rfl
  | cons a l ih =>
    simp only [List.flatMap_cons, List.foldlM_append, List.foldlM_cons]
    apply bind_ext
    intro s'; exact ih s'

theorem foldlM_filterMap {σ α β : Type} (f : α → Option β) (g : σ → β → Res σ) (l : List α) (s : σ) :
    (l.filterMap f).foldlM g s = l.foldlM (fun s a => match f a with | none => pure s | some b => g s b) s := by
  induction l generalizing s with
  | nil => rfl
  | cons a l ih =>
    cases h : f a with
    | none => simp only [List.filterMap_cons, h, List.foldlM_cons, pure_bind]; exact ih s
    | some b =>
      simp only [List.filterMap_cons, h, List.foldlM_cons]
      apply bind_ext
      intro s'; exact ih s'

theorem foldlM_congr' {σ α : Type} (f g : σ → α → Res σ) (l : List α) (init : σ) (h : ∀ s a, f s a = g s a) :
    l.foldlM f init = l.foldlM g init := by
  have : f = g := by funext s a; exact h s a
  rw [this]

/-- body of `for voice in voices:` -/
def voiceStepS (instruments : List (Int × String)) (offs : List (Int × Int)) (trackNotes : List Item) (track : Int)
    (chord : Chord) (ts te : Rat) (st : List (String × Melody) × List (String × Note)) (voice : Int) :
    Res (List (String × Melody) × List (String × Note)) :=
  match trackNotes.filter (fun n => decide (n.voice = voice)) with
  | [] => pure st
  | first :: rest =>
    groupStep chord ts te st
      ((instruments.lookup first.channel).getD "piano" ++ "__" ++ toString ((offs.lookup track).getD 0 + voice),
       ((instruments.lookup first.channel).getD "piano").startsWith "drum", first :: rest)

/-- body of `for track in tracks:` -/
def trackStepS (instruments : List (Int × String)) (offs : List (Int × Int)) (chordNotes : List Item)
    (chord : Chord) (ts te : Rat) (st : List (String × Melody) × List (String × Note)) (track : Int) :
    Res (List (String × Melody) × List (String × Note)) :=
  (sortedDedup ((chordNotes.filter (fun n => decide (n.track = track))).map (fun n => n.voice))).foldlM
    (voiceStepS instruments offs (chordNotes.filter (fun n => decide (n.track = track))) track chord ts te) st

theorem beq_int (a b : Int) : (a == b) = decide (a = b) := by
  by_cases h : a = b <;> simp [h]

theorem groups_fold (instruments : List (Int × String)) (offs : List (Int × Int)) (tracks : List Int)
    (chordNotes : List Item) (chord : Chord) (ts te : Rat) (st : List (String × Melody) × List (String × Note)) :
    (barGroups instruments offs tracks chordNotes).foldlM (groupStep chord ts te) st
      = tracks.foldlM (trackStepS instruments offs chordNotes chord ts te) st := by
  unfold barGroups
  rw [foldlM_flatMap]
  apply foldlM_congr'
  intro s t
  simp only [foldlM_filterMap]
  unfold trackStepS
  simp only [beq_int]
  apply foldlM_congr'
  intro s v
  unfold voiceStepS
  cases hv : List.filter (fun n => decide (n.voice = v)) (List.filter (fun n => decide (n.track = t)) chordNotes) with
  | nil => rfl
  | cons first rest =>
    have hm : first ∈ List.filter (fun n => decide (n.voice = v)) (List.filter (fun n => decide (n.track = t)) chordNotes) := by
      rw [hv]; exact List.mem_cons_self ..
    simp only [List.mem_filter, decide_eq_true_eq] at hm
    simp only [voiceName, hm.1.2, hm.2]

/-- the two voice loops of one bar, as nested loops -/
def barDictsS (seq : List Item) (instruments : List (Int × String)) (offs : List (Int × Int)) (tracks : List Int)
    (conts0 : List (String × Note)) (chord : Chord) (ts te : Rat) :
    Res (List (String × Melody) × List (String × Note)) := do
  let st ← tracks.foldlM
    (trackStepS instruments offs (seq.filter (fun n => decide (ts ≤ n.start) && decide (n.start < te))) chord ts te) ([], conts0)
  ((st.2.map (fun p => p.1)).filter (fun v => !(st.1.any (fun p => p.1 == v)))).foldlM (heldStep chord ts te) st

theorem barDictsS_eq (seq : List Item) (instruments : List (Int × String)) (offs : List (Int × Int)) (tracks : List Int)
    (conts0 : List (String × Note)) (chord : Chord) (ts te : Rat) :
    barDictsS seq instruments offs tracks conts0 chord ts te = barDicts seq instruments offs tracks conts0 chord ts te := by
  unfold barDictsS barDicts
  simp only [groups_fold]

/-- the chord appended for one bar: the parts, or one rest when nothing sounds (`score[-1]` is the last chord appended) -/
def finalChordS (chord : Chord) (cd : List (String × Melody)) (idx : Int) (chordDuration : Rat) (score : List Chord) : Res Chord :=
  if Py.len cd = 0 then
    (if idx > 0 then do
      let last ← pyIndex score (-1)
      let ins ← pyIndex (last.parts.map (fun p => p.1)) 0
      pure (last.withParts [(ins, [mkSilence chordDuration])])
    else pure (chord.withParts [("piano__0", [mkSilence chordDuration])]))
  else pure (chord.withParts cd)

theorem pyIndex_last_eq (l : List α) : pyIndex l (-1) = match l.getLast? with | some x => .ok x | none => .error .index := by
  rcases List.eq_nil_or_concat l with rfl | ⟨init, last, rfl⟩
  · rfl
  · simp only [List.concat_eq_append, pyIndex_last, List.getLast?_append, List.getLast?_singleton, Option.some_or]

theorem finalChordS_eq (st : ImportState) (chord : Chord) (cd : List (String × Melody)) (chordDuration : Rat) (score : List Chord)
    (hl : st.last = score.getLast?) :
    finalChordS chord cd (st.idx : Int) chordDuration score = barChord st chord chordDuration cd := by
  unfold finalChordS barChord
  cases cd with
  | cons p ps =>
    have : ¬ (Py.len (p :: ps) = 0) := by simp only [Py.len, List.length_cons]; omega
    simp only [this, if_false, List.isEmpty_cons, Bool.false_eq_true]
  | nil =>
    simp only [Py.len, List.length_nil, Int.natCast_zero, if_true, List.isEmpty_nil]
    by_cases hi : st.idx > 0
    · have : ((st.idx : Nat) : Int) > 0 := by omega
      simp only [hi, this, if_true, pyIndex_last_eq, hl]
      cases score.getLast? with
      | none => rfl
      | some prev =>
        simp only [ok_bind]
        cases hp : prev.parts with
        | nil => simp only [List.map_nil, pyIndex_zero_nil, error_bind]
        | cons q qs => simp only [List.map_cons, pyIndex_zero_cons, ok_bind]
    · have : ¬ ((st.idx : Nat) : Int) > 0 := by omega
      simp only [hi, this, if_false]

/-- one iteration of `for idx, (chord, bar) in enumerate(zip(chords, bars))`; state = (time_start, time_end, continuations, score) -/
def barStepS (seq : List Item) (instruments : List (Int × String)) (offs : List (Int × Int)) (tracks : List Int)
    (chords : List Chord) (nbars : Int) (st : Rat × Rat × List (String × Note) × List Chord) (p : Int × (Chord × (Rat × Rat))) :
    Res (Rat × Rat × List (String × Note) × List Chord) := do
  let ts ← (if p.1 = 0 then (pure 0 : Res Rat) else (pyIndex chords (p.1 - 1) >>= fun c => pure (st.1 + c.dur)))
  let d ← barDictsS seq instruments offs tracks st.2.2.1 p.2.1 ts (st.2.1 + p.2.1.dur)
  let final ← finalChordS p.2.1 d.1 p.1 (p.2.2.2 - p.2.2.1) st.2.2.2
  pure (ts, st.2.1 + p.2.1.dur, d.2,
        if !(decide (p.1 = nbars - 1) && decide (Py.len d.1 = 0)) then st.2.2.2 ++ [final] else st.2.2.2)

/-- `infer_score_with_chords_durations` in the shape of the source -/
def inferScoreS (seq : List Item) (chords : List Chord) (instruments : List (Int × String)) (bars : List (Rat × Rat)) :
    Res Score := do
  let offs ← voiceOffsets seq instruments (sortedDedup (seq.map (fun s => s.track)))
  let st ← (PyI.enumerate (chords.zip bars)).foldlM
    (barStepS seq instruments offs (sortedDedup (seq.map (fun s => s.track))) chords (Py.len bars)) (0, 0, [], [])
  pure st.2.2.2

theorem pyIndex_of_getElem? (l : List α) (n : Nat) (x : α) (h : l[n]? = some x) : pyIndex l (n : Int) = .ok x := by
  have hlt : n < l.length := (List.getElem?_eq_some_iff.mp h).1
  unfold pyIndex
  have h1 : ¬ ((n : Int) < 0) := by omega
  have h2 : ¬ ((n : Int) ≥ (l.length : Int)) := by omega
  simp only [h1, if_false, h2, false_or, Int.toNat_natCast, h]

theorem zip_fst_getElem? (chords : List Chord) (bars : List (Rat × Rat)) (pre : List (Chord × (Rat × Rat))) (c : Chord) (b : Rat × Rat)
    (rest : List (Chord × (Rat × Rat))) (h : chords.zip bars = pre ++ (c, b) :: rest) : pyIndex chords (pre.length : Int) = .ok c := by
  have h1 : (chords.zip bars)[pre.length]? = some (c, b) := by rw [h]; simp
  rw [List.getElem?_zip_eq_some] at h1
  exact pyIndex_of_getElem? chords pre.length c h1.1

theorem barStep_fields (seq : List Item) (instruments : List (Int × String)) (offs : List (Int × Int)) (tracks : List Int)
    (nbars : Nat) (st : ImportState) (chord : Chord) (bar : Rat × Rat) (out : Option Chord) (st' : ImportState)
    (h : barStep seq instruments offs tracks nbars st chord bar = .ok (out, st')) :
    st'.idx = st.idx + 1 ∧ st'.prevDur = chord.dur ∧ st'.last = (match out with | some c => some c | none => st.last) := by
  unfold barStep at h
  simp only [] at h
  cases hd : barDicts seq instruments offs tracks st.conts chord (if st.idx = 0 then 0 else st.timeStart + st.prevDur)
      (st.timeEnd + chord.dur) with
  | error e => rw [hd] at h; cases h
  | ok d =>
    rw [hd] at h
    simp only [ok_bind] at h
    cases hc : barChord st chord (bar.2 - bar.1) d.1 with
    | error e => rw [hc] at h; cases h
    | ok final =>
      rw [hc] at h
      simp only [ok_bind] at h
      injection h with h
      injection h with h1 h2
      subst h2
      by_cases he : (!(decide ((st.idx : Int) = (nbars : Int) - 1) && d.1.isEmpty)) = true
      · simp only [he, if_true] at h1; subst h1; simp only [he, if_true]; exact ⟨trivial, trivial, trivial⟩
      · simp only [he, if_false, Bool.false_eq_true] at h1; subst h1; simp only [he, if_false, Bool.false_eq_true]; exact ⟨trivial, trivial, trivial⟩

theorem barStepS_eq (seq : List Item) (instruments : List (Int × String)) (offs : List (Int × Int)) (tracks : List Int)
    (chords : List Chord) (nbars : Nat) (st : ImportState) (score : List Chord) (chord : Chord) (bar : Rat × Rat)
    (hl : st.last = score.getLast?)
    (hp : st.idx > 0 → ∃ c, pyIndex chords ((st.idx : Int) - 1) = .ok c ∧ st.prevDur = c.dur) :
    barStepS seq instruments offs tracks chords (nbars : Int) (st.timeStart, st.timeEnd, st.conts, score) ((st.idx : Int), chord, bar)
      = (barStep seq instruments offs tracks nbars st chord bar >>= fun r =>
          pure (r.2.timeStart, r.2.timeEnd, r.2.conts, match r.1 with | some c => score ++ [c] | none => score)) := by
  unfold barStepS barStep
  simp only []
  have hts : (if ((st.idx : Nat) : Int) = 0 then (pure 0 : Res Rat) else (pyIndex chords ((st.idx : Int) - 1) >>= fun c => pure (st.timeStart + c.dur)))
      = .ok (if st.idx = 0 then 0 else st.timeStart + st.prevDur) := by
    by_cases h0 : st.idx = 0
    · simp only [h0, Int.natCast_zero, if_true]; rfl
    · have : ¬ ((st.idx : Nat) : Int) = 0 := by omega
      obtain ⟨c, hc, hd⟩ := hp (by omega)
      simp only [h0, this, if_false, hc, ok_bind, hd]; rfl
  rw [hts]
  simp only [ok_bind, barDictsS_eq]
  cases barDicts seq instruments offs tracks st.conts chord (if st.idx = 0 then 0 else st.timeStart + st.prevDur)
      (st.timeEnd + chord.dur) with
  | error e => rfl
  | ok d =>
    obtain ⟨cd, conts⟩ := d
    simp only [ok_bind, finalChordS_eq st chord cd (bar.2 - bar.1) score hl]
    cases barChord st chord (bar.2 - bar.1) cd with
    | error e => rfl
    | ok final =>
      simp only [ok_bind]
      have hlen : decide (Py.len cd = 0) = cd.isEmpty := by
        cases cd with
        | nil => rfl
        | cons p ps =>
          have : ¬ (Py.len (p :: ps) = 0) := by simp only [Py.len, List.length_cons]; omega
          simp only [this, decide_false, List.isEmpty_cons]
      rw [hlen]
      by_cases he : (!(decide ((st.idx : Int) = (nbars : Int) - 1) && cd.isEmpty)) = true
      · simp only [he, if_true]; rfl
      · simp only [he, if_false, Bool.false_eq_true]; rfl

/-- the bar loop: the source's fold (the score grows at the end, `score[-1]` is the last chord) against the model's recursion
(the score is consed, the last chord is carried in the state) -/
theorem barFold (seq : List Item) (instruments : List (Int × String)) (offs : List (Int × Int)) (tracks : List Int)
    (chords : List Chord) (bars : List (Rat × Rat)) (rest : List (Chord × (Rat × Rat))) :
    ∀ (pre : List (Chord × (Rat × Rat))) (st : ImportState) (score : List Chord),
      chords.zip bars = pre ++ rest → st.idx = pre.length → st.last = score.getLast? →
      (st.idx > 0 → ∃ c, pyIndex chords ((st.idx : Int) - 1) = .ok c ∧ st.prevDur = c.dur) →
      ((PyI.enumerateFrom (pre.length : Int) rest).foldlM
          (barStepS seq instruments offs tracks chords (Py.len bars)) (st.timeStart, st.timeEnd, st.conts, score)
        >>= fun r => pure r.2.2.2)
        = (barLoop seq instruments offs tracks bars.length st rest >>= fun out => pure (score ++ out)) := by
  induction rest with
  | nil =>
    intro pre st score _ _ _ _
    simp [PyI.enumerateFrom, barLoop]
  | cons cb rest ih =>
    intro pre st score hz hi hl hp
    obtain ⟨chord, bar⟩ := cb
    simp only [PyI.enumerateFrom, List.foldlM_cons, barLoop, bind_assoc]
    have hb : Py.len bars = ((bars.length : Nat) : Int) := rfl
    rw [hb, ← hi, barStepS_eq seq instruments offs tracks chords bars.length st score chord bar hl hp]
    cases hs : barStep seq instruments offs tracks bars.length st chord bar with
    | error e => rfl
    | ok r =>
      obtain ⟨out, st'⟩ := r
      obtain ⟨f1, f2, f3⟩ := barStep_fields seq instruments offs tracks bars.length st chord bar out st' hs
      simp only [ok_bind, pure_bind]
      have hz' : chords.zip bars = (pre ++ [(chord, bar)]) ++ rest := by rw [hz]; simp
      have hi' : st'.idx = (pre ++ [(chord, bar)]).length := by rw [f1, hi]; simp
      have hc : pyIndex chords ((st'.idx : Int) - 1) = .ok chord := by
        have := zip_fst_getElem? chords bars pre chord bar rest hz
        rw [f1, hi]; simpa using this
      have hcast : (((pre ++ [(chord, bar)]).length : Nat) : Int) = (pre.length : Int) + 1 := by simp
      cases out with
      | none =>
        have key := ih (pre ++ [(chord, bar)]) st' score hz' hi' (by rw [f3]; exact hl) (fun _ => ⟨chord, hc, f2⟩)
        rw [hcast] at key
        rw [hi]
        simp only [hb] at key ⊢
        rw [key]
      | some c =>
        have key := ih (pre ++ [(chord, bar)]) st' (score ++ [c]) hz' hi' (by rw [f3]; simp) (fun _ => ⟨chord, hc, f2⟩)
        rw [hcast] at key
        rw [hi]
        simp only [hb] at key ⊢
        rw [key]
        simp only [bind_assoc, pure_bind, List.append_assoc, List.singleton_append]

theorem inferScoreS_eq (seq : List Item) (chords : List Chord) (instruments : List (Int × String)) (bars : List (Rat × Rat)) :
    inferScoreS seq chords instruments bars = inferScore seq chords instruments bars := by
  unfold inferScoreS inferScore
  apply bind_ext
  intro offs
  have := barFold seq instruments offs (sortedDedup (seq.map (fun s => s.track))) chords bars (chords.zip bars) [] {} []
    (by simp) rfl rfl (fun h => by cases h)
  simp only [List.length_nil, Int.natCast_zero, List.nil_append, bind_pure] at this
  exact this

/-! ### `_parse_voice`: source image = model -/

/-! #### tactics: the case analyses of one loop iteration and of the lines after the loop

The generated step function of the loop and the generated tail are never written down here: the rules `voice_rule` /
`voice_rule3` match whatever py2lean produced, and the two obligations they leave (step = `stepM`, tail = `voiceFinish`) are
discharged by deciding every condition and normalising both sides with one simp set. -/

set_option hygiene false in
macro "leaf" : tactic => `(tactic|
  simp only [*, stepM, stepStop, stepBody, appendParsed, parseNote_img, parseNote_stop, voiceFinish, all_map_true,
    List.concat_eq_append, Rat.intCast_zero, decide_true, decide_false, if_true, if_false, Bool.false_eq_true, Bool.not_true,
    Bool.not_false, decide_eq_true_eq, pyIndex_last, pyIndex_last_nil, setItem_last, popAt_last, trimLast_concat, trimLast_nil,
    pyIndex_zero_cons, pyIndex_zero_nil, ok_bind, error_bind, pure_bind, bind_assoc, throw_eq, List.append_assoc])

-- the body of one iteration once the end of the note (`stop`) is known: the three overlap cases, the trimming of the last
-- note (empty melody / non-empty melody, emptied or not)
set_option hygiene false in
macro "body_tac" stop:term : tactic => `(tactic|
  (by_cases h1 : lte - it.start > 0
   · rcases List.eq_nil_or_concat m with rfl | ⟨init, last, rfl⟩
     · leaf
     · by_cases h4 : last.dur - (lte - it.start) * tick = 0 <;> leaf
   · by_cases h2 : lte - it.start < 0 <;> by_cases h3 : $stop - it.start > 0 <;> leaf))

-- one iteration: drums rewrite the end of the note (next note's start / bar end), then the body
set_option hygiene false in
macro "step_core" : tactic => `(tactic|
  (cases isDrum
   · body_tac it.stop
   · by_cases hi : idx < Py.len notes - 1
     · cases hnx : pyIndex notes (idx + 1) with
       | error e => leaf
       | ok nx => body_tac nx.start
     · body_tac be))

set_option hygiene false in
macro "step_tac" : tactic => `(tactic| (intro m lte idx it; step_core))
set_option hygiene false in
macro "step_tac3" : tactic => `(tactic| (intro d m lte idx it; step_core))

-- after the trimming: the filter, the three asserts
set_option hygiene false in
macro "tail_tac" : tactic => `(tactic|
  (generalize hmf : List.filter (fun (n : Note) => decide (n.dur > 0)) _ = mf
   by_cases hdelta : (if melodyDuration mf - (be - bs) * tick < 0 then -(melodyDuration mf - (be - bs) * tick)
        else melodyDuration mf - (be - bs) * tick) < 1 / 4
   · cases mf <;> leaf
   · leaf))

-- the lines after the loop: rest up to the bar line, or the cut at the bar line (empty / non-empty melody, emptied or not)
set_option hygiene false in
macro "finish_core" : tactic => `(tactic|
  (by_cases hlt : lte < be <;> by_cases hgt : lte > be
   · by_cases h4 : (mkSilence ((be - lte) * tick)).dur - (lte - be) * tick = 0 <;> leaf <;> tail_tac
   · leaf; tail_tac
   · rcases List.eq_nil_or_concat m with rfl | ⟨init, last, rfl⟩
     · leaf
     · by_cases h4 : last.dur - (lte - be) * tick = 0 <;> leaf <;> tail_tac
   · leaf; tail_tac))

set_option hygiene false in
macro "finish_tac" : tactic => `(tactic| (intro m lte; finish_core))
set_option hygiene false in
macro "finish_tac3" : tactic => `(tactic| (intro d m lte; finish_core))

theorem parseVoice_src_some (notes : List Item) (c : Chord) (bs be tick : Rat) (ct : Note) (isDrum : Bool) (ht : tick ≠ 0) :
    Src.parse_voice notes c bs be tick (some ct) isDrum = parseVoice notes c bs be tick (some ct) isDrum := by
  rw [parseVoice_eq]
  unfold Src.parse_voice voiceInit
  have hd : Py.fracDiv ct.dur tick = .ok (ct.dur / tick) := by simp [Py.fracDiv, ht]
  simp (maxSteps := 2000000) (disch := first | step_tac | finish_tac) only [voice_rule c bs be tick isDrum notes]
  cases notes with
  | nil => simp [Py.len, hd, ok_bind]
  | cons x xs => simp [Py.len, hd, ok_bind, pyIndex_zero_cons]

theorem parseVoice_src_none (notes : List Item) (c : Chord) (bs be tick : Rat) (isDrum : Bool) :
    Src.parse_voice notes c bs be tick none isDrum = parseVoice notes c bs be tick none isDrum := by
  rw [parseVoice_eq]
  unfold Src.parse_voice voiceInit
  simp (maxSteps := 2000000) (disch := first | step_tac3 | finish_tac3) only [voice_rule3 c bs be tick isDrum notes]
  simp (maxSteps := 2000000) (disch := first | step_tac | finish_tac) only [voice_rule c bs be tick isDrum notes]
  cases notes with
  | nil => simp [Py.len]
  | cons x xs =>
    have hl : Py.len (x :: xs) > 0 := by simp only [Py.len, List.length_cons]; omega
    simp only [hl, decide_true, if_true, pyIndex_zero_cons, ok_bind, pure_bind, Rat.intCast_zero, List.nil_append,
      decide_eq_true_eq]
    by_cases hs : x.start > bs <;> simp only [hs, if_true, if_false]

/-! ### `infer_score_with_chords_durations`: source image = the model in the shape of the source -/

theorem bind_congr2 {α β : Type} (x y : Res α) (f g : α → Res β) (hx : x = y) (h : ∀ a, f a = g a) : (x >>= f) = (y >>= g) := by
  subst hx; exact bind_ext x f g h

theorem bind_pure_pair {α β : Type} (x : Res (α × β)) : (x >>= fun st => pure (st.1, st.2)) = x := by
  cases x <;> rfl

theorem isIn_keys (k : Int) (d : List (Int × Int)) : Py.isIn k (d.map (fun p => p.1)) = (d.lookup k).isSome := by
  induction d with
  | nil => rfl
  | cons p ps ih =>
    obtain ⟨a, b⟩ := p
    simp only [Py.isIn, List.map_cons, List.contains_cons, List.lookup_cons] at ih ⊢
    by_cases h : k = a
    · subst h; simp
    · have : (k == a) = false := by simp [h]
      rw [this]; simpa using ih

/-- `_parse_voice` as `infer_score_with_chords_durations` calls it: `tick_value` is the literal 1 -/
theorem parseVoice_src1 (notes : List Item) (c : Chord) (bs be : Rat) (cont : Option Note) (isDrum : Bool) :
    Src.parse_voice notes c bs be 1 cont isDrum = parseVoice notes c bs be 1 cont isDrum := by
  cases cont with
  | none => exact parseVoice_src_none notes c bs be 1 isDrum
  | some ct => exact parseVoice_src_some notes c bs be 1 ct isDrum (by decide)

-- one bar: the two voice loops, the chord of the bar (`ts` = the start of the bar as this path computed it)
set_option hygiene false in
macro "bar_core" ts:term "," i:term : tactic => `(tactic|
  (unfold barDictsS
   simp only [bind_assoc, Rat.intCast_one, parseVoice_src1]
   apply bind_congr2
   · apply foldlM_congr'
     intro st track; obtain ⟨cd, cs⟩ := st
     unfold trackStepS
     rw [bind_pure_pair]
     apply foldlM_congr'
     intro st voice; obtain ⟨cd, cs⟩ := st
     unfold voiceStepS
     generalize List.filter (fun (n : Item) => decide (n.voice = voice)) (List.filter (fun (n : Item) => decide (n.track = track))
       (List.filter (fun (n : Item) => decide ($ts ≤ n.start) && decide (n.start < te0 + chord.dur)) seq)) = vn
     cases vn with
     | nil => simp [Py.len]
     | cons first rest =>
       have hl : Py.len (first :: rest) > 0 := by simp only [Py.len, List.length_cons]; omega
       simp only [hl, decide_true, if_true, pyIndex_zero_cons, ok_bind, bind_assoc, pure_bind, groupStep, dictPop]
       apply bind_ext
       intro x; obtain ⟨mel, ret⟩ := x
       cases ret <;> rfl
   · intro st; obtain ⟨cd, cs⟩ := st
     apply bind_congr2
     · -- voices with a pending tie and nothing new in the bar
       apply foldlM_congr'
       intro st name; obtain ⟨cd, cs⟩ := st
       unfold heldStep
       simp only [dictPop]
       cases List.lookup name cs with
       | none => simp only [throw_eq, error_bind]
       | some ct =>
         simp only [pure_bind]
         apply bind_ext
         intro x; obtain ⟨mel, ret⟩ := x
         cases ret <;> rfl
     · intro st; obtain ⟨cd, cs⟩ := st
       apply bind_congr2
       · -- the chord of the bar
         unfold finalChordS Src.setDurationEmpty
         by_cases hc : Py.len cd = 0
         · have hnil : cd = [] := by
             cases cd with
             | nil => rfl
             | cons p ps => simp only [Py.len, List.length_cons] at hc; omega
           subst hnil
           by_cases hi : $i > 0
           · simp only [hi, Py.len, List.length_nil, Int.natCast_zero, decide_true, if_true]
             cases pyIndex score (-1) with
             | error e => rfl
             | ok last =>
               simp only [ok_bind]
               cases pyIndex (List.map (fun p => p.fst) last.parts) 0 <;> rfl
           · simp only [hi, Py.len, List.length_nil, Int.natCast_zero, decide_true, decide_false, if_true, if_false,
               Bool.false_eq_true]
             rfl
         · simp only [hc, decide_false, if_false, Bool.false_eq_true]
       · intro f; rfl))

theorem inferScoreS_src (seq : List Item) (chords : List Chord) (instruments : List (Int × String)) (bars : List (Rat × Rat)) :
    Src.infer_score_with_chords_durations seq chords instruments bars = inferScoreS seq chords instruments bars := by
  unfold Src.infer_score_with_chords_durations inferScoreS voiceOffsets
  simp only [bind_assoc]
  apply bind_congr2
  · -- the two loops that fill `offsets_voices`
    apply foldlM_congr'
    intro st ci
    obtain ⟨offs, raw⟩ := st
    rw [bind_pure_pair]
    apply foldlM_congr'
    intro st t
    obtain ⟨offs, raw⟩ := st
    unfold offsetStep
    simp only [isIn_keys, lookupKey, beq_int]
    cases hl : List.lookup ci.1 raw with
    | none => simp only [Option.isSome_none, Bool.not_false, if_true, bind_assoc, pure_bind]
    | some r => simp only [Option.isSome_some, Bool.not_true, Bool.false_eq_true, if_false, bind_assoc, pure_bind, ok_bind]
  · intro st
    obtain ⟨offs, raw⟩ := st
    apply bind_congr2
    · apply foldlM_congr'
      intro st p
      obtain ⟨ts0, te0, conts, score⟩ := st
      obtain ⟨idx, chord, bar⟩ := p
      unfold barStepS
      by_cases h0 : idx = 0
      · simp only [h0, decide_true, if_true, pure_bind, Rat.intCast_zero]
        bar_core 0, (0 : Int)
      · simp only [h0, decide_false, Bool.false_eq_true, if_false, bind_assoc]
        cases pyIndex chords (idx - 1) with
        | error e => rfl
        | ok c' =>
          simp only [ok_bind, pure_bind]
          bar_core (ts0 + c'.dur), idx
    · intro r; rfl
end MV.Tie
