/-
C14 importer lemmas 13/15 — `barStep_spec`: one iteration of the bar loop keeps the state invariant `StateOK` and the track invariant of every part.
-/
import MV.Lemmas.ImportTrack
namespace MV
open Gen

/-- invariant of the importer's state at the bar line `T` before bar number `k` -/
structure StateOK (name : Item → String) (seq : List Item) (nbars k : Nat) (T : Rat) (st : ImportState) : Prop where
  idx : st.idx = k
  te : st.timeEnd = T
  ts : k ≠ 0 → st.timeStart + st.prevDur = T
  t0 : k = 0 → T = 0
  nodup : (keys st.conts).Nodup
  conts : ∀ v, st.conts.lookup v = (pendingAt T (voiceItems name seq v)).map contNote
  last : k ≠ 0 → (k : Int) ≤ (nbars : Int) - 1 → ∃ prev, st.last = some prev ∧ prev.parts ≠ []

/-- reading the part `v` of one chord (one step of the renderer's `create_melody_for_track`) -/
def playPart (v : String) (idx : Nat) (c : Chord) (time : Rat) (tst : TrackSt) : Res TrackSt :=
  match c.parts.lookup v with
  | some part => playMelody c idx part time tst
  | none => .ok { tst with last := none }

theorem restChord_spec {Tset : List Rat} {name : Item → String} {seq : List Item}
    (hV : ∀ v, VoiceOK Tset (voiceItems name seq v)) (base : Chord) (ins : String) (L T : Rat) (hL : Fine L) (hpos : 0 < L)
    (hno : ∀ v, inBar T (T + L) (voiceItems name seq v) = [] ∧ pendingAt T (voiceItems name seq v) = none) :
    let c := base.withParts [(ins, [mkSilence L])]
    c.parts ≠ [] ∧ (∀ p ∈ c.parts, melodyDuration p.2 = L) ∧
      ∀ v idx tst, TrackOK (voiceItems name seq v) T tst →
        ∃ tst', playPart v idx c T tst = .ok tst' ∧ TrackOK (voiceItems name seq v) (T + L) tst' := by
  have hparts : (base.withParts [(ins, [mkSilence L])]).parts = [(ins, [({ kind := .r, val := 0, oct := 0, dur := L } : Note)])] := by
    simp only [Chord.withParts, List.map_cons, List.map_nil, Note.copyLim, mkSilence_fine L hL, limDur_fine L hL]
  simp only []
  refine ⟨by rw [hparts]; simp, ?_, ?_⟩
  · intro p hp
    rw [hparts] at hp
    simp only [List.mem_singleton] at hp
    subst hp
    simp only [melodyDuration_cons, melodyDuration_nil]; grind
  · intro v idx tst htst
    have hTT : T < T + L := by grind
    unfold playPart
    rw [hparts]
    by_cases hv : v = ins
    · subst hv
      simp only [List.lookup_cons, beq_self_eq_true]
      rw [play_rest]
      exact ⟨_, rfl, trackOK_absent (hV v) T (T + L) hTT tst htst (hno v).1 (hno v).2 false tst.last⟩
    · have : (v == ins) = false := by simpa using hv
      simp only [List.lookup_cons, this, List.lookup_nil]
      exact ⟨_, rfl, trackOK_absent (hV v) T (T + L) hTT tst htst (hno v).1 (hno v).2 tst.isOpen none⟩

end MV

namespace MV
open Gen

theorem partsChord_spec {Tset : List Rat} {name : Item → String} {seq : List Item}
    (hV : ∀ v, VoiceOK Tset (voiceItems name seq v)) (hf : FineSet Tset) (chord : Chord)
    (he : 0 ≤ chord.elem ∧ chord.elem < 7) (T L : Rat) (hpos : 0 < L) (hT : T ∈ Tset) (hT' : T + L ∈ Tset)
    (cd : List (String × Melody)) (hcdn : (keys cd).Nodup) (hne : cd ≠ [])
    (hl : ∀ v, cd.lookup v = if inBar T (T + L) (voiceItems name seq v) = [] ∧ pendingAt T (voiceItems name seq v) = none
                             then none else some (voiceBar name seq chord T (T + L) v).1) :
    let c := chord.withParts cd
    c.parts ≠ [] ∧ (∀ p ∈ c.parts, melodyDuration p.2 = L) ∧
      ∀ v idx tst, TrackOK (voiceItems name seq v) T tst →
        ∃ tst', playPart v idx c T tst = .ok tst' ∧ TrackOK (voiceItems name seq v) (T + L) tst' := by
  have hTT : T < T + L := by grind
  have hok : ∀ v, BarOK Tset T (T + L) (pendingAt T (voiceItems name seq v)) (inBar T (T + L) (voiceItems name seq v)) :=
    fun v => voice_barOK (hV v) hf T (T + L) hTT hT hT'
  simp only []
  refine ⟨?_, ?_, ?_⟩
  · simp only [Chord.withParts]
    intro h; exact hne (List.map_eq_nil_iff.mp h)
  · intro p hp
    simp only [Chord.withParts, List.mem_map] at hp
    obtain ⟨⟨k, m⟩, hkm, rfl⟩ := hp
    have hlk := mem_lookup_of_nodup cd hcdn k m hkm
    rw [hl k] at hlk
    by_cases hab : inBar T (T + L) (voiceItems name seq k) = [] ∧ pendingAt T (voiceItems name seq k) = none
    · simp [hab] at hlk
    · simp only [hab, if_false, Option.some.injEq] at hlk
      simp only []
      rw [← hlk]
      simp only [voiceBar]
      rw [copyLim_barMelody chord (hok k), barMelody_dur chord (hok k)]
      grind
  · intro v idx tst htst
    unfold playPart
    simp only [Chord.withParts]
    rw [lookup_map_snd (fun m : Melody => m.map Note.copyLim), hl v]
    by_cases hab : inBar T (T + L) (voiceItems name seq v) = [] ∧ pendingAt T (voiceItems name seq v) = none
    · simp only [hab, and_self, if_true, Option.map_none]
      exact ⟨_, rfl, trackOK_absent (hV v) T (T + L) hTT tst htst hab.1 hab.2 tst.isOpen none⟩
    · simp only [hab, if_false, Option.map_some, voiceBar]
      rw [copyLim_barMelody chord (hok v)]
      have hs : C02.SameHarm chord { chord with parts := cd.map (fun p => (p.1, p.2.map Note.copyLim)) } := ⟨rfl, rfl, rfl⟩
      rw [barMelody_congr chord _ hs]
      exact trackOK_bar (hV v) hf { chord with parts := cd.map (fun p => (p.1, p.2.map Note.copyLim)) } he idx T (T + L) hTT hT hT' tst htst

end MV

namespace MV
open Gen

theorem lookup_all_none_iff {β : Type} (d : List (String × β)) : (∀ v, d.lookup v = none) ↔ d = [] := by
  constructor
  · intro h
    cases d with
    | nil => rfl
    | cons p ps =>
        obtain ⟨k, x⟩ := p
        have := h k
        simp [List.lookup_cons] at this
  · intro h v; rw [h]; rfl

theorem barStep_spec {instruments : List (Int × String)} {offs : List (Int × Int)} {tracks : List Int} {Tset : List Rat}
    {seq : List Item} (hI : InputOK (voiceName instruments offs) instruments tracks Tset seq)
    (nbars k : Nat) (T : Rat) (st : ImportState) (hst : StateOK (voiceName instruments offs) seq nbars k T st) (hkn : (k : Int) ≤ (nbars : Int) - 1)
    (chord : Chord) (bar : Rat × Rat) (he : 0 ≤ chord.elem ∧ chord.elem < 7) (hd : chord.dur = bar.2 - bar.1)
    (hpos : 0 < chord.dur) (hT : T ∈ Tset) (hT' : T + chord.dur ∈ Tset) :
    ∃ out st', barStep seq instruments offs tracks nbars st chord bar = .ok (out, st') ∧
      StateOK (voiceName instruments offs) seq nbars (k + 1) (T + chord.dur) st' ∧
      (∀ c, out = some c → c.parts ≠ [] ∧ (∀ p ∈ c.parts, melodyDuration p.2 = chord.dur) ∧
        ∀ v idx tst, TrackOK (voiceItems (voiceName instruments offs) seq v) T tst →
          ∃ tst', playPart v idx c T tst = .ok tst' ∧ TrackOK (voiceItems (voiceName instruments offs) seq v) (T + chord.dur) tst') ∧
      (out = none → (k : Int) = (nbars : Int) - 1 ∧
        ∀ v tst, TrackOK (voiceItems (voiceName instruments offs) seq v) T tst →
          TrackOK (voiceItems (voiceName instruments offs) seq v) (T + chord.dur) tst) := by
  have hTT : T < T + chord.dur := by grind
  have hts : (if st.idx = 0 then (0 : Rat) else st.timeStart + st.prevDur) = T := by
    rw [hst.idx]
    by_cases hk : k = 0
    · simp only [hk, if_true]; exact (hst.t0 hk).symm
    · simp only [hk, if_false]; exact hst.ts hk
  obtain ⟨cd, conts', hbd, hk', hcdn, hc', hl⟩ := barDicts_spec hI chord he T (T + chord.dur) hTT hT hT' st.conts hst.nodup hst.conts
  have hfineL : Fine chord.dur := by
    have := hI.fine _ hT' _ hT
    have e : T + chord.dur - T = chord.dur := by grind
    rw [e] at this; exact this
  -- the chord of the bar
  have hchord : ∃ final, barChord st chord (bar.2 - bar.1) cd = .ok final ∧
      final.parts ≠ [] ∧ (∀ p ∈ final.parts, melodyDuration p.2 = chord.dur) ∧
        ∀ v idx tst, TrackOK (voiceItems (voiceName instruments offs) seq v) T tst →
          ∃ tst', playPart v idx final T tst = .ok tst' ∧ TrackOK (voiceItems (voiceName instruments offs) seq v) (T + chord.dur) tst' := by
    unfold barChord
    by_cases hemp : cd = []
    · have hno : ∀ v, inBar T (T + chord.dur) (voiceItems (voiceName instruments offs) seq v) = [] ∧
          pendingAt T (voiceItems (voiceName instruments offs) seq v) = none := by
        intro v
        have := hl v
        rw [hemp] at this
        by_cases hab : inBar T (T + chord.dur) (voiceItems (voiceName instruments offs) seq v) = [] ∧
            pendingAt T (voiceItems (voiceName instruments offs) seq v) = none
        · exact hab
        · simp [hab] at this
      rw [hemp, ← hd]
      simp only [List.isEmpty_nil, if_true, hst.idx]
      by_cases hk : k = 0
      · have : ¬ (k > 0) := by omega
        simp only [this, if_false, pure, Except.pure]
        exact ⟨_, rfl, restChord_spec hI.voices chord "piano__0" chord.dur T hfineL hpos hno⟩
      · have hk0 : k > 0 := by omega
        obtain ⟨prev, hprev, hpp⟩ := hst.last hk hkn
        simp only [hk0, if_true, hprev]
        cases hparts : prev.parts with
        | nil => exact absurd hparts hpp
        | cons p ps =>
            obtain ⟨ins, m⟩ := p
            simp only [pure, Except.pure]
            exact ⟨_, rfl, restChord_spec hI.voices prev ins chord.dur T hfineL hpos hno⟩
    · have : cd.isEmpty = false := by
        cases cd with
        | nil => exact absurd rfl hemp
        | cons _ _ => rfl
      simp only [this, Bool.false_eq_true, if_false, pure, Except.pure]
      exact ⟨_, rfl, partsChord_spec hI.voices hI.fine chord he T chord.dur hpos hT hT' cd hcdn hemp hl⟩
  obtain ⟨final, hfinal, hf1, hf2, hf3⟩ := hchord
  have hte : st.timeEnd + chord.dur = T + chord.dur := by rw [hst.te]
  refine ⟨if (!(decide ((st.idx : Int) = (nbars : Int) - 1) && cd.isEmpty)) = true then some final else none,
    { idx := st.idx + 1, timeStart := T, timeEnd := T + chord.dur, prevDur := chord.dur, conts := conts',
      last := if (!(decide ((st.idx : Int) = (nbars : Int) - 1) && cd.isEmpty)) = true then some final else st.last },
    ?_, ?_, ?_, ?_⟩
  · unfold barStep
    simp only [hts, hte, hbd, hfinal, bind, Except.bind, pure, Except.pure]
  · constructor
    · simp only [hst.idx]
    · rfl
    · intro _; rfl
    · intro h; omega
    · exact hk'
    · exact hc'
    · intro _ hle
      by_cases hemit : (!(decide ((st.idx : Int) = (nbars : Int) - 1) && cd.isEmpty)) = true
      · simp only [hemit, if_true]; exact ⟨final, rfl, hf1⟩
      · simp only [Bool.not_eq_true, Bool.not_eq_false', Bool.and_eq_true, decide_eq_true_eq] at hemit
        have := hemit.1
        rw [hst.idx] at this
        omega
  · intro c hc
    by_cases hemit : (!(decide ((st.idx : Int) = (nbars : Int) - 1) && cd.isEmpty)) = true
    · simp only [hemit, if_true, Option.some.injEq] at hc
      subst hc; exact ⟨hf1, hf2, hf3⟩
    · simp only [hemit, if_false] at hc; cases hc
  · intro hnone
    by_cases hemit : (!(decide ((st.idx : Int) = (nbars : Int) - 1) && cd.isEmpty)) = true
    · simp only [hemit, if_true] at hnone; cases hnone
    · simp only [Bool.not_eq_true, Bool.not_eq_false', Bool.and_eq_true, decide_eq_true_eq] at hemit
      refine ⟨by rw [← hst.idx]; exact hemit.1, ?_⟩
      have hemp : cd = [] := by simpa using hemit.2
      intro v tst htst
      have := hl v
      rw [hemp] at this
      by_cases hab : inBar T (T + chord.dur) (voiceItems (voiceName instruments offs) seq v) = [] ∧
          pendingAt T (voiceItems (voiceName instruments offs) seq v) = none
      · exact trackOK_absent (hI.voices v) T (T + chord.dur) hTT tst htst hab.1 hab.2 tst.isOpen tst.last
      · simp [hab] at this

end MV
