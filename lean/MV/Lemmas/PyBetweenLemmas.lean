/-
Lemmas about the Python built-ins of `MV/Model/PyBetween.lean` (dicts as association lists) and about monadic folds,
shared by the source-tie lemma files of groups `SrcBetween` and `SrcBetweenProject` (model-independent).
-/
import MV.Model.PyBetween

namespace MV.PyB

theorem mapM_mem {α β : Type} (f : α → Res β) : ∀ (l : List α) (l' : List β), l.mapM f = .ok l' →
    ∀ y ∈ l', ∃ x ∈ l, f x = .ok y := by
  intro l
  induction l with
  | nil => intro l' h y hy; rw [List.mapM_nil] at h; cases h; cases hy
  | cons a as ih =>
    intro l' h y hy
    rw [List.mapM_cons] at h
    cases hfa : f a with
    | error e => rw [hfa] at h; cases h
    | ok b =>
      rw [hfa] at h
      cases hrest : as.mapM f with
      | error e => rw [hrest] at h; cases h
      | ok bs =>
        rw [hrest] at h
        have : l' = b :: bs := by cases h; rfl
        subst this
        rcases List.mem_cons.mp hy with rfl | hy'
        · exact ⟨a, List.mem_cons_self .., hfa⟩
        · obtain ⟨x, hx, hfx⟩ := ih bs hrest y hy'
          exact ⟨x, List.mem_cons_of_mem _ hx, hfx⟩

theorem foldlM_congr_mem {σ α : Type} (l : List α) (f g : σ → α → Res σ) (h : ∀ st, ∀ x ∈ l, f st x = g st x) :
    ∀ init, l.foldlM f init = l.foldlM g init := by
  induction l with
  | nil => intro init; rfl
  | cons a as ih =>
    intro init
    rw [List.foldlM_cons, List.foldlM_cons, h init a (List.mem_cons_self ..)]
    congr 1
    funext st
    exact ih (fun st x hx => h st x (List.mem_cons_of_mem _ hx)) st

/-! ### filling a dict built with `None` values, key by key -/

theorem dictSet_append_new {α : Type} (d : List (String × α)) (k : String) (v : α) (h : k ∉ d.map (·.1)) :
    dictSet d k v = d ++ [(k, v)] := by
  unfold dictSet
  have : d.any (fun p => p.1 == k) = false := by
    rw [List.any_eq_false]
    intro p hp hk
    apply h
    have : p.1 = k := by simpa using hk
    rw [← this]; exact List.mem_map_of_mem hp
  rw [this]; rfl

theorem map_replace_not_mem {α : Type} (d : List (String × α)) (k : String) (v : α) (h : k ∉ d.map (·.1)) :
    d.map (fun p => if p.1 == k then (k, v) else p) = d := by
  induction d with
  | nil => rfl
  | cons q qs ih =>
    have h1 : q.1 ≠ k := by intro e; apply h; simp [e]
    have h2 : k ∉ qs.map (·.1) := by intro e; apply h; simp at e ⊢; right; exact e
    simp only [List.map_cons, ih h2]
    have : (q.1 == k) = false := by simpa using h1
    rw [this]; rfl

theorem dictSet_mid {α : Type} (A B : List (String × α)) (k : String) (x v : α)
    (hA : k ∉ A.map (·.1)) (hB : k ∉ B.map (·.1)) :
    dictSet (A ++ (k, x) :: B) k v = A ++ (k, v) :: B := by
  unfold dictSet
  have : (A ++ (k, x) :: B).any (fun p => p.1 == k) = true := by simp
  rw [this]
  simp only [if_true, List.map_append, List.map_cons, map_replace_not_mem A k v hA, map_replace_not_mem B k v hB]
  simp

theorem dict_init (l : List String) : ∀ (acc : List (String × Option Melody)), (acc.map (·.1) ++ l).Nodup →
    l.foldl (fun d k => dictSet d k none) acc = acc ++ l.map (fun k => (k, none)) := by
  induction l with
  | nil => intro acc _; simp
  | cons k ks ih =>
    intro acc h
    simp only [List.foldl_cons]
    have hk : k ∉ acc.map (·.1) := by
      intro e
      have := (List.nodup_append.mp h).2.2 k e k (List.mem_cons_self ..)
      exact this rfl
    rw [dictSet_append_new acc k none hk, ih]
    · simp
    · simp only [List.map_append, List.map_cons, List.map_nil, List.append_assoc, List.singleton_append]; exact h

/-- the loop of `get_chord_between` over a dict prepared with `None` values: after the loop every key holds its
result, in the order of the keys -/
theorem dict_fill (f : String × Melody → Res (String × Melody)) (hf : ∀ p r, f p = .ok r → r.1 = p.1) :
    ∀ (post done : List (String × Melody)), (done.map (·.1) ++ post.map (·.1)).Nodup →
      post.foldlM (fun (d : List (String × Option Melody)) p => do let r ← f p; pure (dictSet d p.1 (some r.2)))
          (done.map (fun r => (r.1, some r.2)) ++ post.map (fun p => (p.1, none)))
        = (do let rs ← post.mapM f; pure ((done ++ rs).map (fun r => (r.1, some r.2))) : Res _) := by
  intro post
  induction post with
  | nil => intro done _; simp [pure, Except.pure, bind, Except.bind]
  | cons p ps ih =>
    intro done h
    rw [List.foldlM_cons, List.mapM_cons]
    cases hfp : f p with
    | error e => rfl
    | ok r =>
      have hr := hf p r hfp
      have hnd := List.nodup_append.mp h
      have hA : p.1 ∉ (done.map (fun r => (r.1, some r.2))).map (·.1) := by
        intro e
        rw [List.map_map] at e
        have e' : p.1 ∈ done.map (·.1) := by simpa [Function.comp] using e
        exact hnd.2.2 p.1 e' p.1 (by simp) rfl
      have hB : p.1 ∉ (ps.map (fun q => (q.1, (none : Option Melody)))).map (·.1) := by
        intro e
        rw [List.map_map] at e
        have e' : p.1 ∈ ps.map (·.1) := by simpa [Function.comp] using e
        have := hnd.2.1
        rw [List.map_cons, List.nodup_cons] at this
        exact this.1 e'
      show (do let d ← (pure (dictSet _ p.1 (some r.2)) : Res _); List.foldlM _ d ps) = _
      rw [List.map_cons, dictSet_mid _ _ p.1 none (some r.2) hA hB]
      have e1 : done.map (fun r => (r.1, some r.2)) ++ (p.1, some r.2) :: ps.map (fun q => (q.1, (none : Option Melody)))
          = (done ++ [r]).map (fun r => (r.1, some r.2)) ++ ps.map (fun q => (q.1, none)) := by
        simp [hr]
      rw [pure_bind, e1, ih (done ++ [r])]
      · cases ps.mapM f <;> simp [pure, Except.pure, bind, Except.bind]
      · simp only [List.map_append, List.map_cons, List.map_nil, hr, List.append_assoc, List.singleton_append]
        simpa using h

theorem lookupKey_mid {α : Type} (A B : List (String × α)) (k : String) (x : α) (hA : k ∉ A.map (·.1)) :
    lookupKey k (A ++ (k, x) :: B) = .ok x := by
  unfold lookupKey
  induction A with
  | nil => simp
  | cons q qs ih =>
    have h1 : k ≠ q.1 := by intro e; apply hA; simp [e]
    have h2 : k ∉ qs.map (·.1) := by intro e; apply hA; simp at e ⊢; right; exact e
    have : (k == q.1) = false := by simpa using h1
    obtain ⟨qk, qv⟩ := q
    simp only [List.cons_append, List.lookup, this]
    exact ih h2

/-- one pass over the keys of a dict, each value replaced by a function of the key and the old value
(`d[k] += …` for every `k`) -/
theorem dict_accumulate {α : Type} (G : String → α → α) :
    ∀ (post pre : List String) (V : String → α), (pre ++ post).Nodup →
      post.foldlM (fun (d : List (String × α)) k => do let v ← lookupKey k d; (pure (dictSet d k (G k v)) : Res _))
          (pre.map (fun k => (k, G k (V k))) ++ post.map (fun k => (k, V k)))
        = (pure ((pre ++ post).map (fun k => (k, G k (V k)))) : Res _) := by
  intro post
  induction post with
  | nil => intro pre V _; simp [pure, Except.pure]
  | cons k ks ih =>
    intro pre V h
    have hnd := List.nodup_append.mp h
    have hA : k ∉ (pre.map (fun k => (k, G k (V k)))).map (·.1) := by
      intro e
      rw [List.map_map] at e
      have e' : k ∈ pre := by simpa [Function.comp] using e
      exact hnd.2.2 k e' k (by simp) rfl
    have hB : k ∉ (ks.map (fun k => (k, V k))).map (·.1) := by
      intro e
      rw [List.map_map] at e
      have e' : k ∈ ks := by simpa [Function.comp] using e
      have := hnd.2.1
      rw [List.nodup_cons] at this
      exact this.1 e'
    rw [List.foldlM_cons, List.map_cons, lookupKey_mid _ _ k (V k) hA]
    show (do let d ← (pure (dictSet _ k (G k (V k))) : Res _); List.foldlM _ d ks) = _
    rw [pure_bind, dictSet_mid _ _ k (V k) (G k (V k)) hA hB]
    have e1 : pre.map (fun k => (k, G k (V k))) ++ (k, G k (V k)) :: ks.map (fun k => (k, V k))
        = (pre ++ [k]).map (fun k => (k, G k (V k))) ++ ks.map (fun k => (k, V k)) := by simp
    rw [e1, ih (pre ++ [k]) V (by simpa using h)]
    simp

end MV.PyB
