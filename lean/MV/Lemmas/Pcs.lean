/-
Pitch classes of the chord notes are invariant under re-ordering / re-octaving of the figure's table row
(C02: "same pitch classes in every inversion", with any modifiers).
-/
import MV.Props.C01b
namespace MV
open Gen

/-- canonical table note: only kind / val / oct vary -/
def Canon (n : Note) : Prop :=
  TableNote n ∧ n.dur = 1 ∧ n.mode = none ∧ n.acc = none ∧ n.amp = 66 ∧ n.tags = [] ∧ n.tempo = none ∧ n.pedal = none
instance (n : Note) : Decidable (Canon n) := by unfold Canon; exact inferInstance

theorem canon_pyEq (a b : Note) (ha : Canon a) (hb : Canon b) : a.pyEq b = true ↔ a = b := by
  obtain ⟨_, a1, a2, a3, a4, a5, a6, a7⟩ := ha
  obtain ⟨_, b1, b2, b3, b4, b5, b6, b7⟩ := hb
  unfold Note.pyEq
  constructor
  · intro h
    simp only [Bool.and_eq_true, beq_iff_eq] at h
    obtain ⟨⟨⟨⟨h1, h2⟩, h3⟩, h4⟩, h5⟩ := h
    cases a; cases b; simp_all
  · intro h; subst h; simp

theorem canon_o (n : Note) (k : Int) (h : Canon n) : Canon (n.o k) := by
  obtain ⟨ht, rest⟩ := h
  refine ⟨tableNote_o n k ht, ?_⟩
  unfold Note.o Note.oabs
  rcases ht with h | h <;> simp [h] <;> exact rest

theorem noOct_o (n : Note) (k : Int) (h : TableNote n) : noOct (n.o k) = noOct n := by
  unfold noOct Note.o Note.oabs
  rcases h with h | h <;> simp [h] <;> omega

theorem noOct_idem (n : Note) (h : TableNote n) : noOct (noOct n) = noOct n := by
  unfold noOct; exact noOct_o n _ h

theorem tables_canon :
    (∀ f base, BASE_EXTENSION_DICT f = some base → ∀ n ∈ base, Canon n) ∧
    (∀ p ∈ DICT_REPLACEMENT, Canon p.2.1 ∧ Canon p.2.2) ∧
    (∀ p ∈ DICT_ADDITION, Canon p.2.1 ∧ Canon p.2.2) ∧
    (∀ p ∈ DICT_REMOVAL, Canon p.2) := by
  refine ⟨?_, by decide, by decide, by decide⟩
  intro f base hb
  cases f <;> (simp only [BASE_EXTENSION_DICT, Option.some.injEq] at hb; subst hb; decide)

/-! ### list surgery up to permutation -/

theorem set_perm {α : Type} [DecidableEq α] (l : List α) (i : Nat) (y : α) (hi : i < l.length) :
    (l.set i y).Perm (y :: l.eraseIdx i) := by
  induction l generalizing i with
  | nil => simp at hi
  | cons a t ih =>
    cases i with
    | zero => simp
    | succ k =>
      simp only [List.set_cons_succ, List.eraseIdx_cons_succ]
      have := ih k (by simpa using hi)
      exact (List.Perm.cons a this).trans (List.Perm.swap y a _)

theorem eraseIdx_perm_erase {α : Type} [DecidableEq α] (l : List α) (i : Nat) (hi : i < l.length) :
    (l.eraseIdx i).Perm (l.erase l[i]) := by
  induction l generalizing i with
  | nil => simp at hi
  | cons a t ih =>
    cases i with
    | zero => simp
    | succ k =>
      simp only [List.eraseIdx_cons_succ, List.getElem_cons_succ]
      by_cases h : a = t[k]'(by simpa using hi)
      · -- erase removes the head `a` (= t[k]); eraseIdx removes position k of t
        rw [← h, List.erase_cons_head]
        have hk : k < t.length := by simpa using hi
        have h1 := ih k hk
        have h2 : (t.erase t[k]).Perm (t.erase a) := by rw [h]
        -- a :: t.eraseIdx k ~ a :: t.erase a ~ t  (since a ∈ t)
        have ha : a ∈ t := by rw [h]; exact List.getElem_mem _
        exact ((List.Perm.cons a (h1.trans h2)).trans (List.perm_cons_erase ha).symm)
      · rw [List.erase_cons_tail (by simpa using h)]
        exact List.Perm.cons a (ih k (by simpa using hi))

theorem map_insertIdx' {α β : Type} (f : α → β) (l : List α) (i : Nat) (x : α) :
    (l.insertIdx i x).map f = (l.map f).insertIdx i (f x) := by
  induction l generalizing i with
  | nil => cases i <;> simp [List.insertIdx]
  | cons a t ih =>
    cases i with
    | zero => simp [List.insertIdx]
    | succ k => simp [List.insertIdx_succ_cons, ih]

theorem insertIdx_perm {α : Type} (l : List α) (i : Nat) (y : α) (hi : i ≤ l.length) :
    (l.insertIdx i y).Perm (y :: l) := List.perm_insertIdx y l hi

/-! ### finding a canonical note -/

theorem idxOfPy_some (x : Note) (l : List Note) (hx : Canon x) (hl : ∀ n ∈ l, Canon n) (i : Nat)
    (h : idxOfPy x l = some i) : ∃ hi : i < l.length, l[i] = x := by
  unfold idxOfPy at h
  have hi := (List.findIdx?_eq_some_iff_getElem.mp h).1
  have hp := (List.findIdx?_eq_some_iff_getElem.mp h).2.1
  exact ⟨hi, (canon_pyEq _ _ (hl _ (List.getElem_mem hi)) hx).mp hp⟩

theorem idxOfPy_none (x : Note) (l : List Note) (hx : Canon x) (hl : ∀ n ∈ l, Canon n) :
    idxOfPy x l = none ↔ x ∉ l := by
  unfold idxOfPy
  rw [List.findIdx?_eq_none_iff]
  constructor
  · intro h hm
    have := h x hm
    rw [(canon_pyEq x x hx hx).mpr rfl] at this
    exact absurd this (by simp)
  · intro h y hy
    cases hyx : y.pyEq x with
    | false => rfl
    | true => exact absurd ((canon_pyEq _ _ (hl y hy) hx).mp hyx ▸ hy) h

/-! ### the table surgery of `_chord_notes_calc` only depends on the multiset of octave-free notes -/

structure StOK (st : CalcState) : Prop where
  canon : ∀ n ∈ st.notes, Canon n
  nwo_eq : st.nwo = st.notes.map noOct
  repl_canon : ∀ p ∈ st.replaced, Canon p.1 ∧ Canon p.2

def StRel (a b : CalcState) : Prop := StOK a ∧ StOK b ∧ a.nwo.Perm b.nwo ∧ a.replaced = b.replaced

def ResRel {α : Type} (R : α → α → Prop) : Res α → Res α → Prop
  | .ok x, .ok y => R x y
  | .error e, .error e' => e = e'
  | _, _ => False

theorem canon_noOct (n : Note) (h : Canon n) : Canon (noOct n) := canon_o n _ h

theorem StOK.nwo_canon {st : CalcState} (h : StOK st) : ∀ n ∈ st.nwo, Canon n := by
  intro n hn
  rw [h.nwo_eq] at hn
  obtain ⟨m, hm, rfl⟩ := List.mem_map.mp hn
  exact canon_noOct m (h.canon m hm)

theorem mem_of_perm_none (x : Note) (a b : CalcState) (hx : Canon x) (h : StRel a b) :
    idxOfPy x a.nwo = none ↔ idxOfPy x b.nwo = none := by
  rw [idxOfPy_none x _ hx h.1.nwo_canon, idxOfPy_none x _ hx h.2.1.nwo_canon]
  exact not_congr (h.2.2.1.mem_iff)

theorem replStep_rel (a b : CalcState) (h : StRel a b) (replaced newNote : Note) (hr : Canon replaced)
    (hn : Canon newNote) (i j : Nat) (hi : idxOfPy replaced a.nwo = some i) (hj : idxOfPy replaced b.nwo = some j) :
    StRel
      { notes := a.notes.set i (newNote.o (a.notes[i]?.getD default).oct), nwo := a.nwo.set i (newNote.o (-newNote.oct)),
        replaced := (replaced, newNote.o (-newNote.oct)) :: a.replaced.filter (fun p => !(p.1.pyEq replaced)) }
      { notes := b.notes.set j (newNote.o (b.notes[j]?.getD default).oct), nwo := b.nwo.set j (newNote.o (-newNote.oct)),
        replaced := (replaced, newNote.o (-newNote.oct)) :: b.replaced.filter (fun p => !(p.1.pyEq replaced)) } := by
  obtain ⟨ha, hb, hp, hrep⟩ := h
  obtain ⟨hi', hie⟩ := idxOfPy_some replaced a.nwo hr ha.nwo_canon i hi
  obtain ⟨hj', hje⟩ := idxOfPy_some replaced b.nwo hr hb.nwo_canon j hj
  have mk : ∀ (s : CalcState) (k : Nat), StOK s →
      StOK { notes := s.notes.set k (newNote.o (s.notes[k]?.getD default).oct), nwo := s.nwo.set k (newNote.o (-newNote.oct)),
             replaced := (replaced, newNote.o (-newNote.oct)) :: s.replaced.filter (fun p => !(p.1.pyEq replaced)) } := by
    intro s k hs
    refine ⟨?_, ?_, ?_⟩
    · intro n hn'
      rcases List.mem_or_eq_of_mem_set hn' with h1 | h1
      · exact hs.canon n h1
      · rw [h1]; exact canon_o _ _ hn
    · simp only [hs.nwo_eq, List.map_set]
      congr 1
      rw [noOct_o _ _ hn.1]; rfl
    · intro p hp'
      rcases List.mem_cons.mp hp' with rfl | hp'
      · exact ⟨hr, canon_o _ _ hn⟩
      · exact hs.repl_canon p (List.mem_filter.mp hp').1
  refine ⟨mk a i ha, mk b j hb, ?_, by simp only [hrep]⟩
  simp only
  have p1 := set_perm a.nwo i (newNote.o (-newNote.oct)) hi'
  have p2 := set_perm b.nwo j (newNote.o (-newNote.oct)) hj'
  have e1 := eraseIdx_perm_erase a.nwo i hi'
  have e2 := eraseIdx_perm_erase b.nwo j hj'
  rw [hie] at e1; rw [hje] at e2
  exact p1.trans ((List.Perm.cons _ (e1.trans ((hp.erase replaced).trans e2.symm))).trans p2.symm)

theorem calcReplacements_rel (rs : List String) (a b : CalcState) (adds : List String) (h : StRel a b) :
    ResRel (fun p q => StRel p.1 q.1 ∧ p.2 = q.2) (calcReplacements rs a adds) (calcReplacements rs b adds) := by
  induction rs generalizing a b adds with
  | nil => simp only [calcReplacements, ResRel]; exact ⟨h, trivial⟩
  | cons r rest ih =>
    unfold calcReplacements
    cases hl : lookupKey r DICT_REPLACEMENT with
    | error e => simp only [bind, Except.bind, ResRel]
    | ok v =>
      obtain ⟨replaced, newNote⟩ := v
      have hc := tables_canon.2.1 _ (lookupKey_mem _ _ _ hl)
      simp only [bind, Except.bind]
      cases hi : idxOfPy replaced a.nwo with
      | none =>
        have hj := (mem_of_perm_none replaced a b hc.1 h).mp hi
        simp only [hj]
        exact ih a b _ h
      | some i =>
        cases hj : idxOfPy replaced b.nwo with
        | none => exact absurd ((mem_of_perm_none replaced a b hc.1 h).mpr hj) (by simp [hi])
        | some j =>
          simp only
          exact ih _ _ _ (replStep_rel a b h replaced newNote hc.1 hc.2 i j hi hj)

/-- the note after which an addition is inserted (`dict_replaced.get(note_after, note_after)`) -/
def queryOf (s : CalcState) (noteAfter : Note) : Note :=
  match s.replaced.find? (fun p => p.1.pyEq noteAfter) with
  | some p => p.2
  | none => noteAfter

def addWith (rest : List String) (query noteAfter newNote : Note) (s : CalcState) : Res CalcState :=
  match idxOfPy query s.nwo with
  | none => .error .value
  | some i =>
      calcAdditions rest { s with notes := s.notes.insertIdx (i + 1) (newNote.o noteAfter.oct),
                                  nwo := s.nwo.insertIdx (i + 1) ((newNote.o noteAfter.oct).o (-(newNote.o noteAfter.oct).oct)) }

theorem calcAdditions_cons (x : String) (rest : List String) (s : CalcState) :
    calcAdditions (x :: rest) s =
      (match lookupKey x DICT_ADDITION with
       | .error e => .error e
       | .ok (noteAfter, newNote) => addWith rest (queryOf s noteAfter) noteAfter newNote s) := by
  rw [calcAdditions]
  cases lookupKey x DICT_ADDITION with
  | error e => rfl
  | ok v => obtain ⟨noteAfter, newNote⟩ := v; rfl

theorem calcAdditions_rel (as : List String) (a b : CalcState) (h : StRel a b) :
    ResRel StRel (calcAdditions as a) (calcAdditions as b) := by
  induction as generalizing a b with
  | nil => simp only [calcAdditions, ResRel]; exact h
  | cons x rest ih =>
    rw [calcAdditions_cons, calcAdditions_cons]
    cases hl : lookupKey x DICT_ADDITION with
    | error e => simp only [ResRel]
    | ok v =>
      obtain ⟨noteAfter, newNote⟩ := v
      have hc := tables_canon.2.2.1 _ (lookupKey_mem _ _ _ hl)
      simp only
      obtain ⟨ha, hb, hp, hrep⟩ := h
      have hqe : queryOf b noteAfter = queryOf a noteAfter := by unfold queryOf; rw [hrep]
      have hq : Canon (queryOf a noteAfter) := by
        unfold queryOf
        cases hf : a.replaced.find? (fun p => p.1.pyEq noteAfter) with
        | none => exact hc.1
        | some p => exact (ha.repl_canon p (List.mem_of_find?_eq_some hf)).2
      rw [hqe]
      generalize queryOf a noteAfter = query at hq ⊢
      have hrel : StRel a b := ⟨ha, hb, hp, hrep⟩
      unfold addWith
      cases hi : idxOfPy query a.nwo with
      | none =>
        have hj := (mem_of_perm_none query a b hq hrel).mp hi
        simp only [hj, ResRel]
      | some i =>
        cases hj : idxOfPy query b.nwo with
        | none => exact absurd ((mem_of_perm_none query a b hq hrel).mpr hj) (by simp [hi])
        | some j =>
          simp only
          obtain ⟨hi', _⟩ := idxOfPy_some query a.nwo hq ha.nwo_canon i hi
          obtain ⟨hj', _⟩ := idxOfPy_some query b.nwo hq hb.nwo_canon j hj
          apply ih
          have hnn : Canon (newNote.o noteAfter.oct) := canon_o _ _ hc.2
          have mk : ∀ (s : CalcState) (k : Nat), StOK s → k < s.nwo.length →
              StOK { s with notes := s.notes.insertIdx (k + 1) (newNote.o noteAfter.oct),
                            nwo := s.nwo.insertIdx (k + 1) ((newNote.o noteAfter.oct).o (-(newNote.o noteAfter.oct).oct)) } := by
            intro s k hs hk
            refine ⟨?_, ?_, hs.repl_canon⟩
            · intro n hn'
              rcases mem_insertIdx' _ _ _ _ hn' with rfl | h1
              · exact hnn
              · exact hs.canon n h1
            · simp only [hs.nwo_eq, map_insertIdx']; rfl
          refine ⟨mk a i ha hi', mk b j hb hj', ?_, hrep⟩
          simp only
          exact (insertIdx_perm _ _ _ (by omega)).trans ((List.Perm.cons _ hp).trans (insertIdx_perm _ _ _ (by omega)).symm)

theorem map_eraseIdx' {α β : Type} (f : α → β) (l : List α) (i : Nat) :
    (l.eraseIdx i).map f = (l.map f).eraseIdx i := by
  induction l generalizing i with
  | nil => simp
  | cons a t ih => cases i <;> simp [ih]

theorem calcRemovals_rel (rs : List String) (a b : CalcState) (h : StRel a b) :
    ResRel StRel (calcRemovals rs a) (calcRemovals rs b) := by
  induction rs generalizing a b with
  | nil => simp only [calcRemovals, ResRel]; exact h
  | cons r rest ih =>
    unfold calcRemovals
    cases hl : lookupKey r DICT_REMOVAL with
    | error e => simp only [bind, Except.bind, ResRel]
    | ok removed =>
      have hc : Canon removed := tables_canon.2.2.2 _ (lookupKey_mem _ _ _ hl)
      simp only [bind, Except.bind]
      obtain ⟨ha, hb, hp, hrep⟩ := h
      have hra : ∀ n ∈ a.nwo.reverse, Canon n := fun n hn => ha.nwo_canon n (List.mem_reverse.mp hn)
      have hrb : ∀ n ∈ b.nwo.reverse, Canon n := fun n hn => hb.nwo_canon n (List.mem_reverse.mp hn)
      have hnone : idxOfPy removed a.nwo.reverse = none ↔ idxOfPy removed b.nwo.reverse = none := by
        rw [idxOfPy_none removed _ hc hra, idxOfPy_none removed _ hc hrb, List.mem_reverse, List.mem_reverse]
        exact not_congr hp.mem_iff
      cases hi : idxOfPy removed a.nwo.reverse with
      | none => simp only [hnone.mp hi, ResRel]
      | some i =>
        cases hj : idxOfPy removed b.nwo.reverse with
        | none => exact absurd (hnone.mpr hj) (by simp [hi])
        | some j =>
          simp only
          obtain ⟨hi', hie⟩ := idxOfPy_some removed _ hc hra i hi
          obtain ⟨hj', hje⟩ := idxOfPy_some removed _ hc hrb j hj
          apply ih
          have hla : a.notes.length = a.nwo.length := by rw [ha.nwo_eq]; simp
          have hlb : b.notes.length = b.nwo.length := by rw [hb.nwo_eq]; simp
          simp only [List.length_reverse] at hi' hj'
          have hia : a.nwo[a.notes.length - i - 1]'(by omega) = removed := by
            rw [← hie, List.getElem_reverse]; congr 1; omega
          have hjb : b.nwo[b.notes.length - j - 1]'(by omega) = removed := by
            rw [← hje, List.getElem_reverse]; congr 1; omega
          have mk : ∀ (s : CalcState) (k : Nat), StOK s →
              StOK { s with notes := s.notes.eraseIdx k, nwo := s.nwo.eraseIdx k } := by
            intro s k hs
            refine ⟨fun n hn => hs.canon n (List.mem_of_mem_eraseIdx hn), ?_, hs.repl_canon⟩
            simp only [hs.nwo_eq, map_eraseIdx']
          refine ⟨mk a _ ha, mk b _ hb, ?_, hrep⟩
          simp only
          have e1 := eraseIdx_perm_erase a.nwo (a.notes.length - i - 1) (by omega)
          have e2 := eraseIdx_perm_erase b.nwo (b.notes.length - j - 1) (by omega)
          rw [hia] at e1; rw [hjb] at e2
          exact e1.trans ((hp.erase removed).trans e2.symm)

/-! ### pitch classes of the chord notes -/

theorem mem_sortByKey {α : Type} (k : α → Int) (l : List α) (y : α) : y ∈ sortByKey k l ↔ y ∈ l := by
  have memins : ∀ (x y : α) (acc : List α), y ∈ sortByKey.insertFront k x acc ↔ y = x ∨ y ∈ acc := by
    intro x y acc
    induction acc with
    | nil => simp [sortByKey.insertFront]
    | cons a t ih =>
      simp only [sortByKey.insertFront]
      split
      · simp
      · simp only [List.mem_cons, ih]
        constructor
        · rintro (h | h | h) <;> simp [h]
        · rintro (h | h | h) <;> simp [h]
  induction l with
  | nil => simp [sortByKey]
  | cons a t ih =>
    unfold sortByKey at *
    simp only [List.foldr_cons, memins, ih, List.mem_cons]

theorem canon_pitch (c : Chord) (n : Note) (hn : Canon n) (he : 0 ≤ c.elem ∧ c.elem < 7) :
    ∃ p, basicPitch c n = .ok (some p) ∧ basicPitch c (noOct n) = .ok (some (p - 12 * n.oct)) := by
  obtain ⟨ht, _, hm, ha, _⟩ := hn
  have h1 := C01.note_octave_12 c n (-n.oct) 0 (by rcases ht with h | h <;> simp [h]) he
  rw [C01.noteToPitch_eq_basic c _ 0 (tableNote_o n _ ht), C01.noteToPitch_eq_basic c n 0 ht] at h1
  rcases ht with hk | hk
  · have := C01.pitch_scale c n 0 hk ha he
    rw [C01.noteToPitch_eq_basic c n 0 (Or.inl hk)] at this
    refine ⟨_, this, ?_⟩
    unfold noOct; rw [h1, this]; simp only [C01.shift]; congr 2; omega
  · have := C01.pitch_chromatic c n 0 hk he
    rw [C01.noteToPitch_eq_basic c n 0 (Or.inr hk)] at this
    refine ⟨_, this, ?_⟩
    unfold noOct; rw [h1, this]; simp only [C01.shift]; congr 2; omega

theorem reqPitch_canon (c : Chord) (n : Note) (hn : Canon n) (he : 0 ≤ c.elem ∧ c.elem < 7) :
    reqPitch c n = .ok (pitchKey c n) ∧ pitchKey c n % 12 = pitchKey c (noOct n) % 12 := by
  obtain ⟨p, h1, h2⟩ := canon_pitch c n hn he
  unfold reqPitch pitchKey
  rw [h1, h2]
  refine ⟨rfl, ?_⟩
  simp only; omega

def pcsOf (c : Chord) (ns : List Note) : List Int := ns.map (fun n => pitchKey c n % 12)

theorem pcs_of_state (c : Chord) (he : 0 ≤ c.elem ∧ c.elem < 7) (st : CalcState) (h : StOK st) (p : Int) :
    p ∈ pcsOf c st.notes ↔ p ∈ pcsOf c st.nwo := by
  unfold pcsOf
  rw [h.nwo_eq, List.map_map]
  simp only [List.mem_map, Function.comp]
  constructor
  · rintro ⟨n, hn, rfl⟩
    exact ⟨n, hn, ((reqPitch_canon c n (h.canon n hn) he).2).symm⟩
  · rintro ⟨n, hn, rfl⟩
    exact ⟨n, hn, (reqPitch_canon c n (h.canon n hn) he).2⟩

theorem mapM_reqPitch_canon (c : Chord) (he : 0 ≤ c.elem ∧ c.elem < 7) (l : List Note) (hl : ∀ n ∈ l, Canon n) :
    l.mapM (reqPitch c) = .ok (l.map (pitchKey c)) :=
  mapM_ok (reqPitch c) (pitchKey c) l (fun n hn => (reqPitch_canon c n (hl n hn) he).1)

/-- **the pitch classes of the chord notes only depend on the multiset of octave-free table notes**:
two figures whose table rows agree up to order and octave give, with the same modifiers, either
the same error or chord notes with the same pitch classes -/
theorem calc_same_pcs (c : Chord) (he : 0 ≤ c.elem ∧ c.elem < 7) (f f' : Fig) (base base' : List Note)
    (hb : BASE_EXTENSION_DICT f = some base) (hb' : BASE_EXTENSION_DICT f' = some base')
    (hperm : (base.map noOct).Perm (base'.map noOct)) (r a m : List String) :
    ResRel (fun ns ns' => (∀ n ∈ ns, Canon n) ∧ (∀ n ∈ ns', Canon n) ∧ ∀ p, p ∈ pcsOf c ns ↔ p ∈ pcsOf c ns')
      (c.chordNotesCalc f r a m) (c.chordNotesCalc f' r a m) := by
  unfold Chord.chordNotesCalc
  simp only [hb, hb', bind, Except.bind, pure, Except.pure]
  have h0 : StRel { notes := base, nwo := base.map noOct } { notes := base', nwo := base'.map noOct } :=
    ⟨⟨tables_canon.1 f base hb, rfl, by simp⟩, ⟨tables_canon.1 f' base' hb', rfl, by simp⟩, hperm, rfl⟩
  have r1 := calcReplacements_rel r _ _ a h0
  cases x1 : calcReplacements r { notes := base, nwo := base.map noOct } a with
  | error e =>
    cases y1 : calcReplacements r { notes := base', nwo := base'.map noOct } a with
    | error e' => simp only [x1, y1, ResRel] at r1 ⊢; exact r1
    | ok v => simp [x1, y1, ResRel] at r1
  | ok v1 =>
    cases y1 : calcReplacements r { notes := base', nwo := base'.map noOct } a with
    | error e' => simp [x1, y1, ResRel] at r1
    | ok w1 =>
      simp only [x1, y1, ResRel] at r1
      obtain ⟨s1, ad1⟩ := v1
      obtain ⟨t1, ad2⟩ := w1
      obtain ⟨hr1, hadd⟩ := r1
      simp only at hadd; subst hadd
      simp only
      have r2 := calcAdditions_rel ad1 s1 t1 hr1
      cases x2 : calcAdditions ad1 s1 with
      | error e =>
        cases y2 : calcAdditions ad1 t1 with
        | error e' => simp only [x2, y2, ResRel] at r2 ⊢; exact r2
        | ok v => simp [x2, y2, ResRel] at r2
      | ok s2 =>
        cases y2 : calcAdditions ad1 t1 with
        | error e' => simp [x2, y2, ResRel] at r2
        | ok t2 =>
          simp only [x2, y2, ResRel] at r2
          simp only
          have r3 := calcRemovals_rel m s2 t2 r2
          cases x3 : calcRemovals m s2 with
          | error e =>
            cases y3 : calcRemovals m t2 with
            | error e' => simp only [x3, y3, ResRel] at r3 ⊢; exact r3
            | ok v => simp [x3, y3, ResRel] at r3
          | ok s3 =>
            cases y3 : calcRemovals m t2 with
            | error e' => simp [x3, y3, ResRel] at r3
            | ok t3 =>
              simp only [x3, y3, ResRel] at r3
              obtain ⟨hs, ht, hp, _⟩ := r3
              simp only [mapM_reqPitch_canon c he s3.notes hs.canon, mapM_reqPitch_canon c he t3.notes ht.canon, ResRel]
              refine ⟨fun n hn => hs.canon n ((mem_sortByKey _ _ n).mp hn),
                      fun n hn => ht.canon n ((mem_sortByKey _ _ n).mp hn), ?_⟩
              intro p
              have e1 : p ∈ pcsOf c (sortByKey (pitchKey c) s3.notes) ↔ p ∈ pcsOf c s3.notes := by
                unfold pcsOf; simp only [List.mem_map, mem_sortByKey]
              have e2 : p ∈ pcsOf c (sortByKey (pitchKey c) t3.notes) ↔ p ∈ pcsOf c t3.notes := by
                unfold pcsOf; simp only [List.mem_map, mem_sortByKey]
              rw [e1, e2, pcs_of_state c he s3 hs, pcs_of_state c he t3 ht]
              unfold pcsOf
              simp only [List.mem_map]
              constructor
              · rintro ⟨n, hn, rfl⟩; exact ⟨n, hp.mem_iff.mp hn, rfl⟩
              · rintro ⟨n, hn, rfl⟩; exact ⟨n, hp.mem_iff.mpr hn, rfl⟩

end MV
