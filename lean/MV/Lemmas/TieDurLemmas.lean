/-
Lemmas for the source tie of the duration sums (`SrcDur`): dictionary lookups over a part list with unique names,
and Python's `max` loop as a fold of `max`.
-/
import MV.Gen.SrcDur

namespace MV.Tie

theorem lookup_of_mem (parts : List (String × Melody)) (h : (parts.map (·.1)).Nodup) :
    ∀ p ∈ parts, lookupKey p.1 parts = .ok p.2 := by
  induction parts with
  | nil => intro p hp; cases hp
  | cons q qs ih =>
    intro p hp
    have hn : q.1 ∉ qs.map (·.1) ∧ (qs.map (·.1)).Nodup := by
      rw [List.map_cons] at h; exact List.nodup_cons.mp h
    unfold lookupKey
    rcases List.mem_cons.mp hp with rfl | hp'
    · simp [List.lookup]
    · have hne : p.1 ≠ q.1 := by
        intro e; apply hn.1; rw [← e]; exact List.mem_map_of_mem hp'
      have := ih hn.2 p hp'
      unfold lookupKey at this
      simp only [List.lookup]
      have : (p.1 == q.1) = false := by simpa using hne
      rw [this]
      assumption

theorem mapM_lookup (parts : List (String × Melody)) (f : Melody → Rat) (h : (parts.map (·.1)).Nodup) :
    ∀ l : List (String × Melody), (∀ p ∈ l, p ∈ parts) →
      (l.map (fun p => p.1)).mapM (fun (key : String) => do let t_1 ← lookupKey key parts; pure (f t_1))
        = (Except.ok (l.map (fun p => f p.2)) : Res (List Rat)) := by
  intro l
  induction l with
  | nil => intro _; rfl
  | cons p ps ih =>
    intro hsub
    rw [List.map_cons, List.mapM_cons, lookup_of_mem parts h p (hsub p (List.mem_cons_self ..))]
    rw [show (do let t_1 ← (Except.ok p.2 : Res Melody); pure (f t_1) : Res Rat) = Except.ok (f p.2) from rfl]
    show (do let y ← (Except.ok (f p.2) : Res Rat); let ys ← _; pure (y :: ys)) = _
    rw [ih (fun q hq => hsub q (List.mem_cons_of_mem _ hq))]
    rfl

theorem foldl_max (l : List Rat) (x : Rat) :
    l.foldl (fun m y => if y > m then y else m) x = l.foldl max x := by
  induction l generalizing x with
  | nil => rfl
  | cons y ys ih =>
    simp only [List.foldl_cons]
    have : (if y > x then y else x) = max x y := by
      rw [Rat.max_def]; by_cases h : x ≤ y
      · by_cases h2 : y > x
        · simp [h, h2]
        · have : x = y := by
            have := Rat.not_lt.mp h2; exact Rat.le_antisymm h this
          simp [this]
      · have : ¬ y > x := fun h2 => h (Rat.le_of_lt h2)
        simp [h, this]
    rw [this, ih]

end MV.Tie
