/-
Structure of the time slicing model (C12): the loop of `get_melody_between` computes
`mDrop a (mTake b m)` (prefix up to `b`, then suffix from `a` with the head-cut note turned into a
continuation); the same for chords and scores; durations of the pieces.
-/
import MV.Model.Slice
namespace MV

theorem foldl_add_rat (l : List Rat) (a : Rat) : l.foldl (· + ·) a = a + l.foldl (· + ·) 0 := by
  induction l generalizing a with
  | nil => simp only [List.foldl_nil]; grind
  | cons x xs ih => simp only [List.foldl_cons]; rw [ih (a + x), ih (0 + x)]; grind

@[simp] theorem sumRat_nil : sumRat [] = 0 := rfl
theorem sumRat_cons (x : Rat) (l : List Rat) : sumRat (x :: l) = x + sumRat l := by
  unfold sumRat; simp only [List.foldl_cons]; rw [foldl_add_rat]; grind
theorem sumRat_append (l1 l2 : List Rat) : sumRat (l1 ++ l2) = sumRat l1 + sumRat l2 := by
  induction l1 with
  | nil => simp only [List.nil_append, sumRat_nil]; grind
  | cons x xs ih => simp only [List.cons_append, sumRat_cons, ih]; grind

@[simp] theorem melodyDuration_nil : melodyDuration [] = 0 := rfl
theorem melodyDuration_cons (n : Note) (m : Melody) : melodyDuration (n :: m) = n.dur + melodyDuration m := by
  unfold melodyDuration; simp only [List.map_cons, sumRat_cons]
theorem melodyDuration_append (m1 m2 : Melody) : melodyDuration (m1 ++ m2) = melodyDuration m1 + melodyDuration m2 := by
  unfold melodyDuration; simp only [List.map_append, sumRat_append]

/-! ### the rounding of `Note.__init__` is the identity on a grid of step `1/N`, `N ≤ LIMIT_DENOM` -/

/-- `q` is an integer multiple of `1/N` -/
def OnGrid (N : Nat) (q : Rat) : Prop := q.den ∣ N

instance (N : Nat) (q : Rat) : Decidable (OnGrid N q) := by unfold OnGrid; infer_instance

theorem onGrid_iff (N : Nat) (hN : 0 < N) (q : Rat) : OnGrid N q ↔ ∃ k : Int, q = mkRat k N := by
  constructor
  · rintro ⟨m, hm⟩
    refine ⟨q.num * m, ?_⟩
    have hm0 : m ≠ 0 := by
      intro h; subst h; simp at hm; omega
    rw [hm, Rat.mkRat_mul_right hm0, Rat.mkRat_self]
  · rintro ⟨k, rfl⟩
    unfold OnGrid
    rw [Rat.den_mkRat]
    have : N ≠ 0 := by omega
    simp only [this, if_false]
    exact Nat.div_dvd_of_dvd (Nat.gcd_dvd_left _ _)

theorem OnGrid.zero (N : Nat) : OnGrid N 0 := by unfold OnGrid; simp

theorem mkRat_add_same (k1 k2 : Int) (N : Nat) : mkRat k1 N + mkRat k2 N = mkRat (k1 + k2) N := by
  rw [Rat.mkRat_eq_div, Rat.mkRat_eq_div, Rat.mkRat_eq_div, Rat.div_def, Rat.div_def, Rat.div_def,
    ← Rat.add_mul, Rat.intCast_add]

theorem mkRat_neg' (k : Int) (N : Nat) : -(mkRat k N) = mkRat (-k) N := by
  rw [Rat.mkRat_eq_div, Rat.mkRat_eq_div, Rat.div_def, Rat.div_def, ← Rat.neg_mul, Rat.intCast_neg]

theorem OnGrid.add {N : Nat} (hN : 0 < N) {a b : Rat} (ha : OnGrid N a) (hb : OnGrid N b) : OnGrid N (a + b) := by
  obtain ⟨k1, rfl⟩ := (onGrid_iff N hN a).mp ha
  obtain ⟨k2, rfl⟩ := (onGrid_iff N hN b).mp hb
  exact (onGrid_iff N hN _).mpr ⟨k1 + k2, mkRat_add_same k1 k2 N⟩

theorem OnGrid.neg {N : Nat} (hN : 0 < N) {a : Rat} (ha : OnGrid N a) : OnGrid N (-a) := by
  obtain ⟨k1, rfl⟩ := (onGrid_iff N hN a).mp ha
  exact (onGrid_iff N hN _).mpr ⟨-k1, mkRat_neg' k1 N⟩

theorem OnGrid.sub {N : Nat} (hN : 0 < N) {a b : Rat} (ha : OnGrid N a) (hb : OnGrid N b) : OnGrid N (a - b) := by
  have : a - b = a + -b := by grind
  rw [this]; exact ha.add hN (hb.neg hN)

/-- the resolution hypothesis: a grid fine enough for the library's `limit_denominator` -/
def GridOK (N : Nat) : Prop := 0 < N ∧ N ≤ Gen.LIMIT_DENOM

instance (N : Nat) : Decidable (GridOK N) := by unfold GridOK; infer_instance

theorem lim_eq {N : Nat} (hN : GridOK N) {q : Rat} (h : OnGrid N q) : lim q = q := by
  unfold lim limitDenominator
  have : q.den ≤ N := Nat.le_of_dvd hN.1 h
  rw [if_pos (by have := hN.2; omega)]

/-- a continuation of exactly `d` (the specification's; the library's `Continuation(d)` rounds `d`) -/
def cont (d : Rat) : Note := { kind := .l, val := 0, oct := 0, dur := d }

theorem continuation_eq {N : Nat} (hN : GridOK N) {d : Rat} (h : OnGrid N d) : continuation d = cont d := by
  unfold continuation cont; rw [lim_eq hN h]

/-- every note of the melody lasts a multiple of `1/N` -/
def MelGrid (N : Nat) (m : Melody) : Prop := ∀ n ∈ m, OnGrid N n.dur

theorem MelGrid.head {N : Nat} {n : Note} {m : Melody} (h : MelGrid N (n :: m)) : OnGrid N n.dur := h n (by simp)
theorem MelGrid.tail {N : Nat} {n : Note} {m : Melody} (h : MelGrid N (n :: m)) : MelGrid N m :=
  fun x hx => h x (by simp [hx])

theorem copyMelody_id {N : Nat} (hN : GridOK N) {m : Melody} (h : MelGrid N m) : copyMelody m = m := by
  unfold copyMelody
  have : m.map limNote = m.map id := by
    apply List.map_congr_left
    intro n hn
    unfold limNote; rw [lim_eq hN (h n hn)]; rfl
  rw [this, List.map_id]

theorem melodyDuration_grid {N : Nat} (hN : 0 < N) {m : Melody} (h : MelGrid N m) : OnGrid N (melodyDuration m) := by
  induction m with
  | nil => exact OnGrid.zero N
  | cons n ns ih => rw [melodyDuration_cons]; exact h.head.add hN (ih h.tail)

/-- prefix of a melody up to time `b`: the notes that start before `b`, the last one clipped at `b` -/
def mTake (b : Rat) : Melody → Melody
  | [] => []
  | n :: ns => if b ≤ 0 then [] else if n.dur ≥ b then [{ n with dur := b }] else n :: mTake (b - n.dur) ns

/-- suffix of a melody from time `a` on: notes ending at or before `a` are dropped, the note sounding
across `a` becomes a continuation of what is left of it -/
def mDrop (a : Rat) : Melody → Melody
  | [] => []
  | n :: ns => if a ≤ 0 then n :: ns else if n.dur ≤ a then mDrop (a - n.dur) ns else cont (n.dur - a) :: ns

def NonNeg (m : Melody) : Prop := ∀ n ∈ m, 0 ≤ n.dur

theorem mDrop_nonpos (a : Rat) (h : a ≤ 0) (m : Melody) : mDrop a m = m := by
  cases m with
  | nil => rfl
  | cons n ns => simp [mDrop, h]

theorem melodyBetweenLoop_spec {N : Nat} (hN : GridOK N) (a b : Rat) (hab : a < b) (hga : OnGrid N a) (hgb : OnGrid N b)
    (m : Melody) (hm : NonNeg m) (hgm : MelGrid N m) (t : Rat) (hgt : OnGrid N t) :
    melodyBetweenLoop a b m t = .ok (mDrop (a - t) (mTake (b - t) m)) := by
  induction m generalizing t with
  | nil => simp [melodyBetweenLoop, mTake, mDrop]; rfl
  | cons n ns ih =>
    have hn : 0 ≤ n.dur := hm n (by simp)
    have hns : NonNeg ns := fun x hx => hm x (by simp [hx])
    have hgn : OnGrid N n.dur := hgm.head
    have hl : lim n.dur = n.dur := lim_eq hN hgn
    have ih := fun t ht => ih hns hgm.tail t ht
    have hgt' : OnGrid N (t + n.dur) := hgt.add hN.1 hgn
    unfold melodyBetweenLoop
    simp only [hl]
    by_cases h1 : t ≥ b
    · have : b - t ≤ 0 := by grind
      simp [h1, mTake, this, mDrop]; rfl
    · have hb : ¬ (b - t ≤ 0) := by grind
      simp only [h1, if_false]
      by_cases h2 : t < a ∧ t + n.dur ≤ a
      · simp only [h2, and_self, if_true]
        rw [ih _ hgt']
        have e1 : ¬ (n.dur ≥ b - t) := by grind
        have e2 : ¬ (a - t ≤ 0) := by grind
        have e3 : n.dur ≤ a - t := by grind
        simp only [mTake, hb, e1, if_false, mDrop, e2, e3, if_true]
        have : a - (t + n.dur) = a - t - n.dur := by grind
        have : b - (t + n.dur) = b - t - n.dur := by grind
        grind
      · rw [if_neg h2]
        by_cases h3 : t + n.dur ≥ b <;> by_cases h4 : t < a
        · -- clipped at b and head-cut
          have e0 : ¬ (b - t - (a - t) < 0) := by grind
          have e1 : n.dur ≥ b - t := by grind
          have e2 : ¬ (a - t ≤ 0) := by grind
          have e3 : ¬ (b - t ≤ a - t) := by grind
          have ec := continuation_eq hN (((hgb.sub hN.1 hgt).sub hN.1 (hga.sub hN.1 hgt)))
          simp only [h3, h4, decide_true, if_true, e0, if_false, mTake, hb, e1, mDrop, e2, e3, ec]
          rfl
        · have e0 : ¬ (b - t < 0) := by grind
          have e1 : n.dur ≥ b - t := by grind
          have e2 : (a - t ≤ 0) := by grind
          simp only [h3, h4, decide_true, decide_false, Bool.false_eq_true, ↓reduceIte, e0, mTake, hb, e1, mDrop, e2]
          rfl
        · have e0 : ¬ (n.dur - (a - t) < 0) := by grind
          have e1 : ¬ (n.dur ≥ b - t) := by grind
          have e2 : ¬ (a - t ≤ 0) := by grind
          have e3 : ¬ (n.dur ≤ a - t) := by grind
          have e5 : t + (a - t) + (n.dur - (a - t)) = t + n.dur := by grind
          have ec := continuation_eq hN (hgn.sub hN.1 (hga.sub hN.1 hgt))
          simp only [h3, h4, decide_true, decide_false, Bool.false_eq_true, ↓reduceIte, e0, mTake, hb, e1, mDrop, e2, e3, e5, ec]
          rw [ih _ hgt']
          have e6 : a - (t + n.dur) ≤ 0 := by grind
          have e7 : b - (t + n.dur) = b - t - n.dur := by grind
          rw [mDrop_nonpos _ e6, e7]
          rfl
        · have e0 : ¬ (n.dur < 0) := by grind
          have e1 : ¬ (n.dur ≥ b - t) := by grind
          have e2 : (a - t ≤ 0) := by grind
          simp only [h3, h4, decide_false, Bool.false_eq_true, ↓reduceIte, e0, mTake, hb, e1, mDrop, e2]
          rw [ih _ hgt']
          have e6 : a - (t + n.dur) ≤ 0 := by grind
          have e7 : b - (t + n.dur) = b - t - n.dur := by grind
          rw [mDrop_nonpos _ e6, e7]
          rfl

def Pos (m : Melody) : Prop := ∀ n ∈ m, 0 < n.dur

theorem Pos.nonNeg {m : Melody} (h : Pos m) : NonNeg m := fun n hn => by have := h n hn; grind
theorem Pos.tail {n : Note} {m : Melody} (h : Pos (n :: m)) : Pos m := fun x hx => h x (by simp [hx])
theorem Pos.head {n : Note} {m : Melody} (h : Pos (n :: m)) : 0 < n.dur := h n (by simp)

theorem melodyDuration_nonneg {m : Melody} (h : NonNeg m) : 0 ≤ melodyDuration m := by
  induction m with
  | nil => simp
  | cons n ns ih =>
    rw [melodyDuration_cons]
    have := h n (by simp)
    have := ih (fun x hx => h x (by simp [hx]))
    grind

theorem melodyDuration_pos {m : Melody} (h : Pos m) (hne : m ≠ []) : 0 < melodyDuration m := by
  cases m with
  | nil => exact absurd rfl hne
  | cons n ns =>
    rw [melodyDuration_cons]
    have := h.head
    have := melodyDuration_nonneg h.tail.nonNeg
    grind

theorem eq_nil_of_duration_zero {m : Melody} (h : Pos m) (h0 : melodyDuration m ≤ 0) : m = [] := by
  by_cases hne : m = []
  · exact hne
  · have := melodyDuration_pos h hne; grind

theorem mTake_duration (b : Rat) (hb : 0 ≤ b) (m : Melody) (hm : NonNeg m) :
    melodyDuration (mTake b m) = min b (melodyDuration m) := by
  induction m generalizing b with
  | nil => simp [mTake]; grind
  | cons n ns ih =>
    have hn : 0 ≤ n.dur := hm n (by simp)
    have hns : NonNeg ns := fun x hx => hm x (by simp [hx])
    have h0 := melodyDuration_nonneg hns
    unfold mTake
    rw [melodyDuration_cons]
    by_cases h1 : b ≤ 0
    · simp only [h1, if_true, melodyDuration_nil]; grind
    · by_cases h2 : n.dur ≥ b
      · simp only [h1, h2, if_true, if_false, melodyDuration_cons, melodyDuration_nil]; grind
      · simp only [h1, h2, if_false, melodyDuration_cons]
        rw [ih (b - n.dur) (by grind) hns]; grind

theorem mTake_of_le (b : Rat) (m : Melody) (hm : Pos m) (h : melodyDuration m ≤ b) : mTake b m = m := by
  induction m generalizing b with
  | nil => rfl
  | cons n ns ih =>
    have hn := hm.head
    have h0 := melodyDuration_nonneg hm.tail.nonNeg
    rw [melodyDuration_cons] at h
    unfold mTake
    have h1 : ¬ b ≤ 0 := by grind
    by_cases h2 : n.dur ≥ b
    · have e : ns = [] := eq_nil_of_duration_zero hm.tail (by grind)
      have e2 : b = n.dur := by grind
      subst e e2
      rw [if_neg h1, if_pos h2]
    · simp only [h1, h2, if_false]
      rw [ih (b - n.dur) hm.tail (by grind)]

theorem mTake_pos (b : Rat) (m : Melody) (hm : Pos m) : Pos (mTake b m) := by
  induction m generalizing b with
  | nil => intro x hx; simp [mTake] at hx
  | cons n ns ih =>
    unfold mTake
    by_cases h1 : b ≤ 0
    · simp only [h1, if_true]; intro x hx; simp at hx
    · by_cases h2 : n.dur ≥ b
      · simp only [h1, h2, if_true, if_false]
        intro x hx; simp at hx; subst hx; show 0 < b; grind
      · simp only [h1, h2, if_false]
        intro x hx
        rcases List.mem_cons.mp hx with rfl | hx
        · exact hm.head
        · exact ih (b - n.dur) hm.tail x hx

theorem mDrop_duration (a : Rat) (ha : 0 ≤ a) (m : Melody) (hm : NonNeg m) (h : a ≤ melodyDuration m) :
    melodyDuration (mDrop a m) = melodyDuration m - a := by
  induction m generalizing a with
  | nil => simp [mDrop] at *; grind
  | cons n ns ih =>
    have hn : 0 ≤ n.dur := hm n (by simp)
    have hns : NonNeg ns := fun x hx => hm x (by simp [hx])
    rw [melodyDuration_cons] at h
    unfold mDrop
    by_cases h1 : a ≤ 0
    · simp only [h1, if_true, melodyDuration_cons]; grind
    · by_cases h2 : n.dur ≤ a
      · simp only [h1, h2, if_true, if_false, melodyDuration_cons]
        rw [ih (a - n.dur) (by grind) hns (by grind)]; grind
      · simp only [h1, h2, if_false, melodyDuration_cons, cont]; grind

theorem mDrop_pos (a : Rat) (m : Melody) (hm : Pos m) : Pos (mDrop a m) := by
  induction m generalizing a with
  | nil => intro x hx; simp [mDrop] at hx
  | cons n ns ih =>
    unfold mDrop
    by_cases h1 : a ≤ 0
    · simp only [h1, if_true]; exact hm
    · by_cases h2 : n.dur ≤ a
      · simp only [h1, h2, if_true, if_false]; exact ih _ hm.tail
      · simp only [h1, h2, if_false]
        intro x hx
        rcases List.mem_cons.mp hx with rfl | hx
        · show 0 < n.dur - a; grind
        · exact hm.tail x hx

theorem mTake_grid {N : Nat} (hN : 0 < N) (b : Rat) (hb : OnGrid N b) (m : Melody) (hm : MelGrid N m) :
    MelGrid N (mTake b m) := by
  induction m generalizing b with
  | nil => intro x hx; simp [mTake] at hx
  | cons n ns ih =>
    unfold mTake
    by_cases h1 : b ≤ 0
    · rw [if_pos h1]; intro x hx; simp at hx
    · rw [if_neg h1]
      by_cases h2 : n.dur ≥ b
      · rw [if_pos h2]; intro x hx
        simp only [List.mem_singleton] at hx; subst hx; exact hb
      · rw [if_neg h2]; intro x hx
        rcases List.mem_cons.mp hx with rfl | hx
        · exact hm.head
        · exact ih _ (hb.sub hN hm.head) hm.tail x hx

theorem mDrop_grid {N : Nat} (hN : 0 < N) (a : Rat) (ha : OnGrid N a) (m : Melody) (hm : MelGrid N m) :
    MelGrid N (mDrop a m) := by
  induction m generalizing a with
  | nil => intro x hx; simp [mDrop] at hx
  | cons n ns ih =>
    unfold mDrop
    by_cases h1 : a ≤ 0
    · rw [if_pos h1]; exact hm
    · rw [if_neg h1]
      by_cases h2 : n.dur ≤ a
      · rw [if_pos h2]; exact ih _ (ha.sub hN hm.head) hm.tail
      · rw [if_neg h2]; intro x hx
        rcases List.mem_cons.mp hx with rfl | hx
        · exact hm.head.sub hN ha
        · exact hm.tail x hx

/-- `get_melody_between(m, a, b)` without `modulo` -/
theorem getMelodyBetween_spec {N : Nat} (hN : GridOK N) (a b : Rat) (hab : a < b) (hga : OnGrid N a) (hgb : OnGrid N b)
    (m : Melody) (hm : NonNeg m) (hgm : MelGrid N m) :
    getMelodyBetween m a b false = .ok (mDrop a (mTake b m)) := by
  unfold getMelodyBetween
  simp only [Bool.false_eq_true, and_false, if_false]
  show melodyBetweenLoop a b m 0 = _
  rw [melodyBetweenLoop_spec hN a b hab hga hgb m hm hgm 0 (OnGrid.zero N)]
  have e1 : a - 0 = a := by grind
  have e2 : b - 0 = b := by grind
  rw [e1, e2]

theorem mapM_ok {α β : Type} {f : α → Res β} {g : α → β} (l : List α) (h : ∀ x ∈ l, f x = .ok (g x)) :
    l.mapM f = .ok (l.map g) := by
  induction l with
  | nil => rfl
  | cons x xs ih =>
    rw [List.mapM_cons, h x (by simp), ih (fun y hy => h y (by simp [hy]))]
    rfl

/-- apply `f` to the melody of every part -/
def cMap (f : Melody → Melody) (c : Chord) : Chord := { c with parts := c.parts.map (fun p => (p.1, f p.2)) }
/-- the chord up to local time `b` -/
def cTake (b : Rat) : Chord → Chord := cMap (mTake b)
/-- the chord from local time `a` on -/
def cDrop (a : Rat) : Chord → Chord := cMap (mDrop a)

/-- kinds a drums part may hold (everything else is converted by `chord(**parts)`) -/
def DrumKind (n : Note) : Prop := n.kind = .d ∨ n.kind = .r ∨ n.kind = .l

/-- what the property assumes of one part: it lasts `D`, has notes, every note lasts > 0, and a drums
part holds drum notes, rests and continuations only (what `Chord.__call__` produces) -/
def PartOK (D : Rat) (p : String × Melody) : Prop :=
  melodyDuration p.2 = D ∧ p.2 ≠ [] ∧ Pos p.2 ∧ (isDrumsName p.1 = true → ∀ n ∈ p.2, DrumKind n)

/-- the property's hypothesis on one chord: it has a part and every part lasts as long as the chord -/
def ChordOK (c : Chord) : Prop := c.parts ≠ [] ∧ ∀ p ∈ c.parts, PartOK c.dur p

theorem foldl_max_const (D : Rat) (l : List Rat) (h : ∀ x ∈ l, x = D) : l.foldl max D = D := by
  induction l with
  | nil => rfl
  | cons x xs ih =>
    have : x = D := h x (by simp)
    subst this
    simp only [List.foldl_cons]
    have : max x x = x := by grind
    rw [this]; exact ih (fun y hy => h y (by simp [hy]))

theorem chordDur_of_parts (c : Chord) (D : Rat) (hne : c.parts ≠ []) (h : ∀ p ∈ c.parts, melodyDuration p.2 = D) :
    c.dur = D := by
  unfold Chord.dur
  cases hp : c.parts with
  | nil => exact absurd hp hne
  | cons p ps =>
    simp only [List.map_cons]
    have hp1 : melodyDuration p.2 = D := h p (by simp [hp])
    rw [hp1]
    apply foldl_max_const
    intro x hx
    rcases List.mem_map.mp hx with ⟨q, hq, rfl⟩
    exact h q (by simp [hp, hq])

theorem ChordOK.of_parts {c : Chord} {D : Rat} (hne : c.parts ≠ []) (h : ∀ p ∈ c.parts, PartOK D p) :
    ChordOK c ∧ c.dur = D := by
  have e : c.dur = D := chordDur_of_parts c D hne (fun p hp => (h p hp).1)
  exact ⟨⟨hne, by rw [e]; exact h⟩, e⟩

theorem ChordOK.dur_pos {c : Chord} (h : ChordOK c) : 0 < c.dur := by
  obtain ⟨hne, hp⟩ := h
  cases hc : c.parts with
  | nil => exact absurd hc hne
  | cons p ps =>
    have := hp p (by simp [hc])
    rw [← this.1]
    exact melodyDuration_pos this.2.2.1 this.2.1

theorem mTake_kind (b : Rat) (m : Melody) : ∀ x ∈ mTake b m, ∃ n ∈ m, x.kind = n.kind := by
  induction m generalizing b with
  | nil => intro x hx; simp [mTake] at hx
  | cons n ns ih =>
    intro x hx
    unfold mTake at hx
    by_cases h1 : b ≤ 0
    · simp [h1] at hx
    · by_cases h2 : n.dur ≥ b
      · simp only [h1, h2, if_true, if_false, List.mem_singleton] at hx
        exact ⟨n, by simp, by rw [hx]⟩
      · simp only [h1, h2, if_false] at hx
        rcases List.mem_cons.mp hx with rfl | hx
        · exact ⟨x, by simp, rfl⟩
        · obtain ⟨y, hy, e⟩ := ih _ x hx
          exact ⟨y, by simp [hy], e⟩

theorem mDrop_kind (a : Rat) (m : Melody) : ∀ x ∈ mDrop a m, (∃ n ∈ m, x.kind = n.kind) ∨ x.kind = .l := by
  induction m generalizing a with
  | nil => intro x hx; simp [mDrop] at hx
  | cons n ns ih =>
    intro x hx
    unfold mDrop at hx
    by_cases h1 : a ≤ 0
    · simp only [h1, if_true] at hx; exact .inl ⟨x, hx, rfl⟩
    · by_cases h2 : n.dur ≤ a
      · simp only [h1, h2, if_true, if_false] at hx
        rcases ih _ x hx with ⟨y, hy, e⟩ | e
        · exact .inl ⟨y, by simp [hy], e⟩
        · exact .inr e
      · simp only [h1, h2, if_false] at hx
        rcases List.mem_cons.mp hx with rfl | hx
        · exact .inr rfl
        · exact .inl ⟨x, by simp [hx], rfl⟩

theorem cMap_ok {c : Chord} {f : Melody → Melody} {D : Rat} (hc : ChordOK c)
    (h : ∀ p ∈ c.parts, PartOK c.dur p → PartOK D (p.1, f p.2)) : ChordOK (cMap f c) ∧ (cMap f c).dur = D := by
  apply ChordOK.of_parts
  · unfold cMap; simp only [ne_eq, List.map_eq_nil_iff]; exact hc.1
  · intro q hq
    unfold cMap at hq
    rcases List.mem_map.mp hq with ⟨p, hp, rfl⟩
    exact h p hp (hc.2 p hp)

theorem cTake_ok {c : Chord} (hc : ChordOK c) (b : Rat) (hb : 0 < b) :
    ChordOK (cTake b c) ∧ (cTake b c).dur = min b c.dur := by
  have hD := hc.dur_pos
  apply cMap_ok hc
  intro p _ hp
  obtain ⟨h1, h2, h3, h4⟩ := hp
  have hd : melodyDuration (mTake b p.2) = min b c.dur := by
    rw [mTake_duration b (by grind) p.2 h3.nonNeg, h1]
  refine ⟨hd, ?_, mTake_pos b p.2 h3, ?_⟩
  · intro e
    have e' : mTake b p.2 = [] := e
    rw [e', melodyDuration_nil] at hd; grind
  · intro hdr x hx
    obtain ⟨n, hn, e⟩ := mTake_kind b p.2 x hx
    have := h4 hdr n hn
    unfold DrumKind at *; rw [e]; exact this

theorem cDrop_ok {c : Chord} (hc : ChordOK c) (a : Rat) (ha : a < c.dur) :
    ChordOK (cDrop a c) ∧ (cDrop a c).dur = c.dur - max a 0 := by
  have hD := hc.dur_pos
  apply cMap_ok hc
  intro p _ hp
  obtain ⟨h1, h2, h3, h4⟩ := hp
  have hd : melodyDuration (mDrop a p.2) = c.dur - max a 0 := by
    by_cases h0 : a ≤ 0
    · rw [mDrop_nonpos a h0, h1]; grind
    · rw [mDrop_duration a (by grind) p.2 h3.nonNeg (by grind), h1]; grind
  refine ⟨hd, ?_, mDrop_pos a p.2 h3, ?_⟩
  · intro e
    have e' : mDrop a p.2 = [] := e
    rw [e', melodyDuration_nil] at hd; grind
  · intro hdr x hx
    rcases mDrop_kind a p.2 x hx with ⟨n, hn, e⟩ | e
    · have := h4 hdr n hn
      unfold DrumKind at *; rw [e]; exact this
    · exact .inr (.inr e)

theorem preparsePart_id {N : Nat} (hN : GridOK N) (c : Chord) (p : String × Melody) (hne : p.2 ≠ []) (hg : MelGrid N p.2)
    (hd : isDrumsName p.1 = true → ∀ n ∈ p.2, DrumKind n) : preparsePart c p = .ok p := by
  unfold preparsePart
  simp only [copyMelody_id hN hg]
  by_cases h : isDrumsName p.1 = true
  · have he : p.2.isEmpty = false := by
      cases hp : p.2 with
      | nil => exact absurd hp hne
      | cons _ _ => rfl
    rw [if_pos h, he]
    simp only [Bool.false_eq_true, if_false]
    have : p.2.mapM (convertToDrumNote c) = .ok (p.2.map id) := by
      apply mapM_ok
      intro n hn
      unfold convertToDrumNote
      have hk : n.kind = Kind.d ∨ n.kind = Kind.r ∨ n.kind = Kind.l := hd h n hn
      rw [if_pos hk]; rfl
    rw [this, List.map_id]; rfl
  · rw [if_neg h]; rfl

theorem call_id {N : Nat} (hN : GridOK N) (c : Chord) (parts : List (String × Melody))
    (h : ∀ p ∈ parts, p.2 ≠ [] ∧ MelGrid N p.2 ∧ (isDrumsName p.1 = true → ∀ n ∈ p.2, DrumKind n)) :
    c.call parts = .ok { c with parts := parts } := by
  unfold Chord.call
  have : parts.mapM (preparsePart c) = .ok (parts.map id) := by
    apply mapM_ok
    intro p hp
    exact preparsePart_id hN c p (h p hp).1 (h p hp).2.1 (h p hp).2.2
  rw [this, List.map_id]; rfl

/-- every note of the chord lasts a multiple of `1/N` -/
def ChordGrid (N : Nat) (c : Chord) : Prop := ∀ p ∈ c.parts, MelGrid N p.2

theorem cMap_grid {N : Nat} (f : Melody → Melody) (c : Chord) (hg : ChordGrid N c)
    (hf : ∀ m, MelGrid N m → MelGrid N (f m)) : ChordGrid N (cMap f c) := by
  intro q hq
  unfold cMap at hq
  rcases List.mem_map.mp hq with ⟨p, hp, rfl⟩
  exact hf _ (hg p hp)

theorem ChordOK.dur_grid {N : Nat} (hN : 0 < N) {c : Chord} (h : ChordOK c) (hg : ChordGrid N c) : OnGrid N c.dur := by
  obtain ⟨hne, hp⟩ := h
  cases hc : c.parts with
  | nil => exact absurd hc hne
  | cons p ps =>
    have hm : p ∈ c.parts := by simp [hc]
    rw [← (hp p hm).1]
    exact melodyDuration_grid hN (hg p hm)

theorem cMap_cMap (f g : Melody → Melody) (c : Chord) : cMap f (cMap g c) = cMap (f ∘ g) c := by
  unfold cMap; simp [List.map_map, Function.comp_def]

/-- `get_chord_between(c, a, b)` on a chord that overlaps the window -/
theorem getChordBetween_spec {N : Nat} (hN : GridOK N) {c : Chord} (hc : ChordOK c) (hg : ChordGrid N c) (a b : Rat)
    (hab : a < b) (hga : OnGrid N a) (hgb : OnGrid N b) (ha : a < c.dur) (hb : 0 < b) :
    getChordBetween c a b false = .ok (cDrop a (cTake b c)) := by
  have hT := cTake_ok hc b hb
  have hDr := cDrop_ok hT.1 a (by rw [hT.2]; have := hc.dur_pos; grind)
  have hgr : ChordGrid N (cDrop a (cTake b c)) :=
    cMap_grid _ _ (cMap_grid _ _ hg (fun m hm => mTake_grid hN.1 b hgb m hm)) (fun m hm => mDrop_grid hN.1 a hga m hm)
  unfold getChordBetween
  have hm : c.parts.mapM (chordBetweenPart a b false) = .ok (c.parts.map (fun p => (p.1, mDrop a (mTake b p.2)))) := by
    apply mapM_ok
    intro p hp
    unfold chordBetweenPart
    rw [getMelodyBetween_spec hN a b hab hga hgb p.2 (hc.2 p hp).2.2.1.nonNeg (hg p hp)]
    simp only [Bool.false_eq_true, false_and, if_false]
    rfl
  rw [hm]
  have hne : (c.parts.map (fun p => (p.1, mDrop a (mTake b p.2)))).isEmpty = false := by
    cases hp : c.parts with
    | nil => exact absurd hp hc.1
    | cons _ _ => rfl
  show (if (c.parts.map (fun p => (p.1, mDrop a (mTake b p.2)))).isEmpty = true then _ else _) = _
  rw [hne]
  simp only [Bool.false_eq_true, if_false]
  have e : cDrop a (cTake b c) = { c with parts := c.parts.map (fun p => (p.1, mDrop a (mTake b p.2))) } := by
    unfold cDrop cTake; rw [cMap_cMap]; rfl
  rw [call_id hN]
  · rw [e]
  · intro q hq
    have hq' : q ∈ (cDrop a (cTake b c)).parts := by rw [e]; exact hq
    have := hDr.1.2 q hq'
    exact ⟨this.2.1, hgr q hq', this.2.2.2⟩

/-- the score up to time `b`: chords starting before `b`, the last one cut at `b` -/
def sTake (b : Rat) : Score → Score
  | [] => []
  | c :: cs => if b ≤ 0 then [] else if c.dur ≥ b then [cTake b c] else c :: sTake (b - c.dur) cs

/-- the score from time `a` on: chords ending at or before `a` dropped, the chord across `a` cut -/
def sDrop (a : Rat) : Score → Score
  | [] => []
  | c :: cs => if a ≤ 0 then c :: cs else if c.dur ≤ a then sDrop (a - c.dur) cs else cDrop a c :: cs

/-- the property's hypothesis: every part lasts as long as its chord (every chord has a part, every
note lasts > 0) -/
def ScoreOK (s : Score) : Prop := ∀ c ∈ s, ChordOK c

theorem ScoreOK.head {c : Chord} {s : Score} (h : ScoreOK (c :: s)) : ChordOK c := h c (by simp)
theorem ScoreOK.tail {c : Chord} {s : Score} (h : ScoreOK (c :: s)) : ScoreOK s := fun x hx => h x (by simp [hx])

@[simp] theorem scoreDuration_nil : scoreDuration [] = 0 := rfl
theorem scoreDuration_cons (c : Chord) (s : Score) : scoreDuration (c :: s) = c.dur + scoreDuration s := by
  unfold scoreDuration; simp only [List.map_cons, sumRat_cons]
theorem scoreDuration_append (s1 s2 : Score) : scoreDuration (s1 ++ s2) = scoreDuration s1 + scoreDuration s2 := by
  unfold scoreDuration; simp only [List.map_append, sumRat_append]

theorem scoreDuration_nonneg {s : Score} (h : ScoreOK s) : 0 ≤ scoreDuration s := by
  induction s with
  | nil => simp
  | cons c cs ih =>
    rw [scoreDuration_cons]
    have := h.head.dur_pos
    have := ih h.tail
    grind

theorem scoreDuration_pos {s : Score} (h : ScoreOK s) (hne : s ≠ []) : 0 < scoreDuration s := by
  cases s with
  | nil => exact absurd rfl hne
  | cons c cs =>
    rw [scoreDuration_cons]
    have := h.head.dur_pos
    have := scoreDuration_nonneg h.tail
    grind

theorem sTake_nonpos (b : Rat) (h : b ≤ 0) (s : Score) : sTake b s = [] := by
  cases s with
  | nil => rfl
  | cons c cs => simp [sTake, h]

theorem sDrop_nonpos (a : Rat) (h : a ≤ 0) (s : Score) : sDrop a s = s := by
  cases s with
  | nil => rfl
  | cons c cs => simp [sDrop, h]

@[simp] theorem sDrop_nil (a : Rat) : sDrop a [] = [] := rfl

theorem cMap_id' (c : Chord) (f : Melody → Melody) (h : ∀ p ∈ c.parts, f p.2 = p.2) : cMap f c = c := by
  unfold cMap
  have : c.parts.map (fun p => (p.1, f p.2)) = c.parts.map id := by
    apply List.map_congr_left
    intro p hp; rw [h p hp]; rfl
  rw [this, List.map_id]

theorem cDrop_nonpos (a : Rat) (h : a ≤ 0) (c : Chord) : cDrop a c = c :=
  cMap_id' c _ (fun p _ => mDrop_nonpos a h p.2)

theorem cTake_of_le {c : Chord} (hc : ChordOK c) (b : Rat) (h : c.dur ≤ b) : cTake b c = c :=
  cMap_id' c _ (fun p hp => mTake_of_le b p.2 (hc.2 p hp).2.2.1 (by rw [(hc.2 p hp).1]; exact h))

/-- every note of the score lasts a multiple of `1/N` -/
def ScoreGrid (N : Nat) (s : Score) : Prop := ∀ c ∈ s, ChordGrid N c

theorem ScoreGrid.head {N : Nat} {c : Chord} {s : Score} (h : ScoreGrid N (c :: s)) : ChordGrid N c := h c (by simp)
theorem ScoreGrid.tail {N : Nat} {c : Chord} {s : Score} (h : ScoreGrid N (c :: s)) : ScoreGrid N s :=
  fun x hx => h x (by simp [hx])

theorem copyChord_id {N : Nat} (hN : GridOK N) {c : Chord} (hg : ChordGrid N c) : copyChord c = c := by
  unfold copyChord
  have : c.parts.map (fun p => (p.1, copyMelody p.2)) = c.parts.map id := by
    apply List.map_congr_left
    intro p hp; rw [copyMelody_id hN (hg p hp)]; rfl
  rw [this, List.map_id]

theorem scoreBetweenLoop_spec {N : Nat} (hN : GridOK N) (a b : Rat) (hab : a < b) (hga : OnGrid N a) (hgb : OnGrid N b)
    (s : Score) (hs : ScoreOK s) (hg : ScoreGrid N s) (t : Rat) (hgt : OnGrid N t) :
    scoreBetweenLoop a b s t = .ok (sDrop (a - t) (sTake (b - t) s)) := by
  induction s generalizing t with
  | nil => rfl
  | cons c cs ih =>
    have hc := hs.head
    have hD := hc.dur_pos
    have hgt' : OnGrid N (t + c.dur) := hgt.add hN.1 (hc.dur_grid hN.1 hg.head)
    have ih := ih hs.tail hg.tail (t + c.dur) hgt'
    unfold scoreBetweenLoop
    simp only []
    by_cases h1 : t + c.dur ≤ a
    · rw [if_pos h1, ih]
      have e1 : ¬ (b - t ≤ 0) := by grind
      have e2 : ¬ (c.dur ≥ b - t) := by grind
      have e3 : ¬ (a - t ≤ 0) := by grind
      have e4 : c.dur ≤ a - t := by grind
      have e5 : a - (t + c.dur) = a - t - c.dur := by grind
      have e6 : b - (t + c.dur) = b - t - c.dur := by grind
      simp only [sTake, e1, e2, if_false, sDrop, e3, e4, if_true, e5, e6]
    · rw [if_neg h1]
      by_cases h2 : t ≥ b
      · rw [if_pos h2, sTake_nonpos (b - t) (by grind)]; rfl
      · rw [if_neg h2]
        have e1 : ¬ (b - t ≤ 0) := by grind
        by_cases h3 : t + c.dur < b ∧ t ≥ a
        · rw [if_pos h3, ih, copyChord_id hN hg.head]
          have e2 : ¬ (c.dur ≥ b - t) := by grind
          have e3 : a - t ≤ 0 := by grind
          have e6 : b - (t + c.dur) = b - t - c.dur := by grind
          rw [sDrop_nonpos (a - (t + c.dur)) (by grind)]
          simp only [sTake, e1, e2, if_false, sDrop, e3, if_true, e6]
          rfl
        · rw [if_neg h3, getChordBetween_spec hN hc hg.head (a - t) (b - t) (by grind) (hga.sub hN.1 hgt)
            (hgb.sub hN.1 hgt) (by grind) (by grind), ih]
          by_cases h4 : c.dur ≥ b - t
          · rw [sTake_nonpos (b - (t + c.dur)) (by grind)]
            simp only [sTake, e1, h4, if_false, if_true, sDrop]
            by_cases h5 : a - t ≤ 0
            · rw [cDrop_nonpos _ h5]; simp only [h5, if_true]; rfl
            · have e7 : ¬ ((cTake (b - t) c).dur ≤ a - t) := by
                rw [(cTake_ok hc (b - t) (by grind)).2]; grind
              simp only [h5, e7, if_false]; rfl
          · have e3 : ¬ (a - t ≤ 0) := by grind
            have e4 : ¬ (c.dur ≤ a - t) := by grind
            have e6 : b - (t + c.dur) = b - t - c.dur := by grind
            rw [cTake_of_le hc (b - t) (by grind), sDrop_nonpos (a - (t + c.dur)) (by grind)]
            simp only [sTake, e1, h4, if_false, sDrop, e3, e4, e6]
            rfl

theorem sTake_ok (b : Rat) (s : Score) (hs : ScoreOK s) : ScoreOK (sTake b s) := by
  induction s generalizing b with
  | nil => intro c hc; simp [sTake] at hc
  | cons c cs ih =>
    unfold sTake
    by_cases h1 : b ≤ 0
    · rw [if_pos h1]; intro x hx; simp at hx
    · rw [if_neg h1]
      by_cases h2 : c.dur ≥ b
      · rw [if_pos h2]; intro x hx
        simp only [List.mem_singleton] at hx; subst hx
        exact (cTake_ok hs.head b (by grind)).1
      · rw [if_neg h2]; intro x hx
        rcases List.mem_cons.mp hx with rfl | hx
        · exact hs.head
        · exact ih _ hs.tail x hx

theorem sTake_duration (b : Rat) (hb : 0 ≤ b) (s : Score) (hs : ScoreOK s) :
    scoreDuration (sTake b s) = min b (scoreDuration s) := by
  induction s generalizing b with
  | nil => simp [sTake]; grind
  | cons c cs ih =>
    have hD := hs.head.dur_pos
    have h0 := scoreDuration_nonneg hs.tail
    unfold sTake
    rw [scoreDuration_cons]
    by_cases h1 : b ≤ 0
    · rw [if_pos h1, scoreDuration_nil]; grind
    · rw [if_neg h1]
      by_cases h2 : c.dur ≥ b
      · rw [if_pos h2, scoreDuration_cons, scoreDuration_nil, (cTake_ok hs.head b (by grind)).2]; grind
      · rw [if_neg h2, scoreDuration_cons, ih (b - c.dur) (by grind) hs.tail]; grind

theorem sDrop_ok (a : Rat) (s : Score) (hs : ScoreOK s) : ScoreOK (sDrop a s) := by
  induction s generalizing a with
  | nil => intro c hc; simp at hc
  | cons c cs ih =>
    unfold sDrop
    by_cases h1 : a ≤ 0
    · rw [if_pos h1]; exact hs
    · rw [if_neg h1]
      by_cases h2 : c.dur ≤ a
      · rw [if_pos h2]; exact ih _ hs.tail
      · rw [if_neg h2]; intro x hx
        rcases List.mem_cons.mp hx with rfl | hx
        · exact (cDrop_ok hs.head a (by grind)).1
        · exact hs.tail x hx

theorem sDrop_duration (a : Rat) (ha : 0 ≤ a) (s : Score) (hs : ScoreOK s) (h : a ≤ scoreDuration s) :
    scoreDuration (sDrop a s) = scoreDuration s - a := by
  induction s generalizing a with
  | nil => simp at *; grind
  | cons c cs ih =>
    have hD := hs.head.dur_pos
    rw [scoreDuration_cons] at h
    unfold sDrop
    by_cases h1 : a ≤ 0
    · rw [if_pos h1]; grind
    · rw [if_neg h1]
      by_cases h2 : c.dur ≤ a
      · rw [if_pos h2, ih (a - c.dur) (by grind) hs.tail (by grind), scoreDuration_cons]; grind
      · rw [if_neg h2, scoreDuration_cons, scoreDuration_cons, (cDrop_ok hs.head a (by grind)).2]; grind

/-- the window `[a, b)` of a score -/
def sWindow (a b : Rat) (s : Score) : Score := sDrop a (sTake b s)

theorem sWindow_ok (a b : Rat) (s : Score) (hs : ScoreOK s) : ScoreOK (sWindow a b s) :=
  sDrop_ok a _ (sTake_ok b s hs)

theorem sWindow_duration (a b : Rat) (ha : 0 ≤ a) (hab : a < b) (s : Score) (hs : ScoreOK s)
    (h : a ≤ scoreDuration s) : scoreDuration (sWindow a b s) = min b (scoreDuration s) - a := by
  unfold sWindow
  rw [sDrop_duration a ha _ (sTake_ok b s hs) (by rw [sTake_duration b (by grind) s hs]; grind),
    sTake_duration b (by grind) s hs]

theorem sWindow_ne_nil (a b : Rat) (ha : 0 ≤ a) (hab : a < b) (s : Score) (hs : ScoreOK s)
    (h : a < scoreDuration s) : sWindow a b s ≠ [] := by
  intro e
  have := sWindow_duration a b ha hab s hs (by grind)
  rw [e, scoreDuration_nil] at this
  grind

theorem sDrop_eq_nil (a : Rat) (s : Score) (hs : ScoreOK s) (h : scoreDuration s ≤ a) : sDrop a s = [] := by
  induction s generalizing a with
  | nil => rfl
  | cons c cs ih =>
    have hD := hs.head.dur_pos
    have h0 := scoreDuration_nonneg hs.tail
    rw [scoreDuration_cons] at h
    unfold sDrop
    rw [if_neg (by grind), if_pos (by grind)]
    exact ih _ hs.tail (by grind)

theorem sWindow_eq_nil (a b : Rat) (s : Score) (hs : ScoreOK s)
    (h : scoreDuration s ≤ a) : sWindow a b s = [] := by
  unfold sWindow
  by_cases hb : b ≤ 0
  · rw [sTake_nonpos b hb]; rfl
  · apply sDrop_eq_nil a _ (sTake_ok b s hs)
    rw [sTake_duration b (by grind) s hs]; grind

/-- `get_score_between(s, a, b)` -/
theorem getScoreBetween_spec {N : Nat} (hN : GridOK N) (a b : Rat) (hab : a < b) (hga : OnGrid N a) (hgb : OnGrid N b)
    (s : Score) (hs : ScoreOK s) (hg : ScoreGrid N s) :
    getScoreBetween s (some a) (some b) =
      .ok (if (sWindow a b s).isEmpty then none else some (sWindow a b s)) := by
  unfold getScoreBetween
  simp only [Option.getD_some]
  show (scoreBetweenLoop a b s 0 >>= fun out => pure (if out.isEmpty then none else some out)) = _
  rw [scoreBetweenLoop_spec hN a b hab hga hgb s hs hg 0 (OnGrid.zero N)]
  have e1 : a - 0 = a := by grind
  have e2 : b - 0 = b := by grind
  rw [e1, e2]; rfl

theorem scoreDuration_grid {N : Nat} (hN : 0 < N) {s : Score} (hs : ScoreOK s) (hg : ScoreGrid N s) :
    OnGrid N (scoreDuration s) := by
  induction s with
  | nil => exact OnGrid.zero N
  | cons c cs ih =>
    rw [scoreDuration_cons]
    exact (hs.head.dur_grid hN hg.head).add hN (ih hs.tail hg.tail)

theorem replicate_flatten_grid {N : Nat} (s : Score) (hg : ScoreGrid N s) (n : Nat) :
    ScoreGrid N (List.replicate n s).flatten := by
  intro c hc
  rcases List.mem_flatten.mp hc with ⟨l, hl, hcl⟩
  rw [(List.mem_replicate.mp hl).2] at hcl
  exact hg c hcl

theorem map_copyChord_id {N : Nat} (hN : GridOK N) {s : Score} (hg : ScoreGrid N s) : s.map copyChord = s := by
  have : s.map copyChord = s.map id := by
    apply List.map_congr_left
    intro c hc; rw [copyChord_id hN (hg c hc)]; rfl
  rw [this, List.map_id]

theorem replicate_flatten_ok (s : Score) (hs : ScoreOK s) (n : Nat) : ScoreOK (List.replicate n s).flatten := by
  intro c hc
  rcases List.mem_flatten.mp hc with ⟨l, hl, hcl⟩
  rw [(List.mem_replicate.mp hl).2] at hcl
  exact hs c hcl

theorem replicate_flatten_duration (s : Score) (n : Nat) :
    scoreDuration (List.replicate n s).flatten = (n : Rat) * scoreDuration s := by
  induction n with
  | zero => simp
  | succ k ih =>
    rw [List.replicate_succ, List.flatten_cons, scoreDuration_append, ih, Rat.natCast_add]
    have : ((1 : Nat) : Rat) = 1 := rfl
    rw [this]; grind

theorem pyTrunc_of_nonneg (q : Rat) (h : 0 ≤ q) : pyTrunc q = q.floor := by
  unfold pyTrunc; rw [if_pos h]

/-- number of repetitions chosen by `repeat_until_duration` covers the duration -/
theorem repeat_covers (D d : Rat) (hD : 0 < D) (hd : 0 < d) :
    0 < pyTrunc (d / D) + 1 ∧ d < (((pyTrunc (d / D) + 1).toNat : Nat) : Rat) * D := by
  have hq : 0 ≤ d / D := by
    rw [Rat.div_def]
    have : 0 < D⁻¹ := Rat.inv_pos.mpr hD
    have := Rat.mul_pos hd this
    grind
  rw [pyTrunc_of_nonneg _ hq]
  have hf : 0 ≤ (d / D).floor := Rat.le_floor_iff.mpr (by simpa using hq)
  refine ⟨by omega, ?_⟩
  have h1 := Rat.lt_floor_add_one (d / D)
  have h2 := Rat.mul_lt_mul_of_pos_right h1 hD
  rw [Rat.div_mul_cancel (by grind)] at h2
  have e : ((((d / D).floor + 1).toNat : Nat) : Rat) = (((d / D).floor + 1 : Int) : Rat) := by
    rw [← Rat.intCast_natCast, Int.toNat_of_nonneg (by omega)]
  rw [e]; exact h2

/-- the notes of a melody with their onsets, the first one starting at `t` -/
def timed (t : Rat) : Melody → List (Rat × Note)
  | [] => []
  | n :: ns => (t, n) :: timed (t + n.dur) ns

/-- what the window `[a, b)` should contain, note by note: a note sounding across `a` becomes a
continuation (at time 0) lasting until its end or `b`; a note starting inside the window is kept,
clipped at `b`, shifted by `-a`; every other note is dropped -/
def windowNote (a b : Rat) (x : Rat × Note) : Option (Rat × Note) :=
  if x.1 < a ∧ a < x.1 + x.2.dur then some (0, cont (min (x.1 + x.2.dur) b - a))
  else if a ≤ x.1 ∧ x.1 < b then some (x.1 - a, { x.2 with dur := min x.2.dur (b - x.1) })
  else none

theorem timed_congr {t t' : Rat} (h : t = t') (m : Melody) : timed t m = timed t' m := by rw [h]

theorem windowNote_late (a b : Rat) (hab : a < b) (t : Rat) (ht : b ≤ t) (m : Melody) (hm : NonNeg m) :
    (timed t m).filterMap (windowNote a b) = [] := by
  induction m generalizing t with
  | nil => rfl
  | cons n ns ih =>
    have hn : 0 ≤ n.dur := hm n (by simp)
    have hns : NonNeg ns := fun x hx => hm x (by simp [hx])
    unfold timed
    have : windowNote a b (t, n) = none := by
      unfold windowNote
      rw [if_neg (by grind), if_neg (by grind)]
    rw [List.filterMap_cons_none this]
    exact ih (t + n.dur) (by grind) hns

/-- the melody-level window, generalised to a melody whose first note starts at `t` -/
theorem timed_window (a b : Rat) (hab : a < b) (m : Melody) (hm : NonNeg m) (t : Rat) :
    timed (max t a - a) (mDrop (a - t) (mTake (b - t) m)) = (timed t m).filterMap (windowNote a b) := by
  induction m generalizing t with
  | nil => rfl
  | cons n ns ih =>
    have hn : 0 ≤ n.dur := hm n (by simp)
    have hns : NonNeg ns := fun x hx => hm x (by simp [hx])
    have ih := ih hns
    by_cases h1 : b - t ≤ 0
    · rw [windowNote_late a b hab t (by grind) _ hm]
      simp only [mTake, h1, if_true, mDrop, timed]
    · unfold mTake
      rw [if_neg h1]
      by_cases h2 : n.dur ≥ b - t
      · rw [if_pos h2]
        have hlate := windowNote_late a b hab (t + n.dur) (by grind) ns hns
        unfold mDrop
        by_cases h3 : a - t ≤ 0
        · rw [if_pos h3]
          have hw : windowNote a b (t, n) = some (t - a, { n with dur := b - t }) := by
            unfold windowNote
            rw [if_neg (by grind), if_pos (by grind)]
            have : min n.dur (b - t) = b - t := by grind
            simp only [this]
          have e : max t a - a = t - a := by grind
          simp only [timed, List.filterMap_cons_some hw, hlate, e]
        · rw [if_neg h3, if_neg (by show ¬ (b - t ≤ a - t); grind)]
          have hw : windowNote a b (t, n) = some (0, cont (b - t - (a - t))) := by
            unfold windowNote
            rw [if_pos (by grind)]
            have : min (t + n.dur) b - a = b - t - (a - t) := by grind
            simp only [this]
          have e : max t a - a = 0 := by grind
          simp only [timed, List.filterMap_cons_some hw, hlate, e]
      · rw [if_neg h2]
        have e6 : b - (t + n.dur) = b - t - n.dur := by grind
        unfold mDrop
        by_cases h3 : a - t ≤ 0
        · rw [if_pos h3]
          have hw : windowNote a b (t, n) = some (t - a, n) := by
            unfold windowNote
            rw [if_neg (by grind), if_pos (by grind)]
            have : min n.dur (b - t) = n.dur := by grind
            simp only [this]
          have e : max t a - a = t - a := by grind
          have ih' := ih (t + n.dur)
          rw [mDrop_nonpos _ (by grind), e6] at ih'
          have e' : max (t + n.dur) a - a = t - a + n.dur := by grind
          rw [e'] at ih'
          simp only [timed, List.filterMap_cons_some hw, e, ih']
        · rw [if_neg h3]
          by_cases h4 : n.dur ≤ a - t
          · rw [if_pos h4]
            have hw : windowNote a b (t, n) = none := by
              unfold windowNote
              rw [if_neg (by grind), if_neg (by grind)]
            have ih' := ih (t + n.dur)
            have e5 : a - (t + n.dur) = a - t - n.dur := by grind
            have e' : max (t + n.dur) a - a = max t a - a := by grind
            rw [e5, e6, e'] at ih'
            simp only [timed, List.filterMap_cons_none hw, ih']
          · rw [if_neg h4]
            have hw : windowNote a b (t, n) = some (0, cont (n.dur - (a - t))) := by
              unfold windowNote
              rw [if_pos (by grind)]
              have : min (t + n.dur) b - a = n.dur - (a - t) := by grind
              simp only [this]
            have e : max t a - a = 0 := by grind
            have ih' := ih (t + n.dur)
            rw [mDrop_nonpos _ (by grind), e6] at ih'
            have e' : max (t + n.dur) a - a = 0 + (cont (n.dur - (a - t))).dur := by
              show _ = 0 + (n.dur - (a - t)); grind
            rw [e'] at ih'
            simp only [timed, List.filterMap_cons_some hw, e, ih']

end MV
