/-
Lemmas for C05 (text form and its evaluation): facts about the generated tables the printer and
the evaluator share, the effect of each segment of a printed note chain on the note under
evaluation, tags, melodies.
-/
import MV.Model.Text
import MV.Lemmas.Duration

namespace MV.Text
open MV Gen

/-! ### generic -/

theorem evalOps_append (n : Note) (a b : List Op) :
    evalOps n (a ++ b) = match evalOps n a with
      | .ok m => evalOps m b
      | .error e => .error e := by
  induction a generalizing n with
  | nil => simp [evalOps]
  | cons op ops ih =>
      simp only [List.cons_append, evalOps]
      cases evalOp n op with
      | ok m => simp [ih]
      | error e => simp

theorem evalOps_append_ok {n m : Note} {a b : List Op} (h : evalOps n a = .ok m) :
    evalOps n (a ++ b) = evalOps m b := by
  rw [evalOps_append, h]

theorem evalOps_single (n : Note) (op : Op) : evalOps n [op] = evalOp n op := by
  simp only [evalOps]
  cases evalOp n op <;> rfl

theorem lookup_mem {α β : Type} [BEq α] [LawfulBEq α] (l : List (α × β)) (k : α) (v : β)
    (h : l.lookup k = some v) : (k, v) ∈ l := by
  induction l with
  | nil => simp [List.lookup] at h
  | cons p ps ih =>
      obtain ⟨a, b⟩ := p
      by_cases hk : k == a
      · have hka : k = a := eq_of_beq hk
        have : b = v := by simpa [List.lookup, hk] using h
        simp [hka, this]
      · have : ps.lookup k = some v := by simpa [List.lookup, hk] using h
        exact List.mem_cons_of_mem _ (ih this)

/-! ### the copy every application starts from -/

/-- not a rest / continuation -/
def Sounding (k : Kind) : Prop := k ≠ .r ∧ k ≠ .l

instance (k : Kind) : Decidable (Sounding k) := by unfold Sounding; exact inferInstance

theorem copy_id {m : Note} (hk : Sounding m.kind) (hd : Den m.dur) : copy m = m := by
  obtain ⟨kind, val, oct, dur, mode, acc, amp, tags, tempo, pedal⟩ := m
  have hd' : limitD dur = dur := limitD_id hd
  cases kind <;> simp_all [copy, Sounding]

/-- a rest / continuation as `Silence(d, tags)` / `Continuation(d, tags)` builds it -/
def restNote (k : Kind) (d : Rat) (ts : List String) : Note := { kind := k, val := 0, oct := 0, dur := d, tags := ts }

theorem copy_rest {k : Kind} (hk : k = .r ∨ k = .l) {d : Rat} (hd : Den d) (ts : List String) :
    copy (restNote k d ts) = restNote k d ts := by
  have hd' : limitD d = d := limitD_id hd
  rcases hk with rfl | rfl <;> simp [copy, restNote, hd']

/-! ### tags -/

theorem unionTags_append (acc ts : List String) (h : (acc ++ ts).Nodup) : unionTags acc ts = acc ++ ts := by
  induction ts generalizing acc with
  | nil => simp [unionTags]
  | cons t ts ih =>
      have hnd : (acc ++ [t] ++ ts).Nodup := by simpa using h
      have hnot : t ∉ acc := by
        intro hm
        have := List.nodup_append.mp h
        exact this.2.2 t hm t (by simp) rfl
      have hc : acc.contains t = false := by simpa using hnot
      simp only [unionTags, List.foldl_cons, addTag, hc]
      have := ih (acc ++ [t]) hnd
      simpa [unionTags] using this

theorem unionTags_nil (ts : List String) (h : ts.Nodup) : unionTags [] ts = ts := by
  simpa using unionTags_append [] ts (by simpa using h)

/-! ### table facts (generated tables, `decide`) -/

/-- every printed duration name is read back as its duration, and is neither an ornament nor a pedal mark -/
theorem dur_table_inverse : ∀ p ∈ DURATION_TO_STR,
    ORNAMENTS.contains p.2 = false ∧ p.2 ≠ "pedal_on" ∧ p.2 ≠ "pedal_off" ∧ STR_TO_DURATION.lookup p.2 = some p.1 := by
  decide +kernel

/-- the names of the figures `amp_figure` can return -/
def FIGURES : List String := ["n", "ppp", "pp", "p", "mp", "mf", "f", "ff", "fff"]

theorem thresholds_in_figures : ∀ p ∈ AMP_THRESHOLDS, p.2 ∈ FIGURES := by decide +kernel
theorem top_in_figures : AMP_TOP ∈ FIGURES := by decide +kernel
theorem dynamics_in_figures : ∀ r ∈ DYNAMICS, r.2.2 ∈ FIGURES := by decide +kernel

theorem ampFigure_mem (a : Rat) : Eq.ampFigure a ∈ FIGURES := by
  unfold Eq.ampFigure
  split
  · rename_i r hr
    exact dynamics_in_figures r (List.mem_of_find?_eq_some hr)
  · unfold Eq.ampCascade
    simp only []
    split
    · rename_i p hp
      exact thresholds_in_figures p (List.mem_of_find?_eq_some hp)
    · exact top_in_figures

/-- amplitude a dynamics property sets (66 for a name that is not one) -/
def dynAmp (f : String) : Rat :=
  match DYNAMICS.lookup f with
  | some r => r.1
  | none => 66

/-- what `.name` does to the copy `cp`, for the names the printer writes -/
theorem evalAttr_duration (cp : Note) (name : String) (f : Rat)
    (h1 : ORNAMENTS.contains name = false) (h2 : name ≠ "pedal_on") (h3 : name ≠ "pedal_off")
    (h4 : STR_TO_DURATION.lookup name = some f) :
    evalAttr cp name = .ok { cp with dur := cp.dur * f } := by
  unfold evalAttr
  simp only [h1, h2, h3, h4, Bool.false_eq_true, ↓reduceIte]

theorem evalAttr_dynamics (cp : Note) (name : String) (r : Rat × String)
    (h1 : ORNAMENTS.contains name = false) (h2 : name ≠ "pedal_on") (h3 : name ≠ "pedal_off")
    (h4 : STR_TO_DURATION.lookup name = none) (h5 : DYNAMICS.lookup name = some r) :
    evalAttr cp name = .ok { cp with amp := r.1 } := by
  unfold evalAttr
  simp only [h1, h2, h3, h4, h5, Bool.false_eq_true, ↓reduceIte]

theorem evalAttr_mode (cp : Note) (md : Mode) : evalAttr cp md.toStr = .ok { cp with mode := some md } := by
  have key : ∀ name, ORNAMENTS.contains name = false → name ≠ "pedal_on" → name ≠ "pedal_off" →
      STR_TO_DURATION.lookup name = none → DYNAMICS.lookup name = none → Mode.ofStr? name = some md →
      evalAttr cp name = .ok { cp with mode := some md } := by
    intro name h1 h2 h3 h4 h5 h6
    unfold evalAttr
    simp only [h1, h2, h3, h4, h5, h6, Bool.false_eq_true, ↓reduceIte]
  cases md <;> exact key _ (by decide) (by decide) (by decide) (by decide) (by decide) (by decide)

theorem evalAttr_acc (cp : Note) (a : Acc) : evalAttr cp a.toStr = .ok { cp with acc := some a } := by
  have key : ∀ name, ORNAMENTS.contains name = false → name ≠ "pedal_on" → name ≠ "pedal_off" →
      STR_TO_DURATION.lookup name = none → DYNAMICS.lookup name = none → Mode.ofStr? name = none →
      Acc.ofStr? name = some a → evalAttr cp name = .ok { cp with acc := some a } := by
    intro name h1 h2 h3 h4 h5 h6 h7
    unfold evalAttr
    simp only [h1, h2, h3, h4, h5, h6, h7, Bool.false_eq_true, ↓reduceIte]
  cases a <;> exact key _ (by decide) (by decide) (by decide) (by decide) (by decide) (by decide) (by decide)

/-- the figure `n` is read as the rhythmic suffix `n`: the duration is multiplied by 0 -/
theorem evalAttr_n (cp : Note) : evalAttr cp "n" = .ok { cp with dur := cp.dur * 0 } :=
  evalAttr_duration cp "n" 0 (by decide) (by decide) (by decide) (by decide)

/-- a figure other than `mf` and `n` is read as the dynamics property of that name -/
theorem evalAttr_figure (cp : Note) (f : String) (hf : f ∈ FIGURES) (h1 : f ≠ "mf") (h2 : f ≠ "n") :
    evalAttr cp f = .ok { cp with amp := dynAmp f } := by
  have key : ∀ name, ORNAMENTS.contains name = false → name ≠ "pedal_on" → name ≠ "pedal_off" →
      STR_TO_DURATION.lookup name = none → (DYNAMICS.lookup name).isSome = true →
      evalAttr cp name = .ok { cp with amp := dynAmp name } := by
    intro name a b c d e
    obtain ⟨r, hr⟩ := Option.isSome_iff_exists.mp e
    rw [evalAttr_dynamics cp name r a b c d hr]
    simp [dynAmp, hr]
  simp only [FIGURES, List.mem_cons, List.not_mem_nil, or_false] at hf
  rcases hf with rfl | rfl | rfl | rfl | rfl | rfl | rfl | rfl | rfl
  · exact absurd rfl h2
  · exact key "ppp" (by decide) (by decide) (by decide) (by decide) (by decide)
  · exact key "pp" (by decide) (by decide) (by decide) (by decide) (by decide)
  · exact key "p" (by decide) (by decide) (by decide) (by decide) (by decide)
  · exact key "mp" (by decide) (by decide) (by decide) (by decide) (by decide)
  · exact absurd rfl h1
  · exact key "f" (by decide) (by decide) (by decide) (by decide) (by decide)
  · exact key "ff" (by decide) (by decide) (by decide) (by decide) (by decide)
  · exact key "fff" (by decide) (by decide) (by decide) (by decide) (by decide)

/-- the figure the code prints for the amplitude a dynamics property sets is that property -/
theorem figure_of_dynAmp : ∀ f ∈ FIGURES, f ≠ "mf" → f ≠ "n" → Eq.ampFigure (dynAmp f) = f := by
  decide +kernel

theorem figure_default : Eq.ampFigure 66 = "mf" := by decide +kernel

/-! ### one application, from a note that its own copy leaves unchanged -/

theorem evalOp_attr {m : Note} (hc : copy m = m) (s : String) : evalOp m (.attr s) = evalAttr m s := by
  simp [evalOp, hc]

theorem evalOp_oabs {m : Note} (hc : copy m = m) (k : Int) : evalOp m (.oabs k) = .ok { m with oct := m.oct + k } := by
  simp [evalOp, hc]

theorem evalOp_o {m : Note} (hc : copy m = m) (k : Int) :
    evalOp m (.o k) = .ok (if movedByO m.kind then { m with oct := m.oct + k } else m) := by
  by_cases h : movedByO m.kind <;> simp [evalOp, hc, h]

theorem evalOp_augment {m : Note} (hc : copy m = m) (a b : Int) (hb : b ≠ 0) :
    evalOp m (.augment a b) = .ok { m with dur := limitD (m.dur * ((a : Rat) / (b : Rat))) } := by
  simp [evalOp, hc, hb]

theorem evalOp_tags {m : Note} (hc : copy m = m) (ts : List String) :
    evalOp m (.addTags ts) = .ok { m with tags := unionTags m.tags ts } := by
  simp [evalOp, hc]

theorem evalOp_setAmp {m : Note} (hc : copy m = m) (k : Int) :
    evalOp m (.setAmp k) = .ok { m with amp := (k : Rat) } := by
  simp [evalOp, hc]

/-- the duration segment: from duration 1 to `d` (table name: the suffix multiplies; otherwise
`augment`, which re-limits the product) -/
theorem seg_dur {m : Note} (hc : copy m = m) (h1 : m.dur = 1) (d : Rat) (hd : Den d) :
    evalOps m (durOps d) = .ok { m with dur := d } := by
  have hm : ∀ x : Rat, x = 1 → { m with dur := x } = m := by
    intro x hx; subst hx; obtain ⟨kind, val, oct, dur, mode, acc, amp, tags, tempo, pedal⟩ := m
    simp only at h1; subst h1; rfl
  unfold durOps
  split
  · rename_i h; simp [evalOps, hm d h]
  · split
    · rename_i s hs
      have hmem := lookup_mem _ _ _ hs
      obtain ⟨a, b, c, e⟩ := dur_table_inverse _ hmem
      rw [evalOps_single, evalOp_attr hc, evalAttr_duration m s d a b c e, h1, one_mul]
    · have hden : ((d.den : Int)) ≠ 0 := by
        have := d.den_pos; omega
      rw [evalOps_single, evalOp_augment hc _ _ hden, h1, one_mul]
      have : ((d.num : Rat) / (((d.den : Nat) : Int) : Rat)) = d := by
        rw [Int.cast_natCast]; exact Rat.num_div_den d
      rw [this, limitD_id hd]

/-- the note a library symbol of that kind and value is bound to -/
def base (n : Note) : Note :=
  if n.kind = .r ∨ n.kind = .l then restNote n.kind 1 [] else { kind := n.kind, val := n.val, oct := 0, dur := 1 }

/-- the symbol `to_code` starts with is a name of `musiclang.library`, bound to the plain note -/
def InLibrary (n : Note) : Prop := LIBRARY_NOTES.lookup (symName n) = some (base n)

instance (n : Note) : Decidable (InLibrary n) := by unfold InLibrary; exact inferInstance

/-- amplitude the text form stands for: 0 for the figure `n` (`.set_amp(0)`), the default for `mf`
(nothing printed), else the one the dynamics property of that name sets -/
def canonAmp (f : String) : Rat := if f = "n" then 0 else if f = "mf" then 66 else dynAmp f

/-- closed form of `eval(str(n))`, for a note over a library symbol with a duration inside the
resolution: every compared field is kept; the amplitude becomes the one of its figure; a rest /
continuation keeps duration and tags (it has nothing else) -/
def rereadNote (n : Note) : Note :=
  if n.kind = .r ∨ n.kind = .l then restNote n.kind n.dur n.tags
  else { kind := n.kind, val := n.val, oct := n.oct, dur := n.dur, mode := n.mode, acc := n.acc,
         amp := canonAmp (Eq.ampFigure n.amp), tags := n.tags }

theorem den_one : Den (1 : Rat) := by decide
theorem sounding_cases {k : Kind} (h : Sounding k) : k.isNote = true ∨ k = .x ∨ k = .d := by
  cases k <;> simp_all [Sounding, Kind.isNote]

theorem sounding_printed {k : Kind} (h : Sounding k) : printed k := h

theorem isNote_movedByO_or_rel (k : Kind) (h : k.isNote = true) : movedByO k = !k.isRelative := by
  cases k <;> simp_all [Kind.isNote, movedByO, Kind.isRelative]

/-! ### the closed form of a note's round trip -/

theorem reread_rest (n : Note) (hk : n.kind = .r ∨ n.kind = .l) (hd : Den n.dur) (hnd : n.tags.Nodup) :
    evalOps (base n) (noteOps n) = .ok (rereadNote n) := by
  obtain ⟨kind, val, oct, dur, mode, acc, amp, tags, tempo, pedal⟩ := n
  simp only at hk hd hnd
  have hops : noteOps ⟨kind, val, oct, dur, mode, acc, amp, tags, tempo, pedal⟩
      = durOps dur ++ tagOps ⟨kind, val, oct, dur, mode, acc, amp, tags, tempo, pedal⟩ := by
    rcases hk with rfl | rfl <;> cases mode <;> cases acc <;>
      simp [noteOps, drumOctOps, octOps, modeOps, accOps, ampOps, Kind.isNote, printed]
  have hbase : base ⟨kind, val, oct, dur, mode, acc, amp, tags, tempo, pedal⟩ = restNote kind 1 [] := by
    simp [base, hk]
  have hre : rereadNote ⟨kind, val, oct, dur, mode, acc, amp, tags, tempo, pedal⟩ = restNote kind dur tags := by
    simp [rereadNote, hk]
  rw [hops, hbase, hre]
  have h1 : evalOps (restNote kind 1 []) (durOps dur) = .ok (restNote kind dur []) := by
    rw [seg_dur (copy_rest hk den_one []) rfl dur hd]; rfl
  rw [evalOps_append_ok h1]
  unfold tagOps
  split
  · rw [evalOps_single, evalOp_tags (copy_rest hk hd [])]
    simp [restNote, unionTags_nil tags hnd]
  · rename_i h
    have : tags = [] := by
      cases tags with
      | nil => rfl
      | cons t ts => simp at h
    simp [evalOps, this]

/-- the notes reached after each segment of the chain of a sounding note -/
def st1 (k : Kind) (v o : Int) : Note := { kind := k, val := v, oct := if k = .d then o else 0, dur := 1 }
def st2 (k : Kind) (v o : Int) (d : Rat) : Note := { kind := k, val := v, oct := if k = .d then o else 0, dur := d }
def st3 (k : Kind) (v o : Int) (d : Rat) : Note := { kind := k, val := v, oct := o, dur := d }
def st4 (k : Kind) (v o : Int) (d : Rat) (md : Option Mode) : Note := { kind := k, val := v, oct := o, dur := d, mode := md }
def st5 (k : Kind) (v o : Int) (d : Rat) (md : Option Mode) (ac : Option Acc) : Note :=
  { kind := k, val := v, oct := o, dur := d, mode := md, acc := ac }
def st6 (k : Kind) (v o : Int) (d : Rat) (md : Option Mode) (ac : Option Acc) (amp : Rat) : Note :=
  { kind := k, val := v, oct := o, dur := d, mode := md, acc := ac, amp := canonAmp (Eq.ampFigure amp) }

theorem reread_sounding (n : Note) (hk : Sounding n.kind) (hd : Den n.dur) (hnd : n.tags.Nodup) :
    evalOps (base n) (noteOps n) = .ok (rereadNote n) := by
  obtain ⟨kind, val, oct, dur, mode, acc, amp, tags, tempo, pedal⟩ := n
  simp only at hk hd hnd
  have hkr : ¬ (kind = .r ∨ kind = .l) := by unfold Sounding at hk; tauto
  have hpr : printed kind := hk
  have hbase : base ⟨kind, val, oct, dur, mode, acc, amp, tags, tempo, pedal⟩ = { kind := kind, val := val, oct := 0, dur := 1 } := by
    simp [base, hkr]
  rw [hbase]
  have c0 : copy ({ kind := kind, val := val, oct := 0, dur := 1 } : Note) = _ := copy_id hk den_one
  have c1 : copy (st1 kind val oct) = _ := copy_id hk den_one
  have c2 : copy (st2 kind val oct dur) = _ := copy_id hk hd
  have c3 : copy (st3 kind val oct dur) = _ := copy_id hk hd
  have c4 : copy (st4 kind val oct dur mode) = _ := copy_id hk hd
  have c5 : copy (st5 kind val oct dur mode acc) = _ := copy_id hk hd
  have c6 : copy (st6 kind val oct dur mode acc amp) = _ := copy_id hk hd
  -- 1 drum octave
  have s1 : evalOps { kind := kind, val := val, oct := 0, dur := 1 }
      (drumOctOps ⟨kind, val, oct, dur, mode, acc, amp, tags, tempo, pedal⟩) = .ok (st1 kind val oct) := by
    unfold drumOctOps
    split
    · rename_i h
      have hkd : kind = .d := h.1
      rw [evalOps_single, evalOp_oabs c0]
      simp [st1, hkd]
    · rename_i h
      have : (if kind = .d then oct else 0) = 0 := by
        by_cases hkd : kind = .d
        · have : oct = 0 := by by_contra ho; exact h ⟨hkd, ho⟩
          simp [hkd, this]
        · simp [hkd]
      simp [evalOps, st1, this]
  -- 2 duration
  have s2 : evalOps (st1 kind val oct) (durOps dur) = .ok (st2 kind val oct dur) := seg_dur c1 rfl dur hd
  -- 3 octave: `.o(k)` for the non-relative is_note kinds and x, `.oabs(k)` for the relative ones
  have s3 : evalOps (st2 kind val oct dur) (octOps ⟨kind, val, oct, dur, mode, acc, amp, tags, tempo, pedal⟩)
      = .ok (st3 kind val oct dur) := by
    unfold octOps
    split
    · rename_i h
      have hnx : kind.isNote = true ∨ kind = .x := h.2
      have hnd' : kind ≠ .d := by
        intro hh; subst hh; rcases hnx with h1 | h1
        · simp [Kind.isNote] at h1
        · exact absurd h1 (by decide)
      by_cases hrel : kind.isRelative = true
      · simp only [hrel, Bool.not_true, Bool.false_eq_true, ↓reduceIte]
        rw [evalOps_single, evalOp_oabs c2]
        simp [st3, st2, hnd']
      · have hrel' : kind.isRelative = false := by simpa using hrel
        simp only [hrel', Bool.not_false, ↓reduceIte]
        rw [evalOps_single, evalOp_o c2]
        have hm : movedByO kind = true := by
          rcases hnx with h1 | h1
          · rw [isNote_movedByO_or_rel kind h1, hrel']; rfl
          · subst h1; rfl
        simp [st3, st2, hnd', hm]
    · rename_i h
      have : st3 kind val oct dur = st2 kind val oct dur := by
        rcases sounding_cases hk with hn | hx | hdd
        · have ho : oct = 0 := by by_contra ho; exact h ⟨ho, Or.inl hn⟩
          simp [st3, st2, ho]
        · have ho : oct = 0 := by by_contra ho; exact h ⟨ho, Or.inr hx⟩
          simp [st3, st2, ho]
        · simp [st3, st2, hdd]
      simp [evalOps, this]
  -- 4 mode
  have s4 : evalOps (st3 kind val oct dur) (modeOps ⟨kind, val, oct, dur, mode, acc, amp, tags, tempo, pedal⟩)
      = .ok (st4 kind val oct dur mode) := by
    unfold modeOps
    cases mode with
    | none => simp [evalOps, st4, st3]
    | some md =>
        simp only [hpr, ↓reduceIte]
        rw [evalOps_single, evalOp_attr c3, evalAttr_mode]
        simp [st4, st3]
  -- 5 accidental
  have s5 : evalOps (st4 kind val oct dur mode) (accOps ⟨kind, val, oct, dur, mode, acc, amp, tags, tempo, pedal⟩)
      = .ok (st5 kind val oct dur mode acc) := by
    unfold accOps
    cases acc with
    | none => simp [evalOps, st5, st4]
    | some a =>
        simp only [hpr, ↓reduceIte]
        rw [evalOps_single, evalOp_attr c4, evalAttr_acc]
        simp [st5, st4]
  -- 6 dynamics
  have s6 : evalOps (st5 kind val oct dur mode acc) (ampOps ⟨kind, val, oct, dur, mode, acc, amp, tags, tempo, pedal⟩)
      = .ok (st6 kind val oct dur mode acc amp) := by
    unfold ampOps
    have hpa : kind.isNote = true ∨ kind = .x ∨ kind = .d := sounding_cases hk
    simp only [hpa, ↓reduceIte]
    by_cases hn : Eq.ampFigure amp = "n"
    · simp only [hn, ↓reduceIte]
      rw [evalOps_single, evalOp_setAmp c5]
      simp [st6, st5, canonAmp, hn]
    · simp only [hn, ↓reduceIte]
      by_cases hmf : Eq.ampFigure amp = "mf"
      · simp [evalOps, st6, st5, canonAmp, hmf]
      · simp only [ne_eq, hmf, not_false_eq_true, ↓reduceIte]
        rw [evalOps_single, evalOp_attr c5, evalAttr_figure _ _ (ampFigure_mem amp) hmf hn]
        simp [st6, st5, canonAmp, hn, hmf]
  -- 7 tags
  have s7 : evalOps (st6 kind val oct dur mode acc amp) (tagOps ⟨kind, val, oct, dur, mode, acc, amp, tags, tempo, pedal⟩)
      = .ok (rereadNote ⟨kind, val, oct, dur, mode, acc, amp, tags, tempo, pedal⟩) := by
    have hre : rereadNote ⟨kind, val, oct, dur, mode, acc, amp, tags, tempo, pedal⟩
        = { st6 kind val oct dur mode acc amp with tags := tags } := by
      simp [rereadNote, hkr, st6]
    rw [hre]
    unfold tagOps
    split
    · rw [evalOps_single, evalOp_tags c6]
      simp [st6, unionTags_nil tags hnd]
    · rename_i h
      have : tags = [] := by
        cases tags with
        | nil => rfl
        | cons t ts => simp at h
      simp [evalOps, this, st6]
  unfold noteOps
  rw [List.append_assoc, List.append_assoc, List.append_assoc, List.append_assoc, List.append_assoc]
  rw [evalOps_append_ok s1, evalOps_append_ok s2, evalOps_append_ok s3, evalOps_append_ok s4, evalOps_append_ok s5,
    evalOps_append_ok s6, s7]

/-- `eval(str(n))` in closed form -/
theorem evalCode_noteCode (n : Note) (hlib : InLibrary n) (hd : Den n.dur) (hnd : n.tags.Nodup) :
    evalCode (noteCode n) = .ok (rereadNote n) := by
  have hs : symbol (symName n) = .ok (base n) := by
    unfold symbol; unfold InLibrary at hlib; rw [hlib]
  unfold evalCode noteCode
  simp only [hs]
  by_cases hk : n.kind = .r ∨ n.kind = .l
  · exact reread_rest n hk hd hnd
  · exact reread_sounding n (by unfold Sounding; tauto) hd hnd

end MV.Text
