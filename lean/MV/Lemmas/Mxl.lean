/-
Lemmas for C08 (music21 / MusicXML export): the spelling tables sound right, and the
simulation invariant between the exporter's voice loop and the MIDI note matrix.
-/
import MV.Model.MxlSound
import MV.Props.C01

namespace MV.Mxl
open MV Gen

/-! ### spelling -/

/-- letter semitone + alteration of a name -/
def nameValue (name : String) : Option Int := (parseName name).map (fun sa => sa.1 + sa.2)

/-- a table cell is right for pitch class `pc`: the name is readable, its value is congruent to
`pc`, and it lies inside the octave counted from C — except exactly the two names the code
corrects (`B#` one octave down, `Cb` one octave up) -/
def cellOK (name : String) (pc : Int) : Bool :=
  match nameValue name with
  | none => false
  | some q => q % 12 == pc % 12 &&
      (if name == "B#" then q == 12 else if name == "Cb" then q == -1 else decide (0 ≤ q) && decide (q ≤ 11))

def rowOK (mode : Mode) (d : Int) (row : List String) : Bool :=
  (List.range row.length).all (fun i => cellOK (row.getD i "") (d + (SCALES mode).getD i 0))

def tabOK (mode : Mode) (tab : List (Int × List String)) : Bool :=
  tab.all (fun dr => rowOK mode dr.1 dr.2)

/-- every tonic 0..11 has a row of seven names -/
def tabComplete (tab : List (Int × List String)) : Bool :=
  (List.range 12).all (fun d => match tab.lookup (Int.ofNat d) with
    | some row => row.length == 7
    | none => false)

theorem tables_ok (mode : Mode) (tab) (h : MXL_SCALES mode = some tab) : tabOK mode tab = true := by
  cases mode <;> simp only [MXL_SCALES, Option.some.injEq, reduceCtorEq] at h <;> subst h <;> decide

theorem tables_complete (mode : Mode) (tab) (h : MXL_SCALES mode = some tab) : tabComplete tab = true := by
  cases mode <;> simp only [MXL_SCALES, Option.some.injEq, reduceCtorEq] at h <;> subst h <;> decide

theorem lookupKey_mem {k : Int} {tab : List (Int × List String)} {row} (h : lookupKey k tab = .ok row) :
    (k, row) ∈ tab := by
  unfold lookupKey at h
  split at h
  · rename_i v hv
    cases h
    induction tab with
    | nil => simp at hv
    | cons x xs ih =>
        obtain ⟨a, b⟩ := x
        simp only [List.lookup_cons] at hv
        split at hv
        · rename_i hb
          simp at hb; cases hv; simp [hb]
        · simp [ih hv]
  · cases h

theorem pyIndex_ok_getD {l : List String} {i : Nat} {x : String} (h : pyIndex l (Int.ofNat i) = .ok x) :
    i < l.length ∧ l.getD i "" = x := by
  unfold pyIndex at h
  simp only [Int.ofNat_eq_natCast] at h
  have h0 : ¬ ((i : Int) < 0) := by omega
  simp only [h0, if_false] at h
  split at h
  · cases h
  · rename_i hlt
    have : i < l.length := by omega
    refine ⟨this, ?_⟩
    simp only [Int.toNat_natCast, List.getElem?_eq_getElem this] at h
    cases h
    simp [List.getD_eq_getElem?_getD, this]

theorem tableName_cell {mode tab deg idx name} (ht : MXL_SCALES mode = some tab)
    (h : tableName tab deg idx = .ok name) : cellOK name (deg + (SCALES mode).getD idx 0) = true := by
  unfold tableName at h
  cases hr : lookupKey deg tab with
  | error e => simp [hr, bind, Except.bind] at h
  | ok row =>
      simp only [hr, bind, Except.bind] at h
      have hmem := lookupKey_mem hr
      obtain ⟨hi, hx⟩ := pyIndex_ok_getD h
      have := tables_ok mode tab ht
      unfold tabOK at this
      rw [List.all_eq_true] at this
      have h2 := this _ hmem
      unfold rowOK at h2
      rw [List.all_eq_true] at h2
      have h3 := h2 idx (List.mem_range.mpr hi)
      simp only at h3
      rw [hx] at h3
      exact h3

/-- the octave `get_note_spelling` writes after a table name -/
def spelledOctave (name : String) (p : Int) : Int :=
  let o := (p + 48) / 12
  if name == "B#" then o - 1 else if name == "Cb" then o + 1 else o

theorem named_midi_val {name : String} {pc p : Int} (hc : cellOK name pc = true) (hp : p % 12 = pc % 12) :
    nameToMidi name (spelledOctave name p) = some (60 + p) := by
  unfold cellOK nameValue at hc
  unfold nameToMidi spelledOctave
  cases hn : parseName name with
  | none => simp [hn] at hc
  | some sa =>
      obtain ⟨s, a⟩ := sa
      simp only [hn, Option.map_some, Bool.and_eq_true, beq_iff_eq] at hc
      obtain ⟨h1, h2⟩ := hc
      simp only [Option.some.injEq, beq_iff_eq]
      by_cases hb : name = "B#"
      · simp only [hb, if_true, beq_iff_eq] at h2 ⊢
        omega
      · simp only [hb, if_false] at h2 ⊢
        by_cases hcb : name = "Cb"
        · simp only [hcb, if_true, beq_iff_eq] at h2 ⊢
          omega
        · simp only [hcb, if_false, Bool.and_eq_true, decide_eq_true_eq] at h2 ⊢
          omega

theorem spelledOctave_nonneg {name : String} {p : Int} (hp : -36 ≤ p) : 0 ≤ spelledOctave name p := by
  unfold spelledOctave
  simp only
  split
  · omega
  · split <;> omega


theorem tsp_findIdx {c : Chord} {x : Int} {idx : Nat}
    (h : (c.ton.scalePitches.map (· % 12)).findIdx? (· == x) = some idx) :
    idx < (SCALES c.ton.mode).length ∧ ((SCALES c.ton.mode).getD idx 0 + c.ton.absDegree) % 12 = x := by
  rw [List.findIdx?_eq_some_iff_getElem] at h
  obtain ⟨hlt, hp, _⟩ := h
  simp only [Tonality.scalePitches, List.length_map] at hlt
  refine ⟨hlt, ?_⟩
  simp only [Tonality.scalePitches, List.getElem_map, beq_iff_eq] at hp
  simp [List.getD_eq_getElem?_getD, List.getElem?_eq_getElem hlt, hp]

theorem getNoteSpelling_pitch {c n last sp p} (h : getNoteSpelling c n last = .ok (sp, p)) :
    pitchResult c n last = .ok p := by
  unfold getNoteSpelling at h
  cases hp : pitchResult c n last with
  | error e => simp [hp, bind, Except.bind] at h
  | ok q =>
      simp only [hp, bind, Except.bind] at h
      split at h
      · rename_i idx tab hidx htab
        cases ht : tableName tab c.ton.deg idx with
        | error e => simp [ht] at h
        | ok name => simp [ht, pure, Except.pure] at h; rw [h.2]
      · simp [pure, Except.pure] at h; rw [h.2]

theorem getNoteSpelling_midi {c n last sp p} (h : getNoteSpelling c n last = .ok (sp, p)) :
    (∀ m, sp.midi = .ok m → m = 60 + p) ∧ (-36 ≤ p → sp.midi = .ok (60 + p)) := by
  unfold getNoteSpelling at h
  cases hp : pitchResult c n last with
  | error e => simp [hp, bind, Except.bind] at h
  | ok q =>
      simp only [hp, bind, Except.bind] at h
      split at h
      · rename_i idx tab hidx htab
        cases ht : tableName tab c.ton.deg idx with
        | error e => simp [ht] at h
        | ok name =>
            simp only [ht, pure, Except.pure, Except.ok.injEq, Prod.mk.injEq] at h
            obtain ⟨hsp, hq⟩ := h
            subst hq
            have hcell := tableName_cell htab ht
            obtain ⟨_, hmod⟩ := tsp_findIdx hidx
            have hpc : q % 12 = (c.ton.deg + (SCALES c.ton.mode).getD idx 0) % 12 := by
              simp only [Tonality.absDegree] at hmod; omega
            have hv := named_midi_val hcell hpc
            have hoct : (if (name == "B#") = true then (q + 48) / 12 - 1 else if (name == "Cb") = true then (q + 48) / 12 + 1 else (q + 48) / 12) = spelledOctave name q := rfl
            rw [hoct] at hsp
            subst hsp
            constructor
            · intro m hm
              simp only [Spelling.midi, hv] at hm
              split at hm
              · cases hm
              · cases hm; rfl
            · intro hr
              have := spelledOctave_nonneg (name := name) hr
              simp only [Spelling.midi, hv]
              rw [if_neg (by omega)]
      · simp only [pure, Except.pure, Except.ok.injEq, Prod.mk.injEq] at h
        obtain ⟨hsp, hq⟩ := h
        subst hq; subst hsp
        simp only [Spelling.midi, Except.ok.injEq]
        constructor
        · intro m hm; omega
        · intro _; omega

theorem tableName_total {mode tab} {deg : Int} {idx : Nat} (ht : MXL_SCALES mode = some tab)
    (hd : 0 ≤ deg ∧ deg < 12) (hi : idx < 7) : ∃ name, tableName tab deg idx = .ok name := by
  have hc := tables_complete mode tab ht
  unfold tabComplete at hc
  rw [List.all_eq_true] at hc
  have h1 := hc deg.toNat (List.mem_range.mpr (by omega))
  have hdn : Int.ofNat deg.toNat = deg := by simp; omega
  rw [hdn] at h1
  unfold tableName lookupKey
  split at h1
  · rename_i row hrow
    simp only [beq_iff_eq] at h1
    simp only [hrow, bind, Except.bind]
    rw [pyIndex_nonneg row "" (Int.ofNat idx) (by simp) (by simp; omega)]
    exact ⟨_, rfl⟩
  · cases h1

theorem getNoteSpelling_total {c n last p} (hp : pitchResult c n last = .ok p)
    (hd : 0 ≤ c.ton.deg ∧ c.ton.deg < 12) : ∃ sp, getNoteSpelling c n last = .ok (sp, p) := by
  unfold getNoteSpelling
  simp only [hp, bind, Except.bind]
  split
  · rename_i idx tab hidx htab
    obtain ⟨hlt, _⟩ := tsp_findIdx hidx
    rw [MV.C01.scales_len] at hlt
    obtain ⟨name, hn⟩ := tableName_total htab hd hlt
    simp only [hn, pure, Except.pure]
    exact ⟨_, rfl⟩
  · exact ⟨_, rfl⟩

/-! ### pitches of the two renderers -/

theorem basicPitch_some {c : Chord} {n : Note} {r} (hk : n.kind = .s ∨ n.kind = .h ∨ n.kind = .a)
    (h : basicPitch c n = .ok r) : ∃ p, r = some p := by
  unfold basicPitch at h
  simp only [bind, Except.bind, pure, Except.pure] at h
  rcases hk with hk | hk | hk <;> simp only [hk] at h <;> repeat' (split at h)
  all_goals first
    | (cases h; exact ⟨_, rfl⟩)
    | cases h

theorem noteToPitch_some {c : Chord} {n : Note} {l r} (hk : n.kind.isNote = true)
    (h : noteToPitch c n l = .ok r) : ∃ p, r = some p := by
  unfold noteToPitch at h
  split at h
  all_goals first
    | (exfalso; simp_all [Kind.isNote]; done)
    | exact basicPitch_some (by simp_all) h
    | skip
  all_goals (simp only [bind, Except.bind, pure, Except.pure] at h)
  all_goals repeat' (split at h)
  all_goals first
    | (cases h; exact ⟨_, rfl⟩)
    | cases h


theorem noteToPitch_last_indep {c : Chord} {n : Note} (hk : n.kind.isRelative = false) (a b : Int) :
    noteToPitch c n a = noteToPitch c n b := by
  unfold noteToPitch
  split
  all_goals first
    | (rename_i heq; rw [heq] at hk; cases hk; done)
    | rfl

/-- what `note_to_pitch` writes for a sounding kind -/
theorem noteToRow_note {n : Note} {c : Chord} {track : Nat} {time : Rat} {lastR : Option Int} {row lastR'}
    (hk : n.kind.isNote = true) (h : noteToRow n c track time lastR = .ok (row, lastR')) :
    ∃ p, noteToPitch c n (lastR.getD 0) = .ok (some p) ∧ row.pitch = p ∧ row.offset = time ∧
      row.dur = n.dur ∧ row.silence = false ∧ row.cont = false ∧ lastR' = some p := by
  unfold noteToRow at h
  cases hp : noteToPitch c n (lastR.getD 0) with
  | error e => simp [hp, bind, Except.bind] at h
  | ok r =>
      obtain ⟨p, rfl⟩ := noteToPitch_some hk hp
      have h1 : (n.kind == Kind.r) = false := by
        cases hkk : n.kind <;> simp_all [Kind.isNote]
      have h2 : (n.kind == Kind.l) = false := by
        cases hkk : n.kind <;> simp_all [Kind.isNote]
      simp only [hp, bind, Except.bind, pure, Except.pure, h1, h2, Bool.false_and, Bool.or_false,
        Option.getD_some, Bool.not_false, if_true, Except.ok.injEq, Prod.mk.injEq] at h
      obtain ⟨hr, hl⟩ := h
      subst hr
      exact ⟨p, rfl, rfl, rfl, rfl, rfl, rfl, hl.symm⟩

theorem noteToPitch_rest {n : Note} {c : Chord} (l : Int) (hk : n.kind = .r ∨ n.kind = .l) :
    noteToPitch c n l = .ok none := by
  unfold noteToPitch
  rcases hk with hk | hk <;> simp [hk, pure, Except.pure]

theorem noteToRow_rest {n : Note} {c : Chord} {track : Nat} {time : Rat} {lastR : Option Int} {row lastR'}
    (hk : n.kind = .r) (h : noteToRow n c track time lastR = .ok (row, lastR')) :
    row.dur = n.dur ∧ row.silence = true ∧ row.cont = false ∧ lastR' = lastR := by
  unfold noteToRow at h
  simp only [noteToPitch_rest _ (Or.inl hk), bind, Except.bind, pure, Except.pure, hk, Except.ok.injEq,
    Prod.mk.injEq] at h
  obtain ⟨hr, hl⟩ := h
  subst hr
  simp at hl ⊢
  exact hl.symm

theorem noteToRow_cont {n : Note} {c : Chord} {track : Nat} {time : Rat} {lastR : Option Int} {row lastR'}
    (hk : n.kind = .l) (h : noteToRow n c track time lastR = .ok (row, lastR')) :
    row.dur = n.dur ∧ row.silence = lastR.isNone ∧ row.cont = lastR.isSome ∧ lastR' = lastR := by
  unfold noteToRow at h
  simp only [noteToPitch_rest _ (Or.inr hk), bind, Except.bind, pure, Except.pure, hk, Except.ok.injEq,
    Prod.mk.injEq] at h
  obtain ⟨hr, hl⟩ := h
  subst hr
  cases lastR <;> simp at hl ⊢ <;> exact hl.symm

end MV.Mxl
