/-
C14 importer lemmas 15/15 — grids 1/g (g ≤ 1000) are fine; the voice-offset table is always computed.
-/
import MV.Lemmas.ImportScore
namespace MV

/-- `q` is a multiple of `1/g` -/
def OnGrid (g : Nat) (q : Rat) : Prop := ∃ k : Int, q = mkRat k g

theorem onGrid_sub (g : Nat) (hg : 0 < g) (a b : Rat) (ha : OnGrid g a) (hb : OnGrid g b) : OnGrid g (a - b) := by
  obtain ⟨ka, rfl⟩ := ha
  obtain ⟨kb, rfl⟩ := hb
  refine ⟨ka - kb, ?_⟩
  have hg' : ((g : Nat) : Rat) ≠ 0 := by
    intro h
    have : (g : Rat) = ((0 : Nat) : Rat) := by simpa using h
    have := Rat.natCast_inj.mp this
    omega
  rw [Rat.mkRat_eq_div, Rat.mkRat_eq_div, Rat.mkRat_eq_div]
  simp only [Rat.intCast_sub]
  grind

theorem onGrid_fine (g : Nat) (hg : 0 < g) (hg' : g ≤ 1000) (q : Rat) (h : OnGrid g q) : Fine q := by
  obtain ⟨k, rfl⟩ := h
  unfold Fine LIMIT_DENOM
  rw [Rat.den_mkRat]
  have : g ≠ 0 := by omega
  simp only [this, if_false]
  exact Nat.le_trans (Nat.div_le_self _ _) hg'

end MV

namespace MV

theorem foldlM_ok {σ α : Type} (f : σ → α → Res σ) : ∀ (l : List α) (s : σ),
    (∀ s x, x ∈ l → ∃ s', f s x = .ok s') → ∃ s', l.foldlM f s = .ok s' := by
  intro l
  induction l with
  | nil => intro s _; exact ⟨s, rfl⟩
  | cons x xs ih =>
      intro s h
      obtain ⟨s1, h1⟩ := h s x (List.mem_cons_self ..)
      obtain ⟨s2, h2⟩ := ih s1 (fun s y hy => h s y (List.mem_cons_of_mem _ hy))
      exact ⟨s2, by rw [List.foldlM_cons, h1]; exact h2⟩

/-- the voice-offset table is always computed (every track listed has a note) -/
theorem voiceOffsets_ok (seq : List Item) (instruments : List (Int × String)) :
    ∃ offs, voiceOffsets seq instruments (sortedDedup (seq.map (·.track))) = .ok offs := by
  unfold voiceOffsets
  have : ∃ s', instruments.foldlM (fun st ci => (sortedDedup (seq.map (·.track))).foldlM (offsetStep seq ci) st) ([], []) = .ok s' := by
    apply foldlM_ok
    intro s ci _
    apply foldlM_ok
    intro s t ht
    rw [mem_sortedDedup] at ht
    obtain ⟨n, hn, hnt⟩ := List.mem_map.mp ht
    obtain ⟨offs, raw⟩ := s
    have hne : (seq.filter (fun m => m.track == t)).map (·.voice) ≠ [] := by
      intro h
      have : n ∈ seq.filter (fun m => m.track == t) := by simp [List.mem_filter, hn, hnt]
      rw [List.map_eq_nil_iff] at h
      rw [h] at this; cases this
    unfold offsetStep
    cases hv : (seq.filter (fun m => m.track == t)).map (·.voice) with
    | nil => exact absurd hv hne
    | cons x xs =>
        simp only [maxInts, bind, Except.bind, pure, Except.pure]
        exact ⟨_, rfl⟩
  obtain ⟨s', hs⟩ := this
  exact ⟨s'.1, by rw [hs]; rfl⟩

end MV
