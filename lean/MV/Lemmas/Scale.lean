/-
Lemmas about seven-note scales, rotation and `valueToScale` (used by C01, C02, C04, C14).
Proved for *any* row satisfying `ScaleOK`, not per table row.
-/
import MV.Model.Pitch

namespace MV

/-- well-formedness of a scale row: seven entries, strictly ascending, first 0, last < 12 -/
def ScaleOK (l : List Int) : Prop :=
  l.length = 7 ∧ l.getD 0 0 = 0 ∧ l.getD 6 0 < 12 ∧ ∀ i : Nat, i < 6 → l.getD i 0 < l.getD (i+1) 0

instance (l : List Int) : Decidable (ScaleOK l) := by
  unfold ScaleOK; exact inferInstance

theorem pyIndex_nonneg (l : List α) (d : α) (i : Int) (h0 : 0 ≤ i) (h : i < l.length) :
    pyIndex l i = .ok (l.getD i.toNat d) := by
  unfold pyIndex
  have h1 : ¬ (i < 0) := by omega
  have h3 : i.toNat < l.length := by omega
  simp [h1, List.getD_eq_getElem?_getD, List.getElem?_eq_getElem h3, h]

/-- the rotation of `Chord.scale_pitches`, entry by entry -/
theorem rot_getElem (t : List Int) (e i : Nat) (hl : t.length = 7) (he : e < 7) (hi : i < 7) :
    (t.drop e ++ (t.take e).map (· + 12))[i]? = some (t.getD ((e + i) % 7) 0 + 12 * (((e + i) / 7 : Nat) : Int)) := by
  rw [List.getElem?_append]
  by_cases h : e + i < 7
  · have h1 : i < (t.drop e).length := by simp [hl]; omega
    simp only [h1, if_true, List.getElem?_drop]
    have : (e + i) % 7 = e + i := Nat.mod_eq_of_lt h
    have h2 : (e + i) / 7 = 0 := Nat.div_eq_of_lt h
    rw [this, h2]
    simp [List.getD_eq_getElem?_getD, List.getElem?_eq_getElem (by omega : e + i < t.length)]
  · have h1 : ¬ i < (t.drop e).length := by simp [hl]; omega
    simp only [h1, if_false]
    have hlen : (t.drop e).length = 7 - e := by simp [hl]
    rw [hlen, List.getElem?_map, List.getElem?_take]
    have h3 : i - (7 - e) < e := by omega
    simp only [h3, if_true]
    have : (e + i) % 7 = i - (7 - e) := by omega
    have h2 : (e + i) / 7 = 1 := by omega
    rw [this, h2]
    simp [List.getD_eq_getElem?_getD, List.getElem?_eq_getElem (by omega : i - (7 - e) < t.length)]

/-- semitone of scale degree `j` counted from the tonic (any `j ≥ 0`, 12 per octave)
in a seven-note row: this is the documented meaning of "degree `j` of the scale" -/
def degSemitone (L : List Int) (j : Nat) : Int := L.getD (j % 7) 0 + 12 * ((j / 7 : Nat) : Int)

theorem scalePitches_length (c : Chord) (hL : (Gen.SCALES c.ton.mode).length = 7)
    (he : 0 ≤ c.elem ∧ c.elem < 7) : c.scalePitches.length = 7 := by
  unfold Chord.scalePitches Tonality.scalePitches
  simp [hL]
  omega

/-- entry `i` of the chord scale on degree `elem`: tonic + chord octave + the semitone of
degree `elem + i` of the tonality's row -/
theorem scalePitches_getD (c : Chord) (i : Nat) (hL : (Gen.SCALES c.ton.mode).length = 7)
    (he : 0 ≤ c.elem ∧ c.elem < 7) (hi : i < 7) :
    c.scalePitches.getD i 0
      = c.ton.absDegree + 12 * c.oct + degSemitone (Gen.SCALES c.ton.mode) (c.elem.toNat + i) := by
  unfold Chord.scalePitches
  simp only [List.getD_eq_getElem?_getD, List.getElem?_map]
  have ht : c.ton.scalePitches.length = 7 := by unfold Tonality.scalePitches; simp [hL]
  rw [rot_getElem _ c.elem.toNat i ht (by omega) hi]
  unfold degSemitone Tonality.scalePitches
  have hj : (c.elem.toNat + i) % 7 < (Gen.SCALES c.ton.mode).length := by omega
  simp [List.getD_eq_getElem?_getD, List.getElem?_map, List.getElem?_eq_getElem hj]
  omega

/-- `get_value_to_scale_note` on a non-empty list -/
theorem valueToScale_pos (l : List Int) (v : Int) (hl : 0 < l.length) :
    valueToScale v l = .ok (l.getD (v % (l.length : Int)).toNat 0 + 12 * (v / (l.length : Int))) := by
  unfold valueToScale
  have h0 : ¬ l.length = 0 := by omega
  simp only [h0, if_false]
  have hp : (0 : Int) < (l.length : Int) := by omega
  rw [pyIndex_nonneg l 0 (v % (l.length : Int)) (Int.emod_nonneg _ (by omega)) (Int.emod_lt_of_pos _ hp)]
  rfl

theorem valueToScale_seven (l : List Int) (v : Int) (hl : l.length = 7) :
    valueToScale v l = .ok (l.getD (v % 7).toNat 0 + 12 * (v / 7)) := by
  rw [valueToScale_pos l v (by omega), hl]; rfl

/-- the twelve chromatic steps above a root -/
theorem chromatic_getD (root : Int) (i : Nat) (hi : i < 12) :
    ((List.range 12).map (fun (k : Nat) => root + Int.ofNat k)).getD i 0 = root + i := by
  simp [List.getD_eq_getElem?_getD, List.getElem?_map, List.getElem?_range hi]

theorem valueToScale_chromatic (root v : Int) :
    valueToScale v ((List.range 12).map (fun (k : Nat) => root + Int.ofNat k)) = .ok (root + v) := by
  rw [valueToScale_pos _ _ (by simp)]
  simp only [List.length_map, List.length_range]
  have h : (v % ((12:Nat):Int)).toNat < 12 := by omega
  rw [chromatic_getD root _ h]
  congr 1
  omega

end MV
