/-
C14 importer lemmas 3/15 — cutting the last note at the bar line (`trimLast_loop`), `loopMel` vs `loopMelRaw`.
-/
import MV.Lemmas.ImportLoop
namespace MV
open Gen

theorem endOf_ge : ∀ (ns : List Item) (t : Rat), Chain t ns → t ≤ endOf t ns := by
  intro ns
  induction ns with
  | nil => intro t _; exact Rat.le_refl
  | cons n rest ih =>
      intro t ⟨h1, h2, h3⟩
      have := ih n.stop h3
      simp only [endOf]; grind

theorem chain_mem : ∀ (ns : List Item) (t : Rat), Chain t ns → ∀ n ∈ ns, t ≤ n.start ∧ n.start < n.stop ∧ n.stop ≤ endOf t ns := by
  intro ns
  induction ns with
  | nil => intro t _ n hn; cases hn
  | cons x rest ih =>
      intro t ⟨h1, h2, h3⟩ n hn
      simp only [endOf]
      rcases List.mem_cons.mp hn with rfl | hn
      · exact ⟨h1, h2, endOf_ge rest _ h3⟩
      · obtain ⟨a, b, c⟩ := ih _ h3 n hn
        exact ⟨by grind, b, c⟩

theorem loopMel_eq_raw (c : Chord) (cut : Rat) : ∀ (ns : List Item) (t : Rat), Chain t ns → endOf t ns ≤ cut →
    loopMel c cut t ns = loopMelRaw c t ns := by
  intro ns
  induction ns with
  | nil => intro t _ _; rfl
  | cons n rest ih =>
      intro t ⟨h1, h2, h3⟩ hle
      simp only [endOf] at hle
      have := endOf_ge rest _ h3
      have hm : min n.stop cut = n.stop := by grind
      simp only [loopMel, loopMelRaw, hm, ih _ h3 hle]

theorem trimLast_snoc (m : Melody) (x : Note) (y : Rat) (h : x.dur - y ≠ 0) :
    trimLast (m ++ [x]) y = .ok (m ++ [{ x with dur := x.dur - y }]) := by
  unfold trimLast
  simp [h]

theorem trimLast_loop (c : Chord) (be : Rat) : ∀ (ns : List Item) (m : Melody) (t : Rat), Chain t ns → ns ≠ [] →
    (∀ n ∈ ns, n.start < be) → be < endOf t ns →
    trimLast (m ++ loopMelRaw c t ns) (endOf t ns - be) = .ok (m ++ loopMel c be t ns) := by
  intro ns
  induction ns with
  | nil => intro m t _ h; exact absurd rfl h
  | cons n rest ih =>
      intro m t ⟨h1, h2, h3⟩ _ hin hend
      have hn := hin n (List.mem_cons_self ..)
      cases rest with
      | nil =>
          simp only [endOf] at hend
          simp only [loopMelRaw, loopMel, endOf]
          have e1 : m ++ (gapRest t n.start ++ [noteOf c n (n.stop - n.start)]) = (m ++ gapRest t n.start) ++ [noteOf c n (n.stop - n.start)] := by
            simp
          rw [e1, trimLast_snoc]
          · have hm : min n.stop be = be := by grind
            have hd : (noteOf c n (n.stop - n.start)).dur - (n.stop - be) = be - n.start := by
              show (n.stop - n.start) - (n.stop - be) = be - n.start
              grind
            simp only [hm, List.append_assoc]
            rw [hd]; rfl
          · show (n.stop - n.start) - (n.stop - be) ≠ 0
            grind
      | cons r rs =>
          have hr := hin r (List.mem_cons_of_mem _ (List.mem_cons_self ..))
          have hr1 := h3.1
          have hm : min n.stop be = n.stop := by grind
          have e1 : m ++ loopMelRaw c t (n :: r :: rs) = (m ++ gapRest t n.start ++ [noteOf c n (n.stop - n.start)]) ++ loopMelRaw c n.stop (r :: rs) := by
            simp [loopMelRaw]
          have e2 : endOf t (n :: r :: rs) = endOf n.stop (r :: rs) := rfl
          rw [e1, e2, ih _ _ h3 (by simp) (fun x hx => hin x (List.mem_cons_of_mem _ hx)) (by rw [← e2]; exact hend)]
          simp [loopMel, hm]

end MV
