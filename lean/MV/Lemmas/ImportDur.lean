/-
C14 importer lemmas 4/15 — `melodyDuration` of the pieces of a bar (telescoping sums), positivity of every note.
-/
import MV.Lemmas.ImportTrim
namespace MV
open Gen

/-! ### durations -/

theorem foldl_add_start (l : List Rat) (a : Rat) : l.foldl (· + ·) a = a + l.foldl (· + ·) 0 := by
  induction l generalizing a with
  | nil => simp [Rat.add_zero]
  | cons x xs ih => simp only [List.foldl_cons]; rw [ih (a + x), ih (0 + x)]; grind

theorem melodyDuration_nil : melodyDuration [] = 0 := rfl

theorem melodyDuration_cons (n : Note) (m : Melody) : melodyDuration (n :: m) = n.dur + melodyDuration m := by
  unfold melodyDuration sumRat
  simp only [List.map_cons, List.foldl_cons]
  rw [foldl_add_start]; grind

theorem melodyDuration_append (a b : Melody) : melodyDuration (a ++ b) = melodyDuration a + melodyDuration b := by
  induction a with
  | nil => simp [melodyDuration_nil, Rat.zero_add]
  | cons x xs ih => simp only [List.cons_append, melodyDuration_cons, ih]; grind

/-- all notes of a melody have positive length -/
def AllPos (m : Melody) : Prop := ∀ n ∈ m, 0 < n.dur

theorem allPos_append {a b : Melody} (ha : AllPos a) (hb : AllPos b) : AllPos (a ++ b) := by
  intro n hn; rcases List.mem_append.mp hn with h | h
  · exact ha n h
  · exact hb n h

theorem mkSilence_fine (d : Rat) (h : Fine d) : mkSilence d = { kind := .r, val := 0, oct := 0, dur := d } := by
  unfold mkSilence; rw [limDur_fine d h]

theorem gapRest_dur (a b : Rat) (hab : a ≤ b) (hf : Fine (b - a)) : melodyDuration (gapRest a b) = b - a := by
  unfold gapRest
  by_cases h : a < b
  · simp only [h, if_true, melodyDuration_cons, melodyDuration_nil, mkSilence_fine _ hf]; grind
  · simp only [h, if_false, melodyDuration_nil]; grind

theorem gapRest_pos (a b : Rat) (hf : Fine (b - a)) : AllPos (gapRest a b) := by
  unfold gapRest
  by_cases h : a < b
  · simp only [h, if_true, mkSilence_fine _ hf]
    intro n hn; simp only [List.mem_singleton] at hn; subst hn; show 0 < b - a; grind
  · simp only [h, if_false]; intro n hn; cases hn

theorem loopMelRaw_dur (c : Chord) (T : List Rat) (hT : FineSet T) : ∀ (ns : List Item) (t : Rat), Chain t ns → t ∈ T →
    (∀ n ∈ ns, n.start ∈ T ∧ n.stop ∈ T) → melodyDuration (loopMelRaw c t ns) = endOf t ns - t := by
  intro ns
  induction ns with
  | nil => intro t _ _ _; simp only [loopMelRaw, endOf, melodyDuration_nil]; grind
  | cons n rest ih =>
      intro t ⟨h1, h2, h3⟩ ht hmem
      have hn := hmem n (List.mem_cons_self ..)
      simp only [loopMelRaw, endOf, melodyDuration_append, melodyDuration_cons,
        gapRest_dur t n.start h1 (hT _ hn.1 _ ht), ih _ h3 hn.2 (fun x hx => hmem x (List.mem_cons_of_mem _ hx))]
      show n.start - t + (n.stop - n.start + (endOf n.stop rest - n.stop)) = endOf n.stop rest - t
      grind

theorem loopMel_dur_cut (c : Chord) (be : Rat) (T : List Rat) (hT : FineSet T) : ∀ (ns : List Item) (t : Rat), Chain t ns →
    ns ≠ [] → t ∈ T → (∀ n ∈ ns, n.start ∈ T ∧ n.stop ∈ T) → (∀ n ∈ ns, n.start < be) → be < endOf t ns →
    melodyDuration (loopMel c be t ns) = be - t := by
  intro ns
  induction ns with
  | nil => intro t _ h; exact absurd rfl h
  | cons n rest ih =>
      intro t ⟨h1, h2, h3⟩ _ ht hmem hin hend
      have hn := hmem n (List.mem_cons_self ..)
      have hnb := hin n (List.mem_cons_self ..)
      cases rest with
      | nil =>
          simp only [endOf] at hend
          have hm : min n.stop be = be := by grind
          simp only [loopMel, melodyDuration_append, melodyDuration_cons, melodyDuration_nil, hm,
            gapRest_dur t n.start h1 (hT _ hn.1 _ ht)]
          show n.start - t + (be - n.start + 0) = be - t
          grind
      | cons r rs =>
          have hr := hin r (List.mem_cons_of_mem _ (List.mem_cons_self ..))
          have hr1 := h3.1
          have hm : min n.stop be = n.stop := by grind
          have e2 : endOf t (n :: r :: rs) = endOf n.stop (r :: rs) := rfl
          rw [e2] at hend
          have := ih n.stop h3 (by simp) hn.2 (fun x hx => hmem x (List.mem_cons_of_mem _ hx))
            (fun x hx => hin x (List.mem_cons_of_mem _ hx)) hend
          simp only [loopMel, hm] at this ⊢
          simp only [melodyDuration_append, melodyDuration_cons, gapRest_dur t n.start h1 (hT _ hn.1 _ ht)]
          simp only [melodyDuration_append, melodyDuration_cons] at this
          rw [this]
          show n.start - t + (n.stop - n.start + (be - n.stop)) = be - t
          grind

theorem loopMel_pos (c : Chord) (be : Rat) (T : List Rat) (hT : FineSet T) : ∀ (ns : List Item) (t : Rat), Chain t ns →
    t ∈ T → (∀ n ∈ ns, n.start ∈ T ∧ n.stop ∈ T) → (∀ n ∈ ns, n.start < be) → AllPos (loopMel c be t ns) := by
  intro ns
  induction ns with
  | nil => intro t _ _ _ _ n hn; cases hn
  | cons n rest ih =>
      intro t ⟨h1, h2, h3⟩ ht hmem hin
      have hn := hmem n (List.mem_cons_self ..)
      have hnb := hin n (List.mem_cons_self ..)
      simp only [loopMel]
      apply allPos_append (gapRest_pos _ _ (hT _ hn.1 _ ht))
      intro x hx
      rcases List.mem_cons.mp hx with rfl | hx
      · show 0 < min n.stop be - n.start
        grind
      · exact ih _ h3 hn.2 (fun x hx => hmem x (List.mem_cons_of_mem _ hx)) (fun x hx => hin x (List.mem_cons_of_mem _ hx)) x hx

end MV
