/-
Lemmas about `Chord.parse` (C14): the two branches in closed form, for every chord and pitch.
-/
import MV.Props.C02
namespace MV
open Gen

/-- facts about the chord scale used by `parse`: seven entries inside one octave above the first -/
theorem scale_window (c : Chord) (he : 0 ≤ c.elem ∧ c.elem < 7) (i : Nat) (hi : i < 7) :
    c.scalePitches.getD 0 0 ≤ c.scalePitches.getD i 0 ∧ c.scalePitches.getD i 0 < c.scalePitches.getD 0 0 + 12 := by
  obtain ⟨_, hs, h6, _⟩ := C02.chord_scale_is_rotation c he
  have h0 : c.scalePitches.getD 0 0 < c.scalePitches.getD 1 0 := hs 0 (by omega)
  have h1 : c.scalePitches.getD 1 0 < c.scalePitches.getD 2 0 := hs 1 (by omega)
  have h2 : c.scalePitches.getD 2 0 < c.scalePitches.getD 3 0 := hs 2 (by omega)
  have h3 : c.scalePitches.getD 3 0 < c.scalePitches.getD 4 0 := hs 3 (by omega)
  have h4 : c.scalePitches.getD 4 0 < c.scalePitches.getD 5 0 := hs 4 (by omega)
  have h5 : c.scalePitches.getD 5 0 < c.scalePitches.getD 6 0 := hs 5 (by omega)
  have : i = 0 ∨ i = 1 ∨ i = 2 ∨ i = 3 ∨ i = 4 ∨ i = 5 ∨ i = 6 := by omega
  rcases this with rfl | rfl | rfl | rfl | rfl | rfl | rfl <;> omega

theorem findIdx_spec (l : List Int) (r : Int) (idx : Nat) (h : l.findIdx? (· == r) = some idx) :
    idx < l.length ∧ l.getD idx 0 = r := by
  rw [List.findIdx?_eq_some_iff_getElem] at h
  obtain ⟨hlt, hp, _⟩ := h
  refine ⟨hlt, ?_⟩
  simp only [beq_iff_eq] at hp
  simp [List.getD_eq_getElem?_getD, List.getElem?_eq_getElem hlt, hp]

theorem findIdx_exists (l : List Int) (r : Int) (h : r ∈ l) : ∃ idx, l.findIdx? (· == r) = some idx := by
  cases hf : l.findIdx? (· == r) with
  | some i => exact ⟨i, rfl⟩
  | none =>
      rw [List.findIdx?_eq_none_iff] at hf
      have := hf r h
      simp at this

end MV

namespace MV
open Gen

theorem pyIndex_zero (l : List Int) (h : 0 < l.length) : pyIndex l 0 = .ok (l.getD 0 0) := by
  have := pyIndex_nonneg l 0 0 (by omega) (by omega)
  simpa using this

theorem parse_scale_case (c : Chord) (he : 0 ≤ c.elem ∧ c.elem < 7) (p : Int)
    (hin : (c.scalePitches.map (· % 12)).contains (p % 12) = true) :
    ∃ idx : Nat, idx < 7 ∧ c.scalePitches.getD idx 0 % 12 = p % 12 ∧
      c.parse p = .ok { kind := .s, val := (idx : Int), oct := (p - c.scalePitches.getD 0 0) / 12, dur := 1 } := by
  have hlen := scalePitches_length c (C01.scales_len _) he
  have hmem : p % 12 ∈ c.scalePitches.map (· % 12) := by simpa using hin
  obtain ⟨idx, hidx⟩ := findIdx_exists _ _ hmem
  obtain ⟨hlt, hget⟩ := findIdx_spec _ _ _ hidx
  rw [List.length_map, hlen] at hlt
  refine ⟨idx, hlt, ?_, ?_⟩
  · have hlt' : idx < c.scalePitches.length := by omega
    simp only [List.getD_eq_getElem?_getD, List.getElem?_map, List.getElem?_eq_getElem hlt',
      Option.map_some, Option.getD_some] at hget ⊢
    exact hget
  · unfold Chord.parse
    simp only [hin, if_true, pure, Except.pure, bind, Except.bind, pyIndex_zero _ (by omega : 0 < c.scalePitches.length), hidx]
    rfl

end MV

namespace MV
open Gen

theorem chromatic_mem (root r : Int) (h0 : 0 ≤ r) (h12 : r < 12) :
    r ∈ ((List.range 12).map (fun (i : Nat) => root + Int.ofNat i)).map (· % 12) := by
  simp only [List.map_map, List.mem_map, List.mem_range, Function.comp]
  refine ⟨((r - root) % 12).toNat, by omega, ?_⟩
  have : Int.ofNat ((r - root) % 12).toNat = (r - root) % 12 := by
    simp only [Int.ofNat_eq_natCast]; omega
  rw [this]; omega

theorem parse_chrom_case (c : Chord) (he : 0 ≤ c.elem ∧ c.elem < 7) (p : Int)
    (hin : (c.scalePitches.map (· % 12)).contains (p % 12) = false) :
    ∃ idx : Nat, idx < 12 ∧ (c.scalePitches.getD 0 0 + idx) % 12 = p % 12 ∧
      c.parse p = .ok { kind := .h, val := (idx : Int), oct := (p - c.scalePitches.getD 0 0) / 12, dur := 1 } := by
  have hlen := scalePitches_length c (C01.scales_len _) he
  have hmem := chromatic_mem (c.scalePitches.getD 0 0) (p % 12) (by omega) (by omega)
  obtain ⟨idx, hidx⟩ := findIdx_exists _ _ hmem
  obtain ⟨hlt, hget⟩ := findIdx_spec _ _ _ hidx
  simp only [List.length_map, List.length_range] at hlt
  refine ⟨idx, hlt, ?_, ?_⟩
  · simp only [List.getD_eq_getElem?_getD, List.getElem?_map, List.getElem?_range hlt,
      Option.map_some, Option.getD_some] at hget
    simpa using hget
  · unfold Chord.parse Chord.chromaticPitches
    simp only [hin, pure, Except.pure, bind, Except.bind, pyIndex_zero _ (by omega : 0 < c.scalePitches.length)]
    simp only [Bool.false_eq_true, if_false]
    rw [pyIndex_zero _ (by simp)]
    simp only [hidx]
    have : ((List.range 12).map (fun (i : Nat) => c.scalePitches.getD 0 0 + Int.ofNat i)).getD 0 0 = c.scalePitches.getD 0 0 := by
      simp [List.range_succ_eq_map]
    rw [this]
    rfl

end MV

namespace MV
open Gen

/-- the note `parse` returns sounds the pitch it was given -/
theorem parse_roundtrip_lem (c : Chord) (he : 0 ≤ c.elem ∧ c.elem < 7) (p last : Int) (n : Note)
    (h : c.parse p = .ok n) :
    noteToPitch c n last = .ok (some p) ∧ c.toPitch n none = .ok (some p) := by
  have hL : (SCALES c.ton.mode).length = 7 := C01.scales_len _
  have key : noteToPitch c n last = .ok (some p) ∧ (n.kind = .s ∨ n.kind = .h) := by
    cases hin : (c.scalePitches.map (· % 12)).contains (p % 12) with
    | true =>
        obtain ⟨idx, hlt, hmod, hp⟩ := parse_scale_case c he p hin
        rw [hp] at h; cases h
        refine ⟨?_, Or.inl rfl⟩
        rw [C01.pitch_scale c _ last rfl rfl he]
        have hw := scale_window c he idx hlt
        have hg := scalePitches_getD c idx hL he hlt
        have hm : C01.effMode c { kind := .s, val := (idx : Int), oct := (p - c.scalePitches.getD 0 0) / 12, dur := 1 } = c.ton.mode := rfl
        rw [hm]
        simp only
        have h1 : (((idx : Int)) % 7).toNat = idx := by omega
        have h2 : ((idx : Int)) / 7 = 0 := by omega
        rw [h1, h2]
        unfold Tonality.absDegree at hg
        congr 2
        omega
    | false =>
        obtain ⟨idx, hlt, hmod, hp⟩ := parse_chrom_case c he p hin
        rw [hp] at h; cases h
        refine ⟨?_, Or.inr rfl⟩
        rw [C01.pitch_chromatic c _ last rfl he]
        have hg := scalePitches_getD c 0 hL he (by omega)
        unfold C01.rootPitch
        have hm : C01.effMode c { kind := .h, val := (idx : Int), oct := (p - c.scalePitches.getD 0 0) / 12, dur := 1 } = c.ton.mode := rfl
        rw [hm]
        simp only
        unfold Tonality.absDegree at hg
        simp only [Nat.add_zero] at hg
        congr 2
        omega
  refine ⟨key.1, ?_⟩
  have key0 : noteToPitch c n 0 = .ok (some p) := by
    rcases key.2 with hk | hk
    · rw [← key.1]; unfold noteToPitch; simp only [hk]
    · rw [← key.1]; unfold noteToPitch; simp only [hk]
  unfold Chord.toPitch
  rcases key.2 with hk | hk <;> simp [hk, Kind.isNote, Kind.isRelative, key0]


end MV
