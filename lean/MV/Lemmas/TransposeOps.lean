/-
The three transposition operations of C04 as instances of the generic render theorem
(`MV.Lemmas.TransposeRender`): modulation `s % t`, every chord raised by `k` octaves, and
`Score.o(k)` (every melody raised by `k` octaves, through `o_melody` / `__call__`).
-/
import MV.Lemmas.TransposeRender
import MV.Props.C01

namespace MV
open Gen

/-! ### the three operations as `Transp` instances -/

def isChordRel (k : Kind) : Bool := k == .s || k == .h || k == .c || k == .b

/-- modulation by `t` -/
def Tmod (t : Tonality) : Transp :=
  { D := t.absDegree, hc := (·.modulate t), gn := id, mv := isChordRel, relFixed := false }

/-- every chord raised by `k` octaves -/
def TchordO (k : Int) : Transp :=
  { D := 12 * k, hc := (·.o k), gn := id, mv := isChordRel, relFixed := false }

/-- every melody raised by `k` octaves (`Score.o`) -/
def TscoreO (k : Int) : Transp :=
  { D := 12 * k, hc := id, gn := (·.o k), mv := fun kd => isChordRel kd || kd == .a, relFixed := true }

theorem parts_map_id (ps : List (String × Melody)) : ps.map (fun p => (p.1, p.2.map id)) = ps := by
  conv => rhs; rw [← List.map_id ps]
  apply List.map_congr_left; intro p _; simp

theorem Tmod_chord (t : Tonality) (c : Chord) : (Tmod t).chord c = c.modulate t := by
  unfold Transp.chord Tmod; simp only [parts_map_id]; rfl

theorem Tmod_score (t : Tonality) (s : Score) : (Tmod t).score s = s.modulate t := by
  unfold Transp.score Score.modulate
  apply List.map_congr_left; intro c _; exact Tmod_chord t c

theorem TchordO_chord (k : Int) (c : Chord) : (TchordO k).chord c = c.o k := by
  unfold Transp.chord TchordO; simp only [parts_map_id]; rfl

theorem TchordO_score (k : Int) (s : Score) : (TchordO k).score s = s.chordsO k := by
  unfold Transp.score Score.chordsO
  apply List.map_congr_left; intro c _; exact TchordO_chord k c

theorem shiftedH_modulate (c : Chord) (t : Tonality) : ShiftedH t.absDegree c (c.modulate t) := by
  refine ⟨rfl, rfl, ?_⟩
  simp only [Chord.modulate, Chord.base', Tonality.add, Tonality.absDegree]; omega

theorem shifted_modulate (c : Chord) (t : Tonality) (hm : t.mode = c.ton.mode) :
    Shifted t.absDegree c (c.modulate t) := by
  obtain ⟨h1, h2, h3⟩ := shiftedH_modulate c t
  exact ⟨h1, h2, by simp only [Chord.modulate, Tonality.add]; exact hm, h3⟩

theorem shifted_o (c : Chord) (k : Int) : Shifted (12 * k) c (c.o k) := by
  refine ⟨rfl, rfl, rfl, ?_⟩
  simp only [Chord.o, Chord.base']; omega

/-- the modulation keeps the system the note is read in -/
def ModeKept (t : Tonality) (c : Chord) (n : Note) : Prop :=
  t.mode = c.ton.mode ∨ (n.mode.isSome = true ∧ (n.kind = .s ∨ n.kind = .h ∨ n.kind = .su ∨ n.kind = .sd)) ∨
    (n.kind = .a ∨ n.kind = .d ∨ n.kind = .r ∨ n.kind = .l ∨ n.kind = .x)

instance (t : Tonality) (c : Chord) (n : Note) : Decidable (ModeKept t c n) := by
  unfold ModeKept; exact inferInstance

theorem kind_cases (k : Kind) : (k = .s ∨ k = .h ∨ k = .c ∨ k = .b) ∨ (k = .a ∨ k = .d ∨ k = .r ∨ k = .l ∨ k = .x) ∨
    k.isRelative = true := by
  cases k <;> simp [Kind.isRelative]

theorem isChordRel_iff (k : Kind) : isChordRel k = true ↔ (k = .s ∨ k = .h ∨ k = .c ∨ k = .b) := by
  cases k <;> simp [isChordRel]

/-- a transformation that leaves the notes alone and moves the chord by `D` -/
theorem goodNote_of_chordShift (T : Transp) (hgn : T.gn = id) (hmv : T.mv = isChordRel) (hrf : T.relFixed = false)
    (c : Chord) (n : Note) (hfix : n.kind = .a ∨ n.kind = .d ∨ n.kind = .r ∨ n.kind = .l ∨ n.kind = .x ∨
      KeepsSystem T.D c (T.chord c) n) : T.GoodNote c n := by
  have hid : T.gn n = n := by rw [hgn]; rfl
  refine ⟨by rw [hid], by rw [hid], by rw [hid], by rw [hid], by rw [hid], ?_, ?_, ?_, ?_⟩
  · intro _ hm last last'
    rw [hmv, isChordRel_iff] at hm
    rw [hid]
    have hk : KeepsSystem T.D c (T.chord c) n := by
      rcases hfix with h | h | h | h | h | h
      · rcases hm with h' | h' | h' | h' <;> rw [h] at h' <;> cases h'
      · rcases hm with h' | h' | h' | h' <;> rw [h] at h' <;> cases h'
      · rcases hm with h' | h' | h' | h' <;> rw [h] at h' <;> cases h'
      · rcases hm with h' | h' | h' | h' <;> rw [h] at h' <;> cases h'
      · rcases hm with h' | h' | h' | h' <;> rw [h] at h' <;> cases h'
      · exact h
    exact noteToPitch_shift T.D c (T.chord c) n last last' hm hk
  · intro hr hm last last'
    rw [hid]
    have hk : n.kind = .a ∨ n.kind = .d ∨ n.kind = .r ∨ n.kind = .l ∨ n.kind = .x := by
      rcases kind_cases n.kind with h | h | h
      · rw [hmv] at hm; rw [(isChordRel_iff n.kind).mpr h] at hm; cases hm
      · exact h
      · rw [h] at hr; cases hr
    exact noteToPitch_fixed c (T.chord c) n last last' hk
  · intro hr last r hp w1 w2 w3 w4
    rw [hid]
    have hk : KeepsSystem T.D c (T.chord c) n := by
      rcases hfix with h | h | h | h | h | h
      · rw [h] at hr; simp [Kind.isRelative] at hr
      · rw [h] at hr; simp [Kind.isRelative] at hr
      · rw [h] at hr; simp [Kind.isRelative] at hr
      · rw [h] at hr; simp [Kind.isRelative] at hr
      · rw [h] at hr; simp [Kind.isRelative] at hr
      · exact h
    exact noteToPitch_shift_rel T.D c (T.chord c) n last r hr hk hp w1 w2 w3 w4
  · intro h; rw [hrf] at h; cases h

theorem good_Tmod (t : Tonality) (s : Score) (h : ∀ c ∈ s, ∀ p ∈ c.parts, ∀ n ∈ p.2, ModeKept t c n) :
    (Tmod t).Good s := by
  intro c hc p hp n hn
  apply goodNote_of_chordShift (Tmod t) rfl rfl rfl
  rw [Tmod_chord]
  rcases h c hc p hp n hn with hm | ⟨hm, hk⟩ | hk
  · exact Or.inr (Or.inr (Or.inr (Or.inr (Or.inr (Or.inl (shifted_modulate c t hm))))))
  · exact Or.inr (Or.inr (Or.inr (Or.inr (Or.inr (Or.inr ⟨shiftedH_modulate c t, hm, hk⟩)))))
  · rcases hk with h | h | h | h | h
    · exact Or.inl h
    · exact Or.inr (Or.inl h)
    · exact Or.inr (Or.inr (Or.inl h))
    · exact Or.inr (Or.inr (Or.inr (Or.inl h)))
    · exact Or.inr (Or.inr (Or.inr (Or.inr (Or.inl h))))

theorem good_TchordO (k : Int) (s : Score) : (TchordO k).Good s := by
  intro c _ p _ n _
  apply goodNote_of_chordShift (TchordO k) rfl rfl rfl
  rw [TchordO_chord]
  exact Or.inr (Or.inr (Or.inr (Or.inr (Or.inr (Or.inl (shifted_o c k))))))


theorem valueToScale_add_len (v k : Int) (l : List Int) :
    valueToScale (v + (l.length : Int) * k) l = (valueToScale v l).map (· + 12 * k) := by
  by_cases h0 : l.length = 0
  · unfold valueToScale; simp only [h0, if_true]; rfl
  · have hp : 0 < l.length := by omega
    rw [valueToScale_pos l _ hp, valueToScale_pos l v hp]
    have hne : (l.length : Int) ≠ 0 := by omega
    rw [Int.add_mul_emod_self_left, Int.add_mul_ediv_left _ _ hne]
    simp only [Except.map]
    congr 1; omega

theorem scalePitches_len7 (c : Chord) : c.scalePitches.length = 7 := by
  unfold Chord.scalePitches Tonality.scalePitches
  have := C01.scales_len c.ton.mode
  simp only [List.length_map, List.length_append, List.length_drop, List.length_take, this]
  omega

theorem note_o_fields (n : Note) (k : Int) :
    (n.o k).kind = n.kind ∧ (n.o k).val = n.val ∧ (n.o k).dur = n.dur ∧ (n.o k).amp = n.amp ∧
    (n.o k).tempo = n.tempo ∧ (n.o k).pedal = n.pedal ∧ (n.o k).mode = n.mode ∧ (n.o k).acc = n.acc := by
  unfold Note.o Note.oabs
  cases hk : n.kind <;> simp [hk]

theorem note_o_oct (n : Note) (k : Int) (hk : n.kind = .s ∨ n.kind = .h ∨ n.kind = .c ∨ n.kind = .b ∨ n.kind = .a ∨ n.kind = .x) :
    (n.o k).oct = n.oct + k := by
  unfold Note.o Note.oabs
  rcases hk with h | h | h | h | h | h <;> simp [h]

theorem note_o_id (n : Note) (k : Int) (hk : n.kind.isRelative = true ∨ n.kind = .d ∨ n.kind = .r ∨ n.kind = .l) :
    n.o k = n := by
  unfold Note.o
  rcases hk with h | h | h | h
  · cases hkk : n.kind <;> simp [hkk, Kind.isRelative] at h ⊢
  all_goals simp [h]

theorem realChord_o (n : Note) (k : Int) (c : Chord) : (n.o k).realChord c = n.realChord c := by
  unfold Note.realChord; rw [(note_o_fields n k).2.2.2.2.2.2.1]

/-- **raising a note by `k` octaves adds exactly `12 k`** for the five absolute-octave systems -/
theorem noteToPitch_note_o (c : Chord) (n : Note) (k last last' : Int)
    (hk : n.kind = .s ∨ n.kind = .h ∨ n.kind = .c ∨ n.kind = .b ∨ n.kind = .a) :
    noteToPitch c (n.o k) last' = shiftO (12 * k) (noteToPitch c n last) := by
  obtain ⟨f1, f2, _, _, _, _, f7, f8⟩ := note_o_fields n k
  have foct : (n.o k).oct = n.oct + k := note_o_oct n k (by
    rcases hk with h | h | h | h | h <;> simp [h])
  unfold noteToPitch shiftO
  rcases hk with h | h | h | h | h
  · simp only [f1, h]
    unfold basicPitch
    simp only [f1, h, f8, realChord_o, f2, foct]
    cases n.acc with
    | some a =>
      unfold withAccident
      simp only [f2, foct]
      cases pyIndex (n.realChord c).scalePitches 0 with
      | error e => rfl
      | ok tonic =>
        cases lookupKey (n.val, a) ACCIDENTS_TO_NOTE with
        | error e => rfl
        | ok d => simp only [bind, Except.bind, pure, Except.pure, Except.map, Option.map]; congr 2; omega
    | none =>
      have h7 := scalePitches_len7 (n.realChord c)
      have e : n.val + 7 * (n.oct + k) = (n.val + 7 * n.oct) + ((n.realChord c).scalePitches.length : Int) * k := by
        rw [h7]; omega
      simp only [e, valueToScale_add_len]
      cases valueToScale (n.val + 7 * n.oct) (n.realChord c).scalePitches <;> rfl
  · simp only [f1, h]
    unfold basicPitch
    simp only [f1, h, realChord_o, f2, foct]
    cases pyIndex (n.realChord c).scalePitches 0 with
    | error e => rfl
    | ok root =>
      simp only [bind, Except.bind]
      rw [valueToScale_chromatic, valueToScale_chromatic]
      simp only [pure, Except.pure, Except.map, Option.map]; congr 2; omega
  · simp only [f1, h, f2, foct]
    cases c.chordPitches with
    | error e => rfl
    | ok sc =>
      simp only [bind, Except.bind]
      have e : n.val + (sc.length : Int) * (n.oct + k) = (n.val + (sc.length : Int) * n.oct) + (sc.length : Int) * k := by
        rw [Int.mul_add]; omega
      rw [e, valueToScale_add_len]
      cases valueToScale (n.val + (sc.length : Int) * n.oct) sc <;> rfl
  · simp only [f1, h, f2, foct]
    cases c.extensionPitches with
    | error e => rfl
    | ok sc =>
      simp only [bind, Except.bind]
      have e : n.val + (sc.length : Int) * (n.oct + k) = (n.val + (sc.length : Int) * n.oct) + (sc.length : Int) * k := by
        rw [Int.mul_add]; omega
      rw [e, valueToScale_add_len]
      cases valueToScale (n.val + (sc.length : Int) * n.oct) sc <;> rfl
  · simp only [f1, h]
    unfold basicPitch
    simp only [f1, h, f2, foct]
    have hr : (List.range 12).map Int.ofNat = (List.range 12).map (fun (i : Nat) => (0:Int) + Int.ofNat i) := by simp
    rw [hr, valueToScale_chromatic, valueToScale_chromatic]
    simp only [bind, Except.bind, pure, Except.pure, Except.map, Option.map]; congr 2; omega

theorem TscoreO_chord_pitch (k : Int) (c : Chord) (n : Note) (last : Int) :
    noteToPitch ((TscoreO k).chord c) n last = noteToPitch c n last := by
  unfold Transp.chord TscoreO
  exact noteToPitch_parts c _ n last

theorem good_TscoreO (k : Int) (s : Score) : (TscoreO k).Good s := by
  intro c _ p _ n _
  obtain ⟨f1, _, f3, f4, f5, f6, _, _⟩ := note_o_fields n k
  have hgn : (TscoreO k).gn n = n.o k := rfl
  have hD : (TscoreO k).D = 12 * k := rfl
  refine ⟨f1, f3, f4, f5, f6, ?_, ?_, ?_, ?_⟩
  · intro _ hm last last'
    rw [TscoreO_chord_pitch, hgn, hD]
    have hk : n.kind = .s ∨ n.kind = .h ∨ n.kind = .c ∨ n.kind = .b ∨ n.kind = .a := by
      simp only [TscoreO, isChordRel, Bool.or_eq_true, beq_iff_eq] at hm
      rcases hm with ((((h | h) | h) | h) | h) <;> simp [h]
    exact noteToPitch_note_o c n k last last' hk
  · intro hr hm last last'
    rw [TscoreO_chord_pitch, hgn]
    have hk : n.kind = .d ∨ n.kind = .r ∨ n.kind = .l ∨ n.kind = .x := by
      simp only [TscoreO, isChordRel] at hm
      cases hkk : n.kind <;> simp [hkk, Kind.isRelative] at hm hr ⊢
    rcases hk with h | h | h | h
    · rw [note_o_id n k (Or.inr (Or.inl h))]; exact noteToPitch_fixed c c n last last' (Or.inr (Or.inl h))
    · rw [note_o_id n k (Or.inr (Or.inr (Or.inl h)))]; exact noteToPitch_fixed c c n last last' (Or.inr (Or.inr (Or.inl h)))
    · rw [note_o_id n k (Or.inr (Or.inr (Or.inr h)))]; exact noteToPitch_fixed c c n last last' (Or.inr (Or.inr (Or.inr (Or.inl h))))
    · have h1 : (n.o k).kind = .x := by rw [f1]; exact h
      unfold noteToPitch; simp only [h1, h]
  · intro hr last r hp w1 w2 w3 w4
    rw [TscoreO_chord_pitch, hgn, hD, note_o_id n k (Or.inl hr)]
    rw [hD] at w2 w4
    exact noteToPitch_octave_rel c n last r k hr hp w1 w2 w3 w4
  · intro _ hr last
    rw [TscoreO_chord_pitch, hgn, note_o_id n k (Or.inl hr)]


/-- `some base` when the part name is already in the normal form `base__<int>` that
`preparse_named_melodies` produces (so that `__call__` keeps it) -/
def partBase (key : String) : Option String :=
  match partKey key with
  | .ok (b, out) => if out = key then some b else none
  | .error _ => none

def drumOK (n : Note) : Bool := n.kind == .d || n.kind == .r || n.kind == .l

/-- the chord's parts are what `Chord.__call__` stores: distinct normal-form names, and drum parts
hold drum notes, rests and continuations only -/
def CanonParts (c : Chord) : Prop :=
  (c.parts.map (·.1)).Nodup ∧
  ∀ p ∈ c.parts, ∃ b, partBase p.1 = some b ∧ (isDrumName b = true → p.2.all drumOK = true)

instance (c : Chord) : Decidable (CanonParts c) := by
  unfold CanonParts
  have : ∀ p : String × Melody, Decidable (∃ b, partBase p.1 = some b ∧ (isDrumName b = true → p.2.all drumOK = true)) := by
    intro p
    cases h : partBase p.1 with
    | none => exact isFalse (by rintro ⟨b, hb, _⟩; cases hb)
    | some b =>
      by_cases h2 : (isDrumName b = true → p.2.all drumOK = true)
      · exact isTrue ⟨b, rfl, h2⟩
      · exact isFalse (by rintro ⟨b', hb, h3⟩; cases hb; exact h2 h3)
  exact inferInstance

theorem convertToDrum_ok (c : Chord) (m : Melody) (h : m.all drumOK = true) :
    m.mapM (·.convertToDrum c) = .ok m := by
  induction m with
  | nil => rfl
  | cons n ns ih =>
    simp only [List.all_cons, Bool.and_eq_true] at h
    have hn : n.convertToDrum c = .ok n := by
      unfold Note.convertToDrum
      have : (n.kind = .d || n.kind = .r || n.kind = .l) = true := by
        unfold drumOK at h; simpa using h.1
      simp only [this, if_true]
    simp only [List.mapM_cons, hn, ih h.2, bind, Except.bind, pure, Except.pure]

theorem setPart_new (ps : List (String × Melody)) (k : String) (m : Melody) (h : k ∉ ps.map (·.1)) :
    setPart ps k m = ps ++ [(k, m)] := by
  unfold setPart
  have : ps.any (·.1 == k) = false := by
    rw [List.any_eq_false]
    intro p hp hk
    exact h (List.mem_map.mpr ⟨p, hp, by simpa using hk⟩)
  simp only [this, Bool.false_eq_true, if_false]

theorem preparse_canon (c : Chord) (ps acc : List (String × Melody))
    (hnd : (ps.map (·.1)).Nodup) (hdis : ∀ k ∈ ps.map (·.1), k ∉ acc.map (·.1))
    (hp : ∀ p ∈ ps, ∃ b, partBase p.1 = some b ∧ (isDrumName b = true → p.2.all drumOK = true)) :
    c.preparse ps acc = .ok (acc ++ ps) := by
  induction ps generalizing acc with
  | nil => simp [Chord.preparse]
  | cons p ps ih =>
    obtain ⟨key, mel⟩ := p
    obtain ⟨b, hb, hdr⟩ := hp (key, mel) (by simp)
    have hk : partKey key = .ok (b, key) := by
      unfold partBase at hb
      cases hpk : partKey key with
      | error e => simp [hpk] at hb
      | ok q =>
        obtain ⟨b', out⟩ := q
        simp only [hpk] at hb
        split at hb
        · rename_i ho; cases hb; rw [ho]
        · cases hb
    simp only [Chord.preparse, hk, bind, Except.bind]
    have hnew : key ∉ acc.map (·.1) := hdis key (by simp)
    have hnd' : key ∉ ps.map (·.1) ∧ (ps.map (·.1)).Nodup := List.nodup_cons.mp hnd
    have hcont : c.preparse ps (setPart acc key mel) = .ok (acc ++ (key, mel) :: ps) := by
      rw [setPart_new acc key mel hnew]
      rw [ih (acc ++ [(key, mel)]) hnd'.2 ?_ (fun p hp' => hp p (by simp [hp']))]
      · simp
      · intro k hk'
        simp only [List.map_append, List.map_cons, List.map_nil, List.mem_append, List.mem_singleton, not_or]
        exact ⟨hdis k (by simp [hk']), fun h => hnd'.1 (h ▸ hk')⟩
    by_cases hd : isDrumName b = true
    · simp only [hd, if_true, convertToDrum_ok c mel (hdr hd)]; exact hcont
    · simp only [hd, Bool.false_eq_true, if_false, pure, Except.pure]; exact hcont

theorem all_drumOK_o (m : Melody) (k : Int) (h : m.all drumOK = true) : (Melody.o m k).all drumOK = true := by
  unfold Melody.o
  rw [List.all_map]
  rw [List.all_eq_true] at h ⊢
  intro n hn
  have := h n hn
  unfold drumOK at this ⊢
  simp only [Function.comp, (note_o_fields n k).1]; exact this

/-- on chords as `__call__` builds them, `o_melody` just raises every note -/
theorem oMelody_canon (c : Chord) (k : Int) (h : CanonParts c) : c.oMelody k = .ok ((TscoreO k).chord c) := by
  unfold Chord.oMelody Chord.call
  have hnames : (c.parts.map (fun p => (p.1, Melody.o p.2 k))).map (·.1) = c.parts.map (·.1) := by
    rw [List.map_map]; rfl
  rw [preparse_canon c _ [] (by rw [hnames]; exact h.1) (by intro k _; simp)]
  · simp only [bind, Except.bind, pure, Except.pure, List.nil_append]; rfl
  · intro p hp
    obtain ⟨q, hq, rfl⟩ := List.mem_map.mp hp
    obtain ⟨b, hb, hd⟩ := h.2 q hq
    exact ⟨b, hb, fun hdn => all_drumOK_o q.2 k (hd hdn)⟩

theorem mapM_ok_map {α β : Type} (f : α → Res β) (g : α → β) (l : List α) (h : ∀ x ∈ l, f x = .ok (g x)) :
    l.mapM f = .ok (l.map g) := by
  induction l with
  | nil => rfl
  | cons a t ih =>
    simp only [List.mapM_cons, h a (by simp), ih (fun x hx => h x (by simp [hx])), bind, Except.bind,
      pure, Except.pure, List.map_cons]

theorem scoreO_canon (s : Score) (k : Int) (h : ∀ c ∈ s, CanonParts c) : s.o k = .ok ((TscoreO k).score s) := by
  unfold Score.o Transp.score
  exact mapM_ok_map _ _ s (fun c hc => oMelody_canon c k (h c hc))


/-- the notes of a score in note-matrix order: track after track, chord after chord -/
def Score.matrixNotes (s : Score) : List Note :=
  (trackList s).flatMap (fun t => s.flatMap (fun c => (c.parts.lookup t).getD []))

/-- kinds whose row moves when every relative note hangs on a moved reference -/
def RefRule.movedKind (T : RefRule) (k : Kind) : Bool := !(k == .r || k == .l) && (k.isRelative || T.mv k)

theorem maskMelody_of_ok (T : RefRule) (hrf : T.relFixed = false) (m : Melody) (st : RefSt)
    (hok : T.okMelody m st = true) : T.maskMelody m st = m.map (fun n => T.movedKind n.kind) := by
  induction m generalizing st with
  | nil => rfl
  | cons n ns ih =>
    simp only [RefRule.okMelody, Bool.and_eq_true] at hok
    simp only [RefRule.maskMelody, List.map_cons, ih _ hok.2]
    congr 1
    unfold RefRule.moved RefRule.movedKind
    by_cases hrl : n.kind = .r ∨ n.kind = .l
    · rcases hrl with h | h <;> simp [h]
    · have h1 : (n.kind == Kind.r) = false := by simpa using fun h => hrl (Or.inl h)
      have h2 : (n.kind == Kind.l) = false := by simpa using fun h => hrl (Or.inr h)
      simp only [hrl, if_false, h1, h2, Bool.or_false, Bool.not_false, Bool.true_and]
      cases hrel : n.kind.isRelative with
      | false => simp
      | true =>
        have := hok.1
        unfold RefRule.allowed at this
        simp only [hrel, hrf, Bool.not_true, Bool.false_or, Bool.or_false] at this
        simp [this]

theorem maskTrack_of_ok (T : RefRule) (hrf : T.relFixed = false) (t : String) (s : Score) (st : RefSt)
    (hok : T.okTrack t s st = true) :
    T.maskTrack t s st = (s.flatMap (fun c => (c.parts.lookup t).getD [])).map (fun n => T.movedKind n.kind) := by
  induction s generalizing st with
  | nil => rfl
  | cons c cs ih =>
    simp only [RefRule.okTrack] at hok
    simp only [RefRule.maskTrack, List.flatMap_cons, List.map_append]
    cases hl : c.parts.lookup t with
    | none => simp only [hl] at hok ⊢; simp [ih none hok]
    | some m =>
      simp only [hl, Bool.and_eq_true] at hok ⊢
      rw [maskMelody_of_ok T hrf m st hok.1, ih _ hok.2]; rfl

theorem flatMap_congr' {α β : Type} (l : List α) (f g : α → List β) (h : ∀ x ∈ l, f x = g x) :
    l.flatMap f = l.flatMap g := by
  induction l with
  | nil => rfl
  | cons a t ih => simp only [List.flatMap_cons, h a (by simp), ih (fun x hx => h x (by simp [hx]))]

/-- when every relative note has a moved reference, exactly the rows of chord-relative kinds move -/
theorem mask_of_ok (T : RefRule) (hrf : T.relFixed = false) (s : Score) (hok : T.ok s = true) :
    T.mask s = s.matrixNotes.map (fun n => T.movedKind n.kind) := by
  unfold RefRule.mask Score.matrixNotes
  unfold RefRule.ok at hok
  rw [List.all_eq_true] at hok
  rw [List.map_flatMap]
  exact flatMap_congr' _ _ _ (fun t ht => maskTrack_of_ok T hrf t s none (hok t ht))


end MV
