/-
Helper lemmas for the source tie of group `SrcRoman` (MV/Props/TieSrcRoman.lean): the float readings of the generated file
(`trueDiv`, `floatDiv`, `convGet`) against the clock arithmetic of MV/Model/Roman.lean.
-/
import MV.Gen.SrcRoman

namespace MV.Tie
open MV MV.Roman

theorem rok_bind {α β : Type} (x : α) (f : α → Res β) : ((Except.ok x : Res α) >>= f) = f x := rfl
theorem rerr_bind {α β : Type} (e : Err) (f : α → Res β) : ((Except.error e : Res α) >>= f) = .error e := rfl

/-- `4 * n / d` of the image is the model's bar length -/
theorem trueDiv_barLen (ts : Int × Int) : Src.trueDiv ((4 : Int) * ts.1) ts.2 = barLen ts := by
  unfold Src.trueDiv barLen
  rfl

theorem barLen_zero (ts : Int × Int) (h : ts.2 = 0) : barLen ts = .error .zerodiv := by
  unfold barLen; simp [h]

theorem barLen_ok (ts : Int × Int) (h : ts.2 ≠ 0) : barLen ts = .ok ((4 * ts.1 : Int) / (ts.2 : Int)) := by
  unfold barLen; simp [h]

/-- the dict literal of `get_real_value` is the model's `CONVENTION_DICT` -/
theorem convGet_convention (ts : Int × Int) (d : Rat) :
    Src.convGet [(((6 : Int), (8 : Int)), (2 : Int)), (((2 : Int), (2 : Int)), (2 : Int))] ts d = (conventionBeats ts).getD d := by
  unfold Src.convGet conventionBeats
  by_cases h1 : ts = (6, 8)
  · subst h1; rfl
  · by_cases h2 : ts = (2, 2)
    · subst h2; rfl
    · have e1 : (ts == ((6, 8) : Int × Int)) = false := by simpa using h1
      have e2 : (ts == ((2, 2) : Int × Int)) = false := by simpa using h2
      simp only [List.lookup, e1, e2, if_neg h1, if_neg h2, Option.getD_none]

/-! ### the last item of a list through Python's index -1 -/

theorem pyIndex_concat {α : Type} (init : List α) (a : α) : pyIndex (init ++ [a]) (-1) = .ok a := by
  unfold pyIndex
  have h1 : ((-1 : Int) < 0) := by decide
  have hlen : ((init ++ [a]).length : Int) = (init.length : Int) + 1 := by simp
  simp only [h1, if_true, hlen]
  have h2 : ¬ ((-1 : Int) + ((init.length : Int) + 1) < 0 ∨ (-1 : Int) + ((init.length : Int) + 1) ≥ (init.length : Int) + 1) := by omega
  have h3 : ((-1 : Int) + ((init.length : Int) + 1)).toNat = init.length := by omega
  simp only [h2, if_false, h3]
  simp

theorem pyIndex_nil {α : Type} : pyIndex ([] : List α) (-1) = .error .index := by
  unfold pyIndex; simp

theorem sliceTo_concat {α : Type} (init : List α) (a : α) : Py.sliceTo (init ++ [a]) (-1) = init := by
  unfold Py.sliceTo Py.clampIdx
  have hlen : ((init ++ [a]).length) = init.length + 1 := by simp
  rw [hlen]
  have h1 : ((-1 : Int) < 0) := by decide
  simp only [h1, if_true]
  have h2 : ¬ ((-1 : Int) + ((init.length + 1 : Nat) : Int) < 0) := by omega
  have h3 : ¬ ((-1 : Int) + ((init.length + 1 : Nat) : Int) > ((init.length + 1 : Nat) : Int)) := by omega
  have h4 : ((-1 : Int) + ((init.length + 1 : Nat) : Int)).toNat = init.length := by omega
  simp only [h2, h3, if_false, h4]
  simp

theorem sliceTo_nil {α : Type} : Py.sliceTo ([] : List α) (-1) = [] := by
  unfold Py.sliceTo; simp

theorem setItem_concat {α : Type} (init : List α) (a x : α) : Src.Py.setItem (init ++ [a]) (-1) x = .ok (init ++ [x]) := by
  unfold Src.Py.setItem
  have h1 : ((-1 : Int) < 0) := by decide
  have hlen : ((init ++ [a]).length : Int) = (init.length : Int) + 1 := by simp
  simp only [h1, if_true, hlen]
  have h2 : ¬ ((-1 : Int) + ((init.length : Int) + 1) < 0 ∨ (-1 : Int) + ((init.length : Int) + 1) ≥ (init.length : Int) + 1) := by omega
  have h3 : ((-1 : Int) + ((init.length : Int) + 1)).toNat = init.length := by omega
  simp only [h2, if_false, h3]
  simp
/-- the three-way split of `analyze_one_chord` after `figure.split('/')`, on the list of pieces -/
theorem analyze_tail (l : List Str) (key : Int) (mode : KMode) :
    (let res : List String := l.map String.ofList
     if (decide ((Py.len res) = (1 : Int))) then do
      let t_1 ← pyIndex res (0 : Int)
      let pr_2 := (t_1, (), ())
      let prim : String := pr_2.1
      let t_3 ← Src.analyzeParts prim none none key mode
      pure t_3
    else
      if (decide ((Py.len res) = (2 : Int))) then do
        let t_4 ← pyIndex res (0 : Int)
        let t_5 ← pyIndex res (1 : Int)
        let pr_6 := (t_4, t_5, ())
        let prim : String := pr_6.1
        let sec : String := pr_6.2.1
        let t_7 ← Src.analyzeParts prim (some sec) none key mode
        pure t_7
      else
        if (decide ((Py.len res) = (3 : Int))) then do
          let t_8 ← pyIndex res (0 : Int)
          let t_9 ← pyIndex res (1 : Int)
          let t_10 ← pyIndex res (2 : Int)
          let pr_11 := (t_8, t_9, t_10)
          let prim : String := pr_11.1
          let sec : String := pr_11.2.1
          let ter : String := pr_11.2.2
          let t_12 ← Src.analyzeParts prim (some sec) (some ter) key mode
          pure t_12
        else
          throw Err.other)
    = ((match l with
        | [p] => analyzeParts p none none key mode
        | [p, s] => analyzeParts p (some s) none key mode
        | [p, s, t] => analyzeParts p (some s) (some t) key mode
        | _ => (.error .other : Res (Int × Str × Int × Mode))).map
          (fun (r : Int × Str × Int × Mode) => (r.1, String.ofList r.2.1, r.2.2.1, r.2.2.2))) := by
  rcases l with _ | ⟨p, _ | ⟨s, _ | ⟨t, _ | ⟨u, r⟩⟩⟩⟩
  · rfl
  · simp [Py.len, pyIndex, Src.analyzeParts]
    simp only [rok_bind, String.toList_ofList]
  · simp [Py.len, pyIndex, Src.analyzeParts]
    simp only [rok_bind, String.toList_ofList]
  · simp [Py.len, pyIndex, Src.analyzeParts]
    simp only [rok_bind, String.toList_ofList]
  · have h1 : ¬ ((r.length : Int) + 1 + 1 + 1 + 1 = 1) := by omega
    have h2 : ¬ ((r.length : Int) + 1 + 1 + 1 + 1 = 2) := by omega
    have h3 : ¬ ((r.length : Int) + 1 + 1 + 1 + 1 = 3) := by omega
    simp [Py.len, h1, h2, h3]
    rfl

/-- what the image of `add_chord` returns for an outcome of the model: the new score and the formatter (which does not hold
the score: its `score` field stays as it was); the state that comes with an exception is dropped (`Res` carries the class only) -/
def addChordImage (st : St) : Except (Err × St) St → Res (Option (List OutChord) × St)
  | .ok st' => .ok (st'.score, { st' with score := st.score })
  | .error (e, _) => .error e

end MV.Tie
