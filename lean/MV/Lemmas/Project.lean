/-
Lemmas for C13 (harmonic projection): the loops of time_utils.py compute declarative slices.
  gmbLoop (get_melody_between)  = cutSpec   : note-by-note view of a melody through a window
  gsbLoop (get_score_between)   = sliceSpec : the chords overlapping the window, each cut to it
  projLoop (project_on_score)   = projSpec  : one chord per target chord until the source ends
plus the duration algebra of these slices.
-/
import MV.Model.Project
namespace MV.Proj
open MV

theorem sumRat_foldl (l : List Rat) (a : Rat) : l.foldl (· + ·) a = a + l.foldl (· + ·) 0 := by
  induction l generalizing a with
  | nil => simp only [List.foldl_nil]; grind
  | cons x xs ih => simp only [List.foldl_cons]; rw [ih (a + x), ih (0 + x)]; grind

theorem sumRat_nil : sumRat [] = 0 := rfl

theorem sumRat_cons (x : Rat) (l : List Rat) : sumRat (x :: l) = x + sumRat l := by
  unfold sumRat; simp only [List.foldl_cons]; rw [sumRat_foldl]; grind

theorem sumRat_append (l1 l2 : List Rat) : sumRat (l1 ++ l2) = sumRat l1 + sumRat l2 := by
  induction l1 with
  | nil => simp only [List.nil_append, sumRat_nil]; grind
  | cons x xs ih => rw [List.cons_append, sumRat_cons, sumRat_cons, ih]; grind

theorem mdur_nil : melodyDuration [] = 0 := rfl

theorem mdur_cons (n : Note) (ns : List Note) : melodyDuration (n :: ns) = n.dur + melodyDuration ns := by
  unfold melodyDuration; rw [List.map_cons, sumRat_cons]

theorem mdur_append (a b : List Note) : melodyDuration (a ++ b) = melodyDuration a + melodyDuration b := by
  unfold melodyDuration; rw [List.map_append, sumRat_append]

theorem mdur_nonneg (m : List Note) (h : ∀ n ∈ m, 0 ≤ n.dur) : 0 ≤ melodyDuration m := by
  induction m with
  | nil => rw [mdur_nil]; grind
  | cons n ns ih =>
    rw [mdur_cons]
    have h1 := h n (by simp)
    have h2 := ih (fun x hx => h x (by simp [hx]))
    grind

/-- what the window `[a, b)` shows of a note occupying `[o, o + dur)`: nothing when they do not
overlap; the note itself, shortened at `b`, when it starts inside; a continuation from `a`
when it started before -/
def cutNote (n : Note) (o a b : Rat) : Option Note :=
  if b ≤ o then none
  else if o < a then (if o + n.dur ≤ a then none else some (continuation (min (o + n.dur) b - a)))
  else some { n with dur := min n.dur (b - o) }

/-- slice of a melody starting at time `t` through the window `[a, b)`, note by note -/
def cutSpec : List Note → Rat → Rat → Rat → List Note
  | [], _, _, _ => []
  | n :: ns, t, a, b => (cutNote n t a b).toList ++ cutSpec ns (t + n.dur) a b

theorem cutSpec_after (ns : List Note) (t a b : Rat) (h : ∀ n ∈ ns, 0 ≤ n.dur) (hb : b ≤ t) :
    cutSpec ns t a b = [] := by
  induction ns generalizing t with
  | nil => rfl
  | cons n ns ih =>
    have h1 := h n (by simp)
    simp only [cutSpec, cutNote, hb, if_true, Option.toList_none, List.nil_append]
    exact ih (t + n.dur) (fun x hx => h x (by simp [hx])) (by grind)

/-- the loop of `get_melody_between` computes the note-by-note slice (never the error branch) -/
theorem gmbLoop_eq (ns : List Note) (t a b : Rat) (h : ∀ n ∈ ns, 0 ≤ n.dur) (hab : a ≤ b) :
    gmbLoop ns t a b = .ok (cutSpec ns t a b) := by
  induction ns generalizing t with
  | nil => rfl
  | cons n ns ih =>
    have h1 := h n (by simp)
    have hr : ∀ x ∈ ns, 0 ≤ x.dur := fun x hx => h x (by simp [hx])
    unfold gmbLoop
    by_cases c1 : t ≥ b
    · rw [if_pos c1, cutSpec_after _ _ _ _ h c1]
    · rw [if_neg c1]
      by_cases c2 : t < a ∧ t + n.dur ≤ a
      · rw [if_pos c2, ih _ hr]
        have : cutNote n t a b = none := by
          unfold cutNote; rw [if_neg (by grind), if_pos c2.1, if_pos c2.2]
        simp only [cutSpec, this, Option.toList_none, List.nil_append]
      · rw [if_neg c2]
        simp only []
        by_cases c3 : t < a
        · -- head cut
          have hn : ¬ (t + n.dur ≤ a) := by grind
          have hcn : cutNote n t a b = some (continuation (min (t + n.dur) b - a)) := by
            unfold cutNote; rw [if_neg (by grind), if_pos c3, if_neg hn]
          by_cases c4 : t + n.dur ≥ b
          · simp only [c3, c4, if_true]
            rw [if_neg (by grind)]
            simp only [cutSpec, hcn, Option.toList_some]
            rw [cutSpec_after _ _ _ _ hr c4]
            have : b - t - (a - t) = min (t + n.dur) b - a := by grind
            rw [this]; rfl
          · simp only [c3, c4, if_true, if_false]
            rw [if_neg (by grind)]
            have e2 : a + (n.dur - (a - t)) = t + n.dur := by grind
            have e3 : n.dur - (a - t) = min (t + n.dur) b - a := by grind
            rw [e2, e3, ih _ hr]
            simp only [cutSpec, hcn, Option.toList_some]; rfl
        · by_cases c4 : t + n.dur ≥ b
          · have hcn : cutNote n t a b = some { n with dur := b - t } := by
              unfold cutNote; rw [if_neg (by grind), if_neg c3]
              have : min n.dur (b - t) = b - t := by grind
              rw [this]
            simp only [c3, c4, if_true, if_false]
            rw [if_neg (by grind)]
            simp only [cutSpec, hcn, Option.toList_some]
            rw [cutSpec_after _ _ _ _ hr c4]; rfl
          · have hcn : cutNote n t a b = some { n with dur := n.dur } := by
              unfold cutNote; rw [if_neg (by grind), if_neg c3]
              have : min n.dur (b - t) = n.dur := by grind
              rw [this]
            simp only [c3, c4, if_false]
            rw [if_neg (by grind)]
            rw [ih _ hr]
            simp only [cutSpec, hcn, Option.toList_some]; rfl


theorem cutSpec_append (l1 l2 : List Note) (t a b : Rat) :
    cutSpec (l1 ++ l2) t a b = cutSpec l1 t a b ++ cutSpec l2 (t + melodyDuration l1) a b := by
  induction l1 generalizing t with
  | nil => simp only [List.nil_append, cutSpec, mdur_nil]; congr 1; grind
  | cons n ns ih =>
    simp only [List.cons_append, cutSpec, ih, List.append_assoc, mdur_cons]
    congr 3; grind

theorem cutNote_dur (n : Note) (t a b : Rat) (h : 0 ≤ n.dur) (hab : a ≤ b) :
    melodyDuration (cutNote n t a b).toList = max 0 (min b (t + n.dur) - max a t) := by
  unfold cutNote
  by_cases c1 : b ≤ t
  · rw [if_pos c1]; simp only [Option.toList_none, mdur_nil]; grind
  · rw [if_neg c1]
    by_cases c2 : t < a
    · rw [if_pos c2]
      by_cases c3 : t + n.dur ≤ a
      · rw [if_pos c3]; simp only [Option.toList_none, mdur_nil]; grind
      · rw [if_neg c3]; simp only [Option.toList_some, mdur_cons, mdur_nil, continuation]; grind
    · rw [if_neg c2]; simp only [Option.toList_some, mdur_cons, mdur_nil]; grind

/-- a slice lasts as long as the window overlaps the melody -/
theorem cutSpec_dur (ns : List Note) (t a b : Rat) (h : ∀ n ∈ ns, 0 ≤ n.dur) (hab : a ≤ b) :
    melodyDuration (cutSpec ns t a b) = max 0 (min b (t + melodyDuration ns) - max a t) := by
  induction ns generalizing t with
  | nil => simp only [cutSpec, mdur_nil]; grind
  | cons n ns ih =>
    have h1 := h n (by simp)
    have hr : ∀ x ∈ ns, 0 ≤ x.dur := fun x hx => h x (by simp [hx])
    have h2 := mdur_nonneg ns hr
    simp only [cutSpec, mdur_append, mdur_cons, cutNote_dur n t a b h1 hab, ih _ hr]
    grind

theorem cutSpec_nonneg (ns : List Note) (t a b : Rat) (h : ∀ n ∈ ns, 0 ≤ n.dur) (hab : a ≤ b) :
    ∀ x ∈ cutSpec ns t a b, 0 ≤ x.dur := by
  induction ns generalizing t with
  | nil => intro x hx; simp [cutSpec] at hx
  | cons n ns ih =>
    have h1 := h n (by simp)
    have hr : ∀ x ∈ ns, 0 ≤ x.dur := fun x hx => h x (by simp [hx])
    intro x hx
    simp only [cutSpec, List.mem_append] at hx
    rcases hx with hx | hx
    · unfold cutNote at hx
      split at hx
      · simp at hx
      · split at hx
        · split at hx
          · simp at hx
          · simp only [Option.toList_some, List.mem_singleton] at hx; subst hx; simp only [continuation]; grind
        · simp only [Option.toList_some, List.mem_singleton] at hx; subst hx; simp only []; grind
    · exact ih _ hr x hx

/-- a window that covers the whole melody shows it unchanged -/
theorem cutSpec_id (ns : List Note) (t a b : Rat) (h : ∀ n ∈ ns, 0 ≤ n.dur) (ha : a ≤ t)
    (hb : t + melodyDuration ns < b) : cutSpec ns t a b = ns := by
  induction ns generalizing t with
  | nil => rfl
  | cons n ns ih =>
    have h1 := h n (by simp)
    have hr : ∀ x ∈ ns, 0 ≤ x.dur := fun x hx => h x (by simp [hx])
    have h2 := mdur_nonneg ns hr
    rw [mdur_cons] at hb
    have hcn : cutNote n t a b = some n := by
      unfold cutNote
      rw [if_neg (by grind), if_neg (by grind)]
      have : min n.dur (b - t) = n.dur := by grind
      rw [this]
    simp only [cutSpec, hcn, Option.toList_some, List.singleton_append]
    rw [ih (t + n.dur) hr (by grind) (by grind)]



theorem mapM_ok {α β : Type} (f : α → Res β) (g : α → β) (l : List α) (h : ∀ x ∈ l, f x = .ok (g x)) :
    l.mapM f = .ok (l.map g) := by
  induction l with
  | nil => rfl
  | cons x xs ih =>
    rw [List.mapM_cons, h x (by simp), ih (fun y hy => h y (by simp [hy]))]
    rfl

theorem foldl_max_ge (l : List Rat) (d : Rat) : d ≤ l.foldl max d ∧ ∀ x ∈ l, x ≤ l.foldl max d := by
  induction l generalizing d with
  | nil => simp only [List.foldl_nil]; constructor
           · grind
           · intro x hx; simp at hx
  | cons y ys ih =>
    simp only [List.foldl_cons]
    have := ih (max d y)
    constructor
    · grind
    · intro x hx
      simp only [List.mem_cons] at hx
      rcases hx with hx | hx
      · subst hx; grind
      · exact this.2 x hx

theorem foldl_max_const (l : List Rat) (d : Rat) (h : ∀ x ∈ l, x = d) : l.foldl max d = d := by
  induction l with
  | nil => rfl
  | cons y ys ih =>
    simp only [List.foldl_cons]
    have : y = d := h y (by simp)
    have e : max d y = d := by grind
    rw [e]; exact ih (fun x hx => h x (by simp [hx]))

theorem part_le_dur (c : Chord) (p : String × Melody) (hp : p ∈ c.parts) : melodyDuration p.2 ≤ c.dur := by
  unfold Chord.dur
  have hm : melodyDuration p.2 ∈ c.parts.map (fun p => melodyDuration p.2) := List.mem_map.mpr ⟨p, hp, rfl⟩
  generalize c.parts.map (fun p => melodyDuration p.2) = L at hm
  cases L with
  | nil => simp at hm
  | cons d ds =>
    simp only [List.mem_cons] at hm
    have := foldl_max_ge ds d
    rcases hm with hm | hm
    · rw [hm]; exact this.1
    · exact this.2 _ hm

theorem dur_of_equal (c : Chord) (d : Rat) (hne : c.parts ≠ []) (h : ∀ p ∈ c.parts, melodyDuration p.2 = d) :
    c.dur = d := by
  unfold Chord.dur
  have hm : ∀ x ∈ c.parts.map (fun p => melodyDuration p.2), x = d := by
    intro x hx
    obtain ⟨p, hp, rfl⟩ := List.mem_map.mp hx
    exact h p hp
  have hne' : c.parts.map (fun p => melodyDuration p.2) ≠ [] := by simpa using hne
  generalize c.parts.map (fun p => melodyDuration p.2) = L at hm hne'
  cases L with
  | nil => exact absurd rfl hne'
  | cons x xs =>
    have hx : x = d := hm x (by simp)
    subst hx
    exact foldl_max_const xs x (fun y hy => hm y (by simp [hy]))

theorem dur_nonneg (c : Chord) (h : ∀ p ∈ c.parts, ∀ n ∈ p.2, 0 ≤ n.dur) : 0 ≤ c.dur := by
  cases hp : c.parts with
  | nil => unfold Chord.dur; rw [hp]; simp only [List.map_nil]; grind
  | cons p ps =>
    have h1 := part_le_dur c p (by rw [hp]; simp)
    have h2 := mdur_nonneg p.2 (h p (by rw [hp]; simp))
    grind


/-! ### chords and scores -/

/-- non-negative note durations in every part, at least one part -/
def ChordWF (c : Chord) : Prop := c.parts ≠ [] ∧ ∀ p ∈ c.parts, ∀ n ∈ p.2, 0 ≤ n.dur

/-- what the window `[a, b)` (relative to the chord's start) shows of a chord -/
def cutChord (c : Chord) (a b : Rat) : Chord :=
  { c with parts := c.parts.map (fun p => (p.1, cutSpec p.2 0 a b)) }

theorem getChordBetween_eq (c : Chord) (a b : Rat) (h : ChordWF c) (hab : a ≤ b) :
    getChordBetween c a b = .ok (cutChord c a b) := by
  unfold getChordBetween
  have hm : c.parts.mapM (fun p => do
      let m ← getMelodyBetween p.2 a b
      pure (p.1, m)) = .ok (c.parts.map (fun p => (p.1, cutSpec p.2 0 a b))) := by
    apply mapM_ok
    intro p hp
    unfold getMelodyBetween
    rw [gmbLoop_eq _ _ _ _ (h.2 p hp) hab]; rfl
  rw [hm]
  have hne : (c.parts.map (fun p => (p.1, cutSpec p.2 0 a b))).isEmpty = false := by
    cases hp : c.parts with
    | nil => exact absurd hp h.1
    | cons x xs => rfl
  simp only [bind, Except.bind, hne]
  rfl

/-- the chords of a score (first one starting at `u`) that overlap the window `[a, b)`, each cut to it -/
def sliceSpec : List Chord → Rat → Rat → Rat → List Chord
  | [], _, _, _ => []
  | c :: cs, u, a, b =>
      (if u + c.dur ≤ a ∨ b ≤ u then [] else [cutChord c (a - u) (b - u)]) ++ sliceSpec cs (u + c.dur) a b

theorem sliceSpec_after (s : List Chord) (u a b : Rat) (h : ∀ c ∈ s, ChordWF c) (hb : b ≤ u) :
    sliceSpec s u a b = [] := by
  induction s generalizing u with
  | nil => rfl
  | cons c cs ih =>
    have hd := dur_nonneg c (h c (by simp)).2
    simp only [sliceSpec, hb, or_true, if_true, List.nil_append]
    exact ih _ (fun x hx => h x (by simp [hx])) (by grind)

theorem cutChord_id (c : Chord) (a b : Rat) (h : ChordWF c) (ha : a ≤ 0) (hb : c.dur < b) : cutChord c a b = c := by
  unfold cutChord
  have : c.parts.map (fun p => (p.1, cutSpec p.2 0 a b)) = c.parts := by
    conv => rhs; rw [← List.map_id c.parts]
    apply List.map_congr_left
    intro p hp
    have := part_le_dur c p hp
    rw [cutSpec_id p.2 0 a b (h.2 p hp) ha (by grind)]
    rfl
  rw [this]

/-- the loop of `get_score_between` collects exactly the chords overlapping the window, cut to it -/
theorem gsbLoop_eq (s : List Chord) (u a b : Rat) (h : ∀ c ∈ s, ChordWF c) (hab : a ≤ b) :
    gsbLoop s u a b = .ok (sliceSpec s u a b) := by
  induction s generalizing u with
  | nil => rfl
  | cons c cs ih =>
    have hc := h c (by simp)
    have hr : ∀ x ∈ cs, ChordWF x := fun x hx => h x (by simp [hx])
    have hd := dur_nonneg c hc.2
    unfold gsbLoop
    simp only []
    by_cases c1 : u + c.dur ≤ a
    · rw [if_pos c1, ih _ hr]
      simp only [sliceSpec, c1, true_or, if_true, List.nil_append]
    · rw [if_neg c1]
      by_cases c2 : u ≥ b
      · rw [if_pos c2, sliceSpec_after _ _ _ _ h c2]
      · rw [if_neg c2]
        have hno : ¬ (u + c.dur ≤ a ∨ b ≤ u) := by grind
        by_cases c3 : u + c.dur < b ∧ u ≥ a
        · rw [if_pos c3, ih _ hr]
          simp only [sliceSpec, hno, if_false]
          rw [cutChord_id c (a - u) (b - u) hc (by grind) (by grind)]
          rfl
        · rw [if_neg c3, getChordBetween_eq c _ _ hc (by grind), ih _ hr]
          simp only [sliceSpec, hno, if_false]
          rfl


/-! ### the projection loop -/

/-- the chord `project_on_score` builds for the target chord `c2` occupying `[a, b)`: the
target's chord symbol carrying, for every part of the source seen through the window, what
`put_on_same_chord` gathers from the slice -/
def windowChord (src : Score) (c2 : Chord) (a b : Rat) : Chord :=
  { c2 with parts := (instruments (sliceSpec src 0 a b)).map (fun p => (p, gather (sliceSpec src 0 a b) p)) }

/-- one window chord per target chord, until the source is exhausted -/
def projSpec (src : Score) : List Chord → Rat → List Chord
  | [], _ => []
  | c2 :: cs, a =>
      if (sliceSpec src 0 a (a + c2.dur)).isEmpty then []
      else windowChord src c2 a (a + c2.dur) :: projSpec src cs (a + c2.dur)

theorem projLoop_eq (src : Score) (tgt : List Chord) (a : Rat) (hs : ∀ c ∈ src, ChordWF c)
    (ht : ∀ c ∈ tgt, 0 ≤ c.dur) : projLoop src false tgt a = .ok (projSpec src tgt a) := by
  induction tgt generalizing a with
  | nil => rfl
  | cons c2 cs ih =>
    have hd := ht c2 (by simp)
    have hr : ∀ c ∈ cs, 0 ≤ c.dur := fun x hx => ht x (by simp [hx])
    unfold projLoop getScoreBetween
    dsimp only
    rw [gsbLoop_eq src 0 a (a + c2.dur) hs (by grind)]
    simp only [bind, Except.bind, pure, Except.pure]
    cases hsl : sliceSpec src 0 a (a + c2.dur) with
    | nil => simp only [projSpec, hsl, List.isEmpty_nil, if_true]
    | cons x xs =>
      simp only [List.isEmpty_cons, Bool.false_eq_true, if_false, putOnSameChord]
      rw [ih _ hr]
      simp only [projSpec, hsl, List.isEmpty_cons, Bool.false_eq_true, if_false, windowChord]

theorem projectPlain_eq (src tgt : Score) (hs : ∀ c ∈ src, ChordWF c) (ht : ∀ c ∈ tgt, 0 ≤ c.dur) :
    projectPlain src tgt false = .ok (if (projSpec src tgt 0).isEmpty then none else some (projSpec src tgt 0)) := by
  unfold projectPlain
  rw [projLoop_eq src tgt 0 hs ht]; rfl

theorem sdur_nil : scoreDuration [] = 0 := rfl
theorem sdur_cons (c : Chord) (cs : List Chord) : scoreDuration (c :: cs) = c.dur + scoreDuration cs := by
  unfold scoreDuration; rw [List.map_cons, sumRat_cons]
theorem sdur_append (a b : List Chord) : scoreDuration (a ++ b) = scoreDuration a + scoreDuration b := by
  unfold scoreDuration; rw [List.map_append, sumRat_append]
theorem sdur_nonneg (s : List Chord) (h : ∀ c ∈ s, 0 ≤ c.dur) : 0 ≤ scoreDuration s := by
  induction s with
  | nil => rw [sdur_nil]; grind
  | cons c cs ih =>
    rw [sdur_cons]
    have := h c (by simp)
    have := ih (fun x hx => h x (by simp [hx]))
    grind

/-- the property's hypothesis on a chord: it has a part, every note lasts, every part lasts as long as the chord -/
def EqualParts (c : Chord) : Prop :=
  c.parts ≠ [] ∧ (∀ p ∈ c.parts, (∀ n ∈ p.2, 0 < n.dur) ∧ melodyDuration p.2 = c.dur) ∧ 0 < c.dur

theorem EqualParts.wf {c : Chord} (h : EqualParts c) : ChordWF c :=
  ⟨h.1, fun p hp n hn => by have := (h.2.1 p hp).1 n hn; grind⟩

/-- nothing is collected exactly when the window starts at or after the end of the score -/
theorem sliceSpec_nil_iff (s : List Chord) (u a b : Rat) (h : ∀ c ∈ s, 0 < c.dur) (hab : a < b) (hu : u ≤ a) :
    sliceSpec s u a b = [] ↔ u + scoreDuration s ≤ a := by
  induction s generalizing u with
  | nil => simp only [sliceSpec, sdur_nil, true_iff]; grind
  | cons c cs ih =>
    have hd := h c (by simp)
    have hr : ∀ x ∈ cs, 0 < x.dur := fun x hx => h x (by simp [hx])
    have hD := sdur_nonneg cs (fun x hx => by have := hr x hx; grind)
    rw [sdur_cons]
    by_cases c1 : u + c.dur ≤ a
    · simp only [sliceSpec, c1, true_or, if_true, List.nil_append]
      rw [ih _ hr c1]
      constructor <;> intro <;> grind
    · have hno : ¬ (u + c.dur ≤ a ∨ b ≤ u) := by grind
      simp only [sliceSpec, hno, if_false, List.cons_append, List.nil_append]
      constructor
      · intro hh; exact absurd hh (by simp)
      · intro hh; exfalso; grind

theorem cutChord_dur (c : Chord) (a b : Rat) (h : EqualParts c) (hab : a ≤ b) :
    (cutChord c a b).dur = max 0 (min b c.dur - max a 0) := by
  apply dur_of_equal
  · unfold cutChord; simpa using h.1
  · intro p hp
    unfold cutChord at hp
    simp only [List.mem_map] at hp
    obtain ⟨q, hq, rfl⟩ := hp
    have hq' := h.2.1 q hq
    simp only []
    rw [cutSpec_dur q.2 0 a b (fun n hn => by have := hq'.1 n hn; grind) hab, hq'.2]
    congr 2 <;> grind

theorem cutChord_equal (c : Chord) (a b : Rat) (h : EqualParts c) (hab : a ≤ b) :
    ∀ p ∈ (cutChord c a b).parts, melodyDuration p.2 = (cutChord c a b).dur := by
  intro p hp
  rw [cutChord_dur c a b h hab]
  unfold cutChord at hp
  simp only [List.mem_map] at hp
  obtain ⟨q, hq, rfl⟩ := hp
  have hq' := h.2.1 q hq
  simp only []
  rw [cutSpec_dur q.2 0 a b (fun n hn => by have := hq'.1 n hn; grind) hab, hq'.2]
  congr 2 <;> grind

/-- a slice lasts as long as the window overlaps the score -/
theorem sliceSpec_dur (s : List Chord) (u a b : Rat) (h : ∀ c ∈ s, EqualParts c) (hab : a ≤ b) :
    scoreDuration (sliceSpec s u a b) = max 0 (min b (u + scoreDuration s) - max a u) := by
  induction s generalizing u with
  | nil => simp only [sliceSpec, sdur_nil]; grind
  | cons c cs ih =>
    have hc := h c (by simp)
    have hr : ∀ x ∈ cs, EqualParts x := fun x hx => h x (by simp [hx])
    have hD := sdur_nonneg cs (fun x hx => by have := (hr x hx).2.2; grind)
    have hd := hc.2.2
    rw [sdur_cons]
    by_cases c1 : u + c.dur ≤ a ∨ b ≤ u
    · simp only [sliceSpec, c1, if_true, List.nil_append]
      rw [ih _ hr]; grind
    · simp only [sliceSpec, c1, if_false, List.cons_append, List.nil_append]
      rw [sdur_cons, ih _ hr, cutChord_dur c _ _ hc (by grind)]
      grind

/-- every chord of a slice is again a chord whose parts all last as long as the chord -/
theorem sliceSpec_equal (s : List Chord) (u a b : Rat) (h : ∀ c ∈ s, EqualParts c) (hab : a ≤ b) :
    ∀ c ∈ sliceSpec s u a b, c.parts ≠ [] ∧ ∀ p ∈ c.parts, melodyDuration p.2 = c.dur := by
  induction s generalizing u with
  | nil => intro c hc; simp [sliceSpec] at hc
  | cons c cs ih =>
    have hc := h c (by simp)
    have hr : ∀ x ∈ cs, EqualParts x := fun x hx => h x (by simp [hx])
    intro x hx
    simp only [sliceSpec, List.mem_append] at hx
    rcases hx with hx | hx
    · split at hx
      · simp at hx
      · simp only [List.mem_singleton] at hx
        subst hx
        exact ⟨by unfold cutChord; simpa using hc.1, cutChord_equal c _ _ hc (by grind)⟩
    · exact ih _ hr x hx


theorem silence_dur (d : Rat) : melodyDuration [silence d] = d := by
  rw [mdur_cons, mdur_nil]; simp only [silence]; grind

/-- what `put_on_same_chord` gathers for a part lasts as long as the score, when every present
part lasts as long as its chord -/
theorem gather_dur (s : List Chord) (p : String)
    (h : ∀ c ∈ s, ∀ q ∈ c.parts, melodyDuration q.2 = c.dur) : melodyDuration (gather s p) = scoreDuration s := by
  induction s with
  | nil => rfl
  | cons c cs ih =>
    have hr := ih (fun x hx => h x (by simp [hx]))
    unfold gather at *
    rw [List.flatMap_cons, mdur_append, hr, sdur_cons]
    congr 1
    cases hl : c.parts.lookup p with
    | none => exact silence_dur c.dur
    | some m =>
      have hmem : (p, m) ∈ c.parts := by
        have := List.lookup_eq_some_iff.mp hl
        obtain ⟨l1, l2, e, _⟩ := this
        rw [e]; simp
      exact h c (by simp) (p, m) hmem

theorem instruments_ne_nil (s : List Chord) (c : Chord) (cs : List Chord) (hs : s = c :: cs) (hc : c.parts ≠ []) :
    instruments s ≠ [] := by
  subst hs
  unfold instruments
  cases hp : c.parts with
  | nil => exact absurd hp hc
  | cons x xs =>
    simp only [List.flatMap_cons, hp, List.map_cons, List.cons_append]
    rw [List.eraseDups_cons]; simp

/-- the chord built for a window that starts before the end of the source: all its parts last
exactly as long as window and source overlap -/
theorem windowChord_dur (src : Score) (c2 : Chord) (a b : Rat) (hs : ∀ c ∈ src, EqualParts c)
    (ha : 0 ≤ a) (hab : a < b) (hD : a < scoreDuration src) :
    (windowChord src c2 a b).parts ≠ [] ∧
    (∀ p ∈ (windowChord src c2 a b).parts, melodyDuration p.2 = min b (scoreDuration src) - a) ∧
    (windowChord src c2 a b).dur = min b (scoreDuration src) - a := by
  have heq := sliceSpec_equal src 0 a b hs (by grind)
  have hdur := sliceSpec_dur src 0 a b hs (by grind)
  have hpos : ∀ c ∈ src, 0 < c.dur := fun c hc => (hs c hc).2.2
  have hne : sliceSpec src 0 a b ≠ [] := by
    intro hh
    have := (sliceSpec_nil_iff src 0 a b hpos hab ha).mp hh
    grind
  have hval : scoreDuration (sliceSpec src 0 a b) = min b (scoreDuration src) - a := by rw [hdur]; grind
  have hparts : ∀ p ∈ (windowChord src c2 a b).parts, melodyDuration p.2 = min b (scoreDuration src) - a := by
    intro p hp
    unfold windowChord at hp
    simp only [List.mem_map] at hp
    obtain ⟨q, _, rfl⟩ := hp
    simp only []
    rw [gather_dur _ q (fun c hc => (heq c hc).2), hval]
  have hne2 : (windowChord src c2 a b).parts ≠ [] := by
    unfold windowChord
    simp only [ne_eq, List.map_eq_nil_iff]
    cases hsl : sliceSpec src 0 a b with
    | nil => exact absurd hsl hne
    | cons x xs => exact instruments_ne_nil _ x xs rfl (heq x (by rw [hsl]; simp)).1
  exact ⟨hne2, hparts, dur_of_equal _ _ hne2 hparts⟩

/-- total duration of the projection loop started at `a` -/
theorem projSpec_dur (src : Score) (tgt : List Chord) (a : Rat) (hs : ∀ c ∈ src, EqualParts c)
    (ht : ∀ c ∈ tgt, 0 < c.dur) (ha : 0 ≤ a) :
    scoreDuration (projSpec src tgt a) = max 0 (min (scoreDuration src) (a + scoreDuration tgt) - a) := by
  have hpos : ∀ c ∈ src, 0 < c.dur := fun c hc => (hs c hc).2.2
  induction tgt generalizing a with
  | nil => simp only [projSpec, sdur_nil]; grind
  | cons c2 cs ih =>
    have hd := ht c2 (by simp)
    have hr : ∀ c ∈ cs, 0 < c.dur := fun x hx => ht x (by simp [hx])
    have hT := sdur_nonneg cs (fun x hx => by have := hr x hx; grind)
    rw [sdur_cons]
    by_cases c1 : a < scoreDuration src
    · have hne : sliceSpec src 0 a (a + c2.dur) ≠ [] := by
        intro hh
        have := (sliceSpec_nil_iff src 0 a (a + c2.dur) hpos (by grind) ha).mp hh
        grind
      have hemp : (sliceSpec src 0 a (a + c2.dur)).isEmpty = false := by
        cases hsl : sliceSpec src 0 a (a + c2.dur) with
        | nil => exact absurd hsl hne
        | cons x xs => rfl
      simp only [projSpec, hemp, Bool.false_eq_true, if_false]
      rw [sdur_cons, ih _ hr (by grind), (windowChord_dur src c2 a (a + c2.dur) hs ha (by grind) c1).2.2]
      grind
    · have he : sliceSpec src 0 a (a + c2.dur) = [] :=
        (sliceSpec_nil_iff src 0 a (a + c2.dur) hpos (by grind) ha).mpr (by grind)
      simp only [projSpec, he, List.isEmpty_nil, if_true, sdur_nil]
      grind

/-- the chord symbol: degree, figured bass, tonality, octave -/
def header (c : Chord) : Int × Ext × Tonality × Int := (c.elem, c.ext, c.ton, c.oct)

/-- number of leading target chords (first one starting at `a`) that start before `D` -/
def startsBefore : List Chord → Rat → Rat → Nat
  | [], _, _ => 0
  | c :: cs, a, D => if a < D then startsBefore cs (a + c.dur) D + 1 else 0

theorem projSpec_headers (src : Score) (tgt : List Chord) (a : Rat) (hs : ∀ c ∈ src, 0 < c.dur)
    (ht : ∀ c ∈ tgt, 0 < c.dur) (ha : 0 ≤ a) :
    (projSpec src tgt a).length = startsBefore tgt a (scoreDuration src) ∧
    (projSpec src tgt a).map header = (tgt.take (projSpec src tgt a).length).map header := by
  induction tgt generalizing a with
  | nil => simp [projSpec, startsBefore]
  | cons c2 cs ih =>
    have hd := ht c2 (by simp)
    have hr : ∀ c ∈ cs, 0 < c.dur := fun x hx => ht x (by simp [hx])
    by_cases c1 : a < scoreDuration src
    · have hne : sliceSpec src 0 a (a + c2.dur) ≠ [] := by
        intro hh
        have := (sliceSpec_nil_iff src 0 a (a + c2.dur) hs (by grind) ha).mp hh
        grind
      have hemp : (sliceSpec src 0 a (a + c2.dur)).isEmpty = false := by
        cases hsl : sliceSpec src 0 a (a + c2.dur) with
        | nil => exact absurd hsl hne
        | cons x xs => rfl
      have := ih (a + c2.dur) hr (by grind)
      simp only [projSpec, hemp, Bool.false_eq_true, if_false, startsBefore, c1, if_true, List.length_cons,
        List.map_cons, List.take_succ_cons, this.1]
      refine ⟨trivial, ?_⟩
      rw [← this.1, ← this.2]
      rfl
    · have he : sliceSpec src 0 a (a + c2.dur) = [] :=
        (sliceSpec_nil_iff src 0 a (a + c2.dur) hs (by grind) ha).mpr (by grind)
      simp [projSpec, he, startsBefore, c1]

end MV.Proj
