/-
C14 importer lemmas 7/15 — one voice over the whole piece: notes begun before a bar line, notes of a bar, the pending tie; step lemmas `pending_step`, `events_step`, `voice_barOK`.
-/
import MV.Lemmas.ImportPlay
namespace MV
open Gen

/-! ### one voice over the whole piece: the notes begun before a bar line, those of a bar, the pending tie -/

def before (T : Rat) (I : List Item) : List Item := I.filter (fun n => decide (n.start < T))

def inBar (T T' : Rat) (I : List Item) : List Item :=
  I.filter (fun n => decide (T ≤ n.start) && decide (n.start < T'))

/-- what is still to come at `T` of the latest note begun before `T` -/
def pendingAt (T : Rat) (I : List Item) : Option Rat :=
  match (before T I).getLast? with
  | some n => if T < n.stop then some (n.stop - T) else none
  | none => none

theorem chain_head {s t : Rat} {L : List Item} (h : Chain t L) (hs : ∀ n ∈ L, s ≤ n.start) : Chain s L := by
  cases L with
  | nil => trivial
  | cons n r => exact ⟨hs n (List.mem_cons_self ..), h.2.1, h.2.2⟩

theorem chain_append : ∀ (A B : List Item) (t : Rat), Chain t (A ++ B) ↔ Chain t A ∧ Chain (endOf t A) B := by
  intro A
  induction A with
  | nil => intro B t; simp [Chain, endOf]
  | cons n r ih =>
      intro B t
      simp only [List.cons_append, Chain, endOf, ih]
      constructor
      · rintro ⟨a, b, c, d⟩; exact ⟨⟨a, b, c⟩, d⟩
      · rintro ⟨⟨a, b, c⟩, d⟩; exact ⟨a, b, c, d⟩

theorem endOf_append : ∀ (A B : List Item) (t : Rat), endOf t (A ++ B) = endOf (endOf t A) B := by
  intro A
  induction A with
  | nil => intro B t; rfl
  | cons n r ih => intro B t; simp only [List.cons_append, endOf, ih]

theorem endOf_snoc (A : List Item) (x : Item) (t : Rat) : endOf t (A ++ [x]) = x.stop := by
  rw [endOf_append]; rfl

theorem chain_filter_ge : ∀ (L : List Item) (t T : Rat), Chain t L → T ≤ t →
    L.filter (fun n => decide (n.start < T)) = [] ∧ L.filter (fun n => decide (T ≤ n.start)) = L := by
  intro L
  induction L with
  | nil => intro t T _ _; exact ⟨rfl, rfl⟩
  | cons n r ih =>
      intro t T ⟨h1, h2, h3⟩ hT
      obtain ⟨a, b⟩ := ih n.stop T h3 (by grind)
      have e1 : decide (n.start < T) = false := by simp; grind
      have e2 : decide (T ≤ n.start) = true := by simp; grind
      simp only [List.filter_cons, e1, e2, a, b]
      exact ⟨by simp, by simp⟩

/-- a monophonic run is sorted: the notes begun before `T` come first -/
theorem chain_split : ∀ (I : List Item) (t T : Rat), Chain t I →
    before T I ++ I.filter (fun n => decide (T ≤ n.start)) = I := by
  intro I
  induction I with
  | nil => intro t T _; rfl
  | cons n r ih =>
      intro t T ⟨h1, h2, h3⟩
      unfold before
      by_cases hlt : n.start < T
      · have e2 : decide (T ≤ n.start) = false := by simp; grind
        simp only [List.filter_cons, hlt, decide_true, if_true, e2]
        have := ih n.stop T h3
        unfold before at this
        simp [this]
      · have e2 : decide (T ≤ n.start) = true := by simp; grind
        obtain ⟨a, b⟩ := chain_filter_ge r n.stop T h3 (by grind)
        simp only [List.filter_cons, hlt, decide_false, e2, a, b]
        simp

theorem before_split : ∀ (I : List Item) (t T T' : Rat), Chain t I → T ≤ T' →
    before T' I = before T I ++ inBar T T' I := by
  intro I
  induction I with
  | nil => intro t T T' _ _; rfl
  | cons n r ih =>
      intro t T T' ⟨h1, h2, h3⟩ hTT
      have ihr := ih n.stop T T' h3 hTT
      unfold before inBar at ihr ⊢
      by_cases hlt : n.start < T
      · have e1 : decide (n.start < T') = true := by simp; grind
        have e2 : decide (T ≤ n.start) = false := by simp; grind
        simp only [List.filter_cons, hlt, decide_true, e1, e2, Bool.false_and, if_true]
        simp [ihr]
      · have e2 : decide (T ≤ n.start) = true := by simp; grind
        by_cases hlt' : n.start < T'
        · obtain ⟨a, _⟩ := chain_filter_ge r n.stop T h3 (by grind)
          rw [a] at ihr
          simp only [List.filter_cons, hlt, decide_false, e2, hlt', decide_true, Bool.and_self, if_true, a]
          simp [ihr]
        · simp only [List.filter_cons, hlt, decide_false, e2, hlt', Bool.and_false]
          simpa using ihr

end MV

namespace MV
open Gen

theorem snoc_cases (A : List Item) : A = [] ∨ ∃ A' x, A = A' ++ [x] := by
  rcases List.eq_nil_or_concat A with h | ⟨l, b, h⟩
  · exact Or.inl h
  · exact Or.inr ⟨l, b, by simpa using h⟩

/-- the pending tie read off a list of notes already begun -/
def pend (A : List Item) (T : Rat) : Option Rat :=
  match A.getLast? with
  | some n => if T < n.stop then some (n.stop - T) else none
  | none => none

theorem pendingAt_eq (T : Rat) (I : List Item) : pendingAt T I = pend (before T I) T := rfl

theorem chain_order : ∀ (I : List Item) (t : Rat), Chain t I → ∀ x ∈ I, ∀ n ∈ I, x.start < n.start → x.stop ≤ n.start := by
  intro I
  induction I with
  | nil => intro t _ x hx; cases hx
  | cons m r ih =>
      intro t ⟨h1, h2, h3⟩ x hx n hn hlt
      rcases List.mem_cons.mp hx with hxm | hxr
      · rcases List.mem_cons.mp hn with hnm | hnr
        · rw [hxm, hnm] at hlt; exact absurd hlt (Rat.lt_irrefl)
        · rw [hxm]; exact (chain_mem r _ h3 n hnr).1
      · rcases List.mem_cons.mp hn with hnm | hnr
        · have := (chain_mem r _ h3 x hxr).1; rw [hnm] at hlt ⊢; grind
        · exact ih _ h3 x hxr n hnr hlt

theorem chain_filter (p : Item → Bool) : ∀ (I : List Item) (t s : Rat), Chain t I → (∀ n ∈ I.filter p, s ≤ n.start) →
    Chain s (I.filter p) := by
  intro I
  induction I with
  | nil => intro t s _ _; trivial
  | cons m r ih =>
      intro t s ⟨h1, h2, h3⟩ hs
      by_cases hp : p m = true
      · simp only [List.filter_cons, hp, if_true] at hs ⊢
        refine ⟨hs m (List.mem_cons_self ..), h2, ih _ _ h3 ?_⟩
        intro n hn
        exact (chain_mem r _ h3 n (List.mem_filter.mp hn).1).1
      · simp only [List.filter_cons, hp, Bool.false_eq_true, if_false] at hs ⊢
        exact ih _ _ h3 hs

theorem mem_before {T : Rat} {I : List Item} {n : Item} : n ∈ before T I ↔ n ∈ I ∧ n.start < T := by
  unfold before; simp [List.mem_filter]

theorem mem_inBar {T T' : Rat} {I : List Item} {n : Item} : n ∈ inBar T T' I ↔ n ∈ I ∧ T ≤ n.start ∧ n.start < T' := by
  unfold inBar; simp [List.mem_filter]

theorem pend_pos (A : List Item) (T d : Rat) (h : pend A T = some d) : 0 < d := by
  unfold pend at h
  cases hl : A.getLast? with
  | none => simp [hl] at h
  | some x =>
      simp only [hl] at h
      by_cases hx : T < x.stop
      · simp only [hx, if_true, Option.some.injEq] at h; grind
      · simp [hx] at h

/-- the pending tie comes from the latest note begun before `T` -/
theorem pend_some (A : List Item) (T d : Rat) (h : pend A T = some d) :
    ∃ A' x, A = A' ++ [x] ∧ T < x.stop ∧ d = x.stop - T := by
  rcases snoc_cases A with rfl | ⟨A', x, rfl⟩
  · simp [pend] at h
  · unfold pend at h
    simp only [List.getLast?_concat] at h
    by_cases hx : T < x.stop
    · simp only [hx, if_true, Option.some.injEq] at h; exact ⟨A', x, rfl, hx, h.symm⟩
    · simp [hx] at h

/-- hypotheses on one voice: monophonic from time 0 on, all its times in the fine set -/
structure VoiceOK (Tset : List Rat) (I : List Item) : Prop where
  chain : Chain 0 I
  mem : ∀ n ∈ I, n.start ∈ Tset ∧ n.stop ∈ Tset

theorem voice_barOK {Tset : List Rat} {I : List Item} (hv : VoiceOK Tset I) (hf : FineSet Tset) (T T' : Rat)
    (hTT : T < T') (hT : T ∈ Tset) (hT' : T' ∈ Tset) :
    BarOK Tset T T' (pendingAt T I) (inBar T T' I) := by
  have hsub : ∀ n ∈ inBar T T' I, n ∈ I := fun n hn => (mem_inBar.mp hn).1
  have hstart : ∀ n ∈ inBar T T' I, contStart T (pendingAt T I) ≤ n.start := by
    intro n hn
    obtain ⟨hnI, hn1, _⟩ := mem_inBar.mp hn
    cases hp : pendingAt T I with
    | none => exact hn1
    | some d =>
        rw [pendingAt_eq] at hp
        obtain ⟨A', x, hA, hx, hd⟩ := pend_some _ _ _ hp
        have hxb : x ∈ before T I := by rw [hA]; simp
        obtain ⟨hxI, hxs⟩ := mem_before.mp hxb
        have := chain_order I 0 hv.chain x hxI n hnI (by grind)
        simp only [contStart]; grind
  refine ⟨hf, hTT, hT, hT', ?_, fun n hn => hv.mem n (hsub n hn), ?_, ?_, fun n hn => (mem_inBar.mp hn).2.2⟩
  · cases hp : pendingAt T I with
    | none => exact hT
    | some d =>
        rw [pendingAt_eq] at hp
        obtain ⟨A', x, hA, hx, hd⟩ := pend_some _ _ _ hp
        have hxb : x ∈ before T I := by rw [hA]; simp
        have := (hv.mem x (mem_before.mp hxb).1).2
        have e : contStart T (some d) = x.stop := by simp only [contStart]; grind
        rw [e]; exact this
  · intro d hd; rw [pendingAt_eq] at hd; exact pend_pos _ _ _ hd
  · exact chain_filter _ I 0 _ hv.chain hstart

end MV

namespace MV
open Gen

theorem endOf_last (ns' : List Item) (y : Item) (t : Rat) : endOf t (ns' ++ [y]) = y.stop := endOf_snoc ns' y t

/-- the tie left at the bar line is the pending tie of the next bar -/
theorem pending_step {Tset : List Rat} {I : List Item} (hv : VoiceOK Tset I) (T T' : Rat) (hTT : T < T') :
    barPending (endOf (contStart T (pendingAt T I)) (inBar T T' I)) T' = (pendingAt T' I).map contNote := by
  rw [pendingAt_eq T', before_split I 0 T T' hv.chain (by grind)]
  rcases snoc_cases (inBar T T' I) with hns | ⟨ns', y, hns⟩
  · rw [hns, List.append_nil]
    simp only [endOf]
    rw [pendingAt_eq]
    rcases snoc_cases (before T I) with hA | ⟨A', x, hA⟩
    · simp only [hA, pend, List.getLast?_nil, contStart, barPending]
      have : ¬ (T' < T) := by grind
      simp [this]
    · simp only [hA, pend, List.getLast?_concat]
      by_cases hx : T < x.stop
      · simp only [hx, if_true, contStart, barPending]
        by_cases hx' : T' < x.stop
        · have h1 : T' < T + (x.stop - T) := by grind
          have e : T + (x.stop - T) - T' = x.stop - T' := by grind
          simp only [h1, hx', if_true, Option.map_some, e]
        · have h1 : ¬ (T' < T + (x.stop - T)) := by grind
          simp only [h1, hx', if_false, Option.map_none]
      · have hx' : ¬ (T' < x.stop) := by grind
        have h1 : ¬ (T' < T) := by grind
        simp only [hx, if_false, contStart, barPending, h1, hx', Option.map_none]
  · rw [hns, endOf_last, ← List.append_assoc]
    simp only [pend, List.getLast?_concat, barPending]
    by_cases hy : T' < y.stop
    · simp only [hy, if_true, Option.map_some]
    · simp only [hy, if_false, Option.map_none]

theorem evOf_same (T T' : Rat) (n : Item) (h1 : n.stop ≤ T) (h2 : n.stop ≤ T') : evOf T' n = evOf T n := by
  unfold evOf
  have : min n.stop T' = n.stop := by grind
  have : min n.stop T = n.stop := by grind
  simp [*]

/-- reading the pending tie turns the events cut at `T` into the events cut at `T'` -/
theorem evs_extend (A : List Item) (t T T' : Rat) (hc : Chain t A) (hA : ∀ n ∈ A, n.start < T) (hTT : T ≤ T') :
    (A.map (evOf T')).reverse = afterTie T T' (pend A T) ((A.map (evOf T)).reverse) := by
  rcases snoc_cases A with rfl | ⟨A', x, rfl⟩
  · simp [pend, afterTie]
  · have hx := hA x (by simp)
    obtain ⟨hcA, hcx⟩ := (chain_append A' [x] t).mp hc
    have hpre : ∀ n ∈ A', n.stop ≤ T ∧ n.stop ≤ T' := by
      intro n hn
      have := (chain_mem A' t hcA n hn).2.2
      have := hcx.1
      grind
    have hmap : A'.map (evOf T') = A'.map (evOf T) := by
      apply List.map_congr_left
      intro n hn; exact evOf_same T T' n (hpre n hn).1 (hpre n hn).2
    simp only [List.map_append, List.map_cons, List.map_nil, List.reverse_append, List.reverse_cons, List.reverse_nil,
      List.nil_append, List.singleton_append, hmap, pend, List.getLast?_concat]
    by_cases hp : T < x.stop
    · simp only [hp, if_true, afterTie, extendHead]
      congr 1
      unfold evOf
      simp only [Ev.mk.injEq, true_and]
      grind
    · simp only [hp, if_false, afterTie]
      congr 1
      exact evOf_same T T' x (by grind) (by grind)

theorem events_step {Tset : List Rat} {I : List Item} (hv : VoiceOK Tset I) (T T' : Rat) (hTT : T ≤ T') :
    ((before T' I).map (evOf T')).reverse
      = ((inBar T T' I).map (evOf T')).reverse ++ afterTie T T' (pendingAt T I) ((before T I).map (evOf T)).reverse := by
  rw [before_split I 0 T T' hv.chain hTT, List.map_append, List.reverse_append, pendingAt_eq]
  congr 1
  have hcA : Chain 0 (before T I) := by
    have := chain_split I 0 T hv.chain
    rw [← this] at hv
    exact ((chain_append _ _ 0).mp hv.chain).1
  exact evs_extend _ 0 T T' hcA (fun n hn => (mem_before.mp hn).2) hTT

end MV
