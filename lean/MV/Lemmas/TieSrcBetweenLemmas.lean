/-
Helper lemmas for the source tie of group `SrcBetween` (`MV/Props/TieSrcBetween.lean`, DESIGN.md §9.6):
 * `Fraction.limit_denominator` is idempotent (`lim_lim`), hence copies of copies are copies and everything the slicer
   puts into `new_score` is its own copy (`Stable`): this is what makes the repeated `self.copy()` of `Score.__add__`
   invisible;
 * Python dict operations on association lists: a dict prepared with `None` values and filled key by key (`dict_fill`);
 * folds with a "break executed" flag against the model's structural recursion.
-/
import MV.Gen.SrcBetween
import MV.Lemmas.PyBetweenLemmas
import MV.Lemmas.TieDurLemmas
import MV.Props.TieSlice
import MV.Props.TieDur

set_option linter.unusedSimpArgs false

namespace MV.Tie
open MV.PyB

/-! ### `Fraction.limit_denominator` is idempotent: the result already has a denominator within the bound -/

theorem limitLoop_le (M : Int) : ∀ (fuel : Nat) (p0 q0 p1 q1 n d : Int), q0 ≤ M → q1 ≤ M →
    (limitLoop M fuel p0 q0 p1 q1 n d).2.1 ≤ M ∧ (limitLoop M fuel p0 q0 p1 q1 n d).2.2.2.1 ≤ M := by
  intro fuel
  induction fuel with
  | zero => intro p0 q0 p1 q1 n d h0 h1; exact ⟨h0, h1⟩
  | succ f ih =>
      intro p0 q0 p1 q1 n d h0 h1
      unfold limitLoop
      simp only
      split
      · exact ⟨h0, h1⟩
      · exact ih _ _ _ _ _ _ h1 (by omega)

theorem den_mkRat_le (n : Int) (d : Nat) (M : Nat) (hM : 1 ≤ M) (hd : d ≤ M) : (mkRat n d).den ≤ M := by
  rw [Rat.den_mkRat]
  split
  · exact hM
  · exact Nat.le_trans (Nat.div_le_self _ _) hd

theorem limitDenominator_den_le (mx : Nat) (x : Rat) (hM : 1 ≤ mx) : (limitDenominator x mx).den ≤ mx := by
  unfold limitDenominator
  split
  · assumption
  · obtain ⟨h0, h1⟩ := limitLoop_le (mx : Int) (x.den + 2) 0 1 1 0 x.num x.den (by omega) (by omega)
    generalize limitLoop (mx : Int) (x.den + 2) 0 1 1 0 x.num x.den = r at h0 h1
    obtain ⟨p0, q0, p1, q1, d⟩ := r
    simp only at h0 h1 ⊢
    split
    · exact den_mkRat_le _ _ _ hM (by omega)
    · apply den_mkRat_le _ _ _ hM
      have hk : ((mx : Int) - q0) / q1 * q1 ≤ (mx : Int) - q0 := by
        by_cases hq : q1 = 0
        · subst hq; simp; omega
        · exact Int.ediv_mul_le _ hq
      omega

theorem lim_lim (q : Rat) : lim (lim q) = lim q := by
  have h : (lim q).den ≤ Gen.LIMIT_DENOM := limitDenominator_den_le Gen.LIMIT_DENOM q (by decide)
  show limitDenominator (lim q) Gen.LIMIT_DENOM = lim q
  unfold limitDenominator
  rw [if_pos h]

theorem limNote_limNote (n : Note) : limNote (limNote n) = limNote n := by
  unfold limNote; simp only [lim_lim]

theorem copyMelody_idem (m : Melody) : copyMelody (copyMelody m) = copyMelody m := by
  unfold copyMelody; rw [List.map_map]; apply List.map_congr_left; intro n _; exact limNote_limNote n

theorem copyChord_idem (c : Chord) : copyChord (copyChord c) = copyChord c := by
  unfold copyChord; simp only [List.map_map]
  congr 1
  apply List.map_congr_left; intro p _
  simp only [Function.comp, copyMelody_idem]


/-! ### chords that a copy leaves unchanged (every duration already rounded) -/

/-- every duration of the melody is a fixed point of the rounding of `Note.__init__` -/
def MelStable (m : Melody) : Prop := ∀ n ∈ m, lim n.dur = n.dur

theorem copyMelody_of_stable {m : Melody} (h : MelStable m) : copyMelody m = m := by
  unfold copyMelody
  have : m.map limNote = m.map id := by
    apply List.map_congr_left
    intro n hn
    unfold limNote; rw [h n hn]; rfl
  rw [this, List.map_id]

theorem copyMelody_stable (m : Melody) : MelStable (copyMelody m) := by
  intro n hn
  unfold copyMelody at hn
  obtain ⟨n0, _, rfl⟩ := List.mem_map.mp hn
  exact lim_lim n0.dur

theorem convertToDrumNote_dur (c : Chord) (n n' : Note) (h : convertToDrumNote c n = .ok n') : n'.dur = n.dur := by
  unfold convertToDrumNote at h
  split at h
  · cases h; rfl
  · cases hp : c.toPitch n none with
    | error e => rw [hp] at h; cases h
    | ok o =>
      rw [hp] at h
      cases o with
      | none => cases h
      | some p => cases h; rfl

theorem preparsePart_stable (c : Chord) (p r : String × Melody) (h : preparsePart c p = .ok r) : MelStable r.2 := by
  unfold preparsePart at h
  simp only at h
  split at h
  · split at h
    · cases h
    · cases hm : (copyMelody p.2).mapM (convertToDrumNote c) with
      | error e => rw [hm] at h; cases h
      | ok m =>
        rw [hm] at h
        cases h
        intro n hn
        obtain ⟨x, hx, hfx⟩ := mapM_mem _ _ _ hm n hn
        rw [convertToDrumNote_dur c x n hfx]
        exact copyMelody_stable p.2 x hx
  · cases h; exact copyMelody_stable p.2

/-- the chord is its own copy -/
def Stable (c : Chord) : Prop := copyChord c = c

theorem stable_of_parts {c : Chord} (h : ∀ p ∈ c.parts, MelStable p.2) : Stable c := by
  unfold Stable copyChord
  have : c.parts.map (fun p => (p.1, copyMelody p.2)) = c.parts.map id := by
    apply List.map_congr_left
    intro p hp
    rw [copyMelody_of_stable (h p hp)]; rfl
  rw [this, List.map_id]

theorem copyChord_stable (c : Chord) : Stable (copyChord c) := copyChord_idem c

theorem call_stable (c : Chord) (parts : List (String × Melody)) (r : Chord) (h : c.call parts = .ok r) : Stable r := by
  unfold Chord.call at h
  cases hp : parts.mapM (preparsePart c) with
  | error e => rw [hp] at h; cases h
  | ok ps =>
    rw [hp] at h
    cases h
    apply stable_of_parts
    intro q hq
    obtain ⟨x, _, hfx⟩ := mapM_mem _ _ _ hp q hq
    exact preparsePart_stable c x q hfx

theorem getChordBetween_stable (c : Chord) (a b : Rat) (cm : Bool) (r : Chord) (h : getChordBetween c a b cm = .ok r) :
    Stable r := by
  unfold getChordBetween at h
  cases hp : c.parts.mapM (chordBetweenPart a b cm) with
  | error e => rw [hp] at h; cases h
  | ok ps =>
    rw [hp] at h
    simp only [bind, Except.bind] at h
    split at h <;> exact call_stable _ _ _ h


/-! ### `get_chord_between` -/

/-- one iteration of the loop of `get_chord_between`, on the part itself instead of its name -/
def gcbStep (start stop : Rat) (cm : Bool) (d : List (String × Option Melody)) (p : String × Melody) :
    Res (List (String × Option Melody)) := do
  let r ← chordBetweenPart start stop cm p
  pure (dictSet d p.1 (some r.2))

theorem chordBetweenPart_key (start stop : Rat) (cm : Bool) (p r : String × Melody)
    (h : chordBetweenPart start stop cm p = .ok r) : r.1 = p.1 := by
  unfold chordBetweenPart at h
  cases hm : getMelodyBetween p.2 start stop false with
  | error e => rw [hm] at h; cases h
  | ok v =>
    rw [hm] at h
    simp only [bind, Except.bind, pure, Except.pure] at h
    repeat' split at h
    all_goals first | (cases h; rfl) | cases h

theorem callOpt_some (c : Chord) (rs : List (String × Melody)) :
    Src.callOpt c (rs.map (fun r => (r.1, some r.2))) = c.call rs := by
  unfold Src.callOpt Chord.call
  rw [List.mapM_map]
  rfl

theorem get_chord_between_eq (c : Chord) (start stop : Rat) (cm : Bool) (h : (c.parts.map (·.1)).Nodup) :
    Src.get_chord_between c start stop cm = getChordBetween c start stop cm := by
  unfold Src.get_chord_between
  simp only []
  rw [List.foldlM_map]
  have hinit := dict_init (c.parts.map (·.1)) [] (by simpa using h)
  simp only [List.nil_append, List.map_map] at hinit
  rw [hinit]
  rw [foldlM_congr_mem c.parts _ (gcbStep start stop cm)]
  · have hfill := dict_fill (chordBetweenPart start stop cm) (chordBetweenPart_key start stop cm) c.parts []
      (by simpa using h)
    simp only [List.map_nil, List.nil_append] at hfill
    have e0 : List.map ((fun k => (k, (none : Option Melody))) ∘ fun (x : String × Melody) => x.fst) c.parts
        = c.parts.map (fun p => (p.1, none)) := rfl
    rw [e0]
    unfold gcbStep
    rw [hfill]
    unfold getChordBetween
    cases c.parts.mapM (chordBetweenPart start stop cm) with
    | error e => rfl
    | ok rs =>
      cases rs with
      | nil => rfl
      | cons r rs =>
        have hne : ¬ (Py.len (List.map (fun p => p.fst) (List.map (fun r => (r.fst, some r.snd)) (r :: rs))) = 0) := by
          simp [Py.len]; omega
        simp only [bind, Except.bind, pure, Except.pure, decide_eq_true_eq, hne, if_false, List.isEmpty_cons]
        exact callOpt_some c (r :: rs)
  · intro d p hp
    rw [lookup_of_mem c.parts h p hp]
    show (do let t_3 ← Src.get_melody_between p.2 start stop; _) = _
    rw [getMelodyBetween_src]
    unfold gcbStep chordBetweenPart
    cases getMelodyBetween p.2 start stop false with
    | error e => rfl
    | ok v =>
      simp only [bind, Except.bind, pure, Except.pure, melodyDuration_src]
      cases cm
      · simp
      · by_cases h1 : melodyDuration v < stop - start
        · by_cases h2 : melodyDuration (v ++ [silence (stop - start - melodyDuration v)]) = stop - start <;> simp [h1, h2] <;> rfl
        · by_cases h2 : melodyDuration v = stop - start <;> simp [h1, h2] <;> rfl

/-! ### `get_score_between` -/

/-- one iteration of the loop of `get_score_between`; the state is (`break` executed, `time`, `new_score`) -/
def gsbStep (s : Score) (a b : Rat) (st : Bool × Rat × Option Score) (c : Chord) : Res (Bool × Rat × Option Score) :=
  if st.1 then pure st
  else do
    let d ← Src.Chord_duration c
    if st.2.1 + d ≤ a then pure (false, st.2.1 + d, st.2.2)
    else if st.2.1 ≥ b then pure (true, st.2.1, st.2.2)
    else if st.2.1 + d < b ∧ st.2.1 ≥ a then pure (false, st.2.1 + d, some (Src.scoreAddChord st.2.2 (copyChord c)))
    else do
      let nc ← Src.Score_get_chord_between s c (a - st.2.1) (b - st.2.1)
      pure (false, st.2.1 + d, some (Src.scoreAddChord st.2.2 nc))

theorem gsb_fold_eq (s : Score) (a b : Rat) :
    Src.get_score_between s (some a) (some b)
      = (do let st ← s.foldlM (gsbStep s a b) (false, 0, none); pure st.2.2) := by
  unfold Src.get_score_between
  simp only [pure_bind]
  congr 1
  congr 1
  · funext st c
    obtain ⟨brk, time, acc⟩ := st
    unfold gsbStep
    cases brk
    · cases Src.Chord_duration c with
      | error e => rfl
      | ok d =>
        by_cases h1 : time + d ≤ a <;> by_cases h2 : time ≥ b <;> by_cases h3 : time + d < b <;> by_cases h4 : time ≥ a <;>
          simp [h1, h2, h3, h4, bind, Except.bind, pure, Except.pure]
    · simp


theorem gsb_start_none (s : Score) (stop : Option Rat) :
    Src.get_score_between s none stop = Src.get_score_between s (some 0) stop := by
  unfold Src.get_score_between
  simp

theorem gsb_stop_none (s : Score) (start : Option Rat) :
    Src.get_score_between s start none = (do let d ← Src.Score_duration s; Src.get_score_between s start (some d)) := by
  unfold Src.get_score_between
  cases Src.Score_duration s <;> rfl

theorem Score_get_chord_between_eq (s : Score) (c : Chord) (a b : Rat) :
    Src.Score_get_chord_between s c a b = Src.get_chord_between c a b false := by
  unfold Src.Score_get_chord_between
  cases Src.get_chord_between c a b false <;> rfl

/-- `None` for an empty collection, as `new_score` after the loop -/
def optOf (l : List Chord) : Option Score := if l.isEmpty then none else some l

theorem add_optOf (acc : List Chord) (x : Chord) (hacc : ∀ y ∈ acc, Stable y) (hx : Stable x) :
    some (Src.scoreAddChord (optOf acc) x) = optOf (acc ++ [x]) := by
  cases acc with
  | nil => simp [optOf, Src.scoreAddChord]; exact hx
  | cons y ys =>
    have : (y :: ys).map copyChord = (y :: ys).map id := List.map_congr_left (fun z hz => hacc z hz)
    simp [optOf, Src.scoreAddChord] 
    rw [List.map_id] at this
    simpa using this

theorem gsb_after_break (s : Score) (a b : Rat) (cs : List Chord) :
    ∀ (t : Rat) (acc : Option Score),
      cs.foldlM (gsbStep s a b) (true, t, acc) = (pure (true, t, acc) : Res _) := by
  induction cs with
  | nil => intro t acc; rfl
  | cons c cs ih =>
    intro t acc
    rw [List.foldlM_cons]
    have : gsbStep s a b (true, t, acc) c = pure (true, t, acc) := by simp [gsbStep]
    rw [this]
    exact ih t acc

theorem gsb_fold (s : Score) (a b : Rat) (cs : List Chord) (h : ∀ c ∈ cs, (c.parts.map (·.1)).Nodup)
    (hgcb : ∀ c ∈ cs, ∀ x y, Src.get_chord_between c x y false = getChordBetween c x y false) :
    ∀ (time : Rat) (acc : List Chord), (∀ y ∈ acc, Stable y) →
      (cs.foldlM (gsbStep s a b) (false, time, optOf acc)).map (fun st => st.2.2)
        = (scoreBetweenLoop a b cs time).map (fun r => optOf (acc ++ r)) := by
  induction cs with
  | nil => intro time acc _; simp [scoreBetweenLoop, Except.map, pure, Except.pure]
  | cons c cs ih =>
    intro time acc hacc
    have hd : Src.Chord_duration c = .ok c.dur := chordDuration_src c (h c (List.mem_cons_self ..))
    have ih' := ih (fun x hx => h x (List.mem_cons_of_mem _ hx)) (fun x hx => hgcb x (List.mem_cons_of_mem _ hx))
    rw [List.foldlM_cons]
    unfold scoreBetweenLoop
    by_cases h1 : time + c.dur ≤ a
    · have : gsbStep s a b (false, time, optOf acc) c = pure (false, time + c.dur, optOf acc) := by
        simp [gsbStep, hd, h1, bind, Except.bind]
      rw [this, pure_bind, ih' _ _ hacc]
      simp [h1]
    · by_cases h2 : time ≥ b
      · have : gsbStep s a b (false, time, optOf acc) c = pure (true, time, optOf acc) := by
          simp [gsbStep, hd, h1, h2, bind, Except.bind]
        rw [this, pure_bind, gsb_after_break]
        simp [h1, h2, Except.map, pure, Except.pure]
      · by_cases h3 : time + c.dur < b ∧ time ≥ a
        · have : gsbStep s a b (false, time, optOf acc) c = pure (false, time + c.dur, optOf (acc ++ [copyChord c])) := by
            simp [gsbStep, hd, h1, h2, h3, bind, Except.bind]
            rw [add_optOf acc _ hacc (copyChord_stable c)]
          rw [this, pure_bind, ih']
          · simp [h1, h2, h3]
            cases scoreBetweenLoop a b cs (time + c.dur) <;>
              simp [Except.map, bind, Except.bind, pure, Except.pure, Functor.map]
          · intro y hy
            rcases List.mem_append.mp hy with hy | hy
            · exact hacc y hy
            · simp at hy; subst hy; exact copyChord_stable c
        · rw [show gsbStep s a b (false, time, optOf acc) c
                = (do let nc ← getChordBetween c (a - time) (b - time) false
                      pure (false, time + c.dur, some (Src.scoreAddChord (optOf acc) nc))) by
              simp [gsbStep, hd, h1, h2, h3, bind, Except.bind, Score_get_chord_between_eq,
                hgcb c (List.mem_cons_self ..)]]
          simp only [h1, h2, h3, if_false]
          cases hnc : getChordBetween c (a - time) (b - time) false with
          | error e => rfl
          | ok nc =>
            have hst := getChordBetween_stable c _ _ _ nc hnc
            show (do let st ← (pure (false, time + c.dur, some (Src.scoreAddChord (optOf acc) nc)) : Res _)
                     List.foldlM (gsbStep s a b) st cs).map _ = _
            rw [pure_bind, add_optOf acc nc hacc hst, ih']
            · cases scoreBetweenLoop a b cs (time + c.dur) <;>
                simp [Except.map, bind, Except.bind, pure, Except.pure, Functor.map]
            · intro y hy
              rcases List.mem_append.mp hy with hy | hy
              · exact hacc y hy
              · simp at hy; subst hy; exact hst


theorem get_score_between_some (s : Score) (a b : Rat) (h : ∀ c ∈ s, (c.parts.map (·.1)).Nodup)
    (hgcb : ∀ c ∈ s, ∀ x y, Src.get_chord_between c x y false = getChordBetween c x y false) :
    Src.get_score_between s (some a) (some b) = getScoreBetween s (some a) (some b) := by
  rw [gsb_fold_eq]
  have key := gsb_fold s a b s h hgcb 0 [] (by intro y hy; cases hy)
  simp only [List.nil_append] at key
  unfold getScoreBetween
  simp only [Option.getD_some]
  have e0 : optOf [] = none := rfl
  rw [e0] at key
  cases hf : List.foldlM (gsbStep s a b) (false, 0, none) s with
  | error e =>
    rw [hf] at key
    cases hl : scoreBetweenLoop a b s 0 with
    | error e' => rw [hl] at key; simp [Except.map] at key; subst key; rfl
    | ok r => rw [hl] at key; simp [Except.map] at key
  | ok st =>
    rw [hf] at key
    cases hl : scoreBetweenLoop a b s 0 with
    | error e' => rw [hl] at key; simp [Except.map] at key
    | ok r =>
      rw [hl] at key; simp [Except.map] at key
      simp [bind, Except.bind, pure, Except.pure, key, optOf]

/-! ### `repeat_until_duration` -/

theorem Score_get_score_between_eq (s : Score) (a b : Option Rat) :
    Src.Score_get_score_between s a b = Src.get_score_between s a b := by
  unfold Src.Score_get_score_between
  cases Src.get_score_between s a b <;> rfl

theorem map_copy_of_stable (l : List Chord) (h : ∀ y ∈ l, Stable y) : l.map copyChord = l := by
  have : l.map copyChord = l.map id := List.map_congr_left (fun z hz => h z hz)
  rw [this, List.map_id]

theorem stable_of_mem_copies (s : Score) (n : Nat) : ∀ y ∈ (List.replicate n (s.map copyChord)).flatten, Stable y := by
  intro y hy
  obtain ⟨l, hl, hyl⟩ := List.mem_flatten.mp hy
  have := (List.mem_replicate.mp hl).2
  subst this
  obtain ⟨z, _, rfl⟩ := List.mem_map.mp hyl
  exact copyChord_stable z

theorem scoreMul_nat (s : Score) (n : Nat) :
    Src.scoreMul s (n : Int) = if n = 0 then none else some ((List.replicate n (s.map copyChord)).flatten) := by
  have hX : (s.map copyChord).map copyChord = s.map copyChord :=
    map_copy_of_stable _ (fun y hy => by obtain ⟨z, _, rfl⟩ := List.mem_map.mp hy; exact copyChord_stable z)
  induction n with
  | zero => rfl
  | succ n ih =>
    unfold Src.scoreMul at ih ⊢
    simp only [Int.toNat_natCast] at ih ⊢
    rw [List.range_succ, List.foldl_append, ih]
    cases n with
    | zero => simp [hX]
    | succ m =>
      simp only [Nat.succ_ne_zero, if_false, List.foldl_cons, List.foldl_nil, hX]
      rw [map_copy_of_stable _ (stable_of_mem_copies s (m + 1))]
      congr 1
      rw [List.replicate_succ' (n := m + 1), List.flatten_append]
      simp

theorem scoreMul_eq (s : Score) (k : Int) :
    Src.scoreMul s k = if k ≤ 0 then none else some (repeatList (s.map copyChord) k) := by
  have hk' : Src.scoreMul s k = Src.scoreMul s (k.toNat : Int) := by unfold Src.scoreMul; rw [Int.toNat_natCast]
  rw [hk', scoreMul_nat]
  unfold repeatList
  by_cases hk : k ≤ 0
  · have : k.toNat = 0 := by omega
    simp [hk, this]
  · have : k.toNat ≠ 0 := by omega
    simp [hk, this]

theorem nodup_copies (s : Score) (k : Int) (h : ∀ c ∈ s, (c.parts.map (·.1)).Nodup) :
    ∀ c ∈ repeatList (s.map copyChord) k, (c.parts.map (·.1)).Nodup := by
  intro c hc
  unfold repeatList at hc
  obtain ⟨l, hl, hcl⟩ := List.mem_flatten.mp hc
  have := (List.mem_replicate.mp hl).2
  subst this
  obtain ⟨z, hz, rfl⟩ := List.mem_map.mp hcl
  have : (copyChord z).parts.map (·.1) = z.parts.map (·.1) := by
    unfold copyChord; simp [List.map_map, Function.comp]
  rw [this]; exact h z hz

theorem get_score_between_eq (s : Score) (start stop : Option Rat) (h : ∀ c ∈ s, (c.parts.map (·.1)).Nodup) :
    Src.get_score_between s start stop = getScoreBetween s start stop := by
  have hgcb : ∀ c ∈ s, ∀ x y, Src.get_chord_between c x y false = getChordBetween c x y false :=
    fun c hc x y => get_chord_between_eq c x y false (h c hc)
  cases start with
  | none =>
    rw [gsb_start_none]
    cases stop with
    | none =>
      rw [gsb_stop_none, scoreDuration_src s h]
      show Src.get_score_between s (some 0) (some (scoreDuration s)) = _
      rw [get_score_between_some s _ _ h hgcb]; rfl
    | some b => rw [get_score_between_some s _ _ h hgcb]; rfl
  | some a =>
    cases stop with
    | none =>
      rw [gsb_stop_none, scoreDuration_src s h]
      show Src.get_score_between s (some a) (some (scoreDuration s)) = _
      rw [get_score_between_some s _ _ h hgcb]; rfl
    | some b => exact get_score_between_some s _ _ h hgcb

theorem repeat_until_duration_eq (s : Score) (d : Rat) (h : ∀ c ∈ s, (c.parts.map (·.1)).Nodup) :
    Src.repeat_until_duration s d = repeatUntilDuration s d := by
  unfold Src.repeat_until_duration repeatUntilDuration
  rw [scoreDuration_src s h]
  simp only [bind, Except.bind, pure, Except.pure, Score_get_score_between_eq]
  by_cases h1 : scoreDuration s < d
  · simp only [h1, decide_true, if_true]
    unfold PyB.ratDiv
    by_cases h2 : scoreDuration s = 0
    · simp [h2]
    · simp only [h2, if_false, scoreMul_eq]
      by_cases h3 : pyTrunc (d / scoreDuration s) + 1 ≤ 0
      · simp [h3, PyB.attrOf]
      · simp only [h3, if_false, PyB.attrOf]
        rw [get_score_between_eq _ _ _ (nodup_copies s _ h)]
        have : (((0 : Int) : Int) : Rat) = 0 := by simp
        rw [this]
        cases getScoreBetween (repeatList (List.map copyChord s) (pyTrunc (d / scoreDuration s) + 1)) (some 0) (some d) <;> rfl
  · simp only [h1, decide_false, if_false]
    rw [get_score_between_eq _ _ _ h]
    have : (((0 : Int) : Int) : Rat) = 0 := by simp
    rw [this]
    cases getScoreBetween s (some 0) (some d) <;> rfl

end MV.Tie
