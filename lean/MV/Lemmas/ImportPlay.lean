/-
C14 importer lemmas 6/15 — reading a part of the note matrix (`mergeStep`, `playMelody` on top of Render.melodyToRows) and the events of `barMelody`.
-/
import MV.Lemmas.ImportBar
namespace MV
open Gen

/-! ### reading one track of the note matrix: sounding notes with ties merged -/

/-- a sounding note: the four observables the property talks about -/
structure Ev where
  pitch : Int
  onset : Rat
  dur : Rat
  vel : Rat
  deriving DecidableEq, Repr, Inhabited

/-- reading one row: a tie extends the open note, a rest closes it, a note opens a new one
(events latest first; this is `harness/sound.py: impl_sound`) -/
def mergeStep (st : List Ev × Bool) (r : Row) : List Ev × Bool :=
  if r.cont then
    (if st.2 then
      match st.1 with
      | e :: es => ({ e with dur := e.dur + r.dur } :: es, true)
      | [] => st
     else st)
  else if r.silence then (st.1, false)
  else ({ pitch := r.pitch, onset := r.offset, dur := r.dur, vel := r.vel } :: st.1, true)

def mergeRows (rows : List Row) (st : List Ev × Bool) : List Ev × Bool := rows.foldl mergeStep st

/-- state of a track while its rows are read: events so far (latest first), whether the latest is
still open, and the renderer's "last sounding pitch" -/
structure TrackSt where
  evs : List Ev
  isOpen : Bool
  last : Option Int
  deriving DecidableEq, Repr

/-- render a melody at `time` (renderer model `melodyToRows`) and read its rows into the state -/
def playMelody (c : Chord) (idx : Nat) (m : Melody) (time : Rat) (st : TrackSt) : Res TrackSt := do
  let (rows, last') ← melodyToRows m c idx time st.last
  let r := mergeRows rows (st.evs, st.isOpen)
  pure ⟨r.1, r.2, last'⟩

theorem playMelody_nil (c : Chord) (idx : Nat) (time : Rat) (st : TrackSt) : playMelody c idx [] time st = .ok st := by
  unfold playMelody melodyToRows; rfl

theorem playMelody_cons (c : Chord) (idx : Nat) (n : Note) (m : Melody) (time : Rat) (st : TrackSt) :
    playMelody c idx (n :: m) time st =
      (match noteToRow n c idx time st.last with
       | .error e => .error e
       | .ok (row, last') =>
           playMelody c idx m (time + n.dur) ⟨(mergeStep (st.evs, st.isOpen) row).1, (mergeStep (st.evs, st.isOpen) row).2, last'⟩) := by
  unfold playMelody
  simp only [melodyToRows, bind, Except.bind]
  cases h1 : noteToRow n c idx time st.last with
  | error e => rfl
  | ok p =>
      obtain ⟨row, last'⟩ := p
      simp only []
      cases h2 : melodyToRows m c idx (time + n.dur) last' with
      | error e => rfl
      | ok q => obtain ⟨rows, l2⟩ := q; simp [mergeRows, pure, Except.pure]

theorem playMelody_append (c : Chord) (idx : Nat) : ∀ (a b : Melody) (time : Rat) (st : TrackSt),
    playMelody c idx (a ++ b) time st =
      (match playMelody c idx a time st with
       | .error e => .error e
       | .ok st' => playMelody c idx b (time + melodyDuration a) st') := by
  intro a
  induction a with
  | nil => intro b time st; simp [playMelody_nil, melodyDuration_nil, Rat.add_zero]
  | cons n a ih =>
      intro b time st
      simp only [List.cons_append, playMelody_cons]
      cases h1 : noteToRow n c idx time st.last with
      | error e => rfl
      | ok p =>
          obtain ⟨row, last'⟩ := p
          simp only []
          rw [ih]
          have : time + n.dur + melodyDuration a = time + melodyDuration (n :: a) := by
            rw [melodyDuration_cons]; grind
          rw [this]

end MV

namespace MV
open Gen

theorem play_rest (c : Chord) (idx : Nat) (d time : Rat) (st : TrackSt) :
    playMelody c idx [({ kind := .r, val := 0, oct := 0, dur := d } : Note)] time st = .ok ⟨st.evs, false, st.last⟩ := by
  rw [playMelody_cons]
  have hp : noteToPitch c ({ kind := .r, val := 0, oct := 0, dur := d } : Note) (st.last.getD 0) = .ok none :=
    C01.pitch_none c _ _ (Or.inl rfl)
  simp only [noteToRow, hp, bind, Except.bind, pure, Except.pure, playMelody_nil]
  simp [mergeStep]

theorem play_tie (c : Chord) (idx : Nat) (d time : Rat) (st : TrackSt) (p : Int) (e : Ev) (es : List Ev)
    (hl : st.last = some p) (ho : st.isOpen = true) (hev : st.evs = e :: es) :
    playMelody c idx [contNote d] time st = .ok ⟨{ e with dur := e.dur + d } :: es, true, some p⟩ := by
  rw [playMelody_cons]
  have hp : noteToPitch c (contNote d) p = .ok none :=
    C01.pitch_none c _ _ (Or.inr (Or.inl rfl))
  simp only [noteToRow, hl, Option.getD_some, hp, bind, Except.bind, pure, Except.pure, playMelody_nil, ho, hev]
  simp [mergeStep, contNote]

theorem noteOf_pitch (c : Chord) (he : 0 ≤ c.elem ∧ c.elem < 7) (it : Item) (d : Rat) (last : Int) :
    noteToPitch c (noteOf c it d) last = .ok (some (it.pitch - 60)) := by
  have h := (parse_roundtrip_lem c he (it.pitch - 60) last _ (parse_parsed c he _)).1
  rw [← h]
  rfl

theorem noteOf_kind (c : Chord) (he : 0 ≤ c.elem ∧ c.elem < 7) (it : Item) (d : Rat) :
    (noteOf c it d).kind = .s ∨ (noteOf c it d).kind = .h := by
  show (parsed c (it.pitch - 60)).kind = .s ∨ (parsed c (it.pitch - 60)).kind = .h
  unfold parsed
  cases hin : (c.scalePitches.map (· % 12)).contains ((it.pitch - 60) % 12) with
  | true => obtain ⟨_, _, _, h'⟩ := parse_scale_case c he _ hin; rw [h']; exact Or.inl rfl
  | false => obtain ⟨_, _, _, h'⟩ := parse_chrom_case c he _ hin; rw [h']; exact Or.inr rfl

theorem play_note (c : Chord) (he : 0 ≤ c.elem ∧ c.elem < 7) (idx : Nat) (it : Item) (d time : Rat) (st : TrackSt) :
    playMelody c idx [noteOf c it d] time st
      = .ok ⟨{ pitch := it.pitch - 60, onset := time, dur := d, vel := (it.vel : Rat) } :: st.evs, true, some (it.pitch - 60)⟩ := by
  rw [playMelody_cons]
  have hk := noteOf_kind c he it d
  have hr : (noteOf c it d).kind ≠ .r ∧ (noteOf c it d).kind ≠ .l := by
    rcases hk with h | h <;> rw [h] <;> exact ⟨by decide, by decide⟩
  simp only [noteToRow, noteOf_pitch c he, bind, Except.bind, pure, Except.pure, playMelody_nil]
  have h1 : ((noteOf c it d).kind == Kind.r) = false := by simp [hr.1]
  have h2 : ((noteOf c it d).kind == Kind.l) = false := by simp [hr.2]
  simp only [h1, h2, Bool.false_and, Bool.or_false, Bool.false_or]
  simp [mergeStep]
  exact ⟨rfl, rfl⟩

end MV

namespace MV
open Gen

theorem play_gapRest (c : Chord) (idx : Nat) (a b time : Rat) (hf : Fine (b - a)) (st : TrackSt) :
    playMelody c idx (gapRest a b) time st = .ok ⟨st.evs, if a < b then false else st.isOpen, st.last⟩ := by
  unfold gapRest
  by_cases h : a < b
  · simp only [h, if_true, mkSilence_fine _ hf, play_rest]
  · simp only [h, if_false, playMelody_nil]

/-- the sounding note of an item, cut at `cut` -/
def evOf (cut : Rat) (it : Item) : Ev :=
  { pitch := it.pitch - 60, onset := it.start, dur := min it.stop cut - it.start, vel := (it.vel : Rat) }

/-- pitch of the last item (the renderer's reference for a following tie) -/
def lastPitch : List Item → Option Int → Option Int
  | [], l => l
  | n :: rest, _ => lastPitch rest (some (n.pitch - 60))

theorem play_loopMel (c : Chord) (he : 0 ≤ c.elem ∧ c.elem < 7) (idx : Nat) (be : Rat) (T : List Rat) (hT : FineSet T) :
    ∀ (ns : List Item) (t : Rat) (st : TrackSt), Chain t ns → t ∈ T → (∀ n ∈ ns, n.start ∈ T ∧ n.stop ∈ T) →
      (∀ n ∈ ns, n.start < be) →
      playMelody c idx (loopMel c be t ns) t st
        = .ok ⟨(ns.map (evOf be)).reverse ++ st.evs, if ns = [] then st.isOpen else true, lastPitch ns st.last⟩ := by
  intro ns
  induction ns with
  | nil => intro t st _ _ _ _; simp [loopMel, playMelody_nil, lastPitch]
  | cons n rest ih =>
      intro t st ⟨h1, h2, h3⟩ ht hmem hin
      have hn := hmem n (List.mem_cons_self ..)
      have hnb := hin n (List.mem_cons_self ..)
      have hfg : Fine (n.start - t) := hT _ hn.1 _ ht
      simp only [loopMel]
      rw [playMelody_append, play_gapRest c idx _ _ _ hfg]
      simp only [gapRest_dur t n.start h1 hfg]
      have et : t + (n.start - t) = n.start := by grind
      rw [et]
      have hcons : noteOf c n (min n.stop be - n.start) :: loopMel c be n.stop rest
          = [noteOf c n (min n.stop be - n.start)] ++ loopMel c be n.stop rest := rfl
      rw [hcons, playMelody_append, play_note c he]
      simp only [melodyDuration_cons, melodyDuration_nil]
      cases rest with
      | nil =>
          simp only [loopMel, playMelody_nil, List.map_cons, List.map_nil, List.reverse_cons, List.reverse_nil,
            List.nil_append, List.singleton_append, lastPitch, evOf]
          simp
      | cons r rs =>
          have hr := hin r (List.mem_cons_of_mem _ (List.mem_cons_self ..))
          have hr1 := h3.1
          have hm : min n.stop be = n.stop := by grind
          have e2 : n.start + ((noteOf c n (min n.stop be - n.start)).dur + 0) = n.stop := by
            show n.start + (min n.stop be - n.start + 0) = n.stop
            rw [hm]; grind
          rw [e2, ih n.stop _ h3 hn.2 (fun x hx => hmem x (List.mem_cons_of_mem _ hx)) (fun x hx => hin x (List.mem_cons_of_mem _ hx))]
          simp [lastPitch, evOf]

end MV

namespace MV
open Gen

/-- a tie extends the latest event -/
def extendHead (evs : List Ev) (d : Rat) : List Ev :=
  match evs with
  | e :: es => { e with dur := e.dur + d } :: es
  | [] => []

/-- the events after the pending tie has been read -/
def afterTie (bs be : Rat) (cont : Option Rat) (evs : List Ev) : List Ev :=
  match cont with
  | none => evs
  | some d => extendHead evs (min d (be - bs))

theorem play_contHead (c : Chord) (idx : Nat) (bs be : Rat) (cont : Option Rat) (st : TrackSt)
    (hst : ∀ d, cont = some d → st.isOpen = true ∧ st.last ≠ none ∧ st.evs ≠ []) :
    playMelody c idx (contHead bs be cont) bs st = .ok ⟨afterTie bs be cont st.evs, st.isOpen, st.last⟩ := by
  cases cont with
  | none => simp [contHead, afterTie, playMelody_nil]
  | some d =>
      obtain ⟨ho, hl, hev⟩ := hst d rfl
      cases hl' : st.last with
      | none => exact absurd hl' hl
      | some p =>
          cases hev' : st.evs with
          | nil => exact absurd hev' hev
          | cons e es =>
              simp only [contHead, afterTie, extendHead]
              rw [play_tie c idx _ bs st p e es hl' ho hev', ho]

theorem play_barMelody {T bs be cont ns} (c : Chord) (he : 0 ≤ c.elem ∧ c.elem < 7) (idx : Nat)
    (h : BarOK T bs be cont ns) (st : TrackSt)
    (hst : ∀ d, cont = some d → st.isOpen = true ∧ st.last ≠ none ∧ st.evs ≠ []) :
    playMelody c idx (barMelody c bs be cont ns) bs st
      = .ok ⟨(ns.map (evOf be)).reverse ++ afterTie bs be cont st.evs,
             decide (be ≤ endOf (contStart bs cont) ns), lastPitch ns st.last⟩ := by
  have hE := endOf_mem T ns _ h.ht0 h.hmem
  have hge := endOf_ge ns _ h.hc
  unfold barMelody
  rw [playMelody_append, playMelody_append, play_contHead c idx bs be cont st hst]
  simp only []
  cases ns with
  | nil =>
      simp only [loopMel, playMelody_nil, melodyDuration_nil, endOf, List.map_nil, List.reverse_nil, List.nil_append, lastPitch]
      rw [play_gapRest c idx _ _ _ (h.fine _ h.hbe _ h.ht0)]
      congr 2
      simp only [endOf] at hge
      by_cases hlt : contStart bs cont < be
      · have : ¬ (be ≤ contStart bs cont) := by grind
        simp [hlt, this]
      · have hle : be ≤ contStart bs cont := by grind
        simp only [hlt, if_false, hle, decide_true]
        cases cont with
        | none => simp only [contStart] at hle; have := h.hb; grind
        | some d => exact (hst d rfl).1
  | cons n rest =>
      have hlt := h.t0_lt (by simp : n :: rest ≠ [])
      have htime : bs + melodyDuration (contHead bs be cont) = contStart bs cont := by
        rw [contHead_dur]
        cases cont with
        | none => simp only [contStart]; grind
        | some d => simp only [contStart] at hlt ⊢; grind
      rw [htime, play_loopMel c he idx be T h.fine _ _ _ h.hc h.ht0 h.hmem h.hin]
      simp only []
      rw [play_gapRest c idx _ _ _ (h.fine _ h.hbe _ hE)]
      congr 2
      by_cases hlt2 : endOf (contStart bs cont) (n :: rest) < be
      · have : ¬ (be ≤ endOf (contStart bs cont) (n :: rest)) := by grind
        simp [hlt2, this]
      · have hle : be ≤ endOf (contStart bs cont) (n :: rest) := by grind
        simp [hlt2, hle]

end MV
