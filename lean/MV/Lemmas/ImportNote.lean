/-
C14 importer lemmas 1/15 — durations the `Note` constructor keeps (`Fine`), `_parse_note` in closed form (`noteOf`).
-/
import MV.Model.Import
import MV.Lemmas.Parse
namespace MV
open Gen

/-! ### durations that `Note(...)` stores unchanged -/

/-- a duration the `Note` constructor keeps as it is (denominator ≤ `LIMIT_DENOM` = 1000) -/
def Fine (q : Rat) : Prop := q.den ≤ LIMIT_DENOM

instance (q : Rat) : Decidable (Fine q) := by unfold Fine; exact inferInstance

theorem limDur_fine (q : Rat) (h : Fine q) : limDur q = q := by
  unfold Fine at h
  unfold limDur limitDenominator
  simp [h]

theorem fine_one : Fine 1 := by decide

/-! ### `_parse_note` in closed form -/

/-- the note `Chord.parse` returns (total: `parse` never fails on a chord of degree 0..6) -/
def parsed (c : Chord) (p : Int) : Note :=
  match c.parse p with
  | .ok n => n
  | .error _ => default

theorem parse_parsed (c : Chord) (he : 0 ≤ c.elem ∧ c.elem < 7) (p : Int) : c.parse p = .ok (parsed c p) := by
  unfold parsed
  cases hin : (c.scalePitches.map (· % 12)).contains (p % 12) with
  | true => obtain ⟨_, _, _, h⟩ := parse_scale_case c he p hin; rw [h]
  | false => obtain ⟨_, _, _, h⟩ := parse_chrom_case c he p hin; rw [h]

theorem parsed_dur (c : Chord) (he : 0 ≤ c.elem ∧ c.elem < 7) (p : Int) : (parsed c p).dur = 1 := by
  unfold parsed
  cases hin : (c.scalePitches.map (· % 12)).contains (p % 12) with
  | true => obtain ⟨_, _, _, h'⟩ := parse_scale_case c he p hin; rw [h']
  | false => obtain ⟨_, _, _, h'⟩ := parse_chrom_case c he p hin; rw [h']

/-- the note written for an item: parsed pitch, given duration, the item's velocity -/
def noteOf (c : Chord) (it : Item) (d : Rat) : Note :=
  { parsed c (it.pitch - 60) with dur := d, amp := (it.vel : Rat) }

theorem parseNote_eq (c : Chord) (he : 0 ≤ c.elem ∧ c.elem < 7) (it : Item) (d : Rat) (hd : Fine d) :
    parseNote c it d 1 = .ok (noteOf c it d) := by
  unfold parseNote
  rw [parse_parsed c he]
  simp only [bind, Except.bind, pure, Except.pure, Note.augment, parsed_dur c he, limDur_fine 1 fine_one,
    Rat.one_mul, limDur_fine d hd, Rat.mul_one]
  rfl

end MV
