/-
Lemmas about the Python built-ins of `MV/Model/Py.lean`, used by the source-tie theorems
(`MV/Props/Tie*.lean`) to relate the generated source images to the hand-written model.
-/
import MV.Model.Py

namespace MV.Py

theorem npMask_map (l : List Int) (p : Int → Bool) : npMask l (l.map p) = l.filter p := by
  induction l with
  | nil => rfl
  | cons x xs ih =>
    simp only [npMask, List.map_cons, List.zip_cons_cons, List.filter_cons] at ih ⊢
    cases h : p x <;> simp [ih]

theorem range_eq (a : Int) (n : Nat) : range a (a + n) = (List.range n).map (fun (i : Nat) => a + (i : Int)) := by
  have : (a + (n:Int) - a).toNat = n := by omega
  simp [range, this]

/-- numpy's `(arr - l)[(arr - l) ⋈ 0] + l` is a filter of `arr` -/
theorem mask_shift (ws : List Int) (l : Int) (p : Int → Bool) :
    (npMask (ws.map (fun v => v - l)) ((ws.map (fun v => v - l)).map p)).map (fun v => v + l)
      = ws.filter (fun s => p (s - l)) := by
  rw [npMask_map, List.filter_map, List.map_map]
  have : ((fun v => v + l) ∘ fun v => v - l) = id := by funext v; simp
  rw [this, List.map_id]; rfl

theorem idx_off (ws : List Int) (l : Int) :
    (1 : Int) * b2i (!isIn l ws) = if ws.contains l = true then 0 else 1 := by
  unfold b2i isIn; cases ws.contains l <;> simp

theorem sliceFrom_nonneg (l : List Int) (i : Int) (h : 0 ≤ i) : sliceFrom l i = l.drop i.toNat := by
  unfold sliceFrom clampIdx
  have h1 : ¬ i < 0 := by omega
  simp only [h1, if_false]
  by_cases h2 : i > (l.length : Int)
  · simp only [h2, if_true]
    rw [List.drop_length, List.drop_of_length_le]; omega
  · simp [h2]

theorem sliceTo_nonneg (l : List Int) (i : Int) (h : 0 ≤ i) : sliceTo l i = l.take i.toNat := by
  unfold sliceTo clampIdx
  have h1 : ¬ i < 0 := by omega
  simp only [h1, if_false]
  by_cases h2 : i > (l.length : Int)
  · simp only [h2, if_true]
    rw [List.take_length, List.take_of_length_le]; omega
  · simp [h2]

theorem mapM_ok (f : Int → Int) (l : List Int) :
    l.mapM (fun i => (Except.ok (f i) : Res Int)) = Except.ok (l.map f) := by
  induction l with
  | nil => rfl
  | cons y ys ih => rw [List.mapM_cons, ih]; rfl

/-- a comprehension over a non-empty list whose element expression starts with a loop-invariant
raising sub-expression: the sub-expression can be evaluated once, before the loop -/
theorem mapM_hoist (r : Res Int) (x : Int) (xs : List Int) :
    (x :: xs).mapM (fun (i : Int) => do let t ← r; pure (t + i))
      = (do let t ← r; pure ((x :: xs).map (fun i => t + i)) : Res (List Int)) := by
  cases r with
  | error e => rw [List.mapM_cons]; rfl
  | ok t =>
    have : (fun (i : Int) => (do let t ← (Except.ok t : Res Int); pure (t + i) : Res Int))
        = fun i => Except.ok (t + i) := by
      funext i; rfl
    rw [this, mapM_ok]; rfl

theorem range12 : range (0 : Int) (12 : Int) = (List.range 12).map Int.ofNat := by decide

end MV.Py
