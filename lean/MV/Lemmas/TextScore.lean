/-
Lemmas for C05, part 3: custom chords, items, `Score.from_str` (pieces, the assertion, the
fallback evaluation, copies made by `+`).
-/
import MV.Lemmas.TextChord

namespace MV.Text
open MV Gen

/-! ### custom chords -/

/-- closed form of a custom chord's round trip: its notes and parts re-read; degree and extension
are not printed (a `CustomChord` is built with degree 0 and extension `''`) -/
def rereadCustom (c : Custom) : Custom :=
  { notes := c.notes.map rereadNote
    chord := { elem := 0, ext := {}, ton := c.chord.ton, oct := c.chord.oct, parts := rereadParts c.chord.parts } }

structure CustomOK (c : Custom) : Prop where
  deg : 0 ≤ c.chord.ton.deg ∧ c.chord.ton.deg < 12
  notes : ∀ n ∈ c.notes, InLibrary n ∧ Den n.dur ∧ n.tags.Nodup
  parts : ∀ p ∈ c.chord.parts, PartOK p
  names : (c.chord.parts.map Prod.fst).Nodup

theorem mapM_noteCodes (ns : List Note) (h : ∀ n ∈ ns, InLibrary n ∧ Den n.dur ∧ n.tags.Nodup) :
    (ns.map noteCode).mapM evalCode = .ok (ns.map rereadNote) := by
  have := mapM_ok (fun n => evalCode (noteCode n)) rereadNote ns
    (fun n hn => evalCode_noteCode n (h n hn).1 (h n hn).2.1 (h n hn).2.2)
  rw [← this]
  clear this h
  induction ns with
  | nil => rfl
  | cons x xs ih => simp only [List.map_cons, List.mapM_cons, ih]

theorem custom_code_eval (c : Custom) (h : CustomOK c) :
    ∃ cc, customCode c = .ok cc ∧ evalCustom cc = .ok (rereadCustom c) := by
  obtain ⟨tc, htc, hte⟩ := tonality_code_eval c.chord.ton h.deg.1 h.deg.2
  refine ⟨{ ton := tc, notes := c.notes.map noteCode, oct := chordOct c.chord.oct, parts := partCodes c.chord.parts }, ?_, ?_⟩
  · simp only [customCode, htc, bind, Except.bind, pure, Except.pure]
  · unfold evalCustom
    simp only [hte, mapM_noteCodes c.notes h.notes, bind, Except.bind]
    rw [chordO_head _ rfl normalize_empty rfl]
    rw [callChord_reread _ rfl normalize_empty c.chord.parts h.parts h.names]
    rfl

/-! ### items -/

def rereadItem : Item → Item
  | .plain c => .plain (rereadChord c)
  | .custom c => .custom (rereadCustom c)

def ItemOK : Item → Prop
  | .plain c => ChordOK c
  | .custom c => CustomOK c

def Item.isPlain : Item → Bool
  | .plain _ => true
  | .custom _ => false

theorem item_code_eval (i : Item) (h : ItemOK i) :
    ∃ ic, itemCode i = .ok ic ∧ evalItem ic = .ok (rereadItem i) ∧ ic.isPlain = i.isPlain := by
  cases i with
  | plain c =>
      obtain ⟨cc, h1, h2⟩ := chord_code_eval c h
      exact ⟨.plain cc, by simp [itemCode, h1, bind, Except.bind, pure, Except.pure],
        by simp [evalItem, h2, bind, Except.bind, pure, Except.pure, rereadItem], rfl⟩
  | custom c =>
      obtain ⟨cc, h1, h2⟩ := custom_code_eval c h
      exact ⟨.custom cc, by simp [itemCode, h1, bind, Except.bind, pure, Except.pure],
        by simp [evalItem, h2, bind, Except.bind, pure, Except.pure, rereadItem], rfl⟩

/-- the codes of a score, with what each evaluates to -/
theorem score_codes (s : List Item) (h : ∀ i ∈ s, ItemOK i) :
    ∃ cs, scoreCodes s = .ok cs ∧ cs.mapM evalItem = .ok (s.map rereadItem) ∧ cs.map ItemCode.isPlain = s.map Item.isPlain
      ∧ List.Forall₂ (fun ic i => evalItem ic = .ok (rereadItem i)) cs s := by
  induction s with
  | nil => exact ⟨[], rfl, rfl, rfl, List.Forall₂.nil⟩
  | cons i s ih =>
      obtain ⟨ic, h1, h2, h3⟩ := item_code_eval i (h i (by simp))
      obtain ⟨cs, g1, g2, g3, g4⟩ := ih (fun j hj => h j (by simp [hj]))
      refine ⟨ic :: cs, ?_, ?_, ?_, List.Forall₂.cons h2 g4⟩
      · unfold scoreCodes at g1 ⊢
        simp only [List.mapM_cons, h1, g1, bind, Except.bind, pure, Except.pure]
      · simp only [List.mapM_cons, h2, g2, bind, Except.bind, pure, Except.pure, List.map_cons]
      · simp [h3, g3]

/-! ### copies made by `+` leave re-read items unchanged -/

theorem copyParts_reread (ps : List (String × Melody)) (h : ∀ p ∈ ps, ∀ n ∈ p.2, Den n.dur) :
    (rereadParts ps).map (fun p => (p.1, copyMelody p.2)) = rereadParts ps := by
  unfold rereadParts
  rw [List.map_map]
  apply List.map_congr_left
  intro p hp
  simp only [Function.comp, rereadMelody]
  rw [copyMelody_reread p.2 (h p hp)]

theorem partOK_den {p : String × Melody} (h : PartOK p) : ∀ n ∈ p.2, Den n.dur :=
  fun n hn => (h.1.2 n hn).2.1

theorem copyItem_reread (i : Item) (h : ItemOK i) : copyItem (rereadItem i) = rereadItem i := by
  cases i with
  | plain c =>
      have hp := copyParts_reread c.parts (fun p hp => partOK_den (h.parts p hp))
      simp only [rereadItem, copyItem, copyChord, copyHead, rereadChord, rereadExt_normalize, tonCopy_id, hp]
  | custom c =>
      have hp := copyParts_reread c.chord.parts (fun p hp => partOK_den (h.parts p hp))
      simp only [rereadItem, copyItem, copyChord, copyHead, rereadCustom, normalize_empty, tonCopy_id, hp]

theorem foldl_sum_fixed (rest acc : List Item) (hacc : ∀ x ∈ acc, copyItem x = x) (hrest : ∀ x ∈ rest, copyItem x = x) :
    rest.foldl (fun acc c => acc.map copyItem ++ [c]) acc = acc ++ rest := by
  induction rest generalizing acc with
  | nil => simp
  | cons c cs ih =>
      have hm : acc.map copyItem = acc := by
        conv_rhs => rw [← List.map_id acc]
        exact List.map_congr_left (fun x hx => by simp [hacc x hx])
      simp only [List.foldl_cons, hm]
      rw [ih (acc ++ [c]) (by
        intro x hx
        rcases List.mem_append.mp hx with h | h
        · exact hacc x h
        · simp only [List.mem_singleton] at h; subst h; exact hrest _ (by simp))
        (fun x hx => hrest x (by simp [hx]))]
      simp

theorem sumItems_fixed (l : List Item) (h : ∀ x ∈ l, copyItem x = x) : sumItems l = l := by
  match l with
  | [] => rfl
  | [a] => rfl
  | a :: b :: rest =>
      simp only [sumItems, h a (by simp), h b (by simp)]
      rw [foldl_sum_fixed rest [a, b] (by intro x hx; exact h x (by simp at hx; rcases hx with rfl | rfl <;> simp))
        (fun x hx => h x (by simp [hx]))]
      simp

/-! ### `Score.from_str`: the pieces -/

theorem go_all_plain (x : ItemCode) (ys : List ItemCode) (h : ∀ y ∈ ys, y.isPlain = true) :
    pieces.go [x] ys = [x] :: ys.map (fun y => [y]) := by
  induction ys generalizing x with
  | nil => rfl
  | cons y ys ih =>
      simp only [pieces.go, h y (by simp), ↓reduceIte, List.reverse_cons, List.reverse_nil, List.nil_append, List.map_cons]
      rw [ih y (fun z hz => h z (by simp [hz]))]

/-- every chord after the first is a plain chord: the text is cut between all chords -/
theorem pieces_all_plain (cs : List ItemCode) (h : ∀ y ∈ cs.tail, y.isPlain = true) :
    pieces cs = cs.map (fun y => [y]) := by
  cases cs with
  | nil => rfl
  | cons x rest => simpa [pieces] using go_all_plain x rest h

theorem go_head_length (cur ys : List ItemCode) :
    ∃ p ps, pieces.go cur ys = p :: ps ∧ cur.length ≤ p.length := by
  induction ys generalizing cur with
  | nil => exact ⟨cur.reverse, [], rfl, by simp⟩
  | cons y ys ih =>
      by_cases hy : y.isPlain = true
      · exact ⟨cur.reverse, pieces.go [y] ys, by simp [pieces.go, hy], by simp⟩
      · obtain ⟨p, ps, h1, h2⟩ := ih (y :: cur)
        refine ⟨p, ps, by simp [pieces.go, hy, h1], ?_⟩
        simp only [List.length_cons] at h2
        omega

/-- the second chord is a custom chord: the first piece holds two chords or more -/
theorem pieces_second_custom (a b : ItemCode) (rest : List ItemCode) (hb : b.isPlain = false) :
    ∃ p ps, pieces (a :: b :: rest) = p :: ps ∧ 2 ≤ p.length := by
  obtain ⟨p, ps, h1, h2⟩ := go_head_length [b, a] rest
  exact ⟨p, ps, by simp [pieces, pieces.go, hb, h1], by simpa using h2⟩

theorem evalPiece_single (ic : ItemCode) (i : Item) (h : evalItem ic = .ok i) : evalPiece [ic] = .ok (.chord i) := by
  simp [evalPiece, List.mapM_cons, List.mapM_nil, h, bind, Except.bind, pure, Except.pure]

theorem mapM_length {α β : Type} (f : α → Res β) (l : List α) (r : List β) (h : l.mapM f = .ok r) : r.length = l.length := by
  induction l generalizing r with
  | nil => simp [List.mapM_nil, pure, Except.pure] at h; subst h; rfl
  | cons x xs ih =>
      rw [List.mapM_cons] at h
      cases hx : f x with
      | error e => simp [hx, bind, Except.bind] at h
      | ok y =>
          cases hxs : xs.mapM f with
          | error e => simp [hx, hxs, bind, Except.bind] at h
          | ok ys =>
              simp [hx, hxs, bind, Except.bind, pure, Except.pure] at h
              subst h
              simp [ih ys hxs]

/-- a piece of two chords or more is a sum: its value is a score, never a chord -/
theorem evalPiece_long (p : List ItemCode) (hp : 2 ≤ p.length) (o : Obj) (h : evalPiece p = .ok o) : ∃ l, o = .score l := by
  unfold evalPiece at h
  cases hm : p.mapM evalItem with
  | error e => simp [hm, bind, Except.bind] at h
  | ok items =>
      have hl := mapM_length _ _ _ hm
      simp only [hm, bind, Except.bind] at h
      match items, hl with
      | [], hl => simp at hl; omega
      | [a], hl => simp at hl; omega
      | a :: b :: r, _ =>
          simp [pure, Except.pure] at h
          exact ⟨_, h.symm⟩

/-- when the first piece is a sum, the branch through the pieces never succeeds (exception or failed assertion) -/
theorem viaPieces_fails (p : List ItemCode) (ps : List (List ItemCode)) (hp : 2 ≤ p.length) :
    ∀ objs, ((p :: ps).mapM evalPiece >>= fun objs =>
      match objs with
      | .chord _ :: _ => (pure objs : Res (List Obj))
      | _ => .error .assertion) ≠ .ok objs := by
  intro objs h
  rw [List.mapM_cons] at h
  cases h0 : evalPiece p with
  | error e => simp [h0, bind, Except.bind] at h
  | ok o =>
      obtain ⟨l, rfl⟩ := evalPiece_long p hp o h0
      cases h1 : ps.mapM evalPiece with
      | error e => simp [h0, h1, bind, Except.bind] at h
      | ok os => simp [h0, h1, bind, Except.bind, pure, Except.pure] at h

/-- the result of `from_str` when every chord comes back and no nesting happens: the re-read chords, flat -/
def flatResult (s : List Item) : List Obj := s.map (fun i => Obj.chord (rereadItem i))

theorem mapM_singletons (cs : List ItemCode) (s : List Item)
    (h : List.Forall₂ (fun ic i => evalItem ic = .ok (rereadItem i)) cs s) :
    (cs.map (fun y => [y])).mapM evalPiece = .ok (flatResult s) := by
  induction h with
  | nil => rfl
  | cons hx _ ih =>
      simp only [List.map_cons, List.mapM_cons, evalPiece_single _ _ hx, ih, bind, Except.bind, pure, Except.pure, flatResult]

/-- case 1: every chord after the first is plain — the pieces are the chords -/
theorem fromStr_all_plain (cs : List ItemCode) (s : List Item) (hne : s ≠ [])
    (h : List.Forall₂ (fun ic i => evalItem ic = .ok (rereadItem i)) cs s)
    (hp : ∀ y ∈ cs.tail, y.isPlain = true) :
    fromStr cs = .ok (flatResult s) := by
  unfold fromStr
  simp only [pieces_all_plain cs hp, mapM_singletons cs s h, bind, Except.bind]
  cases s with
  | nil => exact absurd rfl hne
  | cons i s => simp [flatResult, pure, Except.pure]

/-- case 2: the second chord is a custom chord — the assertion fails and the whole text is evaluated
as one sum, whose copies change nothing -/
theorem fromStr_second_custom (a b : ItemCode) (rest : List ItemCode) (s : List Item)
    (hall : (a :: b :: rest).mapM evalItem = .ok (s.map rereadItem)) (hok : ∀ i ∈ s, ItemOK i)
    (hb : b.isPlain = false) :
    fromStr (a :: b :: rest) = .ok (flatResult s) := by
  obtain ⟨p, ps, hpc, hlen⟩ := pieces_second_custom a b rest hb
  unfold fromStr
  simp only [hpc]
  have hv := viaPieces_fails p ps hlen
  cases hvia : ((p :: ps).mapM evalPiece >>= fun objs =>
      match objs with
      | .chord _ :: _ => (pure objs : Res (List Obj))
      | _ => .error .assertion) with
  | ok objs => exact absurd hvia (hv objs)
  | error e =>
      simp only [bind, Except.bind] at hvia
      simp only [bind, Except.bind, hvia, hall]
      have hlen2 : (s.map rereadItem).length = (a :: b :: rest).length := mapM_length _ _ _ hall
      have hfix : sumItems (s.map rereadItem) = s.map rereadItem := by
        apply sumItems_fixed
        intro x hx
        obtain ⟨i, hi, rfl⟩ := List.mem_map.mp hx
        exact copyItem_reread i (hok i hi)
      cases hs : s.map rereadItem with
      | nil => rw [hs] at hlen2; simp at hlen2
      | cons x xs =>
          rw [hs] at hfix
          simp only [pure, Except.pure, hfix]
          simp [flatResult, ← hs]

end MV.Text
