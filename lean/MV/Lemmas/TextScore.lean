/-
Lemmas for C05, part 3: custom chords, items, `Score.from_str` (the pieces of the repaired split: one
per chord).
-/
import MV.Lemmas.TextChord

namespace MV.Text
open MV Gen

/-! ### custom chords -/

/-- closed form of a custom chord's round trip: its notes and parts re-read; degree and extension
are not printed (a `CustomChord` is built with degree 0 and extension `''`) -/
def rereadCustom (c : Custom) : Custom :=
  { notes := c.notes.map rereadNote
    chord := { elem := 0, ext := {}, ton := c.chord.ton, oct := c.chord.oct, parts := rereadParts c.chord.parts } }

structure CustomOK (c : Custom) : Prop where
  deg : 0 ≤ c.chord.ton.deg ∧ c.chord.ton.deg < 12
  notes : ∀ n ∈ c.notes, InLibrary n ∧ Den n.dur ∧ n.tags.Nodup
  parts : ∀ p ∈ c.chord.parts, PartOK p
  names : (c.chord.parts.map Prod.fst).Nodup

theorem mapM_noteCodes (ns : List Note) (h : ∀ n ∈ ns, InLibrary n ∧ Den n.dur ∧ n.tags.Nodup) :
    (ns.map noteCode).mapM evalCode = .ok (ns.map rereadNote) := by
  have := mapM_ok (fun n => evalCode (noteCode n)) rereadNote ns
    (fun n hn => evalCode_noteCode n (h n hn).1 (h n hn).2.1 (h n hn).2.2)
  rw [← this]
  clear this h
  induction ns with
  | nil => rfl
  | cons x xs ih => simp only [List.map_cons, List.mapM_cons, ih]

theorem custom_code_eval (c : Custom) (h : CustomOK c) :
    ∃ cc, customCode c = .ok cc ∧ evalCustom cc = .ok (rereadCustom c) := by
  obtain ⟨tc, htc, hte⟩ := tonality_code_eval c.chord.ton h.deg.1 h.deg.2
  refine ⟨{ ton := tc, notes := c.notes.map noteCode, oct := chordOct c.chord.oct, parts := partCodes c.chord.parts }, ?_, ?_⟩
  · simp only [customCode, htc, bind, Except.bind, pure, Except.pure]
  · unfold evalCustom
    simp only [hte, mapM_noteCodes c.notes h.notes, bind, Except.bind]
    rw [chordO_head _ rfl normalize_empty rfl]
    rw [callChord_reread _ rfl normalize_empty c.chord.parts h.parts h.names]
    rfl

/-! ### items -/

def rereadItem : Item → Item
  | .plain c => .plain (rereadChord c)
  | .custom c => .custom (rereadCustom c)

def ItemOK : Item → Prop
  | .plain c => ChordOK c
  | .custom c => CustomOK c

def Item.isPlain : Item → Bool
  | .plain _ => true
  | .custom _ => false

/-- every degree name of the generated table starts with `I` or `V` -/
theorem degree_syms_cut : ∀ p ∈ DEGREE_TO_STR, (parseDegree p.2).all (fun c => cutSym c.sym) = true := by decide +kernel

theorem tonCode_sym (t : Tonality) (tc : TCode) (h : tonCode t = .ok tc) : cutSym tc.sym = true := by
  unfold tonCode lookupKey at h
  cases hl : DEGREE_TO_STR.lookup t.deg with
  | none => simp [hl, bind, Except.bind] at h
  | some s =>
      have hp := degree_syms_cut _ (lookup_mem _ _ _ hl)
      simp only [hl, bind, Except.bind] at h
      cases hc : parseDegree s with
      | none => simp [hc] at h
      | some c =>
          simp only [hc, pure, Except.pure] at h
          injection h with h
          subst h
          simpa [hc] using hp

theorem item_code_eval (i : Item) (h : ItemOK i) :
    ∃ ic, itemCode i = .ok ic ∧ evalItem ic = .ok (rereadItem i) ∧ ic.cutBefore = true := by
  cases i with
  | plain c =>
      obtain ⟨cc, h1, h2⟩ := chord_code_eval c h
      exact ⟨.plain cc, by simp [itemCode, h1, bind, Except.bind, pure, Except.pure],
        by simp [evalItem, h2, bind, Except.bind, pure, Except.pure, rereadItem], rfl⟩
  | custom c =>
      obtain ⟨cc, h1, h2⟩ := custom_code_eval c h
      refine ⟨.custom cc, by simp [itemCode, h1, bind, Except.bind, pure, Except.pure],
        by simp [evalItem, h2, bind, Except.bind, pure, Except.pure, rereadItem], ?_⟩
      -- the text of a custom chord starts with the symbol of its tonality
      have hton : ∃ tc, tonCode c.chord.ton = .ok tc ∧ cc.ton = tc := by
        unfold customCode at h1
        cases ht : tonCode c.chord.ton with
        | error e => simp [ht, bind, Except.bind] at h1
        | ok tc =>
            simp only [ht, bind, Except.bind, pure, Except.pure] at h1
            injection h1 with h1
            exact ⟨tc, rfl, by rw [← h1]⟩
      obtain ⟨tc, ht, hcc⟩ := hton
      have := tonCode_sym _ _ ht
      simp only [ItemCode.cutBefore, hcc]
      exact this

/-- the codes of a score, with what each evaluates to -/
theorem score_codes (s : List Item) (h : ∀ i ∈ s, ItemOK i) :
    ∃ cs, scoreCodes s = .ok cs ∧ (∀ ic ∈ cs, ic.cutBefore = true)
      ∧ List.Forall₂ (fun ic i => evalItem ic = .ok (rereadItem i)) cs s := by
  induction s with
  | nil => exact ⟨[], rfl, by simp, List.Forall₂.nil⟩
  | cons i s ih =>
      obtain ⟨ic, h1, h2, h3⟩ := item_code_eval i (h i (by simp))
      obtain ⟨cs, g1, g3, g4⟩ := ih (fun j hj => h j (by simp [hj]))
      refine ⟨ic :: cs, ?_, ?_, List.Forall₂.cons h2 g4⟩
      · unfold scoreCodes at g1 ⊢
        simp only [List.mapM_cons, h1, g1, bind, Except.bind, pure, Except.pure]
      · intro x hx
        rcases List.mem_cons.mp hx with rfl | hx
        · exact h3
        · exact g3 x hx

/-! ### `Score.from_str`: the pieces -/

theorem go_all_cut (x : ItemCode) (ys : List ItemCode) (h : ∀ y ∈ ys, y.cutBefore = true) :
    pieces.go [x] ys = [x] :: ys.map (fun y => [y]) := by
  induction ys generalizing x with
  | nil => rfl
  | cons y ys ih =>
      simp only [pieces.go, h y (by simp), ↓reduceIte, List.reverse_cons, List.reverse_nil, List.nil_append, List.map_cons]
      rw [ih y (fun z hz => h z (by simp [hz]))]

/-- the text is cut between all chords -/
theorem pieces_all_cut (cs : List ItemCode) (h : ∀ y ∈ cs.tail, y.cutBefore = true) :
    pieces cs = cs.map (fun y => [y]) := by
  cases cs with
  | nil => rfl
  | cons x rest => simpa [pieces] using go_all_cut x rest h

theorem evalPiece_single (ic : ItemCode) (i : Item) (h : evalItem ic = .ok i) : evalPiece [ic] = .ok (.chord i) := by
  simp [evalPiece, List.mapM_cons, List.mapM_nil, h, bind, Except.bind, pure, Except.pure]

/-- the result of `from_str` when every chord comes back: the re-read chords, flat -/
def flatResult (s : List Item) : List Obj := s.map (fun i => Obj.chord (rereadItem i))

theorem mapM_singletons (cs : List ItemCode) (s : List Item)
    (h : List.Forall₂ (fun ic i => evalItem ic = .ok (rereadItem i)) cs s) :
    (cs.map (fun y => [y])).mapM evalPiece = .ok (flatResult s) := by
  induction h with
  | nil => rfl
  | cons hx _ ih =>
      simp only [List.map_cons, List.mapM_cons, evalPiece_single _ _ hx, ih, bind, Except.bind, pure, Except.pure, flatResult]

/-- every piece is one chord, the first piece is a chord, the assertion holds: the pieces are the result -/
theorem fromStr_all_cut (cs : List ItemCode) (s : List Item) (hne : s ≠ [])
    (h : List.Forall₂ (fun ic i => evalItem ic = .ok (rereadItem i)) cs s)
    (hp : ∀ y ∈ cs.tail, y.cutBefore = true) :
    fromStr cs = .ok (flatResult s) := by
  unfold fromStr
  simp only [pieces_all_cut cs hp, mapM_singletons cs s h, bind, Except.bind]
  cases s with
  | nil => exact absurd rfl hne
  | cons i s => simp [flatResult, pure, Except.pure]

end MV.Text
