/-
Lemmas for C13: what is written at each instant of a part (`den`), and the window lemma:
cutting a line at a window and tying the cut notes with continuations shows, inside the
window, exactly what the line shows; the projected score is the source seen window by window.
-/
import MV.Lemmas.Project
namespace MV.Proj
open MV

/-! ### what is written at each instant of a part -/

/-- the written symbol of a note: everything but its duration -/
def sym (n : Note) : Note := { n with dur := 0 }

/-- a sounding event: onset and written symbol -/
abbrev Ev := Rat × Note

/-- the event an item starting at `t` makes current, given the one current before it:
a rest ends it, a continuation keeps it, any other note starts a new one -/
def step (cy : Option Ev) (t : Rat) (n : Note) : Option Ev :=
  if n.kind = .r then none else if n.kind = .l then cy else some (t, sym n)

/-- the event current at instant `τ` in a line of notes starting at `t` (`cy`: the event
current just before the line) -/
def den : Option Ev → List Note → Rat → Rat → Option Ev
  | _, [], _, _ => none
  | cy, n :: ns, t, τ =>
      if τ < t + n.dur then (if t ≤ τ then step cy t n else none)
      else den (step cy t n) ns (t + n.dur) τ

/-- the event current at the end of the line -/
def out : Option Ev → List Note → Rat → Option Ev
  | cy, [], _ => cy
  | cy, n :: ns, t => out (step cy t n) ns (t + n.dur)

/-- the event current just before instant `a`: the items starting before `a` are played -/
def carryAt : Option Ev → List Note → Rat → Rat → Option Ev
  | cy, [], _, _ => cy
  | cy, n :: ns, t, a => if t < a then carryAt (step cy t n) ns (t + n.dur) a else cy

/-- line items with a flag: `true` marks the rest standing for a chord in which the part is absent -/
abbrev Item := Note × Bool

def cutItem (x : Item) (o a b : Rat) : Option Note :=
  if b ≤ o then none
  else if o < a then
    (if o + x.1.dur ≤ a then none
     else some (if x.2 then silence (min (o + x.1.dur) b - a) else continuation (min (o + x.1.dur) b - a)))
  else some { x.1 with dur := min x.1.dur (b - o) }

/-- `cutSpec` on flagged items: a flagged rest that started before the window stays a rest -/
def cutSpecF : List Item → Rat → Rat → Rat → List Note
  | [], _, _, _ => []
  | x :: xs, t, a, b => (cutItem x t a b).toList ++ cutSpecF xs (t + x.1.dur) a b

def notes (l : List Item) : List Note := l.map (·.1)

/-- flagged items are rests, every item lasts -/
def ItemsOK (l : List Item) : Prop := ∀ x ∈ l, 0 < x.1.dur ∧ (x.2 = true → x.1.kind = .r)

theorem cutSpecF_after (xs : List Item) (t a b : Rat) (h : ItemsOK xs) (hb : b ≤ t) : cutSpecF xs t a b = [] := by
  induction xs generalizing t with
  | nil => rfl
  | cons x xs ih =>
    have h1 := (h x (by simp)).1
    simp only [cutSpecF, cutItem, hb, if_true, Option.toList_none, List.nil_append]
    exact ih (t + x.1.dur) (fun y hy => h y (by simp [hy])) (by grind)

theorem carryAt_early (cy : Option Ev) (ns : List Note) (t a : Rat) (h : a ≤ t) : carryAt cy ns t a = cy := by
  cases ns with
  | nil => rfl
  | cons n ns => unfold carryAt; rw [if_neg (by grind)]

theorem den_before (cy : Option Ev) (ns : List Note) (t τ : Rat) (h : τ < t) (hd : ∀ n ∈ ns, 0 ≤ n.dur) :
    den cy ns t τ = none := by
  cases ns with
  | nil => rfl
  | cons n ns =>
    have := hd n (by simp)
    unfold den; rw [if_pos (by grind), if_neg (by grind)]

theorem step_sym (cy : Option Ev) (t : Rat) (n : Note) (d : Rat) : step cy t { n with dur := d } = step cy t n := rfl

theorem step_cont_of_rest (cy : Option Ev) (t a e : Rat) (n : Note) (h : n.kind = .r) :
    step (step cy t n) a (silence e) = step cy t n := by
  simp [step, h, silence]

theorem step_cont (c : Option Ev) (a e : Rat) : step c a (continuation e) = c := by
  simp [step, continuation]

/-- **window lemma**: seen through the window `[a, b)`, a line shows at every instant of the window what
it shows itself, and hands over at `b` the event current there -/
theorem window_flat (xs : List Item) (cy : Option Ev) (t a b : Rat) (h : ItemsOK xs) (hab : a < b) :
    (∀ τ, a ≤ τ → τ < b → den (carryAt cy (notes xs) t a) (cutSpecF xs t a b) (max a t) τ = den cy (notes xs) t τ) ∧
    out (carryAt cy (notes xs) t a) (cutSpecF xs t a b) (max a t) = carryAt cy (notes xs) t b := by
  induction xs generalizing t cy with
  | nil => exact ⟨fun τ _ _ => rfl, rfl⟩
  | cons x xs ih =>
    have hx := h x (by simp)
    have hr : ItemsOK xs := fun y hy => h y (by simp [hy])
    have hnn : ∀ n ∈ notes xs, 0 ≤ n.dur := by
      intro n hn
      simp only [notes, List.mem_map] at hn
      obtain ⟨y, hy, rfl⟩ := hn
      have := (hr y hy).1; grind
    simp only [notes, List.map_cons] at *
    by_cases c1 : b ≤ t
    · -- the line starts after the window
      rw [cutSpecF_after _ _ _ _ h c1]
      constructor
      · intro τ h1 h2
        simp only [den]
        rw [if_pos (by grind), if_neg (by grind)]
      · simp only [out, carryAt]
        rw [if_neg (by grind), if_neg (by grind)]
    · by_cases c2 : t < a
      · by_cases c3 : t + x.1.dur ≤ a
        · -- item entirely before the window
          have hci : cutItem x t a b = none := by unfold cutItem; rw [if_neg c1, if_pos c2, if_pos c3]
          have hm : max a (t + x.1.dur) = max a t := by grind
          have := ih (step cy t x.1) (t + x.1.dur)  hr
          simp only [cutSpecF, hci, Option.toList_none, List.nil_append, carryAt, c2, if_true]
          rw [← hm]
          constructor
          · intro τ h1 h2
            rw [this.1 τ h1 h2]
            conv => rhs; unfold den
            rw [if_neg (by grind)]
          · rw [this.2]
            have : t < b := by grind
            simp only [this, if_true]
        · -- item straddling the start of the window
          have hci : cutItem x t a b = some (if x.2 then silence (min (t + x.1.dur) b - a) else continuation (min (t + x.1.dur) b - a)) := by
            unfold cutItem; rw [if_neg c1, if_pos c2, if_neg c3]
          have hca : carryAt cy (x.1 :: List.map (fun x => x.1) xs) t a = step cy t x.1 := by
            unfold carryAt; rw [if_pos c2, carryAt_early _ _ _ _ (by grind)]
          have hma : max a t = a := by grind
          have hst : step (step cy t x.1) a (if x.2 then silence (min (t + x.1.dur) b - a) else continuation (min (t + x.1.dur) b - a)) = step cy t x.1 := by
            by_cases hf : x.2 = true
            · rw [if_pos hf]; exact step_cont_of_rest _ _ _ _ _ (hx.2 hf)
            · rw [if_neg hf]; exact step_cont _ _ _
          have hdur : (if x.2 then silence (min (t + x.1.dur) b - a) else continuation (min (t + x.1.dur) b - a)).dur = min (t + x.1.dur) b - a := by
            by_cases hf : x.2 = true
            · rw [if_pos hf]; rfl
            · rw [if_neg hf]; rfl
          have := ih (step cy t x.1) (t + x.1.dur) hr
          rw [carryAt_early _ _ _ _ (by grind)] at this
          have hm2 : max a (t + x.1.dur) = t + x.1.dur := by grind
          rw [hm2] at this
          simp only [cutSpecF, hci, Option.toList_some, List.singleton_append, hca, hma]
          constructor
          · intro τ h1 h2
            conv => lhs; unfold den
            rw [hst, hdur]
            conv => rhs; unfold den
            by_cases c4 : τ < min (t + x.1.dur) b
            · rw [if_pos (show τ < a + (min (t + x.1.dur) b - a) by grind), if_pos h1,
                if_pos (show τ < t + x.1.dur by grind), if_pos (show t ≤ τ by grind)]
            · have e : a + (min (t + x.1.dur) b - a) = t + x.1.dur := by grind
              rw [if_neg (show ¬ τ < a + (min (t + x.1.dur) b - a) by grind), if_neg (show ¬ τ < t + x.1.dur by grind), e]
              exact this.1 τ h1 h2
          · conv => lhs; unfold out
            rw [hst, hdur]
            conv => rhs; unfold carryAt
            rw [if_pos (by grind)]
            by_cases c4 : t + x.1.dur < b
            · have e : a + (min (t + x.1.dur) b - a) = t + x.1.dur := by grind
              rw [e]; exact this.2
            · rw [cutSpecF_after _ _ _ _ hr (by grind), carryAt_early _ _ _ _ (by grind)]; rfl
      · -- item starting inside the window
        have hci : cutItem x t a b = some { x.1 with dur := min x.1.dur (b - t) } := by
          unfold cutItem; rw [if_neg c1, if_neg c2]
        have hca : carryAt cy (x.1 :: List.map (fun x => x.1) xs) t a = cy := carryAt_early _ _ _ _ (by grind)
        have hma : max a t = t := by grind
        have := ih (step cy t x.1) (t + x.1.dur) hr
        rw [carryAt_early _ _ _ _ (by grind)] at this
        have hm2 : max a (t + x.1.dur) = t + x.1.dur := by grind
        rw [hm2] at this
        simp only [cutSpecF, hci, Option.toList_some, List.singleton_append, hca, hma]
        constructor
        · intro τ h1 h2
          conv => lhs; unfold den
          conv => rhs; unfold den
          simp only [step_sym]
          by_cases c4 : τ < t + min x.1.dur (b - t)
          · rw [if_pos c4, if_pos (show τ < t + x.1.dur by grind)]
          · have e : t + min x.1.dur (b - t) = t + x.1.dur := by grind
            rw [if_neg c4, if_neg (show ¬ τ < t + x.1.dur by grind), e]
            exact this.1 τ h1 h2
        · conv => lhs; unfold out
          conv => rhs; unfold carryAt
          simp only [step_sym]
          rw [if_pos (by grind)]
          by_cases c4 : t + x.1.dur < b
          · have e : t + min x.1.dur (b - t) = t + x.1.dur := by grind
            rw [e]; exact this.2
          · rw [cutSpecF_after _ _ _ _ hr (by grind), carryAt_early _ _ _ _ (by grind)]; rfl

theorem notes_nonneg (xs : List Item) (h : ItemsOK xs) : ∀ n ∈ notes xs, 0 ≤ n.dur := by
  intro n hn
  simp only [notes, List.mem_map] at hn
  obtain ⟨y, hy, rfl⟩ := hn
  have := (h y hy).1; grind

theorem cutSpecF_append (l1 l2 : List Item) (t a b : Rat) :
    cutSpecF (l1 ++ l2) t a b = cutSpecF l1 t a b ++ cutSpecF l2 (t + melodyDuration (notes l1)) a b := by
  induction l1 generalizing t with
  | nil => simp only [List.nil_append, cutSpecF, notes, List.map_nil, mdur_nil]; congr 1; grind
  | cons x xs ih =>
    simp only [List.cons_append, cutSpecF, ih, List.append_assoc, notes, List.map_cons, mdur_cons]
    congr 3; grind

theorem cutSpecF_before (xs : List Item) (t a b : Rat) (h : ItemsOK xs) (hb : t + melodyDuration (notes xs) ≤ a)
    (hab : a < b) : cutSpecF xs t a b = [] := by
  induction xs generalizing t with
  | nil => rfl
  | cons x xs ih =>
    have hx := (h x (by simp)).1
    have hr : ItemsOK xs := fun y hy => h y (by simp [hy])
    have hD := mdur_nonneg (notes xs) (notes_nonneg xs hr)
    simp only [notes, List.map_cons, mdur_cons] at hb hD
    have hci : cutItem x t a b = none := by
      unfold cutItem; rw [if_neg (by grind), if_pos (by grind), if_pos (by grind)]
    simp only [cutSpecF, hci, Option.toList_none, List.nil_append]
    exact ih _ hr (by simp only [notes]; grind)

theorem cutSpecF_unflagged (m : List Note) (t a b : Rat) : cutSpecF (m.map (·, false)) t a b = cutSpec m t a b := by
  induction m generalizing t with
  | nil => rfl
  | cons n ns ih =>
    simp only [List.map_cons, cutSpecF, cutSpec, ih]
    congr 2

theorem cutNote_shift (n : Note) (t a b k : Rat) : cutNote n (t - k) (a - k) (b - k) = cutNote n t a b := by
  unfold cutNote
  by_cases c1 : b ≤ t
  · rw [if_pos c1, if_pos (by grind)]
  · rw [if_neg c1, if_neg (by grind)]
    by_cases c2 : t < a
    · rw [if_pos c2, if_pos (by grind)]
      by_cases c3 : t + n.dur ≤ a
      · rw [if_pos c3, if_pos (by grind)]
      · rw [if_neg c3, if_neg (by grind)]
        congr 2; grind
    · rw [if_neg c2, if_neg (by grind)]
      have : min n.dur (b - k - (t - k)) = min n.dur (b - t) := by grind
      rw [this]

theorem cutSpec_shift (m : List Note) (t a b k : Rat) : cutSpec m (t - k) (a - k) (b - k) = cutSpec m t a b := by
  induction m generalizing t with
  | nil => rfl
  | cons n ns ih =>
    simp only [cutSpec, cutNote_shift]
    have : t - k + n.dur = (t + n.dur) - k := by grind
    rw [this, ih]

/-- the line of a part with the stand-in rests of absent chords flagged -/
def gatherF (s : List Chord) (p : String) : List Item :=
  s.flatMap (fun c => match c.parts.lookup p with
    | some m => m.map (·, false)
    | none => [(silence c.dur, true)])

theorem notes_gatherF (s : List Chord) (p : String) : notes (gatherF s p) = gather s p := by
  induction s with
  | nil => rfl
  | cons c cs ih =>
    unfold gatherF gather at *
    simp only [notes, List.flatMap_cons, List.map_append] at *
    rw [ih]
    congr 1
    cases c.parts.lookup p with
    | none => rfl
    | some m => simp [List.map_map, Function.comp_def]

theorem lookup_mem (l : List (String × Melody)) (p : String) (m : Melody) (h : l.lookup p = some m) : (p, m) ∈ l := by
  obtain ⟨l1, l2, e, _⟩ := List.lookup_eq_some_iff.mp h
  rw [e]; simp

theorem gatherF_ok (s : List Chord) (p : String) (h : ∀ c ∈ s, EqualParts c) : ItemsOK (gatherF s p) := by
  intro x hx
  unfold gatherF at hx
  simp only [List.mem_flatMap] at hx
  obtain ⟨c, hc, hx⟩ := hx
  have hE := h c hc
  cases hl : c.parts.lookup p with
  | none =>
    rw [hl] at hx
    simp only [List.mem_singleton] at hx
    subst hx
    exact ⟨hE.2.2, fun _ => rfl⟩
  | some m =>
    rw [hl] at hx
    simp only [List.mem_map] at hx
    obtain ⟨n, hn, rfl⟩ := hx
    exact ⟨(hE.2.1 (p, m) (lookup_mem _ _ _ hl)).1 n hn, fun hh => by simp at hh⟩

theorem lookup_map_val (l : List (String × Melody)) (f : Melody → Melody) (p : String) :
    (l.map (fun q => (q.1, f q.2))).lookup p = (l.lookup p).map f := by
  induction l with
  | nil => rfl
  | cons x xs ih =>
    obtain ⟨k, v⟩ := x
    cases hpx : (p == k) <;> simp [List.lookup_cons, hpx, ih]

/-- what `put_on_same_chord` gathers from a slice is the window's view of the part's line -/
theorem gather_slice (s : List Chord) (p : String) (u a b : Rat) (h : ∀ c ∈ s, EqualParts c) (hab : a < b) :
    gather (sliceSpec s u a b) p = cutSpecF (gatherF s p) u a b := by
  induction s generalizing u with
  | nil => rfl
  | cons c cs ih =>
    have hc := h c (by simp)
    have hdpos := hc.2.2
    have hr : ∀ x ∈ cs, EqualParts x := fun x hx => h x (by simp [hx])
    have hg : gatherF (c :: cs) p = gatherF [c] p ++ gatherF cs p := by
      unfold gatherF; simp only [List.flatMap_cons, List.flatMap_nil, List.append_nil]
    have hok1 : ItemsOK (gatherF [c] p) := gatherF_ok [c] p (fun x hx => by simp at hx; subst hx; exact hc)
    have hd1 : melodyDuration (notes (gatherF [c] p)) = c.dur := by
      rw [notes_gatherF, gather_dur [c] p (fun x hx q hq => by simp at hx; subst hx; exact (hc.2.1 q hq).2)]
      rw [sdur_cons, sdur_nil]; grind
    rw [hg, cutSpecF_append, hd1, ← ih _ hr]
    have hsl : sliceSpec (c :: cs) u a b = (if u + c.dur ≤ a ∨ b ≤ u then [] else [cutChord c (a - u) (b - u)]) ++ sliceSpec cs (u + c.dur) a b := rfl
    rw [hsl]
    have hga : ∀ l1 l2 : List Chord, gather (l1 ++ l2) p = gather l1 p ++ gather l2 p := by
      intro l1 l2; unfold gather; rw [List.flatMap_append]
    rw [hga]
    congr 1
    by_cases c1 : u + c.dur ≤ a ∨ b ≤ u
    · rw [if_pos c1]
      rcases c1 with c1 | c1
      · rw [cutSpecF_before _ _ _ _ hok1 (by rw [hd1]; exact c1) hab]; rfl
      · rw [cutSpecF_after _ _ _ _ hok1 c1]; rfl
    · rw [if_neg c1]
      unfold gather gatherF
      simp only [List.flatMap_cons, List.flatMap_nil, List.append_nil]
      have hlk : (cutChord c (a - u) (b - u)).parts.lookup p = (c.parts.lookup p).map (fun m => cutSpec m 0 (a - u) (b - u)) := by
        exact lookup_map_val c.parts (fun m => cutSpec m 0 (a - u) (b - u)) p
      rw [hlk]
      cases hl : c.parts.lookup p with
      | some m =>
        simp only [Option.map_some]
        rw [cutSpecF_unflagged]
        have := cutSpec_shift m u a b u
        rw [← this]; congr 1; grind
      | none =>
        simp only [Option.map_none]
        rw [cutChord_dur c _ _ hc (by grind)]
        simp only [cutSpecF, cutItem]
        rw [if_neg (by grind)]
        by_cases c2 : u < a
        · rw [if_pos c2, if_neg (by simp only [silence]; grind)]
          simp only [if_true, Option.toList_some, List.append_nil, silence]
          congr 2; grind
        · rw [if_neg c2]
          simp only [Option.toList_some, List.append_nil, silence]
          congr 2; grind

theorem den_append (cy : Option Ev) (l1 l2 : List Note) (t τ : Rat) (h : ∀ n ∈ l1, 0 ≤ n.dur)
    (h2 : ∀ n ∈ l2, 0 ≤ n.dur) :
    den cy (l1 ++ l2) t τ =
      if τ < t + melodyDuration l1 then den cy l1 t τ else den (out cy l1 t) l2 (t + melodyDuration l1) τ := by
  induction l1 generalizing t cy with
  | nil =>
    have e : t + melodyDuration [] = t := by rw [mdur_nil]; grind
    simp only [List.nil_append, e, out]
    split
    · rename_i c; rw [den_before _ _ _ _ c h2]; rfl
    · rfl
  | cons n ns ih =>
    have h1 := h n (by simp)
    have hr : ∀ x ∈ ns, 0 ≤ x.dur := fun x hx => h x (by simp [hx])
    have hD := mdur_nonneg ns hr
    have e : t + n.dur + melodyDuration ns = t + melodyDuration (n :: ns) := by rw [mdur_cons]; grind
    simp only [List.cons_append, den, out]
    by_cases c : τ < t + n.dur
    · rw [if_pos c, if_pos (show τ < t + melodyDuration (n :: ns) by rw [mdur_cons]; grind), if_pos c]
    · rw [if_neg c, ih _ _ hr, e, if_neg c]

theorem out_append (cy : Option Ev) (l1 l2 : List Note) (t : Rat) :
    out cy (l1 ++ l2) t = out (out cy l1 t) l2 (t + melodyDuration l1) := by
  induction l1 generalizing t cy with
  | nil =>
    have e : t + melodyDuration [] = t := by rw [mdur_nil]; grind
    simp only [List.nil_append, e, out]
  | cons n ns ih =>
    have e : t + n.dur + melodyDuration ns = t + melodyDuration (n :: ns) := by rw [mdur_cons]; grind
    simp only [List.cons_append, out, ih, e]

/-- a stretch of rests shows nothing and leaves nothing current -/
theorem den_rests (cy : Option Ev) (l : List Note) (t τ : Rat) (h : ∀ n ∈ l, n.kind = .r) : den cy l t τ = none := by
  induction l generalizing t cy with
  | nil => rfl
  | cons n ns ih =>
    have hk := h n (by simp)
    have hs : step cy t n = none := by simp [step, hk]
    simp only [den, hs]
    split
    · split <;> rfl
    · exact ih _ _ (fun x hx => h x (by simp [hx]))

theorem out_rests (cy : Option Ev) (l : List Note) (t : Rat) (h : ∀ n ∈ l, n.kind = .r) (hne : l ≠ []) :
    out cy l t = none := by
  induction l generalizing t cy with
  | nil => exact absurd rfl hne
  | cons n ns ih =>
    have hk := h n (by simp)
    have hs : step cy t n = none := by simp [step, hk]
    simp only [out, hs]
    cases ns with
    | nil => rfl
    | cons m ms => exact ih _ _ (fun x hx => h x (by simp [hx])) (by simp)

theorem lookup_map_self (l : List String) (g : String → Melody) (p : String) :
    (l.map (fun q => (q, g q))).lookup p = if p ∈ l then some (g p) else none := by
  induction l with
  | nil => rfl
  | cons x xs ih =>
    simp only [List.map_cons, List.lookup_cons, List.mem_cons]
    by_cases c : p = x
    · subst c; simp
    · have : (p == x) = false := by simpa using c
      simp only [this, ih, c, false_or]

theorem mem_instruments (s : List Chord) (p : String) :
    p ∈ instruments s ↔ ∃ c ∈ s, ∃ m, c.parts.lookup p = some m := by
  unfold instruments
  rw [List.mem_eraseDups]
  simp only [List.mem_flatMap, List.mem_map]
  constructor
  · rintro ⟨c, hc, q, hq, rfl⟩
    refine ⟨c, hc, ?_⟩
    cases hl : c.parts.lookup q.1 with
    | some m => exact ⟨m, rfl⟩
    | none =>
      exfalso
      have := List.lookup_eq_none_iff.mp hl q hq
      simp at this
  · rintro ⟨c, hc, m, hm⟩
    exact ⟨c, hc, (p, m), lookup_mem _ _ _ hm, rfl⟩

theorem gather_rests (s : List Chord) (p : String) (h : p ∉ instruments s) : ∀ n ∈ gather s p, n.kind = .r := by
  intro n hn
  unfold gather at hn
  simp only [List.mem_flatMap] at hn
  obtain ⟨c, hc, hn⟩ := hn
  cases hl : c.parts.lookup p with
  | some m => exact absurd ((mem_instruments s p).mpr ⟨c, hc, m, hl⟩) h
  | none =>
    rw [hl] at hn
    simp only [List.mem_singleton] at hn
    subst hn; rfl


theorem gather_cons (c : Chord) (cs : List Chord) (p : String) :
    gather (c :: cs) p = (match c.parts.lookup p with | some m => m | none => [silence c.dur]) ++ gather cs p := by
  rfl

theorem cutSpecF_nonneg (xs : List Item) (t a b : Rat) (h : ItemsOK xs) (hab : a ≤ b) :
    ∀ n ∈ cutSpecF xs t a b, 0 ≤ n.dur := by
  induction xs generalizing t with
  | nil => intro n hn; simp [cutSpecF] at hn
  | cons x xs ih =>
    have hx := (h x (by simp)).1
    have hr : ItemsOK xs := fun y hy => h y (by simp [hy])
    intro n hn
    simp only [cutSpecF, List.mem_append] at hn
    rcases hn with hn | hn
    · unfold cutItem at hn
      split at hn
      · simp at hn
      · split at hn
        · split at hn
          · simp at hn
          · simp only [Option.toList_some, List.mem_singleton] at hn
            subst hn
            split <;> simp only [silence, continuation] <;> grind
        · simp only [Option.toList_some, List.mem_singleton] at hn; subst hn; simp only []; grind
    · exact ih _ hr n hn

theorem projSpec_nil_of_ge (src : Score) (tgt : List Chord) (a : Rat) (hs : ∀ c ∈ src, 0 < c.dur)
    (ht : ∀ c ∈ tgt, 0 < c.dur) (ha : 0 ≤ a) (hD : scoreDuration src ≤ a) : projSpec src tgt a = [] := by
  cases tgt with
  | nil => rfl
  | cons c2 cs =>
    have hd := ht c2 (by simp)
    have he : sliceSpec src 0 a (a + c2.dur) = [] :=
      (sliceSpec_nil_iff src 0 a (a + c2.dur) hs (by grind) ha).mpr (by grind)
    simp only [projSpec, he, List.isEmpty_nil, if_true]

/-- the line of part `p` inside the chord built for the window `[a, b)` behaves like the window's
view of the source line: same events at every instant, same event handed over, same length -/
theorem window_part (src : Score) (c2 : Chord) (p : String) (a b : Rat) (hs : ∀ c ∈ src, EqualParts c)
    (ha : 0 ≤ a) (hab : a < b) (hD : a < scoreDuration src) (cy : Option Ev) :
    let Wp := match (windowChord src c2 a b).parts.lookup p with
      | some m => m
      | none => [silence (windowChord src c2 a b).dur]
    let Y := cutSpecF (gatherF src p) 0 a b
    (∀ τ, den cy Wp a τ = den cy Y a τ) ∧ out cy Wp a = out cy Y a ∧
      melodyDuration Wp = min b (scoreDuration src) - a ∧ (∀ n ∈ Wp, 0 ≤ n.dur) := by
  intro Wp Y
  have hw := windowChord_dur src c2 a b hs ha hab hD
  have hY : Y = gather (sliceSpec src 0 a b) p := (gather_slice src p 0 a b hs hab).symm
  have hlk : (windowChord src c2 a b).parts.lookup p =
      if p ∈ instruments (sliceSpec src 0 a b) then some (gather (sliceSpec src 0 a b) p) else none := by
    unfold windowChord; exact lookup_map_self _ _ _
  by_cases hp : p ∈ instruments (sliceSpec src 0 a b)
  · have hWp : Wp = Y := by
      show (match (windowChord src c2 a b).parts.lookup p with | some m => m | none => _) = Y
      rw [hlk, if_pos hp, hY]
    have hmem : (p, Y) ∈ (windowChord src c2 a b).parts := by
      apply lookup_mem; rw [hlk, if_pos hp, hY]
    refine ⟨fun τ => by rw [hWp], by rw [hWp], by rw [hWp]; exact hw.2.1 (p, Y) hmem, ?_⟩
    rw [hWp]
    have hok := gatherF_ok src p hs
    exact cutSpecF_nonneg _ _ _ _ hok (by grind)
  · have hWp : Wp = [silence (windowChord src c2 a b).dur] := by
      show (match (windowChord src c2 a b).parts.lookup p with | some m => m | none => _) = _
      rw [hlk, if_neg hp]
    have hr := gather_rests _ p hp
    rw [← hY] at hr
    have hne : Y ≠ [] := by
      rw [hY]
      have hpos : ∀ c ∈ src, 0 < c.dur := fun c hc => (hs c hc).2.2
      cases hsl : sliceSpec src 0 a b with
      | nil =>
        have := (sliceSpec_nil_iff src 0 a b hpos hab ha).mp hsl
        grind
      | cons x xs =>
        rw [gather_cons]
        cases hl : x.parts.lookup p with
        | some m =>
          exact absurd ((mem_instruments _ p).mpr ⟨x, by rw [hsl]; simp, m, hl⟩) hp
        | none => simp
    refine ⟨fun τ => ?_, ?_, ?_, ?_⟩
    · rw [hWp, den_rests _ _ _ _ hr, den_rests _ _ _ _ (by intro n hn; simp at hn; subst hn; rfl)]
    · rw [hWp, out_rests _ _ _ hr hne, out_rests _ _ _ (by intro n hn; simp at hn; subst hn; rfl) (by simp)]
    · rw [hWp, silence_dur, hw.2.2]
    · rw [hWp]; intro n hn; simp at hn; subst hn; simp only [silence]; rw [hw.2.2]; grind


theorem gather_nonneg (s : List Chord) (p : String) (h : ∀ c ∈ s, ChordWF c) : ∀ n ∈ gather s p, 0 ≤ n.dur := by
  intro n hn
  unfold gather at hn
  simp only [List.mem_flatMap] at hn
  obtain ⟨c, hc, hn⟩ := hn
  cases hl : c.parts.lookup p with
  | some m => rw [hl] at hn; exact (h c hc).2 (p, m) (lookup_mem _ _ _ hl) n hn
  | none =>
    rw [hl] at hn
    simp only [List.mem_singleton] at hn
    subst hn; simp only [silence]; exact dur_nonneg c (h c hc).2

theorem windowChord_wf (src : Score) (c2 : Chord) (a b : Rat) (hs : ∀ c ∈ src, EqualParts c)
    (ha : 0 ≤ a) (hab : a < b) (hD : a < scoreDuration src) : ChordWF (windowChord src c2 a b) := by
  have hw := windowChord_dur src c2 a b hs ha hab hD
  refine ⟨hw.1, ?_⟩
  intro q hq n hn
  unfold windowChord at hq
  simp only [List.mem_map] at hq
  obtain ⟨r, _, rfl⟩ := hq
  simp only [] at hn
  rw [gather_slice src r 0 a b hs hab] at hn
  exact cutSpecF_nonneg _ _ _ _ (gatherF_ok src r hs) (by grind) n hn

theorem projSpec_wf (src : Score) (tgt : List Chord) (a : Rat) (hs : ∀ c ∈ src, EqualParts c)
    (ht : ∀ c ∈ tgt, 0 < c.dur) (ha : 0 ≤ a) : ∀ c ∈ projSpec src tgt a, ChordWF c := by
  have hpos : ∀ c ∈ src, 0 < c.dur := fun c hc => (hs c hc).2.2
  induction tgt generalizing a with
  | nil => intro c hc; simp [projSpec] at hc
  | cons c2 cs ih =>
    have hd := ht c2 (by simp)
    have hr : ∀ c ∈ cs, 0 < c.dur := fun x hx => ht x (by simp [hx])
    intro c hc
    by_cases c1 : a < scoreDuration src
    · simp only [projSpec] at hc
      split at hc
      · simp at hc
      · simp only [List.mem_cons] at hc
        rcases hc with hc | hc
        · subst hc; exact windowChord_wf src c2 a _ hs ha (by grind) c1
        · exact ih _ hr (by grind) c hc
    · rw [projSpec_nil_of_ge src _ a hpos ht ha (by grind)] at hc
      simp at hc

/-- **the projected line**: played from the event current in the source just before `a`, the
line of part `p` in the chords built from instant `a` on shows, at every instant before the
common end, exactly what the source line shows there, and nothing afterwards -/
theorem projSpec_den (src : Score) (tgt : List Chord) (p : String) (a : Rat)
    (hs : ∀ c ∈ src, EqualParts c) (ht : ∀ c ∈ tgt, 0 < c.dur) (ha : 0 ≤ a) :
    ∀ τ, a ≤ τ →
      den (carryAt none (gather src p) 0 a) (gather (projSpec src tgt a) p) a τ =
        if τ < min (scoreDuration src) (a + scoreDuration tgt) then den none (gather src p) 0 τ else none := by
  have hpos : ∀ c ∈ src, 0 < c.dur := fun c hc => (hs c hc).2.2
  induction tgt generalizing a with
  | nil =>
    intro τ hτ
    rw [if_neg (show ¬ τ < min (scoreDuration src) (a + scoreDuration []) by rw [sdur_nil]; grind)]
    rfl
  | cons c2 cs ih =>
    have hd := ht c2 (by simp)
    have hr : ∀ c ∈ cs, 0 < c.dur := fun x hx => ht x (by simp [hx])
    have hT := sdur_nonneg cs (fun x hx => by have := hr x hx; grind)
    intro τ hτ
    rw [sdur_cons]
    by_cases c1 : a < scoreDuration src
    · have hne : sliceSpec src 0 a (a + c2.dur) ≠ [] := by
        intro hh
        have := (sliceSpec_nil_iff src 0 a (a + c2.dur) hpos (by grind) ha).mp hh
        grind
      have hemp : (sliceSpec src 0 a (a + c2.dur)).isEmpty = false := by
        cases hsl : sliceSpec src 0 a (a + c2.dur) with
        | nil => exact absurd hsl hne
        | cons x xs => rfl
      have hps : projSpec src (c2 :: cs) a = windowChord src c2 a (a + c2.dur) :: projSpec src cs (a + c2.dur) := by
        simp only [projSpec, hemp, Bool.false_eq_true, if_false]
      rw [hps, gather_cons]
      have hwp := window_part src c2 p a (a + c2.dur) hs ha (by grind) c1 (carryAt none (gather src p) 0 a)
      simp only [] at hwp
      obtain ⟨hw1, hw2, hw3, hw4⟩ := hwp
      have hwin := window_flat (gatherF src p) none 0 a (a + c2.dur) (gatherF_ok src p hs) (by grind)
      rw [notes_gatherF] at hwin
      have hmax : max a 0 = a := by grind
      rw [hmax] at hwin
      have hnn2 : ∀ n ∈ gather (projSpec src cs (a + c2.dur)) p, 0 ≤ n.dur :=
        gather_nonneg _ p (projSpec_wf src cs _ hs hr (by grind))
      rw [den_append _ _ _ _ _ hw4 hnn2, hw3]
      by_cases c2' : τ < a + (min (a + c2.dur) (scoreDuration src) - a)
      · rw [if_pos c2', hw1, hwin.1 τ hτ (by grind), if_pos (by grind)]
      · rw [if_neg c2', hw2, hwin.2]
        by_cases c3 : a + c2.dur ≤ scoreDuration src
        · have e : a + (min (a + c2.dur) (scoreDuration src) - a) = a + c2.dur := by grind
          rw [e, ih _ hr (by grind) τ (by grind)]
          have e2 : a + c2.dur + scoreDuration cs = a + (c2.dur + scoreDuration cs) := by grind
          rw [e2]
        · rw [projSpec_nil_of_ge src cs _ hpos hr (by grind) (by grind)]
          simp only [gather, List.flatMap_nil, den]
          rw [if_neg (by grind)]
    · rw [projSpec_nil_of_ge src _ a hpos ht ha (by grind)]
      simp only [gather, List.flatMap_nil, den]
      rw [if_neg (by grind)]

end MV.Proj
