/-
Lemmas for C11, event level: what a score plays, track by track, as a fold over the rows of
the track; used for the re-notations that change the layout of the note matrix
(decompose_duration, normalize_instruments).
-/
import MV.Lemmas.RenotateScore
namespace MV
open Gen C02

/-! ### rows of a track -/
/-- the rows of one track read into its sounding notes, from a given state -/
def runRows (acc : List (Int × Rat × Rat) × Bool) (rows : List Row) : List (Int × Rat × Rat) × Bool :=
  (rows.map Row.core).foldl soundStep acc

def trackSound (rows : List Row) : List (Int × Rat × Rat) := (runRows ([], false) rows).1

theorem runRows_append (acc : List (Int × Rat × Rat) × Bool) (a b : List Row) :
    runRows acc (a ++ b) = runRows (runRows acc a) b := by
  unfold runRows; simp only [List.map_append, List.foldl_append]

theorem noteToRow_track (n : Note) (c : Chord) (idx : Nat) (time : Rat) (last : Option Int) (row : Row) (l1 : Option Int)
    (h : noteToRow n c idx time last = .ok (row, l1)) : row.track = idx := by
  unfold noteToRow at h
  simp only [bind, Except.bind, pure, Except.pure] at h
  split at h
  · cases h
  · injection h with h; injection h with h1 _; rw [← h1]

theorem melodyToRows_track (m : Melody) (c : Chord) (idx : Nat) (time : Rat) (last : Option Int) (rows : List Row)
    (l1 : Option Int) (h : melodyToRows m c idx time last = .ok (rows, l1)) : ∀ r ∈ rows, r.track = idx := by
  induction m generalizing time last rows with
  | nil =>
    simp only [melodyToRows, pure, Except.pure] at h
    injection h with h; injection h with h1 _; subst h1; intro r hr; cases hr
  | cons n ns ih =>
    simp only [melodyToRows, bind, Except.bind, pure, Except.pure] at h
    cases hrow : noteToRow n c idx time last with
    | error e => rw [hrow] at h; cases h
    | ok v =>
      obtain ⟨row, l2⟩ := v
      rw [hrow] at h
      simp only at h
      cases hrs : melodyToRows ns c idx (time + n.dur) l2 with
      | error e => rw [hrs] at h; cases h
      | ok w =>
        obtain ⟨rs, l3⟩ := w
        rw [hrs] at h
        simp only at h
        injection h with h; injection h with h1 h2; subst h1; subst h2
        intro r hr
        rcases List.mem_cons.mp hr with rfl | hr
        · exact noteToRow_track n c idx time last r l2 hrow
        · exact ih _ _ rs hrs r hr

theorem trackRows_track (t : String) (idx : Nat) (s : Score) (time : Rat) (last : Option Int) (rows : List Row)
    (h : trackRows t idx s time last = .ok rows) : ∀ r ∈ rows, r.track = idx := by
  induction s generalizing time last rows with
  | nil =>
    simp only [trackRows, pure, Except.pure] at h
    injection h with h; subst h; intro r hr; cases hr
  | cons c cs ih =>
    simp only [trackRows] at h
    split at h
    · rename_i part hpart
      simp only [bind, Except.bind, pure, Except.pure] at h
      cases hm : melodyToRows part c idx time last with
      | error e => rw [hm] at h; cases h
      | ok v =>
        obtain ⟨rs, l1⟩ := v
        rw [hm] at h
        simp only at h
        cases hr : trackRows t idx cs (time + c.dur) l1 with
        | error e => rw [hr] at h; cases h
        | ok rest =>
          rw [hr] at h
          simp only at h
          injection h with h; subst h
          intro r hmem
          rcases List.mem_append.mp hmem with h1 | h1
          · exact melodyToRows_track part c idx time last rs l1 hm r h1
          · exact ih _ _ rest hr r h1
    · exact ih _ _ rows h

/-- rows of other tracks do not matter to a track -/
theorem filter_flatten_tracks (per : List (List Row)) (k i : Nat)
    (h : ∀ j (hj : j < per.length), ∀ r ∈ per[j], r.track = k + j) :
    (per.flatten.map Row.core).filter (fun r => r.2.2.2.1 == i) =
      if i < k then [] else ((per[i - k]?).getD []).map Row.core := by
  induction per generalizing k with
  | nil => simp
  | cons a rest ih =>
    simp only [List.flatten_cons, List.map_append, List.filter_append]
    have ha : ∀ r ∈ a, r.track = k := by
      intro r hr
      have := h 0 (by simp) r (by simpa using hr)
      simpa using this
    have hrest : ∀ j (hj : j < rest.length), ∀ r ∈ rest[j], r.track = (k + 1) + j := by
      intro j hj r hr
      have := h (j + 1) (by simp; omega) r (by simpa using hr)
      omega
    rw [ih (k + 1) hrest]
    have hfa : (a.map Row.core).filter (fun r => r.2.2.2.1 == i) = if i = k then a.map Row.core else [] := by
      by_cases hik : i = k
      · simp only [hik, if_true]
        apply List.filter_eq_self.mpr
        intro r hr
        obtain ⟨x, hx, rfl⟩ := List.mem_map.mp hr
        simp [Row.core, ha x hx]
      · simp only [hik, if_false]
        apply List.filter_eq_nil_iff.mpr
        intro r hr
        obtain ⟨x, hx, rfl⟩ := List.mem_map.mp hr
        simp only [Row.core, ha x hx, beq_iff_eq]
        omega
    rw [hfa]
    by_cases h1 : i < k
    · have : ¬ i = k := by omega
      have h2 : i < k + 1 := by omega
      simp [h1, this, h2]
    · by_cases h2 : i = k
      · subst h2; simp
      · have h3 : ¬ i < k + 1 := by omega
        have h4 : i - k = (i - (k + 1)) + 1 := by omega
        simp only [h1, h2, h3, if_false, List.nil_append]
        rw [h4]; simp

/-! ### what a score plays, track by track -/
theorem range_map_getD {α β : Type} (l : List α) (f : α → β) (d : α) :
    (List.range l.length).map (fun i => f ((l[i]?).getD d)) = l.map f := by
  apply List.ext_getElem
  · simp
  · intro i h1 h2
    simp only [List.length_map, List.length_range] at h1
    simp [List.getElem?_eq_getElem h1]

/-- the per-track rows of `get_notes` -/
def perTrack (s : Score) : Res (List (List Row)) :=
  (trackList s).zipIdx.mapM (fun (x : String × Nat) => trackRows x.1 x.2 s 0 none)

theorem getNotes_perTrack (s : Score) : getNotes s = (perTrack s).bind (fun per => .ok per.flatten) := by
  unfold getNotes perTrack
  rfl

theorem perTrack_tracks (s : Score) (per : List (List Row)) (h : perTrack s = .ok per) :
    per.length = (trackList s).length ∧ ∀ j (hj : j < per.length), ∀ r ∈ per[j], r.track = 0 + j := by
  unfold perTrack at h
  obtain ⟨hlen, hidx⟩ := mapM_index _ _ _ h
  simp only [List.length_zipIdx] at hlen hidx
  refine ⟨hlen, ?_⟩
  intro j hj r hr
  have hj' : j < (trackList s).length := by omega
  have := hidx j hj' []
  simp only [List.getElem_zipIdx] at this
  have hget : per.getD j [] = per[j] := by simp [List.getD_eq_getElem?_getD, List.getElem?_eq_getElem hj]
  rw [hget] at this
  simpa using trackRows_track _ _ s 0 none _ this r hr

/-- **what a score plays, track by track** -/
theorem plays_perTrack (s : Score) (per : List (List Row)) (h : perTrack s = .ok per) :
    plays s = .ok (per.map trackSound) := by
  obtain ⟨hlen, htr⟩ := perTrack_tracks s per h
  unfold plays
  rw [getNotes_perTrack, h]
  simp only [Except.bind, bind, pure, Except.pure]
  congr 1
  unfold soundOfCores
  rw [← hlen, ← range_map_getD per trackSound []]
  apply List.map_congr_left
  intro i _
  rw [filter_flatten_tracks per 0 i htr]
  simp only [Nat.not_lt_zero, if_false, Nat.sub_zero]
  rfl

theorem plays_perTrack_error (s : Score) (e : Err) (h : perTrack s = .error e) : plays s = .error e := by
  unfold plays
  rw [getNotes_perTrack, h]
  rfl

/-- two scores with the same tracks whose tracks sound the same play the same -/
theorem samePlayed_of_tracks (s s' : Score) (hT : trackList s' = trackList s)
    (h : ∀ t idx rows, trackRows t idx s 0 none = .ok rows →
      ∃ rows', trackRows t idx s' 0 none = .ok rows' ∧ trackSound rows' = trackSound rows)
    (snd : List (List (Int × Rat × Rat))) (hp : plays s = .ok snd) : plays s' = .ok snd := by
  cases hper : perTrack s with
  | error e => rw [plays_perTrack_error s e hper] at hp; cases hp
  | ok per =>
    rw [plays_perTrack s per hper] at hp
    injection hp with hp; subst hp
    have hper0 := hper
    unfold perTrack at hper
    obtain ⟨per', hper', hF⟩ := mapM_rel (fun (x : String × Nat) => trackRows x.1 x.2 s 0 none)
      (fun (x : String × Nat) => trackRows x.1 x.2 s' 0 none)
      (fun r r' => trackSound r' = trackSound r) _
      (fun x _ r hx => h x.1 x.2 r hx) per hper
    have hp' : perTrack s' = .ok per' := by unfold perTrack; rw [hT]; exact hper'
    rw [plays_perTrack s' per' hp']
    congr 1
    clear hper hper' hp' hper0
    induction hF with
    | nil => rfl
    | cons h1 _ ih => simp only [List.map_cons, h1, ih]

/-! ### continuation rows -/
theorem contStep_zero (acc : List (Int × Rat × Rat) × Bool) : contStep acc 0 = acc := by
  obtain ⟨evs, b⟩ := acc
  unfold contStep
  cases b with
  | false => rfl
  | true =>
    simp only [if_true]
    cases hr : evs.reverse with
    | nil => rfl
    | cons e before =>
      obtain ⟨p, o, x⟩ := e
      simp only
      have : evs = before.reverse ++ [(p, o, x)] := by
        have := congrArg List.reverse hr
        simpa using this
      rw [this]
      have : x + 0 = x := by grind
      rw [this]

theorem contStep_add (acc : List (Int × Rat × Rat) × Bool) (a b : Rat) :
    contStep (contStep acc a) b = contStep acc (a + b) := by
  obtain ⟨evs, fl⟩ := acc
  unfold contStep
  cases fl with
  | false => rfl
  | true =>
    simp only [if_true]
    cases hr : evs.reverse with
    | nil => simp [hr]
    | cons e before =>
      obtain ⟨p, o, x⟩ := e
      simp only [if_true, List.reverse_append, List.reverse_cons, List.reverse_nil, List.nil_append,
        List.reverse_reverse, List.singleton_append]
      have : x + a + b = x + (a + b) := by grind
      rw [this]

theorem foldl_contStep (acc : List (Int × Rat × Rat) × Bool) (ds : List Rat) :
    ds.foldl contStep acc = contStep acc (sumRat ds) := by
  induction ds generalizing acc with
  | nil => simp only [List.foldl_nil]; unfold sumRat; simp only [List.foldl_nil]; exact (contStep_zero acc).symm
  | cons d r ih => simp only [List.foldl_cons, ih, sumRat_cons, contStep_add]

/-- the row of a continuation of duration `d` at `time` when the last pitch is `l1` -/
def contRow (idx : Nat) (l1 : Option Int) (time d : Rat) : Row :=
  { pitch := 0, offset := time, dur := d, vel := 66, track := idx, silence := l1.isNone, cont := l1.isSome }

theorem noteToRow_continuation (c : Chord) (idx : Nat) (time d : Rat) (l1 : Option Int) :
    noteToRow (continuation d) c idx time l1 = .ok (contRow idx l1 time d, l1) := by
  unfold noteToRow
  rw [C01.pitch_none c (continuation d) _ (Or.inr (Or.inl rfl))]
  simp only [bind, Except.bind, pure, Except.pure, continuation, contRow]
  cases l1 <;> rfl

def contRows (idx : Nat) (l1 : Option Int) : Rat → List Rat → List Row
  | _, [] => []
  | time, d :: ds => contRow idx l1 time d :: contRows idx l1 (time + d) ds

theorem melodyToRows_conts (c : Chord) (idx : Nat) (l1 : Option Int) (ds : List Rat) (time : Rat) :
    melodyToRows (ds.map continuation) c idx time l1 = .ok (contRows idx l1 time ds, l1) := by
  induction ds generalizing time with
  | nil => rfl
  | cons d r ih =>
    simp only [List.map_cons, melodyToRows, noteToRow_continuation, bind, Except.bind, pure, Except.pure, contRows]
    have : (continuation d).dur = d := rfl
    rw [this, ih]

theorem soundStep_contRow (acc : List (Int × Rat × Rat) × Bool) (idx : Nat) (l1 : Option Int) (time d : Rat) :
    soundStep acc (contRow idx l1 time d).core = if l1.isSome then contStep acc d else (acc.1, false) := by
  unfold soundStep contRow Row.core
  cases l1 <;> simp

theorem runRows_contRows (acc : List (Int × Rat × Rat) × Bool) (idx : Nat) (l1 : Option Int) (time : Rat) (ds : List Rat) :
    runRows acc (contRows idx l1 time ds) =
      if l1.isSome then contStep acc (sumRat ds) else (if ds = [] then acc else (acc.1, false)) := by
  cases l1 with
  | some lp =>
    simp only [Option.isSome_some, if_true]
    rw [← foldl_contStep]
    induction ds generalizing acc time with
    | nil => rfl
    | cons d r ih =>
      unfold runRows at ih ⊢
      simp only [contRows, List.map_cons, List.foldl_cons, soundStep_contRow, Option.isSome_some, if_true]
      exact ih _ _
  | none =>
    simp only [Option.isSome_none, Bool.false_eq_true, if_false]
    induction ds generalizing acc time with
    | nil => rfl
    | cons d r ih =>
      unfold runRows at ih ⊢
      simp only [contRows, List.map_cons, List.foldl_cons, soundStep_contRow, Option.isSome_none,
        Bool.false_eq_true, if_false, reduceCtorEq]
      rw [ih]
      by_cases hr : r = [] <;> simp [hr]

/-! ### a decomposed note -/
theorem noteToRow_setDur (n : Note) (c c' : Chord) (hh : SameHead c' c) (idx : Nat) (time : Rat) (last : Option Int)
    (d0 : Rat) (row : Row) (l1 : Option Int) (hr : noteToRow n c idx time last = .ok (row, l1)) :
    noteToRow { n with dur := d0 } c' idx time last = .ok ({ row with dur := d0 }, l1) := by
  unfold noteToRow at hr ⊢
  have hp : noteToPitch c' { n with dur := d0 } (last.getD 0) = noteToPitch c n (last.getD 0) := by
    rw [noteToPitch_congr _ _ hh]
    exact noteToPitch_fields _ _ _ _ rfl rfl rfl rfl rfl
  rw [hp]
  simp only [bind, Except.bind, pure, Except.pure] at hr ⊢
  cases hq : noteToPitch c n (last.getD 0) with
  | error e => rw [hq] at hr; cases hr
  | ok p =>
    rw [hq] at hr
    simp only at hr ⊢
    injection hr with hr; injection hr with h1 h2
    rw [← h1, ← h2]

theorem time_after (time d0 : Rat) (rest : List Rat) (d : Rat) (h : d0 + sumRat rest = d) :
    rest.foldl (· + ·) (time + d0) = time + d := by
  have : ∀ (l : List Rat) (x : Rat), l.foldl (· + ·) x = x + sumRat l := by
    intro l
    induction l with
    | nil => intro x; unfold sumRat; simp only [List.foldl_nil]; grind
    | cons a r ih => intro x; simp only [List.foldl_cons, ih, sumRat_cons]; grind
  rw [this, ← h]; grind

theorem melodyToRows_conts_append (c : Chord) (idx : Nat) (l1 : Option Int) (ds : List Rat) (time : Rat) (tail : Melody) :
    melodyToRows (ds.map continuation ++ tail) c idx time l1 =
      (melodyToRows tail c idx (ds.foldl (· + ·) time) l1).bind
        (fun v => .ok (contRows idx l1 time ds ++ v.1, v.2)) := by
  induction ds generalizing time with
  | nil =>
    simp only [List.map_nil, List.nil_append, List.foldl_nil, contRows]
    cases melodyToRows tail c idx time l1 <;> rfl
  | cons d r ih =>
    simp only [List.map_cons, List.cons_append, melodyToRows, noteToRow_continuation, bind, Except.bind,
      pure, Except.pure, List.foldl_cons, contRows]
    have : (continuation d).dur = d := rfl
    rw [this, ih]
    cases melodyToRows tail c idx (List.foldl (· + ·) (time + d) r) l1 <;> rfl

/-- the rows of a decomposed note followed by anything -/
theorem block_rows (c c' : Chord) (hh : SameHead c' c) (idx : Nat) (time : Rat) (last : Option Int) (n : Note)
    (d0 : Rat) (rest : List Rat) (hsum : d0 + sumRat rest = n.dur) (row : Row) (l1 : Option Int)
    (hr : noteToRow n c idx time last = .ok (row, l1)) (tail : Melody) :
    melodyToRows (({ n with dur := d0 } :: rest.map continuation) ++ tail) c' idx time last =
      (melodyToRows tail c' idx (time + n.dur) l1).bind
        (fun v => .ok ({ row with dur := d0 } :: (contRows idx l1 (time + d0) rest ++ v.1), v.2)) := by
  simp only [List.cons_append, melodyToRows, noteToRow_setDur n c c' hh idx time last d0 row l1 hr, bind,
    Except.bind, pure, Except.pure]
  rw [melodyToRows_conts_append, time_after time d0 rest n.dur hsum]
  cases melodyToRows tail c' idx (time + n.dur) l1 <;> rfl

/-- the shape of a row: which of the three cases of `soundStep` it takes, and the last pitch after it -/
theorem noteToRow_cases (n : Note) (c : Chord) (idx : Nat) (time : Rat) (last : Option Int) (row : Row) (l1 : Option Int)
    (hr : noteToRow n c idx time last = .ok (row, l1)) :
    row.dur = n.dur ∧
    ((row.cont = true ∧ l1.isSome = true) ∨ (row.cont = false ∧ row.silence = true) ∨
     (row.cont = false ∧ row.silence = false ∧ l1.isSome = true)) := by
  unfold noteToRow at hr
  simp only [bind, Except.bind, pure, Except.pure] at hr
  split at hr
  · cases hr
  · injection hr with hr; injection hr with h1 h2
    subst h1 h2
    refine ⟨rfl, ?_⟩
    simp only
    cases (n.kind == Kind.r) <;> cases (n.kind == Kind.l) <;> cases last <;> simp

/-- **a decomposed note sounds like the note**, from every state of its track -/
theorem block_sound (acc : List (Int × Rat × Rat) × Bool) (n : Note) (c : Chord) (idx : Nat) (time : Rat) (last : Option Int)
    (row : Row) (l1 : Option Int) (hr : noteToRow n c idx time last = .ok (row, l1))
    (d0 : Rat) (rest : List Rat) (hsum : d0 + sumRat rest = n.dur) :
    runRows acc ({ row with dur := d0 } :: contRows idx l1 (time + d0) rest) = runRows acc [row] := by
  obtain ⟨hd, hcase⟩ := noteToRow_cases n c idx time last row l1 hr
  have happ : runRows acc ({ row with dur := d0 } :: contRows idx l1 (time + d0) rest)
      = runRows (runRows acc [{ row with dur := d0 }]) (contRows idx l1 (time + d0) rest) := by
    rw [← runRows_append]; rfl
  rw [happ, runRows_contRows]
  have hone : ∀ (r : Row), runRows acc [r] = soundStep acc r.core := fun r => rfl
  rw [hone, hone]
  rcases hcase with ⟨h1, h2⟩ | ⟨h1, h2⟩ | ⟨h1, h2, h3⟩
  · simp only [soundStep, Row.core, h1, if_true, h2, contStep_add, hsum, hd]
  · simp only [soundStep, Row.core, h1, h2, Bool.false_eq_true, if_false, if_true]
    cases hl : l1.isSome with
    | true => simp [contStep]
    | false => by_cases hrest : rest = [] <;> simp [hrest]
  · simp only [soundStep, Row.core, h1, h2, Bool.false_eq_true, if_false, h3, if_true]
    unfold contStep
    simp only [if_true, List.reverse_append, List.reverse_cons, List.reverse_nil, List.nil_append,
      List.singleton_append, List.reverse_reverse, hsum, hd]

/-! ### decompose_duration on melodies, chords, tracks, scores -/
/-- `m'` is `m` with every note decomposed -/
def DecompRel (m m' : Melody) : Prop := ∃ blocks, m.mapM Note.decomposeDuration = .ok blocks ∧ m' = blocks.flatten

theorem decomp_melody_rows (c c' : Chord) (hh : SameHead c' c) (idx : Nat) (m : Melody) (blocks : List Melody)
    (hb : m.mapM Note.decomposeDuration = .ok blocks) (time : Rat) (last : Option Int) (rows : List Row) (l1 : Option Int)
    (hr : melodyToRows m c idx time last = .ok (rows, l1)) :
    ∃ rows', melodyToRows blocks.flatten c' idx time last = .ok (rows', l1) ∧
      ∀ acc, runRows acc rows' = runRows acc rows := by
  induction m generalizing blocks time last rows with
  | nil =>
    simp only [List.mapM_nil, pure, Except.pure] at hb
    injection hb with hb; subst hb
    simp only [melodyToRows, pure, Except.pure] at hr
    injection hr with hr; injection hr with h1 h2; subst h1; subst h2
    exact ⟨[], rfl, fun _ => rfl⟩
  | cons n ns ih =>
    simp only [List.mapM_cons, bind, Except.bind, pure, Except.pure] at hb
    cases hn : n.decomposeDuration with
    | error e => rw [hn] at hb; cases hb
    | ok b =>
      rw [hn] at hb
      simp only at hb
      cases hns : ns.mapM Note.decomposeDuration with
      | error e => rw [hns] at hb; cases hb
      | ok bs =>
        rw [hns] at hb
        simp only at hb
        injection hb with hb; subst hb
        obtain ⟨d0, rest, hbeq, hsum⟩ := decomposeDuration_spec n b hn
        simp only [melodyToRows, bind, Except.bind, pure, Except.pure] at hr
        cases hrow : noteToRow n c idx time last with
        | error e => rw [hrow] at hr; cases hr
        | ok v =>
          obtain ⟨row, l2⟩ := v
          rw [hrow] at hr
          simp only at hr
          cases hrs : melodyToRows ns c idx (time + n.dur) l2 with
          | error e => rw [hrs] at hr; cases hr
          | ok w =>
            obtain ⟨rs, l3⟩ := w
            rw [hrs] at hr
            simp only at hr
            injection hr with hr; injection hr with h1 h2; subst h1; subst h2
            obtain ⟨rs', hrs', hacc⟩ := ih bs hns (time + n.dur) l2 rs hrs
            simp only [List.flatten_cons, hbeq]
            rw [block_rows c c' hh idx time last n d0 rest hsum row l2 hrow bs.flatten, hrs']
            refine ⟨_, rfl, ?_⟩
            intro acc
            have e1 : ({ row with dur := d0 } :: (contRows idx l2 (time + d0) rest ++ rs'))
                = ({ row with dur := d0 } :: contRows idx l2 (time + d0) rest) ++ rs' := by simp
            have e2 : row :: rs = [row] ++ rs := rfl
            simp only
            rw [e1, e2, runRows_append, runRows_append, block_sound acc n c idx time last row l2 hrow d0 rest hsum, hacc]

theorem decomp_melody_duration (m : Melody) (blocks : List Melody) (hb : m.mapM Note.decomposeDuration = .ok blocks) :
    melodyDuration blocks.flatten = melodyDuration m := by
  unfold melodyDuration
  induction m generalizing blocks with
  | nil =>
    simp only [List.mapM_nil, pure, Except.pure] at hb
    injection hb with hb; subst hb; rfl
  | cons n ns ih =>
    simp only [List.mapM_cons, bind, Except.bind, pure, Except.pure] at hb
    cases hn : n.decomposeDuration with
    | error e => rw [hn] at hb; cases hb
    | ok b =>
      rw [hn] at hb
      simp only at hb
      cases hns : ns.mapM Note.decomposeDuration with
      | error e => rw [hns] at hb; cases hb
      | ok bs =>
        rw [hns] at hb
        simp only at hb
        injection hb with hb; subst hb
        obtain ⟨d0, rest, hbeq, hsum⟩ := decomposeDuration_spec n b hn
        simp only [List.flatten_cons, List.map_append, sumRat_append, List.map_cons, sumRat_cons, ih bs hns, hbeq]
        have : (rest.map continuation).map (·.dur) = rest := by
          simp only [List.map_map]
          conv => rhs; rw [← List.map_id rest]
          apply List.map_congr_left
          intro x _; rfl
        rw [this, hsum]

/-- chords related by `decompose_duration` -/
def DecompChordRel (c c' : Chord) : Prop :=
  SameHead c' c ∧ All2 (fun (p p' : String × Melody) => p'.1 = p.1 ∧ DecompRel p.2 p'.2) c.parts c'.parts

theorem chordDecompose_rel (c c' : Chord) (h : c.decomposeDuration = .ok c') : DecompChordRel c c' := by
  unfold Chord.decomposeDuration at h
  simp only [bind, Except.bind, pure, Except.pure] at h
  split at h
  · cases h
  · rename_i parts hp
    injection h with h; subst h
    refine ⟨sameHead_withParts c parts, ?_⟩
    apply mapM_all2 _ _ _ _ _ hp
    intro p _ p' hp'
    unfold melodyDecompose at hp'
    split at hp'
    · cases hp'
    · rename_i v heq
      injection hp' with hp'; subst hp'
      split at heq
      · cases heq
      · cases hm : p.2.mapM Note.decomposeDuration with
        | error e => simp only [hm, bind, Except.bind] at heq; cases heq
        | ok blocks =>
          simp only [hm, bind, Except.bind, pure, Except.pure] at heq
          injection heq with heq; subst heq
          exact ⟨rfl, blocks, hm, rfl⟩

theorem decomp_partDurs (ps ps' : List (String × Melody))
    (h : All2 (fun (p p' : String × Melody) => p'.1 = p.1 ∧ DecompRel p.2 p'.2) ps ps') :
    ps'.map (fun p => melodyDuration p.2) = ps.map (fun p => melodyDuration p.2) := by
  induction h with
  | nil => rfl
  | cons h1 _ ih =>
    obtain ⟨_, blocks, hb, he⟩ := h1
    simp only [List.map_cons, ih, he, decomp_melody_duration _ blocks hb]

theorem decompChord_dur (c c' : Chord) (h : DecompChordRel c c') : c'.dur = c.dur := by
  unfold Chord.dur
  rw [decomp_partDurs _ _ h.2]

theorem decomp_trackRows (t : String) (idx : Nat) (s s' : Score) (h : All2 DecompChordRel s s')
    (time : Rat) (last : Option Int) (rows : List Row) (hr : trackRows t idx s time last = .ok rows) :
    ∃ rows', trackRows t idx s' time last = .ok rows' ∧ ∀ acc, runRows acc rows' = runRows acc rows := by
  induction h generalizing time last rows with
  | nil =>
    simp only [trackRows, pure, Except.pure] at hr ⊢
    injection hr with hr; subst hr; exact ⟨[], rfl, fun _ => rfl⟩
  | @cons c c' cs cs' h1 _ ih =>
    simp only [trackRows] at hr ⊢
    rw [decompChord_dur c c' h1]
    rcases all2_lookup _ _ h1.2 t with ⟨e1, e2⟩ | ⟨m, m', e1, e2, blocks, hb, hm'⟩
    · rw [e1] at hr; rw [e2]
      exact ih _ _ rows hr
    · rw [e1] at hr; rw [e2]
      simp only [bind, Except.bind, pure, Except.pure] at hr ⊢
      cases hrows : melodyToRows m c idx time last with
      | error e => rw [hrows] at hr; cases hr
      | ok v =>
        obtain ⟨rs, l1⟩ := v
        rw [hrows] at hr
        simp only at hr
        cases hrest : trackRows t idx cs (time + c.dur) l1 with
        | error e => rw [hrest] at hr; cases hr
        | ok rest =>
          rw [hrest] at hr
          simp only at hr
          injection hr with hr; subst hr
          obtain ⟨rs', hrs', ha⟩ := decomp_melody_rows c c' h1.1 idx m blocks hb time last rs l1 hrows
          obtain ⟨rest', hrest', hb'⟩ := ih (time + c.dur) l1 rest hrest
          rw [hm', hrs']
          simp only
          rw [hrest']
          exact ⟨rs' ++ rest', rfl, fun acc => by rw [runRows_append, runRows_append, ha, hb']⟩

theorem decomp_trackList (s s' : Score) (h : All2 DecompChordRel s s') : trackList s' = trackList s := by
  unfold trackList
  congr 1
  induction h with
  | nil => rfl
  | cons h1 _ ih => simp only [List.flatMap_cons, ih, all2_names _ _ h1.2]

/-- **decompose_duration plays the same** -/
theorem decomposeDuration_samePlayed (s s' : Score) (h : Score.decomposeDuration s = .ok s')
    (snd : List (List (Int × Rat × Rat))) (hp : plays s = .ok snd) : plays s' = .ok snd := by
  have hrel : All2 DecompChordRel s s' := by
    unfold Score.decomposeDuration scoreMapM at h
    exact mapM_all2 _ _ _ _ (fun c _ c' hc => chordDecompose_rel c c' hc) h
  refine samePlayed_of_tracks s s' (decomp_trackList s s' hrel) ?_ snd hp
  intro t idx rows hr
  obtain ⟨rows', hr', ha⟩ := decomp_trackRows t idx s s' hrel 0 none rows hr
  exact ⟨rows', hr', by unfold trackSound; rw [ha]⟩

/-! ### normalize_instruments: tracks -/
/-! first-appearance lists -/

/-- the loop of `get_track_list` -/
def dedupInto (acc : List String) (l : List String) : List String :=
  l.foldl (fun acc p => if acc.contains p then acc else acc ++ [p]) acc

def news : List String → List String → List String
  | _, [] => []
  | acc, a :: r => if acc.contains a then news acc r else a :: news (acc ++ [a]) r

theorem dedupInto_append (acc l1 l2 : List String) : dedupInto acc (l1 ++ l2) = dedupInto (dedupInto acc l1) l2 := by
  unfold dedupInto; rw [List.foldl_append]

theorem dedupInto_eq (acc l : List String) : dedupInto acc l = acc ++ news acc l := by
  induction l generalizing acc with
  | nil => simp [dedupInto, news]
  | cons a r ih =>
    unfold dedupInto at ih ⊢
    simp only [List.foldl_cons, news]
    by_cases h : acc.contains a = true
    · simp only [h, if_true]; exact ih acc
    · simp only [h, Bool.false_eq_true, if_false]
      rw [ih (acc ++ [a])]; simp

theorem news_not_mem (acc l : List String) : ∀ x ∈ news acc l, x ∉ acc := by
  induction l generalizing acc with
  | nil => intro x hx; simp [news] at hx
  | cons a r ih =>
    intro x hx
    simp only [news] at hx
    by_cases h : acc.contains a = true
    · simp only [h, if_true] at hx; exact ih acc x hx
    · simp only [h, Bool.false_eq_true, if_false, List.mem_cons] at hx
      rcases hx with rfl | hx
      · intro hm; exact h (List.contains_iff_mem.mpr hm)
      · have := ih (acc ++ [a]) x hx
        intro hm; exact this (by simp [hm])

theorem dedupInto_news (acc l : List String) : dedupInto acc (news acc l) = acc ++ news acc l := by
  induction l generalizing acc with
  | nil => simp [dedupInto, news]
  | cons a r ih =>
    simp only [news]
    by_cases h : acc.contains a = true
    · simp only [h, if_true]; exact ih acc
    · simp only [h, Bool.false_eq_true, if_false]
      have : dedupInto acc (a :: news (acc ++ [a]) r) = dedupInto (acc ++ [a]) (news (acc ++ [a]) r) := by
        unfold dedupInto; simp only [List.foldl_cons, h, Bool.false_eq_true, if_false]
      rw [this, ih (acc ++ [a])]; simp

theorem dedupInto_subset (acc l : List String) (h : ∀ x ∈ l, x ∈ acc) : dedupInto acc l = acc := by
  induction l with
  | nil => rfl
  | cons a r ih =>
    unfold dedupInto at ih ⊢
    simp only [List.foldl_cons]
    have : acc.contains a = true := List.contains_iff_mem.mpr (h a (by simp))
    simp only [this, if_true]
    exact ih (fun x hx => h x (by simp [hx]))

theorem mem_dedupInto (acc l : List String) (x : String) : x ∈ dedupInto acc l ↔ x ∈ acc ∨ x ∈ l :=
  mem_trackList_aux l acc x

theorem trackList_eq (s : Score) : trackList s = dedupInto [] (s.flatMap (fun c => c.parts.map (·.1))) := rfl

/-! normalize_instruments: the parts of the new chords -/

def normParts (G : List String) (c : Chord) : List (String × Melody) :=
  c.parts ++ (G.filter (fun i => !(c.parts.map (·.1)).contains i)).map (fun i => (i, [silence c.dur]))

theorem normalizeInstruments_eq (s : Score) :
    Score.normalizeInstruments s = s.map (fun c => c.withParts (normParts (trackList s) c)) := rfl

theorem normParts_names (G : List String) (c : Chord) :
    (c.withParts (normParts G c)).parts.map (·.1)
      = c.parts.map (·.1) ++ G.filter (fun i => !(c.parts.map (·.1)).contains i) := by
  simp [Chord.withParts, normParts, List.map_append, List.map_map, Function.comp_def]

theorem normalize_trackList (s : Score) : trackList (Score.normalizeInstruments s) = trackList s := by
  rw [normalizeInstruments_eq]
  generalize hG : trackList s = G
  cases s with
  | nil => simp [trackList] at hG ⊢; exact hG
  | cons c cs =>
    rw [trackList_eq] at hG ⊢
    simp only [List.map_cons, List.flatMap_cons] at hG ⊢
    -- names of the first new chord
    rw [normParts_names, dedupInto_append, dedupInto_append]
    rw [dedupInto_append] at hG
    -- `A` = the names of the first chord, first appearances
    generalize hA : dedupInto [] (c.parts.map (·.1)) = A at hG ⊢
    generalize hR : cs.flatMap (fun c => c.parts.map (·.1)) = R at hG
    have hGeq : G = A ++ news A R := by rw [← hG, dedupInto_eq]
    have hmemA : ∀ x, x ∈ A ↔ x ∈ c.parts.map (·.1) := by
      intro x; rw [← hA, mem_dedupInto]; simp
    have hfilter : G.filter (fun i => !(c.parts.map (·.1)).contains i) = news A R := by
      rw [hGeq, List.filter_append]
      have h1 : A.filter (fun i => !(c.parts.map (·.1)).contains i) = [] := by
        apply List.filter_eq_nil_iff.mpr
        intro x hx
        have := (hmemA x).mp hx
        show ¬ ((!(List.map (·.1) c.parts).contains x) = true)
        rw [List.contains_iff_mem.mpr this]; simp
      have h2 : (news A R).filter (fun i => !(c.parts.map (·.1)).contains i) = news A R := by
        apply List.filter_eq_self.mpr
        intro x hx
        have h3 := news_not_mem A R x hx
        have h4 : ¬ x ∈ c.parts.map (·.1) := fun hm => h3 ((hmemA x).mpr hm)
        have : (c.parts.map (·.1)).contains x = false := by
          cases hc : (c.parts.map (·.1)).contains x with
          | false => rfl
          | true => exact absurd (List.contains_iff_mem.mp hc) h4
        show (!(List.map (·.1) c.parts).contains x) = true
        rw [this]; rfl
      rw [h1, h2]; rfl
    rw [hfilter, dedupInto_news, ← hGeq]
    -- everything later is already known
    apply dedupInto_subset
    intro x hx
    obtain ⟨c', hc', hx⟩ := List.mem_flatMap.mp hx
    obtain ⟨c0, hc0, rfl⟩ := List.mem_map.mp hc'
    have : x ∈ c0.parts.map (·.1) ∨ x ∈ G := by
      rw [normParts_names, List.mem_append] at hx
      rcases hx with hx | hx
      · exact Or.inl hx
      · exact Or.inr (List.mem_filter.mp hx).1
    rcases this with h1 | h1
    · rw [hGeq, ← dedupInto_eq, mem_dedupInto]
      right
      rw [← hR]
      exact List.mem_flatMap.mpr ⟨c0, hc0, h1⟩
    · exact h1

/-! ### normalize_instruments: parts and durations of the new chords -/
theorem lookup_map_const (l : List String) (t : String) (v : String → Melody) :
    (l.map (fun i => (i, v i))).lookup t = if t ∈ l then some (v t) else none := by
  induction l with
  | nil => simp
  | cons a r ih =>
    simp only [List.map_cons, List.lookup_cons, List.mem_cons]
    by_cases h : t = a
    · subst h; simp
    · have : (t == a) = false := by simpa using h
      simp only [this, h, false_or]; exact ih

theorem lookup_append' (a b : List (String × Melody)) (t : String) :
    (a ++ b).lookup t = match a.lookup t with | some m => some m | none => b.lookup t := by
  induction a with
  | nil => simp
  | cons x r ih =>
    obtain ⟨k, m⟩ := x
    simp only [List.cons_append, List.lookup_cons]
    cases (t == k) with
    | true => rfl
    | false => exact ih

theorem mem_of_lookup_some (ps : List (String × Melody)) (t : String) (m : Melody) (h : ps.lookup t = some m) :
    t ∈ ps.map (·.1) := by
  obtain ⟨l1, l2, rfl, _⟩ := List.lookup_eq_some_iff.mp h
  simp

theorem lookup_some_of_mem (ps : List (String × Melody)) (t : String) (h : t ∈ ps.map (·.1)) :
    ∃ m, ps.lookup t = some m := by
  induction ps with
  | nil => simp at h
  | cons a r ih =>
    obtain ⟨k, m⟩ := a
    simp only [List.lookup_cons]
    by_cases hk : t = k
    · subst hk; simp
    · have hk' : (t == k) = false := by simpa using hk
      rw [hk']
      simp only [List.map_cons, List.mem_cons] at h
      rcases h with h | h
      · exact absurd h hk
      · exact ih h

/-- the part named `t` of a chord after `normalize_instruments` -/
theorem normParts_lookup (G : List String) (c : Chord) (t : String) :
    (normParts G c).lookup t =
      match c.parts.lookup t with
      | some m => some m
      | none => if t ∈ G then some [silence c.dur] else none := by
  unfold normParts
  rw [lookup_append']
  cases h : c.parts.lookup t with
  | some m => rfl
  | none =>
    simp only
    rw [lookup_map_const _ t (fun _ => [silence c.dur])]
    have hnot : t ∉ c.parts.map (·.1) := by
      intro hm
      obtain ⟨m, hm'⟩ := lookup_some_of_mem c.parts t hm
      rw [h] at hm'; cases hm'
    have : (t ∈ G.filter (fun i => !(c.parts.map (·.1)).contains i)) ↔ t ∈ G := by
      rw [List.mem_filter]
      constructor
      · exact fun h => h.1
      · intro hg
        refine ⟨hg, ?_⟩
        have : (c.parts.map (·.1)).contains t = false := by
          cases hc : (c.parts.map (·.1)).contains t with
          | false => rfl
          | true => exact absurd (List.contains_iff_mem.mp hc) hnot
        rw [this]; rfl
    by_cases hg : t ∈ G
    · simp only [this.mpr hg, hg, if_true]
    · have : ¬ t ∈ G.filter (fun i => !(c.parts.map (·.1)).contains i) := fun h => hg (this.mp h)
      simp only [this, hg, if_false]

theorem foldl_max_self (D : Rat) (k : Nat) : (List.replicate k D).foldl max D = D := by
  induction k with
  | zero => rfl
  | succ n ih =>
    simp only [List.replicate_succ, List.foldl_cons]
    have : max D D = D := by grind
    rw [this]; exact ih

/-- `Chord.duration` of a list of part durations -/
def dmax : List Rat → Rat
  | [] => 0
  | d :: ds => ds.foldl max d

theorem dur_eq_dmax (c : Chord) : c.dur = dmax (c.parts.map (fun p => melodyDuration p.2)) := by
  unfold Chord.dur dmax; rfl

theorem dmax_append_replicate (ds : List Rat) (k : Nat) : dmax (ds ++ List.replicate k (dmax ds)) = dmax ds := by
  cases ds with
  | nil =>
    simp only [List.nil_append, dmax]
    cases k with
    | zero => rfl
    | succ n => simp only [List.replicate_succ]; exact foldl_max_self 0 n
  | cons d r =>
    simp only [List.cons_append, dmax, List.foldl_append]
    exact foldl_max_self _ k

theorem map_const_replicate {α β : Type} (l : List α) (x : β) : l.map (fun _ => x) = List.replicate l.length x := by
  induction l with
  | nil => rfl
  | cons a r ih => simp only [List.map_cons, List.length_cons, List.replicate_succ, ih]

theorem normParts_dur (G : List String) (c : Chord) : (c.withParts (normParts G c)).dur = c.dur := by
  have hsil : ∀ (D : Rat), melodyDuration [silence D] = D := by
    intro D; unfold melodyDuration sumRat silence
    simp only [List.map_cons, List.map_nil, List.foldl_cons, List.foldl_nil]; grind
  rw [dur_eq_dmax (c.withParts (normParts G c)), dur_eq_dmax c]
  simp only [Chord.withParts, normParts, List.map_append, List.map_map]
  have : (G.filter (fun i => !(c.parts.map (·.1)).contains i)).map
        ((fun (p : String × Melody) => melodyDuration p.2) ∘ fun i => (i, [silence c.dur]))
      = List.replicate (G.filter (fun i => !(c.parts.map (·.1)).contains i)).length
          (dmax (c.parts.map (fun p => melodyDuration p.2))) := by
    rw [← map_const_replicate]
    apply List.map_congr_left
    intro i _
    simp only [Function.comp, hsil, dur_eq_dmax c]
  rw [this, dmax_append_replicate]

/-! ### normalize_instruments: one note -/
/-- relation between the renderer state on the source (`last`, `acc`) and on the normalised
score (`last'`, `acc'`): same sounding notes so far, and either the same bookkeeping, or the
source part has just been absent (its last pitch is forgotten) while the normalised part was
resting (its open note is closed) -/
def NormRel (last : Option Int) (acc : List (Int × Rat × Rat) × Bool) (last' : Option Int)
    (acc' : List (Int × Rat × Rat) × Bool) : Prop :=
  acc'.1 = acc.1 ∧ ((last' = last ∧ acc'.2 = acc.2) ∨ (last = none ∧ acc'.2 = false))

/-- the second mode is only entered with the reference flag down -/
def NormInv (st : Bool) (last : Option Int) (acc : List (Int × Rat × Rat) × Bool) (last' : Option Int)
    (acc' : List (Int × Rat × Rat) × Bool) : Prop :=
  NormRel last acc last' acc' ∧ (st = true → last' = last ∧ acc'.2 = acc.2)

theorem norm_note (c c' : Chord) (hh : SameHead c' c) (idx : Nat) (time : Rat) (n : Note)
    (last last' : Option Int) (acc acc' : List (Int × Rat × Rat) × Bool) (st st1 : Bool)
    (hinv : NormInv st last acc last' acc') (href : refNote st n = some st1)
    (row : Row) (l1 : Option Int) (hr : noteToRow n c idx time last = .ok (row, l1)) :
    ∃ row' l1', noteToRow n c' idx time last' = .ok (row', l1') ∧
      NormInv st1 l1 (soundStep acc row.core) l1' (soundStep acc' row'.core) := by
  obtain ⟨⟨hevs, hmode⟩, hst⟩ := hinv
  -- same bookkeeping: identical rows
  have same : last' = last → acc'.2 = acc.2 →
      ∃ row' l1', noteToRow n c' idx time last' = .ok (row', l1') ∧
        NormInv st1 l1 (soundStep acc row.core) l1' (soundStep acc' row'.core) := by
    intro e1 e2
    subst e1
    have hacc : acc' = acc := by
      obtain ⟨a1, a2⟩ := acc; obtain ⟨b1, b2⟩ := acc'
      simp only at hevs e2; subst hevs; subst e2; rfl
    subst hacc
    have hrow' : noteToRow n c' idx time last' = .ok (row, l1) := by
      unfold noteToRow at hr ⊢
      rw [noteToPitch_congr _ _ hh]; exact hr
    exact ⟨row, l1, hrow', ⟨rfl, Or.inl ⟨rfl, rfl⟩⟩, fun _ => ⟨rfl, rfl⟩⟩
  rcases hmode with ⟨e1, e2⟩ | ⟨e1, e2⟩
  · exact same e1 e2
  · -- the source has forgotten its last pitch, the normalised part is closed
    subst e1
    cases hstb : st with
    | true => obtain ⟨e1, e2'⟩ := hst hstb; exact same e1 e2'
    | false =>
      subst hstb
      unfold refNote at href
      unfold noteToRow at hr ⊢
      simp only [bind, Except.bind, pure, Except.pure, Option.getD_none] at hr ⊢
      rw [noteToPitch_congr _ _ hh]
      rcases kind_cases n.kind with ⟨k1, k2⟩ | ⟨k1, k2, k3⟩ | ⟨k1, k2, k3⟩
      · -- rest or continuation: the pitch is `None` for every last pitch
        have hp : ∀ x, noteToPitch c n x = .ok none := by
          intro x
          cases hk : n.kind <;> rw [hk] at k1 <;> simp at k1
          · exact C01.pitch_none c n x (Or.inl hk)
          · exact C01.pitch_none c n x (Or.inr (Or.inl hk))
        rw [hp] at hr; rw [hp]
        simp only at hr ⊢
        injection hr with hr; injection hr with h1 h2; subst h1; subst h2
        simp only [k1, if_true] at href
        injection href with href; subst href
        refine ⟨_, _, rfl, ?_⟩
        have hkr : n.kind = .r ∨ n.kind = .l := by
          cases hk : n.kind <;> rw [hk] at k1 <;> simp at k1 <;> simp
        rcases hkr with hk | hk
        · simp only [hk, soundStep, Row.core, contStep]
          cases last' <;> simp [NormInv, NormRel, hevs]
        · simp only [hk, soundStep, Row.core, contStep]
          cases last' <;> simp [NormInv, NormRel, hevs, e2]
      · -- drum / pattern note: not relative
        have hrel : n.kind.isRelative = false := by
          cases hk : n.kind <;> rw [hk] at k2 <;> simp at k2 <;> rfl
        rw [noteToPitch_last_irrelevant c n (last'.getD 0) 0 hrel]
        cases hq : noteToPitch c n 0 with
        | error e => rw [hq] at hr; cases hr
        | ok p =>
          rw [hq] at hr
          simp only at hr ⊢
          injection hr with hr; injection hr with h1 h2; subst h1; subst h2
          have hkr : (n.kind == Kind.r) = false ∧ (n.kind == Kind.l) = false := by
            simpa [Bool.or_eq_false_iff] using k1
          refine ⟨_, _, rfl, ?_⟩
          simp only [hkr.1, hkr.2, Bool.false_and, Bool.or_self, Bool.not_false, if_true,
            soundStep, Row.core, Bool.false_eq_true, if_false]
          simp only [k1, k2, Bool.false_eq_true, if_false, if_true] at href
          injection href with href; subst href
          exact ⟨⟨by simp [hevs], Or.inl ⟨rfl, rfl⟩⟩, fun h => absurd h (by simp)⟩
      · -- a sounding kind: with the reference flag down it cannot be relative
        have hrel : n.kind.isRelative = false := by
          simp only [k1, k2, Bool.false_eq_true, if_false] at href
          cases hr2 : n.kind.isRelative with
          | false => rfl
          | true => rw [hr2] at href; simp at href
        rw [noteToPitch_last_irrelevant c n (last'.getD 0) 0 hrel]
        cases hq : noteToPitch c n 0 with
        | error e => rw [hq] at hr; cases hr
        | ok p =>
          rw [hq] at hr
          simp only at hr ⊢
          injection hr with hr; injection hr with h1 h2; subst h1; subst h2
          have hkr : (n.kind == Kind.r) = false ∧ (n.kind == Kind.l) = false := by
            simpa [Bool.or_eq_false_iff] using k1
          refine ⟨_, _, rfl, ?_⟩
          simp only [hkr.1, hkr.2, Bool.false_and, Bool.or_self, Bool.not_false, if_true,
            soundStep, Row.core, Bool.false_eq_true, if_false]
          exact ⟨⟨by simp [hevs], Or.inl ⟨rfl, rfl⟩⟩, fun _ => ⟨rfl, rfl⟩⟩

/-! ### normalize_instruments: melodies, tracks, scores -/
theorem norm_melody (c c' : Chord) (hh : SameHead c' c) (idx : Nat) (m : Melody) (time : Rat)
    (last last' : Option Int) (acc acc' : List (Int × Rat × Rat) × Bool) (st st1 : Bool)
    (hinv : NormInv st last acc last' acc') (href : refMelody st m = some st1)
    (rows : List Row) (l1 : Option Int) (hr : melodyToRows m c idx time last = .ok (rows, l1)) :
    ∃ rows' l1', melodyToRows m c' idx time last' = .ok (rows', l1') ∧
      NormInv st1 l1 (runRows acc rows) l1' (runRows acc' rows') := by
  induction m generalizing time last last' acc acc' st rows with
  | nil =>
    simp only [melodyToRows, pure, Except.pure] at hr ⊢
    injection hr with hr; injection hr with h1 h2; subst h1; subst h2
    simp only [refMelody] at href
    injection href with href; subst href
    exact ⟨[], last', rfl, hinv⟩
  | cons n ns ih =>
    simp only [refMelody] at href
    cases hrn : refNote st n with
    | none => rw [hrn] at href; cases href
    | some st2 =>
      rw [hrn] at href
      simp only at href
      simp only [melodyToRows, bind, Except.bind, pure, Except.pure] at hr ⊢
      cases hrow : noteToRow n c idx time last with
      | error e => rw [hrow] at hr; cases hr
      | ok v =>
        obtain ⟨row, l2⟩ := v
        rw [hrow] at hr
        simp only at hr
        cases hrs : melodyToRows ns c idx (time + n.dur) l2 with
        | error e => rw [hrs] at hr; cases hr
        | ok w =>
          obtain ⟨rs, l3⟩ := w
          rw [hrs] at hr
          simp only at hr
          injection hr with hr; injection hr with h1 h2; subst h1; subst h2
          obtain ⟨row', l2', hrow', hinv2⟩ := norm_note c c' hh idx time n last last' acc acc' st st2 hinv hrn row l2 hrow
          obtain ⟨rs', l3', hrs', hinv3⟩ := ih (time + n.dur) l2 l2' _ _ st2 hinv2 href rs hrs
          rw [hrow']
          simp only
          rw [hrs']
          exact ⟨row' :: rs', l3', rfl, hinv3⟩

/-- the row of the rest that fills a chord from which the part was absent -/
theorem silence_rows (c : Chord) (idx : Nat) (time d : Rat) (last : Option Int) :
    melodyToRows [silence d] c idx time last =
      .ok ([{ pitch := 0, offset := time, dur := d, vel := 66, track := idx, silence := true, cont := false }], last) := by
  simp only [melodyToRows, bind, Except.bind, pure, Except.pure]
  unfold noteToRow
  rw [C01.pitch_none c (silence d) _ (Or.inl rfl)]
  simp only [bind, Except.bind, pure, Except.pure, silence]
  rfl

theorem norm_track (G : List String) (t : String) (idx : Nat) (s : Score) (time : Rat)
    (last last' : Option Int) (acc acc' : List (Int × Rat × Rat) × Bool) (st : Bool)
    (hinv : NormInv st last acc last' acc') (href : refTrack t st s = true)
    (rows : List Row) (hr : trackRows t idx s time last = .ok rows) :
    ∃ rows', trackRows t idx (s.map (fun c => c.withParts (normParts G c))) time last' = .ok rows' ∧
      (runRows acc' rows').1 = (runRows acc rows).1 := by
  induction s generalizing time last last' acc acc' st rows with
  | nil =>
    simp only [trackRows, pure, Except.pure, List.map_nil] at hr ⊢
    injection hr with hr; subst hr
    exact ⟨[], rfl, hinv.1.1⟩
  | cons c cs ih =>
    simp only [List.map_cons, trackRows] at hr ⊢
    rw [normParts_dur G c]
    have hl : (c.withParts (normParts G c)).parts.lookup t = (normParts G c).lookup t := rfl
    rw [hl, normParts_lookup]
    simp only [refTrack] at href
    cases hlook : c.parts.lookup t with
    | some m =>
      rw [hlook] at hr href
      simp only at hr href ⊢
      cases hrm : refMelody st m with
      | none => rw [hrm] at href; cases href
      | some st1 =>
        rw [hrm] at href
        simp only at href
        simp only [bind, Except.bind, pure, Except.pure] at hr ⊢
        cases hrows : melodyToRows m c idx time last with
        | error e => rw [hrows] at hr; cases hr
        | ok v =>
          obtain ⟨rs, l1⟩ := v
          rw [hrows] at hr
          simp only at hr
          cases hrest : trackRows t idx cs (time + c.dur) l1 with
          | error e => rw [hrest] at hr; cases hr
          | ok rest =>
            rw [hrest] at hr
            simp only at hr
            injection hr with hr; subst hr
            obtain ⟨rs', l1', hrs', hinv1⟩ := norm_melody c (c.withParts (normParts G c)) (sameHead_withParts c _)
              idx m time last last' acc acc' st st1 hinv hrm rs l1 hrows
            obtain ⟨rest', hrest', hfin⟩ := ih (time + c.dur) l1 l1' _ _ st1 hinv1 href rest hrest
            rw [hrs']
            simp only
            rw [hrest']
            exact ⟨rs' ++ rest', rfl, by rw [runRows_append, runRows_append]; exact hfin⟩
    | none =>
      rw [hlook] at hr href
      simp only at hr href ⊢
      by_cases hg : t ∈ G
      · simp only [hg, if_true, bind, Except.bind, pure, Except.pure]
        rw [silence_rows]
        simp only
        -- the source forgets its last pitch, the normalised part rests
        have hinv1 : NormInv false none acc last'
            (runRows acc' [{ pitch := 0, offset := time, dur := c.dur, vel := 66, track := idx, silence := true, cont := false }]) := by
          refine ⟨⟨?_, Or.inr ⟨rfl, ?_⟩⟩, fun h => absurd h (by simp)⟩
          · simp [runRows, soundStep, Row.core, hinv.1.1]
          · simp [runRows, soundStep, Row.core]
        obtain ⟨rest', hrest', hfin⟩ := ih (time + c.dur) none last' acc _ false hinv1 href rows hr
        rw [hrest']
        exact ⟨_, rfl, by rw [show ∀ (a : Row) (l : List Row), a :: l = [a] ++ l from fun _ _ => rfl, runRows_append]; exact hfin⟩
      · simp only [hg, if_false]
        have hinv1 : NormInv false none acc none acc' := by
          refine ⟨⟨hinv.1.1, ?_⟩, fun h => absurd h (by simp)⟩
          rcases hinv.1.2 with ⟨_, e2⟩ | ⟨_, e2⟩
          · exact Or.inl ⟨rfl, e2⟩
          · exact Or.inr ⟨rfl, e2⟩
        exact ih (time + c.dur) none none acc acc' false hinv1 href rows hr

/-- **normalize_instruments plays the same on well-referenced scores** -/
theorem normalizeInstruments_samePlayed (s : Score) (hw : WellReferenced s)
    (snd : List (List (Int × Rat × Rat))) (hp : plays s = .ok snd) :
    plays (Score.normalizeInstruments s) = .ok snd := by
  refine samePlayed_of_tracks s _ (normalize_trackList s) ?_ snd hp
  intro t idx rows hr
  rw [normalizeInstruments_eq]
  have hinv : NormInv false none ([], false) none ([], false) :=
    ⟨⟨rfl, Or.inl ⟨rfl, rfl⟩⟩, fun _ => ⟨rfl, rfl⟩⟩
  obtain ⟨rows', hr', hfin⟩ := norm_track (trackList s) t idx s 0 none none ([], false) ([], false) false hinv (hw t) rows hr
  exact ⟨rows', hr', hfin⟩

/-! ### the template of Chord.split -/
theorem sumRat_replicate (k : Nat) (x : Rat) : sumRat (List.replicate k x) = (k : Rat) * x := by
  induction k with
  | zero => unfold sumRat; simp only [List.replicate_zero, List.foldl_nil]; grind
  | succ n ih =>
    rw [List.replicate_succ, sumRat_cons, ih]
    have : ((n + 1 : Nat) : Rat) = (n : Rat) + 1 := by exact_mod_cast rfl
    rw [this]; grind

/-- **the chords `Chord.split` asks for**: for a chord longer than `max_length` the template
durations are all positive, at most `max_length`, and add up to the chord's duration -/
theorem splitTemplate_spec (dur mx : Rat) (hmx : 0 < mx) (hlong : mx < dur) :
    (∀ d ∈ splitTemplate dur mx, 0 < d ∧ d ≤ mx) ∧ sumRat (splitTemplate dur mx) = dur ∧ splitTemplate dur mx ≠ [] := by
  have hdiv : dur / mx * mx = dur := by grind
  have hfl := Rat.floor_le (dur / mx)
  have hfu := Rat.lt_floor_add_one (dur / mx)
  generalize hq : (dur / mx).floor = q at hfl hfu
  have h1 : (q : Rat) * mx ≤ dur := by
    have := Rat.mul_le_mul_of_nonneg_right hfl (by grind : (0 : Rat) ≤ mx)
    rw [hdiv] at this; exact this
  have h2 : dur < ((q + 1 : Int) : Rat) * mx := by
    have := Rat.mul_lt_mul_of_pos_right hfu hmx
    rw [hdiv] at this; exact this
  have hq1 : 1 ≤ q := by
    apply Classical.byContradiction
    intro hneg
    have hq0 : q + 1 ≤ 1 := by omega
    have : ((q + 1 : Int) : Rat) ≤ 1 := by exact_mod_cast hq0
    have : ((q + 1 : Int) : Rat) * mx ≤ 1 * mx := Rat.mul_le_mul_of_nonneg_right this (by grind)
    grind
  have hcast : ((q + 1 : Int) : Rat) = (q : Rat) + 1 := by push_cast; rfl
  rw [hcast] at h2
  obtain ⟨k, hk⟩ : ∃ k : Nat, q = (k : Int) := ⟨q.toNat, by omega⟩
  have hk1 : 1 ≤ k := by omega
  have hqk : (q : Rat) = (k : Rat) := by rw [hk]; rfl
  unfold splitTemplate
  simp only [hq]
  have hnb : (1 + q).toNat = k + 1 := by omega
  simp only [hnb, Nat.add_sub_cancel]
  have hne : ¬ (k + 1 = 0) := by omega
  rw [hqk] at h1 h2 ⊢
  by_cases hrem : dur - mx * (k : Rat) > 0
  · simp only [hrem, if_true, hne, if_false]
    refine ⟨?_, ?_, by simp⟩
    · intro d hd
      rcases List.mem_append.mp hd with hd | hd
      · have := List.eq_of_mem_replicate hd
        subst this; exact ⟨hmx, by grind⟩
      · simp only [List.mem_singleton] at hd
        subst hd; exact ⟨hrem, by grind⟩
    · rw [sumRat_append, sumRat_replicate, sumRat_cons]
      unfold sumRat; simp only [List.foldl_nil]; grind
  · simp only [hrem, if_false]
    refine ⟨?_, ?_, ?_⟩
    · intro d hd
      have := List.eq_of_mem_replicate hd
      subst this; exact ⟨hmx, by grind⟩
    · rw [sumRat_replicate]; grind
    · intro h
      have : k = 0 := by simpa using h
      omega

end MV
