/-
Lemmas for C13: keep_score = the projection without it, then the clash test and the merge of the target parts.
-/
import MV.Lemmas.ProjectModes
namespace MV.Proj
open MV

/-- result chord `k` takes the parts of target chord `k`, then its own (Python `{**c2.score, **c1.score}`) -/
def mergeTarget (r tgt : Score) : Score :=
  (r.zip tgt).map (fun (x : Chord × Chord) => { x.1 with parts := dictUpdate x.2.parts x.1.parts })

/-- a part name of the projection also names a part of the target -/
abbrev Clash (r tgt : Score) : Prop := (instruments r).any (fun p => (instruments tgt).contains p) = true

theorem stageKeepScore_eq (tgt : Score) (f : Flags) (hks : f.keepScore = true) (r : Score) :
    stageKeepScore tgt f (some r) =
      if f.allowOverride = false ∧ Clash r tgt then .error .other
      else .ok (if (mergeTarget r tgt).isEmpty then none else some (mergeTarget r tgt)) := by
  unfold stageKeepScore
  simp only [hks, if_true, mergeTarget]
  by_cases c : f.allowOverride = false ∧ Clash r tgt
  · have c' : (!f.allowOverride) = true ∧ (instruments r).any (fun p => (instruments tgt).contains p) = true := by
      simpa using c
    rw [if_pos c, if_pos c']
  · have c' : ¬ ((!f.allowOverride) = true ∧ (instruments r).any (fun p => (instruments tgt).contains p) = true) := by
      simpa using c
    rw [if_neg c, if_neg c']
    rfl

/-- with `keep_score` the projection is the one without it, followed by the clash test and the merge
(no pitch keeping) -/
theorem keepScore_unfold (src tgt : Score) (f : Flags) (hkp : f.keepPitch = false) (hks : f.keepScore = true)
    (r : Score) (hb : projectOnScore src tgt { f with keepScore := false } = .ok (some r)) :
    projectOnScore src tgt f =
      if f.allowOverride = false ∧ Clash r tgt then .error .other
      else .ok (if (mergeTarget r tgt).isEmpty then none else some (mergeTarget r tgt)) := by
  unfold projectOnScore at hb ⊢
  obtain ⟨S0, h0, hA⟩ := bind_ok hb
  obtain ⟨S1, h1, hB⟩ := bind_ok hA
  obtain ⟨r2, h2, hC⟩ := bind_ok hB
  obtain ⟨r3, h3, hD⟩ := bind_ok hC
  clear hb hA hB hC
  have e3 : r3 = r2 := by
    unfold stageKeepScore at h3
    simp only [Bool.false_eq_true, if_false, Except.ok.injEq] at h3
    exact h3.symm
  subst e3
  have e4 : r3 = some r := by
    unfold stageScale at hD
    simp only [hkp, Bool.false_eq_true, if_false, Except.ok.injEq] at hD
    exact hD
  subst e4
  have g0 : stageRepeat src tgt f = .ok S0 := h0
  have g1 : stageAbsolute src f S0 = .ok S1 := h1
  have g2 : stageProject tgt f S1 = .ok (some r) := h2
  rw [g0]
  simp only [bind, Except.bind]
  rw [g1]
  simp only []
  rw [g2]
  simp only []
  rw [stageKeepScore_eq tgt f hks r]
  by_cases c : f.allowOverride = false ∧ Clash r tgt
  · simp only [if_pos c]
  · simp only [if_neg c, stageScale, hkp, Bool.false_eq_true, if_false]

theorem mergeTarget_length (r tgt : Score) (h : r.length ≤ tgt.length) : (mergeTarget r tgt).length = r.length := by
  unfold mergeTarget
  simp only [List.length_map, List.length_zip]
  omega

/-- chord `k` of the merge: the symbol of the projected chord, the target chord's parts followed by the
projected ones when the names are new -/
theorem mergeTarget_getElem (r tgt : Score) (k : Nat) (hr : k < r.length) (ht : k < tgt.length)
    (hn : (keys r[k].parts).Nodup) (hd : ∀ p ∈ keys r[k].parts, p ∉ keys tgt[k].parts) :
    ∃ h : k < (mergeTarget r tgt).length,
      header (mergeTarget r tgt)[k] = header r[k] ∧ (mergeTarget r tgt)[k].parts = tgt[k].parts ++ r[k].parts := by
  have hl : k < (mergeTarget r tgt).length := by
    unfold mergeTarget; simp only [List.length_map, List.length_zip]; omega
  refine ⟨hl, ?_⟩
  have e : (mergeTarget r tgt)[k] = { r[k] with parts := dictUpdate tgt[k].parts r[k].parts } := by
    simp [mergeTarget]
  rw [e]
  exact ⟨rfl, dictUpdate_disjoint _ _ hn hd⟩

/-- without a clash no part name of a projected chord names a part of the target -/
theorem no_clash_keys (r tgt : Score) (h : ¬ Clash r tgt) (k : Nat) (hr : k < r.length) (ht : k < tgt.length) :
    ∀ p ∈ keys r[k].parts, p ∉ keys tgt[k].parts := by
  intro p hp hq
  apply h
  unfold Clash
  rw [List.any_eq_true]
  refine ⟨p, ?_, ?_⟩
  · unfold instruments
    rw [List.mem_eraseDups, List.mem_flatMap]
    exact ⟨r[k], List.getElem_mem hr, hp⟩
  · rw [List.contains_iff_mem]
    unfold instruments
    rw [List.mem_eraseDups, List.mem_flatMap]
    exact ⟨tgt[k], List.getElem_mem ht, hq⟩

end MV.Proj
