/-
Helper lemmas for C20: Python set membership / construction, association lists with distinct
keys (dict equality), pointwise list relations (scores), sorting idempotence.
-/
import MV.Model.Equality
import Mathlib.Data.List.Perm.Subperm
import Mathlib.Data.List.Nodup

namespace MV.Eq
open MV

/-! ### `x in set`, `set(list)` -/

section sets
variable {α η : Type} [DecidableEq η] (hash : α → Res η) (eq : α → α → Bool)

/-- when equal stored elements hash like the probe, the hash test of the lookup is invisible -/
theorem pyIn_eq_any (x : α) (S : List α) (hx : η) (hok : hash x = .ok hx)
    (hh : ∀ y ∈ S, eq y x = true → hash y = hash x) :
    pyIn hash eq x S = .ok (S.any (fun y => eq y x)) := by
  unfold pyIn
  simp only [hok, bind, Except.bind, pure, Except.pure]
  congr 1
  rw [Bool.eq_iff_iff, List.any_eq_true, List.any_eq_true]
  constructor
  · rintro ⟨y, hy, h⟩
    simp only [Bool.and_eq_true] at h
    exact ⟨y, hy, h.2⟩
  · rintro ⟨y, hy, he⟩
    have := hh y hy he
    rw [hok] at this
    exact ⟨y, hy, by simp [this, he]⟩

/-- `set(l)` (started from `acc`) keeps every class: a predicate that does not distinguish
equal elements sees the same thing in the set and in the list -/
theorem pySetOf_any (P : α → Prop)
    (hok : ∀ a, P a → ∃ k, hash a = .ok k)
    (hh : ∀ a b, P a → P b → eq a b = true → hash a = hash b)
    (q : α → Bool) (hq : ∀ a b, P a → P b → eq a b = true → q a = q b) :
    ∀ (l acc : List α), (∀ y ∈ l, P y) → (∀ y ∈ acc, P y) →
      ∃ S, pySetOf hash eq l acc = .ok S ∧ (∀ y ∈ S, P y) ∧ S.any q = (acc ++ l).any q := by
  intro l
  induction l with
  | nil =>
      intro acc _ hacc
      exact ⟨acc, rfl, hacc, by simp⟩
  | cons x xs ih =>
      intro acc hl hacc
      have hPx : P x := hl x (by simp)
      obtain ⟨k, hk⟩ := hok x hPx
      have hin := pyIn_eq_any hash eq x acc k hk (fun y hy he => hh y x (hacc y hy) hPx he)
      unfold pySetOf
      simp only [hin, bind, Except.bind]
      by_cases hpres : (acc.any fun y => eq y x) = true
      · simp only [hpres, if_true]
        obtain ⟨S, hS, hSP, hSq⟩ := ih acc (fun y hy => hl y (by simp [hy])) hacc
        refine ⟨S, hS, hSP, ?_⟩
        rw [hSq]
        obtain ⟨y, hy, hyx⟩ := List.any_eq_true.1 hpres
        have hqy : q y = q x := hq y x (hacc y hy) hPx hyx
        simp only [List.any_append, List.any_cons]
        by_cases hqx : q x = true
        · have : acc.any q = true := List.any_eq_true.2 ⟨y, hy, by rw [hqy, hqx]⟩
          simp [this]
        · simp [hqx]
      · simp only [hpres]
        have hacc' : ∀ y ∈ acc ++ [x], P y := by
          intro y hy
          rcases List.mem_append.1 hy with h | h
          · exact hacc y h
          · simp at h; subst h; exact hPx
        obtain ⟨S, hS, hSP, hSq⟩ := ih (acc ++ [x]) (fun y hy => hl y (by simp [hy])) hacc'
        refine ⟨S, by simpa using hS, hSP, ?_⟩
        rw [hSq]
        simp [List.any_append]

end sets

/-! ### association lists with distinct keys -/

section assoc
variable {β : Type}

theorem lookup_isSome_iff (l : List (String × β)) (k : String) :
    (l.lookup k).isSome = true ↔ k ∈ l.map Prod.fst := by
  induction l with
  | nil => simp
  | cons p ps ih =>
      obtain ⟨k', v⟩ := p
      rw [List.lookup_cons]
      by_cases h : k = k'
      · subst h; simp
      · have : (k == k') = false := by simpa using h
        simp [this, ih, h]

theorem lookup_of_mem (l : List (String × β)) (hn : (l.map Prod.fst).Nodup) (p : String × β) (hp : p ∈ l) :
    l.lookup p.1 = some p.2 := by
  induction l with
  | nil => simp at hp
  | cons q qs ih =>
      obtain ⟨k', v⟩ := q
      rw [List.lookup_cons]
      simp only [List.map_cons, List.nodup_cons] at hn
      rcases List.mem_cons.1 hp with h | h
      · subst h; simp
      · have hne : p.1 ≠ k' := by
          intro he
          apply hn.1
          rw [← he]
          exact List.mem_map.2 ⟨p, h, rfl⟩
        have : (p.1 == k') = false := by simpa using hne
        simp [this, ih hn.2 h]

theorem mem_of_lookup (l : List (String × β)) (k : String) (v : β) (h : l.lookup k = some v) : (k, v) ∈ l := by
  induction l with
  | nil => simp at h
  | cons q qs ih =>
      obtain ⟨k', v'⟩ := q
      rw [List.lookup_cons] at h
      by_cases hk : k = k'
      · subst hk; simp at h; subst h; simp
      · have : (k == k') = false := by simpa using hk
        simp [this] at h
        exact List.mem_cons_of_mem _ (ih h)

theorem lookup_map_val {γ : Type} (f : β → γ) (l : List (String × β)) (k : String) :
    (l.map (fun p => (p.1, f p.2))).lookup k = (l.lookup k).map f := by
  induction l with
  | nil => rfl
  | cons q qs ih =>
      obtain ⟨k', v'⟩ := q
      simp only [List.map_cons, List.lookup_cons]
      cases (k == k') <;> simp [ih]

/-- `dict == dict` on maps to comparable values: same size, every left entry found right -/
def dictEqC [DecidableEq β] (a b : List (String × β)) : Bool :=
  a.length == b.length && a.all (fun p => decide (b.lookup p.1 = some p.2))

/-- for lists with distinct keys, Python's dict equality is extensional equality of the maps -/
theorem dictEqC_iff [DecidableEq β] (a b : List (String × β))
    (ha : (a.map Prod.fst).Nodup) (hb : (b.map Prod.fst).Nodup) :
    dictEqC a b = true ↔ ∀ k, a.lookup k = b.lookup k := by
  unfold dictEqC
  simp only [Bool.and_eq_true, beq_iff_eq, List.all_eq_true, decide_eq_true_eq]
  constructor
  · rintro ⟨hlen, hall⟩ k
    have hsub : a.map Prod.fst ⊆ b.map Prod.fst := by
      intro x hx
      obtain ⟨p, hp, rfl⟩ := List.mem_map.1 hx
      rw [← lookup_isSome_iff, hall p hp]; rfl
    have hperm := (List.subperm_of_subset ha hsub).perm_of_length_le (by simp [hlen])
    cases hak : a.lookup k with
    | some v =>
        have := hall (k, v) (mem_of_lookup a k v hak)
        exact this.symm
    | none =>
        cases hbk : b.lookup k with
        | none => rfl
        | some v =>
            exfalso
            have hkb : k ∈ b.map Prod.fst := (lookup_isSome_iff b k).1 (by rw [hbk]; rfl)
            have hka : k ∈ a.map Prod.fst := hperm.symm.subset hkb
            have := (lookup_isSome_iff a k).2 hka
            rw [hak] at this
            exact absurd this (by simp)
  · intro h
    constructor
    · have hperm : (a.map Prod.fst).Perm (b.map Prod.fst) := by
        rw [List.perm_ext_iff_of_nodup ha hb]
        intro k
        rw [← lookup_isSome_iff, ← lookup_isSome_iff, h k]
      simpa using hperm.length_eq
    · intro p hp
      rw [← h p.1]
      exact lookup_of_mem a ha p hp

/-- with the keys in the same order, extensionally equal maps are the same list -/
theorem eq_of_lookup_eq (a b : List (String × β))
    (ha : (a.map Prod.fst).Nodup) (hkeys : a.map Prod.fst = b.map Prod.fst)
    (h : ∀ k, a.lookup k = b.lookup k) : a = b := by
  induction a generalizing b with
  | nil =>
      cases b with
      | nil => rfl
      | cons _ _ => simp at hkeys
  | cons p ps ih =>
      cases b with
      | nil => simp at hkeys
      | cons q qs =>
          obtain ⟨k, v⟩ := p
          obtain ⟨k', v'⟩ := q
          simp only [List.map_cons, List.cons.injEq] at hkeys
          obtain ⟨hk, hrest⟩ := hkeys
          subst hk
          have hv := h k
          simp only [List.lookup_cons, beq_self_eq_true] at hv
          have hv' : v = v' := by simpa using hv
          subst hv'
          simp only [List.map_cons, List.nodup_cons] at ha
          have hb2 : k ∉ qs.map Prod.fst := by rw [← hrest]; exact ha.1
          congr 1
          apply ih qs ha.2 hrest
          intro k2
          by_cases hk2 : k2 = k
          · subst hk2
            have h1 : ps.lookup k2 = none := by
              cases hh : ps.lookup k2 with
              | none => rfl
              | some w => exact absurd ((lookup_isSome_iff ps k2).1 (by rw [hh]; rfl)) ha.1
            have h2 : qs.lookup k2 = none := by
              cases hh : qs.lookup k2 with
              | none => rfl
              | some w => exact absurd ((lookup_isSome_iff qs k2).1 (by rw [hh]; rfl)) hb2
            rw [h1, h2]
          · have := h k2
            have hne : (k2 == k) = false := by simpa using hk2
            simpa [List.lookup_cons, hne] using this

end assoc

/-! ### pointwise comparison of two lists (scores) -/

section pointwise
variable {α : Type} (r : α → α → Bool)

def allZip (a b : List α) : Bool := (a.zip b).all (fun p => r p.1 p.2)

theorem allZip_refl (a : List α) (h : ∀ x ∈ a, r x x = true) : allZip r a a = true := by
  induction a with
  | nil => rfl
  | cons x xs ih =>
      simp only [allZip, List.zip_cons_cons, List.all_cons, Bool.and_eq_true]
      exact ⟨h x (by simp), ih (fun y hy => h y (by simp [hy]))⟩

theorem allZip_symm (P : α → Prop) (hs : ∀ x y, P x → P y → r x y = true → r y x = true) :
    ∀ (a b : List α), (∀ x ∈ a, P x) → (∀ x ∈ b, P x) → allZip r a b = true → allZip r b a = true := by
  intro a
  induction a with
  | nil => intro b _ _ _; cases b <;> rfl
  | cons x xs ih =>
      intro b ha hb h
      cases b with
      | nil => rfl
      | cons y ys =>
          simp only [allZip, List.zip_cons_cons, List.all_cons, Bool.and_eq_true] at h ⊢
          exact ⟨hs x y (ha x (by simp)) (hb y (by simp)) h.1,
            ih ys (fun z hz => ha z (by simp [hz])) (fun z hz => hb z (by simp [hz])) h.2⟩

theorem allZip_trans (P : α → Prop)
    (ht : ∀ x y z, P x → P y → P z → r x y = true → r y z = true → r x z = true) :
    ∀ (a b c : List α), (∀ x ∈ a, P x) → (∀ x ∈ b, P x) → (∀ x ∈ c, P x) → a.length = b.length →
      allZip r a b = true → allZip r b c = true → allZip r a c = true := by
  intro a
  induction a with
  | nil => intro b c _ _ _ _ _ _; rfl
  | cons x xs ih =>
      intro b c ha hb hc hl h1 h2
      cases b with
      | nil => simp at hl
      | cons y ys =>
          cases c with
          | nil => rfl
          | cons z zs =>
              simp only [allZip, List.zip_cons_cons, List.all_cons, Bool.and_eq_true] at h1 h2 ⊢
              exact ⟨ht x y z (ha x (by simp)) (hb y (by simp)) (hc z (by simp)) h1.1 h2.1,
                ih ys zs (fun w hw => ha w (by simp [hw])) (fun w hw => hb w (by simp [hw]))
                  (fun w hw => hc w (by simp [hw])) (by simpa using hl) h1.2 h2.2⟩

end pointwise

/-! ### sorting strings is idempotent -/

theorem sortStrs_idem (l : List String) : sortStrs (sortStrs l) = sortStrs l := by
  unfold sortStrs
  apply List.mergeSort_of_pairwise
  apply List.pairwise_mergeSort
  · intro a b c hab hbc
    simp only [decide_eq_true_eq] at *
    exact String.le_trans hab hbc
  · intro a b
    simp only [Bool.or_eq_true, decide_eq_true_eq]
    exact String.le_total a b

theorem normalize_idem (e : Ext) : e.normalize.normalize = e.normalize := by
  unfold Ext.normalize
  simp [sortStrs_idem]

/-! ### `limit_denominator` -/

theorem limitDenominator_small (q : Rat) (m : Nat) (h : q.den ≤ m) : limitDenominator q m = q := by
  unfold limitDenominator
  simp [h]

/-! ### printed forms under copy; generated name tables; parts as a map of printed melodies -/

set_option linter.constructorNameAsVariable false

/-- the printed form of a note does not change under `copy()` when the tag set keeps its
iteration order (for rests and continuations too: the fields `Silence.copy` drops are not
printed) -/
theorem classOf_note (n : Note) (h1 : n.kind ≠ .r) (h2 : n.kind ≠ .l) : classOf n = .note := by
  unfold classOf; split <;> simp_all

/-- value, octave, mode, accidental, amplitude and tempo of a rest / continuation are not printed -/
theorem noteCode_rest (k : Kind) (hk : k = .r ∨ k = .l) (v o : Int) (d : Rat) (m : Option Mode) (ac : Option Acc)
    (am : Rat) (tg : List String) (te te' : Option Int) (pe pe' : Option Bool) :
    noteCode ⟨k, v, o, d, m, ac, am, tg, te, pe⟩ = noteCode ⟨k, 0, 0, d, none, none, 66, tg, te', pe'⟩ := by
  rcases hk with rfl | rfl <;> cases m <;> cases ac <;> simp [noteCode, Kind.isNote]

theorem noteCode_copy (n : Note) (hd : n.dur.den ≤ Gen.LIMIT_DENOM) : noteCode (noteCopy (classOf n) n) = noteCode n := by
  unfold noteCopy noteCopyWith
  rw [limitDenominator_small _ _ hd]
  by_cases h1 : n.kind = .r
  · have : classOf n = .silence := by unfold classOf; simp [h1]
    rw [this]
    obtain ⟨k, v, o, d, m, ac, am, tg, te, pe⟩ := n
    simp only at h1; subst h1
    exact (noteCode_rest .r (Or.inl rfl) v o d m ac am tg te te pe pe).symm
  · by_cases h2 : n.kind = .l
    · have : classOf n = .continuation := by unfold classOf; simp [h2]
      rw [this]
      obtain ⟨k, v, o, d, m, ac, am, tg, te, pe⟩ := n
      simp only at h2; subst h2
      exact (noteCode_rest .l (Or.inr rfl) v o d m ac am tg te none pe pe).symm
    · rw [classOf_note n h1 h2]

theorem melodyCopyWith_nil (m : Melody) : melodyCopyWith [] m = melodyCopy m := by
  induction m with
  | nil => rfl
  | cons n ns ih => simp [melodyCopyWith, melodyCopy, ih]

theorem melodyCode_copy (m : Melody) (hd : ∀ n ∈ m, n.dur.den ≤ Gen.LIMIT_DENOM) : melodyCode (melodyCopy m) = melodyCode m := by
  unfold melodyCode melodyCopy
  congr 1
  rw [List.map_map]
  apply List.map_congr_left
  intro n hn
  exact noteCode_copy n (hd n hn)


/-- every degree 0..11 has a name in the generated `DEGREE_TO_STR` -/
theorem degree_names (d : Int) (h : 0 ≤ d ∧ d < 12) : ∃ s, lookupKey d Gen.DEGREE_TO_STR = .ok s := by
  have hd : d = 0 ∨ d = 1 ∨ d = 2 ∨ d = 3 ∨ d = 4 ∨ d = 5 ∨ d = 6 ∨ d = 7 ∨ d = 8 ∨ d = 9 ∨ d = 10 ∨ d = 11 := by
    omega
  rcases hd with rfl | rfl | rfl | rfl | rfl | rfl | rfl | rfl | rfl | rfl | rfl | rfl <;> exact ⟨_, rfl⟩


/-- the parts as a map from part name to the printed melody -/
def codes (c : Chord) : List (String × String) := c.parts.map (fun p => (p.1, melodyCode p.2))

theorem codes_keys (c : Chord) : (codes c).map Prod.fst = c.parts.map Prod.fst := by
  simp [codes, List.map_map, Function.comp_def]

theorem dictEq_codes (a b : Chord) : dictEq a.parts b.parts = dictEqC (codes a) (codes b) := by
  unfold dictEq dictEqC codes
  simp only [List.length_map, List.all_map]
  congr 1
  apply List.all_congr rfl
  intro p
  simp only [Function.comp_def, lookup_map_val]
  cases b.parts.lookup p.1 with
  | none => simp
  | some m =>
      simp only [melodyEq, Option.map_some, Option.some.injEq]
      rw [Bool.eq_iff_iff]; simp


theorem codes_copy (c : Chord) (hd : ∀ p ∈ c.parts, ∀ n ∈ p.2, n.dur.den ≤ Gen.LIMIT_DENOM) : codes (chordCopy c) = codes c := by
  unfold codes chordCopy
  simp only [List.map_map]
  apply List.map_congr_left
  intro p hp
  simp [melodyCode_copy p.2 (hd p hp)]

theorem partsOK_copy (c : Chord) (h : (c.parts.map Prod.fst).Nodup) :
    ((chordCopy c).parts.map Prod.fst).Nodup := by
  unfold chordCopy at *
  simpa [List.map_map, Function.comp_def] using h


theorem element_names (d : Int) (h : 0 ≤ d ∧ d < 7) : ∃ s, lookupKey d Gen.ELEMENT_TO_STR = .ok s := by
  have hd : d = 0 ∨ d = 1 ∨ d = 2 ∨ d = 3 ∨ d = 4 ∨ d = 5 ∨ d = 6 := by omega
  rcases hd with rfl | rfl | rfl | rfl | rfl | rfl | rfl <;> exact ⟨_, rfl⟩

theorem chordRepr_of_codes (a b : Chord) (h1 : a.elem = b.elem) (h2 : extText a = extText b) (h3 : a.ton = b.ton)
    (h4 : a.oct = b.oct) (h5 : codes a = codes b) : chordRepr a = chordRepr b := by
  have hp : partsCode a.parts = partsCode b.parts := by
    have e : ∀ c : Chord, partsCode c.parts = "\n" ++ ", \n".intercalate ((codes c).map (fun p => "\t" ++ p.1 ++ "=" ++ p.2)) := by
      intro c; simp [partsCode, codes, List.map_map, Function.comp_def]
    rw [e a, e b, h5]
  unfold chordRepr chordCode extCode
  rw [h1, h2, h3, h4, hp]


end MV.Eq
