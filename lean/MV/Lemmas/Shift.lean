/-
Uniform pitch shifts (chord octave, tonality octave, modulation by a tonality of the same mode):
if every scale / chromatic note of `c` sounds `d` semitones higher on `c`', then the chord tones
are the same notes and chord-tone / bass-tone notes move by exactly `d` (used by C01, C04, C11).
-/
import MV.Lemmas.Ext
namespace MV
open Gen

/-- add `d` semitones to a pitch result -/
def shiftBy (d : Int) : Res (Option Int) → Res (Option Int)
  | .ok (some p) => .ok (some (p + d))
  | r => r

/-- notes of the figure / modifier tables: scale or chromatic notes -/
def TableNote (n : Note) : Prop := n.kind = .s ∨ n.kind = .h
instance (n : Note) : Decidable (TableNote n) := by unfold TableNote; exact inferInstance

/-- `c'` sounds every scale / chromatic note exactly `d` semitones above `c` -/
def ShiftedBy (c c' : Chord) (d : Int) : Prop :=
  ∀ n, TableNote n → basicPitch c' n = shiftBy d (basicPitch c n)

theorem sortByKey_congr {α : Type} (k k' : α → Int) (l : List α)
    (h : ∀ a ∈ l, ∀ b ∈ l, (k a ≤ k b ↔ k' a ≤ k' b)) : sortByKey k l = sortByKey k' l := by
  -- the insertion only compares keys of elements of `l`
  have ins : ∀ (x : α) (acc : List α), (∀ y ∈ acc, (k x ≤ k y ↔ k' x ≤ k' y)) →
      sortByKey.insertFront k x acc = sortByKey.insertFront k' x acc := by
    intro x acc
    induction acc with
    | nil => intro _; rfl
    | cons y ys ih =>
      intro hy
      simp only [sortByKey.insertFront]
      have h1 := hy y (by simp)
      by_cases hk : k x ≤ k y
      · simp [hk, h1.mp hk]
      · have : ¬ k' x ≤ k' y := fun hh => hk (h1.mpr hh)
        simp only [hk, this, if_false]
        rw [ih (fun z hz => hy z (by simp [hz]))]
  have memins : ∀ (kk : α → Int) (x y : α) (acc : List α), y ∈ sortByKey.insertFront kk x acc ↔ y = x ∨ y ∈ acc := by
    intro kk x y acc
    induction acc with
    | nil => simp [sortByKey.insertFront]
    | cons a t ih =>
      simp only [sortByKey.insertFront]
      split
      · simp
      · simp only [List.mem_cons, ih]
        constructor
        · rintro (h | h | h) <;> simp [h]
        · rintro (h | h | h) <;> simp [h]
  have memsort : ∀ (l : List α) (y : α), y ∈ sortByKey k' l → y ∈ l := by
    intro l
    induction l with
    | nil => intro y hy; simpa [sortByKey] using hy
    | cons a t ih =>
      intro y hy
      unfold sortByKey at hy ih
      simp only [List.foldr_cons] at hy
      rcases (memins k' a y _).mp hy with rfl | hy
      · simp
      · exact List.mem_cons_of_mem _ (ih y hy)
  induction l with
  | nil => rfl
  | cons a t ih =>
    have iht := ih (fun x hx y hy => h x (by simp [hx]) y (by simp [hy]))
    unfold sortByKey at *
    simp only [List.foldr_cons]
    rw [iht]
    apply ins
    intro y hy
    exact h a (by simp) y (List.mem_cons_of_mem _ (memsort t y hy))

theorem reqPitch_shift (c c' : Chord) (d : Int) (h : ShiftedBy c c' d) (n : Note) (hn : TableNote n) :
    reqPitch c' n = (reqPitch c n).map (· + d) := by
  unfold reqPitch
  rw [h n hn]
  cases hb : basicPitch c n with
  | error e => rfl
  | ok v => cases v <;> rfl

theorem mapM_shift (c c' : Chord) (d : Int) (h : ShiftedBy c c' d) (l : List Note) (hl : ∀ n ∈ l, TableNote n) :
    l.mapM (reqPitch c') = (l.mapM (reqPitch c)).map (·.map (· + d)) := by
  induction l with
  | nil => rfl
  | cons a t ih =>
    simp only [List.mapM_cons, bind, Except.bind]
    rw [reqPitch_shift c c' d h a (hl a (by simp)), ih (fun n hn => hl n (by simp [hn]))]
    cases reqPitch c a with
    | error e => rfl
    | ok p =>
      cases t.mapM (reqPitch c) with
      | error e => rfl
      | ok ps => rfl

theorem mapM_ok_mem {α β : Type} (f : α → Res β) (l : List α) (out : List β) (h : l.mapM f = .ok out) :
    ∀ x ∈ l, ∃ y, f x = .ok y := by
  induction l generalizing out with
  | nil => intro x hx; simp at hx
  | cons a t ih =>
    simp only [List.mapM_cons, bind, Except.bind] at h
    cases h1 : f a with
    | error e => simp [h1] at h
    | ok b =>
      cases h2 : t.mapM f with
      | error e => simp [h1, h2] at h
      | ok bs =>
        intro x hx
        rcases List.mem_cons.mp hx with rfl | hx
        · exact ⟨b, h1⟩
        · exact ih bs h2 x hx

theorem pitchKey_shift (c c' : Chord) (d : Int) (h : ShiftedBy c c' d) (n : Note) (hn : TableNote n)
    (p : Int) (hp : reqPitch c n = .ok p) : pitchKey c n = p ∧ pitchKey c' n = p + d := by
  unfold reqPitch at hp
  unfold pitchKey
  rw [h n hn]
  cases hb : basicPitch c n with
  | error e => simp [hb, bind, Except.bind] at hp
  | ok v =>
    cases v with
    | none => simp [hb, bind, Except.bind] at hp
    | some q =>
      simp only [hb, bind, Except.bind, pure, Except.pure, Except.ok.injEq] at hp
      subst hp
      exact ⟨rfl, rfl⟩

theorem tableNote_o (n : Note) (k : Int) (h : TableNote n) : TableNote (n.o k) := by
  unfold TableNote Note.o Note.oabs at *
  rcases h with h | h <;> simp [h]

/-- every note of the generated figure / modifier tables is a scale or chromatic note -/
theorem tables_are_tableNotes :
    (∀ f base, BASE_EXTENSION_DICT f = some base → ∀ n ∈ base, TableNote n) ∧
    (∀ p ∈ DICT_REPLACEMENT, TableNote p.2.1 ∧ TableNote p.2.2) ∧
    (∀ p ∈ DICT_ADDITION, TableNote p.2.1 ∧ TableNote p.2.2) ∧
    (∀ p ∈ DICT_REMOVAL, TableNote p.2) := by
  refine ⟨?_, by decide, by decide, by decide⟩
  intro f base hb
  cases f <;> (simp only [BASE_EXTENSION_DICT, Option.some.injEq] at hb; subst hb; decide)

theorem lookupKey_mem {κ ν : Type} [BEq κ] [LawfulBEq κ] (k : κ) (l : List (κ × ν)) (v : ν)
    (h : lookupKey k l = .ok v) : (k, v) ∈ l := by
  unfold lookupKey at h
  cases hl : l.lookup k with
  | none => simp [hl] at h
  | some w =>
    simp only [hl, Except.ok.injEq] at h
    subst h
    induction l with
    | nil => simp [List.lookup] at hl
    | cons p rest ih =>
      simp only [List.lookup] at hl
      by_cases hk : k = p.1
      · subst hk
        simp only [beq_self_eq_true, Option.some.injEq] at hl
        subst hl; simp
      · have : (k == p.1) = false := by simpa using hk
        simp only [this] at hl
        exact List.mem_cons_of_mem _ (ih hl)

theorem mem_set {α : Type} (l : List α) (i : Nat) (x y : α) (h : y ∈ l.set i x) : y = x ∨ y ∈ l := by
  rcases List.mem_or_eq_of_mem_set h with h | h
  · exact Or.inr h
  · exact Or.inl h

theorem mem_insertIdx' {α : Type} (l : List α) (i : Nat) (x y : α) (h : y ∈ l.insertIdx i x) : y = x ∨ y ∈ l := by
  by_cases hi : i ≤ l.length
  · exact (List.mem_insertIdx hi).mp h
  · rw [List.insertIdx_of_length_lt (by omega)] at h
    exact Or.inr h

theorem calcReplacements_table (rs : List String) (st : CalcState) (adds : List String)
    (st' : CalcState) (adds' : List String) (hst : ∀ n ∈ st.notes, TableNote n)
    (h : calcReplacements rs st adds = .ok (st', adds')) : ∀ n ∈ st'.notes, TableNote n := by
  induction rs generalizing st adds with
  | nil =>
    simp only [calcReplacements, Except.ok.injEq, Prod.mk.injEq] at h
    rw [← h.1]; exact hst
  | cons r rest ih =>
    unfold calcReplacements at h
    cases hl : lookupKey r DICT_REPLACEMENT with
    | error e => simp [hl, bind, Except.bind] at h
    | ok v =>
      obtain ⟨replaced, newNote⟩ := v
      simp only [hl, bind, Except.bind] at h
      have hnew : TableNote newNote := (tables_are_tableNotes.2.1 _ (lookupKey_mem _ _ _ hl)).2
      split at h
      · exact ih st _ hst h
      · rename_i idx _
        apply ih _ _ _ h
        intro n hn
        rcases mem_set _ _ _ _ hn with rfl | hn
        · exact tableNote_o _ _ hnew
        · exact hst n hn

theorem calcAdditions_table (as : List String) (st st' : CalcState) (hst : ∀ n ∈ st.notes, TableNote n)
    (h : calcAdditions as st = .ok st') : ∀ n ∈ st'.notes, TableNote n := by
  induction as generalizing st with
  | nil => simp only [calcAdditions, Except.ok.injEq] at h; rw [← h]; exact hst
  | cons a rest ih =>
    unfold calcAdditions at h
    cases hl : lookupKey a DICT_ADDITION with
    | error e => simp [hl, bind, Except.bind] at h
    | ok v =>
      obtain ⟨noteAfter, newNote⟩ := v
      simp only [hl, bind, Except.bind] at h
      have hnew : TableNote newNote := (tables_are_tableNotes.2.2.1 _ (lookupKey_mem _ _ _ hl)).2
      split at h
      · cases h
      · apply ih _ _ h
        intro n hn
        simp only at hn
        rcases mem_insertIdx' _ _ _ _ hn with rfl | hn
        · exact tableNote_o _ _ hnew
        · exact hst n hn

theorem calcRemovals_table (rs : List String) (st st' : CalcState) (hst : ∀ n ∈ st.notes, TableNote n)
    (h : calcRemovals rs st = .ok st') : ∀ n ∈ st'.notes, TableNote n := by
  induction rs generalizing st with
  | nil => simp only [calcRemovals, Except.ok.injEq] at h; rw [← h]; exact hst
  | cons r rest ih =>
    unfold calcRemovals at h
    cases hl : lookupKey r DICT_REMOVAL with
    | error e => simp [hl, bind, Except.bind] at h
    | ok v =>
      simp only [hl, bind, Except.bind] at h
      split at h
      · cases h
      · apply ih _ _ h
        intro n hn
        exact hst n (List.mem_of_mem_eraseIdx hn)

/-- **uniform shifts do not change the chord tones**: if `c'` sounds every scale / chromatic note
`d` semitones above `c`, both chords have the same chord notes (same table surgery, same stable
sort) and every chord pitch moves by exactly `d` -/
theorem chordNotesCalc_shift (c c' : Chord) (d : Int) (h : ShiftedBy c c' d) (f : Fig) (r a m : List String) :
    c'.chordNotesCalc f r a m = c.chordNotesCalc f r a m := by
  unfold Chord.chordNotesCalc
  cases hb : BASE_EXTENSION_DICT f with
  | none => rfl
  | some base =>
    simp only [bind, Except.bind, pure, Except.pure]
    cases h1 : calcReplacements r { notes := base, nwo := base.map noOct } a with
    | error e => rfl
    | ok v1 =>
      obtain ⟨st1, adds⟩ := v1
      simp only
      cases h2 : calcAdditions adds st1 with
      | error e => rfl
      | ok st2 =>
        simp only
        cases h3 : calcRemovals m st2 with
        | error e => rfl
        | ok st3 =>
          simp only
          have t0 : ∀ n ∈ ({ notes := base, nwo := base.map noOct } : CalcState).notes, TableNote n :=
            tables_are_tableNotes.1 f base hb
          have t1 := calcReplacements_table r _ a st1 adds t0 h1
          have t2 := calcAdditions_table adds st1 st2 t1 h2
          have t3 := calcRemovals_table m st2 st3 t2 h3
          rw [mapM_shift c c' d h st3.notes t3]
          cases hm : st3.notes.mapM (reqPitch c) with
          | error e => rfl
          | ok ps =>
            simp only [Except.map]
            congr 1
            apply sortByKey_congr
            intro x hx y hy
            obtain ⟨px, hpx⟩ := mapM_ok_mem _ _ _ hm x hx
            obtain ⟨py, hpy⟩ := mapM_ok_mem _ _ _ hm y hy
            obtain ⟨kx, kx'⟩ := pitchKey_shift c c' d h x (t3 x hx) px hpx
            obtain ⟨ky, ky'⟩ := pitchKey_shift c c' d h y (t3 y hy) py hpy
            rw [kx, kx', ky, ky']; omega

theorem chordPitches_shift (c c' : Chord) (d : Int) (h : ShiftedBy c c' d) (he : c'.ext = c.ext) :
    c'.chordPitches = (c.chordPitches).map (·.map (· + d)) ∧
    c'.extensionPitches = (c.extensionPitches).map (·.map (· + d)) := by
  have key : ∀ (f : Fig) (r a m : List String),
      (do pitchesOf c' (← c'.chordNotesCalc f r a m)) =
        (do pitchesOf c (← c.chordNotesCalc f r a m) : Res (List Int)).map (·.map (· + d)) := by
    intro f r a m
    rw [chordNotesCalc_shift c c' d h]
    cases hc : c.chordNotesCalc f r a m with
    | error e => rfl
    | ok ns =>
      simp only [bind, Except.bind]
      unfold pitchesOf
      -- the notes returned are table notes: re-run the invariant
      have hns : ∀ n ∈ ns, TableNote n := by
        unfold Chord.chordNotesCalc at hc
        cases hb : BASE_EXTENSION_DICT f with
        | none => simp [hb, bind, Except.bind] at hc
        | some base =>
          simp only [hb, bind, Except.bind, pure, Except.pure] at hc
          cases h1 : calcReplacements r { notes := base, nwo := base.map noOct } a with
          | error e => simp [h1] at hc
          | ok v1 =>
            obtain ⟨st1, adds⟩ := v1
            simp only [h1] at hc
            cases h2 : calcAdditions adds st1 with
            | error e => simp [h2] at hc
            | ok st2 =>
              simp only [h2] at hc
              cases h3 : calcRemovals m st2 with
              | error e => simp [h3] at hc
              | ok st3 =>
                simp only [h3] at hc
                have t0 : ∀ n ∈ ({ notes := base, nwo := base.map noOct } : CalcState).notes, TableNote n :=
                  tables_are_tableNotes.1 f base hb
                have t3 := calcRemovals_table m st2 st3 (calcAdditions_table adds st1 st2
                  (calcReplacements_table r _ a st1 adds t0 h1) h2) h3
                cases hm : st3.notes.mapM (reqPitch c) with
                | error e => simp [hm] at hc
                | ok ps =>
                  simp only [hm, Except.ok.injEq] at hc
                  intro n hn
                  rw [← hc] at hn
                  -- members of the sorted list are members of the list
                  have : ∀ (l : List Note) (y : Note), y ∈ sortByKey (pitchKey c) l → y ∈ l := by
                    intro l
                    induction l with
                    | nil => intro y hy; simpa [sortByKey] using hy
                    | cons a t ih =>
                      intro y hy
                      unfold sortByKey at hy ih
                      simp only [List.foldr_cons] at hy
                      have memins : ∀ (x y : Note) (acc : List Note),
                          y ∈ sortByKey.insertFront (pitchKey c) x acc → y = x ∨ y ∈ acc := by
                        intro x y acc
                        induction acc with
                        | nil => simp [sortByKey.insertFront]
                        | cons a t ih2 =>
                          simp only [sortByKey.insertFront]
                          split
                          · simp
                          · simp only [List.mem_cons]
                            rintro (h | h)
                            · simp [h]
                            · rcases ih2 h with h | h <;> simp [h]
                      rcases memins a y _ hy with rfl | hy
                      · simp
                      · exact List.mem_cons_of_mem _ (ih y hy)
                  exact t3 n (this _ n hn)
      exact mapM_shift c c' d h ns hns
  constructor
  · unfold Chord.chordPitches Chord.chordNotes
    rw [he]; exact key _ _ _ _
  · unfold Chord.extensionPitches Chord.extensionNotes
    rw [he]; exact key _ _ _ _

theorem valueToScale_map (v d : Int) (l : List Int) :
    valueToScale v (l.map (· + d)) = (valueToScale v l).map (· + d) := by
  by_cases hl : l.length = 0
  · have : l = [] := List.eq_nil_of_length_eq_zero hl
    subst this; rfl
  · rw [valueToScale_pos _ _ (by simp; omega), valueToScale_pos _ _ (by omega)]
    simp only [List.length_map, Except.map]
    have hi : (v % (l.length : Int)).toNat < l.length := by
      have hp : (0 : Int) < l.length := by omega
      have := Int.emod_lt_of_pos v hp
      have := Int.emod_nonneg v (by omega : (l.length : Int) ≠ 0)
      omega
    simp only [List.getD_eq_getElem?_getD, List.getElem?_map, List.getElem?_eq_getElem hi, Option.map_some,
      Option.getD_some]
    congr 1; omega

/-- **chord-tone and bass-tone notes follow a uniform shift of the chord** -/
theorem noteToPitch_tones_shift (c c' : Chord) (d : Int) (h : ShiftedBy c c' d) (he : c'.ext = c.ext)
    (n : Note) (last : Int) (hk : n.kind = .c ∨ n.kind = .b) :
    noteToPitch c' n last = shiftBy d (noteToPitch c n last) := by
  obtain ⟨h1, h2⟩ := chordPitches_shift c c' d h he
  rcases hk with hk | hk
  · unfold noteToPitch
    simp only [hk, h1]
    cases hc : c.chordPitches with
    | error e => rfl
    | ok sc =>
      simp only [Except.map, bind, Except.bind, List.length_map, valueToScale_map]
      cases valueToScale (n.val + (sc.length : Int) * n.oct) sc <;> rfl
  · unfold noteToPitch
    simp only [hk, h2]
    cases hc : c.extensionPitches with
    | error e => rfl
    | ok sc =>
      simp only [Except.map, bind, Except.bind, List.length_map, valueToScale_map]
      cases valueToScale (n.val + (sc.length : Int) * n.oct) sc <;> rfl

end MV
