/-
Helper lemmas for the source tie of group `SrcText` (DESIGN.md §9.6, `MV/Props/TieSrcText.lean`).
-/
import MV.Gen.SrcText
import MV.Lemmas.TextPrint

namespace MV.TieText
open MV MV.Gen

/-! ### `sep.join(l)` -/

theorem foldl_sep (sep a b : String) (l : List String) :
    l.foldl (fun r s => r ++ sep ++ s) (a ++ b) = a ++ l.foldl (fun r s => r ++ sep ++ s) b := by
  induction l generalizing b with
  | nil => rfl
  | cons x xs ih =>
    simp only [List.foldl_cons]
    have e : a ++ b ++ sep ++ x = a ++ (b ++ sep ++ x) := by simp only [String.append_assoc]
    rw [e]; exact ih _

theorem strJoin_cons_cons (sep x y : String) (ys : List String) :
    PyL.strJoin sep (x :: y :: ys) = x ++ sep ++ PyL.strJoin sep (y :: ys) := by
  simp only [PyL.strJoin, List.foldl_cons]
  rw [String.append_assoc, foldl_sep, String.append_assoc]
  congr 1
  have := foldl_sep sep sep y ys
  rw [this]

/-- `sep.join(l)` (the fold py2lean writes) is the model's `sep.intercalate l` -/
theorem strJoin_intercalate (sep : String) (l : List String) : PyL.strJoin sep l = sep.intercalate l := by
  induction l with
  | nil => rfl
  | cons x xs ih =>
    cases xs with
    | nil => simp [PyL.strJoin]
    | cons y ys => rw [String.intercalate_cons_cons, ← ih, strJoin_cons_cons]

/-! ### the dynamics figure -/

/-- a cascade `if q <= t1: s1 elif q <= t2: s2 … else top` as a search in the list of thresholds -/
def cascL (l : List (Rat × String)) (top : String) (q : Rat) : String :=
  match l.find? (fun p => q ≤ p.1) with
  | some p => p.2
  | none => top

theorem cascL_nil (top : String) (q : Rat) : cascL [] top q = top := rfl

theorem cascL_cons (t : Rat) (s : String) (l : List (Rat × String)) (top : String) (q : Rat) :
    cascL ((t, s) :: l) top q = if q ≤ t then s else cascL l top q := by
  by_cases h : q ≤ t <;> simp [cascL, List.find?, h]

/-- the cascade of `amp_figure` on a quotient -/
def casc (q : Rat) : String := cascL AMP_THRESHOLDS AMP_TOP q

theorem ampCascade_eq (amp : Rat) : Eq.ampCascade amp = casc (amp / 120) := rfl

theorem src_fig (n : Note) : Src.NoteProperties_amp_figure n = casc (Src.NoteProperties_amp_normalized n) := by
  have h0 : ((0 : Int) : Rat) = 0 := rfl
  unfold Src.NoteProperties_amp_figure casc
  simp only [AMP_THRESHOLDS, AMP_TOP, cascL_cons, cascL_nil, decide_eq_true_eq, h0]

/-- on the amplitudes of the eight dynamics the cascade over the generated float quotient gives the figure the generated table
`DYNAMICS` records for the live code -/
theorem dyn_table : ∀ r ∈ DYNAMICS, casc ((Src.PyT.AMP_QUOT.lookup r.1).getD (r.2.1 / 120)) = r.2.2 := by decide +kernel

/-- `NoteProperties.amp_figure` -/
theorem ampFigure_src (n : Note) : Src.NoteProperties_amp_figure n = Eq.ampFigure n.amp := by
  rw [src_fig]
  unfold Eq.ampFigure Src.NoteProperties_amp_normalized Src.PyT.floatDiv
  cases h : DYNAMICS.find? (fun r => r.2.1 == n.amp) with
  | none => simp only [if_true, ampCascade_eq]
  | some r =>
    have hm : r ∈ DYNAMICS := List.mem_of_find?_eq_some h
    have he : r.2.1 = n.amp := by have := List.find?_some h; simpa using this
    simp only [if_true, ← he]
    exact dyn_table r hm

/-! ### `Note.to_code` -/

theorem ite_app (c : Bool) (r x : String) : (if c = true then r ++ x else r) = r ++ (if c = true then x else "") := by
  cases c <;> simp

/-- the duration stage of `Note.to_code` as py2lean writes it: the membership test, then the lookup (which cannot fail after it) -/
def durSt (d : Rat) (result : String) : Res String := do
  if (decide (d ≠ (1 : Rat))) then
    let result : String ← (do
        if (Src.PyT.durIn d Gen.DURATION_TO_STR) then
          let t_1 ← lookupKey d Gen.DURATION_TO_STR
          let duration : String := t_1
          let result : String := (result ++ ("." ++ duration))
          pure result
        else
          let result : String := (
              let result : String := (result ++ (".augment(frac(" ++ (toString d.num) ++ ", " ++ (toString d.den) ++ "))"))
              result
            )
          pure result
      )
    pure result
  else
    pure result

theorem durSt_eq (d : Rat) (result : String) : durSt d result = .ok (result ++ Eq.durCode d) := by
  unfold durSt Eq.durCode Src.PyT.durIn lookupKey
  by_cases h1 : d = 1
  · simp [h1]; rfl
  · cases h2 : DURATION_TO_STR.lookup d with
    | none => simp [h1, pure, Except.pure]
    | some s => simp [h1, bind, Except.bind, pure, Except.pure]

/-- the stages after the duration, as py2lean writes them (each takes the text so far) -/
def octSt (n : Note) (result : String) : String :=
  if ((decide (n.oct ≠ (0 : Int))) && (n.kind.isNote || (decide (n.kind = Kind.x)))) then
    (if (!n.kind.isRelative) then (result ++ (".o(" ++ (toString n.oct) ++ ")"))
     else (result ++ (".oabs(" ++ (toString n.oct) ++ ")")))
  else result

def modeSt (n : Note) (result : String) : String :=
  if ((!n.mode.isNone) && (!(([Kind.r, Kind.l] : List Kind).contains n.kind))) then (result ++ ("." ++ (Src.PyT.modeStr n.mode)))
  else result

def accSt (n : Note) (result : String) : String :=
  if ((!n.acc.isNone) && (!(([Kind.r, Kind.l] : List Kind).contains n.kind))) then (result ++ ("." ++ (Src.PyT.accStr n.acc)))
  else result

def ampSt (n : Note) (result : String) : String :=
  if (n.kind.isNote || (([Kind.x, Kind.d] : List Kind).contains n.kind)) then
    (if (decide (Src.NoteProperties_amp_figure n = "n")) then (result ++ ".set_amp(0)")
     else (if (decide (Src.NoteProperties_amp_figure n ≠ "mf")) then (result ++ ("." ++ (Src.NoteProperties_amp_figure n))) else result))
  else result

def tagSt (n : Note) (result : String) : String :=
  if (decide ((Py.len n.tags) > (0 : Int))) then (result ++ (".add_tags(" ++ (Eq.tagsRepr n.tags) ++ ")")) else result

def chain (n : Note) (result : String) : String := tagSt n (ampSt n (accSt n (modeSt n (octSt n result))))

/-- the shape of the generated definition: four heads, each followed by the same stages -/
theorem src_shape (n : Note) : Src.Note_to_code n =
    (if n.kind.isNote then (do let r ← durSt n.dur (n.kind.toStr ++ (toString n.val)); pure (chain n r))
     else if Src.Note_is_drum n then
       (do let r ← durSt n.dur (if (decide (n.oct ≠ (0 : Int))) then (("d" ++ (toString n.val)) ++ (".oabs(" ++ (toString n.oct) ++ ")"))
                                else ("d" ++ (toString n.val)));
           pure (chain n r))
     else if (decide (n.kind = Kind.x)) then (do let r ← durSt n.dur (n.kind.toStr ++ (toString n.val)); pure (chain n r))
     else (do let r ← durSt n.dur n.kind.toStr; pure (chain n r))) := rfl

/-- the pieces of the model's `Eq.noteCode` -/
def headS (n : Note) : String :=
  if n.kind.isNote then n.kind.toStr ++ toString n.val
  else if n.kind = .d then "d" ++ toString n.val ++ (if n.oct ≠ 0 then ".oabs(" ++ toString n.oct ++ ")" else "")
  else if n.kind = .x then "x" ++ toString n.val
  else n.kind.toStr

def octS (n : Note) : String :=
  if n.oct ≠ 0 && (n.kind.isNote || n.kind = .x) then (if !n.kind.isRelative then ".o(" else ".oabs(") ++ toString n.oct ++ ")" else ""

def modeS (n : Note) : String :=
  match n.mode with
  | some md => if (n.kind ≠ .r && n.kind ≠ .l) then "." ++ md.toStr else ""
  | none => ""

def accS (n : Note) : String :=
  match n.acc with
  | some a => if (n.kind ≠ .r && n.kind ≠ .l) then "." ++ a.toStr else ""
  | none => ""

def ampS (n : Note) : String :=
  if n.kind.isNote || n.kind = .x || n.kind = .d then
    (if Eq.ampFigure n.amp = "n" then ".set_amp(0)" else if Eq.ampFigure n.amp ≠ "mf" then "." ++ Eq.ampFigure n.amp else "")
  else ""

def tagS (n : Note) : String := if n.tags.length > 0 then ".add_tags(" ++ Eq.tagsRepr n.tags ++ ")" else ""

theorem noteCode_parts (n : Note) :
    Eq.noteCode n = headS n ++ Eq.durCode n.dur ++ octS n ++ modeS n ++ accS n ++ ampS n ++ tagS n := rfl

theorem octSt_eq (n : Note) (r : String) : octSt n r = r ++ octS n := by
  unfold octSt octS
  have kx : Kind.x.isRelative = false := rfl
  by_cases ho : n.oct = 0 <;> by_cases hn : n.kind.isNote = true <;> by_cases hx : n.kind = .x <;>
    by_cases hr : n.kind.isRelative = true <;> simp [ho, hn, hx, hr, String.append_assoc, kx]

theorem contains_rl (k : Kind) : (!(([Kind.r, Kind.l] : List Kind).contains k)) = (decide (k ≠ .r) && decide (k ≠ .l)) := by
  cases k <;> rfl

theorem contains_xd (k : Kind) : (k.isNote || (([Kind.x, Kind.d] : List Kind).contains k)) = (k.isNote || decide (k = .x) || decide (k = .d)) := by
  cases k <;> rfl

theorem modeSt_eq (n : Note) (r : String) : modeSt n r = r ++ modeS n := by
  unfold modeSt modeS
  rw [contains_rl]
  cases n.mode with
  | none => simp
  | some md => by_cases h1 : n.kind = .r <;> by_cases h2 : n.kind = .l <;> simp [h1, h2, Src.PyT.modeStr]

theorem accSt_eq (n : Note) (r : String) : accSt n r = r ++ accS n := by
  unfold accSt accS
  rw [contains_rl]
  cases n.acc with
  | none => simp
  | some md => by_cases h1 : n.kind = .r <;> by_cases h2 : n.kind = .l <;> simp [h1, h2, Src.PyT.accStr]

theorem ampSt_eq (n : Note) (r : String) : ampSt n r = r ++ ampS n := by
  unfold ampSt ampS
  rw [contains_xd, ampFigure_src]
  by_cases hn : n.kind.isNote = true <;> by_cases hx : n.kind = .x <;> by_cases hd : n.kind = .d <;>
    by_cases h1 : Eq.ampFigure n.amp = "n" <;> by_cases h2 : Eq.ampFigure n.amp = "mf" <;> simp [hn, hx, hd, h1, h2]

theorem tagSt_eq (n : Note) (r : String) : tagSt n r = r ++ tagS n := by
  unfold tagSt tagS Py.len
  by_cases h : n.tags.length > 0
  · simp [h]
  · simp [h]

theorem chain_eq (n : Note) (r : String) : chain n r = r ++ octS n ++ modeS n ++ accS n ++ ampS n ++ tagS n := by
  unfold chain
  rw [tagSt_eq, ampSt_eq, accSt_eq, modeSt_eq, octSt_eq]

/-- `Note.to_code` never raises and writes the text of the equality model's printer -/
theorem noteCode_src_eq (n : Note) : Src.Note_to_code n = .ok (Eq.noteCode n) := by
  rw [src_shape, noteCode_parts]
  simp only [durSt_eq, bind, Except.bind, pure, Except.pure, chain_eq]
  unfold headS Src.Note_is_drum
  have kd : Kind.d.isNote = false := rfl
  by_cases h1 : n.kind.isNote = true
  · simp [h1]
  · by_cases h2 : n.kind = .d
    · by_cases h3 : n.oct = 0 <;> simp [h2, h3, kd]
    · by_cases h3 : n.kind = .x
      · simp [h3, Kind.toStr]
      · simp [h1, h2, h3]

/-! ### melodies, tonalities, chords against the equality model's printers -/

theorem mapM_ok {α β : Type} (f : α → Res β) (g : α → β) (h : ∀ a, f a = .ok (g a)) (l : List α) :
    l.mapM f = .ok (l.map g) := by
  induction l with
  | nil => rfl
  | cons x xs ih => simp [List.mapM_cons, h, ih, bind, Except.bind, pure, Except.pure]

theorem noteRepr_src_eq (n : Note) : Src.Note_repr n = .ok (Eq.noteCode n) := by
  unfold Src.Note_repr; rw [noteCode_src_eq]

theorem melodyCode_src_eq (m : Melody) : Src.Melody_to_code m = .ok (Eq.melodyCode m) := by
  unfold Src.Melody_to_code Eq.melodyCode
  rw [mapM_ok _ Eq.noteCode (fun n => by rw [noteCode_src_eq])]
  simp only [bind, Except.bind, pure, Except.pure, strJoin_intercalate]

theorem melodyRepr_src_eq (m : Melody) : Src.Melody_repr m = .ok (Eq.melodyCode m) := by
  unfold Src.Melody_repr; rw [melodyCode_src_eq]

theorem tonCode_src_eq (t : Tonality) : Src.Tonality_to_code t = Eq.tonCode t := by
  unfold Src.Tonality_to_code Src.Tonality_degree_to_str Eq.tonCode Eq.octCode
  cases lookupKey t.deg Gen.DEGREE_TO_STR with
  | error e => rfl
  | ok d =>
    by_cases h : t.oct = 0
    · simp [h]
    · simp [h, String.append_assoc]

theorem tonRepr_src_eq (t : Tonality) : Src.Tonality_repr t = Eq.tonCode t := by
  unfold Src.Tonality_repr; rw [tonCode_src_eq]

theorem extCode_src_eq (c : Chord) : Src.Chord_extension_to_str c = Eq.extCode c := by
  unfold Src.Chord_extension_to_str Eq.extCode Eq.extText
  by_cases h : c.ext.normalize.toText = "" <;> simp [h]

theorem chordCode_src_eq (c : Chord) : Src.Chord_to_code c = Eq.chordCode c := by
  unfold Src.Chord_to_code Src.Chord_element_to_str Src.Chord_tonality_to_str Eq.chordCode Eq.octCode
  rw [tonCode_src_eq, extCode_src_eq]
  cases lookupKey c.elem Gen.ELEMENT_TO_STR with
  | error e => rfl
  | ok el =>
    cases Eq.tonCode c.ton with
    | error e => rfl
    | ok t =>
      by_cases h : c.oct = 0
      · simp only [h, ne_eq, not_true_eq_false, decide_false, Bool.false_eq_true, if_false, String.append_empty,
          String.append_assoc]; rfl
      · simp only [h, ne_eq, not_false_eq_true, decide_true, if_true, String.append_assoc]; rfl

theorem partsCode_src_eq (c : Chord) : Src.Chord_melody_to_str c = .ok (Eq.partsCode c.parts) := by
  unfold Src.Chord_melody_to_str Eq.partsCode
  rw [mapM_ok _ (fun (p : String × Melody) => "\t" ++ p.1 ++ "=" ++ Eq.melodyCode p.2)
    (fun p => by rw [melodyRepr_src_eq]; rfl)]
  simp only [bind, Except.bind, pure, Except.pure, strJoin_intercalate]

theorem chordRepr_src_eq (c : Chord) : Src.Chord_repr c = Eq.chordRepr c := by
  unfold Src.Chord_repr Eq.chordRepr
  rw [chordCode_src_eq, partsCode_src_eq]
  cases Eq.chordCode c <;> rfl

/-! ### against the text model of C05 (`MV/Model/Text.lean`) -/

open MV.Text in
theorem chordRepr_src_text (c : Chord) : Src.Chord_repr c = (chordCode c).map ChordCode.text := by
  rw [chordRepr_src_eq, chordCode_text_eq]

open MV.Text in
theorem customRepr_src_text (c : Custom) : Src.CustomChord_repr c = (customCode c).map CustomCode.text := by
  have ht := tonCode_text_eq c.chord.ton
  unfold Src.CustomChord_repr Src.CustomChord_to_code Src.CustomChord_tonality_to_str Src.CustomChord_notes_to_str customCode
  rw [tonCode_src_eq, partsCode_src_eq, mapM_ok _ Eq.noteCode noteRepr_src_eq]
  cases htc : tonCode c.chord.ton with
  | error e =>
    rw [htc] at ht; simp only [Except.map] at ht
    simp [← ht, Except.map, bind, Except.bind]
  | ok tc =>
    rw [htc] at ht; simp only [Except.map] at ht
    have hn : List.map Code.text (List.map noteCode c.notes) = List.map Eq.noteCode c.notes := by
      rw [List.map_map]; apply List.map_congr_left; intro n _; exact noteCode_text_eq n
    simp only [← ht, Except.map, bind, Except.bind, pure, Except.pure, CustomCode.text, octText_eq, partsText_eq, hn,
      strJoin_intercalate, Eq.octCode]
    by_cases h : c.chord.oct = 0
    · simp [h, ← String.append_assoc]
    · simp [h, ← String.append_assoc]

open MV.Text in
theorem itemRepr_src_text (i : Item) :
    (match i with | .plain c => Src.Chord_repr c | .custom c => Src.CustomChord_repr c) = (itemCode i).map ItemCode.text := by
  cases i with
  | plain c =>
    simp only [itemCode, chordRepr_src_text]
    cases chordCode c <;> rfl
  | custom c =>
    simp only [itemCode, customRepr_src_text]
    cases customCode c <;> rfl

theorem mapM_map {α β γ : Type} (g : α → Res β) (h : β → γ) (l : List α) :
    l.mapM (fun x => (g x).map h) = (l.mapM g).map (List.map h) := by
  induction l with
  | nil => rfl
  | cons x xs ih =>
    simp only [List.mapM_cons, ih, bind, Except.bind]
    cases g x with
    | error e => rfl
    | ok v => cases List.mapM g xs <;> rfl

open MV.Text in
theorem scoreRepr_src_text (s : List Item) : Src.Score_repr s = (scoreCodes s).map scoreText := by
  unfold Src.Score_repr scoreCodes scoreText
  have key : ∀ (f : Item → Res String), (∀ i, f i = (itemCode i).map ItemCode.text) →
      (do let t_2 ← List.mapM f s; pure (PyL.strJoin "+ \n" t_2) : Res String)
        = Except.map (fun items => "+ \n".intercalate (List.map ItemCode.text items)) (List.mapM itemCode s) := by
    intro f hf
    have : f = fun i => (itemCode i).map ItemCode.text := funext hf
    rw [this, mapM_map]
    cases List.mapM itemCode s with
    | error e => rfl
    | ok cs => simp only [Except.map, bind, Except.bind, pure, Except.pure, strJoin_intercalate]
  apply key
  intro i
  cases i with
  | plain c => exact itemRepr_src_text (.plain c)
  | custom c => exact itemRepr_src_text (.custom c)

end MV.TieText
