/-
Lemmas about the Bjorklund model (C17): `build` read bottom-up, the Euclid loop,
counting, block structure (gaps) and maximal evenness.
-/
import Mathlib.Tactic.Ring
import Mathlib.Tactic.LinearCombination
import Mathlib.Tactic.Linarith
import Mathlib.Data.Int.GCD
import Mathlib.Data.List.Rotate
import MV.Model.Metric
namespace MV.Rhythm
open MV

/-! ### `build` bottom-up -/

/-- `build` without the index checks -/
def buildP (counts remainders : List Int) : Nat → List Int
  | 0 => [1]
  | 1 => [0]
  | lv + 2 =>
      repeatWord (counts.getD lv 0).toNat (buildP counts remainders (lv + 1))
        ++ (if remainders.getD lv 0 ≠ 0 then buildP counts remainders lv else [])

theorem build_eq_buildP (counts remainders : List Int) (lv : Nat)
    (h1 : lv ≤ counts.length + 1) (h2 : lv ≤ remainders.length + 1) :
    build counts remainders lv = .ok (buildP counts remainders lv) := by
  induction lv using Nat.strongRecOn with
  | _ lv ih =>
    match lv with
    | 0 => rfl
    | 1 => rfl
    | lv + 2 =>
      have hc : lv < counts.length := by omega
      have hr : lv < remainders.length := by omega
      have ih1 := ih (lv + 1) (by omega) (by omega) (by omega)
      have ih0 := ih lv (by omega) (by omega) (by omega)
      unfold build buildP
      simp only [List.getElem?_eq_getElem hc, List.getElem?_eq_getElem hr, ih1, ih0, bind, Except.bind, pure,
        Except.pure, List.getD_eq_getElem?_getD, Option.getD_some]
      split <;> simp_all

/-- the same word computed upwards: `w1`, `w2` are the words of the two previous levels -/
def finalWord : List Int → List Int → List Int → List Int → List Int
  | w1, _, [], _ => w1
  | w1, _, _ :: _, [] => w1
  | w1, w2, c :: cs, r :: rs =>
      finalWord (repeatWord c.toNat w1 ++ (if r ≠ 0 then w2 else [])) w1 cs rs

theorem finalWord_drop (counts remainders : List Int) (hl : counts.length = remainders.length) (j : Nat)
    (hj : j ≤ counts.length) :
    finalWord (buildP counts remainders (j + 1)) (buildP counts remainders j) (counts.drop j) (remainders.drop j)
      = buildP counts remainders (counts.length + 1) := by
  generalize hn : counts.length - j = n
  induction n generalizing j with
  | zero =>
    have : j = counts.length := by omega
    subst this
    simp [finalWord]
  | succ n ih =>
    have hc : j < counts.length := by omega
    have hr : j < remainders.length := by omega
    rw [List.drop_eq_getElem_cons hc, List.drop_eq_getElem_cons hr, finalWord]
    have := ih (j + 1) (by omega) (by omega)
    rw [← this]
    congr 1
    conv => rhs; unfold buildP
    simp [List.getD_eq_getElem?_getD, List.getElem?_eq_getElem hc, List.getElem?_eq_getElem hr]

theorem build_top (counts remainders : List Int) (hl : counts.length = remainders.length) (hne : counts ≠ []) :
    build counts remainders (counts.length - 1 + 2) = .ok (finalWord [0] [1] counts remainders) := by
  have hpos : 0 < counts.length := List.length_pos_iff.mpr hne
  have e : counts.length - 1 + 2 = counts.length + 1 := by omega
  rw [e, build_eq_buildP _ _ _ (by omega) (by omega)]
  have := finalWord_drop counts remainders hl 0 (by omega)
  simp only [List.drop_zero] at this
  rw [← this]
  rfl

/-! ### the Euclid loop -/

theorem euclidLoop_inv {f : Nat} {d r : Int} {cs rs : List Int} (hr : 1 ≤ r)
    (h : euclidLoop (f + 1) d r = some (.ok (cs, rs))) :
    (d % r ≤ 1 ∧ cs = [d / r, r] ∧ rs = [d % r]) ∨
    (2 ≤ d % r ∧ ∃ cs' rs', euclidLoop f r (d % r) = some (.ok (cs', rs')) ∧ cs = d / r :: cs' ∧ rs = d % r :: rs') := by
  unfold euclidLoop at h
  have hr0 : ¬ r = 0 := by omega
  have hnn : (0 : Int) ≤ r := by omega
  simp only [hr0, if_false, Int.fdiv_eq_ediv_of_nonneg _ hnn, Int.fmod_eq_emod_of_nonneg _ hnn] at h
  split at h
  · left
    rename_i hle
    simp only [Option.some.injEq, Except.ok.injEq, Prod.mk.injEq] at h
    exact ⟨hle, h.1.symm, h.2.symm⟩
  · right
    rename_i hgt
    refine ⟨by omega, ?_⟩
    split at h
    · cases h
    · simp at h
    · rename_i cs' rs' heq
      simp only [Option.some.injEq, Except.ok.injEq, Prod.mk.injEq] at h
      exact ⟨cs', rs', heq, h.1.symm, h.2.symm⟩

/-- the loop never runs out of fuel and never divides by zero when started on `r ≥ 1` with fuel `> r` -/
theorem euclidLoop_ok (f : Nat) (d r : Int) (hr : 1 ≤ r) (hf : r < f) :
    ∃ cs rs, euclidLoop f d r = some (.ok (cs, rs)) := by
  induction f generalizing d r with
  | zero => omega
  | succ f ih =>
    unfold euclidLoop
    have hr0 : ¬ r = 0 := by omega
    have hnn : (0 : Int) ≤ r := by omega
    simp only [hr0, if_false, Int.fdiv_eq_ediv_of_nonneg _ hnn, Int.fmod_eq_emod_of_nonneg _ hnn]
    split
    · exact ⟨_, _, rfl⟩
    · rename_i hgt
      have hlt := Int.emod_lt_of_pos d (by omega : 0 < r)
      obtain ⟨cs, rs, h⟩ := ih r (d % r) (by omega) (by omega)
      rw [h]
      exact ⟨_, _, rfl⟩

/-- lengths of the two lists -/
theorem euclidLoop_lengths (f : Nat) (d r : Int) (hr : 1 ≤ r) (cs rs : List Int)
    (h : euclidLoop f d r = some (.ok (cs, rs))) : cs.length = rs.length + 1 := by
  induction f generalizing d r cs rs with
  | zero => simp [euclidLoop] at h
  | succ f ih =>
    rcases euclidLoop_inv hr h with ⟨_, rfl, rfl⟩ | ⟨h2, cs', rs', heq, rfl, rfl⟩
    · rfl
    · simp [ih r (d % r) (by omega) cs' rs' heq]

/-- an additive measure of words (length, number of ones, …) -/
structure Additive (φ : List Int → Int) : Prop where
  nil : φ [] = 0
  app : ∀ a b, φ (a ++ b) = φ a + φ b

theorem Additive.repeat {φ} (h : Additive φ) (k : Nat) (w : List Int) : φ (repeatWord k w) = k * φ w := by
  induction k with
  | zero => simp [repeatWord, h.nil]
  | succ k ih => simp only [repeatWord, h.app, ih]; push_cast; ring

/-- **counting invariant** of the Euclid loop: the final word contains `d` copies of `w1` and `r` copies of `w2` -/
theorem finalWord_measure {φ} (hφ : Additive φ) (f : Nat) (d r : Int) (hd : 0 ≤ d) (hr : 1 ≤ r)
    (cs rs : List Int) (h : euclidLoop f d r = some (.ok (cs, rs))) (w1 w2 : List Int) :
    φ (finalWord w1 w2 cs (r :: rs)) = d * φ w1 + r * φ w2 := by
  induction f generalizing d r cs rs w1 w2 with
  | zero => simp [euclidLoop] at h
  | succ f ih =>
    have hdm := Int.emod_add_mul_ediv d r   -- d % r + r * (d / r) = d
    have hc0 : 0 ≤ d / r := Int.ediv_nonneg hd (by omega)
    have hm0 : 0 ≤ d % r := Int.emod_nonneg d (by omega)
    have hr0 : r ≠ 0 := by omega
    rcases euclidLoop_inv hr h with ⟨hle, rfl, rfl⟩ | ⟨h2, cs', rs', heq, rfl, rfl⟩
    · simp only [finalWord, hr0, ne_eq, not_false_eq_true, if_true]
      have hcast1 : (((d / r).toNat : Nat) : Int) = d / r := Int.toNat_of_nonneg hc0
      have hcast2 : ((r.toNat : Nat) : Int) = r := Int.toNat_of_nonneg (by omega)
      by_cases h0 : d % r = 0
      · simp only [h0, not_true_eq_false, if_false, List.append_nil, hφ.repeat, hφ.app, hcast1, hcast2]
        rw [h0] at hdm
        linear_combination (φ w1) * hdm
      · have h1 : d % r = 1 := by omega
        simp only [h1, one_ne_zero, not_false_eq_true, if_true, hφ.repeat, hφ.app, hcast1, hcast2]
        rw [h1] at hdm
        linear_combination (φ w1) * hdm
    · simp only [finalWord, hr0, ne_eq, not_false_eq_true, if_true]
      rw [ih r (d % r) (by omega) (by omega) cs' rs' heq]
      have hcast1 : (((d / r).toNat : Nat) : Int) = d / r := Int.toNat_of_nonneg hc0
      simp only [hφ.repeat, hφ.app, hcast1]
      linear_combination (φ w1) * hdm


/-! ### block structure -/

/-- a block of the pre-rotation word: `c` empty cells, a pulse, and possibly one more empty cell -/
def blk (c : Nat) (b : Bool) : List Int := List.replicate c 0 ++ 1 :: (if b then [0] else [])

/-- the word is a concatenation of blocks `0^c 1` and `0^c 1 0` -/
def Blocks (c : Nat) (w : List Int) : Prop := ∃ bs : List Bool, w = bs.flatMap (blk c)

theorem Blocks.nil (c : Nat) : Blocks c [] := ⟨[], rfl⟩

theorem Blocks.append {c : Nat} {u v : List Int} (hu : Blocks c u) (hv : Blocks c v) : Blocks c (u ++ v) := by
  obtain ⟨bu, rfl⟩ := hu
  obtain ⟨bv, rfl⟩ := hv
  exact ⟨bu ++ bv, by simp⟩

theorem Blocks.repeat {c : Nat} {u : List Int} (hu : Blocks c u) (k : Nat) : Blocks c (repeatWord k u) := by
  induction k with
  | zero => exact Blocks.nil c
  | succ k ih => exact hu.append ih

theorem repeatWord_snoc (k : Nat) (w : List Int) : repeatWord (k + 1) w = repeatWord k w ++ w := by
  induction k with
  | zero => simp [repeatWord]
  | succ k ih =>
    show w ++ repeatWord (k + 1) w = (w ++ repeatWord k w) ++ w
    rw [ih, List.append_assoc]

theorem repeatWord_zero_eq (k : Nat) : repeatWord k [0] = List.replicate k (0 : Int) := by
  induction k with
  | zero => rfl
  | succ k ih => simp [repeatWord, ih, List.replicate_succ]

theorem blocks_A (c : Nat) : Blocks c (repeatWord c [0] ++ [1]) :=
  ⟨[false], by simp [blk, repeatWord_zero_eq]⟩

/-- `A^k 0` is `A^(k-1) (A 0)` -/
theorem blocks_A_pow_zero (c k : Nat) (hk : 1 ≤ k) : Blocks c (repeatWord k (repeatWord c [0] ++ [1]) ++ [0]) := by
  obtain ⟨k', rfl⟩ : ∃ k', k = k' + 1 := ⟨k - 1, by omega⟩
  rw [repeatWord_snoc, List.append_assoc]
  refine ((blocks_A c).repeat k').append ⟨[true], ?_⟩
  simp [blk, repeatWord_zero_eq]

theorem finalWord_blocks (c : Nat) (f : Nat) (d r : Int) (hr : 1 ≤ r) (cs rs : List Int)
    (h : euclidLoop f d r = some (.ok (cs, rs))) (w1 w2 : List Int) (h1 : Blocks c w1) (h2 : Blocks c w2) :
    Blocks c (finalWord w1 w2 cs (r :: rs)) := by
  induction f generalizing d r cs rs w1 w2 with
  | zero => simp [euclidLoop] at h
  | succ f ih =>
    have hr0 : r ≠ 0 := by omega
    rcases euclidLoop_inv hr h with ⟨hle, rfl, rfl⟩ | ⟨hge, cs', rs', heq, rfl, rfl⟩
    · simp only [finalWord, hr0, ne_eq, not_false_eq_true, if_true]
      refine Blocks.append (((h1.repeat _).append h2).repeat _) ?_
      split
      · exact h1
      · exact Blocks.nil c
    · simp only [finalWord, hr0, ne_eq, not_false_eq_true, if_true]
      exact ih r (d % r) (by omega) cs' rs' heq _ _ ((h1.repeat _).append h2) h1

/-- the whole pre-rotation word of `bjorklund n k` is made of blocks with `c = (n-k)/k` -/
theorem finalWord_top_blocks (n k : Int) (hk : 1 ≤ k) (f : Nat) (cs rs : List Int)
    (h : euclidLoop f (n - k) k = some (.ok (cs, rs))) :
    Blocks ((n - k) / k).toNat (finalWord [0] [1] cs (k :: rs)) := by
  have hk0 : k ≠ 0 := by omega
  have hm0 : 0 ≤ (n - k) % k := Int.emod_nonneg _ hk0
  have hmk : (n - k) % k < k := Int.emod_lt_of_pos _ (by omega)
  cases f with
  | zero => simp [euclidLoop] at h
  | succ f =>
  rcases euclidLoop_inv hk h with ⟨hle, rfl, rfl⟩ | ⟨hge, cs', rs', heq, rfl, rfl⟩
  · -- one level: A^k (0)?
    simp only [finalWord, hk0, ne_eq, not_false_eq_true, if_true]
    by_cases h0 : (n - k) % k = 0
    · simp only [h0, not_true_eq_false, if_false, List.append_nil]
      exact (blocks_A _).repeat _
    · simp only [h0, not_false_eq_true, if_true]
      exact blocks_A_pow_zero _ _ (by omega)
  · simp only [finalWord, hk0, ne_eq, not_false_eq_true, if_true]
    have hr1 : 1 ≤ (n - k) % k := by omega
    have hr10 : (n - k) % k ≠ 0 := by omega
    have hc1 : 1 ≤ k / ((n - k) % k) := by
      have := Int.ediv_le_ediv (by omega : 0 < (n - k) % k) (Int.le_of_lt hmk)
      rw [Int.ediv_self hr10] at this
      exact this
    cases f with
    | zero => simp [euclidLoop] at heq
    | succ f =>
    rcases euclidLoop_inv hr1 heq with ⟨hle, rfl, rfl⟩ | ⟨hge2, cs'', rs'', heq2, rfl, rfl⟩
    · simp only [finalWord, hr10, ne_eq, not_false_eq_true, if_true]
      refine Blocks.append ((blocks_A_pow_zero _ _ (by omega)).repeat _) ?_
      split
      · exact blocks_A _
      · exact Blocks.nil _
    · simp only [finalWord, hr10, ne_eq, not_false_eq_true, if_true]
      exact finalWord_blocks _ f _ _ (by omega) cs'' rs'' heq2 _ _ (blocks_A_pow_zero _ _ (by omega)) (blocks_A _)


/-! ### rotation to the first pulse, structure of the result -/

/-- a block of the rotated word: a pulse followed by `c` or `c + 1` empty cells -/
def gapB (c : Nat) (b : Bool) : List Int := 1 :: List.replicate (c + (if b then 1 else 0)) 0

theorem findIdx_zeros_one (c : Nat) (l : List Int) :
    (List.replicate c (0 : Int) ++ 1 :: l).findIdx? (· == 1) = some c := by
  induction c with
  | zero => simp [List.findIdx?_cons]
  | succ c ih =>
    rw [List.replicate_succ, List.cons_append, List.findIdx?_cons]
    simp [ih]

theorem flatMap_blk_zeros (c : Nat) (bs : List Bool) :
    bs.flatMap (blk c) ++ List.replicate c 0 = List.replicate c 0 ++ bs.flatMap (gapB c) := by
  induction bs with
  | nil => simp
  | cons b bs ih =>
    rw [List.flatMap_cons, List.append_assoc, ih, List.flatMap_cons]
    cases b
    · simp [blk, gapB]
    · simp only [blk, gapB, if_true, List.append_assoc, List.cons_append, List.nil_append]
      simp [List.replicate_succ]

theorem rotate_blocks (c : Nat) (b : Bool) (bs : List Bool) :
    let w := (b :: bs).flatMap (blk c)
    w.drop c ++ w.take c = (b :: bs).flatMap (gapB c) := by
  intro w
  have hw : w = List.replicate c 0 ++ (1 :: (if b then [0] else []) ++ bs.flatMap (blk c)) := by
    simp [w, blk]
  have hlen : (List.replicate c (0 : Int)).length = c := by simp
  rw [hw, List.drop_left' hlen, List.take_left' hlen, List.append_assoc, flatMap_blk_zeros]
  cases b
  · simp [gapB]
  · simp [gapB, List.replicate_succ]

def lenI (w : List Int) : Int := (w.length : Int)
def onesI (w : List Int) : Int := (w.count 1 : Int)

theorem lenI_additive : Additive lenI := ⟨rfl, fun a b => by simp [lenI]⟩
theorem onesI_additive : Additive onesI := ⟨rfl, fun a b => by simp [onesI]⟩

theorem onesI_flatMap_blk (c : Nat) (bs : List Bool) : onesI (bs.flatMap (blk c)) = bs.length := by
  induction bs with
  | nil => rfl
  | cons b bs ih =>
    rw [List.flatMap_cons, onesI_additive.app, ih]
    have : onesI (blk c b) = 1 := by
      cases b <;> simp [onesI, blk, List.count_append, List.count_replicate]
    rw [this]; simp; omega

theorem lenI_flatMap_blk (c : Nat) (bs : List Bool) :
    lenI (bs.flatMap (blk c)) = (c + 1) * bs.length + bs.count true := by
  induction bs with
  | nil => simp [lenI]
  | cons b bs ih =>
    rw [List.flatMap_cons, lenI_additive.app, ih]
    cases b
    · simp [lenI, blk]; ring
    · simp [lenI, blk]; ring

/-- **structure of the Euclidean word**: `bjorklund n k` is a concatenation of `k` blocks "pulse, then
`c` or `c+1` empty cells" with `c = (n-k)/k`, exactly `n mod k` of them being long -/
theorem bjorklund_structure (n k : Int) (hk : 1 ≤ k) (hkn : k ≤ n) :
    ∃ bs : List Bool, bjorklund n k = .ok (bs.flatMap (gapB ((n - k) / k).toNat))
      ∧ (bs.length : Int) = k ∧ (bs.count true : Int) = n % k := by
  obtain ⟨cs, rs, hloop⟩ := euclidLoop_ok (k.toNat + 1) (n - k) k hk (by omega)
  have hlen := euclidLoop_lengths _ _ _ hk cs rs hloop
  have hne : cs ≠ [] := by intro h; rw [h] at hlen; simp at hlen
  obtain ⟨bs, hbs⟩ := finalWord_top_blocks n k hk _ cs rs hloop
  have hones := finalWord_measure onesI_additive _ (n - k) k (by omega) hk cs rs hloop [0] [1]
  have hlenw := finalWord_measure lenI_additive _ (n - k) k (by omega) hk cs rs hloop [0] [1]
  rw [hbs, onesI_flatMap_blk] at hones
  rw [hbs, lenI_flatMap_blk] at hlenw
  have hbl : (bs.length : Int) = k := by rw [hones]; simp [onesI]
  have hc0 : 0 ≤ (n - k) / k := Int.ediv_nonneg (by omega) (by omega)
  have hcast : (((n - k) / k).toNat : Int) = (n - k) / k := Int.toNat_of_nonneg hc0
  have hcnt : (bs.count true : Int) = n % k := by
    have h1 : lenI [0] = 1 := rfl
    have h2 : lenI [1] = 1 := rfl
    rw [h1, h2, hbl, hcast] at hlenw
    have hdm := Int.emod_add_mul_ediv (n - k) k
    have hmod : (n - k) % k = n % k := by
      rw [Int.sub_emod, Int.emod_self]; simp
    rw [hmod] at hdm
    linear_combination hlenw - hdm
  refine ⟨bs, ?_, hbl, hcnt⟩
  obtain ⟨b, bs', rfl⟩ : ∃ b bs', bs = b :: bs' := by
    cases bs with
    | nil => simp at hbl; omega
    | cons b bs' => exact ⟨b, bs', rfl⟩
  unfold bjorklund
  have hgt : ¬ k > n := by omega
  simp only [hgt, if_false, hloop]
  rw [build_top cs (k :: rs) (by simp [hlen]) hne]
  simp only [hbs]
  have hfind : ((b :: bs').flatMap (blk ((n - k) / k).toNat)).findIdx? (· == 1) = some ((n - k) / k).toNat := by
    rw [List.flatMap_cons]
    unfold blk
    rw [List.append_assoc]
    exact findIdx_zeros_one _ _
  rw [hfind]
  simp only
  rw [rotate_blocks]


/-! ### termination and error classes for all integers -/

theorem fmod_nonpos_of_neg (a b : Int) (hb : b < 0) : a.fmod b ≤ 0 := by
  rw [Int.fmod_eq_emod]
  have hlt := Int.emod_lt a (by omega : b ≠ 0)
  have hnn := Int.emod_nonneg a (by omega : b ≠ 0)
  split
  · rename_i h
    rcases h with h | h
    · omega
    · rw [Int.emod_eq_zero_of_dvd h]; simp
  · omega

/-- the loop of `bjorklund_algorithm` terminates within its fuel for *every* pair of integers -/
theorem euclidLoop_some (d r : Int) : euclidLoop (r.toNat + 1) d r ≠ none := by
  rcases Int.lt_trichotomy r 0 with hneg | rfl | hpos
  · have h0 : r.toNat = 0 := by omega
    rw [h0]
    unfold euclidLoop
    have hr0 : ¬ r = 0 := by omega
    have := fmod_nonpos_of_neg d r hneg
    have hle : d.fmod r ≤ 1 := by omega
    simp [hr0, hle]
  · simp [euclidLoop]
  · obtain ⟨cs, rs, h⟩ := euclidLoop_ok (r.toNat + 1) d r (by omega) (by omega)
    rw [h]; simp

/-- the only exception the loop raises is `ZeroDivisionError` -/
theorem euclidLoop_error (f : Nat) (d r : Int) (e : Err) (h : euclidLoop f d r = some (.error e)) :
    e = .zerodiv := by
  induction f generalizing d r with
  | zero => simp [euclidLoop] at h
  | succ f ih =>
    unfold euclidLoop at h
    dsimp only at h
    split at h
    · simp at h; exact h.symm
    · split at h
      · simp at h
      · split at h
        · cases h
        · rename_i e' h'
          simp at h
          subst h
          exact ih _ _ h'
        · simp at h

/-- the only exception `build` raises is `IndexError` -/
theorem build_error (cs rs : List Int) (lv : Nat) (e : Err) (h : build cs rs lv = .error e) : e = .index := by
  induction lv using Nat.strongRecOn generalizing e with
  | _ lv ih =>
    match lv with
    | 0 => simp [build] at h
    | 1 => simp [build] at h
    | lv + 2 =>
      unfold build at h
      split at h
      · cases h1 : build cs rs (lv + 1) with
        | error e1 =>
          have := ih (lv + 1) (by omega) e1 h1
          simp [h1, bind, Except.bind] at h
          rw [← h]; exact this
        | ok w1 =>
          simp only [h1, bind, Except.bind] at h
          split at h
          · cases h0 : build cs rs lv with
            | error e0 =>
              have := ih lv (by omega) e0 h0
              simp [h0] at h
              rw [← h]; exact this
            | ok w0 => simp [h0, pure, Except.pure] at h
          · simp [pure, Except.pure] at h
      · simp at h; exact h.symm

theorem bjorklund_no_fuel_error (steps pulses : Int) : bjorklund steps pulses ≠ .error .other := by
  unfold bjorklund
  split
  · simp
  · have hsome := euclidLoop_some (steps - pulses) pulses
    cases hl : euclidLoop (pulses.toNat + 1) (steps - pulses) pulses with
    | none => exact absurd hl hsome
    | some res =>
      cases res with
      | error e =>
        have := euclidLoop_error _ _ _ e hl
        subst this
        simp
      | ok p =>
        obtain ⟨counts, rems⟩ := p
        dsimp only
        cases hb : build counts (pulses :: rems) (counts.length - 1 + 2) with
        | error e =>
          have := build_error _ _ _ e hb
          subst this
          simp
        | ok pattern =>
          dsimp only
          split <;> simp



/-! ### maximal evenness: the walk of prefix weights -/

/-- weight of a cell: a pulse weighs `p`, any other cell `-q` -/
def cellWt (p q : Int) (x : Int) : Int := if x = 1 then p else -q

/-- weight of a word -/
def wt (p q : Int) (w : List Int) : Int := (w.map (cellWt p q)).sum

/-- every prefix weight of `w`, counted from `acc`, lies in `[lo, hi]` -/
def Walk (p q lo hi : Int) : Int → List Int → Prop
  | acc, [] => lo ≤ acc ∧ acc ≤ hi
  | acc, x :: xs => lo ≤ acc ∧ acc ≤ hi ∧ Walk p q lo hi (acc + cellWt p q x) xs

theorem wt_additive (p q : Int) : Additive (wt p q) := ⟨rfl, fun a b => by simp [wt]⟩

theorem wt_cons (p q x : Int) (xs : List Int) : wt p q (x :: xs) = cellWt p q x + wt p q xs := by simp [wt]

theorem Walk.bounds {p q lo hi acc : Int} {w : List Int} (h : Walk p q lo hi acc w) : lo ≤ acc ∧ acc ≤ hi := by
  cases w with
  | nil => exact h
  | cons x xs => exact ⟨h.1, h.2.1⟩

theorem walk_append (p q lo hi acc : Int) (u v : List Int) :
    Walk p q lo hi acc (u ++ v) ↔ Walk p q lo hi acc u ∧ Walk p q lo hi (acc + wt p q u) v := by
  induction u generalizing acc with
  | nil =>
    simp only [List.nil_append, wt, List.map_nil, List.sum_nil, Int.add_zero, Walk]
    constructor
    · intro h; exact ⟨h.bounds, h⟩
    · intro h; exact h.2
  | cons x xs ih =>
    simp only [List.cons_append, Walk, ih, wt_cons]
    constructor
    · rintro ⟨h1, h2, h3, h4⟩
      exact ⟨⟨h1, h2, h3⟩, by rw [← Int.add_assoc]; exact h4⟩
    · rintro ⟨⟨h1, h2, h3⟩, h4⟩
      exact ⟨h1, h2, h3, by rw [Int.add_assoc]; exact h4⟩

theorem walk_shift (p q lo hi acc s : Int) (w : List Int) (h : Walk p q lo hi acc w) :
    Walk p q (lo + s) (hi + s) (acc + s) w := by
  induction w generalizing acc with
  | nil => exact ⟨by have := h.1; omega, by have := h.2; omega⟩
  | cons x xs ih =>
    refine ⟨by have := h.1; omega, by have := h.2.1; omega, ?_⟩
    have := ih _ h.2.2
    rw [show acc + s + cellWt p q x = acc + cellWt p q x + s by ring]
    exact this

theorem walk_mono (p q lo hi lo' hi' acc : Int) (w : List Int) (h : Walk p q lo hi acc w)
    (h1 : lo' ≤ lo) (h2 : hi ≤ hi') : Walk p q lo' hi' acc w := by
  induction w generalizing acc with
  | nil => exact ⟨by have := h.1; omega, by have := h.2; omega⟩
  | cons x xs ih => exact ⟨by have := h.1; omega, by have := h.2.1; omega, ih _ h.2.2⟩

/-- walking through `j` empty cells -/
theorem walk_zeros (p q lo hi acc : Int) (hq : 0 ≤ q) (j : Nat) (rest : List Int)
    (hlo : lo ≤ acc - j * q) (hhi : acc ≤ hi) (h : Walk p q lo hi (acc - j * q) rest) :
    Walk p q lo hi acc (List.replicate j 0 ++ rest) := by
  induction j generalizing acc with
  | zero => simpa using h
  | succ j ih =>
    have hjq : (0 : Int) ≤ j * q := mul_nonneg (by omega) hq
    have e : acc - ((j + 1 : Nat) : Int) * q = acc - q - j * q := by push_cast; ring
    rw [e] at hlo h
    rw [List.replicate_succ, List.cons_append]
    refine ⟨by omega, hhi, ?_⟩
    have hc : cellWt p q 0 = -q := by simp [cellWt]
    rw [hc]
    exact ih (acc + -q) (by rw [show acc + -q = acc - q by ring]; exact hlo) (by omega)
      (by rw [show acc + -q = acc - q by ring]; exact h)

/-- the substitution `0 ↦ w1`, `1 ↦ w2` -/
def substW (w1 w2 : List Int) (v : List Int) : List Int := v.flatMap (fun x => if x = 1 then w2 else w1)

theorem substW_append (w1 w2 u v : List Int) : substW w1 w2 (u ++ v) = substW w1 w2 u ++ substW w1 w2 v := by
  simp [substW]

theorem substW_repeat (w1 w2 : List Int) (k : Nat) (u : List Int) :
    substW w1 w2 (repeatWord k u) = repeatWord k (substW w1 w2 u) := by
  induction k with
  | zero => rfl
  | succ k ih => simp only [repeatWord, substW_append, ih]

/-- `finalWord` is natural in the two starting words -/
theorem finalWord_subst (w1 w2 : List Int) (cs rs u1 u2 : List Int) :
    finalWord (substW w1 w2 u1) (substW w1 w2 u2) cs rs = substW w1 w2 (finalWord u1 u2 cs rs) := by
  induction cs generalizing rs u1 u2 with
  | nil => simp [finalWord]
  | cons c cs ih =>
    cases rs with
    | nil => simp [finalWord]
    | cons r rs =>
      simp only [finalWord]
      rw [← ih]
      congr 1
      rw [substW_append, substW_repeat]
      split <;> simp [substW]

theorem finalWord_subst01 (w1 w2 cs rs : List Int) :
    finalWord w1 w2 cs rs = substW w1 w2 (finalWord [0] [1] cs rs) := by
  have := finalWord_subst w1 w2 cs rs [0] [1]
  simpa [substW] using this

/-- **one Euclid step preserves evenness**: if the walk of `v` with weights `(r, m)` stays in `[lo, hi]`,
the walk of `σ(v)` (`0 ↦ 0^c 1`, `1 ↦ 0`) with weights `(c·r + m, r)` stays in `[-hi - c·r, -lo]` -/
theorem walk_sigma (c : Nat) (r m lo hi : Int) (hr : 0 ≤ r) (a : Int) (v : List Int)
    (h : Walk r m lo hi a v) :
    Walk (c * r + m) r (-hi - c * r) (-lo) (-a) (substW (List.replicate c 0 ++ [1]) [0] v) := by
  have hcr : (0 : Int) ≤ c * r := mul_nonneg (by omega) hr
  induction v generalizing a with
  | nil =>
    have := h.1; have := h.2
    exact ⟨by omega, by omega⟩
  | cons x xs ih =>
    have hb := h.bounds
    have ih' := ih _ h.2.2
    unfold substW
    rw [List.flatMap_cons]
    by_cases hx : x = 1
    · subst hx
      simp only [if_true, List.singleton_append]
      refine ⟨by omega, by omega, ?_⟩
      have e1 : cellWt r m 1 = r := by simp [cellWt]
      have e2 : cellWt (c * r + m) r 0 = -r := by simp [cellWt]
      rw [e1] at ih'
      rw [e2, show -a + -r = -(a + r) by ring]
      exact ih'
    · simp only [hx, if_false, List.append_assoc, List.singleton_append]
      have e1 : cellWt r m x = -m := by simp [cellWt, hx]
      rw [e1] at ih'
      apply walk_zeros _ _ _ _ _ hr c _ (by omega) (by omega)
      refine ⟨by omega, by omega, ?_⟩
      have e2 : cellWt (c * r + m) r 1 = c * r + m := by simp [cellWt]
      rw [e2, show -a - c * r + (c * r + m) = -(a + -m) by ring]
      exact ih'



/-- **evenness invariant of the Euclid loop**: the walk of the pre-rotation word with weights `(d, r)`
(a pulse weighs the number of empty cells, an empty cell minus the number of pulses) stays in a window
of width `d + r − 1` -/
theorem finalWord_walk (f : Nat) (d r : Int) (hd : 0 ≤ d) (hr : 1 ≤ r) (cs rs : List Int)
    (h : euclidLoop f d r = some (.ok (cs, rs))) :
    ∃ lo hi, hi - lo ≤ d + r - 1 ∧ Walk d r lo hi 0 (finalWord [0] [1] cs (r :: rs)) := by
  induction f generalizing d r cs rs with
  | zero => simp [euclidLoop] at h
  | succ f ih =>
    have hdm := Int.emod_add_mul_ediv d r
    have hc0 : 0 ≤ d / r := Int.ediv_nonneg hd (by omega)
    have hm0 : 0 ≤ d % r := Int.emod_nonneg d (by omega)
    have hmr : d % r < r := Int.emod_lt_of_pos d (by omega)
    have hr0 : r ≠ 0 := by omega
    have hcast : (((d / r).toNat : Nat) : Int) = d / r := Int.toNat_of_nonneg hc0
    have hdeq : ((d / r).toNat : Int) * r + d % r = d := by rw [hcast]; linear_combination hdm
    rcases euclidLoop_inv hr h with ⟨hle, rfl, rfl⟩ | ⟨h2, cs', rs', heq, rfl, rfl⟩
    · -- last level: σ(0^r 1^m)
      have hform : finalWord [0] [1] [d / r, r] [r, d % r]
          = substW (List.replicate (d / r).toNat 0 ++ [1]) [0]
              (List.replicate r.toNat 0 ++ (if d % r ≠ 0 then [1] else [])) := by
        simp only [finalWord, hr0, ne_eq, not_false_eq_true, if_true]
        rw [repeatWord_zero_eq (d / r).toNat, substW_append, ← repeatWord_zero_eq r.toNat, substW_repeat]
        congr 1
        · simp [substW]
        · split <;> simp [substW]
      have hrcast : ((r.toNat : Nat) : Int) = r := Int.toNat_of_nonneg (by omega)
      have hv : Walk r (d % r) (-(r * (d % r))) 0 0
          (List.replicate r.toNat 0 ++ (if d % r ≠ 0 then [1] else [])) := by
        have hrm : (0 : Int) ≤ r * (d % r) := mul_nonneg (by omega) hm0
        apply walk_zeros _ _ _ _ _ hm0 _ _ (by rw [hrcast]; omega) (by omega)
        rw [hrcast]
        by_cases h0 : d % r = 0
        · simp only [h0, ne_eq, not_true_eq_false, if_false, Walk]
          simp
        · have h1 : d % r = 1 := by omega
          simp only [h1, ne_eq, one_ne_zero, not_false_eq_true, if_true, Walk, cellWt]
          simp; omega
      have hw := walk_sigma (d / r).toNat r (d % r) _ _ (by omega) 0 _ hv
      rw [hdeq, hcast] at hw
      have hw' : Walk d r (-(d / r * r)) (r * (d % r)) 0 (finalWord [0] [1] [d / r, r] [r, d % r]) := by
        rw [hform]; simpa using hw
      refine ⟨_, _, ?_, hw'⟩
      have : r * (d % r) ≤ d % r + r - 1 := by
        by_cases h0 : d % r = 0
        · rw [h0]; omega
        · have h1 : d % r = 1 := by omega
          rw [h1]; omega
      have e : d / r * r = d - d % r := by linear_combination hdm
      rw [e]
      omega
    · -- σ of the next level
      obtain ⟨lo, hi, hwid, hwalk⟩ := ih r (d % r) (by omega) (by omega) cs' rs' heq
      have hform : finalWord [0] [1] (d / r :: cs') (r :: d % r :: rs')
          = substW (List.replicate (d / r).toNat 0 ++ [1]) [0] (finalWord [0] [1] cs' (d % r :: rs')) := by
        simp only [finalWord, hr0, ne_eq, not_false_eq_true, if_true]
        rw [repeatWord_zero_eq]
        exact finalWord_subst01 _ _ _ _
      have hw := walk_sigma (d / r).toNat r (d % r) lo hi (by omega) 0 _ hwalk
      rw [hdeq, hcast] at hw
      have hw' : Walk d r (-hi - d / r * r) (-lo) 0 (finalWord [0] [1] (d / r :: cs') (r :: d % r :: rs')) := by
        rw [hform]; simpa using hw
      refine ⟨_, _, ?_, hw'⟩
      have e : d / r * r = d - d % r := by linear_combination hdm
      rw [e]
      omega

/-- rotating a word of total weight 0 keeps the width of its walk -/
theorem walk_rotate (p q lo hi : Int) (u1 u2 : List Int) (h : Walk p q lo hi 0 (u1 ++ u2))
    (h0 : wt p q (u1 ++ u2) = 0) :
    Walk p q (lo - wt p q u1) (hi - wt p q u1) 0 (u2 ++ u1) := by
  rw [walk_append] at h
  rw [(wt_additive p q).app] at h0
  obtain ⟨h1, h2⟩ := h
  rw [walk_append]
  constructor
  · have := walk_shift _ _ _ _ _ (-wt p q u1) _ h2
    simpa [sub_eq_add_neg] using this
  · have := walk_shift _ _ _ _ _ (-wt p q u1) _ h1
    have e : (0 : Int) + wt p q u2 = 0 + -wt p q u1 := by omega
    rw [e]
    simpa [sub_eq_add_neg] using this



/-- `bjorklund n k` is the pre-rotation word of the Euclid loop rotated to its first pulse -/
theorem bjorklund_pre_rotation (n k : Int) (hk : 1 ≤ k) (hkn : k ≤ n) :
    ∃ cs rs, euclidLoop (k.toNat + 1) (n - k) k = some (.ok (cs, rs)) ∧
      bjorklund n k = .ok ((finalWord [0] [1] cs (k :: rs)).drop ((n - k) / k).toNat
        ++ (finalWord [0] [1] cs (k :: rs)).take ((n - k) / k).toNat) := by
  obtain ⟨cs, rs, hloop⟩ := euclidLoop_ok (k.toNat + 1) (n - k) k hk (by omega)
  refine ⟨cs, rs, hloop, ?_⟩
  have hlen := euclidLoop_lengths _ _ _ hk cs rs hloop
  have hne : cs ≠ [] := by intro h; rw [h] at hlen; simp at hlen
  obtain ⟨bs, hbs⟩ := finalWord_top_blocks n k hk _ cs rs hloop
  have hones := finalWord_measure onesI_additive _ (n - k) k (by omega) hk cs rs hloop [0] [1]
  rw [hbs, onesI_flatMap_blk] at hones
  have hbl : (bs.length : Int) = k := by rw [hones]; simp [onesI]
  obtain ⟨b, bs', rfl⟩ : ∃ b bs', bs = b :: bs' := by
    cases bs with
    | nil => simp at hbl; omega
    | cons b bs' => exact ⟨b, bs', rfl⟩
  unfold bjorklund
  have hgt : ¬ k > n := by omega
  simp only [hgt, if_false, hloop]
  rw [build_top cs (k :: rs) (by simp [hlen]) hne]
  simp only [hbs]
  have hfind : ((b :: bs').flatMap (blk ((n - k) / k).toNat)).findIdx? (· == 1) = some ((n - k) / k).toNat := by
    rw [List.flatMap_cons]
    unfold blk
    rw [List.append_assoc]
    exact findIdx_zeros_one _ _
  rw [hfind]

/-- **evenness of the result**: with weights `(n − k, k)` every prefix weight of `bjorklund n k` lies in a
window of width `n − 1` -/
theorem bjorklund_walk (n k : Int) (hk : 1 ≤ k) (hkn : k ≤ n) :
    ∃ p lo, bjorklund n k = .ok p ∧ Walk (n - k) k lo (lo + (n - 1)) 0 p := by
  obtain ⟨cs, rs, hloop, hb⟩ := bjorklund_pre_rotation n k hk hkn
  obtain ⟨lo, hi, hwid, hwalk⟩ := finalWord_walk _ (n - k) k (by omega) hk cs rs hloop
  have h0 := finalWord_measure (wt_additive (n - k) k) _ (n - k) k (by omega) hk cs rs hloop [0] [1]
  have hz : wt (n - k) k (finalWord [0] [1] cs (k :: rs)) = 0 := by
    rw [h0]; simp [wt, cellWt]; ring
  generalize finalWord [0] [1] cs (k :: rs) = W at *
  generalize ((n - k) / k).toNat = c at *
  have hW : W = W.take c ++ W.drop c := (List.take_append_drop c W).symm
  rw [hW] at hwalk hz
  have := walk_rotate _ _ _ _ _ _ hwalk hz
  refine ⟨_, lo - wt (n - k) k (W.take c), hb, ?_⟩
  exact walk_mono _ _ _ _ _ _ _ _ this (by omega) (by omega)

theorem walk_take (p q lo hi acc : Int) (w : List Int) (h : Walk p q lo hi acc w) (i : Nat) :
    lo ≤ acc + wt p q (w.take i) ∧ acc + wt p q (w.take i) ≤ hi := by
  induction w generalizing acc i with
  | nil => simpa [wt] using h.bounds
  | cons x xs ih =>
    cases i with
    | zero => simpa [wt] using h.bounds
    | succ i =>
      have := ih _ h.2.2 i
      rw [List.take_succ_cons, wt_cons, ← Int.add_assoc]
      exact this

theorem wt_binary (p q : Int) (u : List Int) (hb : ∀ x ∈ u, x = 0 ∨ x = 1) :
    wt p q u = (p + q) * (u.count 1 : Int) - q * (u.length : Int) := by
  induction u with
  | nil => simp [wt]
  | cons x xs ih =>
    have hx := hb x (by simp)
    rw [wt_cons, ih (fun y hy => hb y (by simp [hy]))]
    rcases hx with rfl | rfl
    · simp [cellWt]; ring
    · simp [cellWt]; ring

theorem bjorklund_binary (n k : Int) (hk : 1 ≤ k) (hkn : k ≤ n) (p : List Int) (hp : bjorklund n k = .ok p) :
    ∀ x ∈ p, x = 0 ∨ x = 1 := by
  obtain ⟨bs, hb, _, _⟩ := bjorklund_structure n k hk hkn
  rw [hb] at hp
  cases hp
  intro x hx
  obtain ⟨b, _, hxb⟩ := List.mem_flatMap.mp hx
  unfold gapB at hxb
  rcases List.mem_cons.mp hxb with rfl | h
  · right; rfl
  · left; exact (List.mem_replicate.mp h).2

/-- **maximal evenness (phase form)**: there is a phase `t ∈ [0, n)` such that for every `i` the number
of pulses among the first `i` cells of `bjorklund n k` is `⌊(min(i, len)·k + t)/n⌋` -/
theorem bjorklund_phase (n k : Int) (hk : 1 ≤ k) (hkn : k ≤ n) :
    ∃ p t, bjorklund n k = .ok p ∧ 0 ≤ t ∧ t < n ∧
      ∀ i : Nat, ((p.take i).count 1 : Int) = ((min i p.length : Nat) * k + t) / n := by
  obtain ⟨p, lo, hp, hwalk⟩ := bjorklund_walk n k hk hkn
  have hb := bjorklund_binary n k hk hkn p hp
  have h0 := walk_take _ _ _ _ _ _ hwalk 0
  simp [wt] at h0
  refine ⟨p, lo + (n - 1), hp, by omega, by omega, ?_⟩
  intro i
  have hi := walk_take _ _ _ _ _ _ hwalk i
  rw [wt_binary _ _ _ (fun x hx => hb x (List.mem_of_mem_take hx))] at hi
  simp only [Int.zero_add, List.length_take] at hi
  have hn : n - k + k = n := by ring
  rw [hn] at hi
  symm
  have := (Int.ediv_emod_unique (a := ((min i p.length : Nat) : Int) * k + (lo + (n - 1))) (b := n)
    (q := ((p.take i).count 1 : Int))
    (r := ((min i p.length : Nat) : Int) * k + (lo + (n - 1)) - n * ((p.take i).count 1 : Int)) (by omega)).mpr
    ⟨by ring, by linarith [hi.1, hi.2], by linarith [hi.1, hi.2]⟩
  exact this.1



/-! ### phase form ⇒ rotation of the canonical Euclidean word -/

/-- cell `i` of the mechanical word of slope `k/n` and phase `t` -/
def mech (n k t i : Int) : Int := ((i + 1) * k + t) / n - (i * k + t) / n

theorem mech_add_period (n k t z i : Int) (hn : n ≠ 0) : mech n k (t + n * z) i = mech n k t i := by
  unfold mech
  rw [show (i + 1) * k + (t + n * z) = (i + 1) * k + t + n * z by ring,
    show i * k + (t + n * z) = i * k + t + n * z by ring,
    Int.add_mul_ediv_left _ _ hn, Int.add_mul_ediv_left _ _ hn]
  ring

theorem mech_shift (n k t s i : Int) : mech n k t (i + s) = mech n k (t + s * k) i := by
  unfold mech
  congr 2 <;> ring

theorem mech_index_period (n k t z i : Int) (hn : n ≠ 0) : mech n k t (i + n * z) = mech n k t i := by
  rw [mech_shift, show t + n * z * k = t + n * (z * k) by ring, mech_add_period _ _ _ _ _ hn]

/-- the canonical Euclidean word `i ↦ [(i·k) mod n < k]` is the mechanical word of phase `−k` -/
theorem mech_canonical (n k i : Int) (hn : 0 < n) (hk0 : 0 ≤ k) (hkn : k ≤ n) :
    mech n k (-k) i = if (i * k) % n < k then 1 else 0 := by
  unfold mech
  rw [show (i + 1) * k + -k = i * k by ring]
  have hdm := Int.emod_add_mul_ediv (i * k) n
  have hm0 := Int.emod_nonneg (i * k) (by omega : n ≠ 0)
  have hmn := Int.emod_lt_of_pos (i * k) hn
  split
  · rename_i hlt
    have := (Int.ediv_emod_unique (a := i * k + -k) (b := n) (q := (i * k) / n - 1)
      (r := (i * k) % n + n - k) hn).mpr ⟨by linear_combination hdm, by omega, by omega⟩
    rw [this.1]; ring
  · rename_i hge
    have := (Int.ediv_emod_unique (a := i * k + -k) (b := n) (q := (i * k) / n)
      (r := (i * k) % n - k) hn).mpr ⟨by linear_combination hdm, by omega, by omega⟩
    rw [this.1]; ring

/-- only the part of the phase that is a multiple of `gcd(k, n)` matters -/
theorem floor_phase_gcd (n k g t a : Int) (hg : 0 < g) (hgn : g ∣ n) (hgk : g ∣ k) :
    (a * k + t) / n = (a * k + g * (t / g)) / n := by
  obtain ⟨n', rfl⟩ := hgn
  obtain ⟨k', rfl⟩ := hgk
  rw [← Int.ediv_ediv_of_nonneg (Int.le_of_lt hg), ← Int.ediv_ediv_of_nonneg (Int.le_of_lt hg)]
  congr 1
  rw [show a * (g * k') + t = t + g * (a * k') by ring, show a * (g * k') + g * (t / g) = g * (t / g + a * k') by ring,
    Int.add_mul_ediv_left _ _ (by omega : g ≠ 0), Int.mul_ediv_cancel_left _ (by omega : g ≠ 0)]

theorem mech_phase_gcd (n k g t i : Int) (hg : 0 < g) (hgn : g ∣ n) (hgk : g ∣ k) :
    mech n k t i = mech n k (g * (t / g)) i := by
  unfold mech
  rw [floor_phase_gcd n k g t (i + 1) hg hgn hgk, floor_phase_gcd n k g t i hg hgn hgk]

/-- every mechanical word of slope `k/n` is the canonical one read from some index `s ∈ [0, n)` -/
theorem mech_is_rotation (n k t : Int) (hn : 0 < n) (hk : 1 ≤ k) :
    ∃ s : Int, 0 ≤ s ∧ s < n ∧ ∀ i : Int, mech n k t i = mech n k (-k) ((i + s) % n) := by
  have hgpos : (0 : Int) < (Int.gcd k n : Int) := by
    have : Int.gcd k n ≠ 0 := by
      intro h
      have := Int.gcd_eq_zero_iff.mp h
      omega
    omega
  have hbez := Int.gcd_eq_gcd_ab k n
  set g : Int := (Int.gcd k n : Int) with hgdef
  set X := Int.gcdA k n * (t / g) with hX
  set Y := Int.gcdB k n * (t / g) with hY
  refine ⟨(X + 1) % n, Int.emod_nonneg _ (by omega), Int.emod_lt_of_pos _ hn, fun i => ?_⟩
  have e1 : g * (t / g) = -k + (X + 1) * k + n * Y := by
    rw [hX, hY]
    linear_combination (t / g) * hbez
  rw [mech_phase_gcd n k g t i hgpos (Int.gcd_dvd_right k n) (Int.gcd_dvd_left k n), e1,
    mech_add_period _ _ _ _ _ (by omega), ← mech_shift]
  -- index modulo n
  have e2 : i + (X + 1) = (i + (X + 1) % n) % n + n * ((i + (X + 1)) / n) := by
    have h1 := Int.emod_add_mul_ediv (i + (X + 1)) n
    have h2 : (i + (X + 1) % n) % n = (i + (X + 1)) % n := Int.add_emod_emod _ _ _
    rw [h2]; omega
  rw [e2, mech_index_period _ _ _ _ _ (by omega)]



/-- the canonical Euclidean word of `k` pulses over `n` steps: cell `i` is a pulse iff `(i·k) mod n < k` -/
def canonicalWord (n k : Int) : List Int :=
  (List.range n.toNat).map (fun (i : Nat) => if ((i : Int) * k) % n < k then 1 else 0)

theorem gapB_length (c : Nat) (bs : List Bool) :
    ((bs.flatMap (gapB c)).length : Int) = (c + 1) * bs.length + bs.count true := by
  induction bs with
  | nil => simp
  | cons b bs ih =>
    rw [List.flatMap_cons, List.length_append]
    push_cast
    rw [ih]
    cases b <;> simp [gapB] <;> ring

theorem bjorklund_len (n k : Int) (hk : 1 ≤ k) (hkn : k ≤ n) (p : List Int) (hp : bjorklund n k = .ok p) :
    (p.length : Int) = n := by
  obtain ⟨bs, hb, hlen, hcnt⟩ := bjorklund_structure n k hk hkn
  rw [hb] at hp
  cases hp
  have hc0 : 0 ≤ (n - k) / k := Int.ediv_nonneg (by omega) (by omega)
  have hcast : (((n - k) / k).toNat : Int) = (n - k) / k := Int.toNat_of_nonneg hc0
  rw [gapB_length, hcast, hlen, hcnt]
  have hdm := Int.emod_add_mul_ediv (n - k) k
  have hmod : (n - k) % k = n % k := by
    rw [Int.sub_emod, Int.emod_self]; simp
  rw [hmod] at hdm
  linear_combination hdm

/-- **maximal evenness (rotation form)**: `bjorklund n k` is a rotation of the canonical Euclidean word -/
theorem bjorklund_rotation (n k : Int) (hk : 1 ≤ k) (hkn : k ≤ n) :
    ∃ s : Nat, s < n.toNat ∧ bjorklund n k = .ok ((canonicalWord n k).rotate s) := by
  obtain ⟨p, t, hp, ht0, htn, hphase⟩ := bjorklund_phase n k hk hkn
  have hbin := bjorklund_binary n k hk hkn p hp
  have hlen := bjorklund_len n k hk hkn p hp
  have hn : 0 < n := by omega
  obtain ⟨s, hs0, hsn, hrot⟩ := mech_is_rotation n k t hn hk
  refine ⟨s.toNat, by omega, ?_⟩
  rw [hp]
  congr 1
  have hclen : (canonicalWord n k).length = n.toNat := by simp [canonicalWord]
  apply List.ext_getElem
  · rw [List.length_rotate, hclen]; omega
  · intro i h1 h2
    have hi : (i : Int) < n := by omega
    -- the cell from the prefix counts
    have hcell : (if p[i] = 1 then (1 : Int) else 0) = mech n k t i := by
      have ha := hphase (i + 1)
      have hb := hphase i
      rw [Nat.min_eq_left (by omega)] at ha hb
      rw [List.take_succ_eq_append_getElem h1, List.count_append] at ha
      unfold mech
      rw [← hb]
      push_cast at ha ⊢
      rw [← ha]
      by_cases h : p[i] = 1 <;> simp [h]
    have hpi : p[i] = (if p[i] = 1 then (1 : Int) else 0) := by
      rcases hbin p[i] (List.getElem_mem h1) with h | h <;> simp [h]
    rw [hpi, hcell, hrot i, mech_canonical n k _ hn (by omega) hkn, List.getElem_rotate]
    simp only [canonicalWord, List.getElem_map, List.getElem_range, List.length_map, List.length_range]
    have hcast : (((i + s.toNat) % n.toNat : Nat) : Int) = ((i : Int) + s) % n := by
      push_cast
      rw [Int.toNat_of_nonneg hs0, Int.toNat_of_nonneg (by omega)]
    rw [hcast]


end MV.Rhythm
