/-
Helper lemmas for the source tie of the re-notations (`MV/Props/TieSrcConv.lean`, group `SrcConv`, DESIGN.md §9.6):
Python built-ins as the generated definitions use them (`list[i]` with a natural index, `list.index` by `Note.__eq__`,
tag sets), the two blocks shared by several generated functions (the chord-tone branch of `to_standard_note`, the `try`
block of `to_extension_note` / `to_chord_note`), the loops (`Melody.to_absolute_note`: a monadic left fold with the last
pitch threaded; `for voice, melody in chord.score.items(): chord.score[voice] = …`: a fold of dictionary stores), and
fuel monotonicity of the model's octave correction.
-/
import MV.Gen.SrcConv
import MV.Props.TieOps
import MV.Lemmas.RenotateScore

namespace MV.Tie

theorem kindOfStr_a : Py.kindOfStr "a" = .ok Kind.a := by decide
theorem kindOfStr_b : Py.kindOfStr "b" = .ok Kind.b := by decide
theorem kindOfStr_c : Py.kindOfStr "c" = .ok Kind.c := by decide

/-- kinds that are not relative never read the reference pitch -/
theorem noteToPitch_nonrel (c : Chord) (n : Note) (l : Int) (h : n.kind.isRelative = false) :
    noteToPitch c n l = noteToPitch c n 0 := by
  unfold noteToPitch
  cases hk : n.kind <;> simp_all [Kind.isRelative]

/-- `Chord.parse` builds its note with `Note(type, idx, oct, 1)`: no tags -/
theorem parse_tags (c : Chord) (p : Int) (b : Note) (h : c.parse p = .ok b) : b.tags = [] := by
  unfold Chord.parse at h
  simp only [bind, Except.bind, pure, Except.pure] at h
  repeat' split at h
  all_goals (first | (cases h; rfl) | cases h)

theorem tagsUnion_nil (t : List String) : Src.tagsUnion [] t = t := by
  simp [Src.tagsUnion]

theorem tagsUnion_self (t : List String) : Src.tagsUnion t t = t := by
  unfold Src.tagsUnion
  have : t.filter (fun x => !t.contains x) = [] := by
    rw [List.filter_eq_nil_iff]; intro a ha; simp [ha]
  rw [this, List.append_nil]

theorem addTags_self (n : Note) : Src.Note_add_tags n n.tags = n := by
  unfold Src.Note_add_tags; rw [tagsUnion_self]

/-- `l[i]` with a natural index -/
theorem pyIndex_nat {α : Type} (l : List α) (i : Nat) :
    pyIndex l (i : Int) = match l[i]? with | some x => .ok x | none => .error .index := by
  unfold pyIndex
  have h1 : ¬ ((i : Int) < 0) := by omega
  simp only [h1, if_false, Int.toNat_natCast]
  by_cases h2 : i < l.length
  · have : ¬ (False ∨ (i : Int) ≥ (l.length : Int)) := by
      intro h; rcases h with h | h
      · exact h
      · omega
    rw [if_neg this]; cases l[i]? <;> rfl
  · have hn : l[i]? = none := by simp; omega
    rw [hn]; split <;> rfl

theorem mapM_congr_mem {α β : Type} (l : List α) (f g : α → Res β) (h : ∀ x ∈ l, f x = g x) : l.mapM f = l.mapM g := by
  induction l with
  | nil => rfl
  | cons x xs ih =>
    rw [List.mapM_cons, List.mapM_cons, h x (by simp), ih (fun y hy => h y (by simp [hy]))]

/-- the chord-tone branch of `to_standard_note`: `candidates[val % len].o(val // len + octave)` with the note's
duration and amplitude (`ZeroDivisionError` on an empty candidate list) -/
theorem standard_tone (n : Note) (cands : List Note) :
    (do let t_2 ← Py.mod n.val (Py.len cands)
        let t_3 ← pyIndex cands t_2
        let t_4 ← Py.floordiv n.val (Py.len cands)
        let new_note : Note := (Src.Note_o t_3 (t_4 + n.oct))
        let new_note : Note := (Src.Note_set_duration new_note (n.dur))
        let new_note : Note := { new_note with amp := n.amp }
        pure new_note : Res Note)
      = (if cands.length = 0 then .error .zerodiv
         else do
           let L : Int := cands.length
           let cand ← pyIndex cands (n.val % L)
           let nn := cand.o (n.val / L + n.oct)
           pure { nn with dur := n.dur, amp := n.amp }) := by
  unfold Py.mod Py.floordiv Py.len
  by_cases h : cands.length = 0
  · simp [h]; rfl
  · have h' : ¬ ((cands.length : Int) = 0) := by omega
    have hp : (0 : Int) ≤ (cands.length : Int) := by omega
    simp only [h, h', if_false, Int.fmod_eq_emod_of_nonneg _ hp, Int.fdiv_eq_ediv_of_nonneg _ hp]
    simp only [bind, Except.bind, pure, Except.pure, note_o_src, Src.Note_set_duration]

/-- the `try` block shared by `to_extension_note` / `to_chord_note`: any exception (`ValueError` of `list.index`,
`IndexError`) leaves the note as it is -/
theorem tone_try (n : Note) (k : Kind) (cands : List Note) :
    (tryCatch (do
        let t_3 ← Src.Note_list_index (cands.map (fun (c : Note) => (Src.Note_o c (-c.oct)))) (Src.Note_as_key n)
        let t_4 ← pyIndex cands t_3
        let t_6 ← (Except.ok k : Res Kind)
        pure { n with kind := t_6, val := t_3, oct := n.oct - t_4.oct }) (fun _ => pure n) : Res Note)
      = pure (n.toToneNote k cands) := by
  unfold Src.Note_list_index Note.toToneNote
  have ek : Src.Note_as_key n = n.asKey := by simp [Src.Note_as_key, Note.asKey]
  have e : (fun (y : Note) => Src.Note_deq y n.asKey) = (fun y => y.pyEq n.asKey) := by
    funext y; exact note_pyEq_src y n.asKey
  have e2 : (cands.map (fun (c : Note) => (Src.Note_o c (-c.oct)))) = cands.map (fun c => c.o (-c.oct)) := by
    congr 1; funext c; exact note_o_src c _
  simp only [ek]
  rw [e, e2]
  cases List.findIdx? (fun y => y.pyEq n.asKey) (cands.map (fun c => c.o (-c.oct))) with
  | none => rfl
  | some idx =>
    simp only [bind, Except.bind, pyIndex_nat]
    cases cands[idx]? with
    | none => rfl
    | some cand => rfl

/-! ### `Melody.to_absolute_note`: the loop -/

/-- the loop body that py2lean generated for `Melody.to_absolute_note` -/
def mtaStep (c : Chord) (st : Option Int × List Note) (note : Note) : Res (Option Int × List Note) := do
  let t_1 ← Src.Note_to_absolute_note note c st.1
  let t_2 ← Src.Chord_to_pitch c t_1 st.1
  match t_2 with
  | some p => pure (some p, st.2 ++ [t_1])
  | none => pure (st.1, st.2 ++ [t_1])

/-- the generated fold and the model's recursion, given the ties of the two functions the body calls -/
theorem mta_fold (m : Melody) (c : Chord)
    (hA : ∀ (n : Note) (last : Option Int), Src.Note_to_absolute_note n c last = n.toAbsoluteNote c last)
    (hP : ∀ (n : Note) (last : Option Int), Src.Chord_to_pitch c n last = c.toPitch n last) :
    ∀ (last : Option Int) (acc : List Note),
      (m.foldlM (mtaStep c) (last, acc)).map (fun st => (st.2, st.1))
        = (melodyToAbsolute c m last).map (fun p => (acc ++ p.1, p.2)) := by
  induction m with
  | nil => intro last acc; simp [melodyToAbsolute, Except.map, pure, Except.pure]
  | cons n ns ih =>
    intro last acc
    rw [List.foldlM_cons]
    unfold melodyToAbsolute
    have hs : mtaStep c (last, acc) n = (do
        let n' ← n.toAbsoluteNote c last
        let t ← c.toPitch n' last
        pure ((match t with | some p => some p | none => last), acc ++ [n'])) := by
      unfold mtaStep
      simp only [hA, hP]
      cases n.toAbsoluteNote c last with
      | error e => rfl
      | ok n' =>
        show (do let t_2 ← c.toPitch n' last
                 match t_2 with
                 | some p => pure (some p, acc ++ [n'])
                 | none => pure (last, acc ++ [n']) : Res (Option Int × List Note))
            = (do let t ← c.toPitch n' last
                  pure ((match t with | some p => some p | none => last), acc ++ [n']))
        cases c.toPitch n' last with
        | error e => rfl
        | ok t => cases t <;> rfl
    rw [hs]
    cases n.toAbsoluteNote c last with
    | error e => rfl
    | ok n' =>
      simp only [bind, Except.bind]
      cases c.toPitch n' last with
      | error e => rfl
      | ok t =>
        simp only [pure, Except.pure]
        cases t with
        | none =>
          dsimp only
          rw [ih last (acc ++ [n'])]
          cases melodyToAbsolute c ns last with
          | error e => rfl
          | ok q => simp [Except.map]
        | some p =>
          dsimp only
          rw [ih (some p) (acc ++ [n'])]
          cases melodyToAbsolute c ns (some p) with
          | error e => rfl
          | ok q => simp [Except.map]

/-- two results that agree after swapping / prefixing with `[]` are equal -/
theorem mta_finish (x : Res (Option Int × List Note)) (y : Res (Melody × Option Int))
    (key : x.map (fun st => (st.2, st.1)) = y.map (fun p => ([] ++ p.1, p.2))) :
    (do let st ← x; pure (st.2, st.1) : Res (Melody × Option Int)) = y := by
  cases x with
  | error e =>
    cases y with
    | error e' => simp [Except.map] at key; rw [key]; rfl
    | ok q => simp [Except.map] at key
  | ok st =>
    cases y with
    | error e' => simp [Except.map] at key
    | ok q => simp [Except.map] at key; show Except.ok _ = Except.ok _; rw [key.1, key.2]

/-! ### `for voice, melody in chord.score.items(): chord.score[voice] = f(melody)` -/

theorem map_set_of_ne (l : List (String × Melody)) (k : String) (v : Melody) (h : ∀ p ∈ l, p.1 ≠ k) :
    l.map (fun p => if p.1 == k then (k, v) else p) = l := by
  induction l with
  | nil => rfl
  | cons x xs ih =>
    have hx : (x.1 == k) = false := by simpa using h x (by simp)
    rw [List.map_cons, ih (fun p hp => h p (by simp [hp]))]
    simp [hx]

/-- replacing, key by key, the value of every key of a dictionary (unique keys) maps the values -/
theorem partsSet_fold (f : Melody → Melody) (c : Chord) :
    ∀ (todo done : List (String × Melody)),
      (∀ p ∈ todo, ∀ q ∈ done, q.1 ≠ p.1) → (todo.map (·.1)).Nodup →
      todo.foldl (fun (st : Chord) (it : String × Melody) => { st with parts := Src.partsSet st.parts it.1 (f it.2) })
          { c with parts := done ++ todo }
        = { c with parts := done ++ todo.map (fun p => (p.1, f p.2)) } := by
  intro todo
  induction todo with
  | nil => intro done _ _; rfl
  | cons x rest ih =>
    intro done hdis hnd
    rw [List.map_cons, List.nodup_cons] at hnd
    rw [List.foldl_cons]
    have hany : (done ++ x :: rest).any (fun p => p.1 == x.1) = true := by simp
    have hdone : ∀ p ∈ done, p.1 ≠ x.1 := fun q hq => hdis x (by simp) q hq
    have hrest : ∀ p ∈ rest, p.1 ≠ x.1 := by
      intro p hp he
      exact hnd.1 (by rw [← he]; exact List.mem_map_of_mem hp)
    have hstep : Src.partsSet (done ++ x :: rest) x.1 (f x.2) = (done ++ [(x.1, f x.2)]) ++ rest := by
      unfold Src.partsSet
      rw [if_pos hany, List.map_append, List.map_cons, map_set_of_ne _ _ _ hdone, map_set_of_ne _ _ _ hrest]
      simp
    show List.foldl _ { c with parts := Src.partsSet (done ++ x :: rest) x.1 (f x.2) } rest = _
    rw [hstep, ih (done ++ [(x.1, f x.2)]) _ hnd.2]
    · simp
    · intro p hp q hq
      rcases List.mem_append.mp hq with hq | hq
      · exact hdis p (by simp [hp]) q hq
      · have : q = (x.1, f x.2) := by simpa using hq
        rw [this]; exact fun he => hrest p hp he.symm

theorem partsSet_loop (f : Melody → Melody) (c : Chord) (hd : (c.parts.map (·.1)).Nodup) :
    c.parts.foldl (fun (st : Chord) (it : String × Melody) => { st with parts := Src.partsSet st.parts it.1 (f it.2) }) c
      = c.withParts (c.parts.map (fun p => (p.1, f p.2))) := by
  have := partsSet_fold f c c.parts [] (by simp) hd
  simpa [Chord.withParts] using this

/-! ### `Chord.to_absolute_note` / `Score.to_absolute_note`: the loops over the parts and over the chords -/


/-- the loop body that py2lean generated for `Chord.to_absolute_note` -/
def ctaStep (c : Chord) (st : LastMap × List (String × Melody)) (it : String × Melody) :
    Res (LastMap × List (String × Melody)) := do
  let t_3 ← Src.Melody_to_absolute_note it.2 c (Src.lastGet st.1 it.1 none)
  pure (LastMap.set st.1 it.1 t_3.2, Src.partsSet st.2 it.1 t_3.1)

theorem partsSet_new (acc : List (String × Melody)) (k : String) (m : Melody) (h : ∀ p ∈ acc, p.1 ≠ k) :
    Src.partsSet acc k m = acc ++ [(k, m)] := by
  unfold Src.partsSet
  have : acc.any (fun p => p.1 == k) = false := by
    rw [List.any_eq_false]; intro p hp; simpa using h p hp
  rw [this]; rfl

theorem cta_fold (c : Chord)
    (hM : ∀ (m : Melody) (last : Option Int), Src.Melody_to_absolute_note m c last = melodyToAbsolute c m last) :
    ∀ (ps : List (String × Melody)) (lm : LastMap) (acc : List (String × Melody)),
      (ps.map (·.1)).Nodup → (∀ p ∈ ps, ∀ q ∈ acc, q.1 ≠ p.1) →
      (ps.foldlM (ctaStep c) (lm, acc)).map (fun st => (st.2, st.1))
        = (chordPartsToAbsolute c ps lm).map (fun r => (acc ++ r.1, r.2)) := by
  intro ps
  induction ps with
  | nil => intro lm acc _ _; simp [chordPartsToAbsolute, Except.map, pure, Except.pure]
  | cons x rest ih =>
    intro lm acc hnd hdis
    obtain ⟨name, m⟩ := x
    rw [List.map_cons, List.nodup_cons] at hnd
    rw [List.foldlM_cons]
    unfold chordPartsToAbsolute
    have hs : ctaStep c (lm, acc) (name, m) = (do
        let r ← melodyToAbsolute c m (lm.get name)
        pure (lm.set name r.2, acc ++ [(name, r.1)])) := by
      unfold ctaStep
      simp only [hM]
      have : Src.lastGet lm name none = lm.get name := rfl
      rw [this]
      cases melodyToAbsolute c m (lm.get name) with
      | error e => rfl
      | ok r =>
        show Except.ok _ = Except.ok _
        rw [partsSet_new acc name r.1 (fun q hq => hdis (name, m) (by simp) q hq)]
    rw [hs]
    cases melodyToAbsolute c m (lm.get name) with
    | error e => rfl
    | ok r =>
      obtain ⟨m', l⟩ := r
      simp only [bind, Except.bind, pure, Except.pure]
      have hrest : ∀ p ∈ rest, p.1 ≠ name := by
        intro p hp he
        exact hnd.1 (by rw [← he]; exact List.mem_map.mpr ⟨p, hp, rfl⟩)
      rw [ih (lm.set name l) (acc ++ [(name, m')]) hnd.2 (by
        intro p hp q hq
        rcases List.mem_append.mp hq with hq | hq
        · exact hdis p (by simp [hp]) q hq
        · have : q = (name, m') := by simpa using hq
          rw [this]; exact fun he => hrest p hp he.symm)]
      cases chordPartsToAbsolute c rest (lm.set name l) with
      | error e => rfl
      | ok q => simp [Except.map]

/-- results that agree after swapping / prefixing with `[]` are equal (`Chord.to_absolute_note`) -/
theorem cta_finish (c : Chord) (x : Res (LastMap × List (String × Melody))) (y : Res (List (String × Melody) × LastMap))
    (key : x.map (fun st => (st.2, st.1)) = y.map (fun r => ([] ++ r.1, r.2))) :
    (do let st ← x; pure (Chord.withParts c st.2, st.1) : Res (Chord × LastMap))
      = (do let (parts, lm') ← y; pure (c.withParts parts, lm')) := by
  cases x with
  | error e1 =>
    cases y with
    | error e2 => simp [Except.map] at key; rw [key]; rfl
    | ok q => simp [Except.map] at key
  | ok st =>
    cases y with
    | error e2 => simp [Except.map] at key
    | ok q =>
      simp [Except.map] at key
      show Except.ok _ = Except.ok _
      rw [key.1, key.2]

/-- the loop body that py2lean generated for `Score.to_absolute_note` -/
def staStep (st : List Chord × LastMap) (chord : Chord) : Res (List Chord × LastMap) := do
  let t_1 ← Src.Chord_to_absolute_note chord st.2
  pure (st.1 ++ [t_1.1], t_1.2)

theorem sta_fold :
    ∀ (s : Score) (lm : LastMap) (acc : List Chord),
      (∀ c ∈ s, ∀ lm, Src.Chord_to_absolute_note c lm = c.toAbsoluteNote lm) →
      (s.foldlM staStep (acc, lm)).map (fun st => st.1) = (scoreToAbsolute s lm).map (fun r => acc ++ r) := by
  intro s
  induction s with
  | nil => intro lm acc _; simp [scoreToAbsolute, Except.map, pure, Except.pure]
  | cons c cs ih =>
    intro lm acc hC
    rw [List.foldlM_cons]
    unfold scoreToAbsolute
    have hs : staStep (acc, lm) c = (do
        let r ← c.toAbsoluteNote lm
        pure (acc ++ [r.1], r.2)) := by
      unfold staStep; rw [hC c (by simp)]
    rw [hs]
    cases c.toAbsoluteNote lm with
    | error e => rfl
    | ok r =>
      obtain ⟨c', lm'⟩ := r
      simp only [bind, Except.bind, pure, Except.pure]
      rw [ih lm' (acc ++ [c']) (fun d hd => hC d (by simp [hd]))]
      cases scoreToAbsolute cs lm' with
      | error e => rfl
      | ok q => simp [Except.map]

theorem sta_finish (x : Res (List Chord × LastMap)) (y : Res Score)
    (key : x.map (fun st => st.1) = y.map (fun r => [] ++ r)) :
    (do let st ← x; pure st.1 : Res (List Chord)) = y := by
  cases x with
  | error e =>
    cases y with
    | error e' => simp [Except.map] at key; rw [key]; rfl
    | ok q => simp [Except.map] at key
  | ok st =>
    cases y with
    | error e' => simp [Except.map] at key
    | ok q => simp [Except.map] at key; show Except.ok _ = Except.ok _; rw [key]

/-- `to_absolute_note` keeps the degree of every chord -/
theorem scoreToAbsolute_elem (P : Int → Prop) : ∀ (s : Score) (lm : LastMap) (a : Score),
    scoreToAbsolute s lm = .ok a → (∀ c ∈ s, P c.elem) → ∀ c ∈ a, P c.elem := by
  intro s
  induction s with
  | nil => intro lm a h _; simp [scoreToAbsolute, pure, Except.pure] at h; subst h; intro c hc; cases hc
  | cons c cs ih =>
    intro lm a h hP
    unfold scoreToAbsolute at h
    unfold Chord.toAbsoluteNote at h
    cases hp : chordPartsToAbsolute c c.parts lm with
    | error e => rw [hp] at h; cases h
    | ok r =>
      obtain ⟨parts, lm'⟩ := r
      rw [hp] at h
      simp only [bind, Except.bind, pure, Except.pure] at h
      cases hr : scoreToAbsolute cs lm' with
      | error e => rw [hr] at h; cases h
      | ok rest =>
        rw [hr] at h
        cases h
        intro d hd
        rcases List.mem_cons.mp hd with rfl | hd
        · exact hP c (by simp)
        · exact ih lm' rest hr (fun x hx => hP x (by simp [hx])) d hd

/-! ### fuel of the octave correction -/

/-- once the model's recursion has returned, more fuel returns the same chord -/
theorem correctOctaveFuel_mono (fuel : Nat) : ∀ (c c' : Chord), correctOctaveFuel fuel c = .ok c' →
    ∀ k, correctOctaveFuel (fuel + k) c = .ok c' := by
  induction fuel with
  | zero => intro c c' h; simp [correctOctaveFuel] at h
  | succ fuel ih =>
    intro c c' h k
    have e : fuel + 1 + k = (fuel + k) + 1 := by omega
    rw [e]
    unfold correctOctaveFuel at h ⊢
    cases hb : c.bassPitch with
    | error e => rw [hb] at h; exact h
    | ok b =>
      rw [hb] at h
      simp only [bind, Except.bind] at h ⊢
      by_cases h1 : b > 6
      · rw [if_pos h1] at h ⊢; exact ih _ _ h k
      · rw [if_neg h1] at h ⊢
        by_cases h2 : b ≤ -6
        · rw [if_pos h2] at h ⊢; exact ih _ _ h k
        · rw [if_neg h2] at h ⊢; exact h

end MV.Tie
