/-
Lemmas for C13: every projection mode (plain / voice leading, with or without pitch keeping) yields the
target chords, the common duration and the source rhythm (`Projected`); dictionary merging for keep_score.
-/
import MV.Lemmas.ProjectRel
namespace MV.Proj
open MV

/-- the rhythm observation: symbols are not looked at -/
abbrev πr : Note → Unit := fun _ => ()

theorem bind_ok {α β : Type} {x : Res α} {f : α → Res β} {y : β} (h : (x >>= f) = .ok y) :
    ∃ a, x = .ok a ∧ f a = .ok y := by
  cases x with
  | error e => simp [bind, Except.bind] at h
  | ok a => exact ⟨a, rfl, h⟩

theorem RC_refl_map {β : Type} (π : Note → β) (g : Note → Note) (c : Chord) (h : ∀ n, RN π (g n) n) :
    RC π { c with parts := c.parts.map (fun p => (p.1, p.2.map g)) } c := by
  unfold RC RP
  simp only []
  apply All₂.map_left
  intro p _
  exact ⟨rfl, All₂.map_left g p.2 (fun n _ => h n)⟩

theorem noteAnd_rn (n : Note) (k : Int) : RN πr (noteAnd n k) n := by
  unfold noteAnd
  cases hk : n.kind <;> simp only [addValue, hk] <;> exact ⟨rfl, by simp [cls, hk], rfl⟩

theorem chordAnd_rc (c : Chord) (k : Int) : RC πr (chordAnd c k) c :=
  RC_refl_map πr (noteAnd · k) c (fun n => noteAnd_rn n k)

theorem chordAnd_header (c : Chord) (k : Int) : header (chordAnd c k) = header c := rfl


theorem mapM_length {α β : Type} (f : α → Res β) (l : List α) (r : List β) (h : l.mapM f = .ok r) : r.length = l.length := by
  induction l generalizing r with
  | nil => simp [List.mapM_nil, pure, Except.pure] at h; subst h; rfl
  | cons x xs ih =>
    rw [List.mapM_cons] at h
    obtain ⟨a, _, h⟩ := bind_ok h
    obtain ⟨b, hb, h⟩ := bind_ok h
    simp [pure, Except.pure] at h
    subst h
    simp [ih b hb]

theorem zipMap_rel {β : Type} (π : Note → β) (f : Chord × Int → Chord) (l : List Chord) (offs : List Int)
    (hl : l.length ≤ offs.length) (hf : ∀ c i, RC π (f (c, i)) c) : RS π ((l.zip offs).map f) l := by
  induction l generalizing offs with
  | nil => exact All₂.nil
  | cons c cs ih =>
    cases offs with
    | nil => simp at hl
    | cons i is =>
      simp only [List.zip_cons_cons, List.map_cons]
      exact All₂.cons (hf c i) (ih is (by simpa using hl))

theorem zipMap_headers (f : Chord × Int → Chord) (l : List Chord) (offs : List Int)
    (hl : l.length ≤ offs.length) (hf : ∀ c i, header (f (c, i)) = header c) :
    ((l.zip offs).map f).map header = l.map header := by
  induction l generalizing offs with
  | nil => rfl
  | cons c cs ih =>
    cases offs with
    | nil => simp at hl
    | cons i is =>
      simp only [List.zip_cons_cons, List.map_cons, hf c i, ih is (by simpa using hl)]

/-- the line `project_on_one_chord` builds for a part has the rhythm of the part's line -/
theorem oneChord_line (s : List Chord) (offs : List Int) (p : String) (hl : offs.length = s.length) :
    All₂ (RN πr)
      ((s.zip offs).flatMap (fun (x : Chord × Int) => match x.1.parts.lookup p with
        | some m => melodyAnd m x.2
        | none => [silence x.1.dur]))
      (gather s p) := by
  induction s generalizing offs with
  | nil => exact All₂.nil
  | cons c cs ih =>
    cases offs with
    | nil => simp at hl
    | cons i is =>
      rw [gather_cons]
      simp only [List.zip_cons_cons, List.flatMap_cons]
      refine All₂.append ?_ (ih is (by simpa using hl))
      cases c.parts.lookup p with
      | none => exact All₂.cons ⟨rfl, rfl, rfl⟩ All₂.nil
      | some m => exact All₂.map_left _ m (fun n _ => noteAnd_rn n i)

theorem rel_pos' {β : Type} (π : Note → β) (l1 l2 : List Note) (h : All₂ (RN π) l1 l2)
    (hp : ∀ n ∈ l2, 0 < n.dur) : ∀ n ∈ l1, 0 < n.dur := by
  induction h with
  | nil => intro n hn; simp at hn
  | cons hn _ ih =>
    intro n hm
    simp only [List.mem_cons] at hm
    rcases hm with hm | hm
    · subst hm; rw [hn.1]; exact hp _ (by simp)
    · exact ih (fun x hx => hp x (by simp [hx])) n hm

theorem gather_pos (s : List Chord) (p : String) (h : ∀ c ∈ s, EqualParts c) : ∀ n ∈ gather s p, 0 < n.dur := by
  intro n hn
  unfold gather at hn
  simp only [List.mem_flatMap] at hn
  obtain ⟨c, hc, hn⟩ := hn
  cases hl : c.parts.lookup p with
  | some m => rw [hl] at hn; exact ((h c hc).2.1 (p, m) (lookup_mem _ _ _ hl)).1 n hn
  | none =>
    rw [hl] at hn
    simp only [List.mem_singleton] at hn
    subst hn; exact (h c hc).2.2

structure OneChord (s : Score) (oc : Chord) : Prop where
  equal : EqualParts oc
  dur : oc.dur = scoreDuration s
  den : ∀ p τ, evMap πr (den none (gather [oc] p) 0 τ) = evMap πr (den none (gather s p) 0 τ)

theorem projectOnOneChord_spec (s : Score) (oc : Chord) (offs : List Int) (hs : ∀ c ∈ s, EqualParts c)
    (h : projectOnOneChord s = .ok (oc, offs)) : OneChord s oc ∧ offs.length = s.length := by
  cases s with
  | nil => simp [projectOnOneChord] at h
  | cons c0 cs =>
    unfold projectOnOneChord at h
    simp only [] at h
    obtain ⟨o, ho, h⟩ := bind_ok h
    simp only [pure, Except.pure, Except.ok.injEq, Prod.mk.injEq] at h
    obtain ⟨hoc, rfl⟩ := h
    have hlen := mapM_length _ _ _ ho
    refine ⟨?_, hlen⟩
    have hD : 0 < scoreDuration (c0 :: cs) := by
      rw [sdur_cons]
      have h0 := (hs c0 (by simp)).2.2
      have := sdur_nonneg cs (fun x hx => by have := (hs x (by simp [hx])).2.2; grind)
      grind
    have hline : ∀ p, All₂ (RN πr)
        (((c0 :: cs).zip o).flatMap (fun (x : Chord × Int) => match x.1.parts.lookup p with
          | some m => melodyAnd m x.2
          | none => [silence x.1.dur]))
        (gather (c0 :: cs) p) := fun p => oneChord_line (c0 :: cs) o p hlen
    have hgd : ∀ p, melodyDuration (gather (c0 :: cs) p) = scoreDuration (c0 :: cs) :=
      fun p => gather_dur _ p (fun c hc q hq => ((hs c hc).2.1 q hq).2)
    have hparts : ∀ q ∈ oc.parts, (∀ n ∈ q.2, 0 < n.dur) ∧ melodyDuration q.2 = scoreDuration (c0 :: cs) := by
      intro q hq
      rw [← hoc] at hq
      simp only [List.mem_map] at hq
      obtain ⟨p, _, rfl⟩ := hq
      simp only []
      exact ⟨rel_pos' πr _ _ (hline p) (gather_pos _ p hs), (mdur_rel πr _ _ (hline p)).trans (hgd p)⟩
    have hne : oc.parts ≠ [] := by
      rw [← hoc]
      simp only [ne_eq, List.map_eq_nil_iff]
      exact instruments_ne_nil _ c0 cs rfl (hs c0 (by simp)).1
    have hdur : oc.dur = scoreDuration (c0 :: cs) := dur_of_equal oc _ hne (fun q hq => (hparts q hq).2)
    refine ⟨⟨hne, fun q hq => by rw [hdur]; exact hparts q hq, by rw [hdur]; exact hD⟩, hdur, ?_⟩
    intro p τ
    have hg1 : gather [oc] p = (match oc.parts.lookup p with | some m => m | none => [silence oc.dur]) := by
      rw [gather_cons]; exact List.append_nil _
    have hlk : oc.parts.lookup p = if p ∈ instruments (c0 :: cs) then some (((c0 :: cs).zip o).flatMap
        (fun (x : Chord × Int) => match x.1.parts.lookup p with
          | some m => melodyAnd m x.2
          | none => [silence x.1.dur])) else none := by
      rw [← hoc]; exact lookup_map_self _ _ _
    rw [hg1, hlk]
    by_cases hp : p ∈ instruments (c0 :: cs)
    · rw [if_pos hp]
      exact den_rel πr _ _ (hline p) none none rfl 0 τ
    · rw [if_neg hp]
      rw [den_rests _ _ _ _ (by intro n hn; simp at hn; subst hn; rfl), den_rests _ _ _ _ (gather_rests _ p hp)]


/-! ### re-notation stages keep the rhythm -/

theorem cls_isNote (n : Note) (h : n.kind.isNote = true) : cls n = 2 := by
  unfold cls
  cases hk : n.kind <;> simp_all [Kind.isNote]

theorem noteToAbsolute_rn (c : Chord) (n n' : Note) (last : Option Int) (h : noteToAbsolute c n last = .ok n') :
    RN πr n' n := by
  unfold noteToAbsolute at h
  by_cases hk : n.kind.isNote = true
  · simp only [hk, Bool.not_true, Bool.false_eq_true, if_false] at h
    obtain ⟨r, _, h⟩ := bind_ok h
    cases r with
    | none => simp at h
    | some pch =>
      simp only [pure, Except.pure, Except.ok.injEq] at h
      subst h
      exact ⟨rfl, by rw [cls_isNote n hk]; rfl, rfl⟩
  · simp only [hk, Bool.not_false, if_true, Except.ok.injEq] at h
    subst h
    exact ⟨rfl, rfl, rfl⟩

theorem melodyToAbsolute_rel (c : Chord) (m m' : Melody) (last l' : Option Int)
    (h : melodyToAbsolute c m last = .ok (m', l')) : All₂ (RN πr) m' m := by
  induction m generalizing m' last l' with
  | nil => simp [melodyToAbsolute] at h; rw [h.1]; exact All₂.nil
  | cons n ns ih =>
    unfold melodyToAbsolute at h
    obtain ⟨n', hn, h⟩ := bind_ok h
    obtain ⟨tmp, _, h⟩ := bind_ok h
    obtain ⟨r, hr, h⟩ := bind_ok h
    obtain ⟨rest, le⟩ := r
    simp only [pure, Except.pure, Except.ok.injEq, Prod.mk.injEq] at h
    obtain ⟨rfl, rfl⟩ := h
    exact All₂.cons (noteToAbsolute_rn c n n' last hn) (ih _ _ _ hr)

theorem chordToAbsolute_go_rel (c : Chord) (ps ps' : List (String × Melody)) (lasts l' : List (String × Int))
    (h : chordToAbsolute.go c ps lasts = .ok (ps', l')) : RP πr ps' ps := by
  induction ps generalizing ps' lasts l' with
  | nil => simp [chordToAbsolute.go] at h; rw [h.1]; exact All₂.nil
  | cons q qs ih =>
    obtain ⟨p, m⟩ := q
    unfold chordToAbsolute.go at h
    obtain ⟨r, hr, h⟩ := bind_ok h
    obtain ⟨m', lm⟩ := r
    obtain ⟨r2, hr2, h⟩ := bind_ok h
    obtain ⟨rest, le⟩ := r2
    simp only [pure, Except.pure, Except.ok.injEq, Prod.mk.injEq] at h
    obtain ⟨rfl, rfl⟩ := h
    exact All₂.cons ⟨rfl, melodyToAbsolute_rel c m m' _ _ hr⟩ (ih _ _ _ hr2)

theorem chordToAbsolute_rel (c c' : Chord) (lasts l' : List (String × Int))
    (h : chordToAbsolute c lasts = .ok (c', l')) : RC πr c' c ∧ header c' = header c := by
  unfold chordToAbsolute at h
  obtain ⟨r, hr, h⟩ := bind_ok h
  obtain ⟨parts, le⟩ := r
  simp only [pure, Except.pure, Except.ok.injEq, Prod.mk.injEq] at h
  obtain ⟨rfl, rfl⟩ := h
  exact ⟨chordToAbsolute_go_rel c _ _ _ _ hr, rfl⟩

theorem scoreToAbsolute_go_rel (s A : List Chord) (lasts : List (String × Int))
    (h : scoreToAbsolute.go s lasts = .ok A) : RS πr A s ∧ A.map header = s.map header := by
  induction s generalizing A lasts with
  | nil => simp [scoreToAbsolute.go] at h; subst h; exact ⟨All₂.nil, rfl⟩
  | cons c cs ih =>
    unfold scoreToAbsolute.go at h
    obtain ⟨r, hr, h⟩ := bind_ok h
    obtain ⟨c', l'⟩ := r
    obtain ⟨rest, hrest, h⟩ := bind_ok h
    simp only [pure, Except.pure, Except.ok.injEq] at h
    subst h
    have h1 := chordToAbsolute_rel c c' _ _ hr
    have h2 := ih _ _ hrest
    exact ⟨All₂.cons h1.1 h2.1, by simp only [List.map_cons, h1.2, h2.2]⟩

/-- `Score.to_absolute_note` keeps chords, parts, durations and the rest / continuation / note pattern -/
theorem scoreToAbsolute_rel (s A : Score) (h : scoreToAbsolute s = .ok A) : RS πr A s ∧ A.map header = s.map header :=
  scoreToAbsolute_go_rel s A [] h


theorem parse_kind (c : Chord) (p : Int) (q : Note) (h : c.parse p = .ok q) : q.kind = .s ∨ q.kind = .h := by
  unfold Chord.parse at h
  simp only [] at h
  split at h
  all_goals
    obtain ⟨scale, _, h⟩ := bind_ok h
    obtain ⟨s0, _, h⟩ := bind_ok h
    split at h
    · simp at h
    · simp only [pure, Except.pure, Except.ok.injEq] at h
      subst h
      simp

theorem noteToScale_rn (c : Chord) (n n' : Note) (h : noteToScale c n = .ok n') : RN πr n' n := by
  unfold noteToScale at h
  by_cases hk : n.kind.isNote = true
  · simp only [hk, Bool.not_true, Bool.false_eq_true, if_false] at h
    obtain ⟨r, _, h⟩ := bind_ok h
    cases r with
    | none => simp at h
    | some pch =>
      simp only [] at h
      obtain ⟨q, hq, h⟩ := bind_ok h
      simp only [pure, Except.pure, Except.ok.injEq] at h
      subst h
      refine ⟨rfl, ?_, rfl⟩
      rw [cls_isNote n hk]
      rcases parse_kind c pch q hq with hh | hh <;> simp [cls, hh]
  · simp only [hk, Bool.not_false, if_true, Except.ok.injEq] at h
    subst h
    exact ⟨rfl, rfl, rfl⟩

theorem mapM_rel {α β : Type} (R : β → α → Prop) (f : α → Res β) (l : List α) (r : List β)
    (hf : ∀ x y, f x = .ok y → R y x) (h : l.mapM f = .ok r) : All₂ R r l := by
  induction l generalizing r with
  | nil => simp [List.mapM_nil, pure, Except.pure] at h; subst h; exact All₂.nil
  | cons x xs ih =>
    rw [List.mapM_cons] at h
    obtain ⟨a, ha, h⟩ := bind_ok h
    obtain ⟨b, hb, h⟩ := bind_ok h
    simp [pure, Except.pure] at h
    subst h
    exact All₂.cons (hf x a ha) (ih b hb)

theorem chordToScale_rel (c c' : Chord) (h : chordToScale c = .ok c') : RC πr c' c ∧ header c' = header c := by
  unfold chordToScale at h
  obtain ⟨parts, hp, h⟩ := bind_ok h
  simp only [pure, Except.pure, Except.ok.injEq] at h
  subst h
  refine ⟨?_, rfl⟩
  apply mapM_rel _ _ _ _ _ hp
  intro x y hxy
  obtain ⟨m, hm, hxy⟩ := bind_ok hxy
  simp only [pure, Except.pure, Except.ok.injEq] at hxy
  subst hxy
  exact ⟨rfl, mapM_rel _ _ _ _ (fun a b hab => noteToScale_rn c a b hab) hm⟩

theorem All₂.flip {α β : Type} {R : α → β → Prop} {R' : β → α → Prop} {l : List α} {m : List β}
    (h : All₂ R l m) (hr : ∀ a b, R a b → R' b a) : All₂ R' m l := by
  induction h with
  | nil => exact All₂.nil
  | cons h1 _ ih => exact All₂.cons (hr _ _ h1) ih

theorem RS.symm {β : Type} {π : Note → β} {s1 s2 : Score} (h : RS π s1 s2) : RS π s2 s1 :=
  All₂.flip h (fun _ _ hc => All₂.flip hc (fun _ _ hp => ⟨hp.1.symm, All₂.flip hp.2 (fun _ _ hn => ⟨hn.1.symm, hn.2.1.symm, hn.2.2.symm⟩)⟩))

theorem mapM_chordToScale_rel (A R : Score) (h : A.mapM chordToScale = .ok R) :
    RS πr R A ∧ R.map header = A.map header := by
  induction A generalizing R with
  | nil => simp [List.mapM_nil, pure, Except.pure] at h; subst h; exact ⟨All₂.nil, rfl⟩
  | cons c cs ih =>
    rw [List.mapM_cons] at h
    obtain ⟨c', hc, h⟩ := bind_ok h
    obtain ⟨rest, hrest, h⟩ := bind_ok h
    simp [pure, Except.pure] at h
    subst h
    have hc' := chordToScale_rel c c' hc
    have := ih rest hrest
    exact ⟨All₂.cons hc'.1 this.1, by simp only [List.map_cons, hc'.2, this.2]⟩

/-- `Score.to_scale_note` keeps chords, parts, durations and the rest / continuation / note pattern -/
theorem scoreToScale_rel (s R : Score) (h : scoreToScale s = .ok R) : RS πr R s ∧ R.map header = s.map header := by
  unfold scoreToScale at h
  obtain ⟨A, hA, h⟩ := bind_ok h
  have h1 := scoreToAbsolute_rel s A hA
  have h2 := mapM_chordToScale_rel A R h
  refine ⟨?_, by rw [h2.2, h1.2]⟩
  -- compose the two relations chord by chord
  have htrans : ∀ (a b c : Score), RS πr a b → RS πr b c → RS πr a c := by
    intro a b c hab
    induction hab generalizing c with
    | nil => intro hbc; cases hbc; exact All₂.nil
    | @cons x y xs ys hxy _ ih =>
      intro hbc
      cases hbc with
      | @cons _ z _ zs hyz hrest =>
        refine All₂.cons ?_ (ih zs hrest)
        -- parts
        have hp : ∀ (P Q S : List (String × Melody)), RP πr P Q → RP πr Q S → RP πr P S := by
          intro P Q S hPQ
          induction hPQ generalizing S with
          | nil => intro hQS; cases hQS; exact All₂.nil
          | @cons p q ps qs hpq _ ih2 =>
            intro hQS
            cases hQS with
            | @cons _ r _ rs hqr hrest2 =>
              refine All₂.cons ⟨hpq.1.trans hqr.1, ?_⟩ (ih2 rs hrest2)
              have hm : ∀ (l m o : List Note), All₂ (RN πr) l m → All₂ (RN πr) m o → All₂ (RN πr) l o := by
                intro l m o hlm
                induction hlm generalizing o with
                | nil => intro hmo; cases hmo; exact All₂.nil
                | @cons a b as bs hab _ ih3 =>
                  intro hmo
                  cases hmo with
                  | @cons _ d _ ds hbd hrest3 =>
                    exact All₂.cons ⟨hab.1.trans hbd.1, hab.2.1.trans hbd.2.1, rfl⟩ (ih3 ds hrest3)
              exact hm _ _ _ hpq.2 hqr.2
        exact hp _ _ _ hxy hyz
  exact htrans _ _ _ h2.1 h1.1


/-! ### `keep_score`: merging the target's parts -/

def keys {α : Type} (d : List (String × α)) : List String := d.map (·.1)

theorem dictSet_new {α : Type} (d : List (String × α)) (k : String) (v : α) (h : k ∉ keys d) : dictSet d k v = d ++ [(k, v)] := by
  unfold dictSet
  have : d.any (fun x => x.1 == k) = false := by
    rw [List.any_eq_false]
    intro x hx hh
    have : x.1 = k := by simpa using hh
    exact h (by rw [← this]; exact List.mem_map.mpr ⟨x, hx, rfl⟩)
  rw [this]; rfl

/-- `{**a, **b}` with distinct new names is `a` followed by `b` -/
theorem dictUpdate_disjoint {α : Type} (a b : List (String × α)) (hn : (keys b).Nodup)
    (hd : ∀ k ∈ keys b, k ∉ keys a) : dictUpdate a b = a ++ b := by
  unfold dictUpdate
  induction b generalizing a with
  | nil => simp
  | cons x xs ih =>
    obtain ⟨k, v⟩ := x
    simp only [keys, List.map_cons, List.nodup_cons] at hn
    simp only [List.foldl_cons]
    rw [dictSet_new a k v (hd k (by simp [keys]))]
    rw [ih (a ++ [(k, v)]) hn.2]
    · simp
    · intro k' hk' hmem
      simp only [keys, List.map_append, List.map_cons, List.map_nil, List.mem_append, List.mem_singleton] at hmem
      rcases hmem with hmem | hmem
      · exact hd k' (by simp only [keys, List.map_cons, List.mem_cons]; right; exact hk') hmem
      · subst hmem; exact hn.1 hk'

theorem lookup_map_replace {α : Type} (d : List (String × α)) (k p : String) (v : α) (h : p ≠ k) :
    (d.map (fun q => if q.1 == k then (k, v) else q)).lookup p = d.lookup p := by
  induction d with
  | nil => rfl
  | cons x xs ih =>
    obtain ⟨k', v'⟩ := x
    have hpk : (p == k) = false := by simpa using h
    by_cases c : k' = k
    · subst c
      simp only [List.map_cons, BEq.rfl, if_true, List.lookup_cons, hpk, ih]
    · have hc : (k' == k) = false := by simpa using c
      simp only [List.map_cons, hc, Bool.false_eq_true, if_false, List.lookup_cons, ih]

theorem lookup_append_single {α : Type} (d : List (String × α)) (k p : String) (v : α) (h : p ≠ k) :
    (d ++ [(k, v)]).lookup p = d.lookup p := by
  induction d with
  | nil =>
    have hpk : (p == k) = false := by simpa using h
    simp [List.lookup_cons, hpk]
  | cons x xs ih =>
    obtain ⟨k', v'⟩ := x
    simp only [List.cons_append, List.lookup_cons, ih]

theorem dictSet_lookup_ne {α : Type} (d : List (String × α)) (k p : String) (v : α) (h : p ≠ k) :
    (dictSet d k v).lookup p = d.lookup p := by
  unfold dictSet
  split
  · exact lookup_map_replace d k p v h
  · exact lookup_append_single d k p v h

/-- a part of `a` whose name does not occur in `b` is left alone by `{**a, **b}` -/
theorem dictUpdate_lookup_left {α : Type} (a b : List (String × α)) (p : String) (h : p ∉ keys b) :
    (dictUpdate a b).lookup p = a.lookup p := by
  unfold dictUpdate
  induction b generalizing a with
  | nil => rfl
  | cons x xs ih =>
    obtain ⟨k, v⟩ := x
    simp only [keys, List.map_cons, List.mem_cons, not_or] at h
    simp only [List.foldl_cons]
    rw [ih _ (by simpa [keys] using h.2), dictSet_lookup_ne _ _ _ _ h.1]

theorem nodup_eraseDups (l : List String) : l.eraseDups.Nodup := by
  match l with
  | [] => simp
  | a :: as =>
    rw [List.eraseDups_cons, List.nodup_cons]
    constructor
    · rw [List.mem_eraseDups]; simp
    · have : (as.filter (fun b => !b == a)).length < as.length + 1 :=
        Nat.lt_succ_of_le (List.length_filter_le _ as)
      exact nodup_eraseDups _
termination_by l.length


theorem RP.keys_eq {β : Type} {π : Note → β} {P1 P2 : List (String × Melody)} (h : RP π P1 P2) : Proj.keys P1 = Proj.keys P2 := by
  induction h with
  | nil => rfl
  | cons hp _ ih =>
    unfold Proj.keys at *
    rw [List.map_cons, List.map_cons, hp.1, ih]

theorem RS.nodup {β : Type} {π : Note → β} {s1 s2 : Score} (h : RS π s1 s2) (hn : ∀ c ∈ s2, (keys c.parts).Nodup) :
    ∀ c ∈ s1, (keys c.parts).Nodup := by
  induction h with
  | nil => intro c hc; simp at hc
  | @cons c1 c2 r1 r2 hc _ ih =>
    intro c hm
    simp only [List.mem_cons] at hm
    rcases hm with hm | hm
    · subst hm; rw [RP.keys_eq hc]; exact hn c2 (by simp)
    · exact ih (fun x hx => hn x (by simp [hx])) c hm

theorem projSpec_nodup (src : Score) (tgt : List Chord) (a : Rat) : ∀ c ∈ projSpec src tgt a, (keys c.parts).Nodup := by
  induction tgt generalizing a with
  | nil => intro c hc; simp [projSpec] at hc
  | cons c2 cs ih =>
    intro c hc
    simp only [projSpec] at hc
    split at hc
    · simp at hc
    · simp only [List.mem_cons] at hc
      rcases hc with hc | hc
      · subst hc
        simp only [windowChord, keys, List.map_map, Function.comp_def, List.map_id']
        exact nodup_eraseDups _
      · exact ih _ c hc

/-! ### the three facts every projection mode establishes -/

/-- `res` has the target's chords for as long as both scores last, lasts the shorter of the two
durations, and shows in every part the rhythm of the source up to the common end -/
structure Projected (src tgt res : Score) : Prop where
  length : res.length = startsBefore tgt 0 (scoreDuration src)
  headers : res.map header = (tgt.take res.length).map header
  duration : scoreDuration res = min (scoreDuration src) (scoreDuration tgt)
  rhythm : ∀ p τ, 0 ≤ τ → evMap πr (den none (gather res p) 0 τ) =
      if τ < min (scoreDuration src) (scoreDuration tgt) then evMap πr (den none (gather src p) 0 τ) else none
  nodup : ∀ c ∈ res, (keys c.parts).Nodup

theorem evMap_ite {β : Type} (π : Note → β) (c : Prop) [Decidable c] (x : Option Ev) :
    evMap π (if c then x else none) = if c then evMap π x else none := by
  split <;> rfl

theorem projected_plain (src tgt : Score) (hs : ∀ c ∈ src, EqualParts c) (ht : ∀ c ∈ tgt, 0 < c.dur) :
    Projected src tgt (projSpec src tgt 0) := by
  have hh := projSpec_headers src tgt 0 (fun c hc => (hs c hc).2.2) ht (by grind)
  have h1 := sdur_nonneg src (fun c hc => by have := (hs c hc).2.2; grind)
  have h2 := sdur_nonneg tgt (fun c hc => by have := ht c hc; grind)
  refine ⟨hh.1, hh.2, ?_, ?_, projSpec_nodup src tgt 0⟩
  · rw [projSpec_dur src tgt 0 hs ht (by grind)]; grind
  · intro p τ hτ
    have hd := projSpec_den src tgt p 0 hs ht (by grind) τ hτ
    rw [carryAt_early _ _ _ _ (by grind)] at hd
    have e : (0 : Rat) + scoreDuration tgt = scoreDuration tgt := by grind
    rw [hd, e, evMap_ite]

theorem Projected.of_src {src S1 tgt res : Score} (h : Projected S1 tgt res) (hd : scoreDuration S1 = scoreDuration src)
    (hden : ∀ p τ, evMap πr (den none (gather S1 p) 0 τ) = evMap πr (den none (gather src p) 0 τ)) :
    Projected src tgt res := by
  refine ⟨by rw [← hd]; exact h.length, h.headers, by rw [← hd]; exact h.duration, ?_, h.nodup⟩
  intro p τ hτ
  rw [h.rhythm p τ hτ, hd, hden]

theorem Projected.of_res {src tgt X res : Score} (h : Projected src tgt X) (hr : RS πr res X)
    (hh : res.map header = X.map header) : Projected src tgt res := by
  have hl : res.length = X.length := All₂.length hr
  refine ⟨by rw [hl]; exact h.length, by rw [hh, hl]; exact h.headers, by rw [hr.sdur]; exact h.duration, ?_,
    hr.nodup h.nodup⟩
  intro p τ hτ
  rw [hr.denRel p τ, h.rhythm p τ hτ]

theorem projectOnOneChord_offs (s : Score) (oc : Chord) (offs : List Int) (h : projectOnOneChord s = .ok (oc, offs)) :
    offs.length = s.length := by
  cases s with
  | nil => simp [projectOnOneChord] at h
  | cons c0 cs =>
    unfold projectOnOneChord at h
    simp only [] at h
    obtain ⟨o, ho, h⟩ := bind_ok h
    simp only [pure, Except.pure, Except.ok.injEq, Prod.mk.injEq] at h
    obtain ⟨_, rfl⟩ := h
    exact mapM_length _ _ _ ho

theorem projSpec_length_le (src : Score) (tgt : List Chord) (a : Rat) : (projSpec src tgt a).length ≤ tgt.length := by
  induction tgt generalizing a with
  | nil => simp [projSpec]
  | cons c cs ih =>
    simp only [projSpec]
    split
    · simp
    · simp only [List.length_cons]; have := ih (a + c.dur); omega

/-- voice-leading mode (`project_on_score_keep_notes`) -/
theorem projected_keepNotes (src tgt X : Score) (hs : ∀ c ∈ src, EqualParts c) (ht : ∀ c ∈ tgt, 0 < c.dur)
    (h : projectKeepNotes src tgt = .ok X) : Projected src tgt X := by
  unfold projectKeepNotes at h
  obtain ⟨r1, h1, h⟩ := bind_ok h
  obtain ⟨oc, o1⟩ := r1
  obtain ⟨r2, h2, h⟩ := bind_ok h
  obtain ⟨oc2, offs⟩ := r2
  simp only [] at h
  obtain ⟨r3, h3, h⟩ := bind_ok h
  have hoc := (projectOnOneChord_spec src oc o1 hs h1).1
  have hoffs := projectOnOneChord_offs tgt oc2 offs h2
  have hsoc : ∀ c ∈ [oc], EqualParts c := fun c hc => by simp at hc; subst hc; exact hoc.equal
  rw [projectPlain_eq [oc] tgt (fun c hc => (hsoc c hc).wf) (fun c hc => by have := ht c hc; grind)] at h3
  simp only [Except.ok.injEq] at h3
  subst h3
  split at h
  · simp at h
  · rename_i proj hproj
    simp only [pure, Except.pure, Except.ok.injEq] at h
    subst h
    have hp : proj = projSpec [oc] tgt 0 := by
      split at hproj
      · simp at hproj
      · simp at hproj; exact hproj.symm
    subst hp
    have hpl := projected_plain [oc] tgt hsoc ht
    have hd1 : scoreDuration [oc] = scoreDuration src := by rw [sdur_cons, sdur_nil, hoc.dur]; grind
    have hpl2 : Projected src tgt (projSpec [oc] tgt 0) := hpl.of_src hd1 hoc.den
    have hle : (projSpec [oc] tgt 0).length ≤ offs.length := by
      rw [hoffs]; exact projSpec_length_le _ _ _
    exact hpl2.of_res
      (zipMap_rel πr _ _ _ hle (fun c i => chordAnd_rc c (-i)))
      (zipMap_headers _ _ _ hle (fun c i => chordAnd_header c (-i)))


theorem projected_core (S1 tgt X : Score) (f : Flags) (hs : ∀ c ∈ S1, EqualParts c) (ht : ∀ c ∈ tgt, 0 < c.dur)
    (h : stageProject tgt f S1 = .ok (some X)) : Projected S1 tgt X := by
  unfold stageProject at h
  cases hvl : f.voiceLeading with
  | true =>
    simp only [hvl, if_true] at h
    obtain ⟨r, hr, h⟩ := bind_ok h
    simp only [pure, Except.pure, Except.ok.injEq, Option.some.injEq] at h
    subst h
    exact projected_keepNotes S1 tgt r hs ht hr
  | false =>
    simp only [hvl, Bool.false_eq_true, if_false] at h
    rw [projectPlain_eq S1 tgt (fun c hc => (hs c hc).wf) (fun c hc => by have := ht c hc; grind)] at h
    simp only [Except.ok.injEq] at h
    split at h
    · simp at h
    · simp at h; subst h; exact projected_plain S1 tgt hs ht

theorem All₂.refl {α : Type} {R : α → α → Prop} (h : ∀ a, R a a) (l : List α) : All₂ R l l := by
  induction l with
  | nil => exact All₂.nil
  | cons x xs ih => exact All₂.cons (h x) ih

theorem RS.refl {β : Type} (π : Note → β) (s : Score) : RS π s s := by
  apply All₂.refl
  intro c
  show RP π c.parts c.parts
  apply All₂.refl
  intro p
  exact ⟨rfl, All₂.refl (fun _ => ⟨rfl, rfl, rfl⟩) _⟩

/-- the score actually projected: the source, or its absolute re-notation when pitches are kept -/
theorem stageAbsolute_rel (src S0 S1 : Score) (f : Flags) (h : stageAbsolute src f S0 = .ok S1) (h0 : S0 = src) :
    RS πr S1 src := by
  unfold stageAbsolute at h
  cases hkp : f.keepPitch with
  | true => simp only [hkp, if_true] at h; exact (scoreToAbsolute_rel src S1 h).1
  | false =>
    simp only [hkp, Bool.false_eq_true, if_false, Except.ok.injEq] at h
    subst h; subst h0
    exact RS.refl πr _

theorem stageScale_rel (f : Flags) (X res : Score) (h : stageScale f (some X) = .ok (some res)) :
    RS πr res X ∧ res.map header = X.map header := by
  unfold stageScale at h
  cases hkp : f.keepPitch with
  | true =>
    simp only [hkp, if_true] at h
    obtain ⟨R, hR, h⟩ := bind_ok h
    simp only [pure, Except.pure, Except.ok.injEq, Option.some.injEq] at h
    subst h
    exact scoreToScale_rel X R hR
  | false =>
    simp only [hkp, Bool.false_eq_true, if_false, Except.ok.injEq, Option.some.injEq] at h
    subst h
    exact ⟨RS.refl πr _, rfl⟩

theorem stageScale_none (f : Flags) (r : Option Score) (res : Score) (h : stageScale f r = .ok (some res)) :
    ∃ X, r = some X := by
  cases r with
  | some X => exact ⟨X, rfl⟩
  | none =>
    unfold stageScale at h
    cases hkp : f.keepPitch <;> simp [hkp] at h

/-- every projection mode without `keep_score` and without repetition: chords, duration, rhythm -/
theorem projected_all (src tgt res : Score) (f : Flags) (hrep : f.repeatToDuration = false) (hks : f.keepScore = false)
    (hs : ∀ c ∈ src, EqualParts c) (ht : ∀ c ∈ tgt, 0 < c.dur)
    (h : projectOnScore src tgt f = .ok (some res)) : Projected src tgt res := by
  unfold projectOnScore at h
  obtain ⟨S0, h0, hA⟩ := bind_ok h
  obtain ⟨S1, h1, hB⟩ := bind_ok hA
  obtain ⟨r2, h2, hC⟩ := bind_ok hB
  obtain ⟨r3, h3, hD⟩ := bind_ok hC
  clear h hA hB hC
  have e0 : S0 = src := by
    unfold stageRepeat at h0
    simp only [hrep, Bool.false_eq_true, false_and, if_false, Except.ok.injEq] at h0
    exact h0.symm
  have e3 : r3 = r2 := by
    unfold stageKeepScore at h3
    simp only [hks, Bool.false_eq_true, if_false, Except.ok.injEq] at h3
    exact h3.symm
  subst e3
  obtain ⟨X, rfl⟩ := stageScale_none f r3 res hD
  have hrel1 := stageAbsolute_rel src S0 S1 f h1 e0
  have hs1 : ∀ c ∈ S1, EqualParts c := hrel1.symm.equalParts hs
  have hX : Projected S1 tgt X := projected_core S1 tgt X f hs1 ht h2
  have hX2 : Projected src tgt X := hX.of_src hrel1.sdur (fun p τ => hrel1.denRel p τ)
  have hrelR := stageScale_rel f X res hD
  exact hX2.of_res hrelR.1 hrelR.2

end MV.Proj
