/-
Lemmas for C18 about the library transforms (note/basics.py, melody/basics.py): what each action
keeps of a note, termination and range of `LimitRegister.limit`, the circular permutation as a rotation.
-/
import MV.Lemmas.Transform

namespace MV.Transform
open MV Gen

/-! ### TransposeDiatonic -/


theorem transposeDiatonic_keeps (a : Int) (km ka : Bool) :
    KeepsRhythmN (fun n _ => transposeDiatonic a km ka n) := by
  intro n k r h
  obtain ⟨kind, val, oct, dur, mode, acc, amp, tags, tempo, pedal⟩ := n
  cases kind <;> simp [transposeDiatonic, Kind.isRelative, noteCopy, pure, Except.pure] at h
  case s => subst h; cases km <;> cases ka <;> exact ⟨_, rfl, rfl⟩
  case h =>
    obtain ⟨v, _, h⟩ := (bind_eq_ok _ _ _).mp h
    injection h with h
    subst h
    exact ⟨_, rfl, rfl⟩
  all_goals (subst h; exact ⟨_, rfl, rfl⟩)

/-- `Chord.to_pitch` only answers a pitch for a sounding note -/
theorem toPitch_some_sound (c : Chord) (n : Note) (p : Int) (h : c.toPitch n none = .ok (some p)) :
    rclass n.kind = .sound := by
  obtain ⟨kind, val, oct, dur, mode, acc, amp, tags, tempo, pedal⟩ := n
  cases kind <;> simp [Chord.toPitch, Kind.isNote, pure, Except.pure] at h <;> rfl

theorem mapM_mem_kind (c : Chord) (kind : Kind) (l : List Nat) (out : List (List (Int × Note)))
    (h : l.mapM (fun i => do
        let n : Note := { kind := kind, val := (i : Int), oct := 0, dur := 1 }
        match ← c.toPitch n with
        | some p => pure [(p, n)]
        | none => pure []) = .ok out) :
    ∀ x ∈ out.flatten, x.2.kind = kind := by
  induction l generalizing out with
  | nil => simp [List.mapM_nil, pure, Except.pure] at h; subst h; simp
  | cons i l ih =>
      rw [List.mapM_cons] at h
      obtain ⟨a, ha, h⟩ := (bind_eq_ok _ _ _).mp h
      obtain ⟨rest, hrest, h⟩ := (bind_eq_ok _ _ _).mp h
      rw [pure_eq_ok] at h
      subst h
      obtain ⟨q, hq, ha⟩ := (bind_eq_ok _ _ _).mp ha
      intro x hx
      simp only [List.flatten_cons, List.mem_append] at hx
      rcases hx with hx | hx
      · cases q with
        | none => rw [pure_eq_ok] at ha; subst ha; simp at hx
        | some p => rw [pure_eq_ok] at ha; subst ha; simp at hx; subst hx; rfl
      · exact ih rest hrest x hx


/-! ### TransposeChromatic -/
theorem pitchDict_kinds (c : Chord) (d : List (Int × Note)) (h : pitchDictItems c = .ok d) :
    ∀ x ∈ d, x.2.kind = .h ∨ x.2.kind = .s := by
  unfold pitchDictItems at h
  obtain ⟨chrom, hc, h⟩ := (bind_eq_ok _ _ _).mp h
  obtain ⟨diat, hd, h⟩ := (bind_eq_ok _ _ _).mp h
  rw [pure_eq_ok] at h
  subst h
  intro x hx
  rcases List.mem_append.mp hx with hx | hx
  · exact Or.inl (mapM_mem_kind c .h _ _ hc x hx)
  · exact Or.inr (mapM_mem_kind c .s _ _ hd x hx)

theorem lookupKey_mem {κ ν} [BEq κ] (k : κ) (l : List (κ × ν)) (v : ν) (h : lookupKey k l = .ok v) :
    ∃ k', (k', v) ∈ l := by
  unfold lookupKey at h
  split at h
  · rename_i v' hv
    injection h with h
    subst h
    induction l with
    | nil => simp [List.lookup] at hv
    | cons p l ih =>
        obtain ⟨a, b⟩ := p
        simp only [List.lookup] at hv
        split at hv
        · injection hv with hv; subst hv; exact ⟨a, by simp⟩
        · obtain ⟨k', hk'⟩ := ih hv
          exact ⟨k', by simp [hk']⟩
  · cases h

theorem transposeChromatic_keeps (a : Int) : KeepsRhythmN (fun n k => transposeChromatic a n k) := by
  intro n k r h
  simp only [transposeChromatic] at h
  split at h
  · rw [pure_eq_ok] at h; subst h; exact ⟨_, rfl, rhythmOf_copy n⟩
  · split at h
    · cases h
    · rename_i tc _
      obtain ⟨d, hd, h⟩ := (bind_eq_ok _ _ _).mp h
      obtain ⟨q, hq, h⟩ := (bind_eq_ok _ _ _).mp h
      cases q with
      | none => rw [pure_eq_ok] at h; subst h; exact ⟨_, rfl, rhythmOf_copy n⟩
      | some p =>
          obtain ⟨ref, href, h⟩ := (bind_eq_ok _ _ _).mp h
          rw [pure_eq_ok] at h
          subst h
          refine ⟨_, rfl, ?_⟩
          obtain ⟨k', hk'⟩ := lookupKey_mem _ _ _ href
          have hkind := pitchDict_kinds _ _ hd (k', ref) (by simpa using hk')
          have hsound := toPitch_some_sound _ _ _ hq
          have hcopy : (noteCopy n).dur = n.dur := by
            have := rhythmOf_copy n; simp [rhythmOf] at this; exact this.2
          have hok : (ref.o ((p + a) / 12)).kind = ref.kind := by
            have := rhythmOf_o ref ((p + a) / 12)
            obtain ⟨kind, val, oct, dur, mode, acc, amp, tags, tempo, pedal⟩ := ref
            cases kind <;> rfl
          simp only [rhythmOf, hok, hcopy]
          rw [hsound]
          rcases hkind with hk | hk <;> rw [hk] <;> rfl


/-! ### LimitRegister -/


theorem limitFuel_rhythm (L : LimitRegister) (f : Nat) (n n' : Note) (h : limitFuel L f n = .ok n') :
    rhythmOf n' = rhythmOf n := by
  induction f generalizing n with
  | zero => simp [limitFuel] at h
  | succ f ih =>
      rw [limitFuel] at h
      split at h
      · rw [pure_eq_ok] at h; subst h; exact rhythmOf_copy n
      · obtain ⟨sp, _, h⟩ := (bind_eq_ok _ _ _).mp h
        split at h
        · rw [ih _ h, rhythmOf_o]
        · split at h
          · rw [ih _ h, rhythmOf_o]
          · rw [pure_eq_ok] at h; subst h; exact rhythmOf_copy n

theorem limit_keeps (L : LimitRegister) : KeepsRhythmN (fun n _ => do pure (some (← L.limit n))) := by
  intro n k r h
  obtain ⟨n', hn', h⟩ := (bind_eq_ok _ _ _).mp h
  rw [pure_eq_ok] at h
  subst h
  exact ⟨n', rfl, limitFuel_rhythm L _ n n' hn'⟩

theorem scalePitch_o (n : Note) (hk : n.kind = .s ∨ n.kind = .h) (sp : Int) (k : Int)
    (h : scalePitch n = .ok sp) :
    scalePitch (n.o k) = .ok (sp + 7 * k) ∧ ((n.o k).kind = .s ∨ (n.o k).kind = .h) ∧
      (n.o k).val = n.val ∧ (n.o k).kind = n.kind := by
  obtain ⟨kind, val, oct, dur, mode, acc, amp, tags, tempo, pedal⟩ := n
  rcases hk with hk | hk <;> simp only at hk <;> subst hk <;>
    simp [scalePitch, Note.o, Note.oabs, pure, Except.pure] at h ⊢ <;> omega

theorem scalePitch_copy (n : Note) (hk : n.kind = .s ∨ n.kind = .h) : noteCopy n = n := by
  obtain ⟨kind, val, oct, dur, mode, acc, amp, tags, tempo, pedal⟩ := n
  rcases hk with hk | hk <;> simp only at hk <;> subst hk <;> rfl

/-- with a span of at least an octave the recursion of `limit` ends inside the range, having moved the
note by octaves only -/
theorem limitFuel_in_range (L : LimitRegister) (hspan : L.pmax - L.pmin ≥ 7) (f : Nat) (n : Note)
    (hk : n.kind = .s ∨ n.kind = .h) (sp : Int) (hsp : scalePitch n = .ok sp)
    (hf : f ≥ (sp - L.pmax).toNat + (L.pmin - sp).toNat + 1) :
    ∃ n' sp', limitFuel L f n = .ok n' ∧ scalePitch n' = .ok sp' ∧ L.pmin ≤ sp' ∧ sp' ≤ L.pmax ∧
      n'.kind = n.kind ∧ n'.val = n.val := by
  induction f generalizing n sp with
  | zero => omega
  | succ f ih =>
      rw [limitFuel]
      have hnot : ¬ (n.kind ≠ .s ∧ n.kind ≠ .h) := by
        rcases hk with hk | hk <;> simp [hk]
      simp only [hnot, if_false, hsp, bind, Except.bind]
      by_cases h1 : sp > L.pmax
      · simp only [h1, if_true]
        obtain ⟨h2, h3, h4, h5⟩ := scalePitch_o n hk sp (-1) hsp
        obtain ⟨n', sp', ha, hb, hc, hd, he, hg⟩ := ih (n.o (-1)) h3 (sp + 7 * -1) h2 (by omega)
        exact ⟨n', sp', ha, hb, hc, hd, by rw [he, h5], by rw [hg, h4]⟩
      · simp only [h1, if_false]
        by_cases h2 : sp < L.pmin
        · simp only [h2, if_true]
          obtain ⟨h2', h3, h4, h5⟩ := scalePitch_o n hk sp 1 hsp
          obtain ⟨n', sp', ha, hb, hc, hd, he, hg⟩ := ih (n.o 1) h3 (sp + 7 * 1) h2' (by omega)
          exact ⟨n', sp', ha, hb, hc, hd, by rw [he, h5], by rw [hg, h4]⟩
        · simp only [h2, if_false]
          refine ⟨n, sp, ?_, hsp, by omega, by omega, rfl, rfl⟩
          rw [scalePitch_copy n hk]; rfl

theorem limit_in_range (L : LimitRegister) (hspan : L.pmax - L.pmin ≥ 7) (n : Note)
    (hk : n.kind = .s ∨ n.kind = .h) :
    ∃ n' sp', L.limit n = .ok n' ∧ scalePitch n' = .ok sp' ∧ L.pmin ≤ sp' ∧ sp' ≤ L.pmax ∧
      n'.kind = n.kind ∧ n'.val = n.val := by
  have hsp : ∃ sp, scalePitch n = .ok sp := by
    obtain ⟨kind, val, oct, dur, mode, acc, amp, tags, tempo, pedal⟩ := n
    rcases hk with hk | hk <;> simp only at hk <;> subst hk <;> exact ⟨_, rfl⟩
  obtain ⟨sp, hsp⟩ := hsp
  apply limitFuel_in_range L hspan _ n hk sp hsp
  simp [limitFuelFor, hsp]

/-- the constructor only accepts a span of at least seven scale steps -/
theorem make_span (a b : Note) (L : LimitRegister) (h : LimitRegister.make a b = .ok L) : L.pmax - L.pmin ≥ 7 := by
  unfold LimitRegister.make at h
  obtain ⟨pb, _, h⟩ := (bind_eq_ok _ _ _).mp h
  obtain ⟨pa, _, h⟩ := (bind_eq_ok _ _ _).mp h
  split at h
  · cases h
  · rw [pure_eq_ok] at h; subst h; simp only; omega


/-! ### melody transforms -/

theorem rhythmOf_setVal (n : Note) (v : Int) : rhythmOf (noteSetVal n v) = rhythmOf n := by
  obtain ⟨kind, val, oct, dur, mode, acc, amp, tags, tempo, pedal⟩ := n
  cases kind <;> rfl

theorem invertMelody_rhythm (m m' : TMelody) (h : invertMelody m = .ok m') : m'.rhythm = m.rhythm := by
  unfold invertMelody at h
  obtain ⟨first, _, h⟩ := (bind_eq_ok _ _ _).mp h
  rw [pure_eq_ok] at h
  subst h
  simp [TMelody.rhythm, List.map_map, Function.comp_def, rhythmOf_setVal]

theorem invertMelody_tags (m m' : TMelody) (h : invertMelody m = .ok m') : m'.tags = m.tags := by
  unfold invertMelody at h
  obtain ⟨first, _, h⟩ := (bind_eq_ok _ _ _).mp h
  rw [pure_eq_ok] at h
  subst h
  rfl

theorem reverseMelody_rhythm (m : TMelody) : (reverseMelody m).rhythm = m.rhythm.reverse := by
  simp [reverseMelody, TMelody.rhythm]


/-- the `mapM` of `CircularPermutationMelody` reads the notes at indices `(i + n) % len` -/
theorem mapM_pyIndex (notes : List Note) (n : Int) (l : List Nat) (hl : ∀ i ∈ l, i < notes.length)
    (d : Note) :
    l.mapM (fun (i : Nat) => pyIndex notes (((i : Int) + n) % (notes.length : Int)))
      = .ok (l.map (fun (i : Nat) => notes.getD (((i : Int) + n) % (notes.length : Int)).toNat d)) := by
  induction l with
  | nil => rfl
  | cons i l ih =>
      have hi : i < notes.length := hl i (by simp)
      have hpos : (0 : Int) < notes.length := by omega
      have h0 : 0 ≤ ((i : Int) + n) % (notes.length : Int) := Int.emod_nonneg _ (by omega)
      have h1 : ((i : Int) + n) % (notes.length : Int) < notes.length := Int.emod_lt_of_pos _ hpos
      rw [List.mapM_cons, ih (fun j hj => hl j (by simp [hj]))]
      unfold pyIndex
      have h2 : ¬ (((i : Int) + n) % (notes.length : Int) < 0) := by omega
      have h1' : ¬ ((notes.length : Int) ≤ ((i : Int) + n) % (notes.length : Int)) := by omega
      have h3 : (((i : Int) + n) % (notes.length : Int)).toNat < notes.length := by omega
      simp [h2, h1', List.getD_eq_getElem?_getD, List.getElem?_eq_getElem h3, bind, Except.bind, pure, Except.pure]

theorem rot_eq (notes : List Note) (r : Nat) (hr : r < notes.length) (d : Note) :
    (List.range notes.length).map (fun i => notes.getD ((i + r) % notes.length) d)
      = notes.drop r ++ notes.take r := by
  apply List.ext_getElem?
  intro j
  rw [List.getElem?_map, List.getElem?_append]
  by_cases hj : j < notes.length
  · rw [List.getElem?_range hj]
    by_cases h1 : j < (notes.drop r).length
    · simp only [h1, if_true, Option.map_some, List.getElem?_drop]
      have hlen : (notes.drop r).length = notes.length - r := by simp
      have : (j + r) % notes.length = r + j := by rw [Nat.mod_eq_of_lt (by omega)]; omega
      rw [this, List.getD_eq_getElem?_getD, List.getElem?_eq_getElem (by omega)]
      simp
    · simp only [h1, if_false, Option.map_some]
      have hlen : (notes.drop r).length = notes.length - r := by simp
      rw [hlen, List.getElem?_take]
      have h3 : j - (notes.length - r) < r := by omega
      simp only [h3, if_true]
      have : (j + r) % notes.length = j - (notes.length - r) := by
        have : j + r = (j - (notes.length - r)) + notes.length := by omega
        rw [this, Nat.add_mod_right, Nat.mod_eq_of_lt (by omega)]
      rw [this, List.getD_eq_getElem?_getD, List.getElem?_eq_getElem (by omega)]
      simp
  · have hlen : (notes.drop r).length = notes.length - r := by simp
    have h1 : ¬ j < notes.length - r := by omega
    rw [hlen, List.getElem?_eq_none (by simp; omega)]
    simp only [h1, if_false, Option.map_none]
    rw [List.getElem?_eq_none (by simp; omega)]

theorem circularPermutation_perm (n : Int) (m m' : TMelody) (h : circularPermutation n m = .ok m') :
    m'.notes.Perm m.notes ∧ m'.tags = m.tags := by
  unfold circularPermutation at h
  obtain ⟨notes, hn, h⟩ := (bind_eq_ok _ _ _).mp h
  rw [pure_eq_ok] at h
  subst h
  refine ⟨?_, rfl⟩
  simp only
  by_cases hz : m.notes.length = 0
  · have : m.notes = [] := List.eq_nil_of_length_eq_zero hz
    rw [this] at hn ⊢
    simp [List.mapM_nil, pure, Except.pure] at hn
    subst hn
    exact List.Perm.refl _
  · have d : Note := default
    rw [mapM_pyIndex m.notes n _ (fun i hi => by simpa using hi) d] at hn
    injection hn with hn
    subst hn
    have hpos : (0 : Int) < m.notes.length := by omega
    let r := (n % (m.notes.length : Int)).toNat
    have hr : r < m.notes.length := by
      have := Int.emod_lt_of_pos n hpos
      have := Int.emod_nonneg n (by omega : (m.notes.length : Int) ≠ 0)
      omega
    have hfun : (fun (i : Nat) => m.notes.getD (((i : Int) + n) % (m.notes.length : Int)).toNat d)
        = (fun i => m.notes.getD ((i + r) % m.notes.length) d) := by
      funext i
      congr 1
      have h0 := Int.emod_nonneg n (by omega : (m.notes.length : Int) ≠ 0)
      have : ((i : Int) + n) % (m.notes.length : Int) = (((i + r : Nat) : Int)) % (m.notes.length : Int) := by
        have hr' : ((r : Nat) : Int) = n % (m.notes.length : Int) := by omega
        rw [Int.natCast_add, hr', Int.add_emod_emod]
      rw [this]
      omega
    rw [hfun, rot_eq m.notes r hr d]
    have := List.take_append_drop r m.notes
    exact List.perm_append_comm.trans (by rw [this])


theorem circularPermutation_total (n : Int) (m : TMelody) : ∃ m', circularPermutation n m = .ok m' := by
  by_cases hz : m.notes.length = 0
  · have : m.notes = [] := List.eq_nil_of_length_eq_zero hz
    exact ⟨{ notes := [], tags := m.tags }, by
      simp [circularPermutation, this, List.mapM_nil, pure, Except.pure, bind, Except.bind]⟩
  · simp only [circularPermutation]
    rw [mapM_pyIndex m.notes n (List.range m.notes.length) (fun i hi => by simpa using hi) default]
    exact ⟨_, rfl⟩

end MV.Transform
