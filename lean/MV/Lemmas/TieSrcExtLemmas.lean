/-
Helper lemmas for the source tie of group `SrcExt` (DESIGN.md §9.6, `MV/Props/TieSrcExt.lean`): the generated image of
`Chord._chord_notes_calc` (three `foldlM` loops over tuples of Python lists, a dict keyed by notes, the final
`sorted(..., key=self.to_pitch)`) against the model's recursions `calcReplacements` / `calcAdditions` / `calcRemovals`
of `MV/Model/Pitch.lean`.

Shape of the argument: `calc_unfold` splits the generated definition into its three loop bodies (`replStep`, `addStep`,
`remStep`, written here exactly as py2lean emits them; the equation is `rfl`, so renaming Python locals is harmless);
`repl_loop`, `add_loop`, `rem_loop` are inductions relating each fold to the model's recursion through `RelRes`
(same error, or results related by `R1` / `R2`: same `notes`, same `notes_without_octave`, equal length — which is what
keeps Python's index-assignment / `pop` in range — and dicts that answer every lookup alike); `sorted_table` shows that the
Python `sorted` with `to_pitch` keys is the model's "check the keys, then stable sort" on notes of the tables.
-/
import MV.Gen.SrcExt
import MV.Lemmas.Pcs

set_option linter.unusedSimpArgs false
namespace MV.TieExt
open MV Gen

/-! ### Python list surgery at natural-number indices -/

theorem normIdx_nat (n i : Nat) (h : i < n) : PyL.normIdx n (i : Int) = some i := by
  unfold PyL.normIdx
  have h1 : ¬ ((i : Int) < 0) := by omega
  have h2 : ¬ ((i : Int) ≥ (n : Int)) := by omega
  simp only [h1, if_false, false_or, h2, Int.toNat_natCast]

theorem pyIndex_nat {α : Type} (l : List α) (i : Nat) (h : i < l.length) : pyIndex l (i : Int) = .ok l[i] := by
  unfold pyIndex
  have h1 : ¬ ((i : Int) < 0) := by omega
  have h2 : ¬ ((i : Int) ≥ (l.length : Int)) := by omega
  simp only [h1, if_false, false_or, h2, Int.toNat_natCast, List.getElem?_eq_getElem h]

theorem setItem_nat {α : Type} (l : List α) (i : Nat) (v : α) (h : i < l.length) :
    PyL.setItem l (i : Int) v = .ok (l.set i v) := by
  unfold PyL.setItem; rw [normIdx_nat _ _ h]

theorem popAt_nat {α : Type} (l : List α) (i : Nat) (h : i < l.length) :
    PyL.popAt l (i : Int) = .ok (l.eraseIdx i) := by
  unfold PyL.popAt; rw [normIdx_nat _ _ h]

theorem insert_nat {α : Type} (l : List α) (i : Nat) (v : α) (h : i ≤ l.length) :
    PyL.insert l (i : Int) v = l.insertIdx i v := by
  unfold PyL.insert Py.clampIdx
  have h1 : ¬ ((i : Int) < 0) := by omega
  have h2 : ¬ ((i : Int) > (l.length : Int)) := by omega
  simp only [h1, if_false, h2, Int.toNat_natCast]

theorem containsBy_eq {α : Type} (eq : α → α → Bool) (l : List α) (x : α) :
    PyL.containsBy eq l x = (l.findIdx? (fun y => eq y x)).isSome := by
  unfold PyL.containsBy
  induction l with
  | nil => rfl
  | cons y ys ih =>
    rw [List.any_cons, List.findIdx?_cons, ih]
    cases h : eq y x
    · simp only [Bool.false_or, Bool.false_eq_true, if_false, Option.isSome_map]
    · simp only [Bool.true_or, if_true, Option.isSome_some]


/-! ### `Note.__eq__` is an equivalence; dicts keyed by notes -/

theorem pyEq_iff (a b : Note) :
    a.pyEq b = true ↔ a.kind = b.kind ∧ a.val = b.val ∧ a.dur = b.dur ∧ a.oct = b.oct ∧ a.mode = b.mode := by
  unfold Note.pyEq
  simp only [Bool.and_eq_true, beq_iff_eq, and_assoc]

theorem pyEq_left (k k' x : Note) (h : k.pyEq k' = true) : x.pyEq k = x.pyEq k' := by
  rw [Bool.eq_iff_iff, pyEq_iff, pyEq_iff]
  obtain ⟨h1, h2, h3, h4, h5⟩ := (pyEq_iff _ _).mp h
  rw [h1, h2, h3, h4, h5]

theorem pyEq_both (k k' x : Note) (h1 : x.pyEq k = true) (h2 : x.pyEq k' = true) : k.pyEq k' = true := by
  rw [pyEq_iff] at *
  obtain ⟨a1, a2, a3, a4, a5⟩ := h1
  obtain ⟨b1, b2, b3, b4, b5⟩ := h2
  exact ⟨a1 ▸ b1, a2 ▸ b2, a3 ▸ b3, a4 ▸ b4, a5 ▸ b5⟩

/-- the value a dict keyed by notes holds for `k` (both the source image's association list and the model's
`CalcState.replaced` are read this way) -/
def lk (d : List (Note × Note)) (k : Note) : Option Note := (d.find? (fun p => p.1.pyEq k)).map (·.2)

theorem lk_dictSet (d : List (Note × Note)) (k v k' : Note) :
    lk (PyL.dictSet (fun (a b : Note) => a.pyEq b) d k v) k' = if k.pyEq k' = true then some v else lk d k' := by
  induction d with
  | nil =>
    simp only [PyL.dictSet, lk, List.find?_cons, List.find?_nil]
    cases k.pyEq k' <;> rfl
  | cons p ps ih =>
    simp only [PyL.dictSet]
    by_cases hp : p.1.pyEq k = true
    · simp only [hp, if_true]
      by_cases hk : k.pyEq k' = true
      · have : p.1.pyEq k' = true := by rw [← pyEq_left k k' p.1 hk]; exact hp
        simp only [lk, List.find?_cons, this, hk, if_true, Option.map_some]
      · have : p.1.pyEq k' = false := by
          cases h : p.1.pyEq k' with
          | false => rfl
          | true => exact absurd (pyEq_both k k' p.1 hp h) hk
        simp only [lk, List.find?_cons, this, hk, if_false]
        rfl
    · have hp' : p.1.pyEq k = false := by simpa using hp
      simp only [hp', Bool.false_eq_true, if_false]
      by_cases hq : p.1.pyEq k' = true
      · have hk : ¬ k.pyEq k' = true := by
          intro hk; rw [← pyEq_left k k' p.1 hk] at hq; exact hp hq
        simp only [lk, List.find?_cons, hq, hk, if_false]
        rfl
      · have hq' : p.1.pyEq k' = false := by simpa using hq
        have e1 : lk (p :: PyL.dictSet (fun (a b : Note) => a.pyEq b) ps k v) k'
            = lk (PyL.dictSet (fun (a b : Note) => a.pyEq b) ps k v) k' := by
          simp only [lk, List.find?_cons, hq']
        have e2 : lk (p :: ps) k' = lk ps k' := by simp only [lk, List.find?_cons, hq']
        rw [e1, e2, ih]

theorem lk_cons_filter (d : List (Note × Note)) (k v k' : Note) :
    lk ((k, v) :: d.filter (fun p => !(p.1.pyEq k))) k' = if k.pyEq k' = true then some v else lk d k' := by
  by_cases hk : k.pyEq k' = true
  · simp only [lk, List.find?_cons, hk, if_true, Option.map_some]
  · have hk' : k.pyEq k' = false := by simpa using hk
    simp only [lk, List.find?_cons, hk', hk, if_false]
    congr 1
    induction d with
    | nil => rfl
    | cons p ps ih =>
      by_cases hp : p.1.pyEq k = true
      · have : p.1.pyEq k' = false := by
          cases h : p.1.pyEq k' with
          | false => rfl
          | true => exact absurd (pyEq_both k k' p.1 hp h) hk
        simp only [List.filter_cons, hp, Bool.not_true, Bool.false_eq_true, if_false, List.find?_cons, this]
        exact ih
      · have hp' : p.1.pyEq k = false := by simpa using hp
        simp only [List.filter_cons, hp', Bool.not_false, if_true, List.find?_cons]
        cases p.1.pyEq k' with
        | true => rfl
        | false => exact ih

theorem containsBy_keys (d : List (Note × Note)) (k : Note) :
    PyL.containsBy (fun (a b : Note) => a.pyEq b) (d.map (fun p => p.1)) k = (lk d k).isSome := by
  unfold PyL.containsBy lk
  induction d with
  | nil => rfl
  | cons p ps ih =>
    simp only [List.map_cons, List.any_cons, List.find?_cons]
    cases p.1.pyEq k with
    | true => rfl
    | false => simpa using ih

theorem dictGet_lk (d : List (Note × Note)) (k : Note) :
    PyL.dictGet (fun (a b : Note) => a.pyEq b) d k = (match lk d k with | some v => .ok v | none => .error .key) := by
  unfold PyL.dictGet lk
  cases d.find? (fun p => p.1.pyEq k) <;> rfl

abbrev eqN : Note → Note → Bool := fun (a b : Note) => Note.pyEq a b

abbrev St1 := List Note × List Note × List (Note × Note) × List String
abbrev St2 := List Note × List Note

/-- body of the first loop of `_chord_notes_calc` as py2lean generates it -/
def replStep (st : St1) (replacement : String) : Res St1 := do
  let notes := st.1
  let nwo := st.2.1
  let dict := st.2.2.1
  let additions := st.2.2.2
  let t_2 ← lookupKey replacement Gen.DICT_REPLACEMENT
  let note_replaced := t_2.1
  let new_note := t_2.2
  if (!(PyL.containsBy eqN nwo note_replaced)) then
    pure (notes, nwo, dict, additions ++ [replacement])
  else
    let t_4 ← PyL.indexBy eqN nwo note_replaced
    let t_5 ← pyIndex notes t_4
    let t_6 ← PyL.setItem notes t_4 (Note.o new_note t_5.oct)
    let t_7 ← PyL.setItem nwo t_4 (Note.o new_note (-new_note.oct))
    let t_8 ← pyIndex t_7 t_4
    pure (t_6, t_7, PyL.dictSet eqN dict note_replaced t_8, additions)

def addStep (dict : List (Note × Note)) (st : St2) (addition : String) : Res St2 := do
  let notes := st.1
  let nwo := st.2
  let t_10 ← lookupKey addition Gen.DICT_ADDITION
  let note_after := t_10.1
  let new_note := t_10.2
  if (PyL.containsBy eqN (dict.map (fun p => p.1)) note_after) then
    let t_12 ← PyL.dictGet eqN dict note_after
    let t_13 ← PyL.indexBy eqN nwo t_12
    let idx : Int := (t_13 + (1 : Int))
    let new_note := (Note.o new_note note_after.oct)
    pure (PyL.insert notes idx new_note, PyL.insert nwo idx (Note.o new_note (-new_note.oct)))
  else
    let t_14 ← PyL.indexBy eqN nwo note_after
    let idx : Int := (t_14 + (1 : Int))
    let new_note := (Note.o new_note note_after.oct)
    pure (PyL.insert notes idx new_note, PyL.insert nwo idx (Note.o new_note (-new_note.oct)))

def remStep (st : St2) (removal : String) : Res St2 := do
  let notes := st.1
  let nwo := st.2
  let t_16 ← lookupKey removal Gen.DICT_REMOVAL
  let t_17 ← PyL.indexBy eqN (nwo.reverse) t_16
  let idx : Int := (((Py.len notes) - t_17) - (1 : Int))
  let t_18 ← PyL.popAt notes idx
  let t_19 ← PyL.popAt nwo idx
  pure (t_18, t_19)

theorem calc_unfold (c : Chord) (s : String) (r a m : List String) :
    Src.Chord_chord_notes_calc c s r a m = (do
      let base ← Src.baseExt s
      let st1 ← r.foldlM replStep (base, base.map (fun n => Note.o n (-n.oct)), [], a)
      let st2 ← st1.2.2.2.foldlM (addStep st1.2.2.1) (st1.1, st1.2.1)
      let st3 ← m.foldlM remStep st2
      let t_22 ← PyL.sortedByOptKey (fun (x : Note) => do let t_21 ← Chord.toPitch c x none; pure t_21) st3.1
      let notes : List Note := t_22
      pure notes) := by
  rfl

/-! ### the three loops: generated folds = the model's recursions -/

def RelRes {α β : Type} (R : α → β → Prop) : Res α → Res β → Prop
  | .ok a, .ok b => R a b
  | .error e, .error e' => e = e'
  | _, _ => False

theorem relRes_eq {α : Type} (x y : Res α) (h : RelRes Eq x y) : x = y := by
  cases x <;> cases y <;> simp_all [RelRes]

theorem relRes_bind {α β γ δ : Type} (R : α → β → Prop) (S : γ → δ → Prop) (x : Res α) (y : Res β)
    (f : α → Res γ) (g : β → Res δ) (h : RelRes R x y) (hf : ∀ a b, R a b → RelRes S (f a) (g b)) :
    RelRes S (x >>= f) (y >>= g) := by
  cases x <;> cases y <;> simp_all [RelRes, bind, Except.bind]

def R1 (s : St1) (p : CalcState × List String) : Prop :=
  s.1 = p.1.notes ∧ s.2.1 = p.1.nwo ∧ s.2.2.2 = p.2 ∧ (∀ k, lk s.2.2.1 k = lk p.1.replaced k) ∧
    p.1.notes.length = p.1.nwo.length

theorem repl_loop (rs : List String) : ∀ (s : St1) (st : CalcState) (adds : List String), R1 s (st, adds) →
    RelRes R1 (rs.foldlM replStep s) (calcReplacements rs st adds) := by
  induction rs with
  | nil => intro s st adds h; exact h
  | cons r rs ih =>
    intro s st adds hR
    obtain ⟨notes, nwo, dict, adds0⟩ := s
    obtain ⟨h1, h2, h3, h4, h5⟩ := hR
    simp only at h1 h2 h3 h4 h5
    subst h1 h2 h3
    rw [List.foldlM_cons]
    unfold calcReplacements
    cases hl : lookupKey r DICT_REPLACEMENT with
    | error e => simp only [replStep, hl, bind, Except.bind, RelRes]
    | ok v =>
      obtain ⟨rn, nn⟩ := v
      simp only [replStep, hl, bind, Except.bind, containsBy_eq, PyL.indexBy, idxOfPy, eqN]
      cases hi : List.findIdx? (fun y => y.pyEq rn) st.nwo with
      | none =>
        simp only [Option.isSome_none, Bool.not_false, if_true, pure, Except.pure]
        exact ih _ _ _ ⟨rfl, rfl, rfl, h4, h5⟩
      | some i =>
        have hlt : i < st.nwo.length := (List.findIdx?_eq_some_iff_getElem.mp hi).1
        have hlt' : i < st.notes.length := by omega
        have hlt2 : i < (st.nwo.set i (nn.o (-nn.oct))).length := by rw [List.length_set]; exact hlt
        simp only [Option.isSome_some, Bool.not_true, Bool.false_eq_true, if_false, pyIndex_nat _ _ hlt',
          setItem_nat _ _ _ hlt', setItem_nat _ _ _ hlt, pyIndex_nat _ _ hlt2, List.getElem_set_self, pure, Except.pure]
        apply ih
        refine ⟨?_, rfl, rfl, ?_, ?_⟩
        · simp only [List.getElem?_eq_getElem hlt', Option.getD_some]
        · intro k
          simp only
          rw [lk_dictSet, lk_cons_filter, h4]
        · simp only [List.length_set]; exact h5


def R2 (s : St2) (st : CalcState) : Prop := s.1 = st.notes ∧ s.2 = st.nwo ∧ st.notes.length = st.nwo.length

theorem add_loop (as : List String) : ∀ (dict : List (Note × Note)) (s : St2) (st : CalcState), R2 s st →
    (∀ k, lk dict k = lk st.replaced k) → RelRes R2 (as.foldlM (addStep dict) s) (calcAdditions as st) := by
  induction as with
  | nil => intro dict s st h _; exact h
  | cons a as ih =>
    intro dict s st hR hd
    obtain ⟨notes, nwo⟩ := s
    obtain ⟨h1, h2, h5⟩ := hR
    simp only at h1 h2
    subst h1 h2
    rw [List.foldlM_cons]
    unfold calcAdditions
    cases hl : lookupKey a DICT_ADDITION with
    | error e => simp only [addStep, hl, bind, Except.bind, RelRes]
    | ok v =>
      obtain ⟨na, nn⟩ := v
      have hq : ∀ (q : Note), RelRes R2
          ((do let t ← PyL.indexBy eqN st.nwo q
               pure (PyL.insert st.notes (t + 1) (nn.o na.oct),
                     PyL.insert st.nwo (t + 1) ((nn.o na.oct).o (-(nn.o na.oct).oct))) : Res St2)
            >>= fun s' => List.foldlM (addStep dict) s' as)
          (match idxOfPy q st.nwo with
           | none => .error .value
           | some i => calcAdditions as { st with notes := st.notes.insertIdx (i + 1) (nn.o na.oct),
                                                  nwo := st.nwo.insertIdx (i + 1) ((nn.o na.oct).o (-(nn.o na.oct).oct)) }) := by
        intro q
        simp only [PyL.indexBy, idxOfPy, eqN, bind, Except.bind]
        cases hi : List.findIdx? (fun y => y.pyEq q) st.nwo with
        | none => simp only [RelRes]
        | some i =>
          have hlt : i < st.nwo.length := (List.findIdx?_eq_some_iff_getElem.mp hi).1
          have e1 : ((i : Int) + 1) = ((i + 1 : Nat) : Int) := by omega
          simp only [pure, Except.pure, e1, insert_nat _ _ _ (show i + 1 ≤ st.notes.length by omega),
            insert_nat _ _ _ (show i + 1 ≤ st.nwo.length by omega)]
          apply ih
          · refine ⟨rfl, rfl, ?_⟩
            simp only [List.length_insertIdx]
            have : i + 1 ≤ st.notes.length := by omega
            have : i + 1 ≤ st.nwo.length := by omega
            simp only [*, if_true]
          · exact hd
      have hk := hd na
      simp only [bind, Except.bind] at hq
      simp only [addStep, hl, containsBy_keys, dictGet_lk, hk, bind, Except.bind]
      unfold lk
      cases hf : List.find? (fun p => p.1.pyEq na) st.replaced with
      | none =>
        simp only [Option.map_none, Option.isSome_none, Bool.false_eq_true, if_false]
        exact hq na
      | some p =>
        simp only [Option.map_some, Option.isSome_some, if_true]
        exact hq p.2


theorem rem_loop (rs : List String) : ∀ (s : St2) (st : CalcState), R2 s st →
    RelRes R2 (rs.foldlM remStep s) (calcRemovals rs st) := by
  induction rs with
  | nil => intro s st h; exact h
  | cons r rs ih =>
    intro s st hR
    obtain ⟨notes, nwo⟩ := s
    obtain ⟨h1, h2, h5⟩ := hR
    simp only at h1 h2
    subst h1 h2
    rw [List.foldlM_cons]
    unfold calcRemovals
    cases hl : lookupKey r DICT_REMOVAL with
    | error e => simp only [remStep, hl, bind, Except.bind, RelRes]
    | ok removed =>
      simp only [remStep, hl, bind, Except.bind, PyL.indexBy, idxOfPy, eqN]
      cases hi : List.findIdx? (fun y => y.pyEq removed) st.nwo.reverse with
      | none => simp only [RelRes]
      | some i =>
        have hlt : i < st.nwo.length := by
          have := (List.findIdx?_eq_some_iff_getElem.mp hi).1
          simpa using this
        have e1 : (Py.len st.notes - (i : Int) - 1) = ((st.notes.length - i - 1 : Nat) : Int) := by
          unfold Py.len; omega
        simp only [e1, popAt_nat _ _ (show st.notes.length - i - 1 < st.notes.length by omega),
          popAt_nat _ _ (show st.notes.length - i - 1 < st.nwo.length by omega), pure, Except.pure]
        apply ih
        refine ⟨rfl, rfl, ?_⟩
        simp only [List.length_eraseIdx]
        have : st.notes.length - i - 1 < st.notes.length := by omega
        have : st.notes.length - i - 1 < st.nwo.length := by omega
        simp only [*, if_true]


/-! ### the final `sorted(notes, key=self.to_pitch)` -/

theorem toPitch_table (c : Chord) (n : Note) (h : TableNote n) : c.toPitch n none = basicPitch c n := by
  unfold Chord.toPitch noteToPitch
  rcases h with h | h <;> simp [h, Kind.isNote, Kind.isRelative]

theorem basicPitch_table (c : Chord) (n : Note) (h : TableNote n) :
    basicPitch c n = (do let p ← reqPitch c n; pure (some p)) := by
  unfold reqPitch basicPitch
  rcases h with h | h
  · simp only [h]
    cases n.acc with
    | none => simp only; cases valueToScale (n.val + 7 * n.oct) (n.realChord c).scalePitches <;> rfl
    | some a => simp only; cases withAccident n a (n.realChord c) <;> rfl
  · simp only [h]
    cases pyIndex (n.realChord c).scalePitches 0 with
    | error e => rfl
    | ok root =>
      simp only [bind, Except.bind]
      cases valueToScale (n.val + 12 * n.oct) (List.map (fun (i : Nat) => root + Int.ofNat i) (List.range 12)) <;> rfl

theorem pitchKey_of_req (c : Chord) (n : Note) (h : TableNote n) (p : Int) (hp : reqPitch c n = .ok p) :
    pitchKey c n = p := by
  unfold pitchKey
  rw [basicPitch_table c n h, hp]; rfl

theorem mapM_keys (c : Chord) (f : Note → Res (Option Int)) (l : List Note) (hl : ∀ n ∈ l, TableNote n)
    (hf : ∀ n ∈ l, f n = basicPitch c n) :
    l.mapM (fun x => do let k ← f x; pure (x, k)) =
      (do let _ ← l.mapM (reqPitch c); pure (l.map (fun x => (x, some (pitchKey c x))))) := by
  induction l with
  | nil => rfl
  | cons x xs ih =>
    have hx := hl x (List.mem_cons_self ..)
    rw [List.mapM_cons, List.mapM_cons, hf x (List.mem_cons_self ..), basicPitch_table c x hx,
      ih (fun n hn => hl n (List.mem_cons_of_mem _ hn)) (fun n hn => hf n (List.mem_cons_of_mem _ hn))]
    cases hp : reqPitch c x with
    | error e => rfl
    | ok p =>
      simp only [List.map_cons, pitchKey_of_req c x hx p hp]
      cases xs.mapM (reqPitch c) <;> rfl

theorem allKeys_some {α : Type} (k : α → Int) (l : List α) :
    PyL.allKeys (l.map (fun x => (x, some (k x)))) = some (l.map (fun x => (x, k x))) := by
  induction l with
  | nil => rfl
  | cons x xs ih => simp only [List.map_cons, PyL.allKeys, ih, Option.map_some]

theorem insertFront_dec {α : Type} (k : α → Int) (x : α) (acc : List α) :
    sortByKey.insertFront (fun (p : α × Int) => p.2) (x, k x) (acc.map (fun x => (x, k x)))
      = (sortByKey.insertFront k x acc).map (fun x => (x, k x)) := by
  induction acc with
  | nil => rfl
  | cons y ys ih =>
    simp only [List.map_cons, sortByKey.insertFront]
    by_cases h : k x ≤ k y
    · simp only [h, if_true, List.map_cons]
    · simp only [h, if_false, List.map_cons, ih]

theorem sortByKey_dec {α : Type} (k : α → Int) (l : List α) :
    (sortByKey (fun (p : α × Int) => p.2) (l.map (fun x => (x, k x)))).map (fun p => p.1) = sortByKey k l := by
  have h : sortByKey (fun (p : α × Int) => p.2) (l.map (fun x => (x, k x))) = (sortByKey k l).map (fun x => (x, k x)) := by
    induction l with
    | nil => rfl
    | cons x xs ih =>
      unfold sortByKey at ih ⊢
      simp only [List.map_cons, List.foldr_cons, ih, insertFront_dec]
  rw [h, List.map_map]
  exact List.map_id _

theorem sortByKey_short {α : Type} (k : α → Int) (l : List α) (h : l.length ≤ 1) : sortByKey k l = l := by
  match l, h with
  | [], _ => rfl
  | [x], _ => rfl

theorem sorted_table (c : Chord) (f : Note → Res (Option Int)) (l : List Note) (hl : ∀ n ∈ l, TableNote n)
    (hf : ∀ n ∈ l, f n = basicPitch c n) :
    PyL.sortedByOptKey f l = (do let _ ← l.mapM (reqPitch c); pure (sortByKey (pitchKey c) l)) := by
  unfold PyL.sortedByOptKey
  rw [mapM_keys c f l hl hf]
  cases l.mapM (reqPitch c) with
  | error e => rfl
  | ok ps =>
    simp only [bind, Except.bind, pure, Except.pure, List.length_map, allKeys_some, sortByKey_dec]
    by_cases h : l.length ≤ 1
    · simp only [h, if_true, sortByKey_short _ _ h]
    · simp only [h, if_false]


/-! ### `_chord_notes_calc` -/

/-- the model's `chordNotesCalc` with the figure given as text, as the Python function receives it -/
def calcOfText (c : Chord) (s : String) (r a m : List String) : Res (List Note) :=
  match Fig.ofStr? s with
  | some f => c.chordNotesCalc f r a m
  | none => .error .key

theorem calc_src (c : Chord) (s : String) (r a m : List String) :
    Src.Chord_chord_notes_calc c s r a m = calcOfText c s r a m := by
  rw [calc_unfold]
  unfold calcOfText Src.baseExt
  cases Fig.ofStr? s with
  | none => rfl
  | some f =>
    unfold Chord.chordNotesCalc
    simp only
    cases hb : BASE_EXTENSION_DICT f with
    | none => rfl
    | some base =>
      simp only [bind, Except.bind, pure, Except.pure]
      have t0 : ∀ n ∈ ({ notes := base, nwo := base.map noOct } : CalcState).notes, TableNote n :=
        tables_are_tableNotes.1 f base hb
      have L1 := repl_loop r (base, base.map (fun n => Note.o n (-n.oct)), [], a) { notes := base, nwo := base.map noOct } a
        ⟨rfl, rfl, rfl, fun _ => rfl, by simp⟩
      cases hx : List.foldlM replStep (base, base.map (fun n => Note.o n (-n.oct)), [], a) r with
      | error e =>
        cases hy : calcReplacements r { notes := base, nwo := base.map noOct } a with
        | error e' => rw [hx, hy] at L1; simp only [RelRes] at L1; rw [L1]
        | ok v => rw [hx, hy] at L1; exact absurd L1 (by simp [RelRes])
      | ok s1 =>
        cases hy : calcReplacements r { notes := base, nwo := base.map noOct } a with
        | error e' => rw [hx, hy] at L1; exact absurd L1 (by simp [RelRes])
        | ok v =>
          obtain ⟨st1, adds1⟩ := v
          rw [hx, hy] at L1
          obtain ⟨n1, n2, n3, n4, n5⟩ := L1
          simp only at n1 n2 n3 n4 n5 ⊢
          have t1 := calcReplacements_table r _ a st1 adds1 t0 hy
          have L2 := add_loop s1.2.2.2 s1.2.2.1 (s1.1, s1.2.1) st1 ⟨n1, n2, n5⟩ n4
          rw [n3] at L2 ⊢
          cases hx2 : List.foldlM (addStep s1.2.2.1) (s1.1, s1.2.1) adds1 with
          | error e =>
            cases hy2 : calcAdditions adds1 st1 with
            | error e' => rw [hx2, hy2] at L2; simp only [RelRes] at L2; rw [L2]
            | ok v => rw [hx2, hy2] at L2; exact absurd L2 (by simp [RelRes])
          | ok s2 =>
            cases hy2 : calcAdditions adds1 st1 with
            | error e' => rw [hx2, hy2] at L2; exact absurd L2 (by simp [RelRes])
            | ok st2 =>
              rw [hx2, hy2] at L2
              have t2 := calcAdditions_table adds1 st1 st2 t1 hy2
              have L3 := rem_loop m s2 st2 L2
              simp only
              cases hx3 : List.foldlM remStep s2 m with
              | error e =>
                cases hy3 : calcRemovals m st2 with
                | error e' => rw [hx3, hy3] at L3; simp only [RelRes] at L3; rw [L3]
                | ok v => rw [hx3, hy3] at L3; exact absurd L3 (by simp [RelRes])
              | ok s3 =>
                cases hy3 : calcRemovals m st2 with
                | error e' => rw [hx3, hy3] at L3; exact absurd L3 (by simp [RelRes])
                | ok st3 =>
                  rw [hx3, hy3] at L3
                  have t3 := calcRemovals_table m st2 st3 t2 hy3
                  simp only
                  rw [L3.1, sorted_table c _ st3.notes t3 (fun n hn => by
                    show (do let t ← c.toPitch n none; pure t) = basicPitch c n
                    rw [toPitch_table c n (t3 n hn)])]
                  cases st3.notes.mapM (reqPitch c) <;> rfl


/-! ### notes of the tables, pitches -/

/-- the notes `_chord_notes_calc` returns are scale / chromatic notes of the tables -/
theorem calc_table (c : Chord) (f : Fig) (r a m : List String) (ns : List Note)
    (h : c.chordNotesCalc f r a m = .ok ns) : ∀ n ∈ ns, TableNote n := by
  unfold Chord.chordNotesCalc at h
  cases hb : BASE_EXTENSION_DICT f with
  | none => simp [hb, bind, Except.bind] at h
  | some base =>
    simp only [hb, bind, Except.bind, pure, Except.pure] at h
    have t0 : ∀ n ∈ ({ notes := base, nwo := base.map noOct } : CalcState).notes, TableNote n :=
      tables_are_tableNotes.1 f base hb
    cases h1 : calcReplacements r { notes := base, nwo := base.map noOct } a with
    | error e => simp [h1] at h
    | ok v1 =>
      obtain ⟨st1, adds⟩ := v1
      simp only [h1] at h
      cases h2 : calcAdditions adds st1 with
      | error e => simp [h2] at h
      | ok st2 =>
        simp only [h2] at h
        cases h3 : calcRemovals m st2 with
        | error e => simp [h3] at h
        | ok st3 =>
          simp only [h3] at h
          have t3 := calcRemovals_table m st2 st3
            (calcAdditions_table adds st1 st2 (calcReplacements_table r _ a st1 adds t0 h1) h2) h3
          cases h4 : st3.notes.mapM (reqPitch c) with
          | error e => simp [h4] at h
          | ok ps =>
            simp only [h4, Except.ok.injEq] at h
            intro n hn
            rw [← h] at hn
            exact t3 n ((mem_sortByKey _ _ n).mp hn)

theorem mapM_toPitch (c : Chord) (l : List Note) (hl : ∀ n ∈ l, TableNote n) :
    l.mapM (fun n => c.toPitch n none) = (do let ps ← l.mapM (reqPitch c); pure (ps.map some)) := by
  induction l with
  | nil => rfl
  | cons x xs ih =>
    have hx := hl x (List.mem_cons_self ..)
    rw [List.mapM_cons, List.mapM_cons, toPitch_table c x hx, basicPitch_table c x hx,
      ih (fun n hn => hl n (List.mem_cons_of_mem _ hn))]
    cases reqPitch c x with
    | error e => rfl
    | ok p => cases xs.mapM (reqPitch c) <;> rfl

theorem pitches_of_notes (c : Chord) (src : Res (List Note)) (f : Fig) (r a m : List String)
    (h : src = c.chordNotesCalc f r a m) :
    (do let t_1 ← src
        let t_3 ← t_1.mapM (fun (n : Note) => do let t_2 ← Chord.toPitch c n none; pure t_2)
        pure t_3 : Res (List (Option Int)))
      = (do let ps ← (do pitchesOf c (← c.chordNotesCalc f r a m)); pure (ps.map some)) := by
  subst h
  cases hn : c.chordNotesCalc f r a m with
  | error e => rfl
  | ok ns =>
    show (do let t_3 ← ns.mapM (fun n => c.toPitch n none); pure t_3) = _
    rw [mapM_toPitch c ns (calc_table c f r a m ns hn)]
    unfold pitchesOf
    simp only [bind, Except.bind]

/-! ### figures as text; `invert` -/

theorem ofStr_toStr (f : Fig) : Fig.ofStr? f.toStr = some f := by cases f <;> rfl

theorem propsToExt_fig (f : Fig) (r a m : List String) :
    Src.propsToExt f.toStr r a m = .ok { fig := f, repl := r, add := a, rem := m } := by
  unfold Src.propsToExt; rw [ofStr_toStr]

theorem bind_pure_res {α : Type} (x : Res α) : (do let t ← x; pure t) = x := by cases x <;> rfl

theorem idx4 (j : Int) (h0 : 0 ≤ j) (h4 : j < 4) :
    ∃ nf : Fig, pyIndex ["7", "65", "43", "2"] j = .ok nf.toStr ∧ pyIndex fourFigs j = .ok nf := by
  have : j = 0 ∨ j = 1 ∨ j = 2 ∨ j = 3 := by omega
  rcases this with rfl | rfl | rfl | rfl
  · exact ⟨.f7, rfl, rfl⟩
  · exact ⟨.f65, rfl, rfl⟩
  · exact ⟨.f43, rfl, rfl⟩
  · exact ⟨.f2, rfl, rfl⟩

theorem idx3 (j : Int) (h0 : 0 ≤ j) (h3 : j < 3) :
    ∃ nf : Fig, pyIndex ["", "6", "64"] j = .ok nf.toStr ∧ pyIndex threeFigs j = .ok nf := by
  have : j = 0 ∨ j = 1 ∨ j = 2 := by omega
  rcases this with rfl | rfl | rfl
  · exact ⟨.f0, rfl, rfl⟩
  · exact ⟨.f6, rfl, rfl⟩
  · exact ⟨.f64, rfl, rfl⟩

/-- `invert` on a figure of the four-note family, written with the position `i` of the figure in the family -/
theorem invert_four (c : Chord) (i : Nat) (k : Int) (r a m : List String) :
    (do let t_3 ← Py.mod ((i : Int) + k) (Py.len ["7", "65", "43", "2"])
        let t_4 ← pyIndex ["7", "65", "43", "2"] t_3
        let t_5 ← Src.propsToExt t_4 r a m
        let t_6 ← Chord.withExt c t_5
        pure t_6 : Res Chord)
      = (do let nf ← pyIndex fourFigs ((Int.ofNat i + k) % 4)
            c.withExt { fig := nf, repl := r, add := a, rem := m }) := by
  have hm : Py.mod ((i : Int) + k) (Py.len ["7", "65", "43", "2"]) = .ok (((i : Int) + k) % 4) := by
    unfold Py.mod Py.len
    simp only [List.length_cons, List.length_nil]
    rw [if_neg (by decide), Int.fmod_eq_emod_of_nonneg _ (by decide)]; rfl
  obtain ⟨nf, e1, e2⟩ := idx4 (((i : Int) + k) % 4) (Int.emod_nonneg _ (by decide)) (Int.emod_lt_of_pos _ (by decide))
  have e2' : pyIndex fourFigs ((Int.ofNat i + k) % 4) = .ok nf := e2
  rw [hm, e2']
  simp only [bind, Except.bind, e1, propsToExt_fig]

theorem invert_three (c : Chord) (i : Nat) (k : Int) (r a m : List String) :
    (do let t_3 ← Py.mod ((i : Int) + k) (Py.len ["", "6", "64"])
        let t_4 ← pyIndex ["", "6", "64"] t_3
        let t_5 ← Src.propsToExt t_4 r a m
        let t_6 ← Chord.withExt c t_5
        pure t_6 : Res Chord)
      = (do let nf ← pyIndex threeFigs ((Int.ofNat i + k) % 3)
            c.withExt { fig := nf, repl := r, add := a, rem := m }) := by
  have hm : Py.mod ((i : Int) + k) (Py.len ["", "6", "64"]) = .ok (((i : Int) + k) % 3) := by
    unfold Py.mod Py.len
    simp only [List.length_cons, List.length_nil]
    rw [if_neg (by decide), Int.fmod_eq_emod_of_nonneg _ (by decide)]; rfl
  obtain ⟨nf, e1, e2⟩ := idx3 (((i : Int) + k) % 3) (Int.emod_nonneg _ (by decide)) (Int.emod_lt_of_pos _ (by decide))
  have e2' : pyIndex threeFigs ((Int.ofNat i + k) % 3) = .ok nf := e2
  rw [hm, e2']
  simp only [bind, Except.bind, e1, propsToExt_fig]

/-! ### `properties_to_extension` (text) -/
theorem strJoin_empty (l : List String) : PyL.strJoin "" l = String.join l := by
  cases l with
  | nil => rfl
  | cons x xs =>
    unfold PyL.strJoin String.join
    simp only [List.foldl_cons, String.empty_append, String.append_empty]

theorem propsText (c : Chord) (e : Ext) :
    Src.Chord_properties_to_extension c e.fig.toStr e.repl e.add e.rem = e.toText := by
  unfold Src.Chord_properties_to_extension Ext.toText
  simp only [strJoin_empty, String.append_assoc]

/-! ### the text parser `get_extension_properties` -/

theorem split_head (s sep : String) : pyIndex (PyL.strSplit s sep) 0 = .ok ((s.splitOn sep).headD "") := by
  unfold PyL.strSplit
  cases s.splitOn sep <;> rfl

theorem strReplace_empty (s r : String) : PyL.strReplace s r "" = (if r.isEmpty then s else s.replace r "") := by
  unfold PyL.strReplace
  by_cases h : r.isEmpty = true
  · simp only [h, if_true]; rfl
  · simp only [h, if_false]; rfl

theorem extProps_text (text : String) : Src.Chord_get_extension_properties text = .ok (extPropsText text) := by
  unfold Src.Chord_get_extension_properties extPropsText
  rw [split_head]
  have p1 : ∀ s, Src.reFindall "\\((.*?)\\)" s = .ok (findGroups '(' ')' s.toList) := by
    intro s; unfold Src.reFindall; rw [if_pos rfl]
  have p2 : ∀ s, Src.reFindall "\\[(.*?)\\]" s = .ok (findGroups '[' ']' s.toList) := by
    intro s; unfold Src.reFindall; rw [if_neg (by decide), if_pos rfl]
  have p3 : ∀ s, Src.reFindall "\\{(.*?)\\}" s = .ok (findGroups '{' '}' s.toList) := by
    intro s; unfold Src.reFindall; rw [if_neg (by decide), if_neg (by decide), if_pos rfl]
  simp only [bind, Except.bind, p1, p2, p3, pure, Except.pure, strReplace_empty, List.append_assoc]
  rfl

end MV.TieExt
