/-
Render-level transposition (C04): a generic theorem about the note matrix of a score whose chords
and notes are transformed uniformly (`Transp`), from per-note pitch hypotheses (`GoodNote`).
The reference pitch of relative notes is tracked by a three-valued state per part:
no reference / a reference that moved by `D` / a reference that stayed.
-/
import MV.Lemmas.Transpose

namespace MV

/-- state of a part's last sounded pitch: `none` = no reference, `some true` = it moved by `D`,
`some false` = it did not move -/
abbrev RefSt := Option Bool

/-- which rows move: the non-relative kinds that move, and whether relative notes may hang on a
fixed / missing reference (they then do not move) -/
structure RefRule where
  /-- which non-relative kinds move by `D` -/
  mv : Kind → Bool
  /-- relative notes may hang on a fixed / missing reference -/
  relFixed : Bool

/-- a uniform transformation of a score: new harmonic content per chord, new note per note -/
structure Transp extends RefRule where
  D : Int
  hc : Chord → Chord
  gn : Note → Note

namespace RefRule

/-- does the row of a note of kind `k`, met in state `st`, move? -/
def moved (T : RefRule) (k : Kind) (st : RefSt) : Bool :=
  if k = .r ∨ k = .l then false else if k.isRelative then st == some true else T.mv k

def next (T : RefRule) (k : Kind) (st : RefSt) : RefSt :=
  if k = .r ∨ k = .l then st else some (T.moved k st)

def allowed (T : RefRule) (k : Kind) (st : RefSt) : Bool :=
  !k.isRelative || st == some true || T.relFixed

def maskMelody (T : RefRule) : Melody → RefSt → List Bool
  | [], _ => []
  | n :: ns, st => T.moved n.kind st :: T.maskMelody ns (T.next n.kind st)

def endSt (T : RefRule) : Melody → RefSt → RefSt
  | [], st => st
  | n :: ns, st => T.endSt ns (T.next n.kind st)

def okMelody (T : RefRule) : Melody → RefSt → Bool
  | [], _ => true
  | n :: ns, st => T.allowed n.kind st && T.okMelody ns (T.next n.kind st)

def maskTrack (T : RefRule) (track : String) : Score → RefSt → List Bool
  | [], _ => []
  | c :: cs, st =>
      match c.parts.lookup track with
      | some m => T.maskMelody m st ++ T.maskTrack track cs (T.endSt m st)
      | none => T.maskTrack track cs none

def okTrack (T : RefRule) (track : String) : Score → RefSt → Bool
  | [], _ => true
  | c :: cs, st =>
      match c.parts.lookup track with
      | some m => T.okMelody m st && T.okTrack track cs (T.endSt m st)
      | none => T.okTrack track cs none

/-- which rows of the note matrix move (aligned with `getNotes`) -/
def mask (T : RefRule) (s : Score) : List Bool := (trackList s).flatMap (fun t => T.maskTrack t s none)

/-- every relative note is met in an allowed state -/
def ok (T : RefRule) (s : Score) : Bool := (trackList s).all (fun t => T.okTrack t s none)

end RefRule

namespace Transp


def chord (T : Transp) (c : Chord) : Chord :=
  { T.hc c with parts := c.parts.map (fun p => (p.1, p.2.map T.gn)) }

def score (T : Transp) (s : Score) : Score := s.map T.chord

/-- what the transformation does to the pitch of one note on one chord -/
structure GoodNote (T : Transp) (c : Chord) (n : Note) : Prop where
  kind : (T.gn n).kind = n.kind
  dur : (T.gn n).dur = n.dur
  amp : (T.gn n).amp = n.amp
  tempo : (T.gn n).tempo = n.tempo
  pedal : (T.gn n).pedal = n.pedal
  moved : n.kind.isRelative = false → T.mv n.kind = true → ∀ last last',
    noteToPitch (T.chord c) (T.gn n) last' = shiftO T.D (noteToPitch c n last)
  fixed : n.kind.isRelative = false → T.mv n.kind = false → ∀ last last',
    noteToPitch (T.chord c) (T.gn n) last' = noteToPitch c n last
  rel : n.kind.isRelative = true → ∀ last r, noteToPitch c n last = .ok (some r) →
    Win last → Win (last + T.D) → Win r → Win (r + T.D) →
    noteToPitch (T.chord c) (T.gn n) (last + T.D) = .ok (some (r + T.D))
  relFix : T.relFixed = true → n.kind.isRelative = true → ∀ last,
    noteToPitch (T.chord c) (T.gn n) last = noteToPitch c n last

def Good (T : Transp) (s : Score) : Prop := ∀ c ∈ s, ∀ p ∈ c.parts, ∀ n ∈ p.2, T.GoodNote c n

end Transp

def shiftRow (D : Int) (b : Bool) (r : Row) : Row := if b then { r with pitch := r.pitch + D } else r

/-- rows whose pitch and transposed pitch are inside the window -/
def RowWin (D : Int) (r : Row) : Prop := Win r.pitch ∧ Win (r.pitch + D)

instance (D : Int) (r : Row) : Decidable (RowWin D r) := by unfold RowWin; exact inferInstance

def Inv (D : Int) (st : RefSt) (last last' : Option Int) : Prop :=
  match st with
  | none => last = none ∧ last' = none
  | some true => ∃ p, last = some p ∧ last' = some (p + D) ∧ Win p ∧ Win (p + D)
  | some false => ∃ p, last = some p ∧ last' = some p

def mkRow (n : Note) (track : Nat) (time : Rat) (last : Option Int) (o : Option Int) : Row :=
  { pitch := o.getD 0, offset := time, dur := n.dur, vel := n.amp, track,
    silence := n.kind == .r || (n.kind == .l && last.isNone), cont := n.kind == .l && last.isSome,
    tempo := n.tempo, pedal := n.pedal }

def newLast (n : Note) (last : Option Int) (o : Option Int) : Option Int :=
  if !((n.kind == .r || (n.kind == .l && last.isNone)) || (n.kind == .l && last.isSome)) then some (o.getD 0) else last

theorem noteToRow_of_pitch (n : Note) (c : Chord) (track : Nat) (time : Rat) (last o : Option Int)
    (hp : noteToPitch c n (last.getD 0) = .ok o) :
    noteToRow n c track time last = .ok (mkRow n track time last o, newLast n last o) := by
  unfold noteToRow mkRow newLast
  simp only [hp, bind, Except.bind, pure, Except.pure]

theorem noteToRow_inv (n : Note) (c : Chord) (track : Nat) (time : Rat) (last : Option Int) (row : Row)
    (lastOut : Option Int) (h : noteToRow n c track time last = .ok (row, lastOut)) :
    ∃ o, noteToPitch c n (last.getD 0) = .ok o ∧ row = mkRow n track time last o ∧ lastOut = newLast n last o := by
  cases hp : noteToPitch c n (last.getD 0) with
  | error e => unfold noteToRow at h; simp [hp, bind, Except.bind] at h
  | ok o =>
    rw [noteToRow_of_pitch n c track time last o hp] at h
    simp only [Except.ok.injEq, Prod.mk.injEq] at h
    exact ⟨o, rfl, h.1.symm, h.2.symm⟩

theorem noteToPitch_rl (c : Chord) (n : Note) (last : Int) (hk : n.kind = .r ∨ n.kind = .l) :
    noteToPitch c n last = .ok none := by
  unfold noteToPitch
  rcases hk with h | h <;> simp only [h] <;> rfl


theorem inv_isNone {D : Int} {st : RefSt} {last last' : Option Int} (h : Inv D st last last') :
    last'.isNone = last.isNone ∧ last'.isSome = last.isSome := by
  unfold Inv at h
  match st, h with
  | none, ⟨h1, h2⟩ => subst h1; subst h2; exact ⟨rfl, rfl⟩
  | some true, ⟨p, h1, h2, _⟩ => subst h1; subst h2; exact ⟨rfl, rfl⟩
  | some false, ⟨p, h1, h2⟩ => subst h1; subst h2; exact ⟨rfl, rfl⟩

theorem noteToRow_transp (T : Transp) (hx : T.mv .x = false) (c : Chord) (n : Note) (track : Nat) (time : Rat)
    (last last' : Option Int) (st : RefSt) (row : Row) (lastOut : Option Int)
    (hg : T.GoodNote c n) (hal : T.allowed n.kind st = true) (hinv : Inv T.D st last last')
    (h : noteToRow n c track time last = .ok (row, lastOut)) (hw : RowWin T.D row) :
    ∃ lastOut', noteToRow (T.gn n) (T.chord c) track time last' =
        .ok (shiftRow T.D (T.moved n.kind st) row, lastOut') ∧ Inv T.D (T.next n.kind st) lastOut lastOut' := by
  obtain ⟨o, hp, hrow, hlo⟩ := noteToRow_inv n c track time last row lastOut h
  obtain ⟨hn1, hn2⟩ := inv_isNone hinv
  by_cases hrl : n.kind = .r ∨ n.kind = .l
  · -- rests and continuations
    have hp' : noteToPitch (T.chord c) (T.gn n) (last'.getD 0) = .ok none :=
      noteToPitch_rl _ _ _ (by rw [hg.kind]; exact hrl)
    have ho : o = none := by
      rw [noteToPitch_rl c n _ hrl] at hp; cases hp; rfl
    refine ⟨last', ?_, ?_⟩
    · rw [noteToRow_of_pitch _ _ track time last' none hp']
      have hm : T.moved n.kind st = false := by unfold RefRule.moved; simp [hrl]
      simp only [hm, shiftRow, Bool.false_eq_true, if_false, hrow, ho]
      refine congrArg Except.ok (Prod.ext ?_ ?_)
      · unfold mkRow; simp only [hg.kind, hg.dur, hg.amp, hg.tempo, hg.pedal, hn1, hn2]
      · show newLast (T.gn n) last' none = last'
        unfold newLast
        rcases hrl with hk | hk
        · simp [hg.kind, hk]
        · cases last' <;> simp [hg.kind, hk]
    · have : T.next n.kind st = st := by unfold RefRule.next; simp [hrl]
      rw [this, hlo]
      unfold newLast
      rcases hrl with hk | hk
      · simpa [hk] using hinv
      · cases hl : last <;> simp [hk] <;> (rw [hl] at hinv; exact hinv)
  · -- sounding notes
    have hkr : n.kind ≠ .r := fun h => hrl (Or.inl h)
    have hkl : n.kind ≠ .l := fun h => hrl (Or.inr h)
    have hbr : (n.kind == Kind.r) = false := by simpa using hkr
    have hbl : (n.kind == Kind.l) = false := by simpa using hkl
    have hnl : ∀ (l : Option Int) (q : Option Int), newLast n l q = some (q.getD 0) := by
      intro l q; unfold newLast; simp [hbr, hbl]
    have hnl' : ∀ (l : Option Int) (q : Option Int), newLast (T.gn n) l q = some (q.getD 0) := by
      intro l q; unfold newLast; simp [hg.kind, hbr, hbl]
    have hrowEq : ∀ (l l' : Option Int) (q : Option Int),
        mkRow (T.gn n) track time l' q = mkRow n track time l q := by
      intro l l' q; unfold mkRow; simp [hg.kind, hg.dur, hg.amp, hg.tempo, hg.pedal, hbr, hbl]
    have hnext : T.next n.kind st = some (T.moved n.kind st) := by unfold RefRule.next; simp [hrl]
    -- the case where the row moves: both pitches known
    have movedCase : ∀ (q : Int), o = some q →
        noteToPitch (T.chord c) (T.gn n) (last'.getD 0) = .ok (some (q + T.D)) → T.moved n.kind st = true →
        ∃ lastOut', noteToRow (T.gn n) (T.chord c) track time last' =
          .ok (shiftRow T.D (T.moved n.kind st) row, lastOut') ∧ Inv T.D (T.next n.kind st) lastOut lastOut' := by
      intro q hoq hp' hm
      refine ⟨some (q + T.D), ?_, ?_⟩
      · rw [noteToRow_of_pitch _ _ track time last' _ hp', hnl', hm, hrow, hoq]
        simp only [shiftRow, if_true, Option.getD_some]
        congr 1
        rw [hrowEq last last' (some (q + T.D))]
        unfold mkRow; simp
      · rw [hnext, hm, hlo, hnl, hoq]
        unfold RowWin at hw
        rw [hrow, hoq] at hw
        exact ⟨q, rfl, rfl, by simpa [mkRow] using hw.1, by simpa [mkRow] using hw.2⟩
    -- the case where the row stays
    have fixedCase : noteToPitch (T.chord c) (T.gn n) (last'.getD 0) = .ok o → T.moved n.kind st = false →
        ∃ lastOut', noteToRow (T.gn n) (T.chord c) track time last' =
          .ok (shiftRow T.D (T.moved n.kind st) row, lastOut') ∧ Inv T.D (T.next n.kind st) lastOut lastOut' := by
      intro hp' hm
      refine ⟨some (o.getD 0), ?_, ?_⟩
      · rw [noteToRow_of_pitch _ _ track time last' _ hp', hnl', hm, hrow]
        simp only [shiftRow, Bool.false_eq_true, if_false]
        rw [hrowEq last last' o]
      · rw [hnext, hm, hlo, hnl]
        exact ⟨o.getD 0, rfl, rfl⟩
    by_cases hrel : n.kind.isRelative = true
    · -- relative notes
      have hsome : ∃ q, o = some q :=
        noteToPitch_some c n _ o ⟨hkr, hkl, by intro hx'; rw [hx'] at hrel; simp [Kind.isRelative] at hrel⟩ hp
      obtain ⟨q, hoq⟩ := hsome
      by_cases hst : st = some true
      · subst hst
        obtain ⟨p0, h1, h2, w1, w2⟩ := hinv
        subst h1; subst h2
        have hm : T.moved n.kind (some true) = true := by unfold RefRule.moved; simp [hrl, hrel]
        apply movedCase q hoq _ hm
        simp only [Option.getD_some] at hp ⊢
        rw [hoq] at hp
        unfold RowWin at hw
        rw [hrow, hoq] at hw
        exact hg.rel hrel p0 q hp w1 w2 (by simpa [mkRow] using hw.1) (by simpa [mkRow] using hw.2)
      · have hrf : T.relFixed = true := by
          unfold RefRule.allowed at hal
          simp only [hrel, Bool.not_true, Bool.false_or, Bool.or_eq_true, beq_iff_eq] at hal
          rcases hal with h | h
          · exact absurd h hst
          · exact h
        have hll : last' = last := by
          unfold Inv at hinv
          match st, hinv, hst with
          | none, ⟨h1, h2⟩, _ => rw [h1, h2]
          | some false, ⟨p, h1, h2⟩, _ => rw [h1, h2]
          | some true, _, hst => exact absurd rfl hst
        have hm : T.moved n.kind st = false := by
          unfold RefRule.moved; simp only [hrl, if_false, hrel, if_true]
          cases st with
          | none => rfl
          | some b => cases b with
            | true => exact absurd rfl hst
            | false => rfl
        apply fixedCase _ hm
        rw [hll, hg.relFix hrf hrel]; exact hp
    · -- non-relative sounding notes
      have hrel' : n.kind.isRelative = false := by simpa using hrel
      have hmk : T.moved n.kind st = T.mv n.kind := by unfold RefRule.moved; simp [hrl, hrel']
      cases hmv : T.mv n.kind with
      | true =>
        have hkx : n.kind ≠ .x := by intro hx'; rw [hx'] at hmv; rw [hx] at hmv; cases hmv
        obtain ⟨q, hoq⟩ := noteToPitch_some c n _ o ⟨hkr, hkl, hkx⟩ hp
        apply movedCase q hoq _ (by rw [hmk, hmv])
        rw [hg.moved hrel' hmv (last.getD 0) (last'.getD 0), hp, hoq]; rfl
      | false =>
        apply fixedCase _ (by rw [hmk, hmv])
        rw [hg.fixed hrel' hmv (last.getD 0) (last'.getD 0)]; exact hp


theorem melodyToRows_length (m : Melody) (c : Chord) (track : Nat) (time : Rat) (last : Option Int)
    (rows : List Row) (lastOut : Option Int) (h : melodyToRows m c track time last = .ok (rows, lastOut)) :
    rows.length = m.length := by
  induction m generalizing time last rows lastOut with
  | nil => simp only [melodyToRows, pure, Except.pure, Except.ok.injEq, Prod.mk.injEq] at h; rw [← h.1]; rfl
  | cons n ns ih =>
    simp only [melodyToRows, bind, Except.bind] at h
    cases h1 : noteToRow n c track time last with
    | error e => simp [h1] at h
    | ok p1 =>
      obtain ⟨row, last1⟩ := p1
      simp only [h1] at h
      cases h2 : melodyToRows ns c track (time + n.dur) last1 with
      | error e => simp [h2] at h
      | ok p2 =>
        obtain ⟨rows2, last2⟩ := p2
        simp only [h2, pure, Except.pure, Except.ok.injEq, Prod.mk.injEq] at h
        rw [← h.1, List.length_cons, List.length_cons, ih _ _ _ _ h2]

theorem maskMelody_length (T : Transp) (m : Melody) (st : RefSt) : (T.maskMelody m st).length = m.length := by
  induction m generalizing st with
  | nil => rfl
  | cons n ns ih => simp only [RefRule.maskMelody, List.length_cons, ih]

theorem melodyToRows_transp (T : Transp) (hx : T.mv .x = false) (c : Chord) (m : Melody) (track : Nat) (time : Rat)
    (last last' : Option Int) (st : RefSt) (rows : List Row) (lastOut : Option Int)
    (hg : ∀ n ∈ m, T.GoodNote c n) (hok : T.okMelody m st = true) (hinv : Inv T.D st last last')
    (h : melodyToRows m c track time last = .ok (rows, lastOut)) (hw : ∀ r ∈ rows, RowWin T.D r) :
    ∃ lastOut', melodyToRows (m.map T.gn) (T.chord c) track time last' =
        .ok (List.zipWith (shiftRow T.D) (T.maskMelody m st) rows, lastOut') ∧
      Inv T.D (T.endSt m st) lastOut lastOut' := by
  induction m generalizing time last last' st rows lastOut with
  | nil =>
    simp only [melodyToRows, pure, Except.pure, Except.ok.injEq, Prod.mk.injEq] at h
    refine ⟨last', ?_, ?_⟩
    · simp only [List.map_nil, melodyToRows, pure, Except.pure, RefRule.maskMelody, ← h.1, List.zipWith_nil_left]
    · rw [← h.2]; exact hinv
  | cons n ns ih =>
    simp only [melodyToRows, bind, Except.bind] at h
    cases h1 : noteToRow n c track time last with
    | error e => simp [h1] at h
    | ok p1 =>
      obtain ⟨row, last1⟩ := p1
      simp only [h1] at h
      cases h2 : melodyToRows ns c track (time + n.dur) last1 with
      | error e => simp [h2] at h
      | ok p2 =>
        obtain ⟨rows2, last2⟩ := p2
        simp only [h2, pure, Except.pure, Except.ok.injEq, Prod.mk.injEq] at h
        obtain ⟨hrows, hlast⟩ := h
        subst hrows; subst hlast
        simp only [RefRule.okMelody, Bool.and_eq_true] at hok
        obtain ⟨l1', hr1, hinv1⟩ := noteToRow_transp T hx c n track time last last' st row last1
          (hg n (by simp)) hok.1 hinv h1 (hw row (by simp))
        obtain ⟨l2', hr2, hinv2⟩ := ih (time + n.dur) last1 l1' (T.next n.kind st) rows2 last2
          (fun x hx' => hg x (by simp [hx'])) hok.2 hinv1 h2 (fun r hr => hw r (by simp [hr]))
        refine ⟨l2', ?_, hinv2⟩
        simp only [List.map_cons, melodyToRows, bind, Except.bind, hr1, (hg n (by simp)).dur, hr2, pure, Except.pure,
          RefRule.maskMelody, List.zipWith_cons_cons]

theorem lookup_map_parts (ps : List (String × Melody)) (t : String) (f : Melody → Melody) :
    (ps.map (fun p => (p.1, f p.2))).lookup t = (ps.lookup t).map f := by
  induction ps with
  | nil => rfl
  | cons p ps ih =>
    obtain ⟨k, v⟩ := p
    simp only [List.map_cons, List.lookup]
    cases t == k <;> simp [ih]

theorem lookup_mem (ps : List (String × Melody)) (t : String) (m : Melody) (h : ps.lookup t = some m) :
    ∃ p ∈ ps, p.2 = m := by
  induction ps with
  | nil => simp [List.lookup] at h
  | cons p ps ih =>
    obtain ⟨k, v⟩ := p
    simp only [List.lookup] at h
    cases hb : t == k with
    | true => simp only [hb, Option.some.injEq] at h; exact ⟨(k, v), by simp, h⟩
    | false =>
      simp only [hb] at h
      obtain ⟨p, hp, hm⟩ := ih h
      exact ⟨p, by simp [hp], hm⟩

theorem melodyDuration_map (T : Transp) (m : Melody) (h : ∀ n ∈ m, (T.gn n).dur = n.dur) :
    melodyDuration (m.map T.gn) = melodyDuration m := by
  unfold melodyDuration
  congr 1
  rw [List.map_map]
  apply List.map_congr_left
  intro n hn; exact h n hn

theorem chord_dur_transp (T : Transp) (c : Chord) (h : ∀ p ∈ c.parts, ∀ n ∈ p.2, (T.gn n).dur = n.dur) :
    (T.chord c).dur = c.dur := by
  unfold Chord.dur Transp.chord
  simp only [List.map_map]
  have : (c.parts.map ((fun p => melodyDuration p.2) ∘ fun p => (p.1, p.2.map T.gn)))
      = c.parts.map (fun p => melodyDuration p.2) := by
    apply List.map_congr_left
    intro p hp
    simp only [Function.comp]
    exact melodyDuration_map T p.2 (h p hp)
  rw [this]


theorem trackRows_transp (T : Transp) (hx : T.mv .x = false) (t : String) (idx : Nat) (s : Score) (time : Rat)
    (last last' : Option Int) (st : RefSt) (rows : List Row)
    (hg : T.Good s) (hok : T.okTrack t s st = true) (hinv : Inv T.D st last last')
    (h : trackRows t idx s time last = .ok rows) (hw : ∀ r ∈ rows, RowWin T.D r) :
    trackRows t idx (T.score s) time last' = .ok (List.zipWith (shiftRow T.D) (T.maskTrack t s st) rows) := by
  induction s generalizing time last last' st rows with
  | nil =>
    simp only [trackRows, pure, Except.pure, Except.ok.injEq] at h
    subst h
    simp [Transp.score, trackRows, pure, Except.pure, RefRule.maskTrack]
  | cons c cs ih =>
    have hgc : ∀ p ∈ c.parts, ∀ n ∈ p.2, T.GoodNote c n := fun p hp n hn => hg c (by simp) p hp n hn
    have hgcs : T.Good cs := fun c' hc' => hg c' (by simp [hc'])
    have hdur : (T.chord c).dur = c.dur := chord_dur_transp T c (fun p hp n hn => (hgc p hp n hn).dur)
    have hlk : (T.chord c).parts.lookup t = (c.parts.lookup t).map (·.map T.gn) := by
      unfold Transp.chord; exact lookup_map_parts c.parts t (·.map T.gn)
    simp only [Transp.score, List.map_cons, trackRows, hlk, hdur]
    simp only [trackRows] at h
    simp only [RefRule.okTrack] at hok
    simp only [RefRule.maskTrack]
    cases hl : c.parts.lookup t with
    | none =>
      simp only [hl] at h hok ⊢
      simp only [Option.map_none]
      exact ih (time + c.dur) none none none rows hgcs hok ⟨rfl, rfl⟩ h hw
    | some part =>
      simp only [hl, bind, Except.bind] at h hok ⊢
      simp only [Option.map_some]
      obtain ⟨p, hp, hpm⟩ := lookup_mem c.parts t part hl
      simp only [Bool.and_eq_true] at hok
      cases h1 : melodyToRows part c idx time last with
      | error e => simp [h1] at h
      | ok p1 =>
        obtain ⟨rows1, last1⟩ := p1
        simp only [h1] at h
        cases h2 : trackRows t idx cs (time + c.dur) last1 with
        | error e => simp [h2] at h
        | ok rest =>
          simp only [h2, pure, Except.pure, Except.ok.injEq] at h
          subst h
          obtain ⟨l1', hr1, hinv1⟩ := melodyToRows_transp T hx c part idx time last last' st rows1 last1
            (fun n hn => hgc p hp n (by rw [hpm]; exact hn)) hok.1 hinv h1 (fun r hr => hw r (by simp [hr]))
          have hr2 := ih (time + c.dur) last1 l1' (T.endSt part st) rest hgcs hok.2 hinv1 h2
            (fun r hr => hw r (by simp [hr]))
          simp only [hr1]
          have hr2' : trackRows t idx (List.map T.chord cs) (time + c.dur) l1' = _ := hr2
          simp only [hr2', pure, Except.pure]
          rw [List.zipWith_append]
          rw [maskMelody_length, melodyToRows_length _ _ _ _ _ _ _ h1]


theorem maskTrack_length (T : Transp) (t : String) (idx : Nat) (s : Score) (time : Rat) (last : Option Int)
    (st : RefSt) (rows : List Row) (h : trackRows t idx s time last = .ok rows) :
    (T.maskTrack t s st).length = rows.length := by
  induction s generalizing time last st rows with
  | nil => simp only [trackRows, pure, Except.pure, Except.ok.injEq] at h; subst h; rfl
  | cons c cs ih =>
    simp only [trackRows] at h
    simp only [RefRule.maskTrack]
    cases hl : c.parts.lookup t with
    | none => simp only [hl] at h ⊢; exact ih _ _ _ _ h
    | some part =>
      simp only [hl, bind, Except.bind] at h ⊢
      cases h1 : melodyToRows part c idx time last with
      | error e => simp [h1] at h
      | ok p1 =>
        obtain ⟨rows1, last1⟩ := p1
        simp only [h1] at h
        cases h2 : trackRows t idx cs (time + c.dur) last1 with
        | error e => simp [h2] at h
        | ok rest =>
          simp only [h2, pure, Except.pure, Except.ok.injEq] at h
          subst h
          rw [List.length_append, List.length_append, maskMelody_length, melodyToRows_length _ _ _ _ _ _ _ h1,
            ih _ _ _ _ h2]

theorem trackList_transp (T : Transp) (s : Score) : trackList (T.score s) = trackList s := by
  unfold trackList Transp.score
  congr 1
  rw [List.flatMap_map]
  congr 1
  funext c
  unfold Transp.chord
  simp only [List.map_map]
  apply List.map_congr_left
  intro p _; rfl

theorem getNotes_aux (T : Transp) (hx : T.mv .x = false) (s : Score) (hg : T.Good s)
    (l : List (String × Nat)) (per : List (List Row))
    (h : l.mapM (fun (p : String × Nat) => trackRows p.1 p.2 s 0 none) = .ok per)
    (hw : ∀ r ∈ per.flatten, RowWin T.D r) (hok : ∀ p ∈ l, T.okTrack p.1 s none = true) :
    ∃ per', l.mapM (fun (p : String × Nat) => trackRows p.1 p.2 (T.score s) 0 none) = .ok per' ∧
      per'.flatten = List.zipWith (shiftRow T.D) (l.flatMap (fun p => T.maskTrack p.1 s none)) per.flatten := by
  induction l generalizing per with
  | nil =>
    simp only [List.mapM_nil, pure, Except.pure, Except.ok.injEq] at h
    subst h
    exact ⟨[], rfl, by simp⟩
  | cons p l ih =>
    simp only [List.mapM_cons, bind, Except.bind] at h
    cases h1 : trackRows p.1 p.2 s 0 none with
    | error e => simp [h1] at h
    | ok y =>
      simp only [h1] at h
      cases h2 : l.mapM (fun (p : String × Nat) => trackRows p.1 p.2 s 0 none) with
      | error e => simp [h2] at h
      | ok per2 =>
        simp only [h2, pure, Except.pure, Except.ok.injEq] at h
        subst h
        have hy := trackRows_transp T hx p.1 p.2 s 0 none none none y hg (hok p (by simp)) ⟨rfl, rfl⟩ h1
          (fun r hr => hw r (by simp [hr]))
        obtain ⟨per2', hm2, hf2⟩ := ih per2 h2 (fun r hr => hw r (by simp only [List.flatten_cons, List.mem_append]; exact Or.inr hr))
          (fun q hq => hok q (by simp [hq]))
        refine ⟨List.zipWith (shiftRow T.D) (T.maskTrack p.1 s none) y :: per2', ?_, ?_⟩
        · simp only [List.mapM_cons, bind, Except.bind, hy, hm2, pure, Except.pure]
        · simp only [List.flatten_cons, List.flatMap_cons, hf2]
          rw [List.zipWith_append]
          exact maskTrack_length T p.1 p.2 s 0 none none y h1

theorem flatMap_zipIdx {α β : Type} (l : List α) (k : Nat) (f : α → List β) :
    (l.zipIdx k).flatMap (fun p => f p.1) = l.flatMap f := by
  induction l generalizing k with
  | nil => rfl
  | cons a t ih => simp only [List.zipIdx_cons, List.flatMap_cons, ih]

theorem mem_zipIdx_fst {α : Type} (l : List α) (k : Nat) (p : α × Nat) (h : p ∈ l.zipIdx k) : p.1 ∈ l := by
  induction l generalizing k with
  | nil => simp at h
  | cons a t ih =>
    simp only [List.zipIdx_cons, List.mem_cons] at h
    rcases h with h | h
    · subst h; simp
    · exact List.mem_cons_of_mem _ (ih _ h)

/-- **generic render theorem**: the note matrix of the transformed score is the note matrix of the
score with exactly the masked rows' pitches moved by `D`; every other column is unchanged -/
theorem getNotes_transp (T : Transp) (hx : T.mv .x = false) (s : Score) (rows : List Row)
    (hg : T.Good s) (hok : T.ok s = true) (h : getNotes s = .ok rows) (hw : ∀ r ∈ rows, RowWin T.D r) :
    getNotes (T.score s) = .ok (List.zipWith (shiftRow T.D) (T.mask s) rows) := by
  unfold getNotes at h ⊢
  rw [trackList_transp]
  simp only [bind, Except.bind] at h ⊢
  have hfun : (fun (x : String × Nat) => match x with | (t, i) => trackRows t i s 0 none)
      = (fun (p : String × Nat) => trackRows p.1 p.2 s 0 none) := by funext ⟨t, i⟩; rfl
  have hfun' : (fun (x : String × Nat) => match x with | (t, i) => trackRows t i (T.score s) 0 none)
      = (fun (p : String × Nat) => trackRows p.1 p.2 (T.score s) 0 none) := by funext ⟨t, i⟩; rfl
  rw [hfun] at h
  rw [hfun']
  cases hm : (trackList s).zipIdx.mapM (fun (p : String × Nat) => trackRows p.1 p.2 s 0 none) with
  | error e => simp [hm] at h
  | ok per =>
    simp only [hm, pure, Except.pure, Except.ok.injEq] at h
    subst h
    have hokl : ∀ p ∈ (trackList s).zipIdx, T.okTrack p.1 s none = true := by
      intro p hp
      unfold RefRule.ok at hok
      rw [List.all_eq_true] at hok
      apply hok
      exact mem_zipIdx_fst _ _ _ hp
    obtain ⟨per', hm', hf'⟩ := getNotes_aux T hx s hg _ per hm hw hokl
    simp only [hm', pure, Except.pure, hf']
    unfold RefRule.mask
    rw [flatMap_zipIdx (trackList s) 0 (fun t => T.maskTrack t s none)]

end MV
